(* Flt/FltArchiveProofs.v -- a filter restored from its archived Message form is the filter that was archived
   (hence decides identically on every Message), and building a filter from ANY Message terminates cleanly (C14). *)
From Coq Require Import List NArith ZArith Bool Strings.Byte Lia.
From Muscle Require Import Gen.Consts Msg.MsgDefs Msg.MsgModel Msg.MsgApi Msg.MsgBytesProofs
  Flt.FltModel Flt.FltArchive Flt.FltLemmas.
Import ListNotations.
Local Open Scope N_scope.

(* ------------------------------------------------------------------ the domain: members within their C++ types *)

Definition opt_nonempty (o : option bytes) : Prop := match o with Some b => len b <> 0 | None => True end.

Fixpoint wf_filter (f : qfilter) : Prop :=
  match f with
  | FWhat mn mx => mn < two32 /\ mx < two32                                   (* uint32 _minWhatCode, _maxWhatCode *)
  | FExists _ idx tc => idx < two32 /\ tc < two32                            (* uint32 _index, _typeCode *)
  | FNum _ _ idx op mop _ _ _ => idx < two32 /\ op < 256 /\ mop < 256        (* uint8 _op, _maskOp *)
  | FStr _ _ idx op _ _ => idx < two32 /\ op < 256
  | FRaw _ idx op tc val def =>
      idx < two32 /\ op < 256 /\ tc < two32 /\ opt_nonempty val /\ opt_nonempty def   (* a held ByteBuffer has bytes *)
  | FMsg _ idx kid _ => idx < two32 /\ wf_ofilter kid
  | FMin n kids => n < two32 /\ wf_flist kids
  | FMax n kids => n < two32 /\ wf_flist kids
  | FXor kids => wf_flist kids
  end
with wf_flist (l : flist) : Prop :=
  match l with LNil => True | LCons f t => wf_filter f /\ wf_flist t end
with wf_ofilter (o : ofilter) : Prop :=
  match o with ONone => True | OSome f => wf_filter f end.

(* ------------------------------------------------------------------ integers through the archive *)

Lemma uval32_le_enc v : v < two32 -> uval 32 (le_enc 4 v) = v.
Proof.
  intros H. unfold uval. rewrite le_dec_le_enc.
  change (256 ^ N.of_nat 4) with two32. change (2 ^ 32) with two32.
  rewrite N.mod_mod by (unfold two32; lia). apply N.mod_small. exact H.
Qed.

Lemma uval8_le_enc v : v < 256 -> uval 8 (le_enc 1 v) = v.
Proof.
  intros H. unfold uval. rewrite le_dec_le_enc.
  change (256 ^ N.of_nat 1) with 256. change (2 ^ 8) with 256.
  rewrite N.mod_mod by lia. apply N.mod_small. exact H.
Qed.

(* ------------------------------------------------------------------ the factory's dispatch on the what-code *)

Lemma from_level_what inner a :
  msg_what a = c_QUERY_FILTER_TYPE_WHATCODE ->
  from_level inner a = (let mn := get_i32 a nm_what_min 0 in Ok (FWhat mn (get_i32 a nm_what_max mn))).
Proof. intros H. unfold from_level. rewrite H. reflexivity. Qed.

Lemma from_level_exists inner a :
  msg_what a = c_QUERY_FILTER_TYPE_VALUEEXISTS ->
  from_level inner a = bind (load_value a) (fun p => Ok (FExists (fst p) (snd p) (get_i32 a nm_exists_type c_B_ANY_TYPE))).
Proof. intros H. unfold from_level. rewrite H. reflexivity. Qed.

Lemma from_level_num inner k a : msg_what a = nk_what k -> from_level inner a = load_num k a.
Proof. intros H. unfold from_level. rewrite H. destruct k as [t|]; [destruct t|]; reflexivity. Qed.

Lemma from_level_str inner nn a : msg_what a = str_what nn -> from_level inner a = load_str nn a.
Proof. intros H. unfold from_level. rewrite H. destruct nn; reflexivity. Qed.

Lemma from_level_raw inner a : msg_what a = c_QUERY_FILTER_TYPE_RAWDATA -> from_level inner a = load_raw a.
Proof. intros H. unfold from_level. rewrite H. reflexivity. Qed.

Lemma from_level_msg inner a : msg_what a = c_QUERY_FILTER_TYPE_MESSAGE -> from_level inner a = load_msg inner a.
Proof. intros H. unfold from_level. rewrite H. reflexivity. Qed.

Lemma from_level_min inner a :
  msg_what a = c_QUERY_FILTER_TYPE_MINMATCH ->
  from_level inner a = bind (kids_of inner (find_msgs a nm_multi_kid)) (fun ks => Ok (FMin (get_i32 a nm_min_matches c_MUSCLE_NO_LIMIT) ks)).
Proof. intros H. unfold from_level. rewrite H. reflexivity. Qed.

Lemma from_level_max inner a :
  msg_what a = c_QUERY_FILTER_TYPE_MAXMATCH ->
  from_level inner a = bind (kids_of inner (find_msgs a nm_multi_kid)) (fun ks => Ok (FMax (get_i32 a nm_max_matches 0) ks)).
Proof. intros H. unfold from_level. rewrite H. reflexivity. Qed.

Lemma from_level_xor inner a :
  msg_what a = c_QUERY_FILTER_TYPE_XOR ->
  from_level inner a = bind (kids_of inner (find_msgs a nm_multi_kid)) (fun ks => Ok (FXor ks)).
Proof. intros H. unfold from_level. rewrite H. reflexivity. Qed.

(* ------------------------------------------------------------------ reading back what was written, class by class *)

(* every read of the archive becomes a fold of [upd] over the list of Add calls, which computes *)
Ltac to_lookups :=
  unfold load_num, load_str, load_raw, load_msg, load_value, raw_of, find_fix, find_data, find_string, find_msg,
         get_i32, get_i8, find_int, find_item, find_msgs, get_field;
  repeat match goal with
         | |- context [flookup ?n (msg_fields ?a)] => change (flookup n (msg_fields a)) with (lookup a n)
         end;
  rewrite ?lookup_apply_ops.

Ltac finish_ints :=
  rewrite ?uval32_le_enc, ?uval8_le_enc by assumption; try reflexivity.

Lemma rt_what inner mn mx :
  mn < two32 -> mx < two32 -> from_level inner (to_archive (FWhat mn mx)) = Ok (FWhat mn mx).
Proof.
  intros Hmn Hmx. rewrite from_level_what by (cbn [to_archive]; apply what_apply_ops).
  cbn [to_archive]. to_lookups. unfold cop_i32.
  destruct (mn =? 0) eqn:E0; destruct (mx =? mn) eqn:E1;
    try (apply N.eqb_eq in E0); try (apply N.eqb_eq in E1); subst;
    cbn -[le_enc uval]; finish_ints.
Qed.

Lemma rt_exists inner name idx tc :
  idx < two32 -> tc < two32 -> from_level inner (to_archive (FExists name idx tc)) = Ok (FExists name idx tc).
Proof.
  intros Hi Ht. rewrite from_level_exists by (cbn [to_archive]; apply what_apply_ops).
  cbn [to_archive]. to_lookups. unfold value_ops, cop_i32.
  destruct (idx =? 0) eqn:E0; destruct (tc =? c_B_ANY_TYPE) eqn:E1;
    try (apply N.eqb_eq in E0); try (apply N.eqb_eq in E1); subst;
    cbn -[le_enc uval]; finish_ints.
Qed.

Lemma rt_str inner nn name idx op val def :
  idx < two32 -> op < 256 ->
  from_level inner (to_archive (FStr nn name idx op val def)) = Ok (FStr nn name idx op val def).
Proof.
  intros Hi Ho. rewrite (from_level_str inner nn) by (cbn [to_archive]; apply what_apply_ops).
  cbn [to_archive]. to_lookups. unfold value_ops, cop_i32.
  destruct (idx =? 0) eqn:E0; destruct def as [d|];
    try (apply N.eqb_eq in E0); subst;
    cbn -[le_enc uval]; finish_ints.
Qed.

Lemma rt_raw inner name idx op tc val def :
  idx < two32 -> op < 256 -> tc < two32 -> opt_nonempty val -> opt_nonempty def ->
  from_level inner (to_archive (FRaw name idx op tc val def)) = Ok (FRaw name idx op tc val def).
Proof.
  intros Hi Ho Ht Hv Hd. rewrite from_level_raw by (cbn [to_archive]; apply what_apply_ops).
  cbn [to_archive]. to_lookups. unfold value_ops, cop_i32, cop_raw.
  destruct (idx =? 0) eqn:E0; destruct (tc =? c_B_ANY_TYPE) eqn:E1;
    destruct val as [v|]; destruct def as [d|]; cbn [opt_nonempty] in Hv, Hd;
    try (apply N.eqb_eq in E0); try (apply N.eqb_eq in E1); subst;
    repeat match goal with
           | H : len ?x <> 0 |- _ => apply N.eqb_neq in H
           end;
    repeat match goal with
           | H : (len ?x =? 0) = false |- context [len ?x =? 0] => rewrite H
           end;
    cbn -[le_enc uval len];
    repeat match goal with
           | H : (len ?x =? 0) = false |- context [len ?x =? 0] => rewrite H
           end;
    finish_ints.
Qed.

Lemma rt_num inner k name idx op mop val msk def :
  idx < two32 -> op < 256 -> mop < 256 ->
  from_level inner (to_archive (FNum k name idx op mop val msk def)) = Ok (FNum k name idx op mop val msk def).
Proof.
  intros Hi Ho Hm. rewrite (from_level_num inner k) by (cbn [to_archive]; apply what_apply_ops).
  cbn [to_archive]. to_lookups. unfold value_ops, cop_i32, cop_i8.
  destruct (idx =? 0) eqn:E0; destruct (op =? 0) eqn:E1; destruct (mop =? 0) eqn:E2;
    try (apply N.eqb_eq in E0); try (apply N.eqb_eq in E1); try (apply N.eqb_eq in E2); subst;
    destruct def as [d|]; (destruct k as [t|]; [destruct t|]);
    cbn -[le_enc uval]; finish_ints.
Qed.

Lemma rt_msg inner name idx kid defmsg :
  idx < two32 ->
  (forall k, kid = OSome k -> inner (to_archive k) = Ok k) ->
  from_level inner (to_archive (FMsg name idx kid defmsg)) = Ok (FMsg name idx kid defmsg).
Proof.
  intros Hi Hk. rewrite from_level_msg by (cbn [to_archive]; apply what_apply_ops).
  cbn [to_archive]. to_lookups. unfold value_ops, cop_i32.
  destruct (idx =? 0) eqn:E0; try (apply N.eqb_eq in E0); subst;
    destruct kid as [|k]; destruct defmsg as [d|];
    cbn -[le_enc uval to_archive]; rewrite ?(Hk k eq_refl); cbn [bind]; finish_ints.
Qed.

(* ------------------------------------------------------------------ the children of a MultiQueryFilter *)

Definition items_of (cur : option (N * repr)) : list item :=
  match cur with None => [] | Some (_, r) => repr_items r end.
Definition is_msg_field (cur : option (N * repr)) : Prop :=
  match cur with None => True | Some (tc, _) => tc = c_B_MESSAGE_TYPE end.

Lemma upd_kid cur s :
  is_msg_field cur ->
  exists r, upd nm_multi_kid cur (op_msg nm_multi_kid s) = Some (c_B_MESSAGE_TYPE, r)
            /\ repr_items r = items_of cur ++ [IMsg s].
Proof.
  intros H. unfold upd, op_msg. cbn [fst snd]. rewrite bytes_eqb_refl.
  change (c_B_MESSAGE_TYPE =? c_B_ANY_TYPE) with false. cbv iota.
  destruct cur as [[tc r]|]; cbn [is_msg_field items_of] in *.
  - subst tc. rewrite N.eqb_refl. eexists. split; [reflexivity|]. apply repr_items_push.
  - eexists. split; reflexivity.
Qed.

Fixpoint kid_msgs (kids : flist) : list msg :=
  match kids with LNil => [] | LCons k tl => to_archive k :: kid_msgs tl end.

Lemma fold_kid_ops kids : forall cur,
  is_msg_field cur ->
  let res := fold_left (upd nm_multi_kid) (kid_ops kids) cur in
  is_msg_field res /\ items_of res = items_of cur ++ map IMsg (kid_msgs kids).
Proof.
  induction kids as [|k tl IH]; intros cur Hc; cbn [kid_ops fold_left kid_msgs map].
  - split; [exact Hc|]. rewrite app_nil_r. reflexivity.
  - destruct (upd_kid cur (to_archive k) Hc) as [r [Hr Hi]].
    rewrite Hr. specialize (IH (Some (c_B_MESSAGE_TYPE, r)) eq_refl). cbv zeta in IH.
    destruct IH as [IH1 IH2]. split; [exact IH1|].
    rewrite IH2. cbn [items_of]. rewrite Hi, <- app_assoc. reflexivity.
Qed.

Lemma items_msgs_map ms : forall l, items_to_list l = map IMsg ms -> items_msgs l = ms.
Proof.
  induction ms as [|m t IH]; intros l H; destruct l as [|i l']; cbn [items_to_list map items_msgs] in *;
    try discriminate; try reflexivity.
  injection H as -> H. rewrite (IH l' H). reflexivity.
Qed.

(* FindMessage("kid", i, ..) for i = 0, 1, .. on a field holding exactly the Messages ms *)
Lemma msgs_of_field cur ms :
  is_msg_field cur -> items_of cur = map IMsg ms ->
  match match cur with
        | Some (tc', r) => if (c_B_MESSAGE_TYPE =? c_B_ANY_TYPE) || (c_B_MESSAGE_TYPE =? tc') then Some (tc', r) else None
        | None => None
        end with
  | Some (_, RInline (IMsg m)) => [m]
  | Some (_, RArray l) => items_msgs l
  | _ => []
  end = ms.
Proof.
  intros Hf Hi. destruct cur as [[tc r]|]; cbn [is_msg_field items_of] in *.
  - subst tc. rewrite N.eqb_refl, orb_true_r.
    destruct r as [i|l]; cbn [repr_items] in Hi.
    + destruct ms as [|m [|m2 t]]; cbn [map] in Hi; try discriminate. injection Hi as ->. reflexivity.
    + apply items_msgs_map. exact Hi.
  - destruct ms; [reflexivity|discriminate].
Qed.

Lemma upd_other n cur o : bytes_eqb n (fst (fst o)) = false -> upd n cur o = cur.
Proof. intros H. unfold upd. rewrite H. reflexivity. Qed.

Lemma find_msgs_kids kids tail w :
  (forall o, In o tail -> bytes_eqb nm_multi_kid (fst (fst o)) = false) ->
  find_msgs (apply_ops (kid_ops kids ++ tail) (Msg w FNil)) nm_multi_kid = kid_msgs kids.
Proof.
  intros Ht. unfold find_msgs, get_field.
  change (flookup nm_multi_kid (msg_fields (apply_ops (kid_ops kids ++ tail) (Msg w FNil))))
    with (lookup (apply_ops (kid_ops kids ++ tail) (Msg w FNil)) nm_multi_kid).
  rewrite lookup_apply_ops, fold_left_app.
  change (lookup (Msg w FNil) nm_multi_kid) with (@None (N * repr)).
  destruct (fold_kid_ops kids None I) as [H1 H2]. cbn [items_of app] in H2.
  set (res := fold_left (upd nm_multi_kid) (kid_ops kids) None) in *.
  assert (Htail : fold_left (upd nm_multi_kid) tail res = res).
  { clear H1 H2. generalize res. induction tail as [|o t IH]; intros c; cbn [fold_left]; [reflexivity|].
    rewrite upd_other by (apply Ht; left; reflexivity). apply IH. intros o' Ho. apply Ht. right. exact Ho. }
  rewrite Htail. apply msgs_of_field; assumption.
Qed.

Lemma lookup_past_kids kids tail w n :
  bytes_eqb n nm_multi_kid = false ->
  lookup (apply_ops (kid_ops kids ++ tail) (Msg w FNil)) n = fold_left (upd n) tail None.
Proof.
  intros H. rewrite lookup_apply_ops, fold_left_app. f_equal.
  change (lookup (Msg w FNil) n) with (@None (N * repr)).
  generalize (@None (N * repr)). induction kids as [|k tl IH]; intros c; cbn [kid_ops fold_left]; [reflexivity|].
  rewrite upd_other by exact H. apply IH.
Qed.

Lemma kids_of_ok inner kids :
  (forall k, In k (list_of_flist kids) -> inner (to_archive k) = Ok k) ->
  kids_of inner (kid_msgs kids) = Ok kids.
Proof.
  induction kids as [|k tl IH]; intros H; cbn [kid_msgs kids_of]; [reflexivity|].
  rewrite (H k) by (left; reflexivity). cbn [bind].
  rewrite IH by (intros k' Hk; apply H; right; exact Hk). reflexivity.
Qed.

Lemma cop_i32_names name v d o : In o (cop_i32 name v d) -> fst (fst o) = name.
Proof. unfold cop_i32. destruct (v =? d); [intros []|]. intros [<-|[]]. reflexivity. Qed.

Lemma get_i32_past_kids kids name v d w dflt :
  bytes_eqb name nm_multi_kid = false -> v < two32 -> (v =? d) = false \/ dflt = v ->
  get_i32 (apply_ops (kid_ops kids ++ cop_i32 name v d) (Msg w FNil)) name dflt = v.
Proof.
  intros Hn Hv Hd. unfold get_i32, find_int, find_item, get_field.
  change (flookup name (msg_fields (apply_ops (kid_ops kids ++ cop_i32 name v d) (Msg w FNil))))
    with (lookup (apply_ops (kid_ops kids ++ cop_i32 name v d) (Msg w FNil)) name).
  rewrite lookup_past_kids by exact Hn. unfold cop_i32.
  destruct (v =? d) eqn:E.
  - cbn. destruct Hd as [Hd|Hd]; [discriminate|]. exact Hd.
  - cbn [fold_left]. unfold upd, op_i32. cbn [fst snd]. rewrite bytes_eqb_refl.
    cbn -[le_enc uval]. apply uval32_le_enc. exact Hv.
Qed.

Lemma rt_min inner n kids :
  n < two32 ->
  (forall k, In k (list_of_flist kids) -> inner (to_archive k) = Ok k) ->
  from_level inner (to_archive (FMin n kids)) = Ok (FMin n kids).
Proof.
  intros Hn Hk. rewrite from_level_min by (cbn [to_archive]; apply what_apply_ops).
  cbn [to_archive]. rewrite find_msgs_kids.
  - rewrite kids_of_ok by exact Hk. cbn [bind].
    rewrite get_i32_past_kids; [reflexivity|reflexivity|exact Hn|].
    destruct (n =? c_MUSCLE_NO_LIMIT) eqn:E; [right; apply N.eqb_eq in E; congruence|left; reflexivity].
  - intros o Ho. rewrite (cop_i32_names _ _ _ _ Ho). reflexivity.
Qed.

Lemma rt_max inner n kids :
  n < two32 ->
  (forall k, In k (list_of_flist kids) -> inner (to_archive k) = Ok k) ->
  from_level inner (to_archive (FMax n kids)) = Ok (FMax n kids).
Proof.
  intros Hn Hk. rewrite from_level_max by (cbn [to_archive]; apply what_apply_ops).
  cbn [to_archive]. rewrite find_msgs_kids.
  - rewrite kids_of_ok by exact Hk. cbn [bind].
    rewrite get_i32_past_kids; [reflexivity|reflexivity|exact Hn|].
    destruct (n =? 0) eqn:E; [right; apply N.eqb_eq in E; congruence|left; reflexivity].
  - intros o Ho. rewrite (cop_i32_names _ _ _ _ Ho). reflexivity.
Qed.

Lemma rt_xor inner kids :
  (forall k, In k (list_of_flist kids) -> inner (to_archive k) = Ok k) ->
  from_level inner (to_archive (FXor kids)) = Ok (FXor kids).
Proof.
  intros Hk. rewrite from_level_xor by (cbn [to_archive]; apply what_apply_ops).
  cbn [to_archive]. rewrite <- (app_nil_r (kid_ops kids)). rewrite find_msgs_kids by (intros o []).
  rewrite kids_of_ok by exact Hk. reflexivity.
Qed.

(* ------------------------------------------------------------------ the round trip, on fuel *)

Lemma fdepth_pos f : (1 <= fdepth f)%nat.
Proof. destruct f as [| | | | |? ? [|k] ?| | |]; cbn [fdepth]; lia. Qed.

Lemma fdepth_list_in l k : In k (list_of_flist l) -> (fdepth k <= fdepth_list l)%nat.
Proof.
  induction l as [|f t IH]; cbn [list_of_flist In fdepth_list]; [tauto|].
  intros [->|H]; [lia|]. specialize (IH H). lia.
Qed.

Lemma wf_flist_in l k : wf_flist l -> In k (list_of_flist l) -> wf_filter k.
Proof.
  induction l as [|f t IH]; cbn [list_of_flist In wf_flist]; [tauto|].
  intros [Hf Ht] [->|H]; auto.
Qed.

Lemma roundtrip_fuel_all :
  (forall f, wf_filter f -> forall n, (fdepth f <= n)%nat -> from_fuel n (to_archive f) = Ok f)
  /\ (forall l, wf_flist l -> forall n, (fdepth_list l <= n)%nat ->
        forall k, In k (list_of_flist l) -> from_fuel n (to_archive k) = Ok k)
  /\ (forall o, wf_ofilter o -> forall n k, o = OSome k -> (fdepth k <= n)%nat -> from_fuel n (to_archive k) = Ok k).
Proof.
  apply filter_mutind.
  - (* FWhat *) intros mn mx [H1 H2] n Hn. destruct n as [|n]; [cbn [fdepth] in Hn; lia|].
    cbn [from_fuel]. apply rt_what; assumption.
  - intros name idx tc [H1 H2] n Hn. destruct n as [|n]; [cbn [fdepth] in Hn; lia|].
    cbn [from_fuel]. apply rt_exists; assumption.
  - intros k name idx op mop val msk def [H1 [H2 H3]] n Hn. destruct n as [|n]; [cbn [fdepth] in Hn; lia|].
    cbn [from_fuel]. apply rt_num; assumption.
  - intros nn name idx op val def [H1 H2] n Hn. destruct n as [|n]; [cbn [fdepth] in Hn; lia|].
    cbn [from_fuel]. apply rt_str; assumption.
  - intros name idx op tc val def [H1 [H2 [H3 [H4 H5]]]] n Hn. destruct n as [|n]; [cbn [fdepth] in Hn; lia|].
    cbn [from_fuel]. apply rt_raw; assumption.
  - (* FMsg *) intros name idx kid IH defmsg [H1 H2] n Hn.
    destruct n as [|n]; [pose proof (fdepth_pos (FMsg name idx kid defmsg)); lia|].
    cbn [from_fuel]. apply rt_msg; [assumption|].
    intros k Hk. apply (IH H2 n k Hk). subst kid. cbn [fdepth] in Hn. lia.
  - (* FMin *) intros m kids IH [H1 H2] n Hn. cbn [fdepth] in Hn. destruct n as [|n]; [lia|].
    cbn [from_fuel]. apply rt_min; [assumption|]. intros k Hk. apply (IH H2 n); [lia|exact Hk].
  - intros m kids IH [H1 H2] n Hn. cbn [fdepth] in Hn. destruct n as [|n]; [lia|].
    cbn [from_fuel]. apply rt_max; [assumption|]. intros k Hk. apply (IH H2 n); [lia|exact Hk].
  - intros kids IH H2 n Hn. cbn [fdepth] in Hn. destruct n as [|n]; [lia|].
    cbn [from_fuel]. apply rt_xor. intros k Hk. apply (IH H2 n); [lia|exact Hk].
  - (* LNil *) intros _ n _ k [].
  - (* LCons *) intros f IHf tl IHt [Hf Ht] n Hn k [<-|Hk]; cbn [fdepth_list] in Hn.
    + apply IHf; [assumption|lia].
    + apply (IHt Ht n); [lia|exact Hk].
  - (* ONone *) intros _ n k H. discriminate.
  - (* OSome *) intros f IH Hf n k H Hn. injection H as <-. apply IH; assumption.
Qed.

(* ------------------------------------------------------------------ the archive is at least as deep as the tree *)

Lemma find_msg_kid_archive name idx k defmsg :
  find_msg (to_archive (FMsg name idx (OSome k) defmsg)) nm_msg_kid 0 = Some (to_archive k).
Proof.
  cbn [to_archive]. to_lookups. unfold value_ops, cop_i32.
  destruct (idx =? 0); destruct defmsg; cbn -[le_enc uval to_archive]; reflexivity.
Qed.

Lemma fdepth_le_depth_all :
  (forall f, (fdepth f <= depth_msg (to_archive f))%nat)
  /\ (forall l k, In k (list_of_flist l) -> (fdepth k <= depth_msg (to_archive k))%nat)
  /\ (forall o k, o = OSome k -> (fdepth k <= depth_msg (to_archive k))%nat).
Proof.
  assert (Hpos : forall a, (1 <= depth_msg a)%nat) by (intros [w fs]; cbn [depth_msg]; lia).
  assert (Hmulti : forall kids tail w,
             (forall o, In o tail -> bytes_eqb nm_multi_kid (fst (fst o)) = false) ->
             (forall k, In k (list_of_flist kids) -> (fdepth k <= depth_msg (to_archive k))%nat) ->
             (S (fdepth_list kids) <= depth_msg (apply_ops (kid_ops kids ++ tail) (Msg w FNil)))%nat).
  { intros kids tail w Ht IH.
    assert (Hall : forall k, In k (list_of_flist kids) ->
                     (S (fdepth k) <= depth_msg (apply_ops (kid_ops kids ++ tail) (Msg w FNil)))%nat).
    { intros k Hk. specialize (IH k Hk).
      assert (Hin : In (to_archive k) (find_msgs (apply_ops (kid_ops kids ++ tail) (Msg w FNil)) nm_multi_kid)).
      { rewrite find_msgs_kids by exact Ht. clear - Hk.
        induction kids as [|f t IHk]; cbn [list_of_flist kid_msgs In] in *; [tauto|].
        destruct Hk as [->|Hk]; [left; reflexivity|right; auto]. }
      apply find_msgs_depth in Hin. lia. }
    specialize (Hpos (apply_ops (kid_ops kids ++ tail) (Msg w FNil))).
    set (D := depth_msg (apply_ops (kid_ops kids ++ tail) (Msg w FNil))) in *. clearbody D.
    clear - Hall Hpos. induction kids as [|f t IHk]; cbn [fdepth_list]; [lia|].
    assert (Hf := Hall f (or_introl eq_refl)).
    assert (Ht : (S (fdepth_list t) <= D)%nat).
    { apply IHk. intros k Hk. apply Hall. right. exact Hk. }
    lia. }
  apply filter_mutind; intros; cbn [fdepth]; try apply Hpos.
  - (* FMsg *) destruct kid as [|k]; [apply Hpos|].
    pose proof (find_msg_depth _ _ _ _ (find_msg_kid_archive name idx k defmsg)) as Hd.
    specialize (H k eq_refl). lia.
  - cbn [to_archive]. apply Hmulti; [|assumption].
    intros o Ho. rewrite (cop_i32_names _ _ _ _ Ho). reflexivity.
  - cbn [to_archive]. apply Hmulti; [|assumption].
    intros o Ho. rewrite (cop_i32_names _ _ _ _ Ho). reflexivity.
  - cbn [to_archive]. rewrite <- (app_nil_r (kid_ops kids)). apply Hmulti; [intros o []|assumption].
  - destruct H as [].
  - destruct H1 as [<-|Hk]; [apply H|apply H0; exact Hk].
  - discriminate.
  - injection H0 as <-. apply H.
Qed.

(* ------------------------------------------------------------------ the theorems *)

(* archive_roundtrip: restoring the archive of a filter gives back that very filter *)
Theorem archive_roundtrip f : wf_filter f -> from_archive (to_archive f) = Ok f.
Proof.
  intros H. unfold from_archive. apply (proj1 roundtrip_fuel_all f H). apply (proj1 fdepth_le_depth_all).
Qed.

(* ... and therefore decides identically on every Message, for every node and every pattern matcher *)
Corollary archive_decides_identically f :
  wf_filter f ->
  exists f', from_archive (to_archive f) = Ok f' /\
             forall smatch node m, eval smatch node f' m = eval smatch node f m.
Proof. intros H. exists f. split; [apply archive_roundtrip; exact H|reflexivity]. Qed.

(* ------------------------------------------------------------------ any Message at all: a clean failure or a filter *)

Definition clean {A} (r : res A) : Prop := match r with Ok _ | Err => True | Fuel | Crash => False end.

Lemma clean_bind {A B} (r : res A) (g : A -> res B) : clean r -> (forall x, r = Ok x -> clean (g x)) -> clean (bind r g).
Proof. destruct r; cbn [bind clean]; intros H Hg; try tauto. apply Hg. reflexivity. Qed.

Lemma kids_of_clean inner l : (forall s, In s l -> clean (inner s)) -> clean (kids_of inner l).
Proof.
  induction l as [|s t IH]; intros H; cbn [kids_of]; [exact I|].
  apply clean_bind; [apply H; left; reflexivity|]. intros f _.
  apply clean_bind; [apply IH; intros s' Hs; apply H; right; exact Hs|]. intros r _. exact I.
Qed.

Lemma load_value_clean a : clean (load_value a).
Proof. unfold load_value. destruct (find_string a nm_fn 0); exact I. Qed.

Lemma load_num_clean k a : clean (load_num k a).
Proof.
  unfold load_num. apply clean_bind; [apply load_value_clean|]. intros p _.
  destruct (find_fix a nm_num_val (nt_tc (nk_type k)) 0); [|exact I].
  destruct (negb (elem_size (ftype_of_tc (nt_tc (nk_type k))) =? nt_size (nk_type k))); exact I.
Qed.

Lemma load_str_clean nn a : clean (load_str nn a).
Proof.
  unfold load_str. apply clean_bind; [apply load_value_clean|]. intros p _.
  destruct (find_string a nm_str_val 0); [|exact I].
  destruct (find_int a nm_str_op c_B_INT8_TYPE 8); exact I.
Qed.

Lemma load_raw_clean a : clean (load_raw a).
Proof.
  unfold load_raw. apply clean_bind; [apply load_value_clean|]. intros p _.
  destruct (find_int a nm_raw_op c_B_INT8_TYPE 8); exact I.
Qed.

Lemma load_msg_clean inner a :
  (forall s, find_msg a nm_msg_kid 0 = Some s -> clean (inner s)) -> clean (load_msg inner a).
Proof.
  intros H. unfold load_msg. apply clean_bind; [apply load_value_clean|]. intros p _.
  destruct (find_msg a nm_msg_kid 0) as [s|]; [|exact I].
  apply clean_bind; [apply H; reflexivity|]. intros k _. exact I.
Qed.

Lemma from_level_clean inner a :
  (forall s, find_msg a nm_msg_kid 0 = Some s -> clean (inner s)) ->
  (forall s, In s (find_msgs a nm_multi_kid) -> clean (inner s)) ->
  clean (from_level inner a).
Proof.
  intros Hm Hk. unfold from_level.
  repeat match goal with
         | |- clean (if ?c then _ else _) => destruct c
         end;
  try exact I;
  try apply load_num_clean; try apply load_str_clean; try apply load_raw_clean;
  try (apply load_msg_clean; exact Hm);
  try (apply clean_bind; [apply load_value_clean|intros p _; exact I]);
  try (apply clean_bind; [apply kids_of_clean; exact Hk|intros ks _; exact I]).
Qed.

Lemma from_fuel_clean : forall n a, (depth_msg a <= n)%nat -> clean (from_fuel n a).
Proof.
  induction n as [|n IH]; intros a Hd.
  - destruct a as [w fs]. cbn [depth_msg] in Hd. lia.
  - cbn [from_fuel]. apply from_level_clean.
    + intros s Hs. apply IH. apply find_msg_depth in Hs. lia.
    + intros s Hs. apply IH. apply find_msgs_depth in Hs. lia.
Qed.

(* from_archive_total: for EVERY Message offered as an archive, however malformed and however deeply nested, the
   factory returns either an error or a filter -- the model's fuel (= the nesting depth) always suffices, and no
   abort is reachable.  (What the C++ spends on it is stack depth linear in the nesting: finding F5.) *)
Theorem from_archive_total a : exists r, from_archive a = r /\ (r = Err \/ exists f, r = Ok f).
Proof.
  pose proof (from_fuel_clean (depth_msg a) a (le_n _)) as H. unfold from_archive.
  destruct (from_fuel (depth_msg a) a) as [f| | |]; cbn [clean] in H; try tauto.
  - eexists. split; [reflexivity|]. right. eexists. reflexivity.
  - eexists. split; [reflexivity|]. left. reflexivity.
Qed.

(* more fuel never changes an answer *)
Lemma from_fuel_mono : forall n a r, from_fuel n a = r -> clean r -> forall k, from_fuel (n + k) a = r.
Proof.
  assert (Hk : forall inner1 inner2 l r, kids_of inner1 l = r -> clean r ->
                (forall s x, In s l -> inner1 s = x -> clean x -> inner2 s = x) -> kids_of inner2 l = r).
  { intros i1 i2 l. induction l as [|s t IH]; intros r Hr Hc Hi; cbn [kids_of] in *; [exact Hr|].
    destruct (i1 s) as [f| | |] eqn:E1; cbn [bind] in Hr; subst r; cbn [clean] in Hc; try tauto.
    - rewrite (Hi s (Ok f) (or_introl eq_refl) E1 I). cbn [bind].
      destruct (kids_of i1 t) as [ks| | |] eqn:E2; cbn [bind clean] in Hc; try tauto.
      + rewrite (IH (Ok ks) eq_refl I); [reflexivity|]. intros s' x Hs'. apply Hi. right. exact Hs'.
      + rewrite (IH Err eq_refl I); [reflexivity|]. intros s' x Hs'. apply Hi. right. exact Hs'.
    - rewrite (Hi s Err (or_introl eq_refl) E1 I). reflexivity. }
  induction n as [|n IH]; intros a r Hr Hc k.
  - cbn [from_fuel] in Hr. subst r. destruct Hc.
  - replace (S n + k)%nat with (S (n + k)) by lia. cbn [from_fuel] in *.
    revert Hr. unfold from_level.
    repeat match goal with
           | |- (if ?c then _ else _) = _ -> _ => destruct c
           end; try (intros <-; reflexivity).
    + (* Message filter *)
      unfold load_msg. destruct (load_value a) as [p| | |]; cbn [bind]; try (intros <-; reflexivity).
      destruct (find_msg a nm_msg_kid 0) as [s|]; [|intros <-; reflexivity].
      destruct (from_fuel n s) as [f| | |] eqn:E; cbn [bind]; intros <-; cbn [clean] in Hc; try tauto.
      * rewrite (IH s (Ok f) E I k). reflexivity.
      * rewrite (IH s Err E I k). reflexivity.
    + intros Hr. destruct (kids_of (from_fuel n) (find_msgs a nm_multi_kid)) as [ks| | |] eqn:E; cbn [bind] in Hr; subst r; cbn [clean] in Hc; try tauto.
      * rewrite (Hk _ (from_fuel (n + k)) _ _ E I); [reflexivity|]. intros s x _ Hx Hcx. apply IH; assumption.
      * rewrite (Hk _ (from_fuel (n + k)) _ _ E I); [reflexivity|]. intros s x _ Hx Hcx. apply IH; assumption.
    + intros Hr. destruct (kids_of (from_fuel n) (find_msgs a nm_multi_kid)) as [ks| | |] eqn:E; cbn [bind] in Hr; subst r; cbn [clean] in Hc; try tauto.
      * rewrite (Hk _ (from_fuel (n + k)) _ _ E I); [reflexivity|]. intros s x _ Hx Hcx. apply IH; assumption.
      * rewrite (Hk _ (from_fuel (n + k)) _ _ E I); [reflexivity|]. intros s x _ Hx Hcx. apply IH; assumption.
    + intros Hr. destruct (kids_of (from_fuel n) (find_msgs a nm_multi_kid)) as [ks| | |] eqn:E; cbn [bind] in Hr; subst r; cbn [clean] in Hc; try tauto.
      * rewrite (Hk _ (from_fuel (n + k)) _ _ E I); [reflexivity|]. intros s x _ Hx Hcx. apply IH; assumption.
      * rewrite (Hk _ (from_fuel (n + k)) _ _ E I); [reflexivity|]. intros s x _ Hx Hcx. apply IH; assumption.
Qed.
