(* Flt/FltListLemmas.v -- list lemmas behind the raw-data and string operators (C14): the length-guarded
   takeN/dropN + comparison forms the C++ uses (memcmp / strncmp with explicit lengths, the scanning loops of
   MemMem, strstr and StrcasestrEx) say "is a prefix / suffix / infix of", and memcmp-then-length is the
   lexicographic order. *)
From Coq Require Import List NArith ZArith Bool Strings.Byte Lia.
From Muscle Require Import Gen.Consts Msg.MsgDefs Msg.MsgModel Msg.MsgBytesProofs Flt.FltModel.
Import ListNotations.
Local Open Scope N_scope.

(* ------------------------------------------------------------------ lex_cmp / leqb *)

Lemma lex_cmp_eq (a b : list N) : lex_cmp a b = Eq <-> a = b.
Proof.
  revert b. induction a as [|x a IH]; intros [|y b]; cbn [lex_cmp]; try (split; [discriminate|discriminate]); [tauto|].
  destruct (N.compare x y) eqn:E.
  - apply N.compare_eq in E. subst y. rewrite IH. split; [intros ->; reflexivity|intros H; injection H; auto].
  - split; [discriminate|]. intros H. injection H as -> _. rewrite N.compare_refl in E. discriminate.
  - split; [discriminate|]. intros H. injection H as -> _. rewrite N.compare_refl in E. discriminate.
Qed.

Lemma leqb_eq (a b : list N) : leqb a b = true <-> a = b.
Proof.
  unfold leqb. rewrite <- lex_cmp_eq. destruct (lex_cmp a b); split; congruence.
Qed.

Lemma leqb_refl (a : list N) : leqb a a = true.
Proof. apply leqb_eq. reflexivity. Qed.

Lemma lex_cmp_refl (a : list N) : lex_cmp a a = Eq.
Proof. apply lex_cmp_eq. reflexivity. Qed.

(* comparing the common-length prefixes first and the lengths second IS the lexicographic comparison *)
Lemma lex_cmp_split (a b : list N) :
  lex_cmp a b =
  match lex_cmp (takeN (N.min (len a) (len b)) a) (takeN (N.min (len a) (len b)) b) with
  | Eq => N.compare (len a) (len b)
  | c => c
  end.
Proof.
  revert b. induction a as [|x a IH]; intros [|y b]; cbn [len].
  - reflexivity.
  - replace (N.min 0 (N.succ (len b))) with 0 by lia. cbn [lex_cmp takeN N.eqb].
    symmetry. rewrite N.compare_lt_iff. lia.
  - replace (N.min (N.succ (len a)) 0) with 0 by lia. cbn [lex_cmp takeN N.eqb].
    symmetry. rewrite N.compare_gt_iff. lia.
  - replace (N.min (N.succ (len a)) (N.succ (len b))) with (N.succ (N.min (len a) (len b))) by lia.
    cbn [takeN]. destruct (N.succ (N.min (len a) (len b)) =? 0) eqn:E; [apply N.eqb_eq in E; lia|].
    rewrite N.pred_succ. cbn [lex_cmp]. destruct (N.compare x y); try reflexivity.
    rewrite IH. destruct (lex_cmp _ _); try reflexivity.
    destruct (N.compare_spec (len a) (len b)) as [H|H|H]; symmetry.
    + apply N.compare_eq_iff. lia.
    + apply N.compare_lt_iff. lia.
    + apply N.compare_gt_iff. lia.
Qed.

(* ------------------------------------------------------------------ prefix / suffix / infix *)

Lemma takeN_prefix {A} (p s : list A) : len p <= len s -> takeN (len p) s = p <-> exists t, s = p ++ t.
Proof.
  intros Hl. split.
  - intros H. exists (dropN (len p) s). rewrite <- H at 1. symmetry. apply takeN_dropN.
  - intros [t ->]. apply takeN_app_exact.
Qed.

Lemma prefix_guard (p s : list N) :
  (len p <=? len s) && leqb (takeN (len p) s) p = true <-> exists t, s = p ++ t.
Proof.
  rewrite andb_true_iff, N.leb_le, leqb_eq. split.
  - intros [Hl H]. apply takeN_prefix; assumption.
  - intros [t ->]. split; [rewrite len_app; lia|apply takeN_app_exact].
Qed.

Lemma dropN_app_len {A} (a b : list A) : dropN (len a) (a ++ b) = b.
Proof. apply dropN_app_exact. Qed.

Lemma suffix_guard (p s : list N) :
  (len p <=? len s) && leqb (dropN (len s - len p) s) p = true <-> exists t, s = t ++ p.
Proof.
  rewrite andb_true_iff, N.leb_le, leqb_eq. split.
  - intros [Hl H]. exists (takeN (len s - len p) s). rewrite <- H at 2. symmetry. apply takeN_dropN.
  - intros [t ->]. rewrite len_app. split; [lia|].
    replace (len t + len p - len p) with (len t) by lia. apply dropN_app_exact.
Qed.

(* the infix relation, by scanning every start position *)
Fixpoint infixb (p s : list N) : bool :=
  leqb (takeN (len p) s) p && (len p <=? len s) || match s with [] => false | _ :: t => infixb p t end.

Lemma infixb_spec (p s : list N) : infixb p s = true <-> exists a b, s = a ++ p ++ b.
Proof.
  induction s as [|x s IH]; cbn [infixb].
  - rewrite orb_false_r, andb_comm, prefix_guard. split.
    + intros [t H]. exists [], t. exact H.
    + intros [a [b H]]. destruct a; [|discriminate]. exists b. exact H.
  - rewrite orb_true_iff, andb_comm, prefix_guard, IH. split.
    + intros [[t H]|[a [b H]]]; [exists [], t; exact H|exists (x :: a), b; rewrite H; reflexivity].
    + intros [a [b H]]. destruct a as [|y a].
      * left. exists b. exact H.
      * right. injection H as -> H. exists a, b. exact H.
Qed.

(* strstr: the model's scan (which does not re-check the length) agrees with the guarded one *)
Lemma takeN_short_neq (p s : list N) : len s < len p -> leqb (takeN (len p) s) p = false.
Proof.
  intros H. destruct (leqb (takeN (len p) s) p) eqn:E; [|reflexivity].
  apply leqb_eq in E. assert (Hl : len (takeN (len p) s) = len p) by (rewrite E; reflexivity).
  rewrite len_takeN in Hl. lia.
Qed.

Lemma scan_from_infixb (p s : list N) : scan_from p s = infixb p s.
Proof.
  induction s as [|x s IH]; cbn [scan_from infixb].
  - rewrite !orb_false_r. destruct (len p <=? len (@nil N)) eqn:E; [rewrite andb_true_r; reflexivity|].
    apply N.leb_gt in E. rewrite takeN_short_neq by exact E. reflexivity.
  - rewrite IH. destruct (len p <=? len (x :: s)) eqn:E; [rewrite andb_true_r; reflexivity|].
    apply N.leb_gt in E. rewrite takeN_short_neq by exact E. reflexivity.
Qed.

(* the counted scans (StrcasestrEx, MemMem): positions 0 .. len s - len p *)
Lemma dropN_1_cons {A} (x : A) s : dropN 1 (x :: s) = s.
Proof. cbn [dropN N.eqb]. change (N.pred 1) with 0. apply dropN_0. Qed.

Lemma infixb_short (p s : list N) : len s < len p -> infixb p s = false.
Proof.
  revert p. induction s as [|x s IH]; intros p H; cbn [infixb].
  - rewrite takeN_short_neq by exact H. reflexivity.
  - rewrite takeN_short_neq by exact H. cbn [andb orb]. apply IH. cbn [len] in H. lia.
Qed.

Lemma scan_n_infixb (p : list N) : forall (s : list N) k,
  len p <= len s -> k = N.to_nat (len s - (len p - 1)) -> 0 < len p -> scan_n k p s = infixb p s.
Proof.
  intros s. induction s as [|x s IH]; intros k Hl Hk Hp.
  - cbn [len] in Hl. lia.
  - cbn [len] in *. destruct k as [|k]; [lia|]. cbn [scan_n infixb len]. rewrite dropN_1_cons.
    replace (len p <=? N.succ (len s)) with true by (symmetry; apply N.leb_le; lia). rewrite andb_true_r.
    destruct (N.le_gt_cases (len p) (len s)) as [Hle|Hgt].
    + rewrite (IH k); [reflexivity|exact Hle|lia|exact Hp].
    + rewrite infixb_short by exact Hgt.
      assert (k = O) by lia. subst k. reflexivity.
Qed.

(* ------------------------------------------------------------------ transfer along ub / lb *)

Lemma ub_inj (a b : bytes) : ub a = ub b -> a = b.
Proof.
  revert b. induction a as [|x a IH]; intros [|y b] H; cbn [ub map] in H; try discriminate; [reflexivity|].
  injection H as Hx H. apply N_of_byte_inj in Hx. subst y. f_equal. apply IH. exact H.
Qed.

Lemma ub_app (a b : bytes) : ub (a ++ b) = ub a ++ ub b.
Proof. apply map_app. Qed.

Lemma len_map {A B} (g : A -> B) (l : list A) : len (map g l) = len l.
Proof. induction l as [|x l IH]; cbn [map len]; [reflexivity|]. rewrite IH. reflexivity. Qed.

Lemma takeN_map {A B} (g : A -> B) n (l : list A) : takeN n (map g l) = map g (takeN n l).
Proof.
  revert n. induction l as [|x l IH]; intros n; cbn [map takeN]; [reflexivity|].
  destruct (n =? 0); [reflexivity|]. cbn [map]. rewrite IH. reflexivity.
Qed.

Lemma dropN_map {A B} (g : A -> B) n (l : list A) : dropN n (map g l) = map g (dropN n l).
Proof.
  revert n. induction l as [|x l IH]; intros n; cbn [map dropN]; [reflexivity|].
  destruct (n =? 0); [reflexivity|]. apply IH.
Qed.

Lemma map_eq_app {A B} (g : A -> B) (l : list A) (u v : list B) :
  map g l = u ++ v -> exists a b, l = a ++ b /\ map g a = u /\ map g b = v.
Proof.
  revert u. induction l as [|x l IH]; intros u H; cbn [map] in H.
  - destruct u; [|discriminate]. destruct v; [|discriminate]. exists [], []. repeat split.
  - destruct u as [|y u].
    + exists [], (x :: l). cbn [app] in *. repeat split. exact H.
    + injection H as Hy H. destruct (IH u H) as [a [b [-> [Ha Hb]]]].
      exists (x :: a), b. cbn [map app]. rewrite Hy, Ha. repeat split. exact Hb.
Qed.

Lemma ub_prefix (p s : bytes) : (exists t, ub s = ub p ++ t) <-> exists t, s = p ++ t.
Proof.
  split.
  - intros [t H]. destruct (map_eq_app _ _ _ _ H) as [a [b [-> [Ha _]]]].
    apply ub_inj in Ha. subst a. exists b. reflexivity.
  - intros [t ->]. exists (ub t). apply ub_app.
Qed.

Lemma ub_suffix (p s : bytes) : (exists t, ub s = t ++ ub p) <-> exists t, s = t ++ p.
Proof.
  split.
  - intros [t H]. destruct (map_eq_app _ _ _ _ H) as [a [b [-> [_ Hb]]]].
    apply ub_inj in Hb. subst b. exists a. reflexivity.
  - intros [t ->]. exists (ub t). apply ub_app.
Qed.

Lemma ub_infix (p s : bytes) : (exists a b, ub s = a ++ ub p ++ b) <-> exists a b, s = a ++ p ++ b.
Proof.
  split.
  - intros [a [b H]]. destruct (map_eq_app _ _ _ _ H) as [a' [r [-> [_ Hr]]]].
    destruct (map_eq_app _ _ _ _ Hr) as [p' [b' [-> [Hp _]]]].
    apply ub_inj in Hp. subst p'. exists a', b'. reflexivity.
  - intros [a [b ->]]. exists (ub a), (ub b). rewrite !ub_app. reflexivity.
Qed.
