(* Flt/FltMatch.v -- the StringMatcher-backed string operators of StringQueryFilter::DoMatch (C14), as an instance for
   the [smatch] parameter of the evaluator: `StringMatcher(pattern, isSimple).Match(s)` is property C15's model
   (Pat/Translate.v: SetPattern + Match on a fresh object) over a regex engine; the *_IGNORECASE operators first
   rewrite the pattern with MakeRegexCaseInsensitive (regex/StringMatcher.cpp), mirrored here.
   Used by the extraction for the correspondence run only; the theorems hold for every [smatch].
   No proofs in this file. *)
From Coq Require Import List NArith Bool Strings.Byte.
From Muscle Require Import Gen.Consts Msg.MsgDefs Flt.FltModel Pat.Ere Pat.Translate.
Import ListNotations.
Local Open Scope N_scope.

(* MakeRegexCaseInsensitive: every ASCII letter becomes the bracket expression of its two cases, itself first *)
Fixpoint make_ci (s : list N) : list N :=
  match s with
  | [] => []
  | c :: t =>
      (if (65 <=? c) && (c <=? 90) then [91; c; c + 32; 93]
       else if (97 <=? c) && (c <=? 122) then [91; c; c - 32; 93]
       else [c]) ++ make_ci t
  end.

Section WithEngine.
  Variable engine : list N -> rx.       (* regcomp(REG_EXTENDED) + regexec, as in Pat/Translate.v *)

  Definition sm_new (p : list N) (simple : bool) : sm := fst (set_pattern engine sm_init p simple).

  Definition smatch_of (op : N) (v s : bytes) : bool :=
    let p := ub v in
    if op =? c_SQF_OP_SIMPLE_WILDCARD_MATCH then matches (sm_new p true) (ub s)
    else if op =? c_SQF_OP_SIMPLE_WILDCARD_MATCH_IGNORECASE then matches (sm_new (make_ci p) true) (ub s)
    else if op =? c_SQF_OP_REGULAR_EXPRESSION_MATCH then matches (sm_new p false) (ub s)
    else if op =? c_SQF_OP_REGULAR_EXPRESSION_MATCH_IGNORECASE then matches (sm_new (make_ci p) false) (ub s)
    else false.
End WithEngine.

(* the instance used for extraction: the ERE model of property C15 *)
Definition smatch_ere : N -> bytes -> bytes -> bool := smatch_of ere_engine.
Definition pattern_supported (op : N) (v : bytes) : bool :=
  let p := ub v in
  if op =? c_SQF_OP_SIMPLE_WILDCARD_MATCH then regex_supported p true
  else if op =? c_SQF_OP_SIMPLE_WILDCARD_MATCH_IGNORECASE then regex_supported (make_ci p) true
  else if op =? c_SQF_OP_REGULAR_EXPRESSION_MATCH then regex_supported p false
  else if op =? c_SQF_OP_REGULAR_EXPRESSION_MATCH_IGNORECASE then regex_supported (make_ci p) false
  else true.
