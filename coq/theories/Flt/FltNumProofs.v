(* Flt/FltNumProofs.v -- the numeric filters (C14): the six operators' truth table, integers as two's complement
   values, mask operations bit by bit, IEEE-754 facts of the float comparison (NaN unordered, -0 = +0, infinities
   at the ends), and the missing-data rule (value in the Message, else the assumed default, else no match). *)
From Coq Require Import List NArith ZArith Bool Strings.Byte Lia.
From Muscle Require Import Gen.Consts Msg.MsgDefs Msg.MsgModel Msg.MsgBytesProofs Flt.FltModel.
Import ListNotations.
Local Open Scope N_scope.

(* ------------------------------------------------------------------ the operator table *)

Theorem ord_test_table o :
  ord_test c_NQF_OP_EQUAL_TO o = match o with OEq => true | _ => false end /\
  ord_test c_NQF_OP_LESS_THAN o = match o with OLt => true | _ => false end /\
  ord_test c_NQF_OP_GREATER_THAN o = match o with OGt => true | _ => false end /\
  ord_test c_NQF_OP_LESS_THAN_OR_EQUAL_TO o = match o with OLt | OEq => true | _ => false end /\
  ord_test c_NQF_OP_GREATER_THAN_OR_EQUAL_TO o = match o with OGt | OEq => true | _ => false end /\
  ord_test c_NQF_OP_NOT_EQUAL_TO o = match o with OEq => false | _ => true end.
Proof. repeat split; reflexivity. Qed.

Theorem ord_test_unknown op o : c_NQF_NUM_NUMERIC_OPERATORS <= op -> ord_test op o = false.
Proof.
  intros H. unfold ord_test.
  repeat match goal with
         | |- (if ?c then _ else _) = _ =>
             destruct c eqn:?E; [apply N.eqb_eq in E; subst op; vm_compute in H; exfalso; apply H; reflexivity|clear E]
         end.
  reflexivity.
Qed.

(* an unordered pair (a NaN is involved) fails ==, <, >, <=, >= and satisfies != *)
Theorem unordered_table op :
  ord_test op OUn = (op =? c_NQF_OP_NOT_EQUAL_TO).
Proof.
  unfold ord_test.
  repeat match goal with
         | |- (if ?c then _ else _) = _ =>
             let E := fresh "E" in destruct c eqn:E; [apply N.eqb_eq in E; subst op; reflexivity|]
         end.
  reflexivity.
Qed.

(* ------------------------------------------------------------------ integers: two's complement *)

Lemma p2nz k : 2 ^ k <> 0.
Proof. apply N.pow_nonzero. discriminate. Qed.

Lemma pow2_pos w : 0 < 2 ^ w.
Proof. apply N.neq_0_lt_0. apply N.pow_nonzero. discriminate. Qed.

Lemma uval_lt w bs : uval w bs < 2 ^ w.
Proof. unfold uval. apply N.mod_lt. apply N.pow_nonzero. discriminate. Qed.

Lemma pow2_split w : 0 < w -> 2 ^ w = 2 * 2 ^ (w - 1).
Proof. intros H. rewrite <- N.pow_succ_r'. f_equal. lia. Qed.

(* sval is THE two's complement reading: in range, and congruent to the pattern modulo 2^w *)
Theorem sval_range w u : 0 < w -> u < 2 ^ w ->
  (- Z.of_N (2 ^ (w - 1)) <= sval w u < Z.of_N (2 ^ (w - 1)))%Z.
Proof.
  intros Hw Hu. unfold sval. pose proof (pow2_split w Hw) as Hs. pose proof (pow2_pos (w - 1)).
  destruct (u <? 2 ^ (w - 1)) eqn:E; [apply N.ltb_lt in E|apply N.ltb_ge in E]; lia.
Qed.

Theorem sval_congruent w u : 0 < w -> u < 2 ^ w -> (sval w u mod Z.of_N (2 ^ w) = Z.of_N u)%Z.
Proof.
  intros Hw Hu. unfold sval. pose proof (pow2_pos w).
  destruct (u <? 2 ^ (w - 1)) eqn:E.
  - apply Z.mod_small. lia.
  - rewrite <- (Z.mod_add _ 1) by lia. replace (Z.of_N u - Z.of_N (2 ^ w) + 1 * Z.of_N (2 ^ w))%Z with (Z.of_N u) by lia.
    apply Z.mod_small. lia.
Qed.

Lemma sval_inj w u v : 0 < w -> u < 2 ^ w -> v < 2 ^ w -> sval w u = sval w v -> u = v.
Proof.
  intros Hw Hu Hv H. apply N2Z.inj. rewrite <- (sval_congruent w u), <- (sval_congruent w v) by assumption.
  rewrite H. reflexivity.
Qed.

(* the comparison of two integer items is the comparison of their two's complement values; never unordered *)
Theorem int_ord_spec w a b : 0 < w ->
  let x := sval w (uval w a) in let y := sval w (uval w b) in
  (int_ord w a b = OLt <-> (x < y)%Z) /\ (int_ord w a b = OGt <-> (x > y)%Z) /\
  (int_ord w a b = OEq <-> uval w a = uval w b) /\ int_ord w a b <> OUn.
Proof.
  intros Hw x y. unfold int_ord. fold x y.
  destruct (Z.compare_spec x y) as [E|E|E]; cbn [ord_of]; repeat split; intros; try discriminate; try lia; try congruence.
  - unfold x, y in E. apply (sval_inj w); auto using uval_lt.
  - exfalso. unfold x, y in E. rewrite H in E. lia.
  - exfalso. unfold x, y in E. rewrite H in E. lia.
Qed.

(* ------------------------------------------------------------------ mask operations, bit by bit *)

Definition bitop (mop : N) (x m : bool) : bool :=
  if mop =? c_NQF_MASK_OP_AND then x && m
  else if mop =? c_NQF_MASK_OP_OR then x || m
  else if mop =? c_NQF_MASK_OP_XOR then xorb x m
  else if mop =? c_NQF_MASK_OP_NAND then negb (x && m)
  else if mop =? c_NQF_MASK_OP_NOR then negb (x || m)
  else if mop =? c_NQF_MASK_OP_XNOR then negb (xorb x m)
  else x.

Lemma ones_testbit w i : i < w -> N.testbit (2 ^ w - 1) i = true.
Proof.
  intros H. replace (2 ^ w - 1) with (N.ones w) by (rewrite N.ones_equiv; lia).
  apply N.ones_spec_low. exact H.
Qed.

(* every bit of the result is the documented boolean operation on the corresponding bits (an unknown mask
   operator leaves the value alone, like NQF_MASK_OP_NONE) *)
Theorem mask_bits w mop v m i : i < w ->
  N.testbit (mask_u w mop v m) i = bitop mop (N.testbit v i) (N.testbit m i).
Proof.
  intros Hi. unfold mask_u, bitop.
  repeat match goal with
         | |- context [if ?c then _ else _] => destruct c
         end;
  rewrite ?N.lxor_spec, ?N.land_spec, ?N.lor_spec, ?ones_testbit by exact Hi;
  destruct (N.testbit v i); destruct (N.testbit m i); reflexivity.
Qed.

Lemma testbit_high_lt a w : a < 2 ^ w -> forall i, w <= i -> N.testbit a i = false.
Proof.
  intros Ha i Hi. destruct (N.eq_dec a 0) as [->|Hn]; [apply N.bits_0|].
  apply N.bits_above_log2. apply N.log2_lt_pow2; [lia|].
  apply N.lt_le_trans with (2 ^ w); [exact Ha|]. apply N.pow_le_mono_r; [discriminate|exact Hi].
Qed.

Lemma lt_pow2_of_bits a w : (forall i, w <= i -> N.testbit a i = false) -> a < 2 ^ w.
Proof.
  intros H. destruct (N.eq_dec a 0) as [->|Hn]; [apply pow2_pos|].
  apply N.log2_lt_pow2; [lia|].
  destruct (N.lt_ge_cases (N.log2 a) w) as [L|L]; [exact L|].
  specialize (H (N.log2 a) L). rewrite N.bit_log2 in H by exact Hn. discriminate.
Qed.

(* ... and the result stays within the width *)
Theorem mask_width w mop v m : v < 2 ^ w -> m < 2 ^ w -> mask_u w mop v m < 2 ^ w.
Proof.
  intros Hv Hm. apply lt_pow2_of_bits. intros i Hi.
  assert (Ho : N.testbit (2 ^ w - 1) i = false).
  { replace (2 ^ w - 1) with (N.ones w) by (rewrite N.ones_equiv; lia). apply N.ones_spec_high. exact Hi. }
  pose proof (testbit_high_lt v w Hv i Hi) as Bv. pose proof (testbit_high_lt m w Hm i Hi) as Bm.
  unfold mask_u.
  repeat match goal with
         | |- context [if ?c then _ else _] => destruct c
         end;
  rewrite ?N.lxor_spec, ?N.land_spec, ?N.lor_spec, ?Ho, ?Bv, ?Bm; reflexivity.
Qed.

(* ------------------------------------------------------------------ IEEE-754 facts of the float comparison *)

Section Ieee.
  Variables eb mb : N.

  (* a NaN operand makes the pair unordered, whatever the other operand is (a NaN included) *)
  Theorem nan_unordered_l x y : f_is_nan eb mb x = true -> f_ord eb mb x y = OUn.
  Proof. intros H. unfold f_ord. rewrite H. reflexivity. Qed.
  Theorem nan_unordered_r x y : f_is_nan eb mb y = true -> f_ord eb mb x y = OUn.
  Proof. intros H. unfold f_ord. rewrite H, orb_true_r. reflexivity. Qed.

  (* without a NaN the pair is ordered *)
  Theorem no_nan_ordered x y : f_is_nan eb mb x = false -> f_is_nan eb mb y = false -> f_ord eb mb x y <> OUn.
  Proof. intros Hx Hy. unfold f_ord. rewrite Hx, Hy. cbn [orb]. destruct (Z.compare _ _); discriminate. Qed.

  (* the key of a zero of either sign is 0: -0 = +0 *)
  Definition sign_bit : N := 2 ^ (eb + mb).
  Lemma key_pos_zero : f_key eb mb 0 = 0%Z.
  Proof.
    unfold f_key.
    replace (0 mod 2 ^ (eb + mb)) with 0 by (symmetry; apply N.mod_0_l, p2nz).
    replace (0 / 2 ^ (eb + mb)) with 0 by (symmetry; apply N.div_0_l, p2nz).
    reflexivity.
  Qed.
  Lemma key_neg_zero : f_key eb mb sign_bit = 0%Z.
  Proof.
    unfold f_key, sign_bit. rewrite N.mod_same, N.div_same by apply p2nz.
    reflexivity.
  Qed.
End Ieee.

Theorem f32_zeros_equal : f_ord 8 23 2147483648 0 = OEq /\ f_ord 8 23 0 2147483648 = OEq.
Proof. split; reflexivity. Qed.
Theorem f64_zeros_equal : f_ord 11 52 9223372036854775808 0 = OEq /\ f_ord 11 52 0 9223372036854775808 = OEq.
Proof. split; reflexivity. Qed.

(* +inf is above, -inf below, every other non-NaN value *)
Lemma key_bound eb mb x : (Z.abs (f_key eb mb x) < Z.of_N (2 ^ (eb + mb)))%Z.
Proof.
  unfold f_key. cbv zeta. pose proof (N.mod_lt x (2 ^ (eb + mb)) (p2nz _)) as H.
  set (P := 2 ^ (eb + mb)) in *. set (mag := x mod P) in *. clearbody mag. clearbody P.
  destruct ((x / P) mod 2 =? 0); lia.
Qed.

Definition pos_inf (eb mb : N) : N := (2 ^ eb - 1) * 2 ^ mb.

Lemma not_nan_mag_le_inf eb mb x :
  f_is_nan eb mb x = false -> x mod 2 ^ (eb + mb) <= pos_inf eb mb.
Proof.
  intros H. unfold f_is_nan in H. unfold pos_inf.
  set (P := 2 ^ mb) in *. set (E := 2 ^ eb) in *.
  assert (HP : P <> 0) by apply p2nz. assert (HE : E <> 0) by apply p2nz.
  assert (Hpow : 2 ^ (eb + mb) = E * P) by (unfold E, P; rewrite N.pow_add_r; reflexivity).
  rewrite Hpow.
  assert (HEP : E * P <> 0) by lia.
  pose proof (N.div_mod x (E * P) HEP) as Hx.
  pose proof (N.mod_lt x (E * P) HEP) as Hm.
  set (mag := x mod (E * P)) in *. set (k := x / (E * P)) in *.
  assert (Hq : mag / P < E) by (apply N.div_lt_upper_bound; [exact HP|lia]).
  assert (He : (x / P) mod E = mag / P).
  { rewrite Hx. replace (E * P * k + mag) with (mag + (k * E) * P) by lia.
    rewrite N.div_add by exact HP. rewrite N.mod_add by exact HE. apply N.mod_small. exact Hq. }
  assert (Hmm : x mod P = mag mod P).
  { rewrite Hx. replace (E * P * k + mag) with (mag + (k * E) * P) by lia. apply N.mod_add. exact HP. }
  rewrite He, Hmm in H.
  pose proof (N.div_mod mag P HP) as Hdm. pose proof (N.mod_lt mag P HP) as Hlt.
  destruct (mag / P =? E - 1) eqn:Eq; cbn [andb] in H.
  - apply N.eqb_eq in Eq. apply negb_false_iff, N.eqb_eq in H. rewrite Hdm, H, Eq. lia.
  - apply N.eqb_neq in Eq. rewrite Hdm. assert (mag / P <= E - 2) by lia. nia.
Qed.

Section Inf.
  Variables eb mb : N.
  Let P := 2 ^ mb.
  Let E := 2 ^ eb.

  Lemma pos_inf_facts :
    pos_inf eb mb < 2 ^ (eb + mb) /\ f_is_nan eb mb (pos_inf eb mb) = false /\ f_key eb mb (pos_inf eb mb) = Z.of_N (pos_inf eb mb).
  Proof.
    assert (HP : P <> 0) by apply p2nz. assert (HE : E <> 0) by apply p2nz.
    assert (Hpow : 2 ^ (eb + mb) = E * P) by (unfold E, P; rewrite N.pow_add_r; reflexivity).
    unfold pos_inf. fold P E. rewrite Hpow.
    assert (Hlt : (E - 1) * P < E * P) by nia.
    split; [exact Hlt|]. split.
    - unfold f_is_nan. fold P E. rewrite N.div_mul by exact HP. rewrite N.mod_mul by exact HP.
      rewrite N.eqb_refl. apply andb_false_r.
    - unfold f_key. cbv zeta. rewrite Hpow. rewrite (N.mod_small _ _ Hlt), (N.div_small _ _ Hlt). reflexivity.
  Qed.

  (* nothing that is not a NaN is above +infinity *)
  Theorem pos_inf_is_top x : f_is_nan eb mb x = false -> f_ord eb mb x (pos_inf eb mb) <> OGt /\ f_ord eb mb x (pos_inf eb mb) <> OUn.
  Proof.
    intros Hx. destruct pos_inf_facts as [_ [Hn Hk]].
    unfold f_ord. rewrite Hx, Hn. cbn [orb]. rewrite Hk.
    pose proof (not_nan_mag_le_inf eb mb x Hx) as Hle.
    assert (Hkx : (f_key eb mb x <= Z.of_N (x mod 2 ^ (eb + mb)))%Z).
    { unfold f_key. cbv zeta. generalize (x mod 2 ^ (eb + mb)). intros mag.
      destruct ((x / 2 ^ (eb + mb)) mod 2 =? 0); lia. }
    destruct (Z.compare_spec (f_key eb mb x) (Z.of_N (pos_inf eb mb))); cbn [ord_of]; split; try discriminate. lia.
  Qed.
End Inf.

(* ------------------------------------------------------------------ the missing-data rule *)

(* "if the specified item does not exist in the matched Message, this QueryFilter will act as if the Message contained
   the specified assumedValue"; without an assumed value it does not match *)
Theorem num_matches_rule t m name idx op mop val msk def :
  num_matches t m name idx op mop val msk def =
  match find_fix m name (nt_tc t) idx with
  | Some v => num_test t op (num_apply_mask t mop v msk) val
  | None => match def with
            | Some d => num_test t op (num_apply_mask t mop d msk) val
            | None => false
            end
  end.
Proof. unfold num_matches, or_else. destruct (find_fix m name (nt_tc t) idx); [reflexivity|]. destruct def; reflexivity. Qed.

Theorem str_matches_rule smatch m name idx op val def :
  str_matches smatch m name idx op val def =
  match find_string m name idx with
  | Some s => str_op smatch op val s
  | None => match def with Some d => str_op smatch op val d | None => false end
  end.
Proof. unfold str_matches, or_else. destruct (find_string m name idx); [reflexivity|]. destruct def; reflexivity. Qed.

(* what "the indexed item of the named field" is: the field must exist under that name with exactly the filter's
   type code, and hold at least index+1 items *)
Theorem find_fix_spec t m name idx :
  find_fix m name (nt_tc t) idx =
  match flookup name (msg_fields m) with
  | Some (tc', r) =>
      if nt_tc t =? tc' then match repr_nth idx r with Some (IFix bs) => Some bs | _ => None end else None
  | None => None
  end.
Proof.
  unfold find_fix, find_data, find_item, get_field.
  destruct (flookup name (msg_fields m)) as [[tc' r]|]; [|reflexivity].
  destruct t; cbn [nt_tc];
    match goal with |- context [?a =? c_B_ANY_TYPE] => change (a =? c_B_ANY_TYPE) with false end; cbn [orb];
    (match goal with |- context [?a =? tc'] => destruct (a =? tc') end; [|reflexivity]);
    (destruct (repr_nth idx r) as [i|]; [|reflexivity]);
    destruct i; reflexivity.
Qed.

Theorem find_string_spec m name idx :
  find_string m name idx =
  match flookup name (msg_fields m) with
  | Some (tc', r) =>
      if c_B_STRING_TYPE =? tc' then match repr_nth idx r with Some (IStr s) => Some s | _ => None end else None
  | None => None
  end.
Proof.
  unfold find_string, find_item, get_field.
  destruct (flookup name (msg_fields m)) as [[tc' r]|]; [|reflexivity].
  change (c_B_STRING_TYPE =? c_B_ANY_TYPE) with false. cbn [orb].
  destruct (c_B_STRING_TYPE =? tc'); [|reflexivity].
  destruct (repr_nth idx r) as [i|]; [|reflexivity]. destruct i; reflexivity.
Qed.

(* the two statements the property file quotes in one piece *)
Theorem nan_compare_table eb mb x y :
  f_is_nan eb mb x = true \/ f_is_nan eb mb y = true ->
  forall op, ord_test op (f_ord eb mb x y) = (op =? c_NQF_OP_NOT_EQUAL_TO).
Proof.
  intros [H|H] op; [rewrite nan_unordered_l by exact H|rewrite nan_unordered_r by exact H]; apply unordered_table.
Qed.

Theorem zeros_equal :
  (f_ord 8 23 2147483648 0 = OEq /\ f_ord 8 23 0 2147483648 = OEq) /\
  (f_ord 11 52 9223372036854775808 0 = OEq /\ f_ord 11 52 0 9223372036854775808 = OEq).
Proof. exact (conj f32_zeros_equal f64_zeros_equal). Qed.

(* the magnitude of a bit pattern is its exponent field times 2^mb plus its mantissa field *)
Lemma mag_fields eb mb x :
  x mod 2 ^ (eb + mb) = ((x / 2 ^ mb) mod 2 ^ eb) * 2 ^ mb + x mod 2 ^ mb.
Proof.
  set (P := 2 ^ mb). set (E := 2 ^ eb).
  assert (HP : P <> 0) by apply p2nz. assert (HE : E <> 0) by apply p2nz.
  assert (Hpow : 2 ^ (eb + mb) = E * P) by (unfold E, P; rewrite N.pow_add_r; reflexivity).
  rewrite Hpow. assert (HEP : E * P <> 0) by lia.
  pose proof (N.div_mod x (E * P) HEP) as Hx. pose proof (N.mod_lt x (E * P) HEP) as Hm.
  set (mag := x mod (E * P)) in *. set (k := x / (E * P)) in *.
  assert (Hq : mag / P < E) by (apply N.div_lt_upper_bound; [exact HP|lia]).
  assert (He : (x / P) mod E = mag / P).
  { rewrite Hx. replace (E * P * k + mag) with (mag + (k * E) * P) by lia.
    rewrite N.div_add by exact HP. rewrite N.mod_add by exact HE. apply N.mod_small. exact Hq. }
  assert (Hmm : x mod P = mag mod P).
  { rewrite Hx. replace (E * P * k + mag) with (mag + (k * E) * P) by lia. apply N.mod_add. exact HP. }
  rewrite He, Hmm. rewrite N.mul_comm. apply N.div_mod. exact HP.
Qed.

(* ValueExistsQueryFilter with a specific fixed-size or String type code: "a field of that name and type holds at
   least index+1 items" *)
Theorem exists_spec_fixed m name tc idx :
  (tc =? c_B_ANY_TYPE) = false ->
  ((tc =? c_B_STRING_TYPE) || (0 <? elem_size (ftype_of_tc tc))) = true ->
  exists_data m name tc idx =
  match flookup name (msg_fields m) with
  | Some (tc', r) => (tc =? tc') && match repr_nth idx r with Some _ => true | None => false end
  | None => false
  end.
Proof.
  intros Hany Hfix. unfold exists_data, find_data, find_item, get_field.
  destruct (flookup name (msg_fields m)) as [[tc' r]|]; [|reflexivity].
  rewrite Hany. cbn [orb]. destruct (tc =? tc'); [|reflexivity]. cbn [andb].
  destruct (repr_nth idx r) as [i|]; [|reflexivity].
  unfold find_data_tc. destruct (tc =? c_B_STRING_TYPE); [destruct i; reflexivity|].
  cbn [orb] in Hfix. rewrite Hfix. destruct i; reflexivity.
Qed.

(* ... and with B_ANY_TYPE: a field of that name, of any (proper) type, holds the item *)
Theorem exists_spec_any m name idx :
  exists_data m name c_B_ANY_TYPE idx =
  match flookup name (msg_fields m) with
  | Some (tc', r) =>
      match repr_nth idx r with
      | Some i => negb (tc' =? c_B_ANY_TYPE) && match find_data_tc tc' i with Some _ => true | None => false end
      | None => false
      end
  | None => false
  end.
Proof.
  unfold exists_data, find_data, find_item, get_field.
  destruct (flookup name (msg_fields m)) as [[tc' r]|]; [|reflexivity].
  rewrite N.eqb_refl. cbn [orb].
  destruct (repr_nth idx r) as [i|]; [|reflexivity].
  destruct (tc' =? c_B_ANY_TYPE); reflexivity.
Qed.
