(* Flt/FltArchive.v -- the archived (Message) form of a query filter (C14), code-shaped.

   Mirrors:
     QueryFilter / WhatCodeQueryFilter / ValueQueryFilter / ValueExistsQueryFilter / NumericQueryFilter<T> /
     StringQueryFilter / RawDataQueryFilter / MessageQueryFilter / MultiQueryFilter /
     MinimumThresholdQueryFilter / MaximumThresholdQueryFilter :: SaveToArchive           to_archive
     the same classes' SetFromArchive, QueryFilterFactory::CreateQueryFilter(const Message &),
     MuscleQueryFilterFactory::CreateQueryFilter(uint32)                                  from_archive
   The archive is built with the Message API model of property C01 (MsgApi.api_add = AddString / AddInt32 /
   AddInt8 / AddData / AddMessage / AddFlat on a Message) and read back with the lookups of FltModel
   (Message::FindString / FindData / FindMessage / GetInt32 / GetInt8).  The field names are the string literals
   of the SaveToArchive methods, regenerated from regex/QueryFilter.{h,cpp} by the translator (c_qf_ names).
   from_archive recurses into "kid" sub-Messages; like the Message parser it runs on fuel = nesting depth
   (adequacy: FltProofs.from_archive_total).
   No proofs in this file. *)
From Coq Require Import List NArith ZArith Bool Strings.Byte.
From Muscle Require Import Gen.Consts Msg.MsgDefs Msg.MsgModel Msg.MsgApi Flt.FltModel.
Import ListNotations.
Local Open Scope N_scope.

Definition bytes_of_codes (l : list N) : bytes := map byte_of_N l.

Definition nm_fn := bytes_of_codes c_qf_fn.              Definition nm_idx := bytes_of_codes c_qf_idx.
Definition nm_what_min := bytes_of_codes c_qf_what_min.  Definition nm_what_max := bytes_of_codes c_qf_what_max.
Definition nm_exists_type := bytes_of_codes c_qf_exists_type.
Definition nm_multi_kid := bytes_of_codes c_qf_multi_kid.
Definition nm_min_matches := bytes_of_codes c_qf_min_matches.
Definition nm_max_matches := bytes_of_codes c_qf_max_matches.
Definition nm_msg_kid := bytes_of_codes c_qf_msg_kid.    Definition nm_msg_defmsg := bytes_of_codes c_qf_msg_defmsg.
Definition nm_str_val := bytes_of_codes c_qf_str_val.    Definition nm_str_def := bytes_of_codes c_qf_str_def.
Definition nm_str_op := bytes_of_codes c_qf_str_op.
Definition nm_raw_op := bytes_of_codes c_qf_raw_op.      Definition nm_raw_type := bytes_of_codes c_qf_raw_type.
Definition nm_raw_val := bytes_of_codes c_qf_raw_val.    Definition nm_raw_def := bytes_of_codes c_qf_raw_def.
Definition nm_num_op := bytes_of_codes c_qf_num_op.      Definition nm_num_mop := bytes_of_codes c_qf_num_mop.
Definition nm_num_val := bytes_of_codes c_qf_num_val.    Definition nm_num_msk := bytes_of_codes c_qf_num_msk.
Definition nm_num_def := bytes_of_codes c_qf_num_def.

(* ------------------------------------------------------------------ writing *)

(* one Add<Type>(name, value) call on the archive: field name, type code, item *)
Definition field_op := (bytes * N * item)%type.

Definition add (name : bytes) (tc : N) (v : item) (a : msg) : msg := fst (api_add false name tc v a).
Definition apply_op (a : msg) (o : field_op) : msg := add (fst (fst o)) (snd (fst o)) (snd o) a.
Definition apply_ops (ops : list field_op) (a : msg) : msg := fold_left apply_op ops a.

Definition op_string (name s : bytes) : field_op := (name, c_B_STRING_TYPE, IStr s).           (* AddString *)
Definition op_i32 (name : bytes) (v : N) : field_op := (name, c_B_INT32_TYPE, IFix (le_enc 4 v)).    (* AddInt32 *)
Definition op_i8 (name : bytes) (v : N) : field_op := (name, c_B_INT8_TYPE, IFix (le_enc 1 v)).      (* AddInt8 *)
Definition op_raw (name b : bytes) : field_op := (name, c_B_RAW_TYPE, IRaw b).                   (* AddData(.., B_RAW_TYPE, ..) *)
Definition op_msg (name : bytes) (s : msg) : field_op := (name, c_B_MESSAGE_TYPE, IMsg s).       (* AddMessage *)
(* CAdd<Type>(name, value, defVal): only added when value != defVal *)
Definition cop_i32 (name : bytes) (v d : N) : list field_op := if v =? d then [] else [op_i32 name v].
Definition cop_i8 (name : bytes) (v d : N) : list field_op := if v =? d then [] else [op_i8 name v].
(* `if ((bytes)&&(numBytes > 0)) AddData(..)`: nothing is added for a missing or empty buffer *)
Definition cop_raw (name : bytes) (b : option bytes) : list field_op :=
  match b with Some x => if len x =? 0 then [] else [op_raw name x] | None => [] end.

(* ValueQueryFilter::SaveToArchive (after QueryFilter::SaveToArchive has set the what-code) *)
Definition value_ops (name : bytes) (idx : N) : list field_op := op_string nm_fn name :: cop_i32 nm_idx idx 0.

Definition str_what (nodename : bool) : N := if nodename then c_QUERY_FILTER_TYPE_NODENAME else c_QUERY_FILTER_TYPE_STRING.

(* SaveToArchive of each class: the what-code, then the Add calls in the order the code makes them *)
Fixpoint to_archive (f : qfilter) : msg :=
  match f with
  | FWhat mn mx =>
      apply_ops (cop_i32 nm_what_min mn 0 ++ cop_i32 nm_what_max mx mn) (Msg c_QUERY_FILTER_TYPE_WHATCODE FNil)
  | FExists name idx tc =>
      apply_ops (value_ops name idx ++ cop_i32 nm_exists_type tc c_B_ANY_TYPE) (Msg c_QUERY_FILTER_TYPE_VALUEEXISTS FNil)
  | FNum k name idx op mop val msk def =>
      let tc := nt_tc (nk_type k) in
      apply_ops (value_ops name idx ++ cop_i8 nm_num_op op 0 ++ cop_i8 nm_num_mop mop 0
                 ++ [(nm_num_val, tc, IFix val); (nm_num_msk, tc, IFix msk)]
                 ++ match def with Some d => [(nm_num_def, tc, IFix d)] | None => [] end)
                (Msg (nk_what k) FNil)
  | FStr nodename name idx op val def =>
      apply_ops (value_ops name idx ++ [op_string nm_str_val val]
                 ++ match def with Some d => [op_string nm_str_def d] | None => [] end
                 ++ [op_i8 nm_str_op op])
                (Msg (str_what nodename) FNil)
  | FRaw name idx op tc val def =>
      apply_ops (value_ops name idx ++ [op_i8 nm_raw_op op] ++ cop_i32 nm_raw_type tc c_B_ANY_TYPE
                 ++ cop_raw nm_raw_val val ++ cop_raw nm_raw_def def)
                (Msg c_QUERY_FILTER_TYPE_RAWDATA FNil)
  | FMsg name idx kid defmsg =>
      apply_ops (value_ops name idx
                 ++ match kid with OSome k => [op_msg nm_msg_kid (to_archive k)] | ONone => [] end
                 ++ match defmsg with Some d => [op_msg nm_msg_defmsg d] | None => [] end)
                (Msg c_QUERY_FILTER_TYPE_MESSAGE FNil)
  | FMin n kids =>
      apply_ops (kid_ops kids ++ cop_i32 nm_min_matches n c_MUSCLE_NO_LIMIT) (Msg c_QUERY_FILTER_TYPE_MINMATCH FNil)
  | FMax n kids =>
      apply_ops (kid_ops kids ++ cop_i32 nm_max_matches n 0) (Msg c_QUERY_FILTER_TYPE_MAXMATCH FNil)
  | FXor kids => apply_ops (kid_ops kids) (Msg c_QUERY_FILTER_TYPE_XOR FNil)
  end
(* MultiQueryFilter::SaveToArchive: one AddArchiveMessage("kid", child) per child, in order *)
with kid_ops (kids : flist) : list field_op :=
  match kids with
  | LNil => []
  | LCons k tl => op_msg nm_multi_kid (to_archive k) :: kid_ops tl
  end.

(* ------------------------------------------------------------------ reading *)

(* Get<Int32|Int8>(name, defVal): Find<..>(name, 0, r) through FindDataItemAux (exact type, index 0) *)
Definition find_int (a : msg) (name : bytes) (tc w : N) : option N :=
  match find_item a name tc 0 with
  | Some (_, IFix bs) => Some (uval w bs)
  | _ => None
  end.
Definition get_i32 (a : msg) (name : bytes) (d : N) : N :=
  match find_int a name c_B_INT32_TYPE 32 with Some v => v | None => d end.
Definition get_i8 (a : msg) (name : bytes) (d : N) : N :=
  match find_int a name c_B_INT8_TYPE 8 with Some v => v | None => d end.

(* FindMessage(name, i, ..) for i = 0, 1, .. until it fails *)
Fixpoint items_msgs (l : items) : list msg :=
  match l with
  | ICons (IMsg m) t => m :: items_msgs t
  | _ => []
  end.
Definition find_msgs (a : msg) (name : bytes) : list msg :=
  match get_field a name c_B_MESSAGE_TYPE with
  | Some (_, RInline (IMsg m)) => [m]
  | Some (_, RArray l) => items_msgs l
  | _ => []
  end.

Definition raw_of (a : msg) (name : bytes) : option bytes :=       (* FindData(name, B_RAW_TYPE, &data, &numBytes) *)
  match find_data a name c_B_RAW_TYPE 0 with Some (DBytes b) => Some b | _ => None end.

Section FromLevel.
  (* GetGlobalQueryFilterFactory()()->CreateQueryFilter(subMessage): the next nesting level *)
  Variable inner : msg -> res qfilter.

  Fixpoint kids_of (l : list msg) : res flist :=
    match l with
    | [] => Ok LNil
    | k :: t => bind (inner k) (fun f => bind (kids_of t) (fun r => Ok (LCons f r)))
    end.

  (* ValueQueryFilter::SetFromArchive: _index = GetInt32("idx"); return FindString("fn", _fieldName) *)
  Definition load_value (a : msg) : res (bytes * N) :=
    match find_string a nm_fn 0 with
    | Some s => Ok (s, get_i32 a nm_idx 0)
    | None => Err
    end.

  Definition load_num (k : nkind) (a : msg) : res qfilter :=
    let t := nk_type k in
    let tc := nt_tc t in
    bind (load_value a) (fun p =>
      match find_fix a nm_num_val tc 0 with
      | None => Err
      | Some v =>
          if negb (elem_size (ftype_of_tc tc) =? nt_size t) then Err          (* numBytes != sizeof(_value) *)
          else
            let msk := match find_fix a nm_num_msk tc 0 with Some b => b | None => nt_default t end in
            Ok (FNum k (fst p) (snd p) (get_i8 a nm_num_op 0) (get_i8 a nm_num_mop 0) v msk (find_fix a nm_num_def tc 1))
      end).

  Definition load_str (nodename : bool) (a : msg) : res qfilter :=
    let def := find_string a nm_str_def 1 in
    bind (load_value a) (fun p =>
      match find_string a nm_str_val 0 with
      | None => Err
      | Some v => match find_int a nm_str_op c_B_INT8_TYPE 8 with
                  | None => Err
                  | Some op => Ok (FStr nodename (fst p) (snd p) op v def)
                  end
      end).

  Definition load_raw (a : msg) : res qfilter :=
    bind (load_value a) (fun p =>
      match find_int a nm_raw_op c_B_INT8_TYPE 8 with
      | None => Err
      | Some op => Ok (FRaw (fst p) (snd p) op (get_i32 a nm_raw_type c_B_ANY_TYPE) (raw_of a nm_raw_val) (raw_of a nm_raw_def))
      end).

  Definition load_msg (a : msg) : res qfilter :=
    bind (load_value a) (fun p =>
      let defmsg := find_msg a nm_msg_defmsg 0 in
      match find_msg a nm_msg_kid 0 with
      | Some sub => bind (inner sub) (fun k => Ok (FMsg (fst p) (snd p) (OSome k) defmsg))
      | None => Ok (FMsg (fst p) (snd p) ONone defmsg)
      end).

  (* CreateQueryFilter(msg.what) then SetFromArchive(msg) *)
  Definition from_level (a : msg) : res qfilter :=
    let w := msg_what a in
    if w =? c_QUERY_FILTER_TYPE_WHATCODE then
      let mn := get_i32 a nm_what_min 0 in Ok (FWhat mn (get_i32 a nm_what_max mn))
    else if w =? c_QUERY_FILTER_TYPE_VALUEEXISTS then
      bind (load_value a) (fun p => Ok (FExists (fst p) (snd p) (get_i32 a nm_exists_type c_B_ANY_TYPE)))
    else if w =? c_QUERY_FILTER_TYPE_BOOL then load_num (KNum NBool) a
    else if w =? c_QUERY_FILTER_TYPE_DOUBLE then load_num (KNum NDouble) a
    else if w =? c_QUERY_FILTER_TYPE_FLOAT then load_num (KNum NFloat) a
    else if w =? c_QUERY_FILTER_TYPE_INT64 then load_num (KNum NInt64) a
    else if w =? c_QUERY_FILTER_TYPE_INT32 then load_num (KNum NInt32) a
    else if w =? c_QUERY_FILTER_TYPE_INT16 then load_num (KNum NInt16) a
    else if w =? c_QUERY_FILTER_TYPE_INT8 then load_num (KNum NInt8) a
    else if w =? c_QUERY_FILTER_TYPE_POINT then load_num (KNum NPoint) a
    else if w =? c_QUERY_FILTER_TYPE_RECT then load_num (KNum NRect) a
    else if w =? c_QUERY_FILTER_TYPE_STRING then load_str false a
    else if w =? c_QUERY_FILTER_TYPE_MESSAGE then load_msg a
    else if w =? c_QUERY_FILTER_TYPE_RAWDATA then load_raw a
    else if w =? c_QUERY_FILTER_TYPE_MAXMATCH then
      bind (kids_of (find_msgs a nm_multi_kid)) (fun ks => Ok (FMax (get_i32 a nm_max_matches 0) ks))
    else if w =? c_QUERY_FILTER_TYPE_MINMATCH then
      bind (kids_of (find_msgs a nm_multi_kid)) (fun ks => Ok (FMin (get_i32 a nm_min_matches c_MUSCLE_NO_LIMIT) ks))
    else if w =? c_QUERY_FILTER_TYPE_XOR then
      bind (kids_of (find_msgs a nm_multi_kid)) (fun ks => Ok (FXor ks))
    else if w =? c_QUERY_FILTER_TYPE_CHILDCOUNT then load_num KChildCount a
    else if w =? c_QUERY_FILTER_TYPE_NODENAME then load_str true a
    else Err.                                                               (* B_UNIMPLEMENTED: unknown type code *)
End FromLevel.

Fixpoint from_fuel (fuel : nat) (a : msg) : res qfilter :=
  match fuel with
  | O => Fuel
  | S f => from_level (from_fuel f) a
  end.

Definition from_archive (a : msg) : res qfilter := from_fuel (depth_msg a) a.

(* nesting depth of a filter tree (a leaf has depth 1) *)
Fixpoint fdepth (f : qfilter) : nat :=
  match f with
  | FMsg _ _ (OSome k) _ => S (fdepth k)
  | FMin _ kids | FMax _ kids | FXor kids => S (fdepth_list kids)
  | _ => 1%nat
  end
with fdepth_list (l : flist) : nat :=
  match l with LNil => O | LCons f t => Nat.max (fdepth f) (fdepth_list t) end.
