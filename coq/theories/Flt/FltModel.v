(* Flt/FltModel.v -- executable model of the query filters of regex/QueryFilter.{h,cpp} (C14), code-shaped.

   Mirrors, function by function:
     Message::GetMessageField / MessageField::FindDataItem / Message::FindData
       (the type switch: String -> C string incl. NUL, B_ANY_TYPE -> the field's own type, fixed-size element
        -> the item in memory, variable-size -> the ByteBuffer's bytes)                 get_field / repr_nth / find_data
     Message::FindString / FindMessage                                                  find_string / find_msg
     WhatCodeQueryFilter::Matches (muscleInRange)                                       eval (FWhat)
     ValueExistsQueryFilter::Matches                                                    exists_data
     NumericQueryFilter<T>::Matches / MatchesAux, NQFDoMaskOp<T> (ints, bool, and the
       dummy float/double/Point/Rect specialisations), Tuple<N,float>::operator< > == ..  num_matches / num_test / num_apply_mask
     ChildCountQueryFilter::Matches (temporary Message with one int32 under "")         childcount_msg
     StringQueryFilter::Matches / MatchesString (all 28 operators; the four StringMatcher-backed
       ones through the Section variable [smatch]), NodeNameQueryFilter::Matches         str_matches / str_op
     RawDataQueryFilter::Matches (clen, memcmp, MemMem of system/SetupSystem.cpp)        raw_matches / raw_op / memmem
     MessageQueryFilter::Matches (default sub-Message, NULL child filter)               eval (FMsg)
     ThresholdMaxAux (threshold clamp, early give-up test, early success),
       Minimum/MaximumThresholdQueryFilter::Matches, XorQueryFilter::Matches            thr_aux / thr_loop / xor_count

   Numbers: a fixed-width value is the list of its bytes in memory order (= wire order on the little-endian
   targets the translator probes); float/double comparison is IEEE-754 on the decoded sign/exponent/mantissa
   fields (NaN unordered, -0 = +0), not a premise.  uint32/uint8 members are N (ranges are in wf_filter, FltArchive).
   Domain notes (see checks/c14.py `modelled`): Strings are treated as NUL-free byte strings; an empty ByteBuffer is
   taken to have a NULL data pointer; NULL children of a MultiQueryFilter are not represented.
   No proofs in this file. *)
From Coq Require Import List NArith ZArith Bool Strings.Byte.
From Muscle Require Import Gen.Consts Msg.MsgDefs Msg.MsgModel.
Import ListNotations.
Local Open Scope N_scope.

(* ------------------------------------------------------------------ the filter tree *)

Inductive ntype := NBool | NDouble | NFloat | NInt64 | NInt32 | NInt16 | NInt8 | NPoint | NRect.

(* which class a numeric filter object is: NumericQueryFilter<T,..> or its subclass ChildCountQueryFilter *)
Inductive nkind := KNum (t : ntype) | KChildCount.

Inductive qfilter : Type :=
| FWhat (mn mx : N)                                                        (* WhatCodeQueryFilter *)
| FExists (name : bytes) (idx : N) (tc : N)                                (* ValueExistsQueryFilter *)
| FNum (k : nkind) (name : bytes) (idx : N) (op mop : N) (val msk : bytes) (def : option bytes)
| FStr (nodename : bool) (name : bytes) (idx : N) (op : N) (val : bytes) (def : option bytes)
| FRaw (name : bytes) (idx : N) (op : N) (tc : N) (val def : option bytes) (* RawDataQueryFilter *)
| FMsg (name : bytes) (idx : N) (kid : ofilter) (defmsg : option msg)      (* MessageQueryFilter *)
| FMin (n : N) (kids : flist)                                              (* MinimumThresholdQueryFilter (And, Or) *)
| FMax (n : N) (kids : flist)                                              (* MaximumThresholdQueryFilter (Nand, Nor) *)
| FXor (kids : flist)                                                      (* XorQueryFilter *)
with flist : Type :=
| LNil
| LCons (f : qfilter) (tl : flist)
with ofilter : Type :=
| ONone
| OSome (f : qfilter).

Scheme filter_mi := Induction for qfilter Sort Prop
  with flist_mi := Induction for flist Sort Prop
  with ofilter_mi := Induction for ofilter Sort Prop.
Combined Scheme filter_mutind from filter_mi, flist_mi, ofilter_mi.

Fixpoint flist_len (l : flist) : N :=
  match l with LNil => 0 | LCons _ t => N.succ (flist_len t) end.

Fixpoint flist_app (a b : flist) : flist :=
  match a with LNil => b | LCons f t => LCons f (flist_app t b) end.

Fixpoint flist_of (l : list qfilter) : flist :=
  match l with [] => LNil | f :: t => LCons f (flist_of t) end.
Fixpoint list_of_flist (l : flist) : list qfilter :=
  match l with LNil => [] | LCons f t => f :: list_of_flist t end.

(* the convenience subclasses *)
Definition FAnd (kids : flist) : qfilter := FMin c_MUSCLE_NO_LIMIT kids.
Definition FOr (kids : flist) : qfilter := FMin 0 kids.
Definition FNand (kids : flist) : qfilter := FMax c_MUSCLE_NO_LIMIT kids.
Definition FNor (kids : flist) : qfilter := FMax 0 kids.

(* DataTypeCode / ClassTypeCode / sizeof(DataType) of the NumericQueryFilter typedefs *)
Definition nt_tc (t : ntype) : N :=
  match t with
  | NBool => c_B_BOOL_TYPE | NDouble => c_B_DOUBLE_TYPE | NFloat => c_B_FLOAT_TYPE | NInt64 => c_B_INT64_TYPE
  | NInt32 => c_B_INT32_TYPE | NInt16 => c_B_INT16_TYPE | NInt8 => c_B_INT8_TYPE | NPoint => c_B_POINT_TYPE
  | NRect => c_B_RECT_TYPE
  end.
Definition nt_what (t : ntype) : N :=
  match t with
  | NBool => c_QUERY_FILTER_TYPE_BOOL | NDouble => c_QUERY_FILTER_TYPE_DOUBLE | NFloat => c_QUERY_FILTER_TYPE_FLOAT
  | NInt64 => c_QUERY_FILTER_TYPE_INT64 | NInt32 => c_QUERY_FILTER_TYPE_INT32 | NInt16 => c_QUERY_FILTER_TYPE_INT16
  | NInt8 => c_QUERY_FILTER_TYPE_INT8 | NPoint => c_QUERY_FILTER_TYPE_POINT | NRect => c_QUERY_FILTER_TYPE_RECT
  end.
Definition nt_size (t : ntype) : N :=
  match t with
  | NBool => c_SIZEOF_bool | NDouble => c_SIZEOF_double | NFloat => c_SIZEOF_float | NInt64 => c_SIZEOF_int64
  | NInt32 => c_SIZEOF_int32 | NInt16 => c_SIZEOF_int16 | NInt8 => c_SIZEOF_int8 | NPoint => c_SIZEOF_Point
  | NRect => c_SIZEOF_Rect
  end.
Definition nk_type (k : nkind) : ntype := match k with KNum t => t | KChildCount => NInt32 end.
Definition nk_what (k : nkind) : N := match k with KNum t => nt_what t | KChildCount => c_QUERY_FILTER_TYPE_CHILDCOUNT end.

(* ------------------------------------------------------------------ Message lookups *)

(* Message::GetMessageField(fieldName, tc) *)
Definition get_field (m : msg) (name : bytes) (tc : N) : option (N * repr) :=
  match flookup name (msg_fields m) with
  | Some (tc', r) => if (tc =? c_B_ANY_TYPE) || (tc =? tc') then Some (tc', r) else None
  | None => None
  end.

(* MessageField::FindDataItem(index): SingleFindDataItem for the inline state, the array's bounds check otherwise *)
Definition repr_nth (idx : N) (r : repr) : option item :=
  match r with
  | RInline i => if idx =? 0 then Some i else None
  | RArray l => items_nth idx l
  end.

Definition find_item (m : msg) (name : bytes) (tc idx : N) : option (N * item) :=
  match get_field m name tc with
  | Some (tc', r) => match repr_nth idx r with Some i => Some (tc', i) | None => None end
  | None => None
  end.

(* what FindData hands back: the bytes that data and setSize describe, or -- for a fixed-size element that is not
   a plain value (MessageRef, pointer) -- object bits the model does not represent *)
Inductive fdata := DBytes (bs : bytes) | DOpaque.

(* the `switch(tc)` of Message::FindData for tc <> B_ANY_TYPE, once the item has been found *)
Definition find_data_tc (tc : N) (i : item) : option fdata :=
  if tc =? c_B_STRING_TYPE then
    match i with IStr s => Some (DBytes (s ++ [x00])) | _ => Some DOpaque end    (* Cstr(), FlattenedSize() = Length()+1 *)
  else if 0 <? elem_size (ftype_of_tc tc) then
    match i with IFix bs => Some (DBytes bs) | _ => Some DOpaque end
  else
    match i with
    | IRaw b => if len b =? 0 then None else Some (DBytes b)      (* `if (b)`: an empty ByteBuffer has no buffer *)
    | _ => None                                                  (* the dynamic_cast to ByteBuffer fails: B_TYPE_MISMATCH *)
    end.

Definition find_data (m : msg) (name : bytes) (tc idx : N) : option fdata :=
  match find_item m name tc idx with
  | None => None
  | Some (tc', i) =>
      if tc =? c_B_ANY_TYPE
      then (if tc' =? c_B_ANY_TYPE then None else find_data_tc tc' i)    (* B_BAD_OBJECT / retry with the field's type *)
      else find_data_tc tc i
  end.

Definition exists_data (m : msg) (name : bytes) (tc idx : N) : bool :=
  match find_data m name tc idx with Some _ => true | None => false end.

(* FindData(name, DataTypeCode, idx, &p, NULL) as NumericQueryFilter uses it: the item's bytes *)
Definition find_fix (m : msg) (name : bytes) (tc idx : N) : option bytes :=
  match find_data m name tc idx with Some (DBytes bs) => Some bs | _ => None end.

Definition find_string (m : msg) (name : bytes) (idx : N) : option bytes :=
  match find_item m name c_B_STRING_TYPE idx with Some (_, IStr s) => Some s | _ => None end.

Definition find_msg (m : msg) (name : bytes) (idx : N) : option msg :=
  match find_item m name c_B_MESSAGE_TYPE idx with Some (_, IMsg s) => Some s | _ => None end.

(* ------------------------------------------------------------------ numeric values *)

Inductive ord := OLt | OEq | OGt | OUn.      (* OUn: unordered (a NaN is involved) *)
Definition ord_of (c : comparison) : ord := match c with Lt => OLt | Eq => OEq | Gt => OGt end.

Definition uval (w : N) (bs : bytes) : N := le_dec bs mod 2 ^ w.            (* the w-bit pattern *)
Definition sval (w : N) (u : N) : Z :=                                     (* two's complement value of a w-bit pattern *)
  if u <? 2 ^ (w - 1) then Z.of_N u else (Z.of_N u - Z.of_N (2 ^ w))%Z.
Definition int_ord (w : N) (a b : bytes) : ord := ord_of (Z.compare (sval w (uval w a)) (sval w (uval w b))).

Definition bool_u (bs : bytes) : N := match bs with b :: _ => if is_nul b then 0 else 1 | [] => 0 end.
Definition bool_ord (a b : bytes) : ord := ord_of (N.compare (bool_u a) (bool_u b)).

(* IEEE-754 binary interchange format, [eb] exponent bits and [mb] stored mantissa bits, on the bit pattern x:
   NaN = exponent all ones and mantissa non-zero; otherwise the order is that of the signed magnitude
   (so -0 = +0, -inf lowest, +inf highest) *)
Definition f_is_nan (eb mb x : N) : bool := ((x / 2 ^ mb) mod 2 ^ eb =? 2 ^ eb - 1) && negb (x mod 2 ^ mb =? 0).
Definition f_key (eb mb x : N) : Z :=
  let mag := x mod 2 ^ (eb + mb) in
  if (x / 2 ^ (eb + mb)) mod 2 =? 0 then Z.of_N mag else (- Z.of_N mag)%Z.
Definition f_ord (eb mb : N) (x y : N) : ord :=
  if f_is_nan eb mb x || f_is_nan eb mb y then OUn else ord_of (Z.compare (f_key eb mb x) (f_key eb mb y)).

Definition f32_ord (a b : bytes) : ord := f_ord 8 23 (uval 32 a) (uval 32 b).
Definition f64_ord (a b : bytes) : ord := f_ord 11 52 (uval 64 a) (uval 64 b).

(* the six operators of NumericQueryFilter::MatchesAux on a scalar *)
Definition ord_test (op : N) (o : ord) : bool :=
  if op =? c_NQF_OP_EQUAL_TO then match o with OEq => true | _ => false end
  else if op =? c_NQF_OP_LESS_THAN then match o with OLt => true | _ => false end
  else if op =? c_NQF_OP_GREATER_THAN then match o with OGt => true | _ => false end
  else if op =? c_NQF_OP_LESS_THAN_OR_EQUAL_TO then match o with OLt | OEq => true | _ => false end
  else if op =? c_NQF_OP_GREATER_THAN_OR_EQUAL_TO then match o with OGt | OEq => true | _ => false end
  else if op =? c_NQF_OP_NOT_EQUAL_TO then match o with OEq => false | _ => true end
  else false.

(* support/Tuple.h: operator== (all components equal), operator< / > (first component that is < or > decides;
   a component that is neither -- equal or unordered -- is skipped), <= is !>, >= is !<, != is !== *)
Definition tup_eq (os : list ord) : bool := forallb (fun o => match o with OEq => true | _ => false end) os.
Fixpoint tup_lt (os : list ord) : bool :=
  match os with [] => false | o :: t => match o with OLt => true | OGt => false | _ => tup_lt t end end.
Fixpoint tup_gt (os : list ord) : bool :=
  match os with [] => false | o :: t => match o with OGt => true | OLt => false | _ => tup_gt t end end.
Definition tup_test (op : N) (os : list ord) : bool :=
  if op =? c_NQF_OP_EQUAL_TO then tup_eq os
  else if op =? c_NQF_OP_LESS_THAN then tup_lt os
  else if op =? c_NQF_OP_GREATER_THAN then tup_gt os
  else if op =? c_NQF_OP_LESS_THAN_OR_EQUAL_TO then negb (tup_gt os)
  else if op =? c_NQF_OP_GREATER_THAN_OR_EQUAL_TO then negb (tup_lt os)
  else if op =? c_NQF_OP_NOT_EQUAL_TO then negb (tup_eq os)
  else false.

Fixpoint tup_ords (n : nat) (a b : bytes) : list ord :=       (* n float components of 4 bytes each *)
  match n with
  | O => []
  | S k => f32_ord (takeN 4 a) (takeN 4 b) :: tup_ords k (dropN 4 a) (dropN 4 b)
  end.

(* MatchesAux: valueInMsg OP _value *)
Definition num_test (t : ntype) (op : N) (v operand : bytes) : bool :=
  match t with
  | NBool => ord_test op (bool_ord v operand)
  | NInt8 => ord_test op (int_ord 8 v operand)
  | NInt16 => ord_test op (int_ord 16 v operand)
  | NInt32 => ord_test op (int_ord 32 v operand)
  | NInt64 => ord_test op (int_ord 64 v operand)
  | NFloat => ord_test op (f32_ord v operand)
  | NDouble => ord_test op (f64_ord v operand)
  | NPoint => tup_test op (tup_ords 2 v operand)
  | NRect => tup_test op (tup_ords 4 v operand)
  end.

(* NQFDoMaskOp on a w-bit pattern (bool: w = 1, where ! is the 1-bit complement) *)
Definition mask_u (w : N) (mop v m : N) : N :=
  let ones := 2 ^ w - 1 in
  if mop =? c_NQF_MASK_OP_AND then N.land v m
  else if mop =? c_NQF_MASK_OP_OR then N.lor v m
  else if mop =? c_NQF_MASK_OP_XOR then N.lxor v m
  else if mop =? c_NQF_MASK_OP_NAND then N.lxor ones (N.land v m)
  else if mop =? c_NQF_MASK_OP_NOR then N.lxor ones (N.lor v m)
  else if mop =? c_NQF_MASK_OP_XNOR then N.lxor ones (N.lxor v m)
  else v.

Definition zeros (n : nat) : bytes := repeat x00 n.

(* DataType(): the bytes of a default-constructed value.  Point() is (0,0); Rect() is the "irrational" rectangle
   (0,0,-1,-1) -- both taken from the compiled headers by the translator *)
Definition nt_default (t : ntype) : bytes :=
  match t with
  | NBool => zeros 1 | NInt8 => zeros 1 | NInt16 => zeros 2 | NInt32 => zeros 4 | NInt64 => zeros 8
  | NFloat => zeros 4 | NDouble => zeros 8
  | NPoint => map byte_of_N c_QF_DEFAULT_POINT
  | NRect => map byte_of_N c_QF_DEFAULT_RECT
  end.

(* `(_maskOp == NQF_MASK_OP_NONE) ? v : NQFDoMaskOp(_maskOp, v, _mask)`; the float/double/Point/Rect
   specialisations ignore their arguments and return a default-constructed value *)
Definition num_apply_mask (t : ntype) (mop : N) (v msk : bytes) : bytes :=
  if mop =? c_NQF_MASK_OP_NONE then v else
  match t with
  | NBool => [byte_of_N (mask_u 1 mop (bool_u v) (bool_u msk))]
  | NInt8 => le_enc 1 (mask_u 8 mop (uval 8 v) (uval 8 msk))
  | NInt16 => le_enc 2 (mask_u 16 mop (uval 16 v) (uval 16 msk))
  | NInt32 => le_enc 4 (mask_u 32 mop (uval 32 v) (uval 32 msk))
  | NInt64 => le_enc 8 (mask_u 64 mop (uval 64 v) (uval 64 msk))
  | NFloat | NDouble | NPoint | NRect => nt_default t
  end.

Definition or_else {A} (a b : option A) : option A := match a with Some _ => a | None => b end.

(* NumericQueryFilter::Matches *)
Definition num_matches (t : ntype) (m : msg) (name : bytes) (idx op mop : N) (val msk : bytes) (def : option bytes) : bool :=
  match or_else (find_fix m name (nt_tc t) idx) def with
  | None => false
  | Some v => num_test t op (num_apply_mask t mop v msk) val
  end.

(* the node a filter is evaluated on, when there is one: (number of children, node name) *)
Definition nodeinfo := option (N * bytes).

(* ChildCountQueryFilter::Matches: `Message temp; temp.AddInt32("", optNode ? optNode->GetNumChildren() : 0)` *)
Definition childcount_msg (node : nodeinfo) : msg :=
  Msg 0 (FCons [] c_B_INT32_TYPE (RInline (IFix (le32 (match node with Some (n, _) => n | None => 0 end)))) FNil).

(* ------------------------------------------------------------------ strings *)

Definition ub (s : bytes) : list N := map N_of_byte s.                       (* unsigned char values *)
Definition lower (c : N) : N := if (65 <=? c) && (c <=? 90) then c + 32 else c.    (* tolower, "C" locale *)
Definition lb (s : bytes) : list N := map lower (ub s).

Fixpoint lex_cmp (a b : list N) : comparison :=          (* strcmp / strcasecmp / memcmp on equal lengths *)
  match a, b with
  | [], [] => Eq
  | [], _ :: _ => Lt
  | _ :: _, [] => Gt
  | x :: a', y :: b' => match N.compare x y with Eq => lex_cmp a' b' | c => c end
  end.
Definition leqb (a b : list N) : bool := match lex_cmp a b with Eq => true | _ => false end.

(* strstr(h, n) != NULL: the first match position scan *)
Fixpoint scan_from (n h : list N) : bool :=
  leqb (takeN (len n) h) n ||
  match h with [] => false | _ :: t => scan_from n t end.

(* StrcasestrEx(h, hlen, n, nlen, false) != NULL  (arguments already lower-cased) *)
Fixpoint scan_n (fuel : nat) (n h : list N) : bool :=
  match fuel with
  | O => false
  | S k => leqb (takeN (len n) h) n || scan_n k n (dropN 1 h)
  end.
Definition strcasestr_ex (h n : list N) : bool :=
  if (len h =? 0) || (len n =? 0) then false
  else if len n <=? len h then scan_n (N.to_nat (len h - (len n - 1))) n h
  else false.

Section Eval.
  (* StringMatcher-backed operators (regex/StringMatcher.cpp, libc regcomp/regexec: property C15):
     [smatch op pattern subject] for op in the four *_MATCH operator codes *)
  Variable smatch : N -> bytes -> bytes -> bool.

  (* StringQueryFilter::MatchesString(s) with _value = v *)
  Definition str_op (op : N) (v s : bytes) : bool :=
    if op =? c_SQF_OP_EQUAL_TO then (len s =? len v) && leqb (ub s) (ub v)
    else if op =? c_SQF_OP_LESS_THAN then match lex_cmp (ub s) (ub v) with Lt => true | _ => false end
    else if op =? c_SQF_OP_GREATER_THAN then match lex_cmp (ub s) (ub v) with Gt => true | _ => false end
    else if op =? c_SQF_OP_LESS_THAN_OR_EQUAL_TO then match lex_cmp (ub s) (ub v) with Gt => false | _ => true end
    else if op =? c_SQF_OP_GREATER_THAN_OR_EQUAL_TO then match lex_cmp (ub s) (ub v) with Lt => false | _ => true end
    else if op =? c_SQF_OP_NOT_EQUAL_TO then negb ((len s =? len v) && leqb (ub s) (ub v))
    else if op =? c_SQF_OP_STARTS_WITH then (len v <=? len s) && leqb (takeN (len v) (ub s)) (ub v)
    else if op =? c_SQF_OP_ENDS_WITH then (len v <=? len s) && leqb (dropN (len s - len v) (ub s)) (ub v)
    else if op =? c_SQF_OP_CONTAINS then (0 <? len s) && scan_from (ub v) (ub s)
    else if op =? c_SQF_OP_START_OF then (len s <=? len v) && leqb (takeN (len s) (ub v)) (ub s)
    else if op =? c_SQF_OP_END_OF then (len s <=? len v) && leqb (dropN (len v - len s) (ub v)) (ub s)
    else if op =? c_SQF_OP_SUBSTRING_OF then (0 <? len v) && scan_from (ub s) (ub v)
    else if op =? c_SQF_OP_EQUAL_TO_IGNORECASE then (len s =? len v) && leqb (lb s) (lb v)
    else if op =? c_SQF_OP_LESS_THAN_IGNORECASE then match lex_cmp (lb s) (lb v) with Lt => true | _ => false end
    else if op =? c_SQF_OP_GREATER_THAN_IGNORECASE then match lex_cmp (lb s) (lb v) with Gt => true | _ => false end
    else if op =? c_SQF_OP_LESS_THAN_OR_EQUAL_TO_IGNORECASE then match lex_cmp (lb s) (lb v) with Gt => false | _ => true end
    else if op =? c_SQF_OP_GREATER_THAN_OR_EQUAL_TO_IGNORECASE then match lex_cmp (lb s) (lb v) with Lt => false | _ => true end
    else if op =? c_SQF_OP_NOT_EQUAL_TO_IGNORECASE then negb ((len s =? len v) && leqb (lb s) (lb v))
    else if op =? c_SQF_OP_STARTS_WITH_IGNORECASE then (len v <=? len s) && leqb (takeN (len v) (lb s)) (lb v)
    else if op =? c_SQF_OP_ENDS_WITH_IGNORECASE then (len v <=? len s) && leqb (dropN (len s - len v) (lb s)) (lb v)
    else if op =? c_SQF_OP_CONTAINS_IGNORECASE then (0 <? len s) && strcasestr_ex (lb s) (lb v)
    else if op =? c_SQF_OP_START_OF_IGNORECASE then (len s <=? len v) && leqb (takeN (len s) (lb v)) (lb s)
    else if op =? c_SQF_OP_END_OF_IGNORECASE then (len s <=? len v) && leqb (dropN (len v - len s) (lb v)) (lb s)
    else if op =? c_SQF_OP_SUBSTRING_OF_IGNORECASE then (0 <? len v) && strcasestr_ex (lb v) (lb s)
    else if (op =? c_SQF_OP_SIMPLE_WILDCARD_MATCH) || (op =? c_SQF_OP_SIMPLE_WILDCARD_MATCH_IGNORECASE)
            || (op =? c_SQF_OP_REGULAR_EXPRESSION_MATCH) || (op =? c_SQF_OP_REGULAR_EXPRESSION_MATCH_IGNORECASE)
         then smatch op v s
    else false.

  (* StringQueryFilter::Matches *)
  Definition str_matches (m : msg) (name : bytes) (idx op : N) (val : bytes) (def : option bytes) : bool :=
    match or_else (find_string m name idx) def with
    | None => false
    | Some s => str_op op val s
    end.

  (* ---------------------------------------------------------------- raw data *)

  (* memcmp(a, b, n) on buffers that both hold at least n bytes *)
  Definition memcmp (n : N) (a b : bytes) : comparison := lex_cmp (takeN n (ub a)) (takeN n (ub b)).
  Definition mem_eq (n : N) (a b : bytes) : bool := match memcmp n a b with Eq => true | _ => false end.

  (* the scan loop of MemMem: positions 0 .. scanLength-1 *)
  Fixpoint memmem_scan (fuel : nat) (look_in look_for : bytes) : bool :=
    match fuel with
    | O => false
    | S k =>
        (match look_in, look_for with
         | x :: _, y :: _ => byte_eqb x y && mem_eq (len look_for) look_in look_for
         | _, _ => false
         end) || memmem_scan k (dropN 1 look_in) look_for
    end.
  Definition memmem (look_in look_for : bytes) : bool :=       (* MemMem(..) != NULL *)
    if len look_for =? 0 then true
    else if len look_for =? len look_in then mem_eq (len look_in) look_in look_for
    else if len look_for <? len look_in then memmem_scan (N.to_nat (1 + len look_in - len look_for)) look_in look_for
    else false.

  (* the switch(_op) of RawDataQueryFilter::Matches; my = _value's bytes, his = the bytes found (or the default) *)
  Definition raw_op (op : N) (my his : bytes) : bool :=
    let myN := len my in let hisN := len his in
    let clen := N.min myN hisN in
    if op =? c_RQF_OP_EQUAL_TO then (hisN =? myN) && mem_eq clen my his
    else if op =? c_RQF_OP_LESS_THAN then
      match memcmp clen his my with Lt => true | Eq => hisN <? myN | Gt => false end
    else if op =? c_RQF_OP_GREATER_THAN then
      match memcmp clen his my with Gt => true | Eq => myN <? hisN | Lt => false end
    else if op =? c_RQF_OP_LESS_THAN_OR_EQUAL_TO then
      match memcmp clen his my with Lt => true | Eq => hisN <=? myN | Gt => false end
    else if op =? c_RQF_OP_GREATER_THAN_OR_EQUAL_TO then
      match memcmp clen his my with Gt => true | Eq => myN <=? hisN | Lt => false end
    else if op =? c_RQF_OP_NOT_EQUAL_TO then negb (hisN =? myN) || negb (mem_eq clen my his)
    else if op =? c_RQF_OP_STARTS_WITH then (myN <=? hisN) && mem_eq clen my his
    else if op =? c_RQF_OP_ENDS_WITH then (myN <=? hisN) && mem_eq clen (dropN (myN - clen) my) (dropN (hisN - clen) his)
    else if op =? c_RQF_OP_CONTAINS then memmem his my
    else if op =? c_RQF_OP_START_OF then (hisN <=? myN) && mem_eq clen his my
    else if op =? c_RQF_OP_END_OF then (hisN <=? myN) && mem_eq clen (dropN (hisN - clen) his) (dropN (myN - clen) my)
    else if op =? c_RQF_OP_SUBSET_OF then memmem my his
    else false.

  (* RawDataQueryFilter::Matches *)
  Definition raw_matches (m : msg) (name : bytes) (idx op tc : N) (val def : option bytes) : bool :=
    let his := match find_data m name tc idx with
               | Some d => Some d
               | None => match def with Some d => Some (DBytes d) | None => None end
               end in
    match his with
    | None => false
    | Some DOpaque => false        (* pointer bits of a MessageRef / pointer field: not represented, never generated *)
    | Some (DBytes hb) =>
        match val with
        | None => false                                       (* myBytes == NULL *)
        | Some my => if len my =? 0 then false else raw_op op my hb
        end
    end.

  (* ---------------------------------------------------------------- the evaluator *)

  Definition thr_threshold (n numKids : N) : N := N.min n (numKids - 1).

  Fixpoint eval (node : nodeinfo) (f : qfilter) (m : msg) {struct f} : bool :=
    match f with
    | FWhat mn mx => (mn <=? msg_what m) && (msg_what m <=? mx)            (* muscleInRange(what, min, max) *)
    | FExists name idx tc => exists_data m name tc idx
    | FNum k name idx op mop val msk def =>
        match k with
        | KNum t => num_matches t m name idx op mop val msk def
        | KChildCount => num_matches NInt32 (childcount_msg node) name idx op mop val msk def
        end
    | FStr nodename name idx op val def =>
        if nodename then match node with Some (_, nm) => str_op op val nm | None => false end
        else str_matches m name idx op val def
    | FRaw name idx op tc val def => raw_matches m name idx op tc val def
    | FMsg name idx kid defmsg =>
        match or_else (find_msg m name idx) defmsg with
        | None => false
        | Some sub => match kid with ONone => true | OSome k => eval node k sub end
        end
    | FMin n kids =>
        let numKids := flist_len kids in
        if numKids =? 0 then true else thr_loop node kids m (thr_threshold n numKids) 0 numKids
    | FMax n kids =>
        let numKids := flist_len kids in
        negb (if numKids =? 0 then true else thr_loop node kids m (thr_threshold n numKids) 0 numKids)
    | FXor kids => negb (xor_count node kids m mod 2 =? 0)
    end
  (* the loop of ThresholdMaxAux at index i: [remaining] = numKids - i *)
  with thr_loop (node : nodeinfo) (kids : flist) (m : msg) (threshold matchCount remaining : N) {struct kids} : bool :=
    match kids with
    | LNil => false
    | LCons k tl =>
        if remaining <? (1 + threshold - matchCount) then false       (* give up: even all-true would not get there *)
        else if eval node k m
             then (if threshold <? matchCount + 1 then true
                   else thr_loop node tl m threshold (matchCount + 1) (remaining - 1))
             else thr_loop node tl m threshold matchCount (remaining - 1)
    end
  with xor_count (node : nodeinfo) (kids : flist) (m : msg) {struct kids} : N :=
    match kids with
    | LNil => 0
    | LCons k tl => (if eval node k m then 1 else 0) + xor_count node tl m
    end.
End Eval.
