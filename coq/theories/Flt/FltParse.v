(* Flt/FltParse.v -- executable model of CreateQueryFilterFromExpression (regex/QueryFilter.cpp, LexerToken.h,
   ISubexpressionFactory.h), code-shaped (C14).  It follows the code as REPAIRED for findings F39 (the parsed field
   name, without its ":index" / "|default" suffixes, names the field) and F40 (a keyword token ends a user word
   only if it does not start with a letter).

   Mirrors:
     GetMatchingToken (token table scanned from its last entry to its first, then the synonyms; Strncasecmp)   match_token
     Lexer::GetNextToken (fixed tokens, quoted strings, whitespace, user words)                                  lex_next / scan_word
     CreateQueryFilterFromExpressionAux (negation, parentheses by recursion, conjunctions, the 2- and 3-token
       predicates, explicit casts)                                                                              p_loop / p_finish
     LexerToken::GetValueStringType / GetExplicitCastTypeCode / ParseFieldNameAux /
       GetStringQueryFilterOp / GetNumericQueryFilterOp                                                         value_type / cast_type / parse_field_name / ..
     GetValueAs<T> (ParseBool, Atoll/Atoull of system/SetupSystem.cpp, atol, Point/Rect via StringTokenizer)      value_as
     DefaultSubexpressionFactory::CreateSubexpression, GetNumericQueryFilter, GetStringQueryFilter, MaybeNegate  mk_subexpr / maybe_negate
   The token table and the synonym list are the translator's c_qf_tok_strs / c_qf_synonyms.
   libc's atof and the double->float conversion are Section variables (external functions).
   Characters are numbers (unsigned char values); the expression is assumed NUL-free.
   No proofs in this file. *)
From Coq Require Import List NArith ZArith Bool Strings.Byte.
From Muscle Require Import Gen.Consts Msg.MsgDefs Msg.MsgModel Flt.FltModel.
Import ListNotations.
Local Open Scope N_scope.

(* ------------------------------------------------------------------ characters *)

Definition is_digit (c : N) : bool := (48 <=? c) && (c <=? 57).
Definition is_alpha (c : N) : bool := ((65 <=? c) && (c <=? 90)) || ((97 <=? c) && (c <=? 122)).    (* isalpha, "C" locale *)
Definition is_cspace (c : N) : bool := (c =? 32) || ((9 <=? c) && (c <=? 13)).                      (* isspace, "C" locale *)

Fixpoint list_eqb (a b : list N) : bool :=
  match a, b with
  | [], [] => true
  | x :: a', y :: b' => (x =? y) && list_eqb a' b'
  | _, _ => false
  end.

(* Strncasecmp(s, ts, strlen(ts)) == 0 *)
Fixpoint ci_prefix (ts s : list N) : bool :=
  match ts, s with
  | [], _ => true
  | c :: ts', d :: s' => (lower c =? lower d) && ci_prefix ts' s'
  | _ :: _, [] => false
  end.
Definition ci_eq (a b : list N) : bool := (len a =? len b) && ci_prefix a b.      (* EqualsIgnoreCase *)

(* ------------------------------------------------------------------ tokens *)

Record ltok := mkTok { tk : N; tval : list N; tq : bool }.      (* LexerToken: _tok, _valStr, _wasQuoted *)

Definition user_tok (v : list N) (q : bool) : ltok := mkTok c_LTOKEN_USERSTRING v q.
Definition fixed_tok (t : N) : ltok := mkTok t [] false.
Definition no_tok : ltok := mkTok c_NUM_LTOKENS [] false.          (* LexerToken() *)

(* (index, text) of the fixed tokens, in the order GetMatchingToken tries them: last table entry first *)
Fixpoint number_from (i : N) (l : list (list N)) : list (N * list N) :=
  match l with [] => [] | x :: t => (i, x) :: number_from (N.succ i) t end.
Definition tok_table_desc : list (N * list N) := rev (number_from 0 c_qf_tok_strs).

(* the token identifiers that occur in the RETURN_ON_SYNONYM_FOR_TOKEN lines *)
Definition ltoken_of_name (nm : list N) : option N :=
  if list_eqb nm [76; 84; 79; 75; 69; 78; 95; 65; 78; 68] then Some c_LTOKEN_AND            (* LTOKEN_AND *)
  else if list_eqb nm [76; 84; 79; 75; 69; 78; 95; 79; 82] then Some c_LTOKEN_OR           (* LTOKEN_OR *)
  else if list_eqb nm [76; 84; 79; 75; 69; 78; 95; 88; 79; 82] then Some c_LTOKEN_XOR      (* LTOKEN_XOR *)
  else if list_eqb nm [76; 84; 79; 75; 69; 78; 95; 78; 79; 84] then Some c_LTOKEN_NOT      (* LTOKEN_NOT *)
  else if list_eqb nm [76; 84; 79; 75; 69; 78; 95; 69; 81] then Some c_LTOKEN_EQ           (* LTOKEN_EQ *)
  else None.
Fixpoint synonym_pairs (l : list (list N)) : list (N * list N) :=
  match l with
  | s :: nm :: t => match ltoken_of_name nm with Some k => (k, s) :: synonym_pairs t | None => synonym_pairs t end
  | _ => []
  end.
Definition synonym_table : list (N * list N) := synonym_pairs c_qf_synonyms.

Fixpoint first_match (tbl : list (N * list N)) (s : list N) : option (N * N) :=
  match tbl with
  | [] => None
  | (i, ts) :: t => if (0 <? len ts) && ci_prefix ts s then Some (i, len ts) else first_match t s
  end.

(* GetMatchingToken(s, retNumCharsConsumed) *)
Definition match_token (s : list N) : option (N * N) :=
  match first_match tok_table_desc s with
  | Some r => Some r
  | None => first_match synonym_table s
  end.

(* ------------------------------------------------------------------ the lexer *)

(* the user-word scan of GetNextToken's default case: up to NUL, white space, or a token that does not start
   with a letter *)
Fixpoint scan_word (t : list N) : list N * list N :=
  match t with
  | [] => ([], [])
  | c :: t' =>
      if is_cspace c || (negb (is_alpha c) && match match_token t with Some _ => true | None => false end)
      then ([], t)
      else let (w, r) := scan_word t' in (c :: w, r)
  end.

(* strchr(s, double-quote) *)
Fixpoint split_at_quote (s : list N) : option (list N * list N) :=
  match s with
  | [] => None
  | c :: t => if c =? 34 then Some ([], t)
              else match split_at_quote t with Some (a, r) => Some (c :: a, r) | None => None end
  end.

Inductive lexres :=
| LEnd                               (* B_DATA_NOT_FOUND, or B_BAD_DATA for an unterminated quote: no more tokens *)
| LTok (t : ltok) (rest : list N)
| LStuck (t : ltok).                 (* an empty user word: returned again and again, the position never advances *)

Fixpoint lex_next (e : list N) : lexres :=
  match e with
  | [] => LEnd
  | c :: e' =>
      match match_token e with
      | Some (t, n) => LTok (fixed_tok t) (dropN n e)
      | None =>
          if c =? 34 then
            match split_at_quote e' with
            | Some (txt, rest) => LTok (user_tok txt true) rest
            | None => LEnd
            end
          else if (c =? 32) || (c =? 9) || (c =? 13) || (c =? 10) then lex_next e'
          else match scan_word e with
               | ([], _) => LStuck (user_tok [] false)
               | (w, rest) => LTok (user_tok w false) rest
               end
      end
  end.

(* all the tokens the lexer will deliver: a finite list, possibly followed by one token repeated for ever *)
Definition stream := (list ltok * option ltok)%type.

Fixpoint lex_all (fuel : nat) (e : list N) : stream :=
  match fuel with
  | O => ([], None)
  | S f =>
      match lex_next e with
      | LEnd => ([], None)
      | LTok t rest => let (l, r) := lex_all f rest in (t :: l, r)
      | LStuck t => ([], Some t)
      end
  end.

Definition snext (s : stream) : option (ltok * stream) :=
  match fst s with
  | t :: l => Some (t, (l, snd s))
  | [] => match snd s with Some t => Some (t, s) | None => None end
  end.

(* ------------------------------------------------------------------ numbers in text *)

Fixpoint digits_val (s : list N) (acc : N) : N :=          (* the value of the leading run of decimal digits *)
  match s with
  | c :: t => if is_digit c then digits_val t (acc * 10 + (c - 48)) else acc
  | [] => acc
  end.

Fixpoint skip_cspaces (s : list N) : list N :=
  match s with c :: t => if is_cspace c then skip_cspaces t else s | [] => [] end.

Definition long_max : Z := 9223372036854775807%Z.
Definition long_min : Z := (-9223372036854775808)%Z.
(* atol = strtol(s, NULL, 10): white space, an optional sign, digits; the result saturates *)
Definition atol (s : list N) : Z :=
  let s := skip_cspaces s in
  match s with
  | 45 :: t => Z.max long_min (- Z.of_N (digits_val t 0))
  | 43 :: t => Z.min long_max (Z.of_N (digits_val t 0))
  | _ => Z.min long_max (Z.of_N (digits_val s 0))
  end.

Definition two64 : N := 18446744073709551616.
Definition pat (w : N) (z : Z) : N := Z.to_N (z mod Z.of_N (2 ^ w)).       (* the w-bit two's complement pattern of z *)

(* Atoull: 0 unless the first character is a digit; the digit run, modulo 2^64 *)
Definition atoull (s : list N) : N :=
  match s with c :: _ => if is_digit c then digits_val s 0 mod two64 else 0 | [] => 0 end.
(* Atoll: every leading '-' flips the sign *)
Fixpoint atoll_aux (s : list N) (negative : bool) : N :=
  match s with
  | 45 :: t => atoll_aux t (negb negative)
  | _ => let v := atoull s in if negative then (two64 - v) mod two64 else v
  end.
Definition atoll (s : list N) : N := atoll_aux s false.

Fixpoint count_char (c : N) (s : list N) : N :=
  match s with [] => 0 | d :: t => (if c =? d then 1 else 0) + count_char c t end.
Definition last_char (s : list N) : option N := match rev s with c :: _ => Some c | [] => None end.
Definition mem_char (c : N) (s : list N) : bool := existsb (N.eqb c) s.

(* LastIndexOf(c): the text before and after the last occurrence *)
Fixpoint split_last (c : N) (s : list N) : option (list N * list N) :=
  match s with
  | [] => None
  | d :: t =>
      match split_last c t with
      | Some (a, b) => Some (d :: a, b)
      | None => if c =? d then Some ([], t) else None
      end
  end.

(* StringTokenizer(v, ","): a single comma in the separator list is a SOFT separator: the non-empty pieces *)
Fixpoint comma_pieces (s cur : list N) : list (list N) :=
  match s with
  | [] => match cur with [] => [] | _ => [rev cur] end
  | c :: t => if c =? 44 then (match cur with [] => comma_pieces t [] | _ => rev cur :: comma_pieces t [] end)
              else comma_pieces t (c :: cur)
  end.

(* String::Trimmed / ToLowerCase for ParseBool *)
Fixpoint trim_left (s : list N) : list N :=
  match s with c :: t => if is_cspace c then trim_left t else s | [] => [] end.
Definition trimmed (s : list N) : list N := rev (trim_left (rev (trim_left s))).

Definition codes (s : list N) : list N := s.
Definition on_words : list (list N) :=
  [[111; 110]; [101; 110; 97; 98; 108; 101]; [101; 110; 97; 98; 108; 101; 100]; [116; 114; 117; 101]; [116]; [121]; [121; 101; 115]; [49]].
Definition off_words : list (list N) :=
  [[111; 102; 102]; [100; 105; 115; 97; 98; 108; 101]; [100; 105; 115; 97; 98; 108; 101; 100]; [102; 97; 108; 115; 101]; [102]; [110]; [110; 111]; [48]].
(* ParseBool(word, defaultValue = true) *)
Definition parse_bool (s : list N) : bool :=
  let w := map lower (trimmed s) in
  if existsb (list_eqb w) on_words then true
  else if existsb (list_eqb w) off_words then false
  else true.

Definition bytes_of (s : list N) : bytes := map byte_of_N s.

Section Parse.
  Variable atof : list N -> N.      (* libc atof on the C string: the binary64 bit pattern of the result *)
  Variable d2f : N -> N.            (* (float) x: binary64 bit pattern -> binary32 bit pattern *)

  Definition nth_piece (l : list (list N)) (n : nat) : N :=       (* `str ? (float) atof(str) : 0.0f` *)
    match nth_error l n with Some p => d2f (atof p) | None => 0 end.

  (* GetValueAs<T>(v): the value's bytes in memory *)
  Definition value_as (t : ntype) (v : list N) : bytes :=
    match t with
    | NBool => [if parse_bool v then x01 else x00]
    | NDouble => le_enc 8 (atof v)
    | NFloat => le_enc 4 (d2f (atof v))
    | NInt64 => le_enc 8 (atoll v)
    | NInt32 => le_enc 4 (pat 32 (atol v))
    | NInt16 => le_enc 2 (pat 16 (atol v))
    | NInt8 => le_enc 1 (pat 8 (atol v))
    | NPoint => let p := comma_pieces v [] in le_enc 4 (nth_piece p 0) ++ le_enc 4 (nth_piece p 1)
    | NRect => let p := comma_pieces v [] in
               le_enc 4 (nth_piece p 0) ++ le_enc 4 (nth_piece p 1) ++ le_enc 4 (nth_piece p 2) ++ le_enc 4 (nth_piece p 3)
    end.

  (* ---------------------------------------------------------------- LexerToken helpers *)

  Definition str_true : list N := [116; 114; 117; 101].
  Definition str_false : list N := [102; 97; 108; 115; 101].

  (* GetValueStringType(explicitCastType): a B_*_TYPE code, B_ANY_TYPE = unknown *)
  Definition value_type (t : ltok) (explicitCast : N) : N :=
    if negb (tk t =? c_LTOKEN_USERSTRING) then c_B_ANY_TYPE
    else if tq t then (if explicitCast =? c_B_ANY_TYPE then c_B_STRING_TYPE else c_B_ANY_TYPE)
    else if negb (explicitCast =? c_B_ANY_TYPE) then explicitCast
    else if ci_eq (tval t) str_true || ci_eq (tval t) str_false then c_B_BOOL_TYPE
    else
      let c := match tval t with c :: _ => c | [] => 0 end in
      if is_digit c || (c =? 45) || (c =? 46) || (c =? 43) then
        let commas := count_char 44 (tval t) in
        if commas =? 0 then
          (if match last_char (tval t) with Some 102 => true | _ => false end then c_B_FLOAT_TYPE
           else if mem_char 46 (tval t) then c_B_DOUBLE_TYPE
           else c_B_INT32_TYPE)
        else if commas =? 1 then c_B_POINT_TYPE
        else if commas =? 3 then c_B_RECT_TYPE
        else c_B_ANY_TYPE
      else match tval t with [] => c_B_ANY_TYPE | _ => c_B_STRING_TYPE end.

  (* GetExplicitCastTypeCode *)
  Definition cast_type (t : ltok) : N :=
    let k := tk t in
    if k =? c_LTOKEN_INT64 then c_B_INT64_TYPE else if k =? c_LTOKEN_INT32 then c_B_INT32_TYPE
    else if k =? c_LTOKEN_INT16 then c_B_INT16_TYPE else if k =? c_LTOKEN_INT8 then c_B_INT8_TYPE
    else if k =? c_LTOKEN_BOOL then c_B_BOOL_TYPE else if k =? c_LTOKEN_FLOAT then c_B_FLOAT_TYPE
    else if k =? c_LTOKEN_DOUBLE then c_B_DOUBLE_TYPE else if k =? c_LTOKEN_STRING then c_B_STRING_TYPE
    else if k =? c_LTOKEN_POINT then c_B_POINT_TYPE else if k =? c_LTOKEN_RECT then c_B_RECT_TYPE
    else c_B_ANY_TYPE.

  (* ParseFieldNameAux(valStr, .., optRetDefaultValue = NULL): "name" or "name:index" *)
  Definition parse_name_index (quoted : bool) (v : list N) : res (list N * N) :=
    if negb quoted && (len v =? 0) then Err
    else match (if quoted then None else split_last 58 v) with
         | Some (a, b) =>
             if len a =? 0 then Ok (v, 0)                          (* colIdx > 0 is required *)
             else let idx := atol b in
                  if (idx <? 0)%Z then Err else Ok (a, pat 32 idx)
         | None => Ok (v, 0)
         end.

  (* ParseFieldName(retFieldName, retValueIndex, optRetDefaultValue): also "name|default", "name:index|default" *)
  Definition parse_field_name (t : ltok) (want_default : bool) : res (list N * N * option (list N)) :=
    if negb (tk t =? c_LTOKEN_USERSTRING) || (negb (tq t) && (len (tval t) =? 0)) then Err
    else match (if negb (tq t) && want_default then split_last 124 (tval t) else None) with
         | Some (a, d) => bind (parse_name_index (tq t) a) (fun p => Ok (fst p, snd p, Some d))
         | None => bind (parse_name_index (tq t) (tval t)) (fun p => Ok (fst p, snd p, None))
         end.

  (* GetStringQueryFilterOp(isCaseSensitive = true); NUM_STRING_OPERATORS = failure *)
  Definition string_op (t : ltok) : N :=
    let k := tk t in
    if k =? c_LTOKEN_EQ then c_SQF_OP_EQUAL_TO else if k =? c_LTOKEN_LT then c_SQF_OP_LESS_THAN
    else if k =? c_LTOKEN_GT then c_SQF_OP_GREATER_THAN else if k =? c_LTOKEN_LEQ then c_SQF_OP_LESS_THAN_OR_EQUAL_TO
    else if k =? c_LTOKEN_GEQ then c_SQF_OP_GREATER_THAN_OR_EQUAL_TO else if k =? c_LTOKEN_NEQ then c_SQF_OP_NOT_EQUAL_TO
    else if k =? c_LTOKEN_STARTSWITH then c_SQF_OP_STARTS_WITH else if k =? c_LTOKEN_ENDSWITH then c_SQF_OP_ENDS_WITH
    else if k =? c_LTOKEN_CONTAINS then c_SQF_OP_CONTAINS else if k =? c_LTOKEN_ISSTARTOF then c_SQF_OP_START_OF
    else if k =? c_LTOKEN_ISENDOF then c_SQF_OP_END_OF else if k =? c_LTOKEN_ISSUBSTRINGOF then c_SQF_OP_SUBSTRING_OF
    else if k =? c_LTOKEN_MATCHES then c_SQF_OP_SIMPLE_WILDCARD_MATCH
    else if k =? c_LTOKEN_MATCHESREGEX then c_SQF_OP_REGULAR_EXPRESSION_MATCH
    else c_SQF_NUM_STRING_OPERATORS.

  (* GetNumericQueryFilterOp; NUM_NUMERIC_OPERATORS = failure *)
  Definition numeric_op (t : ltok) : N :=
    let k := tk t in
    if k =? c_LTOKEN_EQ then c_NQF_OP_EQUAL_TO else if k =? c_LTOKEN_LT then c_NQF_OP_LESS_THAN
    else if k =? c_LTOKEN_GT then c_NQF_OP_GREATER_THAN else if k =? c_LTOKEN_LEQ then c_NQF_OP_LESS_THAN_OR_EQUAL_TO
    else if k =? c_LTOKEN_GEQ then c_NQF_OP_GREATER_THAN_OR_EQUAL_TO else if k =? c_LTOKEN_NEQ then c_NQF_OP_NOT_EQUAL_TO
    else c_NQF_NUM_NUMERIC_OPERATORS.

  Definition ntype_of_tc (tc : N) : option ntype :=
    if tc =? c_B_BOOL_TYPE then Some NBool else if tc =? c_B_DOUBLE_TYPE then Some NDouble
    else if tc =? c_B_FLOAT_TYPE then Some NFloat else if tc =? c_B_INT64_TYPE then Some NInt64
    else if tc =? c_B_INT32_TYPE then Some NInt32 else if tc =? c_B_INT16_TYPE then Some NInt16
    else if tc =? c_B_INT8_TYPE then Some NInt8 else if tc =? c_B_POINT_TYPE then Some NPoint
    else if tc =? c_B_RECT_TYPE then Some NRect else None.

  (* static MaybeNegate(doNegate, qf) = NorQueryFilter(qf) *)
  Definition maybe_negate (neg : bool) (f : qfilter) : qfilter := if neg then FNor (LCons f LNil) else f.

  (* DefaultSubexpressionFactory::CreateSubexpression(fieldNameTok, valueIndexInField, opTok, valTok, valueType,
     optDefaultValue, true); [name_tok] is the token handed over: the parsed field name for a user string *)
  Definition mk_subexpr (name_tok : ltok) (idx : N) (op_tok val_tok : ltok) (vtype : N) (def : option (list N)) : res qfilter :=
    if tk op_tok =? c_LTOKEN_EXISTS then Ok (FExists (bytes_of (tval name_tok)) idx vtype)
    else if tk name_tok =? c_LTOKEN_WHAT then
      if negb (vtype =? c_B_INT32_TYPE) then Err
      else
        let v := atoull (tval val_tok) mod two32 in
        let k := tk op_tok in
        if k =? c_LTOKEN_NEQ then Ok (FNor (LCons (FWhat v v) LNil))
        else if k =? c_LTOKEN_EQ then Ok (FWhat v v)
        else if k =? c_LTOKEN_LT then Ok (if v =? 0 then FWhat 1 0 else FWhat 0 (v - 1))
        else if k =? c_LTOKEN_GT then Ok (if v =? c_MUSCLE_NO_LIMIT then FWhat 1 0 else FWhat (v + 1) c_MUSCLE_NO_LIMIT)
        else if k =? c_LTOKEN_LEQ then Ok (FWhat 0 v)
        else if k =? c_LTOKEN_GEQ then Ok (FWhat v c_MUSCLE_NO_LIMIT)
        else Ok (FWhat 0 c_MUSCLE_NO_LIMIT)
    else if tk name_tok =? c_LTOKEN_USERSTRING then
      let name := bytes_of (tval name_tok) in
      if vtype =? c_B_STRING_TYPE then
        let op := string_op op_tok in
        if op =? c_SQF_NUM_STRING_OPERATORS then Err
        else Ok (FStr false name idx op (bytes_of (tval val_tok)) (match def with Some d => Some (bytes_of d) | None => None end))
      else match ntype_of_tc vtype with
           | Some t =>
               let op := numeric_op op_tok in
               if op =? c_NQF_NUM_NUMERIC_OPERATORS then Err
               else Ok (FNum (KNum t) name idx op c_NQF_MASK_OP_NONE (value_as t (tval val_tok)) (nt_default t)
                          (match def with Some d => Some (value_as t d) | None => None end))
           | None => Err
           end
    else Err.

  (* ---------------------------------------------------------------- CreateQueryFilterFromExpressionAux *)

  Record pst := mkP {
    p_toks : list ltok;                         (* localToks *)
    p_conj : option (N * list qfilter);          (* conjunctionTok's token and conjunctionRef's children so far *)
    p_sub : option qfilter;                      (* subRef *)
    p_neg : bool }.                             (* isNegated *)
  Definition pst0 : pst := mkP [] None None false.

  Definition conj_filter (k : N) (kids : list qfilter) : qfilter :=
    if k =? c_LTOKEN_AND then FAnd (flist_of kids)
    else if k =? c_LTOKEN_OR then FOr (flist_of kids)
    else FXor (flist_of kids).

  Fixpoint remove_nth {A} (n : nat) (l : list A) : list A :=
    match l, n with
    | [], _ => []
    | _ :: t, O => t
    | x :: t, S k => x :: remove_nth k t
    end.

  (* the code after the token loop *)
  Definition p_finish (st : pst) : res qfilter :=
    match p_conj st with
    | Some (k, kids) =>
        match p_sub st with
        | Some f => Ok (conj_filter k (kids ++ [maybe_negate (p_neg st) f]))
        | None => Err                                       (* "No subexpression after conjunction-operator" *)
        end
    | None =>
        match p_sub st with
        | Some f => Ok (maybe_negate (p_neg st) f)
        | None =>
            let toks := p_toks st in
            if (length toks <? 2)%nat then Err
            else
              let cast_idx := match toks with t0 :: _ => if tk t0 =? c_LTOKEN_EXISTS then 1%nat else 2%nat | [] => 2%nat end in
              let explicit := match nth_error toks cast_idx with Some t => cast_type t | None => c_B_ANY_TYPE end in
              let toks := if explicit =? c_B_ANY_TYPE then toks else remove_nth cast_idx toks in
              match toks with
              | [first; name_tok] =>
                  if negb (tk first =? c_LTOKEN_EXISTS) then Err
                  else bind (parse_field_name name_tok false) (fun p =>
                         bind (mk_subexpr (user_tok (fst (fst p)) (tq name_tok)) (snd (fst p)) first no_tok explicit None) (fun f =>
                           Ok (maybe_negate (p_neg st) f)))
              | [name_tok; op_tok; val_tok] =>
                  bind (if tk name_tok =? c_LTOKEN_WHAT then Ok (@nil N, 0, @None (list N)) else parse_field_name name_tok true) (fun p =>
                    let vtype := value_type val_tok explicit in
                    if vtype =? c_B_ANY_TYPE then Err
                    else
                      let handed := if tk name_tok =? c_LTOKEN_USERSTRING then user_tok (fst (fst p)) (tq name_tok) else name_tok in
                      bind (mk_subexpr handed (snd (fst p)) op_tok val_tok vtype (snd p)) (fun f =>
                        Ok (maybe_negate (p_neg st) f)))
              | _ => Err
              end
        end
    end.

  Fixpoint p_loop (fuel : nat) (s : stream) (st : pst) : res (qfilter * stream) :=
    match fuel with
    | O => Fuel
    | S f =>
        match snext s with
        | None => bind (p_finish st) (fun r => Ok (r, s))
        | Some (t, s') =>
            let k := tk t in
            let busy := match p_sub st with Some _ => true | None => negb (length (p_toks st) =? 0)%nat end in
            if k =? c_LTOKEN_NOT then
              if busy then Err else p_loop f s' (mkP (p_toks st) (p_conj st) (p_sub st) (negb (p_neg st)))
            else if k =? c_LTOKEN_LPAREN then
              if busy then Err
              else bind (p_loop f s' pst0) (fun r =>
                     p_loop f (snd r) (mkP (p_toks st) (p_conj st) (Some (fst r)) (p_neg st)))
            else if k =? c_LTOKEN_RPAREN then
              if match p_sub st, p_conj st, p_toks st with None, None, [] => true | _, _, _ => false end then Err   (* "()" *)
              else bind (p_finish st) (fun r => Ok (r, s'))
            else if (k =? c_LTOKEN_AND) || (k =? c_LTOKEN_OR) || (k =? c_LTOKEN_XOR) then
              match p_sub st with
              | None => Err
              | Some sub =>
                  match p_conj st with
                  | Some (k0, kids) =>
                      if negb (k0 =? k) then Err
                      else p_loop f s' (mkP (p_toks st) (Some (k0, kids ++ [maybe_negate (p_neg st) sub])) None false)
                  | None => p_loop f s' (mkP (p_toks st) (Some (k, [maybe_negate (p_neg st) sub])) None false)
                  end
              end
            else
              match p_conj st, p_sub st with
              | Some _, _ => Err
              | None, Some _ => Err
              | None, None =>
                  let toks := p_toks st ++ [t] in
                  if (4 <? length toks)%nat then Err
                  else p_loop f s' (mkP toks None None (p_neg st))
              end
        end
    end.

  (* CreateQueryFilterFromExpression(expression): None = a NULL reference *)
  Definition parse_expr (e : bytes) : option qfilter :=
    let chars := ub e in
    let s := lex_all (S (length chars)) chars in
    match p_loop (length (fst s) + 8) s pst0 with
    | Ok (f, _) => Some f
    | _ => None
    end.
End Parse.
