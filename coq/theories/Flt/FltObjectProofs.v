(* Flt/FltObjectProofs.v -- SetFromArchive overwrites the whole state of a reused filter object (C14):
   whatever the object was before -- any members of its class, any cached compiled matcher, evaluated any number of
   times -- after SetFromArchive(archive of g) every later Matches() is g's decision.  The cached matcher is
   consistent with the members after every public mutator (constructor, SetOperator, SetValue, SetFromArchive, and
   Matches itself), so a used object always decides like a fresh one. *)
From Coq Require Import List NArith ZArith Bool Strings.Byte Lia.
From Muscle Require Import Gen.Consts Msg.MsgDefs Msg.MsgModel Msg.MsgApi Msg.MsgBytesProofs
  Flt.FltModel Flt.FltArchive Flt.FltLemmas Flt.FltArchiveProofs Flt.FltObject.
Import ListNotations.
Local Open Scope N_scope.

Lemma what_to_archive f : msg_what (to_archive f) = what_of f.
Proof. destruct f; cbn [to_archive what_of]; apply what_apply_ops. Qed.

Section Obj.
  Variable smatch : N -> bytes -> bytes -> bool.
  Variable node : nodeinfo.

  Lemma str_op_pattern op v s : is_pattern_op op = true -> str_op smatch op v s = smatch op v s.
  Proof.
    unfold is_pattern_op. intros H.
    repeat (apply orb_true_iff in H; destruct H as [H|H]); apply N.eqb_eq in H; subst op; reflexivity.
  Qed.

  (* a consistent cache is invisible *)
  Lemma obj_match_string_ok op val cache s :
    (cache = None \/ cache = Some (op, val)) ->
    fst (obj_match_string smatch op val cache s) = str_op smatch op val s /\
    (snd (obj_match_string smatch op val cache s) = None \/ snd (obj_match_string smatch op val cache s) = Some (op, val)).
  Proof.
    intros Hc. unfold obj_match_string. destruct (is_pattern_op op) eqn:Ep.
    - destruct Hc as [->| ->]; cbn [fst snd]; (split; [symmetry; apply str_op_pattern; exact Ep|right; reflexivity]).
    - cbn [fst snd]. split; [reflexivity|exact Hc].
  Qed.

  Lemma cache_ok_cases o : cache_ok o ->
    match so_filter o with
    | FStr _ _ _ op val _ => so_cache o = None \/ so_cache o = Some (op, val)
    | _ => True
    end.
  Proof.
    unfold cache_ok. destruct (so_filter o); try exact (fun _ => I).
    destruct (so_cache o) as [c|]; [intros ->; right; reflexivity|left; reflexivity].
  Qed.

  Theorem obj_eval_ok o m :
    cache_ok o ->
    fst (obj_eval smatch node o m) = eval smatch node (so_filter o) m /\
    so_filter (snd (obj_eval smatch node o m)) = so_filter o /\
    cache_ok (snd (obj_eval smatch node o m)).
  Proof.
    intros Hc. pose proof (cache_ok_cases o Hc) as Hcase. unfold obj_eval.
    destruct (so_filter o) as [| | |nn name idx op val def| | | | |] eqn:Ef; try (repeat split; [exact Ef|exact Hc]).
    cbn [eval]. unfold str_matches.
    destruct (if nn then match node with Some (_, nm) => Some nm | None => None end else or_else (find_string m name idx) def)
      as [s|] eqn:Es.
    - destruct (obj_match_string_ok op val (so_cache o) s Hcase) as [H1 H2].
      cbn [fst snd so_filter]. split; [|split; [reflexivity|]].
      + rewrite H1. destruct nn; [destruct node as [[n nm]|]; [injection Es as <-; reflexivity|discriminate]|rewrite Es; reflexivity].
      + unfold cache_ok. cbn [so_cache so_filter]. destruct H2 as [-> | ->]; [exact I|reflexivity].
    - cbn [fst snd]. split; [|split; [exact Ef|exact Hc]].
      destruct nn; [destruct node as [[n nm]|]; [discriminate|reflexivity]|rewrite Es; reflexivity].
  Qed.

  (* any number of evaluations on the same object *)
  Theorem obj_eval_all_ok : forall ms o,
    cache_ok o -> fst (obj_eval_all smatch node o ms) = map (eval smatch node (so_filter o)) ms.
  Proof.
    induction ms as [|m t IH]; intros o Hc; cbn [obj_eval_all map fst snd]; [reflexivity|].
    destruct (obj_eval_ok o m Hc) as [H1 [H2 H3]]. rewrite H1, (IH _ H3), H2. reflexivity.
  Qed.
End Obj.

Lemma fresh_cache_ok f : cache_ok (fresh f).
Proof. exact I. Qed.

Lemma set_operator_cache_ok o op : cache_ok o -> cache_ok (obj_set_operator o op).
Proof.
  intros H. unfold obj_set_operator. destruct (so_filter o) eqn:E; try exact H.
  destruct (op =? op0); [exact H|exact I].
Qed.

Lemma set_value_cache_ok o v : cache_ok o -> cache_ok (obj_set_value o v).
Proof.
  intros H. unfold obj_set_value. destruct (so_filter o) eqn:E; try exact H.
  destruct (bytes_eqb v val); [exact H|exact I].
Qed.

(* set_from_archive_overwrites: NO hypothesis on the prior state of the object beyond its class *)
Theorem set_from_archive_overwrites o g :
  wf_filter g -> what_of (so_filter o) = what_of g ->
  obj_set_from_archive o (to_archive g) = Ok (fresh g).
Proof.
  intros Hw Hc. unfold obj_set_from_archive. rewrite what_to_archive, Hc, N.eqb_refl.
  rewrite (archive_roundtrip g Hw). reflexivity.
Qed.

(* ... hence: after SetFromArchive(archive of g) on ANY prior state, every later Matches() is g's decision *)
Theorem reused_object_decides_as_archived o g :
  wf_filter g -> what_of (so_filter o) = what_of g ->
  exists o', obj_set_from_archive o (to_archive g) = Ok o' /\
             forall smatch node ms, fst (obj_eval_all smatch node o' ms) = map (eval smatch node g) ms.
Proof.
  intros Hw Hc. exists (fresh g). split; [apply set_from_archive_overwrites; assumption|].
  intros smatch node ms. apply (obj_eval_all_ok smatch node ms (fresh g) I).
Qed.

(* whatever SetFromArchive yields, on any archive, the object is consistent afterwards (or the call failed) *)
Theorem set_from_archive_consistent o a o' : obj_set_from_archive o a = Ok o' -> cache_ok o'.
Proof.
  unfold obj_set_from_archive. destruct (msg_what a =? what_of (so_filter o)); [|discriminate].
  destruct (from_archive a); cbn [bind]; try discriminate. intros H. injection H as <-. exact I.
Qed.

Theorem set_from_archive_total o a : exists r, obj_set_from_archive o a = r /\ (r = Err \/ exists o', r = Ok o').
Proof.
  unfold obj_set_from_archive. destruct (msg_what a =? what_of (so_filter o)).
  - destruct (from_archive_total a) as [r [Hr [->|[f ->]]]]; rewrite Hr; cbn [bind]; eexists; split; try reflexivity; eauto.
  - eexists. split; [reflexivity|left; reflexivity].
Qed.

(* the seeded defect, stated: if the cached matcher survived a SetFromArchive that keeps the operator, the object
   would decide by the OLD pattern -- the model's (the code's) FreeMatcher is what rules that out *)
Example stale_matcher_would_differ :
  let smatch := fun (_ : N) (p s : bytes) => bytes_eqb p s in
  let stale := mkSO (FStr false [x6e] 0 c_SQF_OP_SIMPLE_WILDCARD_MATCH [x62] None) (Some (c_SQF_OP_SIMPLE_WILDCARD_MATCH, [x61])) in
  let m := Msg 0 (FCons [x6e] c_B_STRING_TYPE (RInline (IStr [x62])) FNil) in
  ~ cache_ok stale /\
  fst (obj_eval smatch None stale m) = false /\ eval smatch None (so_filter stale) m = true.
Proof. cbv zeta. split; [intros H; discriminate H|split; reflexivity]. Qed.
