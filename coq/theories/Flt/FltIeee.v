(* Flt/FltIeee.v -- the float comparison of the filter model IS the IEEE-754 comparison (C14): on every pair of bit
   patterns, [f_ord] (NaN test on the exponent/mantissa fields + order of the signed magnitudes) agrees with Flocq's
   [Bcompare] on the binary floats those bit patterns denote ([binary_float_of_bits]): unordered exactly when a NaN
   is involved, -0 = +0, infinities at the ends, everything else by value. *)
From Coq Require Import ZArith NArith Bool Lia.
From Flocq Require Import IEEE754.Binary IEEE754.Bits.
From Muscle Require Import Flt.FltModel.
Local Open Scope Z_scope.

(* Bcompare (through B2BSN / B2SF / SpecFloat.SFcompare), on the proof-free representation *)
Definition ffc (x y : full_float) : option comparison :=
  match x, y with
  | F754_nan _ _, _ | _, F754_nan _ _ => None
  | F754_infinity s1, F754_infinity s2 =>
      Some match s1, s2 with true, true => Eq | false, false => Eq | true, false => Lt | false, true => Gt end
  | F754_infinity s, _ => Some (if s then Lt else Gt)
  | _, F754_infinity s => Some (if s then Gt else Lt)
  | F754_finite s _ _, F754_zero _ => Some (if s then Lt else Gt)
  | F754_zero _, F754_finite s _ _ => Some (if s then Gt else Lt)
  | F754_zero _, F754_zero _ => Some Eq
  | F754_finite s1 m1 e1, F754_finite s2 m2 e2 =>
      Some match s1, s2 with
           | true, false => Lt
           | false, true => Gt
           | false, false => match Z.compare e1 e2 with Lt => Lt | Gt => Gt | Eq => Pos.compare m1 m2 end
           | true, true => match Z.compare e1 e2 with Lt => Gt | Gt => Lt | Eq => CompOpp (Pos.compare m1 m2) end
           end
  end.

Lemma Bcompare_FF2B prec emax x y Hx Hy :
  Bcompare prec emax (FF2B prec emax x Hx) (FF2B prec emax y Hy) = ffc x y.
Proof. destruct x, y; reflexivity. Qed.

Section Rank.
  Variables mw ew : Z.
  Hypothesis Hmw : 0 < mw.
  Hypothesis Hew : 0 < ew.
  Let emin := 3 - 2 ^ (ew - 1) - (mw + 1).
  Let P := 2 ^ mw.
  Let INF := (2 ^ ew - 1) * P.

  Definition sgn (s : bool) (z : Z) : Z := if s then - z else z.

  Definition rank (f : full_float) : Z :=
    match f with
    | F754_zero _ => 0
    | F754_infinity s => sgn s INF
    | F754_finite s m e => sgn s ((e - emin) * P + Zpos m)
    | F754_nan _ _ => 0
    end.

  Definition canon (f : full_float) : Prop :=
    match f with
    | F754_finite _ m e => emin <= e /\ e - emin <= 2 ^ ew - 3 /\ Zpos m < 2 * P /\ (emin < e -> P <= Zpos m)
    | _ => True
    end.

  Definition not_nan (f : full_float) : Prop := match f with F754_nan _ _ => False | _ => True end.

  Lemma P_pos : 0 < P.
  Proof. unfold P. apply Z.pow_pos_nonneg; lia. Qed.

  Lemma two_ew : 2 <= 2 ^ ew.
  Proof. change 2 with (2 ^ 1) at 1. apply Z.pow_le_mono_r; lia. Qed.

  Lemma ffc_rank x y : canon x -> canon y -> not_nan x -> not_nan y -> ffc x y = Some (Z.compare (rank x) (rank y)).
  Proof.
    pose proof P_pos as HP. pose proof two_ew as H2.
    assert (HINF : 0 < INF) by (unfold INF; nia).
    destruct x as [sx|sx|sx px|sx mx ex]; destruct y as [sy|sy|sy py|sy my ey];
      cbn [canon not_nan ffc rank]; intros Cx Cy Nx Ny; try tauto; f_equal; symmetry.
    - destruct sy; cbn [sgn]; [apply Z.compare_gt_iff|apply Z.compare_lt_iff]; lia.
    - destruct Cy as [C1 [C2 [C3 C4]]]. destruct sy; cbn [sgn]; [apply Z.compare_gt_iff|apply Z.compare_lt_iff]; nia.
    - destruct sx; cbn [sgn]; [apply Z.compare_lt_iff|apply Z.compare_gt_iff]; lia.
    - destruct sx, sy; cbn [sgn]; try apply Z.compare_refl; [apply Z.compare_lt_iff|apply Z.compare_gt_iff]; lia.
    - destruct Cy as [C1 [C2 [C3 C4]]].
      assert (Hr : (ey - emin) * P + Z.pos my < INF) by (unfold INF; nia).
      destruct sx; [apply Z.compare_lt_iff|apply Z.compare_gt_iff]; destruct sy; cbn [sgn]; nia.
    - destruct Cx as [C1 [C2 [C3 C4]]]. destruct sx; cbn [sgn]; [apply Z.compare_lt_iff|apply Z.compare_gt_iff]; nia.
    - destruct Cx as [C1 [C2 [C3 C4]]].
      assert (Hr : (ex - emin) * P + Z.pos mx < INF) by (unfold INF; nia).
      destruct sy; [apply Z.compare_gt_iff|apply Z.compare_lt_iff]; destruct sx; cbn [sgn]; nia.
    - destruct Cx as [X1 [X2 [X3 X4]]]. destruct Cy as [Y1 [Y2 [Y3 Y4]]].
      assert (Hpos : forall a b, Pos.compare a b = Z.compare (Z.pos a) (Z.pos b)) by reflexivity.
      destruct sx, sy; cbn [sgn].
      + (* both negative *)
        rewrite Z.compare_opp.
        destruct (Z.compare_spec ex ey) as [E|E|E].
        * subst ey. rewrite Hpos. rewrite <- Z.compare_antisym.
          destruct (Z.compare_spec (Z.pos my) (Z.pos mx)) as [F|F|F];
            [apply Z.compare_eq_iff|apply Z.compare_lt_iff|apply Z.compare_gt_iff]; lia.
        * apply Z.compare_gt_iff. assert (P <= Z.pos my) by (apply Y4; lia). nia.
        * apply Z.compare_lt_iff. assert (P <= Z.pos mx) by (apply X4; lia). nia.
      + apply Z.compare_lt_iff. nia.
      + apply Z.compare_gt_iff. nia.
      + destruct (Z.compare_spec ex ey) as [E|E|E].
        * subst ey. rewrite Hpos.
          destruct (Z.compare_spec (Z.pos mx) (Z.pos my)) as [F|F|F];
            [apply Z.compare_eq_iff|apply Z.compare_lt_iff|apply Z.compare_gt_iff]; lia.
        * apply Z.compare_lt_iff. assert (P <= Z.pos my) by (apply Y4; lia). nia.
        * apply Z.compare_gt_iff. assert (P <= Z.pos mx) by (apply X4; lia). nia.
  Qed.
End Rank.

From Coq Require Import List.
From Muscle Require Import Flt.FltNumProofs.

Section Link.
  Variables eb mb : N.
  Let mw := Z.of_N mb.
  Let ew := Z.of_N eb.
  Hypothesis Hmw : 0 < mw.
  Hypothesis Hew : 0 < ew.
  Hypothesis Hmax : mw + 1 < 2 ^ (ew - 1).         (* prec < emax: true of every IEEE interchange format *)

  Let emin := 3 - 2 ^ (ew - 1) - (mw + 1).
  Let P := 2 ^ mw.

  Lemma ew_ge_3 : 3 <= ew.
  Proof.
    destruct (Z_lt_le_dec ew 3) as [H|H]; [|exact H]. exfalso.
    assert (Hc : ew = 1 \/ ew = 2) by lia. destruct Hc as [Hc|Hc]; rewrite Hc in Hmax; cbn in Hmax; lia.
  Qed.

  Lemma of_N_pow2 n : Z.of_N (2 ^ n)%N = 2 ^ Z.of_N n.
  Proof. rewrite N2Z.inj_pow. reflexivity. Qed.

  (* what binary_float_of_bits_aux makes of a bit pattern, against the model's reading of the same pattern *)
  Lemma aux_spec (x : N) :
    (x < 2 ^ (1 + eb + mb))%N ->
    let f := binary_float_of_bits_aux mw ew (Z.of_N x) in
    canon mw ew f /\
    (f_is_nan eb mb x = true -> ~ not_nan f) /\
    (f_is_nan eb mb x = false -> not_nan f /\ rank mw ew f = f_key eb mb x).
  Proof.
    intros Hx. pose proof ew_ge_3 as Hew3.
    assert (HP : 0 < P) by (unfold P; apply Z.pow_pos_nonneg; lia).
    assert (HE8 : 8 <= 2 ^ ew) by (change 8 with (2 ^ 3); apply Z.pow_le_mono_r; lia).
    set (mN := (x mod 2 ^ mb)%N). set (eN := ((x / 2 ^ mb) mod 2 ^ eb)%N).
    assert (HmN : (mN < 2 ^ mb)%N) by (apply N.mod_lt, p2nz).
    assert (HeN : (eN < 2 ^ eb)%N) by (apply N.mod_lt, p2nz).
    pose proof (mag_fields eb mb x) as Hmag. fold mN eN in Hmag.
    (* the three fields on the Z side *)
    assert (Hm : Z.of_N x mod 2 ^ mw = Z.of_N mN).
    { unfold mN, mw. rewrite N2Z.inj_mod, of_N_pow2. reflexivity. }
    assert (He : (Z.of_N x / 2 ^ mw) mod 2 ^ ew = Z.of_N eN).
    { unfold eN, mw, ew. rewrite N2Z.inj_mod, N2Z.inj_div, !of_N_pow2. reflexivity. }
    assert (HmZ : Z.of_N mN < P) by (unfold P, mw; rewrite <- of_N_pow2; lia).
    assert (HeZ : Z.of_N eN < 2 ^ ew) by (unfold ew; rewrite <- of_N_pow2; lia).
    (* the sign *)
    set (S := (2 ^ (eb + mb))%N).
    assert (HS : Z.of_N S = 2 ^ mw * 2 ^ ew).
    { unfold S, mw, ew. rewrite of_N_pow2, N2Z.inj_add, Z.pow_add_r by lia. lia. }
    assert (Hx2 : (x < 2 * S)%N).
    { unfold S. replace (1 + eb + mb)%N with (N.succ (eb + mb)) in Hx by lia. rewrite N.pow_succ_r' in Hx. exact Hx. }
    assert (HSnz : S <> 0%N) by apply p2nz.
    assert (Hsign : ((x / S) mod 2 =? 0)%N = negb (Zle_bool (2 ^ mw * 2 ^ ew) (Z.of_N x))).
    { rewrite <- HS. destruct (N.lt_ge_cases x S) as [L|L].
      - rewrite N.div_small by exact L. cbn. symmetry. apply negb_true_iff. apply Z.leb_gt. lia.
      - assert (Hq : (x / S = 1)%N).
        { apply N.le_antisymm.
          - apply N.lt_succ_r. apply N.div_lt_upper_bound; [exact HSnz|lia].
          - apply N.div_le_lower_bound; [exact HSnz|lia]. }
        rewrite Hq. cbn. symmetry. apply negb_false_iff. apply Z.leb_le. lia. }
    (* the model's key in terms of the fields *)
    assert (Hkey : f_key eb mb x = sgn (Zle_bool (2 ^ mw * 2 ^ ew) (Z.of_N x)) (Z.of_N eN * P + Z.of_N mN)).
    { unfold f_key. cbv zeta. rewrite Hmag. fold S. rewrite Hsign.
      destruct (Zle_bool (2 ^ mw * 2 ^ ew) (Z.of_N x)); cbn [negb sgn];
        rewrite N2Z.inj_add, N2Z.inj_mul, of_N_pow2; reflexivity. }
    assert (Hnan : f_is_nan eb mb x = ((eN =? 2 ^ eb - 1)%N && negb (mN =? 0)%N)) by reflexivity.
    assert (Hall1 : Z.of_N (2 ^ eb - 1)%N = 2 ^ ew - 1).
    { rewrite N2Z.inj_sub by (pose proof (pow2_pos eb); lia). rewrite of_N_pow2. reflexivity. }
    cbv zeta. unfold binary_float_of_bits_aux, split_bits, SpecFloat.emin. rewrite Hm, He.
    set (s := Zle_bool (2 ^ mw * 2 ^ ew) (Z.of_N x)) in *.
    destruct (Zeq_bool (Z.of_N eN) 0) eqn:E0.
    - (* exponent field 0: zero or subnormal *)
      apply Zeq_bool_eq in E0. assert (EN0 : eN = 0%N) by lia.
      assert (Hnn : f_is_nan eb mb x = false).
      { rewrite Hnan, EN0. replace (0 =? 2 ^ eb - 1)%N with false; [reflexivity|].
        symmetry. apply N.eqb_neq. intros C. apply (f_equal Z.of_N) in C. rewrite Hall1 in C. cbn in C. lia. }
      destruct (Z.of_N mN) as [|p|p] eqn:EM.
      + split; [exact I|]. split; [rewrite Hnn; discriminate|]. intros _. split; [exact I|].
        rewrite Hkey, E0. cbn [rank]. destruct s; reflexivity.
      + split.
        * cbn [canon]. fold emin P. repeat split; try lia.
        * split; [rewrite Hnn; discriminate|]. intros _. split; [exact I|].
          rewrite Hkey, E0. cbn [rank]. fold emin P. f_equal. lia.
      + lia.
    - apply Zeq_bool_neq in E0.
      destruct (Zeq_bool (Z.of_N eN) (2 ^ ew - 1)) eqn:E1.
      + (* exponent field all ones: infinity or NaN *)
        apply Zeq_bool_eq in E1.
        assert (EN1 : (eN =? 2 ^ eb - 1)%N = true) by (apply N.eqb_eq; lia).
        destruct (Z.of_N mN) as [|p|p] eqn:EM.
        * assert (M0 : mN = 0%N) by lia.
          assert (Hnn : f_is_nan eb mb x = false) by (rewrite Hnan, EN1, M0; reflexivity).
          split; [exact I|]. split; [rewrite Hnn; discriminate|]. intros _. split; [exact I|].
          rewrite Hkey, E1. cbn [rank]. fold P. f_equal. lia.
        * assert (M0 : (mN =? 0)%N = false) by (apply N.eqb_neq; lia).
          split; [exact I|]. split; [intros _ C; exact C|]. rewrite Hnan, EN1, M0. discriminate.
        * lia.
      + (* a normal number *)
        apply Zeq_bool_neq in E1.
        assert (Hnn : f_is_nan eb mb x = false).
        { rewrite Hnan. replace (eN =? 2 ^ eb - 1)%N with false; [reflexivity|]. symmetry. apply N.eqb_neq. lia. }
        destruct (Z.of_N mN + 2 ^ mw) as [|px|px] eqn:EP; fold P in EP; try lia.
        split.
        * cbn [canon]. fold emin P. repeat split; try lia.
        * split; [rewrite Hnn; discriminate|]. intros _. split; [exact I|].
          rewrite Hkey. cbn [rank]. fold emin P. f_equal. lia.
  Qed.

  (* the theorem: on any two bit patterns of the format, the model's comparison is Flocq's Bcompare on the floats
     those patterns denote.  [binary_float_of_bits mw ew _ _ _ z] is by definition
     [FF2B _ _ (binary_float_of_bits_aux mw ew z) V] for Flocq's own validity proof V (whose proof uses the real
     numbers and their axioms); the statement here holds for every validity proof, and is axiom-free *)
  Theorem f_ord_is_Bcompare (x y : N) Vx Vy :
    (x < 2 ^ (1 + eb + mb))%N -> (y < 2 ^ (1 + eb + mb))%N ->
    Bcompare (mw + 1) (2 ^ (ew - 1))
      (FF2B (mw + 1) (2 ^ (ew - 1)) (binary_float_of_bits_aux mw ew (Z.of_N x)) Vx)
      (FF2B (mw + 1) (2 ^ (ew - 1)) (binary_float_of_bits_aux mw ew (Z.of_N y)) Vy)
    = match f_ord eb mb x y with OLt => Some Lt | OEq => Some Eq | OGt => Some Gt | OUn => None end.
  Proof.
    intros Hx Hy. rewrite Bcompare_FF2B.
    destruct (aux_spec x Hx) as [Cx [Nx1 Nx2]]. destruct (aux_spec y Hy) as [Cy [Ny1 Ny2]].
    cbv zeta in *. unfold f_ord.
    destruct (f_is_nan eb mb x) eqn:Ex.
    - specialize (Nx1 eq_refl). cbn [orb].
      destruct (binary_float_of_bits_aux mw ew (Z.of_N x)); cbn [not_nan] in Nx1; try tauto; reflexivity.
    - destruct (f_is_nan eb mb y) eqn:Ey.
      + specialize (Ny1 eq_refl). cbn [orb].
        destruct (binary_float_of_bits_aux mw ew (Z.of_N y)); cbn [not_nan] in Ny1; try tauto;
          destruct (binary_float_of_bits_aux mw ew (Z.of_N x)); reflexivity.
      + cbn [orb]. destruct (Nx2 eq_refl) as [Ax Rx]. destruct (Ny2 eq_refl) as [Ay Ry].
        rewrite (ffc_rank mw ew Hmw Hew _ _ Cx Cy Ax Ay), Rx, Ry.
        destruct (Z.compare (f_key eb mb x) (f_key eb mb y)); reflexivity.
  Qed.
End Link.

(* IEEE-754 binary32 and binary64: b32_of_bits z = FF2B 24 128 (binary_float_of_bits_aux 23 8 z) _ ,
   b64_of_bits z = FF2B 53 1024 (binary_float_of_bits_aux 52 11 z) _ *)
Theorem f32_ord_is_ieee (x y : N) Vx Vy :
  (x < 2 ^ 32)%N -> (y < 2 ^ 32)%N ->
  Bcompare 24 128 (FF2B 24 128 (binary_float_of_bits_aux 23 8 (Z.of_N x)) Vx)
                  (FF2B 24 128 (binary_float_of_bits_aux 23 8 (Z.of_N y)) Vy)
  = match f_ord 8 23 x y with OLt => Some Lt | OEq => Some Eq | OGt => Some Gt | OUn => None end.
Proof. intros Hx Hy. apply (f_ord_is_Bcompare 8 23 eq_refl eq_refl eq_refl x y Vx Vy Hx Hy). Qed.

Theorem f64_ord_is_ieee (x y : N) Vx Vy :
  (x < 2 ^ 64)%N -> (y < 2 ^ 64)%N ->
  Bcompare 53 1024 (FF2B 53 1024 (binary_float_of_bits_aux 52 11 (Z.of_N x)) Vx)
                   (FF2B 53 1024 (binary_float_of_bits_aux 52 11 (Z.of_N y)) Vy)
  = match f_ord 11 52 x y with OLt => Some Lt | OEq => Some Eq | OGt => Some Gt | OUn => None end.
Proof. intros Hx Hy. apply (f_ord_is_Bcompare 11 52 eq_refl eq_refl eq_refl x y Vx Vy Hx Hy). Qed.
