(* Flt/FltLemmas.v -- lemmas about the Message API model as the filter archives use it (C14):
   what Message::Add* (MsgApi.api_add) does to a later lookup of the same / another field name, and how the
   nesting depth of a Message bounds the depth of the sub-Messages found in it. *)
From Coq Require Import List NArith ZArith Bool Strings.Byte Lia.
From Muscle Require Import Gen.Consts Msg.MsgDefs Msg.MsgModel Msg.MsgApi Msg.MsgBytesProofs Flt.FltModel Flt.FltArchive.
Import ListNotations.
Local Open Scope N_scope.

(* ------------------------------------------------------------------ the field table *)

Lemma flookup_fapp_none n a b : flookup n a = None -> flookup n (fapp a b) = flookup n b.
Proof.
  induction a as [|k tc r t IH]; cbn [flookup fapp]; [reflexivity|].
  destruct (bytes_eqb n k); [discriminate|]. exact IH.
Qed.

Lemma flookup_fapp_some n a b v : flookup n a = Some v -> flookup n (fapp a b) = Some v.
Proof.
  induction a as [|k tc r t IH]; cbn [flookup fapp]; [discriminate|].
  destruct (bytes_eqb n k); [auto|]. exact IH.
Qed.

Lemma flookup_fsnoc_same n fs tc r : flookup n fs = None -> flookup n (fsnoc fs n tc r) = Some (tc, r).
Proof.
  intros H. unfold fsnoc. rewrite flookup_fapp_none by exact H.
  cbn [flookup]. rewrite bytes_eqb_refl. reflexivity.
Qed.

Lemma flookup_fsnoc_other n' n fs tc r : bytes_eqb n' n = false -> flookup n' (fsnoc fs n tc r) = flookup n' fs.
Proof.
  intros H. unfold fsnoc. destruct (flookup n' fs) as [v|] eqn:E.
  - apply flookup_fapp_some. exact E.
  - rewrite flookup_fapp_none by exact E. cbn [flookup]. rewrite H. reflexivity.
Qed.

Lemma flookup_fset_same n fs tc r v : flookup n fs = Some v -> flookup n (fset n tc r fs) = Some (tc, r).
Proof.
  induction fs as [|k tc' r' t IH]; cbn [flookup fset]; [discriminate|].
  destruct (bytes_eqb n k) eqn:E.
  - intros _. cbn [flookup]. rewrite E. reflexivity.
  - intros H. cbn [flookup]. rewrite E. auto.
Qed.

Lemma flookup_fset_other n' n fs tc r : bytes_eqb n' n = false -> flookup n' (fset n tc r fs) = flookup n' fs.
Proof.
  intros H. induction fs as [|k tc' r' t IH]; cbn [flookup fset]; [reflexivity|].
  destruct (bytes_eqb n k) eqn:E.
  - cbn [flookup]. apply bytes_eqb_eq in E. subst k. rewrite H. reflexivity.
  - cbn [flookup]. destruct (bytes_eqb n' k); [reflexivity|]. exact IH.
Qed.

(* ------------------------------------------------------------------ Message::Add* *)

Definition lookup (a : msg) (n : bytes) : option (N * repr) := flookup n (msg_fields a).

Lemma what_add name tc v a : msg_what (add name tc v a) = msg_what a.
Proof.
  unfold add, api_add. destruct a as [w fs]. cbn [msg_what].
  destruct (tc =? c_B_ANY_TYPE); [reflexivity|].
  destruct (flookup name fs) as [[tc' r]|]; [|reflexivity].
  destruct (tc' =? tc); reflexivity.
Qed.

Lemma lookup_add_other n' name tc v a : bytes_eqb n' name = false -> lookup (add name tc v a) n' = lookup a n'.
Proof.
  intros H. unfold lookup, add, api_add. destruct a as [w fs]. cbn [msg_fields].
  destruct (tc =? c_B_ANY_TYPE); [reflexivity|].
  destruct (flookup name fs) as [[tc' r]|] eqn:E.
  - destruct (tc' =? tc); cbn [fst msg_fields]; [|reflexivity]. apply flookup_fset_other. exact H.
  - cbn [fst msg_fields]. apply flookup_fsnoc_other. exact H.
Qed.

Lemma lookup_add_new name tc v a :
  (tc =? c_B_ANY_TYPE) = false -> lookup a name = None -> lookup (add name tc v a) name = Some (tc, RInline v).
Proof.
  intros Hany H. unfold lookup, add, api_add in *. destruct a as [w fs]. cbn [msg_fields] in *.
  rewrite Hany, H. cbn [fst msg_fields push]. apply flookup_fsnoc_same. exact H.
Qed.

Lemma lookup_add_more name tc v a r :
  (tc =? c_B_ANY_TYPE) = false -> lookup a name = Some (tc, r) ->
  lookup (add name tc v a) name = Some (tc, push false (Some r) v).
Proof.
  intros Hany H. unfold lookup, add, api_add in *. destruct a as [w fs]. cbn [msg_fields] in *.
  rewrite Hany, H, N.eqb_refl. cbn [fst msg_fields]. eapply flookup_fset_same. exact H.
Qed.

(* the effect of one Add call on a later lookup of field [n] *)
Definition upd (n : bytes) (cur : option (N * repr)) (o : field_op) : option (N * repr) :=
  if bytes_eqb n (fst (fst o)) then
    if snd (fst o) =? c_B_ANY_TYPE then cur
    else match cur with
         | None => Some (snd (fst o), RInline (snd o))
         | Some (tc', r) => if tc' =? snd (fst o) then Some (snd (fst o), push false (Some r) (snd o)) else cur
         end
  else cur.

Lemma lookup_apply_op a o n : lookup (apply_op a o) n = upd n (lookup a n) o.
Proof.
  destruct o as [[name tc] v]. unfold apply_op, upd. cbn [fst snd].
  destruct (bytes_eqb n name) eqn:E.
  - apply bytes_eqb_eq in E. subst name.
    unfold lookup, add, api_add. destruct a as [w fs]. cbn [msg_fields].
    destruct (tc =? c_B_ANY_TYPE); [reflexivity|].
    destruct (flookup n fs) as [[tc' r]|] eqn:L.
    + destruct (tc' =? tc); cbn [fst msg_fields]; [|exact L].
      eapply flookup_fset_same. exact L.
    + cbn [fst msg_fields]. apply flookup_fsnoc_same. exact L.
  - apply lookup_add_other. exact E.
Qed.

Lemma lookup_apply_ops ops : forall a n, lookup (apply_ops ops a) n = fold_left (upd n) ops (lookup a n).
Proof.
  unfold apply_ops. induction ops as [|o t IH]; intros a n; cbn [fold_left]; [reflexivity|].
  rewrite IH, lookup_apply_op. reflexivity.
Qed.

Lemma what_apply_ops ops : forall a, msg_what (apply_ops ops a) = msg_what a.
Proof.
  unfold apply_ops. induction ops as [|o t IH]; intros a; cbn [fold_left]; [reflexivity|].
  rewrite IH. unfold apply_op. apply what_add.
Qed.

(* the items a field holds, as a list *)
Fixpoint items_to_list (l : items) : list item :=
  match l with INil => [] | ICons i t => i :: items_to_list t end.
Definition repr_items (r : repr) : list item :=
  match r with RInline i => [i] | RArray l => items_to_list l end.

Lemma items_to_list_snoc l v : items_to_list (items_snoc l v) = items_to_list l ++ [v].
Proof.
  unfold items_snoc. induction l as [|i t IH]; cbn [items_app items_to_list app]; [reflexivity|].
  rewrite IH. reflexivity.
Qed.

Lemma repr_items_push r v : repr_items (push false (Some r) v) = repr_items r ++ [v].
Proof.
  destruct r as [i|l]; cbn [push repr_items items_to_list app]; [reflexivity|]. apply items_to_list_snoc.
Qed.

Lemma items_nth_list n l : items_nth n l = nth_error (items_to_list l) (N.to_nat n).
Proof.
  revert n. induction l as [|i t IH]; intros n; cbn [items_nth items_to_list].
  - destruct (N.to_nat n); reflexivity.
  - destruct (n =? 0) eqn:E.
    + apply N.eqb_eq in E. subst n. reflexivity.
    + apply N.eqb_neq in E. rewrite IH.
      replace (N.to_nat n) with (S (N.to_nat (N.pred n))) by lia. reflexivity.
Qed.

Lemma repr_nth_list n r : repr_nth n r = nth_error (repr_items r) (N.to_nat n).
Proof.
  destruct r as [i|l]; cbn [repr_nth repr_items].
  - destruct (n =? 0) eqn:E.
    + apply N.eqb_eq in E. subst n. reflexivity.
    + apply N.eqb_neq in E. destruct (N.to_nat n) as [|k] eqn:K; [lia|]. destruct k; reflexivity.
  - apply items_nth_list.
Qed.

(* ------------------------------------------------------------------ nesting depth *)

Lemma depth_items_in i l : In i (items_to_list l) -> (depth_item i <= depth_items l)%nat.
Proof.
  induction l as [|j t IH]; cbn [items_to_list In depth_items]; [tauto|].
  intros [->|H]; [lia|]. specialize (IH H). lia.
Qed.

Lemma depth_repr_in i r : In i (repr_items r) -> (depth_item i <= depth_repr r)%nat.
Proof.
  destruct r as [j|l]; cbn [repr_items depth_repr In].
  - intros [->|[]]. lia.
  - apply depth_items_in.
Qed.

Lemma depth_fields_lookup n fs tc r : flookup n fs = Some (tc, r) -> (depth_repr r <= depth_fields fs)%nat.
Proof.
  induction fs as [|k tc' r' t IH]; cbn [flookup depth_fields]; [discriminate|].
  destruct (bytes_eqb n k).
  - intros H. injection H as <- <-. lia.
  - intros H. specialize (IH H). lia.
Qed.

(* a sub-Message found in a field of [a] is strictly shallower than [a] *)
Lemma depth_lookup_item a n tc r s :
  lookup a n = Some (tc, r) -> In (IMsg s) (repr_items r) -> (S (depth_msg s) <= depth_msg a)%nat.
Proof.
  unfold lookup. destruct a as [w fs]. cbn [msg_fields depth_msg]. intros H Hin.
  apply depth_fields_lookup in H. apply depth_repr_in in Hin. cbn [depth_item] in Hin. lia.
Qed.

Lemma nth_error_In' {A} (l : list A) n x : nth_error l n = Some x -> In x l.
Proof. apply nth_error_In. Qed.

Lemma find_msg_depth a n idx s : find_msg a n idx = Some s -> (S (depth_msg s) <= depth_msg a)%nat.
Proof.
  unfold find_msg, find_item, get_field. fold (lookup a n).
  destruct (lookup a n) as [[tc' r]|] eqn:E; [|discriminate].
  destruct ((c_B_MESSAGE_TYPE =? c_B_ANY_TYPE) || (c_B_MESSAGE_TYPE =? tc')); [|discriminate].
  destruct (repr_nth idx r) as [i|] eqn:En; [|discriminate].
  destruct i; try discriminate. intros H. injection H as ->.
  rewrite repr_nth_list in En. apply nth_error_In in En.
  eapply depth_lookup_item; eassumption.
Qed.

Lemma items_msgs_in s l : In s (items_msgs l) -> In (IMsg s) (items_to_list l).
Proof.
  induction l as [|i t IH]; cbn [items_msgs items_to_list In]; [tauto|].
  destruct i; cbn [In]; try tauto.
  intros [->|H]; [left; reflexivity|right; auto].
Qed.

Lemma find_msgs_depth a n s : In s (find_msgs a n) -> (S (depth_msg s) <= depth_msg a)%nat.
Proof.
  unfold find_msgs, get_field. fold (lookup a n).
  destruct (lookup a n) as [[tc' r]|] eqn:E; [|intros []].
  destruct ((c_B_MESSAGE_TYPE =? c_B_ANY_TYPE) || (c_B_MESSAGE_TYPE =? tc')); [|intros []].
  destruct r as [i|l].
  - destruct i as [b|b|b|m0|id]; cbn [In]; try tauto.
    intros [->|[]]. eapply depth_lookup_item; [exact E|]. left. reflexivity.
  - intros H. apply items_msgs_in in H. eapply depth_lookup_item; [exact E|]. exact H.
Qed.
