(* Flt/FltLexProofs.v -- the lexer reads back what the documented grammar prints (C14): a token sequence printed
   with one blank after every token -- keywords and symbols by their table spelling, quoted strings between
   double quotes, user words as they are -- is lexed into exactly that token sequence, provided every user word is
   "lexable" (non-empty; no white space, quotes, or operator characters; not a keyword itself). *)
From Coq Require Import List NArith ZArith Bool Strings.Byte Lia.
From Muscle Require Import Gen.Consts Msg.MsgDefs Msg.MsgModel Msg.MsgBytesProofs Flt.FltModel Flt.FltParse Flt.FltParseProofs.
Import ListNotations.
Local Open Scope N_scope.

(* ------------------------------------------------------------------ printing *)

Definition tok_text (i : N) : list N := nth (N.to_nat i) c_qf_tok_strs [].

Definition print_tok (t : ltok) : list N :=
  if tk t =? c_LTOKEN_USERSTRING then (if tq t then 34 :: tval t ++ [34] else tval t)
  else tok_text (tk t).

Fixpoint print (ts : list ltok) : list N :=
  match ts with [] => [] | t :: r => print_tok t ++ 32 :: print r end.

(* ------------------------------------------------------------------ fixed tokens *)

(* every table entry followed by a blank is recognised as itself (no later entry and no synonym pre-empts it) *)
Lemma match_fixed i :
  (i < c_LTOKEN_USERSTRING) ->
  forall rest, match_token (tok_text i ++ 32 :: rest) = Some (i, len (tok_text i)).
Proof.
  intros Hi rest.
  assert (H : existsb (N.eqb i) (map N.of_nat (seq 0 32)) = true).
  { change c_LTOKEN_USERSTRING with 32 in Hi.
    apply existsb_exists. exists i. split; [|apply N.eqb_refl].
    apply in_map_iff. exists (N.to_nat i). split; [lia|]. apply in_seq. lia. }
  cbn [seq map existsb] in H.
  repeat match type of H with
         | (?a =? ?b) || _ = true =>
             let E := fresh "E" in
             destruct (a =? b) eqn:E; [apply N.eqb_eq in E; subst i; clear H; reflexivity|cbn [orb] in H]
         end.
  discriminate H.
Qed.

Lemma dropN_app_exact' {A} (a b : list A) : dropN (len a) (a ++ b) = b.
Proof. apply dropN_app_exact. Qed.

(* no token starts with a blank *)
Lemma match_blank rest : match_token (32 :: rest) = None.
Proof. reflexivity. Qed.

Lemma lex_blank e : lex_next (32 :: e) = lex_next e.
Proof. cbn [lex_next]. rewrite match_blank. reflexivity. Qed.

Lemma lex_fixed i rest :
  i < c_LTOKEN_USERSTRING ->
  lex_next (tok_text i ++ 32 :: rest) = LTok (fixed_tok i) (32 :: rest).
Proof.
  intros Hi. pose proof (match_fixed i Hi rest) as Hm.
  destruct (tok_text i ++ 32 :: rest) as [|c e] eqn:E.
  - destruct (tok_text i); discriminate E.
  - cbn [lex_next]. rewrite Hm. rewrite <- E. rewrite dropN_app_exact. reflexivity.
Qed.

(* ------------------------------------------------------------------ quoted strings *)

Lemma match_quote rest : match_token (34 :: rest) = None.
Proof. reflexivity. Qed.

Lemma split_at_quote_app txt rest :
  mem_char 34 txt = false -> split_at_quote (txt ++ 34 :: rest) = Some (txt, rest).
Proof.
  induction txt as [|c t IH]; intros H; cbn [app split_at_quote].
  - reflexivity.
  - unfold mem_char in H. cbn [existsb] in H. apply orb_false_iff in H. destruct H as [H1 H2].
    rewrite N.eqb_sym in H1. rewrite H1. rewrite (IH H2). reflexivity.
Qed.

Lemma lex_quoted txt rest :
  mem_char 34 txt = false ->
  lex_next (34 :: txt ++ 34 :: 32 :: rest) = LTok (user_tok txt true) (32 :: rest).
Proof.
  intros H. cbn [lex_next]. rewrite match_quote. cbn [N.eqb Pos.eqb].
  rewrite (split_at_quote_app txt (32 :: rest) H). reflexivity.
Qed.

(* ------------------------------------------------------------------ user words *)

(* a word the lexer takes as one user token when a blank follows it *)
Definition lexable (w : list N) : Prop :=
  w <> [] /\
  (forall rest, match_token (w ++ 32 :: rest) = None) /\           (* it is not itself (the start of) a keyword *)
  (forall rest, scan_word (w ++ 32 :: rest) = (w, 32 :: rest)) /\  (* nothing inside it ends it early *)
  match w with c :: _ => (c =? 34) = false /\ ((c =? 32) || (c =? 9) || (c =? 13) || (c =? 10)) = false | [] => True end.

Lemma lex_word w rest : lexable w -> lex_next (w ++ 32 :: rest) = LTok (user_tok w false) (32 :: rest).
Proof.
  intros [Hne [Hm [Hs Hc]]]. destruct w as [|c w]; [congruence|].
  cbn [app lex_next]. specialize (Hm rest). specialize (Hs rest). cbn [app] in Hm, Hs.
  rewrite Hm. destruct Hc as [Hq Hw]. rewrite Hq, Hw. rewrite Hs. reflexivity.
Qed.

(* a sufficient, purely character-level criterion: letters, digits and harmless punctuation only *)
Definition word_char (c : N) : bool :=
  is_alpha c || is_digit c || (c =? 46) || (c =? 44) || (c =? 45) || (c =? 43) || (c =? 58) || (c =? 95) || (c =? 47).
      (* . , - + : _ /   (no blank, quote, parenthesis, ! < > = & | ^) *)

(* no token and no synonym starts with such a character unless it is a letter *)
Lemma match_token_word_char c t :
  word_char c = true -> is_alpha c = false -> match_token (c :: t) = None.
Proof.
  intros Hw Ha. unfold word_char in Hw. rewrite Ha in Hw. cbn [orb] in Hw.
  assert (Hl : lower c = c).
  { unfold lower. unfold is_alpha in Ha. apply orb_false_iff in Ha. destruct Ha as [Ha _]. rewrite Ha. reflexivity. }
  assert (Hcases : is_digit c = true \/ c = 46 \/ c = 44 \/ c = 45 \/ c = 43 \/ c = 58 \/ c = 95 \/ c = 47).
  { repeat (apply orb_true_iff in Hw; destruct Hw as [Hw|Hw]); try (apply N.eqb_eq in Hw); auto 10. }
  (* every table entry starts with a letter or one of ( ) ! < > = & | ^ : compare the first characters *)
  assert (Hfirst : forall tbl, Forall (fun e => match snd e with [] => True | t0 :: _ => (lower t0 =? c) = false end) tbl ->
                    first_match tbl (c :: t) = None).
  { induction tbl as [|[i ts] r IH]; intros F; [reflexivity|]. inversion F as [|? ? F1 F2]; subst.
    cbn [first_match]. destruct ts as [|t0 ts'].
    - cbn [len N.ltb N.compare andb]. apply IH. exact F2.
    - cbn [snd] in F1. cbn [ci_prefix]. rewrite Hl, F1. rewrite andb_false_r. apply IH. exact F2. }
  unfold match_token.
  assert (Hc : forall t0, In t0 [40; 41; 33; 60; 62; 61; 38; 124; 94; 115; 101; 99; 105; 109; 119; 97; 111; 120; 110] -> (t0 =? c) = false).
  { intros t0 Hin. apply N.eqb_neq. intros ->.
    destruct Hcases as [Hd|Hd].
    - unfold is_digit in Hd. apply andb_true_iff in Hd. destruct Hd as [D1 D2]. apply N.leb_le in D1. apply N.leb_le in D2.
      cbn [In] in Hin. repeat (destruct Hin as [Hin|Hin]; [subst c; lia|]). exact Hin.
    - cbn [In] in Hin. repeat (destruct Hin as [Hin|Hin]; [subst c; repeat (destruct Hd as [Hd|Hd]; [discriminate Hd|]); discriminate Hd|]). exact Hin. }
  rewrite Hfirst; [apply Hfirst|].
  - unfold synonym_table. repeat constructor; cbn [snd]; apply Hc; cbn; tauto.
  - unfold tok_table_desc. repeat constructor; cbn [snd]; apply Hc; cbn; tauto.
Qed.

Lemma scan_word_chars w rest :
  forallb word_char w = true -> scan_word (w ++ 32 :: rest) = (w, 32 :: rest).
Proof.
  induction w as [|c w IH]; intros H; [reflexivity|].
  cbn [forallb] in H. apply andb_true_iff in H. destruct H as [Hc Hw].
  cbn [app scan_word].
  assert (Hs : is_cspace c = false).
  { destruct (is_alpha c) eqn:Ea; [apply is_alpha_not_space; exact Ea|].
    unfold word_char in Hc. rewrite Ea in Hc. cbn [orb] in Hc. unfold is_cspace.
    assert (Hcases : is_digit c = true \/ c = 46 \/ c = 44 \/ c = 45 \/ c = 43 \/ c = 58 \/ c = 95 \/ c = 47).
    { repeat (apply orb_true_iff in Hc; destruct Hc as [Hc|Hc]); try (apply N.eqb_eq in Hc); auto 10. }
    destruct Hcases as [Hd|Hd].
    - unfold is_digit in Hd. apply andb_true_iff in Hd. destruct Hd as [D1 D2]. apply N.leb_le in D1. apply N.leb_le in D2.
      apply orb_false_iff. split; [apply N.eqb_neq; lia|apply andb_false_iff; right; apply N.leb_gt; lia].
    - repeat (destruct Hd as [Hd|Hd]; [subst c; reflexivity|]). subst c. reflexivity. }
  rewrite Hs. cbn [orb].
  destruct (is_alpha c) eqn:Ea; cbn [negb andb].
  - rewrite (IH Hw). reflexivity.
  - rewrite (match_token_word_char c _ Hc Ea). rewrite (IH Hw). reflexivity.
Qed.

(* ------------------------------------------------------------------ the token sequence *)

Definition tok_ok (t : ltok) : Prop :=
  if tk t =? c_LTOKEN_USERSTRING
  then (if tq t then mem_char 34 (tval t) = false else lexable (tval t))
  else tk t < c_LTOKEN_USERSTRING /\ tval t = [] /\ tq t = false.

Lemma lex_print_tok t rest : tok_ok t -> lex_next (print_tok t ++ 32 :: rest) = LTok t (32 :: rest).
Proof.
  unfold tok_ok, print_tok. destruct t as [k v q]. cbn [tk tval tq].
  destruct (k =? c_LTOKEN_USERSTRING) eqn:Ek.
  - apply N.eqb_eq in Ek. subst k. destruct q.
    + intros H. cbn [app]. rewrite <- app_assoc. cbn [app]. apply lex_quoted. exact H.
    + intros H. apply lex_word. exact H.
  - intros [Hk [-> ->]]. apply lex_fixed. exact Hk.
Qed.

Theorem lex_print : forall ts fuel,
  Forall tok_ok ts -> (length (print ts) < fuel)%nat -> lex_all fuel (print ts) = (ts, None).
Proof.
  induction ts as [|t r IH]; intros fuel F Hf.
  - destruct fuel; reflexivity.
  - inversion F as [|? ? Ft Fr]; subst. cbn [print] in *.
    destruct fuel as [|fuel]; [lia|]. cbn [lex_all].
    rewrite (lex_print_tok t (print r) Ft).
    (* the blank, then the rest *)
    assert (Hb : forall f e, lex_all f (32 :: e) = lex_all f e).
    { intros f e. destruct f; [reflexivity|]. cbn [lex_all]. rewrite lex_blank. reflexivity. }
    rewrite Hb, IH; [reflexivity|exact Fr|].
    rewrite app_length in Hf. cbn [length] in Hf. lia.
Qed.

(* ------------------------------------------------------------------ from the printed string to the denoted tree *)

From Muscle Require Import Flt.FltParseStruct.

Lemma ub_bytes_of (l : list N) : Forall (fun c => c < 256) l -> ub (bytes_of l) = l.
Proof.
  induction l as [|c l IH]; intros F; [reflexivity|]. inversion F as [|? ? Hc Hl]; subst.
  unfold ub, bytes_of in *. cbn [map]. rewrite IH by exact Hl. f_equal.
  rewrite N_of_byte_of_N. apply N.mod_small. exact Hc.
Qed.

Section PrintParse.
  Variable atof : list N -> N.
  Variable d2f : N -> N.

  (* parse_print: the string printed for a token-level expression of the documented grammar -- a body
     `[!] t1..tn` | `operand K operand ..`, operands `[!] ( body )`, any nesting -- is parsed into the filter the
     grammar denotes (or rejected exactly when the denotation is an error, e.g. an unknown operator for the type) *)
  Theorem parse_print_body b :
    wf_body b -> Forall tok_ok (toks_body b) -> Forall (fun c => c < 256) (print (toks_body b)) ->
    parse_expr atof d2f (bytes_of (print (toks_body b))) =
    match den_body atof d2f b with Ok f => Some f | _ => None end.
  Proof.
    intros Hwf Hok Hch. unfold parse_expr. rewrite (ub_bytes_of _ Hch).
    rewrite (lex_print (toks_body b) _ Hok) by lia. cbn [fst].
    rewrite (parse_body atof d2f b Hwf). destruct (den_body atof d2f b); reflexivity.
  Qed.

  Theorem parse_print_operand o :
    wf_op o -> Forall tok_ok (toks_op o) -> Forall (fun c => c < 256) (print (toks_op o)) ->
    parse_expr atof d2f (bytes_of (print (toks_op o))) =
    match den_op atof d2f o with Ok f => Some f | _ => None end.
  Proof.
    intros Hwf Hok Hch. unfold parse_expr. rewrite (ub_bytes_of _ Hch).
    rewrite (lex_print (toks_op o) _ Hok) by lia. cbn [fst].
    rewrite (parse_operand atof d2f o Hwf). destruct (den_op atof d2f o); reflexivity.
  Qed.
End PrintParse.

(* non-vacuity helpers: words made of letters, digits and . , - + : _ / that are not keywords are lexable *)
Lemma lexable_of_chars w :
  w <> [] -> forallb word_char w = true ->
  (forall rest, match_token (w ++ 32 :: rest) = None) ->
  lexable w.
Proof.
  intros Hne Hc Hm. split; [exact Hne|]. split; [exact Hm|]. split; [intros rest; apply scan_word_chars; exact Hc|].
  destruct w as [|c w]; [exact I|]. cbn [forallb] in Hc. apply andb_true_iff in Hc. destruct Hc as [Hc _].
  unfold word_char in Hc.
  assert (Hcases : is_alpha c = true \/ is_digit c = true \/ c = 46 \/ c = 44 \/ c = 45 \/ c = 43 \/ c = 58 \/ c = 95 \/ c = 47).
  { destruct (is_alpha c); [left; reflexivity|right]. cbn [orb] in Hc.
    destruct (is_digit c); [left; reflexivity|right]. cbn [orb] in Hc.
    repeat (apply orb_true_iff in Hc; destruct Hc as [Hc|Hc]); apply N.eqb_eq in Hc; tauto. }
  destruct Hcases as [Ha|[Hd|Hd]].
  - unfold is_alpha in Ha. apply orb_true_iff in Ha.
    destruct Ha as [Ha|Ha]; apply andb_true_iff in Ha; destruct Ha as [A1 A2]; apply N.leb_le in A1; apply N.leb_le in A2;
      (split; [apply N.eqb_neq; lia|repeat (apply orb_false_iff; split); apply N.eqb_neq; lia]).
  - unfold is_digit in Hd. apply andb_true_iff in Hd. destruct Hd as [A1 A2]. apply N.leb_le in A1. apply N.leb_le in A2.
    split; [apply N.eqb_neq; lia|repeat (apply orb_false_iff; split); apply N.eqb_neq; lia].
  - repeat (destruct Hd as [Hd|Hd]; [subst c; split; reflexivity|]). subst c. split; reflexivity.
Qed.
