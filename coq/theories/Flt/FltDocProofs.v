(* Flt/FltDocProofs.v -- each operator of the raw-data and string filters accepts exactly what its documentation
   says (C14): the C++ forms (length guards + memcmp/strncmp on an explicit length, MemMem / strstr / StrcasestrEx
   scans) are stated here as the list relations they are documented to be:
     equality, lexicographic order on unsigned bytes, "starts with", "ends with", "contains". *)
From Coq Require Import List NArith ZArith Bool Strings.Byte Lia.
From Muscle Require Import Gen.Consts Msg.MsgDefs Msg.MsgModel Msg.MsgBytesProofs Flt.FltModel Flt.FltListLemmas.
Import ListNotations.
Local Open Scope N_scope.

(* ------------------------------------------------------------------ memcmp on the common length *)

Lemma len_ub (a : bytes) : len (ub a) = len a.
Proof. apply len_map. Qed.

Lemma leqb_sym (a b : list N) : leqb a b = leqb b a.
Proof.
  destruct (leqb a b) eqn:E1; destruct (leqb b a) eqn:E2; try reflexivity.
  - apply leqb_eq in E1. subst b. rewrite leqb_refl in E2. discriminate.
  - apply leqb_eq in E2. subst b. rewrite leqb_refl in E1. discriminate.
Qed.

Lemma mem_eq_leqb n a b : mem_eq n a b = leqb (takeN n (ub a)) (takeN n (ub b)).
Proof. reflexivity. Qed.

Lemma takeN_ub_all (a : bytes) : takeN (len a) (ub a) = ub a.
Proof. rewrite <- (len_ub a). apply takeN_all. Qed.

Lemma ub_dropN n (a : bytes) : dropN n (ub a) = ub (dropN n a).
Proof. apply dropN_map. Qed.

(* ------------------------------------------------------------------ RawDataQueryFilter operators *)

Section Raw.
  Variables my his : bytes.      (* _value's bytes; the bytes found in the Message (or the default) *)

  Theorem raw_equal_to : raw_op c_RQF_OP_EQUAL_TO my his = true <-> his = my.
  Proof.
    change (raw_op c_RQF_OP_EQUAL_TO my his) with ((len his =? len my) && mem_eq (N.min (len my) (len his)) my his).
    rewrite andb_true_iff, N.eqb_eq, mem_eq_leqb, leqb_eq. split.
    - intros [Hl H]. replace (N.min (len my) (len his)) with (len my) in H by lia.
      rewrite takeN_ub_all in H. rewrite <- Hl in H. rewrite takeN_ub_all in H.
      apply ub_inj. symmetry. exact H.
    - intros ->. split; reflexivity.
  Qed.

  Theorem raw_not_equal_to : raw_op c_RQF_OP_NOT_EQUAL_TO my his = true <-> his <> my.
  Proof.
    change (raw_op c_RQF_OP_NOT_EQUAL_TO my his) with (negb (len his =? len my) || negb (mem_eq (N.min (len my) (len his)) my his)).
    rewrite <- negb_andb, negb_true_iff. rewrite <- raw_equal_to.
    change (raw_op c_RQF_OP_EQUAL_TO my his) with ((len his =? len my) && mem_eq (N.min (len my) (len his)) my his).
    destruct ((len his =? len my) && mem_eq (N.min (len my) (len his)) my his); split; congruence.
  Qed.

  (* the byte-string order: lexicographic on unsigned bytes, a proper prefix being smaller *)
  Lemma raw_cmp_split :
    lex_cmp (ub his) (ub my) =
    match memcmp (N.min (len my) (len his)) his my with
    | Eq => N.compare (len his) (len my)
    | c => c
    end.
  Proof.
    rewrite lex_cmp_split, !len_ub, (N.min_comm (len his) (len my)). reflexivity.
  Qed.

  Theorem raw_less_than : raw_op c_RQF_OP_LESS_THAN my his = true <-> lex_cmp (ub his) (ub my) = Lt.
  Proof.
    change (raw_op c_RQF_OP_LESS_THAN my his) with
      (match memcmp (N.min (len my) (len his)) his my with Lt => true | Eq => len his <? len my | Gt => false end).
    rewrite raw_cmp_split. destruct (memcmp _ his my); try (split; congruence).
    rewrite N.ltb_lt, N.compare_lt_iff. reflexivity.
  Qed.

  Theorem raw_greater_than : raw_op c_RQF_OP_GREATER_THAN my his = true <-> lex_cmp (ub his) (ub my) = Gt.
  Proof.
    change (raw_op c_RQF_OP_GREATER_THAN my his) with
      (match memcmp (N.min (len my) (len his)) his my with Gt => true | Eq => len my <? len his | Lt => false end).
    rewrite raw_cmp_split. destruct (memcmp _ his my); try (split; congruence).
    rewrite N.ltb_lt, N.compare_gt_iff. reflexivity.
  Qed.

  Theorem raw_less_or_equal : raw_op c_RQF_OP_LESS_THAN_OR_EQUAL_TO my his = true <-> lex_cmp (ub his) (ub my) <> Gt.
  Proof.
    change (raw_op c_RQF_OP_LESS_THAN_OR_EQUAL_TO my his) with
      (match memcmp (N.min (len my) (len his)) his my with Lt => true | Eq => len his <=? len my | Gt => false end).
    rewrite raw_cmp_split. destruct (memcmp _ his my); try (split; congruence).
    rewrite N.leb_le, N.compare_gt_iff. lia.
  Qed.

  Theorem raw_greater_or_equal : raw_op c_RQF_OP_GREATER_THAN_OR_EQUAL_TO my his = true <-> lex_cmp (ub his) (ub my) <> Lt.
  Proof.
    change (raw_op c_RQF_OP_GREATER_THAN_OR_EQUAL_TO my his) with
      (match memcmp (N.min (len my) (len his)) his my with Gt => true | Eq => len my <=? len his | Lt => false end).
    rewrite raw_cmp_split. destruct (memcmp _ his my); try (split; congruence).
    rewrite N.leb_le, N.compare_lt_iff. lia.
  Qed.
End Raw.

Lemma raw_prefix_form p s :
  (len p <=? len s) && mem_eq (N.min (len p) (len s)) p s = true <-> exists t, s = p ++ t.
Proof.
  rewrite <- ub_prefix, <- prefix_guard, !len_ub.
  destruct (len p <=? len s) eqn:E; cbn [andb]; [|tauto].
  apply N.leb_le in E. replace (N.min (len p) (len s)) with (len p) by lia.
  rewrite mem_eq_leqb, takeN_ub_all, leqb_sym. reflexivity.
Qed.

Lemma raw_suffix_form p s :
  (len p <=? len s) && mem_eq (N.min (len p) (len s)) (dropN (len p - N.min (len p) (len s)) p) (dropN (len s - N.min (len p) (len s)) s) = true
  <-> exists t, s = t ++ p.
Proof.
  rewrite <- ub_suffix, <- suffix_guard, !len_ub.
  destruct (len p <=? len s) eqn:E; cbn [andb]; [|tauto].
  apply N.leb_le in E. replace (N.min (len p) (len s)) with (len p) by lia.
  rewrite N.sub_diag, dropN_0, mem_eq_leqb, takeN_ub_all, <- ub_dropN.
  assert (Hl : len (dropN (len s - len p) (ub s)) = len p) by (rewrite len_dropN, len_ub; lia).
  rewrite <- Hl at 1. rewrite takeN_all, leqb_sym. reflexivity.
Qed.

Theorem raw_starts_with my his : raw_op c_RQF_OP_STARTS_WITH my his = true <-> exists t, his = my ++ t.
Proof. apply raw_prefix_form. Qed.

Theorem raw_start_of my his : raw_op c_RQF_OP_START_OF my his = true <-> exists t, my = his ++ t.
Proof.
  change (raw_op c_RQF_OP_START_OF my his) with ((len his <=? len my) && mem_eq (N.min (len my) (len his)) his my).
  rewrite N.min_comm. apply raw_prefix_form.
Qed.

Theorem raw_ends_with my his : raw_op c_RQF_OP_ENDS_WITH my his = true <-> exists t, his = t ++ my.
Proof. apply raw_suffix_form. Qed.

Theorem raw_end_of my his : raw_op c_RQF_OP_END_OF my his = true <-> exists t, my = t ++ his.
Proof.
  change (raw_op c_RQF_OP_END_OF my his) with
    ((len his <=? len my) && mem_eq (N.min (len my) (len his)) (dropN (len his - N.min (len my) (len his)) his) (dropN (len my - N.min (len my) (len his)) my)).
  rewrite N.min_comm. apply raw_suffix_form.
Qed.

(* MemMem *)
Lemma memmem_scan_scan_n look_for : forall k look_in,
  0 < len look_for -> memmem_scan k look_in look_for = scan_n k (ub look_for) (ub look_in).
Proof.
  induction k as [|k IH]; intros look_in Hp; cbn [memmem_scan scan_n]; [reflexivity|].
  rewrite IH by exact Hp. rewrite ub_dropN. f_equal.
  destruct look_for as [|y f]; [cbn [len] in Hp; lia|].
  destruct look_in as [|x i].
  - symmetry. apply takeN_short_neq. rewrite !len_ub. cbn [len]. lia.
  - rewrite len_ub, mem_eq_leqb, takeN_ub_all.
    destruct (leqb (takeN (len (y :: f)) (ub (x :: i))) (ub (y :: f))) eqn:E; [|apply andb_false_r].
    rewrite andb_true_r. apply leqb_eq in E. cbn [ub map len takeN] in E.
    destruct (N.succ (len f) =? 0) eqn:Ez; [apply N.eqb_eq in Ez; lia|].
    injection E as E _. apply N_of_byte_inj in E. subst y. apply byte_eqb_refl.
Qed.

Lemma infixb_same_len (p s : list N) : len p = len s -> infixb p s = leqb s p.
Proof.
  intros H. destruct s as [|x t]; cbn [infixb].
  - cbn [len] in H. apply len_zero_nil in H. subst p. reflexivity.
  - rewrite H, takeN_all, N.leb_refl, andb_true_r.
    rewrite infixb_short; [apply orb_false_r|]. cbn [len] in H. lia.
Qed.

Lemma memmem_infix look_in look_for : memmem look_in look_for = true <-> exists a b, look_in = a ++ look_for ++ b.
Proof.
  rewrite <- ub_infix, <- infixb_spec. unfold memmem.
  destruct (len look_for =? 0) eqn:E0.
  - apply N.eqb_eq in E0. apply len_zero_nil in E0. subst look_for. split; [intros _|reflexivity].
    apply infixb_spec. exists [], (ub look_in). reflexivity.
  - apply N.eqb_neq in E0.
    destruct (len look_for =? len look_in) eqn:E1.
    + apply N.eqb_eq in E1. rewrite infixb_same_len by (rewrite !len_ub; exact E1).
      rewrite mem_eq_leqb, takeN_ub_all, <- E1, takeN_ub_all. reflexivity.
    + apply N.eqb_neq in E1. destruct (len look_for <? len look_in) eqn:E2.
      * apply N.ltb_lt in E2. rewrite memmem_scan_scan_n by lia.
        rewrite scan_n_infixb; [reflexivity|rewrite !len_ub; lia|rewrite !len_ub; f_equal; lia|rewrite len_ub; lia].
      * apply N.ltb_ge in E2. rewrite infixb_short by (rewrite !len_ub; lia). reflexivity.
Qed.

Theorem raw_contains my his : raw_op c_RQF_OP_CONTAINS my his = true <-> exists a b, his = a ++ my ++ b.
Proof. apply memmem_infix. Qed.

Theorem raw_subset_of my his : raw_op c_RQF_OP_SUBSET_OF my his = true <-> exists a b, my = a ++ his ++ b.
Proof. apply memmem_infix. Qed.

(* an operator code outside the enumeration matches nothing *)
Theorem raw_unknown_op op my his : c_RQF_NUM_RAWDATA_OPERATORS <= op -> raw_op op my his = false.
Proof.
  intros H. unfold raw_op.
  repeat match goal with
         | |- (if ?c then _ else _) = _ => destruct c eqn:?E; [apply N.eqb_eq in E; subst op; vm_compute in H; exfalso; apply H; reflexivity|clear E]
         end.
  reflexivity.
Qed.

(* ------------------------------------------------------------------ StringQueryFilter operators *)

Lemma len_lb (a : bytes) : len (lb a) = len a.
Proof. unfold lb. rewrite len_map. apply len_ub. Qed.

Lemma len_nonzero {A} (l : list A) : (0 <? len l) = true <-> l <> [].
Proof.
  rewrite N.ltb_lt. destruct l; cbn [len]; split; intros H; try lia; try congruence.
Qed.

Lemma strcasestr_ex_infix (h n : list N) :
  strcasestr_ex h n = true <-> h <> [] /\ n <> [] /\ exists a b, h = a ++ n ++ b.
Proof.
  unfold strcasestr_ex. rewrite <- infixb_spec.
  destruct (len h =? 0) eqn:Eh.
  - apply N.eqb_eq in Eh. apply len_zero_nil in Eh. subst h. cbn [orb]. split; [discriminate|]. intros [H _]. congruence.
  - destruct (len n =? 0) eqn:En; cbn [orb].
    + apply N.eqb_eq in En. apply len_zero_nil in En. subst n. split; [discriminate|]. intros [_ [H _]]. congruence.
    + apply N.eqb_neq in Eh. apply N.eqb_neq in En.
      assert (Hh : h <> []) by (intros ->; apply Eh; reflexivity).
      assert (Hn : n <> []) by (intros ->; apply En; reflexivity).
      destruct (len n <=? len h) eqn:El.
      * apply N.leb_le in El. rewrite scan_n_infixb by (try reflexivity; lia). tauto.
      * apply N.leb_gt in El. rewrite infixb_short by exact El. split; [discriminate|]. intros [_ [_ H]]. discriminate.
Qed.

Section Str.
  Variable smatch : N -> bytes -> bytes -> bool.
  Variables v s : bytes.       (* _value; the String found in the Message (or the default) *)

  Lemma str_eq_form (f : bytes -> list N) :
    (forall a, len (f a) = len a) ->
    (len s =? len v) && leqb (f s) (f v) = true <-> f s = f v.
  Proof.
    intros Hlen. rewrite andb_true_iff, N.eqb_eq, leqb_eq. split; [tauto|].
    intros H. split; [|exact H]. rewrite <- (Hlen s), <- (Hlen v), H. reflexivity.
  Qed.

  Theorem str_equal_to : str_op smatch c_SQF_OP_EQUAL_TO v s = true <-> s = v.
  Proof.
    change (str_op smatch c_SQF_OP_EQUAL_TO v s) with ((len s =? len v) && leqb (ub s) (ub v)).
    rewrite (str_eq_form ub len_ub). split; [apply ub_inj|intros ->; reflexivity].
  Qed.

  Theorem str_not_equal_to : str_op smatch c_SQF_OP_NOT_EQUAL_TO v s = true <-> s <> v.
  Proof.
    change (str_op smatch c_SQF_OP_NOT_EQUAL_TO v s) with (negb ((len s =? len v) && leqb (ub s) (ub v))).
    rewrite negb_true_iff, <- str_equal_to.
    change (str_op smatch c_SQF_OP_EQUAL_TO v s) with ((len s =? len v) && leqb (ub s) (ub v)).
    destruct ((len s =? len v) && leqb (ub s) (ub v)); split; congruence.
  Qed.

  (* operator<, >, <=, >= are strcmp: the lexicographic order on unsigned chars *)
  Theorem str_less_than : str_op smatch c_SQF_OP_LESS_THAN v s = true <-> lex_cmp (ub s) (ub v) = Lt.
  Proof.
    change (str_op smatch c_SQF_OP_LESS_THAN v s) with (match lex_cmp (ub s) (ub v) with Lt => true | _ => false end).
    destruct (lex_cmp (ub s) (ub v)); split; congruence.
  Qed.
  Theorem str_greater_than : str_op smatch c_SQF_OP_GREATER_THAN v s = true <-> lex_cmp (ub s) (ub v) = Gt.
  Proof.
    change (str_op smatch c_SQF_OP_GREATER_THAN v s) with (match lex_cmp (ub s) (ub v) with Gt => true | _ => false end).
    destruct (lex_cmp (ub s) (ub v)); split; congruence.
  Qed.
  Theorem str_less_or_equal : str_op smatch c_SQF_OP_LESS_THAN_OR_EQUAL_TO v s = true <-> lex_cmp (ub s) (ub v) <> Gt.
  Proof.
    change (str_op smatch c_SQF_OP_LESS_THAN_OR_EQUAL_TO v s) with (match lex_cmp (ub s) (ub v) with Gt => false | _ => true end).
    destruct (lex_cmp (ub s) (ub v)); split; congruence.
  Qed.
  Theorem str_greater_or_equal : str_op smatch c_SQF_OP_GREATER_THAN_OR_EQUAL_TO v s = true <-> lex_cmp (ub s) (ub v) <> Lt.
  Proof.
    change (str_op smatch c_SQF_OP_GREATER_THAN_OR_EQUAL_TO v s) with (match lex_cmp (ub s) (ub v) with Lt => false | _ => true end).
    destruct (lex_cmp (ub s) (ub v)); split; congruence.
  Qed.

  Lemma str_prefix_form (f : bytes -> list N) (p t : bytes) :
    (forall a, len (f a) = len a) ->
    (len p <=? len t) && leqb (takeN (len p) (f t)) (f p) = true <-> exists r, f t = f p ++ r.
  Proof. intros Hlen. rewrite <- prefix_guard, !Hlen. reflexivity. Qed.

  Lemma str_suffix_form (f : bytes -> list N) (p t : bytes) :
    (forall a, len (f a) = len a) ->
    (len p <=? len t) && leqb (dropN (len t - len p) (f t)) (f p) = true <-> exists r, f t = r ++ f p.
  Proof. intros Hlen. rewrite <- suffix_guard, !Hlen. reflexivity. Qed.

  Theorem str_starts_with : str_op smatch c_SQF_OP_STARTS_WITH v s = true <-> exists t, s = v ++ t.
  Proof. rewrite <- ub_prefix. apply (str_prefix_form ub v s len_ub). Qed.
  Theorem str_ends_with : str_op smatch c_SQF_OP_ENDS_WITH v s = true <-> exists t, s = t ++ v.
  Proof. rewrite <- ub_suffix. apply (str_suffix_form ub v s len_ub). Qed.
  Theorem str_start_of : str_op smatch c_SQF_OP_START_OF v s = true <-> exists t, v = s ++ t.
  Proof. rewrite <- ub_prefix. apply (str_prefix_form ub s v len_ub). Qed.
  Theorem str_end_of : str_op smatch c_SQF_OP_END_OF v s = true <-> exists t, v = t ++ s.
  Proof. rewrite <- ub_suffix. apply (str_suffix_form ub s v len_ub). Qed.

  (* String::IndexOf(x) >= 0: an EMPTY subject contains nothing, not even the empty string (the code's
     `fromIndex < Length()` test); otherwise strstr's "x occurs in it" *)
  Theorem str_contains : str_op smatch c_SQF_OP_CONTAINS v s = true <-> s <> [] /\ exists a b, s = a ++ v ++ b.
  Proof.
    change (str_op smatch c_SQF_OP_CONTAINS v s) with ((0 <? len s) && scan_from (ub v) (ub s)).
    rewrite andb_true_iff, len_nonzero, scan_from_infixb, infixb_spec, ub_infix. reflexivity.
  Qed.
  Theorem str_substring_of : str_op smatch c_SQF_OP_SUBSTRING_OF v s = true <-> v <> [] /\ exists a b, v = a ++ s ++ b.
  Proof.
    change (str_op smatch c_SQF_OP_SUBSTRING_OF v s) with ((0 <? len v) && scan_from (ub s) (ub v)).
    rewrite andb_true_iff, len_nonzero, scan_from_infixb, infixb_spec, ub_infix. reflexivity.
  Qed.

  (* the case-insensitive operators are the same relations on the lower-cased strings ... *)
  Theorem str_equal_to_ic : str_op smatch c_SQF_OP_EQUAL_TO_IGNORECASE v s = true <-> lb s = lb v.
  Proof. apply (str_eq_form lb len_lb). Qed.
  Theorem str_not_equal_to_ic : str_op smatch c_SQF_OP_NOT_EQUAL_TO_IGNORECASE v s = true <-> lb s <> lb v.
  Proof.
    change (str_op smatch c_SQF_OP_NOT_EQUAL_TO_IGNORECASE v s) with (negb ((len s =? len v) && leqb (lb s) (lb v))).
    rewrite negb_true_iff, <- str_equal_to_ic.
    change (str_op smatch c_SQF_OP_EQUAL_TO_IGNORECASE v s) with ((len s =? len v) && leqb (lb s) (lb v)).
    destruct ((len s =? len v) && leqb (lb s) (lb v)); split; congruence.
  Qed.
  Theorem str_less_than_ic : str_op smatch c_SQF_OP_LESS_THAN_IGNORECASE v s = true <-> lex_cmp (lb s) (lb v) = Lt.
  Proof.
    change (str_op smatch c_SQF_OP_LESS_THAN_IGNORECASE v s) with (match lex_cmp (lb s) (lb v) with Lt => true | _ => false end).
    destruct (lex_cmp (lb s) (lb v)); split; congruence.
  Qed.
  Theorem str_greater_than_ic : str_op smatch c_SQF_OP_GREATER_THAN_IGNORECASE v s = true <-> lex_cmp (lb s) (lb v) = Gt.
  Proof.
    change (str_op smatch c_SQF_OP_GREATER_THAN_IGNORECASE v s) with (match lex_cmp (lb s) (lb v) with Gt => true | _ => false end).
    destruct (lex_cmp (lb s) (lb v)); split; congruence.
  Qed.
  Theorem str_less_or_equal_ic : str_op smatch c_SQF_OP_LESS_THAN_OR_EQUAL_TO_IGNORECASE v s = true <-> lex_cmp (lb s) (lb v) <> Gt.
  Proof.
    change (str_op smatch c_SQF_OP_LESS_THAN_OR_EQUAL_TO_IGNORECASE v s) with (match lex_cmp (lb s) (lb v) with Gt => false | _ => true end).
    destruct (lex_cmp (lb s) (lb v)); split; congruence.
  Qed.
  Theorem str_greater_or_equal_ic : str_op smatch c_SQF_OP_GREATER_THAN_OR_EQUAL_TO_IGNORECASE v s = true <-> lex_cmp (lb s) (lb v) <> Lt.
  Proof.
    change (str_op smatch c_SQF_OP_GREATER_THAN_OR_EQUAL_TO_IGNORECASE v s) with (match lex_cmp (lb s) (lb v) with Lt => false | _ => true end).
    destruct (lex_cmp (lb s) (lb v)); split; congruence.
  Qed.
  Theorem str_starts_with_ic : str_op smatch c_SQF_OP_STARTS_WITH_IGNORECASE v s = true <-> exists t, lb s = lb v ++ t.
  Proof. apply (str_prefix_form lb v s len_lb). Qed.
  Theorem str_ends_with_ic : str_op smatch c_SQF_OP_ENDS_WITH_IGNORECASE v s = true <-> exists t, lb s = t ++ lb v.
  Proof. apply (str_suffix_form lb v s len_lb). Qed.
  Theorem str_start_of_ic : str_op smatch c_SQF_OP_START_OF_IGNORECASE v s = true <-> exists t, lb v = lb s ++ t.
  Proof. apply (str_prefix_form lb s v len_lb). Qed.
  Theorem str_end_of_ic : str_op smatch c_SQF_OP_END_OF_IGNORECASE v s = true <-> exists t, lb v = t ++ lb s.
  Proof. apply (str_suffix_form lb s v len_lb). Qed.

  (* ... except that IndexOfIgnoreCase never finds an empty needle (StrcasestrEx returns NULL for needleLen == 0) *)
  Theorem str_contains_ic :
    str_op smatch c_SQF_OP_CONTAINS_IGNORECASE v s = true <-> s <> [] /\ v <> [] /\ exists a b, lb s = a ++ lb v ++ b.
  Proof.
    change (str_op smatch c_SQF_OP_CONTAINS_IGNORECASE v s) with ((0 <? len s) && strcasestr_ex (lb s) (lb v)).
    rewrite andb_true_iff, len_nonzero, strcasestr_ex_infix.
    assert (Hs : lb s <> [] <-> s <> []) by (destruct s; cbn; split; congruence).
    assert (Hv : lb v <> [] <-> v <> []) by (destruct v; cbn; split; congruence).
    tauto.
  Qed.
  Theorem str_substring_of_ic :
    str_op smatch c_SQF_OP_SUBSTRING_OF_IGNORECASE v s = true <-> v <> [] /\ s <> [] /\ exists a b, lb v = a ++ lb s ++ b.
  Proof.
    change (str_op smatch c_SQF_OP_SUBSTRING_OF_IGNORECASE v s) with ((0 <? len v) && strcasestr_ex (lb v) (lb s)).
    rewrite andb_true_iff, len_nonzero, strcasestr_ex_infix.
    assert (Hs : lb s <> [] <-> s <> []) by (destruct s; cbn; split; congruence).
    assert (Hv : lb v <> [] <-> v <> []) by (destruct v; cbn; split; congruence).
    tauto.
  Qed.

  (* the four pattern operators are StringMatcher's (property C15) *)
  Theorem str_pattern_ops op :
    In op [c_SQF_OP_SIMPLE_WILDCARD_MATCH; c_SQF_OP_REGULAR_EXPRESSION_MATCH;
           c_SQF_OP_SIMPLE_WILDCARD_MATCH_IGNORECASE; c_SQF_OP_REGULAR_EXPRESSION_MATCH_IGNORECASE] ->
    str_op smatch op v s = smatch op v s.
  Proof. cbn [In]. intros [<-|[<-|[<-|[<-|[]]]]]; reflexivity. Qed.

  Theorem str_unknown_op op : c_SQF_NUM_STRING_OPERATORS <= op -> str_op smatch op v s = false.
  Proof.
    intros H. unfold str_op.
    repeat match goal with
           | |- (if ?c then _ else _) = _ =>
               destruct c eqn:?E;
               [try (apply N.eqb_eq in E; subst op; vm_compute in H; exfalso; apply H; reflexivity);
                try (repeat (apply orb_true_iff in E; destruct E as [E|E]); apply N.eqb_eq in E; subst op; vm_compute in H; exfalso; apply H; reflexivity)
               |clear E]
           end.
    reflexivity.
  Qed.
End Str.
