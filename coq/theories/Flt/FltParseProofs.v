(* Flt/FltParseProofs.v -- the expression lexer/parser model (C14): every string is handled (the fuel the model
   gives its loops always suffices: no string makes the lexer or the parser run on), a word of letters is never cut
   by a keyword inside it (F40), and "name:index|default" denotes the field `name` (F39). *)
From Coq Require Import List NArith ZArith Bool Strings.Byte Lia.
From Muscle Require Import Gen.Consts Msg.MsgDefs Msg.MsgModel Msg.MsgBytesProofs Flt.FltModel Flt.FltParse.
Import ListNotations.
Local Open Scope N_scope.

(* ------------------------------------------------------------------ the lexer always advances *)

Lemma first_match_pos tbl s i n : first_match tbl s = Some (i, n) -> 0 < n.
Proof.
  induction tbl as [|[j ts] t IH]; cbn [first_match]; [discriminate|].
  destruct ((0 <? len ts) && ci_prefix ts s) eqn:E.
  - intros H. injection H as _ <-. apply andb_true_iff in E. destruct E as [E _]. apply N.ltb_lt. exact E.
  - exact IH.
Qed.

Lemma match_token_pos s i n : match_token s = Some (i, n) -> 0 < n.
Proof.
  unfold match_token. destruct (first_match tok_table_desc s) as [[j m]|] eqn:E.
  - intros H. injection H as _ <-. eapply first_match_pos. exact E.
  - apply first_match_pos.
Qed.

Lemma length_dropN_le {A} (l : list A) : forall k, (length (dropN k l) <= length l)%nat.
Proof.
  induction l as [|y t IH]; intros k; cbn [dropN length]; [lia|].
  destruct (k =? 0); cbn [length]; [lia|]. specialize (IH (N.pred k)). lia.
Qed.

Lemma length_dropN_pos {A} n (l : list A) : 0 < n -> l <> [] -> (length (dropN n l) < length l)%nat.
Proof.
  intros Hn Hl. destruct l as [|x t]; [congruence|]. cbn [dropN].
  destruct (n =? 0) eqn:E; [apply N.eqb_eq in E; lia|].
  cbn [length]. pose proof (length_dropN_le t (N.pred n)). lia.
Qed.

Lemma split_at_quote_length s a r : split_at_quote s = Some (a, r) -> (length r < length s)%nat.
Proof.
  revert a r. induction s as [|c t IH]; intros a r; cbn [split_at_quote]; [discriminate|].
  destruct (c =? 34).
  - intros H. injection H as _ <-. cbn [length]. lia.
  - destruct (split_at_quote t) as [[a' r']|]; [|discriminate].
    intros H. injection H as _ <-. specialize (IH a' r' eq_refl). cbn [length]. lia.
Qed.

Lemma scan_word_length t : (length (snd (scan_word t)) <= length t)%nat /\
                           (length (fst (scan_word t)) + length (snd (scan_word t)) = length t)%nat.
Proof.
  induction t as [|c t IH]; cbn [scan_word]; [cbn; lia|].
  destruct (is_cspace c || (negb (is_alpha c) && match match_token (c :: t) with Some _ => true | None => false end)).
  - cbn [fst snd length]. lia.
  - destruct (scan_word t) as [w r]. cbn [fst snd length] in *. lia.
Qed.

(* every token the lexer delivers consumes at least one character *)
Theorem lex_next_advances e t rest : lex_next e = LTok t rest -> (length rest < length e)%nat.
Proof.
  revert t rest. induction e as [|c e IH]; intros t rest; cbn [lex_next]; [discriminate|].
  destruct (match_token (c :: e)) as [[k n]|] eqn:Em.
  - intros H. injection H as _ <-.
    pose proof (length_dropN_pos n (c :: e) (match_token_pos _ _ _ Em) ltac:(discriminate)) as Hd.
    cbn [dropN] in Hd. exact Hd.
  - destruct (c =? 34).
    + destruct (split_at_quote e) as [[txt r]|] eqn:Eq; [|discriminate].
      intros H. injection H as _ <-. apply split_at_quote_length in Eq. cbn [length]. lia.
    + destruct ((c =? 32) || (c =? 9) || (c =? 13) || (c =? 10)).
      * intros H. specialize (IH t rest H). cbn [length]. lia.
      * pose proof (scan_word_length (c :: e)) as [_ Hs].
        destruct (scan_word (c :: e)) as [w r]. destruct w as [|x w]; [discriminate|].
        intros H. injection H as _ <-. cbn [fst snd length] in *. lia.
Qed.

(* so the fuel lex_all is given (one more than the number of characters) is never the reason it stops *)
Theorem lex_all_fuel_adequate : forall e f1 f2,
  (length e < f1)%nat -> (length e < f2)%nat -> lex_all f1 e = lex_all f2 e.
Proof.
  intros e. remember (length e) as n eqn:Hn. revert e Hn.
  induction n as [n IH] using lt_wf_ind. intros e Hn f1 f2 H1 H2.
  destruct f1 as [|f1]; [lia|]. destruct f2 as [|f2]; [lia|]. cbn [lex_all].
  destruct (lex_next e) as [|t rest|t] eqn:E; try reflexivity.
  apply lex_next_advances in E.
  rewrite (IH (length rest) ltac:(lia) rest eq_refl f1 f2) by lia. reflexivity.
Qed.

(* ------------------------------------------------------------------ F40: a keyword inside a word of letters *)

Lemma is_alpha_not_space c : is_alpha c = true -> is_cspace c = false.
Proof.
  unfold is_alpha, is_cspace. intros H.
  apply orb_true_iff in H. destruct H as [H|H]; apply andb_true_iff in H; destruct H as [H1 H2];
    apply N.leb_le in H1; apply N.leb_le in H2;
    apply orb_false_iff; split; [apply N.eqb_neq; lia|apply andb_false_iff; right; apply N.leb_gt; lia
                                |apply N.eqb_neq; lia|apply andb_false_iff; right; apply N.leb_gt; lia].
Qed.

(* a run of letters followed by a blank is ONE user word, whatever keywords ("or ", "is ", "and ", "not ", "what",
   "exists ", ...) its spelling contains *)
Theorem scan_word_letters w rest :
  forallb is_alpha w = true -> scan_word (w ++ 32 :: rest) = (w, 32 :: rest).
Proof.
  induction w as [|c w IH]; intros H.
  - reflexivity.
  - cbn [forallb] in H. apply andb_true_iff in H. destruct H as [Hc Hw].
    cbn [app scan_word]. rewrite (is_alpha_not_space c Hc), Hc. cbn [negb andb orb].
    rewrite (IH Hw). reflexivity.
Qed.

(* ------------------------------------------------------------------ F39: name:index|default *)

Lemma split_last_none c s : mem_char c s = false -> split_last c s = None.
Proof.
  induction s as [|d t IH]; [reflexivity|]. unfold mem_char in *. cbn [existsb split_last].
  intros H. apply orb_false_iff in H. destruct H as [H1 H2]. rewrite (IH H2), H1. reflexivity.
Qed.

Lemma split_last_app c a b : mem_char c b = false -> split_last c (a ++ c :: b) = Some (a, b).
Proof.
  intros Hb. induction a as [|d a IH]; cbn [app split_last].
  - rewrite (split_last_none c b Hb), N.eqb_refl. reflexivity.
  - rewrite IH. reflexivity.
Qed.

Section FieldSpec.
  Variable atof : list N -> N.
  Variable d2f : N -> N.

  (* the field-name token `name:digits|default` (name non-empty, without ':' and '|'; default without '|') denotes
     field [name], item index [digits], assumed default [default] *)
  Theorem field_spec_full name digits def :
    name <> [] -> mem_char 58 name = false -> mem_char 124 name = false ->
    mem_char 58 digits = false -> mem_char 124 digits = false -> mem_char 124 def = false ->
    (0 <= atol digits)%Z ->
    parse_field_name (user_tok (name ++ 58 :: digits ++ 124 :: def) false) true
    = Ok (name, pat 32 (atol digits), Some def).
  Proof.
    intros Hne Hc1 Hb1 Hc2 Hb2 Hb3 Hpos. unfold parse_field_name, user_tok. cbn [tk tq tval].
    rewrite N.eqb_refl. cbn [negb orb andb].
    assert (Hlen : (len (name ++ 58 :: digits ++ 124 :: def) =? 0) = false).
    { apply N.eqb_neq. rewrite len_app. destruct name; [congruence|]. cbn [len]. lia. }
    rewrite Hlen.
    replace (name ++ 58 :: digits ++ 124 :: def) with ((name ++ 58 :: digits) ++ 124 :: def)
      by (rewrite <- app_assoc; reflexivity).
    rewrite (split_last_app 124 _ _ Hb3). cbn [bind].
    unfold parse_name_index. cbn [negb andb].
    assert (Hlen2 : (len (name ++ 58 :: digits) =? 0) = false).
    { apply N.eqb_neq. rewrite len_app. destruct name; [congruence|]. cbn [len]. lia. }
    rewrite Hlen2. rewrite (split_last_app 58 _ _ Hc2).
    assert (Hn : (len name =? 0) = false) by (apply N.eqb_neq; destruct name; [congruence|cbn [len]; lia]).
    rewrite Hn. destruct (atol digits <? 0)%Z eqn:E; [apply Z.ltb_lt in E; lia|]. reflexivity.
  Qed.

  Theorem field_spec_plain name :
    name <> [] -> mem_char 58 name = false -> mem_char 124 name = false ->
    parse_field_name (user_tok name false) true = Ok (name, 0, None).
  Proof.
    intros Hne Hc Hb. unfold parse_field_name, user_tok. cbn [tk tq tval].
    rewrite N.eqb_refl. cbn [negb orb andb].
    assert (Hn : (len name =? 0) = false) by (apply N.eqb_neq; destruct name; [congruence|cbn [len]; lia]).
    rewrite Hn, (split_last_none 124 name Hb). unfold parse_name_index. cbn [negb andb bind].
    rewrite Hn, (split_last_none 58 name Hc). reflexivity.
  Qed.

  (* a quoted field name is taken literally *)
  Theorem field_spec_quoted name : parse_field_name (user_tok name true) true = Ok (name, 0, None).
  Proof.
    unfold parse_field_name, user_tok. cbn [tk tq tval]. rewrite N.eqb_refl. cbn [negb orb andb bind].
    unfold parse_name_index. cbn [negb andb]. reflexivity.
  Qed.
End FieldSpec.

(* ------------------------------------------------------------------ the parser's fuel always suffices *)

Section ParserFuel.
  Variable atof : list N -> N.
  Variable d2f : N -> N.
  Notation p_loop := (p_loop atof d2f).
  Notation p_finish := (p_finish atof d2f).

  Definition stuck_tok : ltok := user_tok [] false.
  Definition tail_ok (s : stream) : Prop := snd s = None \/ snd s = Some stuck_tok.

  Lemma lex_all_tail_ok fuel e : tail_ok (lex_all fuel e).
  Proof.
    revert e. induction fuel as [|f IH]; intros e; cbn [lex_all]; [left; reflexivity|].
    destruct (lex_next e) as [|t rest|t] eqn:E.
    - left. reflexivity.
    - specialize (IH rest). destruct (lex_all f rest) as [l r]. exact IH.
    - right. cbn [snd]. f_equal.
      (* the only token lex_next can be stuck on is the empty user word *)
      destruct e as [|c e]; cbn [lex_next] in E; [discriminate|].
      destruct (match_token (c :: e)) as [[k n]|]; [discriminate|].
      destruct (c =? 34); [destruct (split_at_quote e) as [[? ?]|]; discriminate|].
      destruct ((c =? 32) || (c =? 9) || (c =? 13) || (c =? 10)).
      + (* white space: the recursive call; by induction on e *)
        clear -E. revert t E. induction e as [|d e IHe]; intros t E; cbn [lex_next] in E; [discriminate|].
        destruct (match_token (d :: e)) as [[k n]|]; [discriminate|].
        destruct (d =? 34); [destruct (split_at_quote e) as [[? ?]|]; discriminate|].
        destruct ((d =? 32) || (d =? 9) || (d =? 13) || (d =? 10)); [apply IHe; exact E|].
        destruct (scan_word (d :: e)) as [[|x w] r]; [injection E as <-; reflexivity|discriminate].
      + destruct (scan_word (c :: e)) as [[|x w] r]; [injection E as <-; reflexivity|discriminate].
  Qed.

  Lemma snext_finite t l tl : snext (t :: l, tl) = Some (t, (l, tl)).
  Proof. reflexivity. Qed.

  (* the stream handed back is a suffix: never longer, same tail *)
  Lemma p_loop_stream : forall fuel s st f r,
    p_loop fuel s st = Ok (f, r) -> (length (fst r) <= length (fst s))%nat /\ snd r = snd s.
  Proof.
    induction fuel as [|fuel IH]; intros s st f r; cbn [FltParse.p_loop]; [discriminate|].
    destruct s as [l tl]. unfold snext. cbn [fst snd].
    assert (Hfin : forall x, bind (p_finish st) (fun r0 => Ok (r0, x)) = Ok (f, r) -> r = x).
    { intros x. destruct (p_finish st); cbn [bind]; try discriminate. intros H. injection H as _ <-. reflexivity. }
    destruct l as [|t l].
    - destruct tl as [t|].
      + (* stuck tail: the stream never changes *)
        set (s := (@nil ltok, Some t)).
        assert (Hs : forall st' f' r', p_loop fuel s st' = Ok (f', r') -> (length (fst r') <= 0)%nat /\ snd r' = Some t).
        { intros st' f' r' H. apply IH in H. exact H. }
        repeat match goal with
               | |- (if ?c then _ else _) = _ -> _ => destruct c
               | |- match ?x with _ => _ end = _ -> _ => destruct x
               end; try discriminate; try (intros H; apply Hs in H; exact H);
          try (intros H; apply Hfin in H; subst r; cbn; split; [lia|reflexivity]).
        all: try (destruct (p_loop fuel s pst0) as [[f0 r0]| | |] eqn:E0; cbn [bind]; try discriminate;
                  intros H; apply Hs in E0; apply IH in H; cbn [fst snd] in *; destruct H as [H1 H2];
                  destruct E0 as [E1 E2]; split; [lia|congruence]).
      + intros H. apply Hfin in H. subst r. cbn. split; [lia|reflexivity].
    - cbn [fst snd].
      assert (Hs : forall st' f' r', p_loop fuel (l, tl) st' = Ok (f', r') ->
                     (length (fst r') <= S (length l))%nat /\ snd r' = tl).
      { intros st' f' r' H. apply IH in H. cbn [fst snd] in H. destruct H. split; [lia|assumption]. }
      repeat match goal with
             | |- (if ?c then _ else _) = _ -> _ => destruct c
             | |- match ?x with _ => _ end = _ -> _ => destruct x
             end; try discriminate; try (intros H; apply Hs in H; exact H);
        try (intros H; apply Hfin in H; subst r; cbn; split; [lia|reflexivity]).
      all: try (destruct (p_loop fuel (l, tl) pst0) as [[f0 r0]| | |] eqn:E0; cbn [bind]; try discriminate;
                intros H; apply Hs in E0; apply IH in H; cbn [fst snd length] in *; destruct H as [H1 H2];
                destruct E0 as [E1 E2]; split; [lia|congruence]).
  Qed.

  Definition okerr {A} (r : res A) : Prop := match r with Ok _ | Err => True | Fuel | Crash => False end.

  Lemma okerr_bind {A B} (r : res A) (g : A -> res B) : okerr r -> (forall x, okerr (g x)) -> okerr (bind r g).
  Proof. destruct r; cbn [bind okerr]; intros H Hg; try tauto. apply Hg. Qed.

  Lemma parse_name_index_okerr q v : okerr (parse_name_index q v).
  Proof.
    unfold parse_name_index.
    repeat match goal with
           | |- okerr (if ?c then _ else _) => destruct c
           | |- okerr (match ?x with _ => _ end) => destruct x
           end; exact I.
  Qed.

  Lemma parse_field_name_okerr t d : okerr (parse_field_name t d).
  Proof.
    unfold parse_field_name.
    destruct (negb (tk t =? c_LTOKEN_USERSTRING) || (negb (tq t) && (len (tval t) =? 0))); [exact I|].
    destruct (if negb (tq t) && d then split_last 124 (tval t) else None) as [[a b]|];
      (apply okerr_bind; [apply parse_name_index_okerr|intros x; exact I]).
  Qed.

  Lemma mk_subexpr_okerr nt idx ot vt ty def : okerr (mk_subexpr atof d2f nt idx ot vt ty def).
  Proof.
    unfold mk_subexpr.
    repeat match goal with
           | |- okerr (if ?c then _ else _) => destruct c
           | |- okerr (match ?x with _ => _ end) => destruct x
           | |- okerr (let _ := _ in _) => cbv zeta
           end; exact I.
  Qed.

  Lemma p_finish_okerr st : okerr (p_finish st).
  Proof.
    unfold FltParse.p_finish.
    destruct (p_conj st) as [[k kids]|]; [destruct (p_sub st); exact I|].
    destruct (p_sub st); [exact I|].
    destruct (length (p_toks st) <? 2)%nat; [exact I|]. cbv zeta.
    match goal with |- okerr (match ?l with _ => _ end) => destruct l as [|a [|b [|c [|d r]]]] end; try exact I.
    - destruct (negb (tk a =? c_LTOKEN_EXISTS)); [exact I|].
      apply okerr_bind; [apply parse_field_name_okerr|]. intros x.
      apply okerr_bind; [apply mk_subexpr_okerr|]. intros y. exact I.
    - apply okerr_bind.
      + destruct (tk a =? c_LTOKEN_WHAT); [exact I|apply parse_field_name_okerr].
      + intros x. match goal with |- okerr (if ?c then _ else _) => destruct c end; [exact I|].
        apply okerr_bind; [apply mk_subexpr_okerr|]. intros y. exact I.
  Qed.

  Lemma p_finish_bind_okerr st (x : stream) : okerr (bind (p_finish st) (fun r0 => Ok (r0, x))).
  Proof. apply okerr_bind; [apply p_finish_okerr|intros; exact I]. Qed.

  Definition slack (st : pst) : nat := 6 - Nat.min (length (p_toks st)) 5.

  (* p_loop_no_fuel: on the token stream of ANY string the parser finishes within the fuel parse_expr gives it *)
  Lemma p_loop_okerr : forall fuel s st,
    tail_ok s -> (length (fst s) + slack st <= fuel)%nat -> okerr (p_loop fuel s st).
  Proof.
    induction fuel as [|fuel IH]; intros s st Ht Hf.
    - unfold slack in Hf. lia.
    - cbn [FltParse.p_loop]. destruct s as [l tl]. unfold snext. cbn [fst snd] in *.
      destruct l as [|t l].
      + destruct tl as [t|]; [|apply p_finish_bind_okerr].
        destruct Ht as [Ht|Ht]; cbn [snd] in Ht; [discriminate|]. injection Ht as ->.
        (* the stuck empty word: it is not a structural token *)
        change (tk stuck_tok =? c_LTOKEN_NOT) with false.
        change (tk stuck_tok =? c_LTOKEN_LPAREN) with false.
        change (tk stuck_tok =? c_LTOKEN_RPAREN) with false.
        change ((tk stuck_tok =? c_LTOKEN_AND) || (tk stuck_tok =? c_LTOKEN_OR) || (tk stuck_tok =? c_LTOKEN_XOR)) with false.
        cbv iota.
        destruct (p_conj st); [exact I|]. destruct (p_sub st); [exact I|]. cbv zeta.
        destruct (4 <? length (p_toks st ++ [stuck_tok]))%nat eqn:E; [exact I|].
        apply Nat.ltb_ge in E. rewrite app_length in E. cbn [length] in E.
        apply IH; [right; reflexivity|]. cbn [fst length]. unfold slack in *. cbn [p_toks].
        rewrite app_length. cbn [length]. lia.
      + cbn [length] in Hf.
        assert (Hl : forall st', (slack st' <= slack st)%nat -> okerr (p_loop fuel (l, tl) st')).
        { intros st' Hs. apply IH; [exact Ht|cbn [fst]; lia]. }
        assert (Hslack6 : forall st', p_toks st' = [] -> (slack st' <= 6)%nat) by (intros; unfold slack; lia).
        destruct (tk t =? c_LTOKEN_NOT).
        { destruct (match p_sub st with Some _ => true | None => negb (length (p_toks st) =? 0)%nat end); [exact I|].
          apply Hl. unfold slack. cbn [p_toks]. lia. }
        destruct (tk t =? c_LTOKEN_LPAREN).
        { destruct (match p_sub st with Some _ => true | None => negb (length (p_toks st) =? 0)%nat end) eqn:Eb; [exact I|].
          assert (Hnil : length (p_toks st) = 0%nat).
          { destruct (p_sub st); [discriminate|]. apply negb_false_iff, Nat.eqb_eq in Eb. exact Eb. }
          assert (Hst : slack st = 6%nat) by (unfold slack; rewrite Hnil; reflexivity).
          destruct (p_loop fuel (l, tl) pst0) as [[f0 r0]| | |] eqn:E0; cbn [bind fst snd].
          - apply p_loop_stream in E0. cbn [fst snd] in E0. destruct E0 as [E1 E2].
            apply IH.
            + unfold tail_ok. rewrite E2. exact Ht.
            + unfold slack at 1. cbn [p_toks fst snd]. rewrite Hnil. cbn. lia.
          - exact I.
          - assert (Hx : okerr (p_loop fuel (l, tl) pst0)).
            { apply IH; [exact Ht|cbn [fst]; unfold slack at 1; cbn; lia]. }
            rewrite E0 in Hx. exact Hx.
          - assert (Hx : okerr (p_loop fuel (l, tl) pst0)).
            { apply IH; [exact Ht|cbn [fst]; unfold slack at 1; cbn; lia]. }
            rewrite E0 in Hx. exact Hx. }
        destruct (tk t =? c_LTOKEN_RPAREN).
        { destruct (match p_sub st, p_conj st, p_toks st with None, None, [] => true | _, _, _ => false end); [exact I|].
          apply p_finish_bind_okerr. }
        destruct ((tk t =? c_LTOKEN_AND) || (tk t =? c_LTOKEN_OR) || (tk t =? c_LTOKEN_XOR)).
        { destruct (p_sub st); [|exact I].
          destruct (p_conj st) as [[k0 kids]|].
          - destruct (negb (k0 =? tk t)); [exact I|]. apply Hl. unfold slack. cbn [p_toks]. lia.
          - apply Hl. unfold slack. cbn [p_toks]. lia. }
        destruct (p_conj st); [exact I|]. destruct (p_sub st); [exact I|]. cbv zeta.
        destruct (4 <? length (p_toks st ++ [t]))%nat eqn:E; [exact I|].
        apply Nat.ltb_ge in E. rewrite app_length in E. cbn [length] in E.
        apply IH; [exact Ht|]. cbn [fst]. unfold slack in *. cbn [p_toks]. rewrite app_length. cbn [length]. lia.
  Qed.

  (* parse_total: CreateQueryFilterFromExpression is defined on every string; the loops of the model never run
     out of the fuel they are given (a parse error or a filter, always) *)
  Theorem parse_expr_total (e : bytes) :
    let chars := ub e in
    let s := lex_all (S (length chars)) chars in
    okerr (p_loop (length (fst s) + 8) s pst0).
  Proof.
    cbv zeta. apply p_loop_okerr; [apply lex_all_tail_ok|]. unfold slack. cbn. lia.
  Qed.
End ParserFuel.
