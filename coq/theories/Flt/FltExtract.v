(* Extraction of the query-filter model for the correspondence run of C14 (ExtrOcamlBasic only). *)
From Coq Require Import ExtrOcamlBasic.
From Coq Require Extraction.
From Coq Require Import NArith ZArith List Strings.Byte.
From Muscle Require Import Gen.Consts Msg.MsgDefs Msg.MsgModel Msg.MsgApi Flt.FltModel Flt.FltArchive Flt.FltParse Flt.FltMatch Flt.FltObject.
Definition tc_bool := c_B_BOOL_TYPE.     Definition tc_double := c_B_DOUBLE_TYPE.  Definition tc_float := c_B_FLOAT_TYPE.
Definition tc_int64 := c_B_INT64_TYPE.   Definition tc_int32 := c_B_INT32_TYPE.    Definition tc_int16 := c_B_INT16_TYPE.
Definition tc_int8 := c_B_INT8_TYPE.     Definition tc_message := c_B_MESSAGE_TYPE. Definition tc_point := c_B_POINT_TYPE.
Definition tc_rect := c_B_RECT_TYPE.     Definition tc_string := c_B_STRING_TYPE.  Definition tc_raw := c_B_RAW_TYPE.
Definition tc_any := c_B_ANY_TYPE.
Extraction "flt_model.ml"
  byte_of_N N_of_byte len step empty_msg ftype_of_tc elem_size flatten
  eval to_archive from_archive fdepth parse_expr smatch_ere pattern_supported
  fresh so_filter so_cache obj_eval_all obj_set_from_archive obj_set_operator obj_set_value
  tc_bool tc_double tc_float tc_int64 tc_int32 tc_int16 tc_int8 tc_message tc_point tc_rect tc_string tc_raw tc_any.
