(* Flt/FltParseStruct.v -- the parser builds the tree the grammar denotes (C14), at the level of tokens:
     predicate  ::= [!] t1 .. tn                    (n <= 4 tokens, none of them ! ( ) && || ^)
     operand    ::= [!] ( body )
     body       ::= predicate  |  operand  |  operand K operand K .. K operand   (one conjunction keyword K, >= 2 operands)
     expression ::= body
   For every such token sequence (any nesting depth, any number of operands) the parser's loop -- negation flag,
   recursion on "(", conjunction accumulation, the checks on ")" -- returns exactly the denoted filter:
   the predicate's filter (p_finish on its tokens), NOR around a negated operand, And/Or/Xor over the operands in
   order; an error in any predicate is the error of the whole. *)
From Coq Require Import List NArith ZArith Bool Strings.Byte Lia.
From Muscle Require Import Gen.Consts Msg.MsgDefs Msg.MsgModel Flt.FltModel Flt.FltParse.
Import ListNotations.
Local Open Scope N_scope.

Definition is_conj (k : N) : bool := (k =? c_LTOKEN_AND) || (k =? c_LTOKEN_OR) || (k =? c_LTOKEN_XOR).
Definition structural (k : N) : bool :=
  (k =? c_LTOKEN_NOT) || (k =? c_LTOKEN_LPAREN) || (k =? c_LTOKEN_RPAREN) || is_conj k.

Inductive body : Type :=
| BLeaf (neg : bool) (ts : list ltok)
| BOp (o : operand)                                   (* redundant parentheses: ((a == 1)), (!(a == 1)) *)
| BConj (k : N) (o1 : operand) (os : olist)
with operand : Type :=
| OGroup (neg : bool) (b : body)
with olist : Type :=
| ONil
| OCons (o : operand) (t : olist).

Scheme body_mi := Induction for body Sort Prop
  with operand_mi := Induction for operand Sort Prop
  with olist_mi := Induction for olist Sort Prop.
Combined Scheme body_mutind from body_mi, operand_mi, olist_mi.

Definition t_not := fixed_tok c_LTOKEN_NOT.
Definition t_lp := fixed_tok c_LTOKEN_LPAREN.
Definition t_rp := fixed_tok c_LTOKEN_RPAREN.
Definition neg_toks (neg : bool) : list ltok := if neg then [t_not] else [].

Fixpoint toks_body (b : body) : list ltok :=
  match b with
  | BLeaf neg ts => neg_toks neg ++ ts
  | BOp o => toks_op o
  | BConj k o1 os => toks_op o1 ++ toks_rest k os
  end
with toks_op (o : operand) : list ltok :=
  match o with OGroup neg b => neg_toks neg ++ t_lp :: toks_body b ++ [t_rp] end
with toks_rest (k : N) (os : olist) : list ltok :=
  match os with ONil => [] | OCons o t => fixed_tok k :: toks_op o ++ toks_rest k t end.

Fixpoint wf_body (b : body) : Prop :=
  match b with
  | BLeaf _ ts => Forall (fun t => structural (tk t) = false) ts /\ (length ts <= 4)%nat
  | BOp o => wf_op o
  | BConj k o1 os => is_conj k = true /\ os <> ONil /\ wf_op o1 /\ wf_olist os
  end
with wf_op (o : operand) : Prop := match o with OGroup _ b => wf_body b end
with wf_olist (os : olist) : Prop := match os with ONil => True | OCons o t => wf_op o /\ wf_olist t end.

Section Struct.
  Variable atof : list N -> N.
  Variable d2f : N -> N.
  Notation p_loop := (p_loop atof d2f).
  Notation p_finish := (p_finish atof d2f).

  (* what the grammar denotes *)
  Fixpoint den_body (b : body) : res qfilter :=
    match b with
    | BLeaf neg ts => p_finish (mkP ts None None neg)
    | BOp o => den_op o
    | BConj k o1 os =>
        bind (den_op o1) (fun f1 => bind (den_rest os) (fun fs => Ok (conj_filter k (f1 :: fs))))
    end
  with den_op (o : operand) : res qfilter :=
    match o with OGroup neg b => bind (den_body b) (fun f => Ok (maybe_negate neg f)) end
  with den_rest (os : olist) : res (list qfilter) :=
    match os with
    | ONil => Ok []
    | OCons o t => bind (den_op o) (fun f => bind (den_rest t) (fun fs => Ok (f :: fs)))
    end.

  (* how a (sub)expression ends: the closing parenthesis of the group it is in, or the end of the tokens *)
  Inductive ending : list ltok -> option ltok -> list ltok -> Prop :=
  | EndParen rest tl : ending (t_rp :: rest) tl rest
  | EndInput : ending [] None [].

  (* one step of the loop on a token, by kind *)
  Lemma step_not fuel l tl toks c neg :
    p_loop (S fuel) (t_not :: l, tl) (mkP toks c None neg) =
    if negb (length toks =? 0)%nat then Err else p_loop fuel (l, tl) (mkP toks c None (negb neg)).
  Proof. reflexivity. Qed.

  Lemma step_lparen fuel l tl c neg :
    p_loop (S fuel) (t_lp :: l, tl) (mkP [] c None neg) =
    bind (p_loop fuel (l, tl) pst0) (fun r => p_loop fuel (snd r) (mkP [] c (Some (fst r)) neg)).
  Proof. reflexivity. Qed.

  Lemma step_word fuel t l tl toks neg :
    structural (tk t) = false ->
    p_loop (S fuel) (t :: l, tl) (mkP toks None None neg) =
    if (4 <? length (toks ++ [t]))%nat then Err else p_loop fuel (l, tl) (mkP (toks ++ [t]) None None neg).
  Proof.
    intros H. unfold structural, is_conj in H.
    apply orb_false_iff in H. destruct H as [H H4]. apply orb_false_iff in H. destruct H as [H H3].
    apply orb_false_iff in H. destruct H as [H1 H2].
    cbn [FltParse.p_loop]. unfold snext. cbn [fst snd p_toks p_conj p_sub p_neg].
    rewrite H1, H2, H3. unfold is_conj in H4. rewrite H4. reflexivity.
  Qed.

  (* the end of a (sub)expression: ")" or the end of the tokens (an empty "()" is an error either way) *)
  Lemma step_end fuel term tl rest st :
    ending term tl rest ->
    p_loop (S fuel) (term, tl) st = bind (p_finish st) (fun f => Ok (f, (rest, tl))).
  Proof.
    intros He. destruct He as [rest tl|].
    - cbn [FltParse.p_loop]. unfold snext. cbn [fst snd].
      change (tk t_rp =? c_LTOKEN_NOT) with false. change (tk t_rp =? c_LTOKEN_LPAREN) with false.
      change (tk t_rp =? c_LTOKEN_RPAREN) with true. cbv iota.
      destruct st as [toks c sub neg]. cbn [p_sub p_conj p_toks].
      destruct sub; [reflexivity|]. destruct c; [reflexivity|]. destruct toks; reflexivity.
    - reflexivity.
  Qed.

  (* a run of predicate tokens *)
  Lemma run_words : forall ts fuel l tl toks neg,
    Forall (fun t => structural (tk t) = false) ts -> (length toks + length ts <= 4)%nat ->
    p_loop (length ts + fuel) (ts ++ l, tl) (mkP toks None None neg) = p_loop fuel (l, tl) (mkP (toks ++ ts) None None neg).
  Proof.
    induction ts as [|t ts IH]; intros fuel l tl toks neg Hf Hl.
    - rewrite app_nil_r. reflexivity.
    - inversion Hf as [|? ? Ht Hts]; subst. cbn [length app plus].
      rewrite step_word by exact Ht.
      rewrite app_length. cbn [length] in *.
      destruct (4 <? length toks + 1)%nat eqn:E; [apply Nat.ltb_lt in E; lia|].
      rewrite IH by (try assumption; rewrite app_length; cbn [length]; lia).
      rewrite <- app_assoc. reflexivity.
  Qed.

  Definition acc (c : option (N * list qfilter)) : list qfilter := match c with Some (_, kids) => kids | None => [] end.
  Definition conj_ok (k : N) (c : option (N * list qfilter)) : Prop := match c with Some (k0, _) => k0 = k | None => True end.

  Lemma step_conj fuel k l tl c fprev negprev :
    is_conj k = true -> conj_ok k c ->
    p_loop (S fuel) (fixed_tok k :: l, tl) (mkP [] c (Some fprev) negprev) =
    p_loop fuel (l, tl) (mkP [] (Some (k, acc c ++ [maybe_negate negprev fprev])) None false).
  Proof.
    intros Hk Hc.
    cbn [FltParse.p_loop]. unfold snext. cbn [fst snd fixed_tok tk p_toks p_conj p_sub p_neg].
    unfold is_conj in Hk.
    assert (Hn : (k =? c_LTOKEN_NOT) = false).
    { destruct (k =? c_LTOKEN_NOT) eqn:E; [|reflexivity]. apply N.eqb_eq in E. subst k. discriminate Hk. }
    assert (Hl : (k =? c_LTOKEN_LPAREN) = false).
    { destruct (k =? c_LTOKEN_LPAREN) eqn:E; [|reflexivity]. apply N.eqb_eq in E. subst k. discriminate Hk. }
    assert (Hr : (k =? c_LTOKEN_RPAREN) = false).
    { destruct (k =? c_LTOKEN_RPAREN) eqn:E; [|reflexivity]. apply N.eqb_eq in E. subst k. discriminate Hk. }
    rewrite Hn, Hl, Hr, Hk.
    destruct c as [[k0 kids]|]; cbn [conj_ok acc] in *.
    - subst k0. rewrite N.eqb_refl. reflexivity.
    - reflexivity.
  Qed.

  Lemma finish_conj k kids f neg :
    p_finish (mkP [] (Some (k, kids)) (Some f) neg) = Ok (conj_filter k (kids ++ [maybe_negate neg f])).
  Proof. reflexivity. Qed.

  Lemma fuel_split (a b : nat) : (a < b)%nat -> exists f, b = (a + S f)%nat.
  Proof. intros H. exists (b - a - 1)%nat. lia. Qed.

  Theorem parser_structure :
    (forall b, wf_body b -> forall fuel term tl rest,
        ending term tl rest -> (length (toks_body b ++ term) < fuel)%nat ->
        p_loop fuel (toks_body b ++ term, tl) pst0 = bind (den_body b) (fun f => Ok (f, (rest, tl))))
    /\ (forall o, wf_op o -> forall fuel more tl c,
        (length (toks_op o ++ more) < fuel)%nat ->
        exists fuel', (length more < fuel')%nat /\
        p_loop fuel (toks_op o ++ more, tl) (mkP [] c None false) =
        match o with OGroup neg b =>
          bind (den_body b) (fun f => p_loop fuel' (more, tl) (mkP [] c (Some f) neg)) end)
    /\ (forall os, wf_olist os -> forall k fuel term tl rest c fprev negprev,
        is_conj k = true -> conj_ok k c -> (c <> None \/ os <> ONil) ->
        ending term tl rest -> (length (toks_rest k os ++ term) < fuel)%nat ->
        p_loop fuel (toks_rest k os ++ term, tl) (mkP [] c (Some fprev) negprev) =
        bind (den_rest os) (fun fs => Ok (conj_filter k (acc c ++ maybe_negate negprev fprev :: fs), (rest, tl)))).
  Proof.
    apply body_mutind.
    - (* BLeaf *)
      intros neg ts [Hf Hl] fuel term tl rest He Hlen. cbn [toks_body den_body] in *.
      rewrite <- app_assoc in *. rewrite !app_length in Hlen.
      destruct neg; cbn [neg_toks app length] in *.
      + destruct fuel as [|fuel]; [lia|]. unfold pst0. rewrite step_not. cbn [length Nat.eqb negb].
        destruct (fuel_split (length ts) fuel ltac:(lia)) as [f ->].
        rewrite run_words by (try assumption; cbn [length]; lia). cbn [app].
        apply step_end. exact He.
      + destruct (fuel_split (length ts) fuel ltac:(lia)) as [f ->].
        unfold pst0. rewrite run_words by (try assumption; cbn [length]; lia). cbn [app].
        apply step_end. exact He.
    - (* BOp: a lone operand *)
      intros o IHo Hw fuel term tl rest He Hlen. cbn [toks_body den_body wf_body] in *.
      destruct (IHo Hw fuel term tl None Hlen) as [fuel' [Hf' Heq]].
      unfold pst0. rewrite Heq. destruct o as [neg b]. cbn [den_op].
      destruct (den_body b) as [f| | |]; cbn [bind]; try reflexivity.
      destruct fuel' as [|f']; [destruct He; cbn [length] in Hf'; lia|].
      rewrite (step_end f' term tl rest _ He). reflexivity.
    - (* BConj *)
      intros k o1 IH1 os IHos [Hk [Hne [Hw1 Hws]]] fuel term tl rest He Hlen. cbn [toks_body den_body] in *.
      rewrite <- app_assoc in *.
      destruct (IH1 Hw1 fuel (toks_rest k os ++ term) tl None Hlen) as [fuel' [Hf' Heq]].
      unfold pst0. rewrite Heq. destruct o1 as [neg b]. cbn [den_op].
      destruct (den_body b) as [f| | |]; cbn [bind]; try reflexivity.
      rewrite (IHos Hws k fuel' term tl rest None f neg Hk I (or_intror Hne) He Hf'). cbn [acc app].
      destruct (den_rest os); reflexivity.
    - (* OGroup *)
      intros neg b IHb Hw fuel more tl c Hlen. cbn [toks_op wf_op] in *.
      assert (Hlist : (neg_toks neg ++ t_lp :: toks_body b ++ [t_rp]) ++ more = neg_toks neg ++ t_lp :: toks_body b ++ t_rp :: more).
      { rewrite <- app_assoc. cbn [app]. rewrite <- app_assoc. reflexivity. }
      rewrite Hlist in *. clear Hlist.
      rewrite app_length in Hlen. cbn [length] in Hlen. rewrite app_length in Hlen. cbn [length] in Hlen.
      assert (Hgo : forall fuel0, (length (toks_body b) + length more + 2 < fuel0)%nat ->
                forall ng, exists fuel', (length more < fuel')%nat /\
                  p_loop fuel0 (t_lp :: toks_body b ++ t_rp :: more, tl) (mkP [] c None ng) =
                  bind (den_body b) (fun f => p_loop fuel' (more, tl) (mkP [] c (Some f) ng))).
      { intros fuel0 H0 ng. destruct fuel0 as [|f0]; [lia|].
        exists f0. split; [lia|].
        rewrite step_lparen.
        rewrite (IHb Hw f0 (t_rp :: more) tl more (EndParen more tl)) by (rewrite app_length; cbn [length]; lia).
        destruct (den_body b); reflexivity. }
      destruct neg; cbn [neg_toks app length] in *.
      + destruct fuel as [|fuel]; [lia|]. rewrite step_not. cbn [length Nat.eqb negb].
        apply (Hgo fuel). lia.
      + apply (Hgo fuel). lia.
    - (* ONil *)
      intros _ k fuel term tl rest c fprev negprev Hk Hc Hne He Hlen. cbn [toks_rest den_rest app bind].
      destruct fuel as [|fuel]; [lia|].
      rewrite (step_end fuel term tl rest _ He).
      destruct c as [[k0 kids]|]; [|destruct Hne; congruence].
      cbn [conj_ok] in Hc. subst k0. rewrite finish_conj. reflexivity.
    - (* OCons *)
      intros o IHo t IHt [Hwo Hwt] k fuel term tl rest c fprev negprev Hk Hc _ He Hlen.
      cbn [toks_rest den_rest] in *.
      assert (Hlist : (fixed_tok k :: toks_op o ++ toks_rest k t) ++ term = fixed_tok k :: toks_op o ++ toks_rest k t ++ term).
      { cbn [app]. rewrite <- app_assoc. reflexivity. }
      rewrite Hlist in *. clear Hlist. cbn [length] in Hlen.
      destruct fuel as [|fuel]; [lia|].
      rewrite (step_conj fuel k _ tl c fprev negprev Hk Hc).
      destruct (IHo Hwo fuel (toks_rest k t ++ term) tl (Some (k, acc c ++ [maybe_negate negprev fprev])) ltac:(lia))
        as [fuel' [Hf' Heq]].
      rewrite Heq. destruct o as [neg b]. cbn [den_op].
      destruct (den_body b) as [f| | |]; cbn [bind]; try reflexivity.
      assert (Hne2 : Some (k, acc c ++ [maybe_negate negprev fprev]) <> None \/ t <> ONil) by (left; discriminate).
      assert (Hck : conj_ok k (Some (k, acc c ++ [maybe_negate negprev fprev]))) by reflexivity.
      rewrite (IHt Hwt k fuel' term tl rest (Some (k, acc c ++ [maybe_negate negprev fprev])) f neg Hk Hck Hne2 He Hf').
      cbn [acc]. destruct (den_rest t); cbn [bind]; try reflexivity.
      rewrite <- app_assoc. reflexivity.
  Qed.

  (* the whole expression: a body, or one (possibly negated) parenthesised operand *)
  Corollary parse_body b :
    wf_body b ->
    p_loop (length (toks_body b) + 8) (toks_body b, None) pst0 = bind (den_body b) (fun f => Ok (f, ([], None))).
  Proof.
    intros H. pose proof (proj1 parser_structure b H (length (toks_body b) + 8)%nat [] None [] EndInput) as P.
    rewrite app_nil_r in P. apply P. lia.
  Qed.

  Corollary parse_operand o :
    wf_op o ->
    p_loop (length (toks_op o) + 8) (toks_op o, None) pst0 = bind (den_op o) (fun f => Ok (f, ([], None))).
  Proof. intros H. apply (parse_body (BOp o)). exact H. Qed.
End Struct.
