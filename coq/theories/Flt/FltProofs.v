(* Flt/FltProofs.v -- proofs about the query-filter model (C14): combinators. *)
From Coq Require Import List NArith ZArith Bool Strings.Byte Lia.
From Muscle Require Import Gen.Consts Msg.MsgDefs Msg.MsgModel Flt.FltModel.
Import ListNotations.
Local Open Scope N_scope.

Lemma eval_min_nil smatch node n m : eval smatch node (FMin n LNil) m = true.
Proof. reflexivity. Qed.
