(* Flt/FltProofs.v -- proofs about the query-filter evaluator (C14): the combinators.
   ThresholdMaxAux's loop (with its give-up test and its early success) computes "more than min(n, numKids-1)
   children match"; And/Or/Nand/Nor/Xor follow their truth tables. *)
From Coq Require Import List NArith ZArith Bool Strings.Byte Lia.
From Muscle Require Import Gen.Consts Msg.MsgDefs Msg.MsgModel Flt.FltModel.
Import ListNotations.
Local Open Scope N_scope.

Lemma even_mod2 c : (c mod 2 =? 0) = N.even c.
Proof.
  destruct (N.even c) eqn:He.
  - apply N.even_spec in He. destruct He as [q Hq]. subst c.
    rewrite N.mul_comm, N.mod_mul by lia. reflexivity.
  - assert (Ho : N.odd c = true) by (rewrite <- N.negb_even, He; reflexivity).
    apply N.odd_spec in Ho. destruct Ho as [q Hq]. subst c.
    replace (2 * q + 1) with (1 + q * 2) by lia. rewrite N.mod_add by lia. reflexivity.
Qed.

Section Comb.
  Variable smatch : N -> bytes -> bytes -> bool.
  Variable node : nodeinfo.

  (* number of children that match: the counter of XorQueryFilter::Matches *)
  Definition nmatch (kids : flist) (m : msg) : N := xor_count smatch node kids m.

  Lemma nmatch_nil m : nmatch LNil m = 0.
  Proof. reflexivity. Qed.

  Lemma nmatch_cons k tl m :
    nmatch (LCons k tl) m = (if eval smatch node k m then 1 else 0) + nmatch tl m.
  Proof. reflexivity. Qed.

  Lemma nmatch_le_len kids m : nmatch kids m <= flist_len kids.
  Proof.
    induction kids as [|k tl IH].
    - rewrite nmatch_nil. cbn [flist_len]. lia.
    - rewrite nmatch_cons. cbn [flist_len]. destruct (eval smatch node k m); lia.
  Qed.

  Lemma thr_loop_nil m t c r : thr_loop smatch node LNil m t c r = false.
  Proof. reflexivity. Qed.

  Lemma thr_loop_cons k tl m t c r :
    thr_loop smatch node (LCons k tl) m t c r =
    if r <? 1 + t - c then false
    else if eval smatch node k m
         then (if t <? c + 1 then true else thr_loop smatch node tl m t (c + 1) (r - 1))
         else thr_loop smatch node tl m t c (r - 1).
  Proof. reflexivity. Qed.

  (* the loop of ThresholdMaxAux, entered with matchCount <= threshold and the true number of remaining children,
     answers "threshold < matchCount + number of remaining children that match": neither early exit changes it *)
  Lemma thr_loop_count kids : forall m t c,
    c <= t ->
    thr_loop smatch node kids m t c (flist_len kids) = (t <? c + nmatch kids m).
  Proof.
    induction kids as [|k tl IH]; intros m t c Hc.
    - rewrite thr_loop_nil, nmatch_nil. symmetry. apply N.ltb_ge. lia.
    - rewrite thr_loop_cons, nmatch_cons. cbn [flist_len].
      pose proof (nmatch_le_len tl m) as Hle.
      destruct (N.succ (flist_len tl) <? 1 + t - c) eqn:Hgive.
      + apply N.ltb_lt in Hgive. symmetry. apply N.ltb_ge.
        destruct (eval smatch node k m); lia.
      + apply N.ltb_ge in Hgive.
        replace (N.succ (flist_len tl) - 1) with (flist_len tl) by lia.
        destruct (eval smatch node k m) eqn:Hk.
        * destruct (t <? c + 1) eqn:Hdone.
          -- apply N.ltb_lt in Hdone. symmetry. apply N.ltb_lt. lia.
          -- apply N.ltb_ge in Hdone. rewrite IH by lia. f_equal. lia.
        * rewrite IH by lia. f_equal.
  Qed.

  (* threshold_early_exit_ok + the documented rule: with k children, a MinimumThresholdQueryFilter(n) matches iff
     more than min(n, k-1) children match; with no children it always matches *)
  Theorem eval_min n kids m :
    eval smatch node (FMin n kids) m =
    if flist_len kids =? 0 then true else N.min n (flist_len kids - 1) <? nmatch kids m.
  Proof.
    cbn [eval]. destruct (flist_len kids =? 0); [reflexivity|].
    unfold thr_threshold. rewrite thr_loop_count by lia. reflexivity.
  Qed.

  Theorem eval_max n kids m :
    eval smatch node (FMax n kids) m =
    negb (if flist_len kids =? 0 then true else N.min n (flist_len kids - 1) <? nmatch kids m).
  Proof.
    cbn [eval]. destruct (flist_len kids =? 0); [reflexivity|].
    unfold thr_threshold. rewrite thr_loop_count by lia. reflexivity.
  Qed.

  Theorem eval_xor kids m : eval smatch node (FXor kids) m = N.odd (nmatch kids m).
  Proof.
    cbn [eval]. unfold nmatch. rewrite even_mod2, N.negb_even. reflexivity.
  Qed.

  (* all / some children match *)
  Fixpoint all_match (kids : flist) (m : msg) : bool :=
    match kids with LNil => true | LCons k tl => eval smatch node k m && all_match tl m end.
  Fixpoint some_match (kids : flist) (m : msg) : bool :=
    match kids with LNil => false | LCons k tl => eval smatch node k m || some_match tl m end.

  Lemma all_match_count kids m : all_match kids m = (nmatch kids m =? flist_len kids).
  Proof.
    induction kids as [|k tl IH]; [reflexivity|].
    cbn [all_match flist_len]. rewrite nmatch_cons, IH.
    pose proof (nmatch_le_len tl m).
    destruct (eval smatch node k m); cbn [andb].
    - destruct (nmatch tl m =? flist_len tl) eqn:E; symmetry.
      + apply N.eqb_eq in E. apply N.eqb_eq. lia.
      + apply N.eqb_neq in E. apply N.eqb_neq. lia.
    - symmetry. apply N.eqb_neq. lia.
  Qed.

  Lemma some_match_count kids m : some_match kids m = (0 <? nmatch kids m).
  Proof.
    induction kids as [|k tl IH]; [reflexivity|].
    cbn [some_match]. rewrite nmatch_cons, IH.
    destruct (eval smatch node k m); cbn [orb].
    - symmetry. apply N.ltb_lt. lia.
    - reflexivity.
  Qed.

  (* the convenience classes, for any number of children below 2^32 (a Queue cannot hold more):
     AndQueryFilter matches iff all children match (and always when it has none), OrQueryFilter iff some child
     matches (always when it has none -- as its documentation says), Nand/Nor are their negations *)
  Theorem eval_and kids m :
    flist_len kids <= c_MUSCLE_NO_LIMIT ->
    eval smatch node (FAnd kids) m = all_match kids m.
  Proof.
    intros Hlen. unfold FAnd. rewrite eval_min, all_match_count.
    pose proof (nmatch_le_len kids m).
    destruct (flist_len kids =? 0) eqn:E0.
    - apply N.eqb_eq in E0. symmetry. apply N.eqb_eq. lia.
    - apply N.eqb_neq in E0.
      replace (N.min c_MUSCLE_NO_LIMIT (flist_len kids - 1)) with (flist_len kids - 1) by lia.
      destruct (nmatch kids m =? flist_len kids) eqn:E.
      + apply N.eqb_eq in E. apply N.ltb_lt. lia.
      + apply N.eqb_neq in E. apply N.ltb_ge. lia.
  Qed.

  Theorem eval_or kids m :
    eval smatch node (FOr kids) m = if flist_len kids =? 0 then true else some_match kids m.
  Proof.
    unfold FOr. rewrite eval_min, some_match_count.
    destruct (flist_len kids =? 0); [reflexivity|].
    replace (N.min 0 (flist_len kids - 1)) with 0 by lia. reflexivity.
  Qed.

  Theorem eval_nand kids m :
    flist_len kids <= c_MUSCLE_NO_LIMIT ->
    eval smatch node (FNand kids) m = negb (all_match kids m).
  Proof.
    intros Hlen. pose proof (eval_and kids m Hlen) as H.
    unfold FAnd in H. unfold FNand. rewrite eval_max. rewrite eval_min in H. rewrite H. reflexivity.
  Qed.

  Theorem eval_nor kids m :
    eval smatch node (FNor kids) m = negb (if flist_len kids =? 0 then true else some_match kids m).
  Proof.
    pose proof (eval_or kids m) as H.
    unfold FOr in H. unfold FNor. rewrite eval_max. rewrite eval_min in H. rewrite H. reflexivity.
  Qed.

  (* NOT: a Nor (or Nand) filter with one child *)
  Corollary eval_not k m : eval smatch node (FNor (LCons k LNil)) m = negb (eval smatch node k m).
  Proof. rewrite eval_nor. cbn. rewrite orb_false_r. reflexivity. Qed.
End Comb.
