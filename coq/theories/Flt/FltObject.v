(* Flt/FltObject.v -- a query filter as a REUSED, stateful C++ object (C14).

   Beside the members the archive carries, one class keeps state that evaluation writes: StringQueryFilter (and its
   subclass NodeNameQueryFilter) has `mutable StringMatcher * _matcher`, compiled on the first DoMatch() from the
   operator and pattern the object has AT THAT MOMENT and used by every later DoMatch() whatever _op/_value then
   are; FreeMatcher() discards it (destructor, SetOperator/SetValue when the member changes, SetFromArchive always).
   No other class caches anything: MultiQueryFilter::SetFromArchive clears _children and rebuilds them with the
   factory, MessageQueryFilter resets its child and default Message, RawDataQueryFilter resets both buffers,
   NumericQueryFilter rewrites every member Matches() reads (a stale _default is left behind with _assumeDefault
   false).  Children are held through ConstQueryFilterRef and are created by the factory, so only the object itself
   can be in a "used" state when SetFromArchive is called on it.

   Mirrors:  StringQueryFilter::DoMatch / MatchesString / Matches (with the cache), NodeNameQueryFilter::Matches,
             <Class>::SetFromArchive called on an EXISTING object (QueryFilter::SetFromArchive's AcceptsTypeCode test,
             then the class's own loader = the one the factory would dispatch to), StringQueryFilter::SetOperator /
             SetValue.
   No proofs in this file. *)
From Coq Require Import List NArith ZArith Bool Strings.Byte.
From Muscle Require Import Gen.Consts Msg.MsgDefs Msg.MsgModel Flt.FltModel Flt.FltArchive.
Import ListNotations.
Local Open Scope N_scope.

(* the compiled matcher remembers what it was compiled from: (operator, pattern) *)
Definition mcache := option (N * bytes).

Record sobj := mkSO { so_filter : qfilter; so_cache : mcache }.

Definition fresh (f : qfilter) : sobj := mkSO f None.       (* a newly constructed / factory-made object *)

(* TypeCode() *)
Definition what_of (f : qfilter) : N :=
  match f with
  | FWhat _ _ => c_QUERY_FILTER_TYPE_WHATCODE
  | FExists _ _ _ => c_QUERY_FILTER_TYPE_VALUEEXISTS
  | FNum k _ _ _ _ _ _ _ => nk_what k
  | FStr nn _ _ _ _ _ => str_what nn
  | FRaw _ _ _ _ _ _ => c_QUERY_FILTER_TYPE_RAWDATA
  | FMsg _ _ _ _ => c_QUERY_FILTER_TYPE_MESSAGE
  | FMin _ _ => c_QUERY_FILTER_TYPE_MINMATCH
  | FMax _ _ => c_QUERY_FILTER_TYPE_MAXMATCH
  | FXor _ => c_QUERY_FILTER_TYPE_XOR
  end.

Definition is_pattern_op (op : N) : bool :=
  (op =? c_SQF_OP_SIMPLE_WILDCARD_MATCH) || (op =? c_SQF_OP_SIMPLE_WILDCARD_MATCH_IGNORECASE)
  || (op =? c_SQF_OP_REGULAR_EXPRESSION_MATCH) || (op =? c_SQF_OP_REGULAR_EXPRESSION_MATCH_IGNORECASE).

Section ObjEval.
  Variable smatch : N -> bytes -> bytes -> bool.

  (* MatchesString(s) on the object: the four pattern operators go through DoMatch and its cache *)
  Definition obj_match_string (op : N) (val : bytes) (cache : mcache) (s : bytes) : bool * mcache :=
    if is_pattern_op op then
      let c := match cache with Some c => c | None => (op, val) end in      (* if (_matcher == NULL) _matcher = new StringMatcher(..) *)
      (smatch (fst c) (snd c) s, Some c)                                    (* _matcher->Match(s()) *)
    else (str_op smatch op val s, cache).

  (* Matches(msg, optNode) on the object; returns the decision and the object's state afterwards *)
  Definition obj_eval (node : nodeinfo) (o : sobj) (m : msg) : bool * sobj :=
    match so_filter o with
    | FStr nn name idx op val def =>
        let subject := if nn then match node with Some (_, nm) => Some nm | None => None end
                       else or_else (find_string m name idx) def in
        match subject with
        | None => (false, o)
        | Some s => let r := obj_match_string op val (so_cache o) s in (fst r, mkSO (so_filter o) (snd r))
        end
    | f => (eval smatch node f m, o)
    end.

  (* Matches() on a list of Messages, one after the other, on the same object *)
  Fixpoint obj_eval_all (node : nodeinfo) (o : sobj) (ms : list msg) : list bool * sobj :=
    match ms with
    | [] => ([], o)
    | m :: t => let r := obj_eval node o m in
                let rs := obj_eval_all node (snd r) t in (fst r :: fst rs, snd rs)
    end.
End ObjEval.

(* this->SetFromArchive(archive) on an existing object: QueryFilter::SetFromArchive accepts only the object's own
   type code; the class's loader then rewrites the members (the same loader the factory dispatches to for that code);
   StringQueryFilter::SetFromArchive starts with FreeMatcher() *)
Definition obj_set_from_archive (o : sobj) (a : msg) : res sobj :=
  if msg_what a =? what_of (so_filter o) then bind (from_archive a) (fun f => Ok (mkSO f None))
  else Err.

(* StringQueryFilter::SetOperator(op): `if (op != _op) {_op = op; FreeMatcher();}` ; SetValue likewise *)
Definition obj_set_operator (o : sobj) (op : N) : sobj :=
  match so_filter o with
  | FStr nn name idx op0 val def => if op =? op0 then o else mkSO (FStr nn name idx op val def) None
  | _ => o
  end.
Definition obj_set_value (o : sobj) (v : bytes) : sobj :=
  match so_filter o with
  | FStr nn name idx op val0 def => if bytes_eqb v val0 then o else mkSO (FStr nn name idx op v def) None
  | _ => o
  end.

(* the invariant every public mutator keeps: the cached matcher, if any, was compiled from the current members *)
Definition cache_ok (o : sobj) : Prop :=
  match so_cache o with
  | None => True
  | Some c => match so_filter o with FStr _ _ _ op val _ => c = (op, val) | _ => True end
  end.
