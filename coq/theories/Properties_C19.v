(* C19 -- property theorems only: each is closed by [exact] of a lemma proved elsewhere. *)
From Coq Require Import List Arith.
From Muscle Require Import Conc.TPool Conc.TPoolLemmas.

Theorem C19_tget_tset_same : forall V (k : nat) (v : V) t, tget k (tset k v t) = Some v.
Proof. exact tget_tset_same. Qed.
Print Assumptions C19_tget_tset_same.
