(* C19 -- property theorems only: each is closed by [exact] of a lemma proved elsewhere (Conc/TPoolProofs.v);
   plus non-vacuity examples (concrete runs of the model that satisfy the theorems' premises). *)
From Coq Require Import List Arith Bool.
From Muscle Require Import Conc.TPool Conc.TPoolLemmas Conc.TPoolInv Conc.TPoolStep Conc.TPoolTrace Conc.TPoolProofs Conc.TPoolProgress Conc.TPoolCount.
Import ListNotations.

(* Every Message handed to a handler was accepted before, each at most once and in submission order (the handled
   sequence is a prefix of the accepted sequence); at most the last one is still inside its handler; and until
   Shutdown() has run nothing is lost: accepted = returned-from-handler ++ what the pool still holds, in order. *)
Theorem C19_pool_exactly_once_in_order : forall n ls s tr, run (init n) ls = Some (s, tr) -> forall c,
  (exists rest, entered tr c ++ rest = submitted tr c) /\
  (exists cur, entered tr c = exited tr c ++ cur /\ length cur <= 1) /\
  (s_sd s <> SdDone -> submitted tr c = exited tr c ++ queued s c).
Proof. exact pool_exactly_once_in_order. Qed.
Print Assumptions C19_pool_exactly_once_in_order.

(* One client's handler calls never overlap (in the trace: a call of client c begins only when none is open and the
   call that returns is the open one; in the state: no two pool threads have the same _currentClient); and never more
   than _maxThreadCount threads are active. *)
Theorem C19_pool_client_serial : forall n ls s tr, run (init n) ls = Some (s, tr) ->
  (forall c, serial tr c = true) /\
  (forall t1 t2 h1 h2 c, tget t1 (s_thr s) = Some h1 -> tget t2 (s_thr s) = Some h2 ->
                         th_client h1 = Some c -> th_client h2 = Some c -> t1 = t2) /\
  length (s_active s) <= s_max s.
Proof. exact pool_client_serial. Qed.
Print Assumptions C19_pool_client_serial.

(* No idle thread, and no thread that could still be created, while a registered client that is not being handled has
   queued Messages: then all _maxThreadCount threads are active, each working for another client. *)
Theorem C19_pool_work_conserving : forall n ls s tr, run (init n) ls = Some (s, tr) -> s_shut s = false ->
  forall c, tget c (s_reg s) = Some false -> qof (s_pend s) c ++ qof (s_defer s) c <> [] ->
  s_avail s = [] /\ length (s_active s) = s_max s /\
  forall t, In t (s_active s) -> exists h c', tget t (s_thr s) = Some h /\ th_client h = Some c' /\ c' <> c.
Proof. exact pool_work_conserving. Qed.
Print Assumptions C19_pool_work_conserving.

(* UnregisterClient(): the client sits in _waitingForCompletion exactly while it is blocked and not notified; while so,
   something of it is outstanding (being handled, pending or deferred); once notified (or when it did not have to
   wait) nothing of it is outstanding and, unless Shutdown() did the waking, everything it had accepted was handled;
   SetThreadPool(NULL) returns only then. *)
Theorem C19_unregister_waits : forall n ls s tr, run (init n) ls = Some (s, tr) -> forall c,
  (In c (s_wait s) <-> tget c (s_unreg s) = Some (UWaiting false)) /\
  (tget c (s_unreg s) = Some (UWaiting false) -> outstanding s c = true) /\
  (forall u, tget c (s_unreg s) = Some u -> u <> UWaiting false ->
             outstanding s c = false /\ (s_sd s <> SdDone -> exited tr c = submitted tr c /\ worker s c = None)) /\
  (forall s' ev, step s (LUnregEnd c) = Some (s', ev) -> s_sd s <> SdDone -> exited tr c = submitted tr c).
Proof. exact unregister_waits. Qed.
Print Assumptions C19_unregister_waits.

(* The pool never blocks outstanding work (safety form of "every accepted Message is eventually handled" and of "the
   wake-up of a blocked UnregisterClient() always comes"): some pool thread can take a step. *)
Theorem C19_pool_no_stuck : forall n ls s tr, run (init n) ls = Some (s, tr) -> s_shut s = false -> 1 <= s_max s ->
  forall c, outstanding s c = true -> thread_can_move s.
Proof. exact pool_no_stuck. Qed.
Print Assumptions C19_pool_no_stuck.

(* Shutdown() cannot deadlock: while it is in progress a transition that lowers [sd_measure] is enabled (its own next
   step, or a step of the pool thread it is joining) and no transition of anybody raises it. *)
Theorem C19_shutdown_no_deadlock : forall n ls s tr, run (init n) ls = Some (s, tr) -> s_sd s <> SdNone -> s_sd s <> SdDone ->
  (exists l s' ev, step s l = Some (s', ev) /\ sd_measure s' < sd_measure s) /\
  (forall l s' ev, step s l = Some (s', ev) -> sd_measure s' <= sd_measure s).
Proof. exact shutdown_no_deadlock. Qed.
Print Assumptions C19_shutdown_no_deadlock.

(* Different clients proceed in parallel up to the thread limit: until Shutdown() begins the threads working for a
   client are exactly the (distinct) keys of _activeThreads, at most _maxThreadCount of them. *)
Theorem C19_pool_parallel_bound : forall n ls s tr, run (init n) ls = Some (s, tr) -> s_shut s = false ->
  NoDup (s_active s) /\ length (s_active s) <= s_max s /\
  (forall t h c, tget t (s_thr s) = Some h -> th_client h = Some c -> In t (s_active s)) /\
  (forall t, In t (s_active s) -> exists h c, tget t (s_thr s) = Some h /\ th_client h = Some c).
Proof. exact pool_parallel_bound. Qed.
Print Assumptions C19_pool_parallel_bound.

(* The pool never creates more than _maxThreadCount threads: the thread-id counter (= number of ThreadPoolThreads ever
   created) stays <= the constructor argument, every thread object has an id below it, and until Shutdown() begins every
   thread created sits in _availableThreads or _activeThreads. *)
Theorem C19_pool_threads_created_bound : forall n ls s tr, run (init n) ls = Some (s, tr) ->
  s_max s = n /\ s_ctr s <= n /\
  (forall t h, tget t (s_thr s) = Some h -> t < s_ctr s) /\
  (s_shut s = false -> s_ctr s = length (s_avail s) + length (s_active s)).
Proof. exact pool_threads_created_bound. Qed.
Print Assumptions C19_pool_threads_created_bound.

(* Termination argument for "every accepted Message is handled" and "a blocked UnregisterClient() is woken": every step
   of a pool thread (handler entry, handler return, batch-finished) strictly lowers [pool_work]; no transition other
   than an accepted submission raises it (a submission by at most 4); it is positive while anything is outstanding.
   With C19_pool_no_stuck: between two submissions at most [pool_work s] thread steps fit, one is always enabled while
   something is outstanding, and nobody can disable it. *)
Theorem C19_pool_work_step : forall n ls s tr, run (init n) ls = Some (s, tr) -> forall l s' ev, step s l = Some (s', ev) ->
  (is_thread_label l = true -> pool_work s' < pool_work s) /\
  (is_submit l = false -> pool_work s' <= pool_work s) /\
  (is_submit l = true -> pool_work s' <= pool_work s + 4).
Proof. exact pool_work_step. Qed.
Print Assumptions C19_pool_work_step.

Theorem C19_pool_work_pos : forall n ls s tr, run (init n) ls = Some (s, tr) -> s_shut s = false ->
  forall c, outstanding s c = true -> 0 < pool_work s.
Proof. exact pool_work_pos. Qed.
Print Assumptions C19_pool_work_pos.

(* None of the MASSERTs of ThreadPool.cpp can fire. *)
Theorem C19_pool_no_assert : forall n ls s tr, run (init n) ls = Some (s, tr) -> s_bad s = false.
Proof. exact pool_no_assert. Qed.
Print Assumptions C19_pool_no_assert.

(* ---------------------------------------------------------------- non-vacuity *)

(* pool of 2, three clients: two run in parallel on two threads, the third waits -- the premises of
   C19_pool_work_conserving hold (and its conclusion is visible) *)
Example ex_work_conserving_premises :
  exists s tr, run (init 2) [LRegister 0; LRegister 1; LRegister 2; LSubmit 0 1; LSubmit 1 2; LSubmit 2 3; LEnter 0; LEnter 1] = Some (s, tr) /\
               s_shut s = false /\ tget 2 (s_reg s) = Some false /\ qof (s_pend s) 2 ++ qof (s_defer s) 2 = [3] /\
               s_active s = [0; 1] /\ entered tr 0 = [1] /\ entered tr 1 = [2].
Proof. eexists. eexists. split; [vm_compute; reflexivity|]. vm_compute. repeat split. Qed.

(* a submission that races with the running handler is deferred, promoted when the batch finishes, and handled next, in order *)
Example ex_deferred_promoted :
  exists s tr, run (init 1) [LRegister 0; LSubmit 0 1; LEnter 0; LSubmit 0 2; LSubmit 0 3; LExit 0; LFinish 0; LEnter 0; LExit 0; LEnter 0] = Some (s, tr) /\
               submitted tr 0 = [1; 2; 3] /\ exited tr 0 = [1; 2] /\ entered tr 0 = [1; 2; 3] /\ queued s 0 = [3] /\ serial tr 0 = true.
Proof. eexists. eexists. split; [vm_compute; reflexivity|]. vm_compute. repeat split. Qed.

(* a client blocked in UnregisterClient() (premise of the 2nd clause of C19_unregister_waits), with another client's work
   in front of its own (pool of 1): it is woken only after its own Message was handled *)
Example ex_unregister_blocked :
  exists s tr, run (init 1) [LRegister 0; LRegister 1; LSubmit 1 7; LSubmit 0 1; LUnregBegin 0] = Some (s, tr) /\
               tget 0 (s_unreg s) = Some (UWaiting false) /\ In 0 (s_wait s) /\ outstanding s 0 = true /\ s_shut s = false /\ 1 <= s_max s.
Proof. eexists. eexists. split; [vm_compute; reflexivity|]. vm_compute. repeat split; auto. Qed.

Example ex_unregister_returns :
  exists s tr s' ev,
    run (init 1) [LRegister 0; LRegister 1; LSubmit 1 7; LSubmit 0 1; LUnregBegin 0; LEnter 0; LExit 0; LFinish 0;
                  LEnter 0; LExit 0; LFinish 0; LUnregWake 0] = Some (s, tr) /\
    tget 0 (s_unreg s) = Some UFinal /\ step s (LUnregEnd 0) = Some (s', ev) /\ s_sd s <> SdDone /\
    exited tr 0 = [1] /\ submitted tr 0 = [1] /\ ev = [EUnregReturn 0].
Proof. eexists. eexists. eexists. eexists. split; [vm_compute; reflexivity|]. vm_compute. repeat split; discriminate. Qed.

(* Shutdown() in progress with a batch still running (premises of C19_shutdown_no_deadlock) *)
Example ex_shutdown_in_progress :
  exists s tr, run (init 2) [LRegister 0; LSubmit 0 1; LSubmit 0 2; LEnter 0; LShutBegin; LShutSwap; LShutSwap] = Some (s, tr) /\
               s_sd s = SdJoinActive [0] true /\ sd_measure s = 8.
Proof. eexists. eexists. split; [vm_compute; reflexivity|]. vm_compute. repeat split. Qed.

(* ... and it runs to completion, waking a blocked UnregisterClient(); what was still queued is dropped (the boundary of
   "exactly once": C19_pool_exactly_once_in_order's third clause is stated for s_sd <> SdDone) *)
Example ex_shutdown_completes :
  exists s tr, run (init 1) [LRegister 0; LRegister 1; LSubmit 0 1; LSubmit 1 2; LUnregBegin 1; LEnter 0; LShutBegin; LShutSwap; LShutSwap;
                             LExit 0; LFinish 0; LShutJoin; LShutSwap; LShutSwap; LShutEnd; LUnregWake 1; LUnregEnd 1] = Some (s, tr) /\
               s_sd s = SdDone /\ submitted tr 1 = [2] /\ exited tr 1 = [] /\ exited tr 0 = [1].
Proof. eexists. eexists. split; [vm_compute; reflexivity|]. vm_compute. repeat split. Qed.

(* ---------------------------------------------------------------- the boundaries of the guarantee, made explicit *)

(* Why the discipline premise is needed: from a state in which client 0's UnregisterClient() is about to run its final
   section, the pool WOULD accept a submission (the labels forbid it: the owner is inside SetThreadPool()), hand it to a
   thread, and the final section would then take the client away while that thread still holds the Message -- the handler
   would run after SetThreadPool(NULL) has returned. *)
Example ex_discipline_needed :
  exists s tr s1, run (init 1) [LRegister 0; LUnregBegin 0] = Some (s, tr) /\ tget 0 (s_unreg s) = Some UFinal /\
                  step s (LSubmit 0 5) = None /\
                  pool_send s 0 5 = (s1, SendOk) /\ inflight (unreg_end s1 0) 0 = [5] /\ tget 0 (s_reg (unreg_end s1 0)) = None.
Proof. eexists. eexists. eexists. split; [vm_compute; reflexivity|]. vm_compute. repeat split. Qed.

(* A pool whose Shutdown() has run stays dead (_shuttingDown is never reset): it still registers clients and accepts
   Messages (B_NO_ERROR) but never dispatches them, so an UnregisterClient() on it would wait for ever.  The theorems are
   therefore stated for s_shut = false / s_sd <> SdDone; the harness never un-registers from a dead pool. *)
Example ex_dead_pool_accepts_and_strands :
  exists s tr, run (init 1) [LShutBegin; LShutSwap; LShutSwap; LShutEnd; LRegister 1; LSubmit 1 9; LUnregBegin 1] = Some (s, tr) /\
               s_sd s = SdDone /\ submitted tr 1 = [9] /\ tget 1 (s_unreg s) = Some (UWaiting false) /\
               s_thr s = [] /\ s_shut s = true /\ qof (s_pend s) 1 = [9].
Proof. eexists. eexists. split; [vm_compute; reflexivity|]. vm_compute. repeat split. Qed.
