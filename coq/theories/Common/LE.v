(* Common/LE.v -- bytes and little-endian 32-bit words (shared helper; owner: C12).

   A byte is Coq.Init.Byte.byte (256 constructors, so range facts are free).  muscle's
   DefaultEndianConverter is little-endian: a uint32 is written lowest byte first.
   [le32 n] writes n mod 2^32 (the truncation a C++ uint32 assignment performs);
   [rd32 l] reads one word from the front of l and returns the rest.

   This file carries its own (short) proofs because several developments import it. *)
From Coq Require Import List Arith NArith Lia.
From Coq Require Import Strings.Byte.
Import ListNotations.
Local Open Scope N_scope.

Definition two32 : N := 4294967296.
Definition u32 (n : N) : N := n mod two32.

Definition byte_of_N (n : N) : byte :=
  match Byte.of_N (n mod 256) with Some b => b | None => x00 end.

Definition le32 (n : N) : list byte :=
  [byte_of_N n; byte_of_N (n / 256); byte_of_N (n / 256 / 256); byte_of_N (n / 256 / 256 / 256)].

Definition word4 (a0 a1 a2 a3 : N) : N := a0 + 256 * (a1 + 256 * (a2 + 256 * a3)).

Definition rd32 (l : list byte) : option (N * list byte) :=
  match l with
  | b0 :: b1 :: b2 :: b3 :: r =>
      Some (word4 (Byte.to_N b0) (Byte.to_N b1) (Byte.to_N b2) (Byte.to_N b3), r)
  | _ => None
  end.

(* lengths and slices measured in N, as the C++ measures them in uint32 *)
Definition lenN {A} (l : list A) : N := N.of_nat (length l).
Definition takeN {A} (n : N) (l : list A) : list A := firstn (N.to_nat n) l.
Definition dropN {A} (n : N) (l : list A) : list A := skipn (N.to_nat n) l.

(* ------------------------------------------------------------------ facts *)

Lemma to_N_byte_of_N n : Byte.to_N (byte_of_N n) = n mod 256.
Proof.
  unfold byte_of_N.
  destruct (Byte.of_N (n mod 256)) eqn:E.
  - now apply Byte.to_of_N.
  - apply Byte.of_N_None_iff in E.
    pose proof (N.mod_upper_bound n 256 ltac:(discriminate)). lia.
Qed.

Lemma byte_of_N_to_N b : byte_of_N (Byte.to_N b) = b.
Proof.
  unfold byte_of_N. pose proof (Byte.to_N_bounded b) as Hb.
  rewrite N.mod_small by lia. now rewrite Byte.of_to_N.
Qed.

Lemma length_le32 n : length (le32 n) = 4%nat.
Proof. reflexivity. Qed.

Lemma lenN_le32 n : lenN (le32 n) = 4.
Proof. reflexivity. Qed.

Lemma u32_lt n : u32 n < two32.
Proof. unfold u32. apply N.mod_upper_bound. discriminate. Qed.

Lemma u32_small n : n < two32 -> u32 n = n.
Proof. unfold u32. intros. now apply N.mod_small. Qed.

Lemma le_word_decompose n :
  n mod 256 + 256 * ((n / 256) mod 256 + 256 * ((n / 256 / 256) mod 256 + 256 * ((n / 256 / 256 / 256) mod 256)))
  = n mod two32.
Proof.
  set (q1 := n / 256). set (q2 := q1 / 256). set (q3 := q2 / 256).
  pose proof (N.div_mod n 256 ltac:(discriminate)) as E0. fold q1 in E0.
  pose proof (N.div_mod q1 256 ltac:(discriminate)) as E1. fold q2 in E1.
  pose proof (N.div_mod q2 256 ltac:(discriminate)) as E2. fold q3 in E2.
  pose proof (N.div_mod q3 256 ltac:(discriminate)) as E3.
  pose proof (N.mod_upper_bound n 256 ltac:(discriminate)) as B0.
  pose proof (N.mod_upper_bound q1 256 ltac:(discriminate)) as B1.
  pose proof (N.mod_upper_bound q2 256 ltac:(discriminate)) as B2.
  pose proof (N.mod_upper_bound q3 256 ltac:(discriminate)) as B3.
  set (r0 := n mod 256) in *. set (r1 := q1 mod 256) in *.
  set (r2 := q2 mod 256) in *. set (r3 := q3 mod 256) in *.
  set (q4 := q3 / 256) in *.
  clearbody r0 r1 r2 r3 q4 q3 q2 q1.
  apply N.mod_unique with (q := q4); unfold two32; lia.
Qed.

Lemma rd32_le32 n r : rd32 (le32 n ++ r) = Some (u32 n, r).
Proof.
  unfold le32, rd32. cbn [app]. rewrite !to_N_byte_of_N. unfold word4.
  now rewrite le_word_decompose.
Qed.

Lemma rd32_Some l n r : rd32 l = Some (n, r) -> n < two32 /\ l = le32 n ++ r.
Proof.
  destruct l as [|b0 [|b1 [|b2 [|b3 r']]]]; cbn [rd32]; try discriminate.
  intros E. injection E as En Er. subst r'. unfold word4 in En.
  pose proof (Byte.to_N_bounded b0) as H0. pose proof (Byte.to_N_bounded b1) as H1.
  pose proof (Byte.to_N_bounded b2) as H2. pose proof (Byte.to_N_bounded b3) as H3.
  remember (Byte.to_N b0) as a0 eqn:Ea0. remember (Byte.to_N b1) as a1 eqn:Ea1.
  remember (Byte.to_N b2) as a2 eqn:Ea2. remember (Byte.to_N b3) as a3 eqn:Ea3.
  split; [unfold two32; lia|].
  assert (D1 : n / 256 = a1 + 256 * (a2 + 256 * a3)).
  { symmetry. apply N.div_unique with (r := a0); lia. }
  assert (M0 : n mod 256 = a0).
  { symmetry. apply N.mod_unique with (q := a1 + 256 * (a2 + 256 * a3)); lia. }
  assert (D2 : n / 256 / 256 = a2 + 256 * a3).
  { rewrite D1. symmetry. apply N.div_unique with (r := a1); lia. }
  assert (M1 : (n / 256) mod 256 = a1).
  { rewrite D1. symmetry. apply N.mod_unique with (q := a2 + 256 * a3); lia. }
  assert (D3 : n / 256 / 256 / 256 = a3).
  { rewrite D2. symmetry. apply N.div_unique with (r := a2); lia. }
  assert (M2 : (n / 256 / 256) mod 256 = a2).
  { rewrite D2. symmetry. apply N.mod_unique with (q := a3); lia. }
  assert (M3 : (n / 256 / 256 / 256) mod 256 = a3).
  { rewrite D3. apply N.mod_small. lia. }
  unfold le32, byte_of_N. rewrite M0, M1, M2, M3.
  subst a0 a1 a2 a3. rewrite !Byte.of_to_N. reflexivity.
Qed.

Lemma rd32_None l : rd32 l = None <-> (length l < 4)%nat.
Proof.
  destruct l as [|b0 [|b1 [|b2 [|b3 r']]]]; cbn [rd32 length]; split; intros H; try discriminate; try lia; reflexivity.
Qed.

(* slices *)
Lemma lenN_app {A} (a b : list A) : lenN (a ++ b) = lenN a + lenN b.
Proof. unfold lenN. rewrite app_length. lia. Qed.

Lemma lenN_nil {A} : lenN (@nil A) = 0.
Proof. reflexivity. Qed.

Lemma lenN_cons {A} (x : A) l : lenN (x :: l) = 1 + lenN l.
Proof. unfold lenN. cbn [length]. lia. Qed.

Lemma lenN_takeN {A} n (l : list A) : lenN (takeN n l) = N.min n (lenN l).
Proof. unfold lenN, takeN. rewrite firstn_length. lia. Qed.

Lemma lenN_dropN {A} n (l : list A) : lenN (dropN n l) = lenN l - n.
Proof. unfold lenN, dropN. rewrite skipn_length. lia. Qed.

Lemma takeN_dropN {A} n (l : list A) : takeN n l ++ dropN n l = l.
Proof. apply firstn_skipn. Qed.

Lemma takeN_app_exact {A} (a b : list A) : takeN (lenN a) (a ++ b) = a.
Proof.
  unfold takeN, lenN. rewrite Nat2N.id.
  rewrite firstn_app, Nat.sub_diag, firstn_all. cbn. now rewrite app_nil_r.
Qed.

Lemma dropN_app_exact {A} (a b : list A) : dropN (lenN a) (a ++ b) = b.
Proof.
  unfold dropN, lenN. rewrite Nat2N.id.
  rewrite skipn_app, Nat.sub_diag, skipn_all. reflexivity.
Qed.

Lemma takeN_all {A} n (l : list A) : lenN l <= n -> takeN n l = l.
Proof. unfold takeN, lenN. intros. apply firstn_all2. lia. Qed.

Lemma takeN_0 {A} (l : list A) : takeN 0 l = [].
Proof. reflexivity. Qed.

Lemma dropN_0 {A} (l : list A) : dropN 0 l = l.
Proof. reflexivity. Qed.

Lemma lenN_0_nil {A} (l : list A) : lenN l = 0 -> l = [].
Proof. destruct l; [reflexivity|]. unfold lenN. cbn [length]. lia. Qed.
