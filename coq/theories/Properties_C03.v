(* C03 -- property theorems only: each is closed by [exact] of a lemma proved elsewhere. *)
From Coq Require Import List NArith.
From Muscle Require Import Gw.GwBase Gw.FrameModel Gw.FrameProofs.

Theorem C03_header_size : f_hs = 8%N.
Proof. exact f_hs_is_8. Qed.
Print Assumptions C03_header_size.
