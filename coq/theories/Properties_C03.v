(* C03 -- A gateway delivers exactly the sent Message sequence for every byte segmentation.
   Property theorems only: each is closed by [exact] of a lemma proved under Gw/.

   Reading guide.  A run of a gateway pair is [sys_run queue do_output do_input sys0 evs] for an
   ARBITRARY event list evs: EQueue m (AddOutgoingMessage), EOut maxBytes script (one DoOutput
   call; the k-th Write it makes accepts min(requested, script[k]) bytes, 0 once the script is
   exhausted), EIn maxBytes script (one DoInput call; the k-th Read returns min(requested,
   script[k], bytes in flight)).  Every theorem quantifies over all evs, i.e. over all Message
   sequences, all segmentations (zero-byte and one-byte results included), all maxBytes argument
   sequences and all interleavings of output and input calls.
     *_prefix_safety    what has been delivered is always a prefix of what was queued;
     *_completeness     once the sender has nothing left to write and nothing is in flight,
                        delivered = queued (nothing lost, duplicated, merged, split, altered);
     *_fair_completion  any continuation made of enough "rounds" -- each round an arbitrary list
                        of calls containing one DoOutput and one DoInput call that are allowed
                        to move at least one byte -- reaches that state. *)
From Coq Require Import List NArith ZArith.
From Muscle Require Import Gen.Consts Gw.GwBase Gw.TransportProofs
  Gw.FrameModel Gw.FrameProofs Gw.FrameDefault Gw.ZlibModel Gw.ZlibProofs Gw.TmplModel Gw.TmplProofs Gw.WsModel Gw.WsProofs Gw.WsDefault
  Gw.TextModel Gw.TextProofs Gw.RawModel Gw.RawProofs Gw.SlipModel Gw.SlipProofs Gw.MiniModel Gw.MiniProofs Gw.PumpProofs.
Import ListNotations.
Local Open Scope N_scope.

(* ====================================================================== standard binary gateway,
   MUSCLE_MESSAGE_ENCODING_DEFAULT; a Message = its flattened bytes; delivered list compared with
   the queued list AS A LIST OF MESSAGES *)
Theorem C03_binary_prefix_safety : forall max_in (evs : list (event bytes)),
  Forall (ev_wf (d_wfb max_in)) evs ->
  exists tl, ev_msgs evs = s_dlv (sys_run fs_queue d_do_output (d_do_input max_in) d_sys0 evs) ++ tl.
Proof. exact d_prefix_safety. Qed.
Print Assumptions C03_binary_prefix_safety.

Theorem C03_binary_completeness : forall max_in (evs : list (event bytes)),
  Forall (ev_wf (d_wfb max_in)) evs ->
  d_rem (s_snd (sys_run fs_queue d_do_output (d_do_input max_in) d_sys0 evs)) = [] ->
  s_pipe (sys_run fs_queue d_do_output (d_do_input max_in) d_sys0 evs) = [] ->
  s_dlv (sys_run fs_queue d_do_output (d_do_input max_in) d_sys0 evs) = ev_msgs evs.
Proof. exact d_completeness. Qed.
Print Assumptions C03_binary_completeness.

Theorem C03_binary_fair_completion : forall max_in (evs : list (event bytes)) (rs : list (list (event bytes))),
  Forall (ev_wf (d_wfb max_in)) evs -> Forall round rs ->
  (measure d_rem (fun _ => 0%nat) (sys_run fs_queue d_do_output (d_do_input max_in) d_sys0 evs) <= length rs)%nat ->
  let st := sys_run fs_queue d_do_output (d_do_input max_in) d_sys0 (evs ++ concat rs) in
  quiet d_rem st /\ s_dlv st = ev_msgs evs.
Proof. exact d_fair_completion. Qed.
Print Assumptions C03_binary_fair_completion.

Theorem C03_binary_receiver_idle : forall max_in (evs : list (event bytes)),
  Forall (ev_wf (d_wfb max_in)) evs ->
  d_rem (s_snd (sys_run fs_queue d_do_output (d_do_input max_in) d_sys0 evs)) = [] ->
  s_pipe (sys_run fs_queue d_do_output (d_do_input max_in) d_sys0 evs) = [] ->
  exists cr', fr_norm unit (s_rcv (sys_run fs_queue d_do_output (d_do_input max_in) d_sys0 evs)) = idle unit cr'.
Proof. exact d_receiver_idle. Qed.
Print Assumptions C03_binary_receiver_idle.

(* the split lemma: splitting a read changes nothing observable *)
Theorem C03_binary_feed_split : forall max_in st a b,
  snd (d_feed max_in st (a ++ b)) =
  snd (d_feed max_in st a) ++ snd (d_feed max_in (fst (d_feed max_in st a)) b).
Proof. exact d_feed_split. Qed.
Print Assumptions C03_binary_feed_split.

(* the same three theorems for ANY codec pair satisfying the premise codec_sync (this is what the
   zlib encodings instantiate: the premise then speaks about deflate/inflate) *)
Theorem C03_binary_codec_prefix_safety :
  forall (Msg CS CR : Type) (flat : CS -> Msg -> CS * bytes) (unflat : CR -> bytes -> CR * option Msg)
         (body_size : bytes -> option N) (max_in : N) (cs0 : CS) (cr0 : CR),
  (forall c m, f_hs <= blen (snd (flat c m))) ->
  forall (sync : CS -> CR -> Prop) (wfb : Msg -> Prop),
  sync cs0 cr0 ->
  (forall cs cr m, sync cs cr -> wfb m ->
     exists hdr payload cr',
       snd (flat cs m) = hdr ++ payload /\ blen hdr = f_hs /\
       body_size hdr = Some (blen payload) /\
       blen payload <= max_in /\ f_hs + blen payload < two32 /\
       unflat cr (snd (flat cs m)) = (cr', Some m) /\ sync (fst (flat cs m)) cr') ->
  forall evs : list (event Msg),
  Forall (ev_wf wfb) evs ->
  exists tl, ev_msgs evs =
             s_dlv (sys_run fs_queue (f_do_output Msg CS flat) (f_do_input Msg CR unflat body_size max_in) (f_sys0 Msg CS CR cs0 cr0) evs) ++ tl.
Proof. exact frame_prefix_safety. Qed.
Print Assumptions C03_binary_codec_prefix_safety.

(* ====================================================================== standard binary gateway, the
   nine zlib encodings.  PREMISE (zlib is external code): for deflate/inflate streams that are in step
   (zsync), inflating what deflate(Z_SYNC_FLUSH) produced gives the input back and leaves the streams
   in step; the streams start in step.  Everything around zlib is modelled: the 32-byte threshold
   below which a Message goes out uncompressed with a DEFAULT header and the codec untouched, the
   ZLibCodec header (magic, raw length), codec creation per level, dependent / independent mode. *)
Theorem C03_zlib_prefix_safety :
  forall (DS IS : Type) (ds_init : N -> DS) (is_init : IS)
         (deflate : DS -> bool -> bytes -> DS * bytes)
         (inflate : IS -> bool -> bytes -> N -> IS * option bytes)
         (oenc : N) (indep : bool) (max_in : N) (zsync : DS -> IS -> Prop),
  (forall level, zsync (ds_init level) is_init) ->
  (forall ds is b, zsync ds is -> b <> [] ->
     exists is', inflate is indep (snd (deflate ds indep b)) (blen b) = (is', Some b) /\
                 zsync (fst (deflate ds indep b)) is') ->
  forall evs : list (event bytes),
  Forall (ev_wf (z_wfb DS deflate indep max_in)) evs ->
  exists tl, ev_msgs evs =
             s_dlv (sys_run fs_queue (z_do_output DS ds_init deflate oenc indep)
                      (z_do_input IS is_init inflate max_in) (z_sys0 DS IS) evs) ++ tl.
Proof. exact z_prefix_safety. Qed.
Print Assumptions C03_zlib_prefix_safety.

Theorem C03_zlib_completeness :
  forall (DS IS : Type) (ds_init : N -> DS) (is_init : IS)
         (deflate : DS -> bool -> bytes -> DS * bytes)
         (inflate : IS -> bool -> bytes -> N -> IS * option bytes)
         (oenc : N) (indep : bool) (max_in : N) (zsync : DS -> IS -> Prop),
  (forall level, zsync (ds_init level) is_init) ->
  (forall ds is b, zsync ds is -> b <> [] ->
     exists is', inflate is indep (snd (deflate ds indep b)) (blen b) = (is', Some b) /\
                 zsync (fst (deflate ds indep b)) is') ->
  forall evs : list (event bytes),
  Forall (ev_wf (z_wfb DS deflate indep max_in)) evs ->
  z_rem DS ds_init deflate oenc indep
    (s_snd (sys_run fs_queue (z_do_output DS ds_init deflate oenc indep)
              (z_do_input IS is_init inflate max_in) (z_sys0 DS IS) evs)) = [] ->
  s_pipe (sys_run fs_queue (z_do_output DS ds_init deflate oenc indep)
            (z_do_input IS is_init inflate max_in) (z_sys0 DS IS) evs) = [] ->
  s_dlv (sys_run fs_queue (z_do_output DS ds_init deflate oenc indep)
           (z_do_input IS is_init inflate max_in) (z_sys0 DS IS) evs) = ev_msgs evs.
Proof. exact z_completeness. Qed.
Print Assumptions C03_zlib_completeness.

Theorem C03_zlib_fair_completion :
  forall (DS IS : Type) (ds_init : N -> DS) (is_init : IS)
         (deflate : DS -> bool -> bytes -> DS * bytes)
         (inflate : IS -> bool -> bytes -> N -> IS * option bytes)
         (oenc : N) (indep : bool) (max_in : N) (zsync : DS -> IS -> Prop),
  (forall level, zsync (ds_init level) is_init) ->
  (forall ds is b, zsync ds is -> b <> [] ->
     exists is', inflate is indep (snd (deflate ds indep b)) (blen b) = (is', Some b) /\
                 zsync (fst (deflate ds indep b)) is') ->
  forall (evs : list (event bytes)) (rs : list (list (event bytes))),
  Forall (ev_wf (z_wfb DS deflate indep max_in)) evs -> Forall round rs ->
  (measure (z_rem DS ds_init deflate oenc indep) (fun _ => 0%nat)
     (sys_run fs_queue (z_do_output DS ds_init deflate oenc indep)
        (z_do_input IS is_init inflate max_in) (z_sys0 DS IS) evs) <= length rs)%nat ->
  let st := sys_run fs_queue (z_do_output DS ds_init deflate oenc indep)
              (z_do_input IS is_init inflate max_in) (z_sys0 DS IS) (evs ++ concat rs) in
  quiet (z_rem DS ds_init deflate oenc indep) st /\ s_dlv st = ev_msgs evs.
Proof. exact z_fair_completion. Qed.
Print Assumptions C03_zlib_fair_completion.

(* ====================================================================== templating gateway (DEFAULT
   encoding).  PREMISES (Message-level functions are external here): what-only Messages are determined
   by their what-code; Flatten/Unflatten round-trips; TemplatedFlatten/TemplatedUnflatten round-trips
   against any template that DESCRIBES the Message (same fields, types, item counts); the hash of a
   template is the hash of its Message; bodies stay below 2^31 bytes (the top bit of both header words
   is a flag).  NO injectivity of TemplateHashCode64 is assumed: the model follows the repaired gateway,
   which checks the cached template against the Message (finding: C03_templating_collision_refuted
   shows what trusting the hash does).  Modelled and proved: the wire forms,
   the flag bits, and that the two LRU caches stay EQUAL (entries, order, byte tally) so that every
   payload-only Message finds its template on the other side. *)
Theorem C03_templating_prefix_safety :
  forall (MSG TPL : Type) (m_trivial : MSG -> bool) (m_what : MSG -> N) (m_of_what : N -> MSG)
         (m_tid : MSG -> N) (m_tmpl : MSG -> TPL) (t_tid t_size : TPL -> N)
         (m_flat : MSG -> bytes) (m_unflat : bytes -> option MSG)
         (m_tflat : TPL -> MSG -> bytes) (m_tunflat : TPL -> bytes -> option MSG)
         (t_describes : TPL -> MSG -> bool) (max_cache max_in : N) (wfm : MSG -> Prop),
  (forall m, wfm m -> m_trivial m = true -> m = m_of_what (m_what m) /\ m_what m < two32) ->
  (forall m, wfm m -> m_trivial m = false -> m_unflat (m_flat m) = Some m /\ blen (m_flat m) <> 4) ->
  (forall m t, wfm m -> m_trivial m = false -> t_describes t m = true -> m_tunflat t (m_tflat t m) = Some m) ->
  (forall m, wfm m -> t_tid (m_tmpl m) = m_tid m /\ m_tid m < two64) ->
  (forall m t, wfm m -> blen (m_flat m) < flag_bit /\ blen (m_flat m) <= max_in /\
                        8 + blen (m_tflat t m) < flag_bit /\ 8 + blen (m_tflat t m) <= max_in) ->
  4 <= max_in ->
  forall evs : list (event MSG),
  Forall (ev_wf wfm) evs ->
  exists tl, ev_msgs evs = s_dlv (sys_run fs_queue (tm_do_output MSG TPL m_trivial m_what m_of_what m_tid m_tmpl t_size m_flat m_tflat t_describes max_cache)
                      (tm_do_input MSG TPL m_of_what m_tmpl t_tid t_size m_unflat m_tunflat max_cache max_in) (tm_sys0 MSG TPL) evs) ++ tl.
Proof. exact tm_prefix_safety. Qed.
Print Assumptions C03_templating_prefix_safety.

Theorem C03_templating_completeness :
  forall (MSG TPL : Type) (m_trivial : MSG -> bool) (m_what : MSG -> N) (m_of_what : N -> MSG)
         (m_tid : MSG -> N) (m_tmpl : MSG -> TPL) (t_tid t_size : TPL -> N)
         (m_flat : MSG -> bytes) (m_unflat : bytes -> option MSG)
         (m_tflat : TPL -> MSG -> bytes) (m_tunflat : TPL -> bytes -> option MSG)
         (t_describes : TPL -> MSG -> bool) (max_cache max_in : N) (wfm : MSG -> Prop),
  (forall m, wfm m -> m_trivial m = true -> m = m_of_what (m_what m) /\ m_what m < two32) ->
  (forall m, wfm m -> m_trivial m = false -> m_unflat (m_flat m) = Some m /\ blen (m_flat m) <> 4) ->
  (forall m t, wfm m -> m_trivial m = false -> t_describes t m = true -> m_tunflat t (m_tflat t m) = Some m) ->
  (forall m, wfm m -> t_tid (m_tmpl m) = m_tid m /\ m_tid m < two64) ->
  (forall m t, wfm m -> blen (m_flat m) < flag_bit /\ blen (m_flat m) <= max_in /\
                        8 + blen (m_tflat t m) < flag_bit /\ 8 + blen (m_tflat t m) <= max_in) ->
  4 <= max_in ->
  forall evs : list (event MSG),
  Forall (ev_wf wfm) evs ->
  tm_rem MSG TPL m_trivial m_what m_of_what m_tid m_tmpl t_size m_flat m_tflat t_describes max_cache (s_snd (sys_run fs_queue (tm_do_output MSG TPL m_trivial m_what m_of_what m_tid m_tmpl t_size m_flat m_tflat t_describes max_cache)
                      (tm_do_input MSG TPL m_of_what m_tmpl t_tid t_size m_unflat m_tunflat max_cache max_in) (tm_sys0 MSG TPL) evs)) = [] ->
  s_pipe (sys_run fs_queue (tm_do_output MSG TPL m_trivial m_what m_of_what m_tid m_tmpl t_size m_flat m_tflat t_describes max_cache)
                      (tm_do_input MSG TPL m_of_what m_tmpl t_tid t_size m_unflat m_tunflat max_cache max_in) (tm_sys0 MSG TPL) evs) = [] ->
  s_dlv (sys_run fs_queue (tm_do_output MSG TPL m_trivial m_what m_of_what m_tid m_tmpl t_size m_flat m_tflat t_describes max_cache)
                      (tm_do_input MSG TPL m_of_what m_tmpl t_tid t_size m_unflat m_tunflat max_cache max_in) (tm_sys0 MSG TPL) evs) = ev_msgs evs.
Proof. exact tm_completeness. Qed.
Print Assumptions C03_templating_completeness.

Theorem C03_templating_fair_completion :
  forall (MSG TPL : Type) (m_trivial : MSG -> bool) (m_what : MSG -> N) (m_of_what : N -> MSG)
         (m_tid : MSG -> N) (m_tmpl : MSG -> TPL) (t_tid t_size : TPL -> N)
         (m_flat : MSG -> bytes) (m_unflat : bytes -> option MSG)
         (m_tflat : TPL -> MSG -> bytes) (m_tunflat : TPL -> bytes -> option MSG)
         (t_describes : TPL -> MSG -> bool) (max_cache max_in : N) (wfm : MSG -> Prop),
  (forall m, wfm m -> m_trivial m = true -> m = m_of_what (m_what m) /\ m_what m < two32) ->
  (forall m, wfm m -> m_trivial m = false -> m_unflat (m_flat m) = Some m /\ blen (m_flat m) <> 4) ->
  (forall m t, wfm m -> m_trivial m = false -> t_describes t m = true -> m_tunflat t (m_tflat t m) = Some m) ->
  (forall m, wfm m -> t_tid (m_tmpl m) = m_tid m /\ m_tid m < two64) ->
  (forall m t, wfm m -> blen (m_flat m) < flag_bit /\ blen (m_flat m) <= max_in /\
                        8 + blen (m_tflat t m) < flag_bit /\ 8 + blen (m_tflat t m) <= max_in) ->
  4 <= max_in ->
  forall (evs : list (event MSG)) (rs : list (list (event MSG))),
  Forall (ev_wf wfm) evs -> Forall round rs ->
  (measure (tm_rem MSG TPL m_trivial m_what m_of_what m_tid m_tmpl t_size m_flat m_tflat t_describes max_cache) (fun _ => 0%nat) (sys_run fs_queue (tm_do_output MSG TPL m_trivial m_what m_of_what m_tid m_tmpl t_size m_flat m_tflat t_describes max_cache)
                      (tm_do_input MSG TPL m_of_what m_tmpl t_tid t_size m_unflat m_tunflat max_cache max_in) (tm_sys0 MSG TPL) evs) <= length rs)%nat ->
  let st := (sys_run fs_queue (tm_do_output MSG TPL m_trivial m_what m_of_what m_tid m_tmpl t_size m_flat m_tflat t_describes max_cache)
                      (tm_do_input MSG TPL m_of_what m_tmpl t_tid t_size m_unflat m_tunflat max_cache max_in) (tm_sys0 MSG TPL) (evs ++ concat rs)) in
  quiet (tm_rem MSG TPL m_trivial m_what m_of_what m_tid m_tmpl t_size m_flat m_tflat t_describes max_cache) st /\ s_dlv st = ev_msgs evs.
Proof. exact tm_fair_completion. Qed.
Print Assumptions C03_templating_fair_completion.

Theorem C03_templating_collision_refuted :
  ev_msgs ToyCollide.evs = [ToyCollide.A; ToyCollide.B] /\
  s_dlv (ToyCollide.run (fun _ _ => true)) = [ToyCollide.A; (1, [5; 0; 0])] /\
  s_dlv (ToyCollide.run Toy.t_describes) = [ToyCollide.A; ToyCollide.B].
Proof. exact ToyCollide.tm_collision_refuted. Qed.
Print Assumptions C03_templating_collision_refuted.

(* ====================================================================== WebSocket gateway pair after the
   handshake, a MessageIOGateway (DEFAULT encoding) as slave on both ends; [client] = true: the sender is
   the client (frames masked with the keys of [keys0], any four-byte keys), the receiver the server;
   false: server -> client.  Domain: d_wfb bodies whose slave frame fits the 10 MB frame limit.
   Modelled: CreateReplyFrame (7/16/64-bit lengths, mask), the header/payload receive loop, un-masking,
   ExecuteReceivedFrame for binary/close/continuation/pong; NOT modelled: the HTTP handshake, TEXT and
   PING frames.  The model follows the repaired key byte order (C03_websocket_mask_order_refuted). *)
Theorem C03_websocket_prefix_safety : forall (client : bool) (max_in : N) (keys0 : list bytes),
  Forall (fun k => length k = 4%nat) keys0 ->
  forall evs : list (event bytes),
  Forall (ev_wf (wsd_wfm max_in)) evs ->
  exists tl, ev_msgs evs = s_dlv (sys_run ws_queue (ws_do_output bytes wsd_sflat client)
                      (wr_do_input bytes (frecv unit) (wsd_sfeed max_in) (negb client)) (wsd_sys0 keys0) evs) ++ tl.
Proof. exact wsd_prefix_safety. Qed.
Print Assumptions C03_websocket_prefix_safety.

Theorem C03_websocket_completeness : forall (client : bool) (max_in : N) (keys0 : list bytes),
  Forall (fun k => length k = 4%nat) keys0 ->
  forall evs : list (event bytes),
  Forall (ev_wf (wsd_wfm max_in)) evs ->
  wsd_rem client (s_snd (sys_run ws_queue (ws_do_output bytes wsd_sflat client)
                      (wr_do_input bytes (frecv unit) (wsd_sfeed max_in) (negb client)) (wsd_sys0 keys0) evs)) = [] ->
  s_pipe (sys_run ws_queue (ws_do_output bytes wsd_sflat client)
                      (wr_do_input bytes (frecv unit) (wsd_sfeed max_in) (negb client)) (wsd_sys0 keys0) evs) = [] ->
  s_dlv (sys_run ws_queue (ws_do_output bytes wsd_sflat client)
                      (wr_do_input bytes (frecv unit) (wsd_sfeed max_in) (negb client)) (wsd_sys0 keys0) evs) = ev_msgs evs.
Proof. exact wsd_completeness. Qed.
Print Assumptions C03_websocket_completeness.

Theorem C03_websocket_fair_completion : forall (client : bool) (max_in : N) (keys0 : list bytes),
  Forall (fun k => length k = 4%nat) keys0 ->
  forall (evs : list (event bytes)) (rs : list (list (event bytes))),
  Forall (ev_wf (wsd_wfm max_in)) evs -> Forall round rs ->
  (measure (wsd_rem client) (fun _ => 0%nat) (sys_run ws_queue (ws_do_output bytes wsd_sflat client)
                      (wr_do_input bytes (frecv unit) (wsd_sfeed max_in) (negb client)) (wsd_sys0 keys0) evs) <= length rs)%nat ->
  let st := (sys_run ws_queue (ws_do_output bytes wsd_sflat client)
                      (wr_do_input bytes (frecv unit) (wsd_sfeed max_in) (negb client)) (wsd_sys0 keys0) (evs ++ concat rs)) in
  quiet (wsd_rem client) st /\ s_dlv st = ev_msgs evs.
Proof. exact wsd_fair_completion. Qed.
Print Assumptions C03_websocket_fair_completion.

(* any frame the sender builds -- any payload up to 10 MB (7-, 16- and 64-bit length forms), masked with any
   four-byte key or unmasked -- is parsed back to its payload by the peer of the opposite role, whatever the
   slave gateway is; and the split lemma for the frame parser *)
Theorem C03_websocket_frame_roundtrip :
  forall (Msg SR : Type) (sfeed : SR -> bytes -> SR * list Msg) (client : bool) (key data : bytes)
         (sl sl' : SR) (outs : list Msg) (m0 : bytes),
  data <> [] -> blen data <= ws_max_payload -> (client = true -> length key = 4%nat) ->
  sfeed sl data = (sl', outs) ->
  wr_feed Msg SR sfeed (negb client) (ws_idle SR m0 sl) (ws_frame client key WS_BINARY data) =
  (ws_idle SR (if client then key else [0; 0; 0; 0]) sl', outs).
Proof. exact ws_parse_frame. Qed.
Print Assumptions C03_websocket_frame_roundtrip.

Theorem C03_websocket_feed_split :
  forall (Msg SR : Type) (sfeed : SR -> bytes -> SR * list Msg) (client : bool) (a : bytes) (st : wrecv SR) (b : bytes),
  wr_feed Msg SR sfeed client st (a ++ b) =
  let '(st1, o1) := wr_feed Msg SR sfeed client st a in
  let '(st2, o2) := wr_feed Msg SR sfeed client st1 b in (st2, o1 ++ o2).
Proof. exact wr_feed_app. Qed.
Print Assumptions C03_websocket_feed_split.

(* the finding: key written byte-reversed (old client behaviour) => the server un-masks to garbage *)
Theorem C03_websocket_mask_order_refuted :
  let key := [1; 2; 3; 4] in let data := [10; 20; 30; 40; 50] in
  let echo (s : unit) (d : bytes) := (s, [d]) in
  snd (wr_feed bytes unit echo false (wr_init tt) (ws_frame_old key WS_BINARY data)) = [[15; 21; 31; 45; 55]] /\
  snd (wr_feed bytes unit echo false (wr_init tt) (ws_frame true key WS_BINARY data)) = [data].
Proof. exact ws_mask_order_refuted. Qed.
Print Assumptions C03_websocket_mask_order_refuted.

(* ====================================================================== plain text gateway;
   Messages = lists of lines; lines free of CR, LF, NUL (empty lines allowed); terminator CRLF,
   CR or LF; compared: the list of all lines, in order *)
Theorem C03_text_prefix_safety : forall eol, eol_ok eol -> forall evs : list (event (list bytes)),
  Forall (ev_wf text_wfm) evs ->
  exists tl, concat (ev_msgs evs) =
             concat (s_dlv (sys_run ts_queue (t_do_output eol) t_do_input text_sys0 evs)) ++ tl.
Proof. exact text_prefix_safety. Qed.
Print Assumptions C03_text_prefix_safety.

Theorem C03_text_completeness : forall eol, eol_ok eol -> forall evs : list (event (list bytes)),
  Forall (ev_wf text_wfm) evs ->
  ts_rem eol (s_snd (sys_run ts_queue (t_do_output eol) t_do_input text_sys0 evs)) = [] ->
  s_pipe (sys_run ts_queue (t_do_output eol) t_do_input text_sys0 evs) = [] ->
  concat (s_dlv (sys_run ts_queue (t_do_output eol) t_do_input text_sys0 evs)) = concat (ev_msgs evs).
Proof. exact text_completeness. Qed.
Print Assumptions C03_text_completeness.

Theorem C03_text_fair_completion : forall eol, eol_ok eol ->
  forall (evs : list (event (list bytes))) (rs : list (list (event (list bytes)))),
  Forall (ev_wf text_wfm) evs -> Forall round rs ->
  (measure (ts_rem eol) ts_mu (sys_run ts_queue (t_do_output eol) t_do_input text_sys0 evs) <= length rs)%nat ->
  let st := sys_run ts_queue (t_do_output eol) t_do_input text_sys0 (evs ++ concat rs) in
  quiet (ts_rem eol) st /\ concat (s_dlv st) = concat (ev_msgs evs).
Proof. exact text_fair_completion. Qed.
Print Assumptions C03_text_fair_completion.

(* the receiver alone, fed by a foreign sender in which every line has its OWN terminator (CR, LF or CRLF; the one
   inherently ambiguous combination -- a CR-terminated line directly followed by an empty LF-terminated line -- excluded):
   for every sequence of DoInput calls (any maxBytes, any read scripts) the lines delivered are a prefix of the lines
   sent, and all of them, with nothing left buffered, once the stream has been consumed *)
Theorem C03_text_mixed_terminators : forall (lts : list (bytes * bytes)) (calls : list (N * list N)),
  mixed_ok false lts ->
  let '(st', outs, pipe') := t_recv_run tr_init (mixed_wire lts) calls in
  (exists tl, map fst lts = concat outs ++ tl) /\
  (pipe' = [] -> concat outs = map fst lts /\ tr_text st' = []).
Proof. exact text_mixed_terminators. Qed.
Print Assumptions C03_text_mixed_terminators.

(* outside the domain: with a NUL byte in the stream what is delivered depends on the segmentation *)
Theorem C03_text_nul_refuted :
  let big := c_MUSCLE_NO_LIMIT in
  let '(_, o1, _) := t_do_input tr_init big [big] nul_stream in
  let '(r2, o2a, p2) := t_do_input tr_init big [3] nul_stream in
  let '(_, o2b, _) := t_do_input r2 big [big] p2 in
  concat o1 = [[97; 98]] /\ concat (o2a ++ o2b) = [[97; 98; 99; 100]].
Proof. exact text_nul_refuted. Qed.
Print Assumptions C03_text_nul_refuted.

(* ====================================================================== raw gateway, both receive
   modes (minChunkSize = 0: immediate forward; > 0: fixed-size chunk assembly); non-empty chunks;
   compared: the concatenation of all chunk bytes *)
Theorem C03_raw_prefix_safety : forall minc maxc (evs : list (event (list bytes))),
  Forall (ev_wf raw_wfm) evs ->
  exists tl, flat_chunks (ev_msgs evs) =
             flat_chunks (s_dlv (sys_run rs_queue raw_do_output (r_do_input minc maxc) raw_sys0 evs)) ++ tl.
Proof. exact raw_prefix_safety. Qed.
Print Assumptions C03_raw_prefix_safety.

Theorem C03_raw_completeness : forall minc maxc (evs : list (event (list bytes))),
  Forall (ev_wf raw_wfm) evs ->
  rs_rem r_trunc (s_snd (sys_run rs_queue raw_do_output (r_do_input minc maxc) raw_sys0 evs)) = [] ->
  s_pipe (sys_run rs_queue raw_do_output (r_do_input minc maxc) raw_sys0 evs) = [] ->
  flat_chunks (s_dlv (sys_run rs_queue raw_do_output (r_do_input minc maxc) raw_sys0 evs))
    ++ rr_pend (s_rcv (sys_run rs_queue raw_do_output (r_do_input minc maxc) raw_sys0 evs))
  = flat_chunks (ev_msgs evs).
Proof. exact raw_completeness. Qed.
Print Assumptions C03_raw_completeness.

Theorem C03_raw_fair_completion : forall minc maxc (evs : list (event (list bytes))) (rs : list (list (event (list bytes)))),
  Forall (ev_wf raw_wfm) evs -> Forall round rs ->
  (measure (rs_rem r_trunc) (fun _ => 0%nat) (sys_run rs_queue raw_do_output (r_do_input minc maxc) raw_sys0 evs) <= length rs)%nat ->
  let st := sys_run rs_queue raw_do_output (r_do_input minc maxc) raw_sys0 (evs ++ concat rs) in
  quiet (rs_rem r_trunc) st /\ flat_chunks (s_dlv st) ++ rr_pend (s_rcv st) = flat_chunks (ev_msgs evs).
Proof. exact raw_fair_completion. Qed.
Print Assumptions C03_raw_fair_completion.

(* ====================================================================== SLIP gateway; non-empty
   chunks of arbitrary bytes (END/ESC included); compared: the list of all chunks (frames), in order *)
Theorem C03_slip_prefix_safety : forall evs : list (event (list bytes)),
  Forall (ev_wf raw_wfm) evs ->
  exists tl, concat (ev_msgs evs) = concat (s_dlv (sys_run rs_queue slip_do_output sl_do_input slip_sys0 evs)) ++ tl.
Proof. exact slip_prefix_safety. Qed.
Print Assumptions C03_slip_prefix_safety.

Theorem C03_slip_completeness : forall evs : list (event (list bytes)),
  Forall (ev_wf raw_wfm) evs ->
  rs_rem slip_xform (s_snd (sys_run rs_queue slip_do_output sl_do_input slip_sys0 evs)) = [] ->
  s_pipe (sys_run rs_queue slip_do_output sl_do_input slip_sys0 evs) = [] ->
  concat (s_dlv (sys_run rs_queue slip_do_output sl_do_input slip_sys0 evs)) = concat (ev_msgs evs).
Proof. exact slip_completeness. Qed.
Print Assumptions C03_slip_completeness.

Theorem C03_slip_fair_completion : forall (evs : list (event (list bytes))) (rs : list (list (event (list bytes)))),
  Forall (ev_wf raw_wfm) evs -> Forall round rs ->
  (measure (rs_rem slip_xform) (fun _ => 0%nat) (sys_run rs_queue slip_do_output sl_do_input slip_sys0 evs) <= length rs)%nat ->
  let st := sys_run rs_queue slip_do_output sl_do_input slip_sys0 (evs ++ concat rs) in
  quiet (rs_rem slip_xform) st /\ concat (s_dlv st) = concat (ev_msgs evs).
Proof. exact slip_fair_completion. Qed.
Print Assumptions C03_slip_fair_completion.

(* the SLIP split lemma and the frame round trip it rests on *)
Theorem C03_slip_feed_split : forall a st b,
  sl_feed st (a ++ b) =
  let '(st1, o1) := sl_feed st a in let '(st2, o2) := sl_feed st1 b in (st2, o1 ++ o2).
Proof. exact sl_feed_app. Qed.
Print Assumptions C03_slip_feed_split.

Theorem C03_slip_frames_roundtrip : forall cs, Forall nonempty cs ->
  sl_feed (mkSR [] false) (concat (map sl_encode cs)) = (mkSR [] false, cs).
Proof. exact sl_feed_frames. Qed.
Print Assumptions C03_slip_frames_roundtrip.


(* ====================================================================== interoperation with the C "mini" gateway
   (lang/c/minimessage/MiniMessageGateway.c), which speaks the DEFAULT encoding: a MiniMessageGateway sender feeding
   the C++ MessageIOGateway receiver, and the C++ sender feeding a MiniMessageGateway receiver (which hands over at
   most one Message per MGDoInput call).  Domain of the second pair: flattened size at least 1 and small enough
   that the mini receiver's doubled input buffer stays below 2^32 bytes. *)
Theorem C03_mini_to_cpp_prefix_safety : forall max_in (evs : list (event bytes)),
  Forall (ev_wf (d_wfb max_in)) evs ->
  exists tl, ev_msgs evs = s_dlv (sys_run ms_queue mg_do_output (d_do_input max_in) m2c_sys0 evs) ++ tl.
Proof. exact mini_to_cpp_prefix_safety. Qed.
Print Assumptions C03_mini_to_cpp_prefix_safety.

Theorem C03_mini_to_cpp_completeness : forall max_in (evs : list (event bytes)),
  Forall (ev_wf (d_wfb max_in)) evs ->
  ms_rem (s_snd (sys_run ms_queue mg_do_output (d_do_input max_in) m2c_sys0 evs)) = [] ->
  s_pipe (sys_run ms_queue mg_do_output (d_do_input max_in) m2c_sys0 evs) = [] ->
  s_dlv (sys_run ms_queue mg_do_output (d_do_input max_in) m2c_sys0 evs) = ev_msgs evs.
Proof. exact mini_to_cpp_completeness. Qed.
Print Assumptions C03_mini_to_cpp_completeness.

Theorem C03_mini_to_cpp_fair_completion : forall max_in (evs : list (event bytes)) (rs : list (list (event bytes))),
  Forall (ev_wf (d_wfb max_in)) evs -> Forall round rs ->
  (measure ms_rem (fun _ => 0%nat) (sys_run ms_queue mg_do_output (d_do_input max_in) m2c_sys0 evs) <= length rs)%nat ->
  let st := sys_run ms_queue mg_do_output (d_do_input max_in) m2c_sys0 (evs ++ concat rs) in
  quiet ms_rem st /\ s_dlv st = ev_msgs evs.
Proof. exact mini_to_cpp_fair_completion. Qed.
Print Assumptions C03_mini_to_cpp_fair_completion.

Theorem C03_cpp_to_mini_prefix_safety : forall evs : list (event bytes),
  Forall (ev_wf mg_wfm) evs ->
  exists tl, ev_msgs evs = s_dlv (sys_run fs_queue d_do_output mg_do_input c2m_sys0 evs) ++ tl.
Proof. exact cpp_to_mini_prefix_safety. Qed.
Print Assumptions C03_cpp_to_mini_prefix_safety.

Theorem C03_cpp_to_mini_completeness : forall evs : list (event bytes),
  Forall (ev_wf mg_wfm) evs ->
  d_rem (s_snd (sys_run fs_queue d_do_output mg_do_input c2m_sys0 evs)) = [] ->
  s_pipe (sys_run fs_queue d_do_output mg_do_input c2m_sys0 evs) = [] ->
  s_dlv (sys_run fs_queue d_do_output mg_do_input c2m_sys0 evs) = ev_msgs evs.
Proof. exact cpp_to_mini_completeness. Qed.
Print Assumptions C03_cpp_to_mini_completeness.

Theorem C03_cpp_to_mini_fair_completion : forall (evs : list (event bytes)) (rs : list (list (event bytes))),
  Forall (ev_wf mg_wfm) evs -> Forall round rs ->
  (measure d_rem (fun _ => 0%nat) (sys_run fs_queue d_do_output mg_do_input c2m_sys0 evs) <= length rs)%nat ->
  let st := sys_run fs_queue d_do_output mg_do_input c2m_sys0 (evs ++ concat rs) in
  quiet d_rem st /\ s_dlv st = ev_msgs evs.
Proof. exact cpp_to_mini_fair_completion. Qed.
Print Assumptions C03_cpp_to_mini_fair_completion.


(* ====================================================================== the send pump.  Event loops call DoOutput() only while
   the gateway's HasBytesToOutput() says true.  *_has_bytes_sound: for EVERY sender state, HasBytesToOutput() = false
   implies that no queued byte is left unsent (in particular in the state the text gateway's 1024-deep recursion cap
   leaves behind, see C03_text_recursion_cap_state).  *_pump_completeness: at the states where such a pump stops
   (sender says no, nothing in flight) delivered = queued. *)
Theorem C03_binary_codec_has_bytes_sound : forall (Msg CS : Type) (flat : CS -> Msg -> CS * bytes) (st : fsend Msg CS),
  fs_has_bytes st = false -> fs_rem Msg CS flat st = [].
Proof. exact fs_has_bytes_rem. Qed.
Print Assumptions C03_binary_codec_has_bytes_sound.

Theorem C03_text_has_bytes_sound : forall (eol : bytes) (st : tsend), ts_has_bytes st = false -> ts_rem eol st = [].
Proof. exact ts_has_bytes_rem. Qed.
Print Assumptions C03_text_has_bytes_sound.

Theorem C03_raw_slip_has_bytes_sound : forall (xform : list bytes -> list bytes) (st : rsend),
  rs_has_bytes st = false -> rs_rem xform st = [].
Proof. exact rs_has_bytes_rem. Qed.
Print Assumptions C03_raw_slip_has_bytes_sound.

Theorem C03_websocket_has_bytes_sound : forall (Msg : Type) (sflat : Msg -> bytes) (client : bool) (st : wsend Msg),
  ws_has_bytes st = false -> ws_rem Msg sflat client st = [].
Proof. exact ws_has_bytes_rem. Qed.
Print Assumptions C03_websocket_has_bytes_sound.

Theorem C03_mini_has_bytes_sound : forall st : msend, mg_has_bytes st = false -> ms_rem st = [].
Proof. exact mg_has_bytes_rem. Qed.
Print Assumptions C03_mini_has_bytes_sound.

Theorem C03_binary_pump_completeness : forall max_in (evs : list (event bytes)),
  Forall (ev_wf (d_wfb max_in)) evs ->
  fs_has_bytes (s_snd (sys_run fs_queue d_do_output (d_do_input max_in) d_sys0 evs)) = false ->
  s_pipe (sys_run fs_queue d_do_output (d_do_input max_in) d_sys0 evs) = [] ->
  s_dlv (sys_run fs_queue d_do_output (d_do_input max_in) d_sys0 evs) = ev_msgs evs.
Proof. exact binary_pump_completeness. Qed.
Print Assumptions C03_binary_pump_completeness.

Theorem C03_text_pump_completeness : forall eol, eol_ok eol -> forall evs : list (event (list bytes)),
  Forall (ev_wf text_wfm) evs ->
  ts_has_bytes (s_snd (sys_run ts_queue (t_do_output eol) t_do_input text_sys0 evs)) = false ->
  s_pipe (sys_run ts_queue (t_do_output eol) t_do_input text_sys0 evs) = [] ->
  concat (s_dlv (sys_run ts_queue (t_do_output eol) t_do_input text_sys0 evs)) = concat (ev_msgs evs).
Proof. exact text_pump_completeness. Qed.
Print Assumptions C03_text_pump_completeness.

Theorem C03_raw_pump_completeness : forall minc maxc (evs : list (event (list bytes))),
  Forall (ev_wf raw_wfm) evs ->
  rs_has_bytes (s_snd (sys_run rs_queue raw_do_output (r_do_input minc maxc) raw_sys0 evs)) = false ->
  s_pipe (sys_run rs_queue raw_do_output (r_do_input minc maxc) raw_sys0 evs) = [] ->
  flat_chunks (s_dlv (sys_run rs_queue raw_do_output (r_do_input minc maxc) raw_sys0 evs))
    ++ rr_pend (s_rcv (sys_run rs_queue raw_do_output (r_do_input minc maxc) raw_sys0 evs)) = flat_chunks (ev_msgs evs).
Proof. exact raw_pump_completeness. Qed.
Print Assumptions C03_raw_pump_completeness.

Theorem C03_slip_pump_completeness : forall evs : list (event (list bytes)),
  Forall (ev_wf raw_wfm) evs ->
  rs_has_bytes (s_snd (sys_run rs_queue slip_do_output sl_do_input slip_sys0 evs)) = false ->
  s_pipe (sys_run rs_queue slip_do_output sl_do_input slip_sys0 evs) = [] ->
  concat (s_dlv (sys_run rs_queue slip_do_output sl_do_input slip_sys0 evs)) = concat (ev_msgs evs).
Proof. exact slip_pump_completeness. Qed.
Print Assumptions C03_slip_pump_completeness.

Theorem C03_websocket_pump_completeness : forall (client : bool) (max_in : N) (keys0 : list bytes),
  Forall (fun k => length k = 4%nat) keys0 ->
  forall evs : list (event bytes),
  Forall (ev_wf (wsd_wfm max_in)) evs ->
  ws_has_bytes (s_snd (sys_run ws_queue (ws_do_output bytes wsd_sflat client)
                      (wr_do_input bytes (frecv unit) (wsd_sfeed max_in) (negb client)) (wsd_sys0 keys0) evs)) = false ->
  s_pipe (sys_run ws_queue (ws_do_output bytes wsd_sflat client)
                      (wr_do_input bytes (frecv unit) (wsd_sfeed max_in) (negb client)) (wsd_sys0 keys0) evs) = [] ->
  s_dlv (sys_run ws_queue (ws_do_output bytes wsd_sflat client)
                      (wr_do_input bytes (frecv unit) (wsd_sfeed max_in) (negb client)) (wsd_sys0 keys0) evs) = ev_msgs evs.
Proof. exact websocket_pump_completeness. Qed.
Print Assumptions C03_websocket_pump_completeness.

Theorem C03_mini_to_cpp_pump_completeness : forall max_in (evs : list (event bytes)),
  Forall (ev_wf (d_wfb max_in)) evs ->
  mg_has_bytes (s_snd (sys_run ms_queue mg_do_output (d_do_input max_in) m2c_sys0 evs)) = false ->
  s_pipe (sys_run ms_queue mg_do_output (d_do_input max_in) m2c_sys0 evs) = [] ->
  s_dlv (sys_run ms_queue mg_do_output (d_do_input max_in) m2c_sys0 evs) = ev_msgs evs.
Proof. exact mini_to_cpp_pump_completeness. Qed.
Print Assumptions C03_mini_to_cpp_pump_completeness.

Theorem C03_cpp_to_mini_pump_completeness : forall evs : list (event bytes),
  Forall (ev_wf mg_wfm) evs ->
  fs_has_bytes (s_snd (sys_run fs_queue d_do_output mg_do_input c2m_sys0 evs)) = false ->
  s_pipe (sys_run fs_queue d_do_output mg_do_input c2m_sys0 evs) = [] ->
  s_dlv (sys_run fs_queue d_do_output mg_do_input c2m_sys0 evs) = ev_msgs evs.
Proof. exact cpp_to_mini_pump_completeness. Qed.
Print Assumptions C03_cpp_to_mini_pump_completeness.

(* non-vacuity of the text case: cap+1 empty lines, one unlimited DoOutput() call: it stops after cap lines with the
   current line fully written; HasBytesToOutput() still says true and one byte is unsent *)
Theorem C03_text_recursion_cap_state :
  let m := repeat ([] : bytes) (S (N.to_nat c_text_max_recurse)) in
  let '(st, w) := t_do_output [LF] (ts_queue ts_init m) c_MUSCLE_NO_LIMIT (repeat c_MUSCLE_NO_LIMIT 2000) in
  blen w = c_text_max_recurse /\ ts_off st = Z.of_N (blen (ts_text st)) /\ ts_has_bytes st = true /\ ts_rem [LF] st <> [].
Proof. exact text_cap_state_has_bytes. Qed.
Print Assumptions C03_text_recursion_cap_state.

(* ====================================================================== non-vacuity: concrete runs
   that satisfy the premises above (segmented transfers reaching the quiet state) *)
Definition ex_big : N := c_MUSCLE_NO_LIMIT.
Definition ex_m1 : bytes := le32 c_CURRENT_PROTOCOL_VERSION ++ le32 7 ++ le32 0.
Definition ex_m2 : bytes := le32 c_CURRENT_PROTOCOL_VERSION ++ le32 9 ++ le32 0.
Definition ex_bin_evs : list (event bytes) :=
  [EQueue ex_m1; EOut 5 [3; 1; 1]; EIn ex_big [2]; EQueue ex_m2; EOut ex_big [ex_big; ex_big; ex_big];
   EIn 7 [1; 1; 9]; EIn ex_big [0]; EIn ex_big [ex_big; ex_big; ex_big; ex_big; ex_big]].

Example C03_binary_nonvacuous :
  Forall (ev_wf (d_wfb ex_big)) ex_bin_evs /\
  d_rem (s_snd (sys_run fs_queue d_do_output (d_do_input ex_big) d_sys0 ex_bin_evs)) = [] /\
  s_pipe (sys_run fs_queue d_do_output (d_do_input ex_big) d_sys0 ex_bin_evs) = [] /\
  s_dlv (sys_run fs_queue d_do_output (d_do_input ex_big) d_sys0 ex_bin_evs) = [ex_m1; ex_m2].
Proof.
  split.
  - repeat constructor; vm_compute; try discriminate; reflexivity.
  - vm_compute. auto.
Qed.

Definition ex_lines : list (event (list bytes)) :=
  [EQueue [[97; 98]; []; [99]]; EOut 3 [2; 1]; EIn ex_big [1]; EQueue []; EQueue [[100]];
   EOut ex_big [ex_big; ex_big; ex_big; ex_big; ex_big; ex_big; ex_big; ex_big];
   EIn ex_big [2]; EIn 1 [1]; EIn ex_big [ex_big]].

Example C03_text_nonvacuous :
  eol_ok [CR; LF] /\ Forall (ev_wf text_wfm) ex_lines /\
  ts_rem [CR; LF] (s_snd (sys_run ts_queue (t_do_output [CR; LF]) t_do_input text_sys0 ex_lines)) = [] /\
  s_pipe (sys_run ts_queue (t_do_output [CR; LF]) t_do_input text_sys0 ex_lines) = [] /\
  concat (s_dlv (sys_run ts_queue (t_do_output [CR; LF]) t_do_input text_sys0 ex_lines)) = [[97; 98]; []; [99]; [100]].
Proof.
  split; [left; reflexivity|]. split.
  - repeat constructor; discriminate.
  - vm_compute. auto.
Qed.

Definition ex_chunks : list (event (list bytes)) :=
  [EQueue [[192; 219; 65]; [219]]; EOut 4 [3; 1]; EIn ex_big [2]; EQueue [[66]];
   EOut ex_big [ex_big; ex_big; ex_big; ex_big]; EIn 3 [3]; EIn ex_big [ex_big]; EIn ex_big [ex_big]].

Example C03_slip_nonvacuous :
  Forall (ev_wf raw_wfm) ex_chunks /\
  rs_rem slip_xform (s_snd (sys_run rs_queue slip_do_output sl_do_input slip_sys0 ex_chunks)) = [] /\
  s_pipe (sys_run rs_queue slip_do_output sl_do_input slip_sys0 ex_chunks) = [] /\
  concat (s_dlv (sys_run rs_queue slip_do_output sl_do_input slip_sys0 ex_chunks)) = [[192; 219; 65]; [219]; [66]].
Proof.
  split.
  - repeat constructor; discriminate.
  - vm_compute. auto.
Qed.

Example C03_raw_nonvacuous :
  Forall (ev_wf raw_wfm) ex_chunks /\
  rs_rem r_trunc (s_snd (sys_run rs_queue raw_do_output (r_do_input 2 ex_big) raw_sys0 ex_chunks)) = [] /\
  s_pipe (sys_run rs_queue raw_do_output (r_do_input 2 ex_big) raw_sys0 ex_chunks) = [] /\
  flat_chunks (s_dlv (sys_run rs_queue raw_do_output (r_do_input 2 ex_big) raw_sys0 ex_chunks)) = [192; 219; 65; 219] /\
  rr_pend (s_rcv (sys_run rs_queue raw_do_output (r_do_input 2 ex_big) raw_sys0 ex_chunks)) = [66].
Proof.
  split.
  - repeat constructor; discriminate.
  - vm_compute. auto.
Qed.

(* a round in the sense of the fair-completion theorems *)
Example C03_round_nonvacuous : @round bytes [EIn 0 []; EOut 1 [1]; EOut 0 [5]; EIn ex_big [1]].
Proof.
  split; [repeat constructor|]. split.
  - apply Exists_cons_tl. apply Exists_cons_hd. cbn. split; discriminate.
  - do 3 apply Exists_cons_tl. apply Exists_cons_hd. cbn. split; discriminate.
Qed.

(* the zlib premise is satisfiable (a trivial "stored" codec: deflate = identity), and a run under it
   that mixes a compressed Message (>= 32 bytes with header) with one that stays uncompressed *)
Definition ex_deflate (ds : unit) (_ : bool) (b : bytes) : unit * bytes := (ds, b).
Definition ex_inflate (is : unit) (_ : bool) (d : bytes) (n : N) : unit * option bytes :=
  (is, if blen d =? n then Some d else None).
Definition ex_m3 : bytes := ex_m1 ++ le32 1 ++ le32 2 ++ le32 3 ++ le32 4.
Definition ex_z_evs : list (event bytes) :=
  [EQueue ex_m3; EQueue ex_m1; EQueue ex_m3; EOut ex_big [7; 30]; EIn ex_big [5; 1]; EOut ex_big [ex_big; ex_big; ex_big];
   EIn ex_big [ex_big; ex_big; ex_big; ex_big; ex_big; ex_big; ex_big]].

Example C03_zlib_nonvacuous :
  (forall ds is b, True -> b <> [] ->
     exists is', ex_inflate is false (snd (ex_deflate ds false b)) (blen b) = (is', Some b) /\ True) /\
  Forall (ev_wf (z_wfb unit ex_deflate false ex_big)) ex_z_evs /\
  let st := sys_run fs_queue (z_do_output unit (fun _ => tt) ex_deflate c_MUSCLE_MESSAGE_ENCODING_ZLIB_9 false)
              (z_do_input unit tt ex_inflate ex_big) (z_sys0 unit unit) ex_z_evs in
  z_rem unit (fun _ => tt) ex_deflate c_MUSCLE_MESSAGE_ENCODING_ZLIB_9 false (s_snd st) = [] /\
  s_pipe st = [] /\ s_dlv st = [ex_m3; ex_m1; ex_m3].
Proof.
  split.
  - intros ds is b _ _. exists is. unfold ex_inflate, ex_deflate. cbn [snd]. rewrite N.eqb_refl. auto.
  - split.
    + repeat constructor; unfold z_wfb, ex_deflate; cbn [snd]; vm_compute; repeat split; try discriminate; reflexivity.
    + vm_compute. auto.
Qed.

(* the templating premises are satisfiable (toy Message type of TmplProofs.Toy), and a run under
   them in which the same template is created once and then used payload-only, mixed with a
   what-only Message and a second template *)
Definition ex_t_evs : list (event Toy.MSG) :=
  [EQueue (5, [1; 2]); EQueue (6, []); EQueue (7, [3; 4]); EOut ex_big [9; 20]; EIn ex_big [3; 1];
   EQueue (8, [5]); EQueue (9, [6; 7]);
   EOut ex_big [ex_big; ex_big; ex_big; ex_big; ex_big];
   EIn ex_big [ex_big; ex_big; ex_big; ex_big; ex_big; ex_big; ex_big; ex_big; ex_big; ex_big; ex_big; ex_big]].

Example C03_templating_nonvacuous :
  (forall m, Toy.wfm m -> Toy.m_trivial m = true -> m = Toy.m_of_what (Toy.m_what m) /\ Toy.m_what m < two32) /\
  (forall m, Toy.wfm m -> Toy.m_trivial m = false -> Toy.m_unflat (Toy.m_flat m) = Some m /\ blen (Toy.m_flat m) <> 4) /\
  (forall m t, Toy.wfm m -> Toy.m_trivial m = false -> Toy.t_describes t m = true -> Toy.m_tunflat t (Toy.m_tflat t m) = Some m) /\
  (forall m, Toy.wfm m -> Toy.t_tid (Toy.m_tmpl m) = Toy.m_tid m /\ Toy.m_tid m < two64) /\
  (forall m t, Toy.wfm m -> blen (Toy.m_flat m) < flag_bit /\ blen (Toy.m_flat m) <= ex_big /\
                            8 + blen (Toy.m_tflat t m) < flag_bit /\ 8 + blen (Toy.m_tflat t m) <= ex_big) /\
  Forall (ev_wf Toy.wfm) ex_t_evs /\
  let st := sys_run fs_queue (tm_do_output Toy.MSG Toy.TPL Toy.m_trivial Toy.m_what Toy.m_of_what Toy.m_tid Toy.m_tmpl Toy.t_size Toy.m_flat Toy.m_tflat Toy.t_describes 30)
              (tm_do_input Toy.MSG Toy.TPL Toy.m_of_what Toy.m_tmpl Toy.t_tid Toy.t_size Toy.m_unflat Toy.m_tunflat 30 ex_big)
              (tm_sys0 Toy.MSG Toy.TPL) ex_t_evs in
  s_pipe st = [] /\ s_dlv st = [(5, [1; 2]); (6, []); (7, [3; 4]); (8, [5]); (9, [6; 7])] /\
  fs_cs (s_snd st) = fr_cr (s_rcv st) /\ fst (fs_cs (s_snd st)) = [(3, 2%nat); (2, 1%nat)].
Proof.
  split; [exact Toy.H_trivial|]. split; [exact Toy.H_full|]. split; [exact Toy.H_templated|].
  split; [exact Toy.H_tid|]. split; [exact Toy.H_size|]. split.
  - repeat constructor; vm_compute; reflexivity.
  - vm_compute. auto.
Qed.

(* a client -> server WebSocket run: two Messages, masked with two different keys, segmented reads *)
Definition ex_ws_evs : list (event bytes) :=
  [EQueue ex_m1; EQueue ex_m2; EOut 5 [3; 2]; EIn ex_big [1; 1; 1]; EOut ex_big [ex_big; ex_big; ex_big; ex_big];
   EIn 9 [4; 5]; EIn ex_big [ex_big; ex_big; ex_big; ex_big; ex_big; ex_big; ex_big; ex_big; ex_big; ex_big]].

Example C03_websocket_nonvacuous :
  Forall (fun k => length k = 4%nat) [[1; 2; 3; 4]; [200; 0; 255; 7]] /\
  Forall (ev_wf (wsd_wfm ex_big)) ex_ws_evs /\
  let st := sys_run ws_queue (ws_do_output bytes wsd_sflat true)
              (wr_do_input bytes (frecv unit) (wsd_sfeed ex_big) false) (wsd_sys0 [[1; 2; 3; 4]; [200; 0; 255; 7]]) ex_ws_evs in
  wsd_rem true (s_snd st) = [] /\ s_pipe st = [] /\ s_dlv st = [ex_m1; ex_m2].
Proof.
  split; [repeat constructor|]. split.
  - repeat constructor; vm_compute; try discriminate; reflexivity.
  - vm_compute. auto.
Qed.

(* lines with mixed terminators, read in pieces that split a CRLF: "ab" CR, "" CRLF, "c" LF, "" CR, "d" CRLF *)
Example C03_text_mixed_nonvacuous :
  let lts := [([97; 98], [CR]); ([], [CR; LF]); ([99], [LF]); ([], [CR]); ([100], [CR; LF])] in
  mixed_ok false lts /\
  let '(st', outs, pipe') := t_recv_run tr_init (mixed_wire lts) [(4, [ex_big]); (ex_big, [1]); (0, [5]); (ex_big, [3]); (ex_big, [ex_big])] in
  pipe' = [] /\ concat outs = [[97; 98]; []; [99]; []; [100]].
Proof.
  split.
  - cbn. repeat split; try (repeat constructor; discriminate); try (left; reflexivity); try (right; left; reflexivity);
      try (right; right; reflexivity); intros (H1 & H2 & H3); discriminate.
  - vm_compute. auto.
Qed.

(* mini sender -> C++ receiver and C++ sender -> mini receiver: two Messages, short writes and reads; the mini
   receiver needs one call per Message *)
Example C03_mini_nonvacuous :
  Forall (ev_wf (d_wfb ex_big)) ex_bin_evs /\ Forall (ev_wf mg_wfm) ex_bin_evs /\
  (let st := sys_run ms_queue mg_do_output (d_do_input ex_big) m2c_sys0 ex_bin_evs in
   ms_rem (s_snd st) = [] /\ s_pipe st = [] /\ s_dlv st = [ex_m1; ex_m2]) /\
  (let st := sys_run fs_queue d_do_output mg_do_input c2m_sys0 (ex_bin_evs ++ [EIn ex_big [ex_big; ex_big]]) in
   d_rem (s_snd st) = [] /\ s_pipe st = [] /\ s_dlv st = [ex_m1; ex_m2]).
Proof.
  split; [|split; [|split]].
  - repeat constructor; vm_compute; try discriminate; reflexivity.
  - repeat constructor; vm_compute; try discriminate; reflexivity.
  - vm_compute. auto.
  - vm_compute. auto.
Qed.
