(* C18 -- property theorems only: each is closed by [exact] of a lemma proved elsewhere (Conc/RwMutex*.v).
   The model: Conc/RwMutexModel.v, an interleaving LTS of system/ReaderWriterMutex.cpp (any number of threads, any
   sequence of API calls per thread, both _preferWriters settings, timeouts firing at any decision). *)
From Coq Require Import List Arith Bool.
Import ListNotations.
From Muscle Require Import Conc.RwMutexModel Conc.RwMutexProofs Conc.RwMutexInv Conc.RwMutexThms Conc.RwMutexLive Conc.RwMutexExtras Conc.RwMutexCheck Conc.RwMutexProgress Conc.RwMutexTrace Conc.RwMutexVariant Conc.RwMutexFair.

(* The inductive invariant: read mode / write mode of the table + every thread's code position agrees with the tables. *)
Theorem C18_invariant : forall pref s, reachable pref s -> inv s.
Proof. exact inv_reachable. Qed.
Print Assumptions C18_invariant.

(* rw_exclusion: a thread that holds the lock for writing is the only thread that holds it at all (table level) *)
Theorem C18_rw_exclusion : forall pref s, reachable pref s ->
  forall t e t' e', In (t, e) (g_exec (s_g s)) -> 0 < e_rw e -> In (t', e') (g_exec (s_g s)) -> t' = t /\ e' = e.
Proof. exact exclusion_table. Qed.
Print Assumptions C18_rw_exclusion.

(* ... and at the level of what the returned API calls entitle the threads to (the only exception is the documented one:
   a thread inside an upgrading LockReadWrite() has given its read locks up for the duration of that call) *)
Theorem C18_rw_exclusion_user : forall pref s, reachable pref s ->
  forall t t', t' <> t -> 0 < l_hrw (s_l s t) ->
  (l_hro (s_l s t') = 0 /\ l_hrw (s_l s t') = 0) \/ l_stk (s_l s t') <> [].
Proof. exact exclusion_user. Qed.
Print Assumptions C18_rw_exclusion_user.

(* rw_counts: outside any call, a thread's table entry is exactly (#successful LockReadOnly - #successful UnlockReadOnly,
   #successful LockReadWrite - #successful UnlockReadWrite) of its returned calls -- each release undoes exactly one acquire,
   failed calls (timed out, B_LOCK_FAILED) leave the thread's holdings unchanged -- and it is in no waiting table *)
Theorem C18_rw_counts : forall pref s, reachable pref s -> forall t, l_act (s_l s t) = AIdle ->
  find t (g_exec (s_g s)) = mk_ent (l_hro (s_l s t)) (l_hrw (s_l s t)) /\
  memk t (g_wr (s_g s)) = false /\ memk t (g_ww (s_g s)) = false.
Proof. exact counts_idle. Qed.
Print Assumptions C18_rw_counts.

Theorem C18_rw_unlock_ro : forall pref s, reachable pref s -> forall t g' l' o,
  l_act (s_l s t) = AEnterUnRO -> l_stk (s_l s t) = [] ->
  step pref t CRun (s_g s) (s_l s t) = Some (g', l', o) ->
  (l_hro (s_l s t) = 0 -> o_ret o = Some SLockFailed /\ g' = s_g s) /\
  (0 < l_hro (s_l s t) -> o_ret o = Some SOk /\ l_hro l' = pred (l_hro (s_l s t)) /\ l_hrw l' = l_hrw (s_l s t)).
Proof. exact unlock_ro_status. Qed.
Print Assumptions C18_rw_unlock_ro.

Theorem C18_rw_unlock_rw : forall pref s, reachable pref s -> forall t g' l' o,
  l_act (s_l s t) = AEnterUnRW -> l_stk (s_l s t) = [] ->
  step pref t CRun (s_g s) (s_l s t) = Some (g', l', o) ->
  (l_hrw (s_l s t) = 0 -> o_ret o = Some SLockFailed /\ g' = s_g s) /\
  (0 < l_hrw (s_l s t) -> o_ret o = Some SOk /\ l_hrw l' = pred (l_hrw (s_l s t)) /\ l_hro l' = l_hro (s_l s t)).
Proof. exact unlock_rw_status. Qed.
Print Assumptions C18_rw_unlock_rw.

(* rw_try_unchanged: a try acquisition is one transition: it returns at once, never parks, and on failure the lock state is
   unchanged (since fix F21 this includes TryLockReadWrite() on the upgrade path) *)
Theorem C18_rw_try_unchanged_ro : forall pref t g l, l_act l = AEnterRO Try -> l_stk l = [] ->
  exists g' l' o, step pref t CRun g l = Some (g', l', o) /\
    (o_ret o = Some SOk \/ (o_ret o = Some STimedOut /\ g' = g)) /\ o_park o = None /\ l_act l' = AIdle.
Proof. exact try_ro_one_step. Qed.
Print Assumptions C18_rw_try_unchanged_ro.

Theorem C18_rw_try_unchanged_rw : forall pref t g l, l_act l = AEnterRW Try -> l_stk l = [] ->
  exists g' l' o, step pref t CRun g l = Some (g', l', o) /\
    (o_ret o = Some SOk \/ (o_ret o = Some STimedOut /\ g' = g)) /\ o_park o = None /\ l_act l' = AIdle.
Proof. exact try_rw_one_step. Qed.
Print Assumptions C18_rw_try_unchanged_rw.

(* timed acquisitions: while parked, the timeout transition is always enabled, and once it fired the call returns
   B_TIMED_OUT with the thread's holdings unchanged (plain calls; for the upgrade path see C18_timed_upgrade_refuted) *)
Theorem C18_rw_timeout_enabled : forall pref t g l, (l_act l = AParkRO Timed \/ l_act l = AParkRW Timed) ->
  exists l', step pref t CTimeout g l = Some (g, l', wake_out false) /\
             (l_act l' = AWokeRO Timed false \/ l_act l' = AWokeRW Timed false) /\ l_stk l' = l_stk l.
Proof. exact timeout_always_enabled. Qed.
Print Assumptions C18_rw_timeout_enabled.

Theorem C18_rw_timed_out_returns : forall pref t g l d, (l_act l = AWokeRO d false \/ l_act l = AWokeRW d false) -> l_stk l = [] ->
  exists g' l' o, step pref t CRun g l = Some (g', l', o) /\ o_ret o = Some STimedOut /\ l_act l' = AIdle /\
                  l_hro l' = l_hro l /\ l_hrw l' = l_hrw l.
Proof. exact timed_out_returns. Qed.
Print Assumptions C18_rw_timed_out_returns.

(* any number of readers may hold the lock together: with no write recursion anywhere and (preference off or no writer
   waiting) a further reader is admitted in one transition, without disturbing the others *)
Theorem C18_rw_readers_share : forall pref t d g l, l_act l = AEnterRO d -> l_stk l = [] ->
  g_total g = 0 -> (pref = false \/ g_ww g = []) ->
  exists g' l' o, step pref t CRun g l = Some (g', l', o) /\ o_ret o = Some SOk /\ o_park o = None /\
                  (forall k, k <> t -> find k (g_exec g') = find k (g_exec g)) /\
                  exists e, find t (g_exec g') = Some e /\ 0 < e_ro e.
Proof. exact readers_share. Qed.
Print Assumptions C18_rw_readers_share.

(* the hand-off invariant behind "no lost wake-up": whenever nobody holds the lock, the waiters the hand-off policy favours
   (writer preference: the first waiting writer, else all waiting readers; no preference: all waiting readers, else the first
   waiting writer) have a notification pending or have already returned from Wait() *)
Theorem C18_rw_handoff_invariant : forall pref s, reachable pref s -> J pref s.
Proof. exact J_reachable. Qed.
Print Assumptions C18_rw_handoff_invariant.

(* rw_no_lost_wakeup (safety form): nobody holds the lock and somebody waits ==> a waiting thread has an enabled transition *)
Theorem C18_rw_no_lost_wakeup : forall pref s, reachable pref s -> g_exec (s_g s) = [] ->
  (g_wr (s_g s) <> [] \/ g_ww (s_g s) <> []) ->
  exists t, (memk t (g_wr (s_g s)) = true \/ memk t (g_ww (s_g s)) = true) /\
            step pref t CRun (s_g s) (s_l s t) <> None.
Proof. exact no_lost_wakeup. Qed.
Print Assumptions C18_rw_no_lost_wakeup.

(* no deadlock among threads that use only this lock (safety form): if NO transition of any thread is enabled while somebody
   waits, then some thread that is outside any call holds the lock -- the waiters wait for a holder that has not released,
   never for a lost wake-up.  ("If every holder eventually releases, every waiting thread eventually acquires", minus fairness.) *)
Theorem C18_rw_no_stranding : forall pref s, reachable pref s ->
  (forall t c, step pref t c (s_g s) (s_l s t) = None) ->
  (g_wr (s_g s) <> [] \/ g_ww (s_g s) <> []) ->
  exists h e, find h (g_exec (s_g s)) = Some e /\ l_act (s_l s h) = AIdle.
Proof. exact no_stranding. Qed.
Print Assumptions C18_rw_no_stranding.

(* rw_writer_pref / writer FIFO: every way a thread that holds nothing can come to hold the lock.  As a reader: only with no
   write recursion anywhere and, under writer preference, only while NO writer is waiting (so a reader that arrives after a
   waiting writer cannot be admitted before that writer left the queue).  As a writer: only when nobody executes and it is
   the first waiting writer (or none waits). *)
Theorem C18_rw_writer_pref : forall pref t g l g' l' o e,
  step pref t CRun g l = Some (g', l', o) -> find t (g_exec g) = None -> find t (g_exec g') = Some e ->
  (e = mkEnt 1 0 /\ g_total g = 0 /\ (pref = true -> g_ww g = [])) \/
  (e = mkEnt 0 1 /\ g_exec g = [] /\ (g_ww g = [] \/ exists c r, g_ww g = (t, c) :: r)).
Proof. exact admission. Qed.
Print Assumptions C18_rw_writer_pref.

(* ... and system-wide: with preference on, while ANY writer waits, no transition of any thread turns a thread that holds
   nothing into a reader (only into a writer): readers arriving after a waiting writer do not overtake it *)
Theorem C18_rw_writer_pref_sys : forall s lab s' o w,
  sys_step true s lab = Some (s', o) -> memk w (g_ww (s_g s)) = true ->
  forall r e, find r (g_exec (s_g s)) = None -> find r (g_exec (s_g s')) = Some e -> e = mkEnt 0 1.
Proof. exact writer_pref_sys. Qed.
Print Assumptions C18_rw_writer_pref_sys.

(* writers are served first-come first-served: while writers wait, only the head of the writer queue can become a writer *)
Theorem C18_rw_writer_fifo_sys : forall pref s lab s' o h c r,
  sys_step pref s lab = Some (s', o) -> g_ww (s_g s) = (h, c) :: r ->
  forall t, find t (g_exec (s_g s)) = None -> find t (g_exec (s_g s')) = Some (mkEnt 0 1) -> t = h.
Proof. exact writer_fifo_sys. Qed.
Print Assumptions C18_rw_writer_fifo_sys.

(* the hand-off is effective: the favoured waiter, once it has returned from Wait(), is admitted by its next critical section
   if nobody took the lock in between *)
Theorem C18_rw_handoff_admits_writer : forall pref s, reachable pref s -> g_exec (s_g s) = [] ->
  forall h c r d, g_ww (s_g s) = (h, c) :: r -> l_act (s_l s h) = AWokeRW d true ->
  exists g' l' o, step pref h CRun (s_g s) (s_l s h) = Some (g', l', o) /\ find h (g_exec g') = Some (mkEnt 0 1) /\ memk h (g_ww g') = false.
Proof. exact handoff_admits_writer. Qed.
Print Assumptions C18_rw_handoff_admits_writer.

Theorem C18_rw_handoff_admits_reader : forall pref s, reachable pref s -> g_exec (s_g s) = [] -> (pref = true -> g_ww (s_g s) = []) ->
  forall k d, l_act (s_l s k) = AWokeRO d true ->
  exists g' l' o, step pref k CRun (s_g s) (s_l s k) = Some (g', l', o) /\ find k (g_exec g') = Some (mkEnt 1 0) /\ memk k (g_wr g') = false.
Proof. exact handoff_admits_reader. Qed.
Print Assumptions C18_rw_handoff_admits_reader.

(* a free lock with waiters is never a dead end: some waiting thread t, by at most two of its own transitions (return from
   Wait(), critical section), holds the lock -- or, if its timeout had fired, has left the queue (and passed the wake-up on,
   so the statement applies again to the shorter queue) *)
Theorem C18_rw_free_lock_progress : forall pref s, reachable pref s -> g_exec (s_g s) = [] ->
  (g_wr (s_g s) <> [] \/ g_ww (s_g s) <> []) ->
  exists t s', (run pref [R t] s = Some s' \/ run pref [R t; R t] s = Some s') /\
               (find t (g_exec (s_g s')) <> None \/ nwait (s_g s') < nwait (s_g s)).
Proof. exact free_lock_progress. Qed.
Print Assumptions C18_rw_free_lock_progress.

(* liveness of the hand-off under weak fairness.  [fair_run pref sigma lam]: sigma is an infinite run of the LTS (lam i is the
   label of its i-th transition; threads may start calls at any time, the environment may stutter) on which no thread's next
   transition stays enabled forever without being taken.  On every such run, whenever the lock is free and somebody waits,
   the waiter t the hand-off favours eventually holds the lock, unless somebody else takes the lock first (then the lock is
   held again and "every holder eventually releases" brings us back here) or t's own timeout had fired and t leaves the queue.
   Unconditional "every waiter eventually acquires" is false by design: without writer preference a stream of readers can
   starve writers, with it a stream of writers can starve readers. *)
Theorem C18_rw_fair_handoff : forall pref sigma lam, fair_run pref sigma lam -> forall i,
  g_exec (s_g (sigma i)) = [] -> (g_wr (s_g (sigma i)) <> [] \/ g_ww (s_g (sigma i)) <> []) ->
  exists t j, i <= j /\
    ((memk t (g_ww (s_g (sigma i))) = true /\ (g_exec (s_g (sigma j)) <> [] \/ memk t (g_ww (s_g (sigma j))) = false)) \/
     (memk t (g_wr (s_g (sigma i))) = true /\ (g_exec (s_g (sigma j)) <> [] \/ memk t (g_wr (s_g (sigma j))) = false))).
Proof. exact fair_handoff. Qed.
Print Assumptions C18_rw_fair_handoff.

(* the model's lists are faithful images of the Hashtables: no thread appears twice in a table *)
Theorem C18_rw_tables_nodup : forall pref s, reachable pref s -> nodup (s_g s).
Proof. exact nodup_reachable. Qed.
Print Assumptions C18_rw_tables_nodup.

(* the error returns inside the upgrade path that the model does not follow are dead: the inner UnlockReadOnly() and
   LockReadOnly() calls always return B_NO_ERROR *)
Theorem C18_rw_upgrade_inner_calls_succeed : forall pref s, reachable pref s -> forall t f k g' ns st,
  l_stk (s_l s t) = f :: k -> (match f with FInner _ => False | _ => True end) ->
  cs pref t (l_act (s_l s t)) (s_g s) = Some (g', ns, Done st) -> st = SOk.
Proof. exact upgrade_inner_calls_succeed. Qed.
Print Assumptions C18_rw_upgrade_inner_calls_succeed.

(* the executable invariant check the model driver evaluates on every state of every replayed trace can only fail on a
   state that is not reachable in the model *)
Theorem C18_rw_check_complete : forall pref s tids, reachable pref s ->
  (forall t, memk t (g_wr (s_g s)) = true \/ memk t (g_ww (s_g s)) = true -> In t tids) ->
  check_state pref s tids = true.
Proof. exact check_state_complete. Qed.
Print Assumptions C18_rw_check_complete.

(* rw_counts on the observable trace only (no ghost counters): [tally_of t tr] is computed from the labels and outputs of an
   execution -- the calls thread t began and the statuses they returned --; whenever t is outside a call, its table entry is
   exactly (#ok LockReadOnly - #ok UnlockReadOnly, #ok LockReadWrite - #ok UnlockReadWrite) and it is in no waiting table *)
Theorem C18_rw_counts_trace : forall pref tr s, exec_from pref sys0 tr s -> forall t, t_cur (tally_of t tr) = None ->
  find t (g_exec (s_g s)) = mk_ent (t_ro (tally_of t tr)) (t_rw (tally_of t tr)) /\
  memk t (g_wr (s_g s)) = false /\ memk t (g_ww (s_g s)) = false.
Proof. exact counts_trace. Qed.
Print Assumptions C18_rw_counts_trace.

(* known finding F22, stated in the model: a TIMED LockReadWrite() on the upgrade path can be parked where no timeout can fire *)
Theorem C18_timed_upgrade_refuted : forall pref,
  exists s, reachable pref s /\ l_op (s_l s 0) = Some (OLockRW Timed) /\ l_act (s_l s 0) = AParkRO Never /\
            step pref 0 CTimeout (s_g s) (s_l s 0) = None /\ step pref 0 CRun (s_g s) (s_l s 0) = None.
Proof. exact timed_upgrade_deadline_refuted. Qed.
Print Assumptions C18_timed_upgrade_refuted.

(* the "natural repair" of F22 -- letting the restoring re-lock honour the caller's deadline -- is wrong: in that variant
   (RwMutexVariant.v) a failed timed upgrade returns holding NO lock although its completed calls entitle it to a read lock,
   while another thread writes (seeded change C18-upgrade-relock-uses-expired-deadline; corpus/C18.txt has the replay) *)
Theorem C18_relock_with_deadline_refuted : forall pref,
  exists s, reachableV pref s /\ l_act (s_l s 0) = AIdle /\ l_hro (s_l s 0) = 1 /\ find 0 (g_exec (s_g s)) = None /\
            find 0 (g_exec (s_g s)) <> exp_ent (s_l s 0) /\ find 1 (g_exec (s_g s)) = Some (mkEnt 1 1).
Proof. exact relock_with_deadline_refuted. Qed.
Print Assumptions C18_relock_with_deadline_refuted.

(* ---- non-vacuity: reachable states that satisfy the premises above ---- *)

(* a writer (thread 0, recursion 2) with a reader and a writer queued behind it *)
Example C18_ex_writer_and_queue :
  exists s, reachable true s /\ g_exec (s_g s) = [(0, mkEnt 0 2)] /\ g_total (s_g s) = 2 /\
            g_wr (s_g s) = [(1, 0)] /\ g_ww (s_g s) = [(2, 0)] /\ l_hrw (s_l s 0) = 2 /\ l_act (s_l s 0) = AIdle.
Proof.
  destruct (run true [B 0 (OLockRW Never); R 0; B 0 (OLockRW Try); R 0; B 1 (OLockRO Never); R 1; B 2 (OLockRW Timed); R 2] sys0) as [s|] eqn:E.
  - exists s. split; [eapply run_reachable; [apply reach_init|exact E]|]. vm_compute in E. inversion E; subst. vm_compute. auto 10.
  - vm_compute in E. discriminate.
Qed.

(* three readers share the lock (preference off, a writer is waiting) *)
Example C18_ex_three_readers :
  exists s, reachable false s /\ g_exec (s_g s) = [(0, mkEnt 1 0); (1, mkEnt 2 0); (3, mkEnt 1 0)] /\ g_total (s_g s) = 0 /\
            g_ww (s_g s) = [(2, 0)].
Proof.
  destruct (run false [B 0 (OLockRO Never); R 0; B 1 (OLockRO Never); R 1; B 2 (OLockRW Never); R 2;
                       B 1 (OLockRO Timed); R 1; B 3 (OLockRO Try); R 3] sys0) as [s|] eqn:E.
  - exists s. split; [eapply run_reachable; [apply reach_init|exact E]|]. vm_compute in E. inversion E; subst. vm_compute. auto 10.
  - vm_compute in E. discriminate.
Qed.

(* an unlock about to run with nothing held (fails) and one with something held (succeeds) *)
Example C18_ex_unlocks :
  exists s, reachable true s /\ l_act (s_l s 0) = AEnterUnRO /\ l_stk (s_l s 0) = [] /\ l_hro (s_l s 0) = 0 /\
            l_act (s_l s 1) = AEnterUnRW /\ l_stk (s_l s 1) = [] /\ l_hrw (s_l s 1) = 1.
Proof.
  destruct (run true [B 1 (OLockRW Never); R 1; B 1 OUnlockRW; B 0 OUnlockRO] sys0) as [s|] eqn:E.
  - exists s. split; [eapply run_reachable; [apply reach_init|exact E]|]. vm_compute in E. inversion E; subst. vm_compute. auto 10.
  - vm_compute in E. discriminate.
Qed.

(* a timed waiter that is parked (its timeout can fire), and one whose timeout has fired *)
Example C18_ex_timed :
  exists s, reachable true s /\ l_act (s_l s 1) = AParkRO Timed /\ l_act (s_l s 2) = AWokeRW Timed false /\ l_stk (s_l s 2) = [].
Proof.
  destruct (run true [B 0 (OLockRW Never); R 0; B 1 (OLockRO Timed); R 1; B 2 (OLockRW Timed); R 2; T 2] sys0) as [s|] eqn:E.
  - exists s. split; [eapply run_reachable; [apply reach_init|exact E]|]. vm_compute in E. inversion E; subst. vm_compute. auto 10.
  - vm_compute in E. discriminate.
Qed.

(* nobody holds the lock, a writer and a reader wait, the writer has been notified (writer preference) *)
Example C18_ex_handoff :
  exists s, reachable true s /\ g_exec (s_g s) = [] /\ g_ww (s_g s) = [(1, 1)] /\ g_wr (s_g s) = [(2, 0)] /\
            step true 1 CRun (s_g s) (s_l s 1) <> None.
Proof.
  destruct (run true [B 0 (OLockRW Never); R 0; B 1 (OLockRW Never); R 1; B 2 (OLockRO Never); R 2; B 0 OUnlockRW; R 0] sys0) as [s|] eqn:E.
  - exists s. split; [eapply run_reachable; [apply reach_init|exact E]|]. vm_compute in E. inversion E; subst. vm_compute.
    repeat split; auto; discriminate.
  - vm_compute in E. discriminate.
Qed.

(* a stuck state: thread 0 holds a read lock and is outside any call, thread 1 waits for the write lock; NO transition of any
   thread is enabled (the premise of C18_rw_no_stranding) *)
Example C18_ex_stuck_behind_idle_holder :
  exists s, reachable true s /\ g_ww (s_g s) = [(1, 0)] /\ l_act (s_l s 0) = AIdle /\ find 0 (g_exec (s_g s)) = Some (mkEnt 1 0) /\
            (forall t c, step true t c (s_g s) (s_l s t) = None).
Proof.
  destruct (run true [B 0 (OLockRO Never); R 0; B 1 (OLockRW Never); R 1] sys0) as [s|] eqn:E.
  - exists s. split; [eapply run_reachable; [apply reach_init|exact E]|]. vm_compute in E. inversion E; subst.
    repeat split; try (vm_compute; reflexivity).
    intros t c. destruct t as [|[|t']]; destruct c; reflexivity.
  - vm_compute in E. discriminate.
Qed.

(* the first waiting writer has been notified and has returned from Wait(); a reader in the same situation (no preference) *)
Example C18_ex_woken_writer :
  exists s, reachable true s /\ g_exec (s_g s) = [] /\ g_ww (s_g s) = [(1, 0); (2, 0)] /\ l_act (s_l s 1) = AWokeRW Never true.
Proof.
  destruct (run true [B 0 (OLockRW Never); R 0; B 1 (OLockRW Never); R 1; B 2 (OLockRW Timed); R 2; B 0 OUnlockRW; R 0; R 1] sys0) as [s|] eqn:E.
  - exists s. split; [eapply run_reachable; [apply reach_init|exact E]|]. vm_compute in E. inversion E; subst. vm_compute. auto 10.
  - vm_compute in E. discriminate.
Qed.

Example C18_ex_woken_reader :
  exists s, reachable false s /\ g_exec (s_g s) = [] /\ g_ww (s_g s) = [(2, 0)] /\ l_act (s_l s 1) = AWokeRO Timed true.
Proof.
  destruct (run false [B 0 (OLockRW Never); R 0; B 1 (OLockRO Timed); R 1; B 2 (OLockRW Never); R 2; B 0 OUnlockRW; R 0; R 1] sys0) as [s|] eqn:E.
  - exists s. split; [eapply run_reachable; [apply reach_init|exact E]|]. vm_compute in E. inversion E; subst. vm_compute. auto 10.
  - vm_compute in E. discriminate.
Qed.

(* a thread in the middle of the upgrade path: giving up the second of two read locks / re-taking them after the inner call *)
Example C18_ex_upgrade_frames :
  exists s, reachable true s /\ l_stk (s_l s 0) = [FDrop 2 1 Never] /\ l_stk (s_l s 1) = [FRelock 1 0 STimedOut].
Proof.
  destruct (run true [B 0 (OLockRO Never); R 0; B 0 (OLockRO Never); R 0; B 1 (OLockRO Never); R 1; B 2 (OLockRO Never); R 2;
                      B 1 (OLockRW Timed); R 1; R 1; R 1; T 1; R 1;
                      B 0 (OLockRW Never); R 0; R 0] sys0) as [s|] eqn:E.
  - exists s. split; [eapply run_reachable; [apply reach_init|exact E]|]. vm_compute in E. inversion E; subst. vm_compute. auto.
  - vm_compute in E. discriminate.
Qed.

(* an execution with its observable trace: thread 0 ends outside any call with tally (1 read, 0 write) *)
Example C18_ex_trace :
  exists tr s, exec_from true sys0 tr s /\ t_cur (tally_of 0 tr) = None /\ t_ro (tally_of 0 tr) = 1 /\ t_rw (tally_of 0 tr) = 0 /\ length tr = 8.
Proof.
  destruct (runo true [B 0 (OLockRO Never); R 0; B 0 (OLockRO Try); R 0; B 0 OUnlockRO; R 0; B 0 OUnlockRW; R 0] [] sys0) as [[tr s]|] eqn:E.
  - exists tr, s. split; [eapply runo_exec; [apply exec_nil|exact E]|]. vm_compute in E. inversion E; subst. vm_compute. auto.
  - vm_compute in E. discriminate.
Qed.

(* fair runs exist (the trivial one; finite executions extend to fair runs by letting the environment stutter once no thread
   has an enabled transition) *)
Example C18_ex_fair_run : forall pref, fair_run pref (fun _ => sys0) (fun _ => LEnv []).
Proof. exact fair_run_exists. Qed.
