(* C18 -- property theorems only: each is closed by [exact] of a lemma proved elsewhere. *)
From Coq Require Import List Arith.
From Muscle Require Import Conc.RwMutexModel Conc.RwMutexProofs.

Theorem C18_find_setv_same : forall A (t : tid) (v : A) l, find t (setv t v l) = Some v.
Proof. exact find_setv_same. Qed.
Print Assumptions C18_find_setv_same.
