(* C18 -- property theorems only: each is closed by [exact] of a lemma proved elsewhere (Conc/RwMutex*.v).
   The model: Conc/RwMutexModel.v, an interleaving LTS of system/ReaderWriterMutex.cpp (any number of threads, any
   sequence of API calls per thread, both _preferWriters settings, timeouts firing at any decision). *)
From Coq Require Import List Arith Bool.
Import ListNotations.
From Muscle Require Import Conc.RwMutexModel Conc.RwMutexProofs Conc.RwMutexInv Conc.RwMutexThms.

(* The inductive invariant: read mode / write mode of the table + every thread's code position agrees with the tables. *)
Theorem C18_invariant : forall pref s, reachable pref s -> inv s.
Proof. exact inv_reachable. Qed.
Print Assumptions C18_invariant.

(* rw_exclusion: a thread that holds the lock for writing is the only thread that holds it at all (table level) *)
Theorem C18_rw_exclusion : forall pref s, reachable pref s ->
  forall t e t' e', In (t, e) (g_exec (s_g s)) -> 0 < e_rw e -> In (t', e') (g_exec (s_g s)) -> t' = t /\ e' = e.
Proof. exact exclusion_table. Qed.
Print Assumptions C18_rw_exclusion.

(* ... and at the level of what the returned API calls entitle the threads to (the only exception is the documented one:
   a thread inside an upgrading LockReadWrite() has given its read locks up for the duration of that call) *)
Theorem C18_rw_exclusion_user : forall pref s, reachable pref s ->
  forall t t', t' <> t -> 0 < l_hrw (s_l s t) ->
  (l_hro (s_l s t') = 0 /\ l_hrw (s_l s t') = 0) \/ l_stk (s_l s t') <> [].
Proof. exact exclusion_user. Qed.
Print Assumptions C18_rw_exclusion_user.

(* rw_counts: outside any call, a thread's table entry is exactly (#successful LockReadOnly - #successful UnlockReadOnly,
   #successful LockReadWrite - #successful UnlockReadWrite) of its returned calls -- each release undoes exactly one acquire,
   failed calls (timed out, B_LOCK_FAILED) leave the thread's holdings unchanged -- and it is in no waiting table *)
Theorem C18_rw_counts : forall pref s, reachable pref s -> forall t, l_act (s_l s t) = AIdle ->
  find t (g_exec (s_g s)) = mk_ent (l_hro (s_l s t)) (l_hrw (s_l s t)) /\
  memk t (g_wr (s_g s)) = false /\ memk t (g_ww (s_g s)) = false.
Proof. exact counts_idle. Qed.
Print Assumptions C18_rw_counts.

Theorem C18_rw_unlock_ro : forall pref s, reachable pref s -> forall t g' l' o,
  l_act (s_l s t) = AEnterUnRO -> l_stk (s_l s t) = [] ->
  step pref t CRun (s_g s) (s_l s t) = Some (g', l', o) ->
  (l_hro (s_l s t) = 0 -> o_ret o = Some SLockFailed /\ g' = s_g s) /\
  (0 < l_hro (s_l s t) -> o_ret o = Some SOk /\ l_hro l' = pred (l_hro (s_l s t)) /\ l_hrw l' = l_hrw (s_l s t)).
Proof. exact unlock_ro_status. Qed.
Print Assumptions C18_rw_unlock_ro.

Theorem C18_rw_unlock_rw : forall pref s, reachable pref s -> forall t g' l' o,
  l_act (s_l s t) = AEnterUnRW -> l_stk (s_l s t) = [] ->
  step pref t CRun (s_g s) (s_l s t) = Some (g', l', o) ->
  (l_hrw (s_l s t) = 0 -> o_ret o = Some SLockFailed /\ g' = s_g s) /\
  (0 < l_hrw (s_l s t) -> o_ret o = Some SOk /\ l_hrw l' = pred (l_hrw (s_l s t)) /\ l_hro l' = l_hro (s_l s t)).
Proof. exact unlock_rw_status. Qed.
Print Assumptions C18_rw_unlock_rw.

(* rw_try_unchanged: a try acquisition is one transition: it returns at once, never parks, and on failure the lock state is
   unchanged (since fix F21 this includes TryLockReadWrite() on the upgrade path) *)
Theorem C18_rw_try_unchanged_ro : forall pref t g l, l_act l = AEnterRO Try -> l_stk l = [] ->
  exists g' l' o, step pref t CRun g l = Some (g', l', o) /\
    (o_ret o = Some SOk \/ (o_ret o = Some STimedOut /\ g' = g)) /\ o_park o = None /\ l_act l' = AIdle.
Proof. exact try_ro_one_step. Qed.
Print Assumptions C18_rw_try_unchanged_ro.

Theorem C18_rw_try_unchanged_rw : forall pref t g l, l_act l = AEnterRW Try -> l_stk l = [] ->
  exists g' l' o, step pref t CRun g l = Some (g', l', o) /\
    (o_ret o = Some SOk \/ (o_ret o = Some STimedOut /\ g' = g)) /\ o_park o = None /\ l_act l' = AIdle.
Proof. exact try_rw_one_step. Qed.
Print Assumptions C18_rw_try_unchanged_rw.

(* timed acquisitions: while parked, the timeout transition is always enabled, and once it fired the call returns
   B_TIMED_OUT with the thread's holdings unchanged (plain calls; for the upgrade path see C18_timed_upgrade_refuted) *)
Theorem C18_rw_timeout_enabled : forall pref t g l, (l_act l = AParkRO Timed \/ l_act l = AParkRW Timed) ->
  exists l', step pref t CTimeout g l = Some (g, l', wake_out false) /\
             (l_act l' = AWokeRO Timed false \/ l_act l' = AWokeRW Timed false) /\ l_stk l' = l_stk l.
Proof. exact timeout_always_enabled. Qed.
Print Assumptions C18_rw_timeout_enabled.

Theorem C18_rw_timed_out_returns : forall pref t g l d, (l_act l = AWokeRO d false \/ l_act l = AWokeRW d false) -> l_stk l = [] ->
  exists g' l' o, step pref t CRun g l = Some (g', l', o) /\ o_ret o = Some STimedOut /\ l_act l' = AIdle /\
                  l_hro l' = l_hro l /\ l_hrw l' = l_hrw l.
Proof. exact timed_out_returns. Qed.
Print Assumptions C18_rw_timed_out_returns.

(* any number of readers may hold the lock together: with no write recursion anywhere and (preference off or no writer
   waiting) a further reader is admitted in one transition, without disturbing the others *)
Theorem C18_rw_readers_share : forall pref t d g l, l_act l = AEnterRO d -> l_stk l = [] ->
  g_total g = 0 -> (pref = false \/ g_ww g = []) ->
  exists g' l' o, step pref t CRun g l = Some (g', l', o) /\ o_ret o = Some SOk /\ o_park o = None /\
                  (forall k, k <> t -> find k (g_exec g') = find k (g_exec g)) /\
                  exists e, find t (g_exec g') = Some e /\ 0 < e_ro e.
Proof. exact readers_share. Qed.
Print Assumptions C18_rw_readers_share.

(* known finding F22, stated in the model: a TIMED LockReadWrite() on the upgrade path can be parked where no timeout can fire *)
Theorem C18_timed_upgrade_refuted : forall pref,
  exists s, reachable pref s /\ l_op (s_l s 0) = Some (OLockRW Timed) /\ l_act (s_l s 0) = AParkRO Never /\
            step pref 0 CTimeout (s_g s) (s_l s 0) = None /\ step pref 0 CRun (s_g s) (s_l s 0) = None.
Proof. exact timed_upgrade_deadline_refuted. Qed.
Print Assumptions C18_timed_upgrade_refuted.

(* ---- non-vacuity: reachable states that satisfy the premises above ---- *)

(* a writer (thread 0, recursion 2) with a reader and a writer queued behind it *)
Example C18_ex_writer_and_queue :
  exists s, reachable true s /\ g_exec (s_g s) = [(0, mkEnt 0 2)] /\ g_total (s_g s) = 2 /\
            g_wr (s_g s) = [(1, 0)] /\ g_ww (s_g s) = [(2, 0)] /\ l_hrw (s_l s 0) = 2 /\ l_act (s_l s 0) = AIdle.
Proof.
  destruct (run true [B 0 (OLockRW Never); R 0; B 0 (OLockRW Try); R 0; B 1 (OLockRO Never); R 1; B 2 (OLockRW Timed); R 2] sys0) as [s|] eqn:E.
  - exists s. split; [eapply run_reachable; [apply reach_init|exact E]|]. vm_compute in E. inversion E; subst. vm_compute. auto 10.
  - vm_compute in E. discriminate.
Qed.

(* three readers share the lock (preference off, a writer is waiting) *)
Example C18_ex_three_readers :
  exists s, reachable false s /\ g_exec (s_g s) = [(0, mkEnt 1 0); (1, mkEnt 2 0); (3, mkEnt 1 0)] /\ g_total (s_g s) = 0 /\
            g_ww (s_g s) = [(2, 0)].
Proof.
  destruct (run false [B 0 (OLockRO Never); R 0; B 1 (OLockRO Never); R 1; B 2 (OLockRW Never); R 2;
                       B 1 (OLockRO Timed); R 1; B 3 (OLockRO Try); R 3] sys0) as [s|] eqn:E.
  - exists s. split; [eapply run_reachable; [apply reach_init|exact E]|]. vm_compute in E. inversion E; subst. vm_compute. auto 10.
  - vm_compute in E. discriminate.
Qed.

(* an unlock about to run with nothing held (fails) and one with something held (succeeds) *)
Example C18_ex_unlocks :
  exists s, reachable true s /\ l_act (s_l s 0) = AEnterUnRO /\ l_stk (s_l s 0) = [] /\ l_hro (s_l s 0) = 0 /\
            l_act (s_l s 1) = AEnterUnRW /\ l_stk (s_l s 1) = [] /\ l_hrw (s_l s 1) = 1.
Proof.
  destruct (run true [B 1 (OLockRW Never); R 1; B 1 OUnlockRW; B 0 OUnlockRO] sys0) as [s|] eqn:E.
  - exists s. split; [eapply run_reachable; [apply reach_init|exact E]|]. vm_compute in E. inversion E; subst. vm_compute. auto 10.
  - vm_compute in E. discriminate.
Qed.

(* a timed waiter that is parked (its timeout can fire), and one whose timeout has fired *)
Example C18_ex_timed :
  exists s, reachable true s /\ l_act (s_l s 1) = AParkRO Timed /\ l_act (s_l s 2) = AWokeRW Timed false /\ l_stk (s_l s 2) = [].
Proof.
  destruct (run true [B 0 (OLockRW Never); R 0; B 1 (OLockRO Timed); R 1; B 2 (OLockRW Timed); R 2; T 2] sys0) as [s|] eqn:E.
  - exists s. split; [eapply run_reachable; [apply reach_init|exact E]|]. vm_compute in E. inversion E; subst. vm_compute. auto 10.
  - vm_compute in E. discriminate.
Qed.
