(* C16 -- property theorems only: each is closed by [exact] of a lemma proved elsewhere. *)
From Coq Require Import List Arith ZArith.
From Muscle Require Import Cont.QueueModel Cont.QueueProofs.

Theorem C16_upd_length : forall a i v, length (upd a i v) = length a.
Proof. exact upd_length. Qed.
Print Assumptions C16_upd_length.
