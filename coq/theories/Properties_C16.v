(* C16 -- property theorems only: each is closed by [exact] of a lemma proved elsewhere.

   Reading guide.  [step1 ow jk sq] is the code-shaped model of util/Queue.h (ring window over a
   NULL / inline / heap array, EnsureSizeAux's reallocation policy, ...) for owning (ow=true) or
   trivially copyable (ow=false) items, jk being what an uninitialised trivial slot holds and sq the
   inline array size; [step0] is the ideal sequence; [abs] reads the user-visible items off the
   representation; [inv] is the representation invariant (spelled out by C16_inv_meaning). *)
From Coq Require Import List Arith ZArith.
From Coq Require Import Sorting.Permutation Sorting.Sorted.
From Muscle Require Import Cont.QueueModel Cont.QueueInv Cont.QueueRotateCS Cont.QueueSortCS Cont.QueueSort Cont.QueueProofs Cont.QueueConst
  Cont.QueueTwo.
Import ListNotations.

(* what the invariant says, slot by slot *)
Theorem C16_inv_meaning : forall (ow : bool) (sq : nat) (q : q1),
  inv ow sq q <->
  (0 < sq /\ cnt q <= qsize q /\ (0 < qsize q -> head q < qsize q) /\
   (0 < cnt q -> tail q = intern q (cnt q - 1)) /\
   match st q with SNull => arr q = [] | SSmall => qsize q = sq | SHeap => True end /\
   (ow = true -> forall s, s < qsize q -> (forall i, i < cnt q -> intern q i <> s) ->
      nth s (arr q) dflt = dflt) /\
   (st q <> SSmall ->
      length (inl q) = sq /\ (ow = true -> forall i, i < sq -> nth i (inl q) dflt = dflt))).
Proof. exact inv_slots_iff. Qed.
Print Assumptions C16_inv_meaning.

Theorem C16_inv_empty : forall (ow : bool) (sq : nat) (jk : Z), 0 < sq -> inv ow sq (empty_q ow jk sq).
Proof. exact inv_empty. Qed.
Print Assumptions C16_inv_empty.

(* every one of the 40 modelled single-queue operations, on every state satisfying the invariant, for both item
   kinds, every junk value and every inline-array size: the invariant is preserved, the resulting
   items are those of the ideal sequence and the result (value / status / count / index) is the same *)
Theorem C16_step_refines : forall (ow : bool) (jk : Z) (sq : nat) (q : q1) (o : op),
  inv ow sq q ->
  inv ow sq (fst (step1 ow jk sq q o)) /\
  abs (fst (step1 ow jk sq q o)) = fst (step0 (abs q) o) /\
  snd (step1 ow jk sq q o) = snd (step0 (abs q) o).
Proof. exact step_refines. Qed.
Print Assumptions C16_step_refines.

(* a failing operation (bad index, empty queue, item not found) leaves the representation unchanged *)
Theorem C16_fail_unchanged : forall (ow : bool) (jk : Z) (sq : nat) (q : q1) (o : op),
  snd (step1 ow jk sq q o) = OVal None \/ snd (step1 ow jk sq q o) = OStatus false ->
  fst (step1 ow jk sq q o) = q.
Proof. exact step_fail_unchanged. Qed.
Print Assumptions C16_fail_unchanged.

(* the ideal operation answers "none"/"err" exactly when it is undefined (empty sequence, bad index, item not
   present) and then returns the sequence unchanged; with C16_step_refines the Queue reports failure in exactly
   those cases *)
Theorem C16_ideal_fails_iff : forall (l : list Z) (o : op),
  (snd (step0 l o) = OVal None \/ snd (step0 l o) = OStatus false) <-> undefined0 l o.
Proof. exact step0_fails_iff. Qed.
Print Assumptions C16_ideal_fails_iff.

Theorem C16_ideal_fail_unchanged : forall (l : list Z) (o : op),
  snd (step0 l o) = OVal None \/ snd (step0 l o) = OStatus false -> fst (step0 l o) = l.
Proof. exact step0_fail_unchanged. Qed.
Print Assumptions C16_ideal_fail_unchanged.

(* every operation list from the empty queue *)
Theorem C16_queue_refines : forall (ow : bool) (jk : Z) (sq : nat) (ops : list op), 0 < sq ->
  inv ow sq (fst (run1 ow jk sq ops)) /\
  abs (fst (run1 ow jk sq ops)) = fst (run0 ops) /\
  snd (run1 ow jk sq ops) = snd (run0 ops).
Proof. exact run_refines. Qed.
Print Assumptions C16_queue_refines.

(* ... in particular for the SMALL_QUEUE_SIZE translated from util/Queue.h *)
Theorem C16_queue_refines_code_constant : forall (ow : bool) (jk : Z) (ops : list op),
  inv ow small_queue_size (fst (run1 ow jk small_queue_size ops)) /\
  abs (fst (run1 ow jk small_queue_size ops)) = fst (run0 ops) /\
  snd (run1 ow jk small_queue_size ops) = snd (run0 ops).
Proof. exact run_refines_code_constant. Qed.
Print Assumptions C16_queue_refines_code_constant.

Theorem C16_reachable_inv : forall (ow : bool) (jk : Z) (sq : nat) (q : q1),
  0 < sq -> reachable ow jk sq q -> inv ow sq q.
Proof. exact reachable_inv. Qed.
Print Assumptions C16_reachable_inv.

(* no stale items: growing the count with EnsureSize(n, true) yields default items, both item kinds *)
Theorem C16_no_stale_grow : forall (ow : bool) (jk : Z) (sq : nat) (q : q1) (n extra : nat) (shrink : bool),
  inv ow sq q -> cnt q <= n ->
  let q' := ensure_size ow jk sq q n true extra shrink in
  cnt q' = n /\ (forall i, i < cnt q -> getu q' i = getu q i) /\
  (forall i, cnt q <= i < n -> getu q' i = dflt).
Proof. exact no_stale_grow. Qed.
Print Assumptions C16_no_stale_grow.

(* no stale items: owning items never survive outside the window (shrink, wrap-around, removal) *)
Theorem C16_no_stale_slots : forall (ow : bool) (jk : Z) (sq : nat) (q : q1),
  0 < sq -> ow = true -> reachable ow jk sq q ->
  forall s, s < qsize q -> (forall i, i < cnt q -> intern q i <> s) -> nth s (arr q) dflt = dflt.
Proof. exact no_stale_slots. Qed.
Print Assumptions C16_no_stale_slots.

(* nothing a user observes depends on uninitialised memory *)
Theorem C16_junk_independent : forall (ow : bool) (sq : nat) (jk1 jk2 : Z) (ops : list op), 0 < sq ->
  abs (fst (run1 ow jk1 sq ops)) = abs (fst (run1 ow jk2 sq ops)) /\
  snd (run1 ow jk1 sq ops) = snd (run1 ow jk2 sq ops).
Proof. exact junk_independent. Qed.
Print Assumptions C16_junk_independent.

(* what the ideal Sort(from, to) -- which C16_step_refines and C16_sort_code_shaped show the Queue's Sort to equal --
   guarantees: a permutation; outside the range nothing moves; inside, sorted by the key (the item itself, or
   x/4 for the key-only comparison) with equal-key items in their original order (stability) *)
Theorem C16_sort_perm : forall (bk : bool) (l : list Z) (f t : nat), Permutation (l0_sort bk l f t) l.
Proof. exact l0_sort_perm. Qed.
Print Assumptions C16_sort_perm.

Theorem C16_sort_range : forall (bk : bool) (l : list Z) (f t : nat),
  let t' := Nat.min t (length l) in
  f < t' ->
  exists mid, l0_sort bk l f t = firstn f l ++ mid ++ skipn t' l /\ length mid = t' - f /\
    StronglySorted (key_le (sort_key bk)) mid /\
    forall v, filter (fun y => Z.eqb (sort_key bk y) v) mid =
              filter (fun y => Z.eqb (sort_key bk y) v) (firstn (t' - f) (skipn f l)).
Proof. exact l0_sort_range. Qed.
Print Assumptions C16_sort_range.

(* the code-shaped in-place merge sort of the model (bubble sort below 12 items, Merge with Lower/Upper cuts, rotation by
   gcd cycles; [sort_cs], which the representation-level Sort of C16_step_refines runs) computes that ideal stable sort *)
Theorem C16_sort_code_shaped : forall (bk : bool) (l : list Z) (f t : nat),
  sort_cs (sort_key bk) l f t = l0_sort bk l f t.
Proof. exact sort_cs_is_l0_sort. Qed.
Print Assumptions C16_sort_code_shaped.

(* the rotation by gcd cycles inside Merge: the middle runs X and Y change places, nothing else moves *)
Theorem C16_rotate_by_cycles : forall (P X Y S : list Z) (fc pv sc : nat),
  fc = length P -> pv = fc + length X -> sc = pv + length Y ->
  rotate_cs (P ++ X ++ Y ++ S) fc pv sc = P ++ Y ++ X ++ S.
Proof. exact rotate_cs_ok. Qed.
Print Assumptions C16_rotate_by_cycles.

(* Normalize's rotation of the whole array by _headIndex (Paul Hsieh's cycle algorithm, counted until every slot has
   moved) brings slot _headIndex to the front and keeps the cyclic order *)
Theorem C16_normalize_rotation : forall (a : list Z) (hd : nat),
  0 < hd < length a -> hsieh_rotate a hd = skipn hd a ++ firstn hd a.
Proof. exact hsieh_rotate_ok. Qed.
Print Assumptions C16_normalize_rotation.

(* ReleaseRawDataArray: the array handed out holds the items -- in user order when an in-object array had to be
   copied, in ring order when the heap array itself is handed out *)
Theorem C16_release_array_items : forall (jk : Z) (sq : nat) (ow : bool) (q : q1) (i : nat),
  inv ow sq q -> i < cnt q ->
  nth (match st q with SSmall => i | _ => intern q i end) (snd (release ow jk q)) 0%Z = getu q i.
Proof. exact release_array_items. Qed.
Print Assumptions C16_release_array_items.

(* ---- two queues: SwapContents, Plunder (move), operator=, ==, StartsWith/EndsWith, the Queue-argument
   forms of AddTailMulti/AddHeadMulti/InsertItemsAt, also with a Queue passed as its own argument *)
Theorem C16_step2_refines : forall (jk : Z) (sq : nat) (ow : bool) (p : q1 * q1) (o : op2),
  inv2 sq ow p ->
  inv2 sq ow (fst (step2 ow jk sq p o)) /\
  abs2 (fst (step2 ow jk sq p o)) = fst (step20 (abs2 p) o) /\
  snd (step2 ow jk sq p o) = snd (step20 (abs2 p) o).
Proof. exact step2_refines. Qed.
Print Assumptions C16_step2_refines.

Theorem C16_queue_pair_refines : forall (jk : Z) (sq : nat) (ow : bool) (ops : list op2), 0 < sq ->
  inv2 sq ow (fst (run2 ow jk sq ops)) /\
  abs2 (fst (run2 ow jk sq ops)) = fst (run20 ops) /\
  snd (run2 ow jk sq ops) = snd (run20 ops).
Proof. exact run2_refines. Qed.
Print Assumptions C16_queue_pair_refines.

(* finding F36 (fixed in /repo ee310d7): the un-repaired a.AddHeadMulti(a, ...) loop violates the ideal
   semantics when enough slots are unused; the repaired form (always copy first) does not *)
Theorem C16_add_head_multi_self_old_refuted : exists q start num,
  inv false 3 q /\
  abs (add_head_multi_self_old false 0%Z 3 q start num) <> slice (abs q) start num ++ abs q /\
  abs (add_head_multi_q false 0%Z 3 q (abs q) start num) = slice (abs q) start num ++ abs q.
Proof. exact add_head_multi_self_old_refuted. Qed.
Print Assumptions C16_add_head_multi_self_old_refuted.


(* finding F35 (fixed in /repo a3dd71f): the un-repaired SwapContentsAux loses the invariant, the repaired one keeps it *)
Theorem C16_swap_contents_aux_old_refuted : exists sm lg,
  inv true 3 sm /\ inv true 3 lg /\ st sm = SSmall /\ st lg <> SSmall /\
  ~ inv true 3 (fst (swap_contents_aux_old sm lg)) /\
  inv true 3 (fst (swap_contents_aux true sm lg)).
Proof. exact swap_contents_aux_old_refuted. Qed.
Print Assumptions C16_swap_contents_aux_old_refuted.

(* non-vacuity of the premise [inv q]: a reachable wrapped-around state on the inline array, and a
   heap state of trivial items with junk outside the window *)
Example C16_wrapped_state : exists q,
  reachable true 0%Z 3 q /\ inv true 3 q /\ st q = SSmall /\ cnt q = 3 /\ head q = 1 /\ tail q = 0.
Proof. exact wrapped_state. Qed.

Example C16_heap_state : exists q,
  inv false 3 q /\ st q = SHeap /\ cnt q = 2 /\ In 77%Z (arr q) /\ ~ In 77%Z (abs q).
Proof. exact heap_state. Qed.

Example C16_two_state : exists p,
  inv2 3 true p /\ st (fst p) = SHeap /\ st (snd p) = SSmall /\ abs2 p = ([1; 2; 3; 4; 5]%Z, [7; 8]%Z).
Proof. exact two_state. Qed.
