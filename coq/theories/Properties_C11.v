(* C11 -- Thread-to-owner Messages arrive exactly once, in order, and always wake the peer. *)
From Coq Require Import List Arith Bool NArith.
From Muscle Require Import Gen.Consts Conc.ThreadQ Conc.ThreadQProofs.
Import ListNotations.

Theorem c11_init_reachable : forall absorb_n react m e, reachable absorb_n react m e (sys0 m e).
Proof. exact init_reachable. Qed.
Print Assumptions c11_init_reachable.
