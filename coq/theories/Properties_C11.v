(* C11 -- Thread-to-owner Messages arrive exactly once, in order, and always wake the peer.

   Every Message the owner sends to a Thread's internal thread, and every reply sent back, is received exactly once
   and in sending order; a receiver blocked waiting for the next Message always wakes when one is queued (no lost
   wake-up), however sends and receives interleave.  Asking the internal thread to shut down and waiting for it
   always completes, and Messages queued before the thread was started are delivered once it starts.

   The statements are about the LTS of Conc/ThreadQ.v: every reachable state = every interleaving of the atomic steps
   of any number of threads running any programs over the API ([ok]: any restriction on the programs, none needed),
   for both signalling mechanisms ([m]: socket pair / wait-condition) and both ways of writing the internal thread
   ([e]: default loop / event-driven), every reaction [react] of the subclass to a Message, with sizeof(bytes) of
   WaitForNextMessageAux taken from the current sources, and StartInternalThread as repaired (first argument [false]:
   needsInitialSignal is read under the lock after the socket pair and the thread exist).  For the order the code had
   before (first argument [true]) c11_evd_lost_wakeup_refuted exhibits the lost wake-up.
   "Always wakes / completes" is proved in its safety form: an enabled step of the blocked thread, or of a thread that
   still owes it the signal, exists (DESIGN.md section 3). *)
From Coq Require Import List Arith Bool NArith.
From Muscle Require Import Conc.ThreadQ Conc.ThreadQWf Conc.ThreadQWake Conc.ThreadQProofs Conc.ThreadQProgress Conc.ThreadQConsts.
Import ListNotations.

(* exactly once, in order: at every moment what was sent = what was received followed by what is still queued *)
Theorem c11_fifo_exactly_once : forall react ok m e s c, reachable_if false ABS NOLIM react ok m e s ->
  c_sent (ch (s_g s) c) = c_rcvd (ch (s_g s) c) ++ c_q (ch (s_g s) c).
Proof. exact (fifo_exactly_once ABS NOLIM). Qed.
Print Assumptions c11_fifo_exactly_once.

(* ... and over any stretch of execution: what is received during it is, in this order, what was queued at its
   beginning followed by what was appended during it *)
Theorem c11_fifo_no_overtaking : forall react ok m e s s' c,
  reachable_if false ABS NOLIM react ok m e s -> steps_if false ABS NOLIM react ok s s' ->
  exists got more,
    c_rcvd (ch (s_g s') c) = c_rcvd (ch (s_g s) c) ++ got /\
    c_sent (ch (s_g s') c) = c_sent (ch (s_g s) c) ++ more /\
    got ++ c_q (ch (s_g s') c) = c_q (ch (s_g s) c) ++ more.
Proof. exact (fifo_no_overtaking false ABS NOLIM). Qed.
Print Assumptions c11_fifo_no_overtaking.

Theorem c11_no_lost_wakeup_internal : forall react ok m e s, reachable_if false ABS NOLIM react ok m e s ->
  g_ist (s_g s) = ILive ->
  (exists w, l_pc (g_il (s_g s)) = PRecvPark CI w) \/ l_pc (g_il (s_g s)) = PIEvWait ->
  c_q (g_ci (s_g s)) <> [] ->
  readable (s_g s) CI = true \/ exists t, is_pend_i (l_pc (s_l s t)) = true.
Proof. exact (fun react => no_lost_wakeup_internal ABS NOLIM react eq_refl). Qed.
Print Assumptions c11_no_lost_wakeup_internal.

Theorem c11_no_lost_wakeup_owner : forall react ok m e s w, reachable_if false ABS NOLIM react ok m e s ->
  l_pc (s_l s 0) = PRecvPark CO w -> c_q (g_co (s_g s)) <> [] ->
  readable (s_g s) CO = true \/ (exists t, l_pc (s_l s t) = PSendSig CO true) \/
  (g_ist (s_g s) = ILive /\ l_pc (g_il (s_g s)) = PSendSig CO true).
Proof. exact (fun react ok m e s w => no_lost_wakeup_owner ABS NOLIM react eq_refl ok m e s w). Qed.
Print Assumptions c11_no_lost_wakeup_owner.

Theorem c11_internal_never_stuck : forall react ok m e s, reachable_if false ABS NOLIM react ok m e s ->
  g_ist (s_g s) = ILive -> c_q (g_ci (s_g s)) <> [] ->
  (exists x, sys_step false ABS NOLIM react s (LStep I CRun) = Some x) \/
  (exists t x, is_pend_i (l_pc (s_l s t)) = true /\ sys_step false ABS NOLIM react s (LStep (U t) CRun) = Some x).
Proof. exact (fun react => internal_never_stuck ABS NOLIM react eq_refl). Qed.
Print Assumptions c11_internal_never_stuck.

Theorem c11_owner_never_stuck : forall react ok m e s w, reachable_if false ABS NOLIM react ok m e s ->
  l_pc (s_l s 0) = PRecvPark CO w -> c_q (g_co (s_g s)) <> [] ->
  (exists x, sys_step false ABS NOLIM react s (LStep (U 0) CRun) = Some x) \/
  (exists t x, l_pc (s_l s t) = PSendSig CO true /\ sys_step false ABS NOLIM react s (LStep (U t) CRun) = Some x) \/
  (l_pc (g_il (s_g s)) = PSendSig CO true /\ exists x, sys_step false ABS NOLIM react s (LStep I CRun) = Some x).
Proof. exact (fun react ok m e s w => owner_never_stuck ABS NOLIM react eq_refl ok m e s w). Qed.
Print Assumptions c11_owner_never_stuck.

Theorem c11_shutdown_completes : forall react ok m e s, reachable_if false ABS NOLIM react ok m e s ->
  l_pc (s_l s 0) = PJoinWait -> l_k (s_l s 0) = [KDiscard] ->
  (g_ist (s_g s) = IExited /\ exists x, sys_step false ABS NOLIM react s (LStep (U 0) CRun) = Some x) \/
  (g_ist (s_g s) = ILive /\
   (In None (c_q (g_ci (s_g s))) \/ exiting (l_pc (g_il (s_g s))) = true) /\
   ((exists x, sys_step false ABS NOLIM react s (LStep I CRun) = Some x) \/
    (exists t x, is_pend_i (l_pc (s_l s t)) = true /\ sys_step false ABS NOLIM react s (LStep (U t) CRun) = Some x))).
Proof. exact (fun react => shutdown_completes ABS NOLIM react eq_refl). Qed.
Print Assumptions c11_shutdown_completes.

Theorem c11_queued_before_start_delivered : forall react ok m e s s', reachable_if false ABS NOLIM react ok m e s ->
  g_running (s_g s) = false -> steps_if false ABS NOLIM react ok s s' ->
  (exists got more,
     c_rcvd (g_ci (s_g s')) = c_rcvd (g_ci (s_g s)) ++ got /\
     got ++ c_q (g_ci (s_g s')) = c_q (g_ci (s_g s)) ++ more) /\
  (g_ist (s_g s') = ILive -> c_q (g_ci (s_g s')) <> [] ->
   (exists x, sys_step false ABS NOLIM react s' (LStep I CRun) = Some x) \/
   (exists t x, is_pend_i (l_pc (s_l s' t)) = true /\ sys_step false ABS NOLIM react s' (LStep (U t) CRun) = Some x)).
Proof. exact (fun react => queued_before_start_delivered ABS NOLIM react eq_refl). Qed.
Print Assumptions c11_queued_before_start_delivered.

(* the deadlock detector's verdict: a state in which nothing can move holds no undelivered Message for a blocked reader *)
Theorem c11_stuck_only_when_nothing_to_receive : forall react ok m e s, reachable_if false ABS NOLIM react ok m e s ->
  (forall w c, sys_step false ABS NOLIM react s (LStep w c) = None) ->
  (g_ist (s_g s) = ILive -> c_q (g_ci (s_g s)) = []) /\
  (forall w, l_pc (s_l s 0) = PRecvPark CO w -> c_q (g_co (s_g s)) = []).
Proof. exact (fun react => stuck_only_when_nothing_to_receive ABS NOLIM react eq_refl). Qed.
Print Assumptions c11_stuck_only_when_nothing_to_receive.

Theorem c11_running_iff_thread_exists : forall react ok m e s, reachable_if false ABS NOLIM react ok m e s ->
  g_running (s_g s) = negb (ist_none (g_ist (s_g s))) /\
  (g_ist (s_g s) = ILive -> g_sockets (s_g s) = true -> g_alloc (s_g s) = true /\ g_iopen (s_g s) = true).
Proof. exact (running_iff_thread_exists ABS NOLIM). Qed.
Print Assumptions c11_running_iff_thread_exists.

(* StartInternalThread in the order it was found (finding F47, since repaired in /repo): an event-driven internal thread
   loses a wake-up (witness schedule refute_labels in ThreadQProofs, replayed on the real code) *)
Theorem c11_evd_lost_wakeup_refuted : forall react,
  exists s, reachable true ABS NOLIM react true true s /\
    g_ist (s_g s) = ILive /\ l_pc (g_il (s_g s)) = PIEvWait /\ c_q (g_ci (s_g s)) = [Some 7] /\
    readable (s_g s) CI = false /\ (forall t, l_pc (s_l s t) = PIdle) /\
    (forall w c, sys_step true ABS NOLIM react s (LStep w c) = None).
Proof. exact (evd_lost_wakeup_refuted ABS NOLIM). Qed.
Print Assumptions c11_evd_lost_wakeup_refuted.

(* one WaitForNextMessageAux call absorbs at least one pending signal byte, and all of them up to sizeof(bytes):
   no select() loop that returns at once for ever (side condition on the translated constant) *)
Theorem c11_absorb_progress : forall c g, fd_ok g c = true -> 0 < c_sig (ch g c) ->
  c_sig (ch (absorb ABS c g) c) < c_sig (ch g c).
Proof. exact (fun c g => absorb_progress ABS c g (proj1 (Nat.leb_le 1 ABS) eq_refl)). Qed.
Print Assumptions c11_absorb_progress.

Theorem c11_absorb_drains : forall c g, fd_ok g c = true -> c_sig (ch g c) <= ABS -> c_sig (ch (absorb ABS c g) c) = 0.
Proof. exact (absorb_drains ABS). Qed.
Print Assumptions c11_absorb_drains.

(* non-vacuity: reachable, non-trivial states satisfying the premises *)
Example c11_ex_internal_parked : exists s, reachable_if false ABS NOLIM react0 any_label true false s /\
  g_ist (s_g s) = ILive /\ l_pc (g_il (s_g s)) = PRecvPark CI WNever /\ c_q (g_ci (s_g s)) = [Some 5] /\
  readable (s_g s) CI = false /\ l_pc (s_l s 1) = PSendSig CI true.
Proof. exact (ex_internal_parked ABS NOLIM). Qed.

Example c11_ex_internal_parked_wc : exists s, reachable_if false ABS NOLIM react0 any_label false false s /\
  g_ist (s_g s) = ILive /\ l_pc (g_il (s_g s)) = PRecvPark CI WNever /\ c_q (g_ci (s_g s)) = [Some 5] /\
  readable (s_g s) CI = false /\ l_pc (s_l s 1) = PSendSig CI true.
Proof. exact (ex_internal_parked_wc ABS NOLIM). Qed.

Example c11_ex_owner_parked : exists s, reachable_if false ABS NOLIM react0 any_label true false s /\
  l_pc (s_l s 0) = PRecvPark CO WNever /\ c_q (g_co (s_g s)) = [Some 9] /\ l_pc (s_l s 1) = PSendSig CO true.
Proof. exact (ex_owner_parked ABS NOLIM). Qed.

Example c11_ex_shutdown_waiting : exists s, reachable_if false ABS NOLIM react0 any_label true false s /\
  l_pc (s_l s 0) = PJoinWait /\ l_k (s_l s 0) = [KDiscard] /\ g_ist (s_g s) = ILive /\ c_q (g_ci (s_g s)) = [None].
Proof. exact (ex_shutdown_waiting ABS NOLIM). Qed.

Example c11_ex_shutdown_exited : exists s, reachable_if false ABS NOLIM react0 any_label true false s /\
  l_pc (s_l s 0) = PJoinWait /\ l_k (s_l s 0) = [KDiscard] /\ g_ist (s_g s) = IExited.
Proof. exact (ex_shutdown_exited ABS NOLIM). Qed.

Example c11_ex_queued_before_start : exists s, reachable_if false ABS NOLIM react0 any_label true false s /\
  g_running (s_g s) = false /\ c_q (g_ci (s_g s)) = [Some 1; Some 2] /\ c_sig (g_ci (s_g s)) = 0 /\ g_alloc (s_g s) = false.
Proof. exact (ex_queued_before_start ABS NOLIM). Qed.

Example c11_ex_evd_parked : exists s, reachable_if false ABS NOLIM react0 any_label true true s /\
  g_ist (s_g s) = ILive /\ l_pc (g_il (s_g s)) = PIEvWait /\ c_q (g_ci (s_g s)) = [Some 3] /\
  readable (s_g s) CI = false /\ l_pc (s_l s 0) = PStartSpawned.
Proof. exact (ex_evd_parked ABS NOLIM). Qed.

(* the schedule of c11_evd_lost_wakeup_refuted on the repaired order: the wake-up is not lost *)
Example c11_ex_race_repaired : exists s, reachable_if false ABS NOLIM react0 any_label true true s /\
  g_ist (s_g s) = ILive /\ l_pc (g_il (s_g s)) = PIEvWait /\ c_q (g_ci (s_g s)) = [Some 7] /\
  readable (s_g s) CI = true.
Proof. exact (ex_race_repaired ABS NOLIM). Qed.

Example c11_ex_stuck : exists s, reachable_if false ABS NOLIM react0 any_label true false s /\
  (forall w c, sys_step false ABS NOLIM react0 s (LStep w c) = None).
Proof. exact (ex_stuck ABS NOLIM). Qed.


(* ---- "can always complete" (Conc/ThreadQProgress.v): no reachable state is a trap.  [canreach P s]: some finite
   continuation from s, made of steps of the internal thread and of threads that still owe it a signal only
   ([helper]), ends in a state satisfying P; proved with a measure that each such step decreases.  Premise of these
   three: the subclass's MessageReceivedFromOwner sends replies only, no Messages to the internal thread itself (a
   thread that keeps feeding its own queue need never drain it); all the other theorems hold for any reaction,
   self-sends included. ---- *)

(* from every reachable state with a live internal thread: it can finish, or receive everything queued and block *)
Theorem c11_can_drain : forall react, (forall x, Forall (fun cm => fst cm = CO) (fst (react x))) -> forall m e s,
  reachable_if false ABS NOLIM react any_label m e s -> g_ist (s_g s) = ILive ->
  canreach ABS NOLIM react (fun s' => reachable_if false ABS NOLIM react any_label m e s' /\ drained s') s.
Proof. exact (fun react H => can_drain ABS NOLIM react eq_refl H). Qed.
Print Assumptions c11_can_drain.

(* shutdown can always run to completion: once a NULL Message is queued for (or taken by) a live thread, it can finish *)
Theorem c11_shutdown_can_complete : forall react, (forall x, Forall (fun cm => fst cm = CO) (fst (react x))) -> forall m e s,
  reachable_if false ABS NOLIM react any_label m e s -> g_ist (s_g s) = ILive -> null_seen s ->
  canreach ABS NOLIM react (fun s' => reachable_if false ABS NOLIM react any_label m e s' /\ g_ist (s_g s') = IExited) s.
Proof. exact (fun react H => shutdown_can_complete ABS NOLIM react eq_refl H). Qed.
Print Assumptions c11_shutdown_can_complete.

(* every queued Message can be received: in order, all of them unless the thread finishes first *)
Theorem c11_queued_can_be_received : forall react, (forall x, Forall (fun cm => fst cm = CO) (fst (react x))) -> forall m e s,
  reachable_if false ABS NOLIM react any_label m e s -> g_ist (s_g s) = ILive ->
  canreach ABS NOLIM react (fun s' => reachable_if false ABS NOLIM react any_label m e s' /\ exists got,
              c_rcvd (g_ci (s_g s')) = c_rcvd (g_ci (s_g s)) ++ got /\
              got ++ c_q (g_ci (s_g s')) = c_q (g_ci (s_g s)) /\
              (g_ist (s_g s') = IExited \/ c_q (g_ci (s_g s')) = [])) s.
Proof. exact (fun react H => queued_can_be_received ABS NOLIM react eq_refl H). Qed.
Print Assumptions c11_queued_can_be_received.

(* the premises of c11_shutdown_can_complete are met by c11_ex_shutdown_waiting's state (a NULL Message is queued) *)
Example c11_ex_null_seen : exists s, reachable_if false ABS NOLIM react0 any_label true false s /\
  g_ist (s_g s) = ILive /\ null_seen s.
Proof. exact (ex_null_seen ABS NOLIM). Qed.

(* the pending-notification counts of the WaitConditions stay uint32 values: IncreaseNotificationsCount saturates at the
   translated MUSCLE_NO_LIMIT (= 2^32-1, checked by conversion) and never wraps to 0, so a Notify() is never lost *)
Theorem c11_notification_counts_are_uint32 : forall react ok m e s,
  reachable_if false ABS NOLIM react ok m e s -> wcb NOLIM (s_g s).
Proof. exact (notification_counts_are_uint32 false ABS). Qed.
Print Assumptions c11_notification_counts_are_uint32.

(* ---- the owner's user-registered socket set (SOCKET_SET_READ) and the B_IO_READY return path ---- *)

(* a blocked owner is woken when its registered user socket becomes ready-for-read *)
Theorem c11_user_socket_wakes_owner : forall react s w,
  g_sockets (s_g s) = true -> l_pc (s_l s 0) = PRecvPark CO w ->
  u_reg (g_usr (s_g s)) = true -> 0 < u_bytes (g_usr (s_g s)) ->
  exists x, sys_step false ABS NOLIM react s (LStep (U 0) CRun) = Some x.
Proof. exact (user_socket_wakes_owner ABS NOLIM). Qed.
Print Assumptions c11_user_socket_wakes_owner.

(* B_IO_READY is truthful: returned only when the registered user socket is ready and the signal socket is not (a pending
   signal has precedence: the queue is polled instead), and IsOwnerThreadSocketReady() then says yes *)
Theorem c11_io_ready_is_truthful : forall react s t c s' ev,
  sys_step false ABS NOLIM react s (LStep (U t) c) = Some (s', ev) -> In (ERet RIoReady) ev ->
  uready (s_g s) = true /\ readable (s_g s) CO = false /\ u_flag (g_usr (s_g s')) = true.
Proof. exact (io_ready_is_truthful ABS NOLIM). Qed.
Print Assumptions c11_io_ready_is_truthful.

Example c11_ex_user_socket : exists s, reachable_if false ABS NOLIM react0 any_label true false s /\
  l_pc (s_l s 0) = PRecvPark CO WNever /\ uready (s_g s) = true /\ readable (s_g s) CO = false.
Proof. exact (ex_user_socket ABS NOLIM). Qed.

(* the model includes reactions that send to the internal thread itself (SendMessageToInternalThread from within
   MessageReceivedFromOwner): a reachable state in which the thread has fed its own, empty, queue *)
Example c11_ex_self_send : exists s, reachable_if false ABS NOLIM react_self any_label true false s /\
  g_ist (s_g s) = ILive /\ l_pc (g_il (s_g s)) = PSendSig CI true /\ c_q (g_ci (s_g s)) = [Some 105] /\
  c_rcvd (g_ci (s_g s)) = [Some 5].
Proof. exact (ex_self_send ABS NOLIM). Qed.

(* ---- liveness under weak fairness (Conc/ThreadQProgress.v).  An execution [r : frun] is an infinite sequence of states
   and labels (None = nobody moves) in which every labelled position is a step of the LTS; [fair r]: the internal thread's
   step, and every user thread's step, is eventually taken or disabled (weak fairness).  Premise as for the can-reach
   theorems: the subclass's reaction sends replies only. ---- *)

(* shutdown eventually completes: once a NULL Message is queued for (or taken by) the live internal thread, the thread
   eventually finishes -- whatever the other threads do in between (more sends, receives, signals, ...) *)
Theorem c11_shutdown_eventually_completes : forall react,
  (forall x, Forall (fun cm => fst cm = CO) (fst (react x))) ->
  forall m e (r : frun ABS NOLIM react),
  reachable_if false ABS NOLIM react any_label m e (f_st _ _ _ r 0) -> fair ABS NOLIM react r ->
  forall i, g_ist (s_g (f_st _ _ _ r i)) = ILive -> null_seen (f_st _ _ _ r i) ->
  exists j, i <= j /\ g_ist (s_g (f_st _ _ _ r j)) = IExited.
Proof. exact (fun react H => shutdown_eventually_completes ABS NOLIM react eq_refl H). Qed.
Print Assumptions c11_shutdown_eventually_completes.

(* a queued Message is eventually received: on every weakly fair execution the Message at the head of the internal
   thread's queue is eventually taken from it (unless the thread finishes first) -- whatever the other threads do
   meanwhile; with c11_fifo_no_overtaking this holds, in order, for every queued Message *)
Theorem c11_queued_message_eventually_received : forall react,
  (forall x, Forall (fun cm => fst cm = CO) (fst (react x))) ->
  forall m e (r : frun ABS NOLIM react),
  reachable_if false ABS NOLIM react any_label m e (f_st _ _ _ r 0) -> fair ABS NOLIM react r ->
  forall i msg0 rest, g_ist (s_g (f_st _ _ _ r i)) = ILive -> c_q (g_ci (s_g (f_st _ _ _ r i))) = msg0 :: rest ->
  exists j, i <= j /\ (g_ist (s_g (f_st _ _ _ r j)) = IExited \/
                       c_rcvd (g_ci (s_g (f_st _ _ _ r j))) = c_rcvd (g_ci (s_g (f_st _ _ _ r i))) ++ [msg0]).
Proof. exact (fun react H => queued_message_eventually_received ABS NOLIM react eq_refl H). Qed.
Print Assumptions c11_queued_message_eventually_received.

(* ---- the WaitCondition counting contract the wait-condition mode rests on: a wait entered, or pending, while the
   condition's notification count is positive returns at once and zeroes the count -- no receive stays parked while its
   count is positive (so a stale notification, left behind by a receive that found its Message without waiting, can only
   cause a spurious wake-up, never hide a later Notify()).  The real WaitAux / WaitUntilAux are checked against it by the
   controlled runs (untimed) and by the real-clock timed scenarios of the check (f=3). ---- *)
Theorem c11_no_receive_parks_while_notified : forall react s t x w,
  g_sockets (s_g s) = false -> l_pc (s_l s t) = PRecvPark x w -> (0 < c_wc (ch (s_g s) x))%N ->
  exists s', sys_step false ABS NOLIM react s (LStep (U t) CRun) = Some (s', [EWoken]) /\
             c_wc (ch (s_g s') x) = 0%N /\ l_pc (s_l s' t) = PRecvAbsorb x w.
Proof. exact (no_receive_parks_while_notified false ABS NOLIM). Qed.
Print Assumptions c11_no_receive_parks_while_notified.
