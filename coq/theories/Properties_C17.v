(* C17 -- property theorems only: each is closed by [exact] of a lemma proved elsewhere.
   M, TH, PG, OV are the constants translated from /repo (Gen/Consts.v); [jk] is the value of indeterminate bytes. *)
From Coq Require Import List NArith ZArith.
From Muscle Require Import Gen.Consts Cont.StrL0 Cont.StrModel Cont.StrSpec Cont.StrLemmas Cont.StrCore Cont.StrDist Cont.StrOps Cont.StrRefine Cont.StrProofs.
Import ListNotations.
Local Open Scope N_scope.

Local Notation M := c_STRING_MAX_SHORT_LENGTH.
Local Notation TH := c_string_small_growth_threshold.
Local Notation PG := c_string_page_size.
Local Notation OV := c_string_malloc_overhead.

Theorem C17_consts_ok :
  c_STRING_SIZEOF = c_STRING_MAX_SHORT_LENGTH + 1 /\ 1 <= c_STRING_MAX_SHORT_LENGTH < 128 /\
  c_MUSCLE_NO_LIMIT = NOLIMIT /\ c_STRING_MAX_LENGTH = 2147483646 /\
  c_STRING_MAX_SHORT_LENGTH + 1 < c_string_small_growth_threshold /\
  c_string_malloc_overhead < c_string_page_size.
Proof. exact consts_ok. Qed.
Print Assumptions C17_consts_ok.

(* every operation, from every storage state, with every (possibly aliasing) operand: invariant kept, result and
   value equal to those of the ideal byte string *)
Theorem C17_step_refines : forall jk s o,
  inv M s -> nulfree (abs M s) -> op_ok (abs M s) o ->
  inv M (fst (step1 M TH PG OV jk true s o)) /\
  abs M (fst (step1 M TH PG OV jk true s o)) = fst (step0 (abs M s) o) /\
  abs_out M (snd (step1 M TH PG OV jk true s o)) = snd (step0 (abs M s) o) /\
  out_inv M (snd (step1 M TH PG OV jk true s o)).
Proof. exact c17_step_refines. Qed.
Print Assumptions C17_step_refines.

(* ... lifted to every operation list *)
Theorem C17_exec_refines : forall jk ops s,
  inv M s -> nulfree (abs M s) -> run_ok (abs M s) ops ->
  inv M (fst (exec1 M TH PG OV jk true s ops)) /\ nulfree (abs M (fst (exec1 M TH PG OV jk true s ops))) /\
  abs M (fst (exec1 M TH PG OV jk true s ops)) = fst (exec0 (abs M s) ops) /\
  map (abs_out M) (snd (exec1 M TH PG OV jk true s ops)) = snd (exec0 (abs M s) ops) /\
  Forall (out_inv M) (snd (exec1 M TH PG OV jk true s ops)).
Proof. exact c17_exec_refines. Qed.
Print Assumptions C17_exec_refines.

Theorem C17_from_empty : forall jk ops,
  run_ok [] ops ->
  let r := exec1 M TH PG OV jk true (empty1 M jk) ops in
  inv M (fst r) /\ abs M (fst r) = fst (exec0 [] ops) /\ map (abs_out M) (snd r) = snd (exec0 [] ops).
Proof. exact c17_from_empty. Qed.
Print Assumptions C17_from_empty.

(* small buffer or heap, any capacity: same bytes => same behaviour *)
Theorem C17_storage_irrelevant : forall jk ops s1 s2,
  inv M s1 -> inv M s2 -> nulfree (abs M s1) -> abs M s1 = abs M s2 -> run_ok (abs M s1) ops ->
  abs M (fst (exec1 M TH PG OV jk true s1 ops)) = abs M (fst (exec1 M TH PG OV jk true s2 ops)) /\
  map (abs_out M) (snd (exec1 M TH PG OV jk true s1 ops)) = map (abs_out M) (snd (exec1 M TH PG OV jk true s2 ops)).
Proof. exact c17_storage_irrelevant. Qed.
Print Assumptions C17_storage_irrelevant.

(* an operand that aliases the String (the String itself, or a pointer into its buffer) behaves as a separate copy *)
Theorem C17_alias_eq : forall jk s o,
  inv M s -> nulfree (abs M s) -> op_ok (abs M s) o ->
  abs M (fst (step1 M TH PG OV jk true s o)) = abs M (fst (step1 M TH PG OV jk true s (dealias (abs M s) o))) /\
  abs_out M (snd (step1 M TH PG OV jk true s o)) = abs_out M (snd (step1 M TH PG OV jk true s (dealias (abs M s) o))).
Proof. exact c17_alias_eq. Qed.
Print Assumptions C17_alias_eq.

(* Flatten = bytes + NUL; Unflatten of that gives an equal String; unterminated input is rejected *)
Theorem C17_flatten_roundtrip : forall jk s t,
  inv M s -> nulfree (abs M s) -> slen M s + 1 < LIM -> inv M t ->
  flatten1 M s = abs M s ++ [0] /\
  exists t', unflatten1 M TH PG OV jk true t (flatten1 M s) = (StOk, t') /\ inv M t' /\ abs M t' = abs M s.
Proof. exact c17_flatten_roundtrip. Qed.
Print Assumptions C17_flatten_roundtrip.
Theorem C17_unflatten_rejects_unterminated : forall jk t bytes,
  inv M t -> lenN bytes < LIM -> nulfree bytes -> unflatten1 M TH PG OV jk true t bytes = (StErr, t).
Proof. exact c17_unflatten_rejects. Qed.
Print Assumptions C17_unflatten_rejects_unterminated.

(* Unflatten through a DataUnflattener that is a window onto a larger array and has already been read from (run_pre): bytes
   outside the window never influence status, value or bytes consumed; an unterminated remainder is rejected with the
   String and the read position unchanged; the read position never leaves the window *)
Theorem C17_unflatten_window_local : forall jk fx s a1 a2 win ps,
  takeN win a1 = takeN win a2 ->
  step1 M TH PG OV jk fx s (OUnflattenW a1 win ps) = step1 M TH PG OV jk fx s (OUnflattenW a2 win ps).
Proof. exact c17_unflatten_window_local. Qed.
Print Assumptions C17_unflatten_window_local.
Theorem C17_unflatten_window_rejects : forall jk s arena win ps,
  inv M s -> lenN arena < LIM -> nulfree (win_remaining arena win (run_pre arena win ps)) ->
  step1 M TH PG OV jk true s (OUnflattenW arena win ps) = (s, R1Int (w_result false (run_pre arena win ps))).
Proof. exact c17_unflatten_window_rejects. Qed.
Print Assumptions C17_unflatten_window_rejects.
Theorem C17_window_consumed_le : forall arena win ps, snd (read_cstr_w arena win (run_pre arena win ps)) <= win.
Proof. exact window_consumed_le. Qed.
Print Assumptions C17_window_consumed_le.

(* F9 (domain boundary, not a finding): an embedded NUL truncates the flatten/unflatten round trip *)
Theorem C17_nul_string_truncates : forall jk s t a b,
  inv M s -> abs M s = a ++ 0 :: b -> nulfree a -> slen M s + 1 < LIM -> inv M t ->
  flatten1 M s = abs M s ++ [0] /\
  exists t', unflatten1 M TH PG OV jk true t (flatten1 M s) = (StOk, t') /\ abs M t' = a.
Proof. exact c17_nul_string_truncates. Qed.
Print Assumptions C17_nul_string_truncates.

(* no size premise: Prealloc / ShrinkToFit keep the value for every argument (F27, F31 repaired) *)
Theorem C17_prealloc_value_safe : forall jk s n,
  inv M s -> inv M (snd (prealloc M TH PG OV jk true s n)) /\ abs M (snd (prealloc M TH PG OV jk true s n)) = abs M s.
Proof. exact c17_prealloc_value_safe. Qed.
Print Assumptions C17_prealloc_value_safe.
Theorem C17_shrink_value_safe : forall jk s extra,
  inv M s -> inv M (snd (shrink_to_fit M TH PG OV jk true s extra)) /\ abs M (snd (shrink_to_fit M TH PG OV jk true s extra)) = abs M s.
Proof. exact c17_shrink_value_safe. Qed.
Print Assumptions C17_shrink_value_safe.

(* after ShrinkToFit() the storage mode is the one the length calls for *)
Theorem C17_shrink_mode : forall jk s, inv M s -> slen M s + 1 < 2147483648 ->
  let s' := snd (shrink_to_fit M TH PG OV jk true s 0) in
  (slen M s <= M -> is_long s' = false) /\ (M < slen M s -> is_long s' = true /\ cap M s' = slen M s + 1).
Proof. exact c17_shrink_mode. Qed.
Print Assumptions C17_shrink_mode.

(* the pinned tree violated the statement (findings F27, F28, F31); witnesses replayed on the real code *)
Theorem C17_pinned_prealloc_refuted :
  exists s n, abs pM s = [97; 98; 99] /\
              fst (prealloc pM pTH pPG pOV 170 false s n) = StOk /\ abs pM (snd (prealloc pM pTH pPG pOV 170 false s n)) = [].
Proof. exact pinned_prealloc_refuted. Qed.
Print Assumptions C17_pinned_prealloc_refuted.
Theorem C17_pinned_unflatten_refuted :
  exists s bytes, nulfree bytes /\ fst (unflatten1 pM pTH pPG pOV 170 false s bytes) = StOk.
Proof. exact pinned_unflatten_refuted. Qed.
Print Assumptions C17_pinned_unflatten_refuted.
Theorem C17_pinned_shrink_refuted :
  exists s extra, let s' := snd (shrink_to_fit pM pTH pPG pOV 170 false s extra) in
                  abs pM s = [97; 98; 99] /\ abs pM s' = [97; 98].
Proof. exact pinned_shrink_refuted. Qed.
Print Assumptions C17_pinned_shrink_refuted.

(* GetDistanceTo: the repaired early exit (row minimum >= maxResult) computes the capped Levenshtein distance *)
Theorem C17_distance_code_fixed : forall a b max, distance_code true a b max = l0_distance a b max.
Proof. exact distance_code_fixed. Qed.
Print Assumptions C17_distance_code_fixed.

Theorem C17_pinned_distance_refuted :
  exists a b max, l0_distance a b max < max /\ distance_code false a b max = max.
Proof. exact pinned_distance_refuted. Qed.
Print Assumptions C17_pinned_distance_refuted.

Theorem C17_pinned_multi_match_refuted :
  exists key l, key_at [(key, [88])] (dropN 1 l) = Some (key, [88]) /\ naive_matches key key l 0 = [].
Proof. exact pinned_multi_match_refuted. Qed.
Print Assumptions C17_pinned_multi_match_refuted.

(* non-vacuity: the domain holds a boundary-crossing, aliasing script and two storage modes of one value *)
Example C17_domain_inhabited : run_ok [] ex_ops.
Proof. exact ex_run_ok. Qed.
Example C17_domain_inhabited2 : run_ok [] ex_ops2.
Proof. exact ex_run_ok2. Qed.
Example C17_two_modes :
  let s1 := abc1 true 0 in let s2 := abc1 true 40 in
  inv pM s1 /\ inv pM s2 /\ is_long s1 = false /\ is_long s2 = true /\ abs pM s1 = abs pM s2 /\ nulfree (abs pM s1) /\
  op_ok (abs pM s1) (OAppendC (CSelf 1)) /\ slen pM s1 + 1 < LIM.
Proof. exact ex_two_modes. Qed.
