(* C17 -- property theorems only: each is closed by [exact] of a lemma proved elsewhere. *)
From Coq Require Import List NArith ZArith.
From Muscle Require Import Gen.Consts Cont.StrL0 Cont.StrModel Cont.StrProofs.
Local Open Scope N_scope.

Theorem C17_consts_ok :
  c_STRING_SIZEOF = c_STRING_MAX_SHORT_LENGTH + 1 /\ 1 <= c_STRING_MAX_SHORT_LENGTH < 128 /\
  c_MUSCLE_NO_LIMIT = NOLIMIT /\ c_STRING_MAX_LENGTH = 2147483646 /\
  c_STRING_MAX_SHORT_LENGTH + 1 < c_string_small_growth_threshold /\
  c_string_malloc_overhead < c_string_page_size.
Proof. exact consts_ok. Qed.
Print Assumptions C17_consts_ok.
