(* Msg/MsgInstrProofs.v -- C02: proofs about the instrumented parser model (MsgInstr.v). *)
From Coq Require Import List NArith Bool Lia ZifyBool Strings.Byte.
From Muscle Require Import Gen.Consts Msg.MsgDefs Msg.MsgInstr.
Import ListNotations.
Local Open Scope N_scope.

Lemma len_nonneg {A} (l : list A) : 0 <= len l.
Proof. lia. Qed.
