(* Msg/MsgInstrProofs.v -- C02: proofs about the instrumented parser model (MsgInstr.v), part 1:
   the safety invariant of Message::Unflatten.

   For a fixed received buffer [bs] (L = its length, L < 2^31) every function of the model is shown to satisfy one
   combined specification [safe F B m]: started on a reader whose window lies inside the buffer ([rok]) and a log whose
   accesses are all in bounds ([lok]), it ends with such a reader and such a log, leaves the window (base, limit) alone,
   never moves the cursor backwards, never reaches an MCRASH, loads no non-boolean byte into a bool, does not run out of
   fuel when the fuel exceeds the bytes available ([F]), and deepens the recorded nesting level by at most what the
   bytes available can pay for at 28 bytes per level ([B]).  The loops go by induction on their fuel, Message::Unflatten
   by induction on the nesting fuel with the next level as hypothesis. *)
From Coq Require Import List NArith Bool Lia ZifyBool Strings.Byte.
From Muscle Require Import Gen.Consts Msg.MsgDefs Msg.MsgInstr.
Import ListNotations.
Local Open Scope N_scope.

(* ------------------------------------------------------------------ lists measured in N *)
Lemma len_nat {A} (l : list A) : len l = N.of_nat (length l).
Proof. induction l as [|x t IH]; cbn [len length]; [reflexivity | rewrite IH; lia]. Qed.

Lemma len_nil_iff {A} (l : list A) : len l = 0 <-> l = [].
Proof. destruct l; cbn [len]; split; intro H; try reflexivity; try discriminate; lia. Qed.

Lemma len_takeN {A} (k : N) (l : list A) : len (takeN k l) = N.min k (len l).
Proof.
  revert k; induction l as [|x t IH]; intro k; cbn [takeN len]; [lia|].
  destruct (N.eqb_spec k 0) as [->|Hk]; cbn [len]; [lia|].
  rewrite IH. lia.
Qed.

Lemma len_dropN {A} (k : N) (l : list A) : len (dropN k l) = len l - k.
Proof.
  revert k; induction l as [|x t IH]; intro k; cbn [dropN len]; [lia|].
  destruct (N.eqb_spec k 0) as [->|Hk]; cbn [len]; [lia|].
  rewrite IH. lia.
Qed.

Lemma len_app {A} (a b : list A) : len (a ++ b) = len a + len b.
Proof. induction a as [|x t IH]; cbn [app len]; [lia | rewrite IH; lia]. Qed.

Lemma nul_index_bounds (w : bytes) (i k : N) : nul_index w i = Some k -> i <= k /\ k < i + len w.
Proof.
  revert i; induction w as [|b t IH]; intro i; cbn [nul_index len]; [discriminate|].
  destruct (is_nul b).
  - intro H; injection H as <-. lia.
  - intro H. apply IH in H. lia.
Qed.

(* ------------------------------------------------------------------ what a parsed Message looks like *)
Definition nul_free (s : bytes) : Prop := nul_index s 0 = None.
Definition fix_ok (ft : ftype) (bs : bytes) : Prop :=
  match ft with TBool => bs = [x00] \/ bs = [x01] | _ => len bs = cpp_size ft end.

(* every item has the kind its field's type code calls for, fixed-width items have exactly their width (bools are 0/1),
   strings and field names hold no NUL, what-codes and type codes are 32-bit values -- at every nesting level *)
Fixpoint shape_msg (m : msg) : Prop :=
  match m with Msg w fs => w < two32 /\ shape_fields fs end
with shape_fields (fs : fields) : Prop :=
  match fs with
  | FNil => True
  | FCons n tc r t => nul_free n /\ tc < two32 /\ shape_repr (ftype_of_tc tc) r /\ shape_fields t
  end
with shape_repr (ft : ftype) (r : repr) {struct r} : Prop :=
  match r with RInline i => shape_item ft i | RArray l => shape_items ft l end
with shape_item (ft : ftype) (i : item) {struct i} : Prop :=
  match i with
  | IFix bs => ft_fixed ft = true /\ fix_ok ft bs
  | IStr s => ft = TString /\ nul_free s
  | IRaw _ => ft = TRaw
  | IMsg m => ft = TMessage /\ shape_msg m
  | IOpaque _ => False
  end
with shape_items (ft : ftype) (l : items) {struct l} : Prop :=
  match l with INil => True | ICons i t => shape_item ft i /\ shape_items ft t end.

Lemma shape_items_snoc ft l i : shape_items ft l -> shape_item ft i -> shape_items ft (items_snoc l i).
Proof.
  unfold items_snoc. induction l as [|j t IH]; cbn [items_app shape_items]; intros H Hi; [tauto|].
  destruct H as [Hj Ht]. split; [exact Hj | apply IH; assumption].
Qed.

Lemma shape_fields_snoc fs n tc r :
  shape_fields fs -> nul_free n -> tc < two32 -> shape_repr (ftype_of_tc tc) r -> shape_fields (fsnoc fs n tc r).
Proof.
  unfold fsnoc. induction fs as [|k tc' r' t IH]; cbn [fapp shape_fields]; intros H Hn Ht Hr; [tauto|].
  destruct H as (A & B & C & D). repeat split; try assumption. apply IH; assumption.
Qed.

(* fset keeps the stored type code of the entry it overwrites; the caller passes that same code *)
Lemma shape_fields_set fs n tc r :
  shape_fields fs -> (forall tc' r', flookup n fs = Some (tc', r') -> tc = tc') ->
  shape_repr (ftype_of_tc tc) r -> shape_fields (fset n tc r fs).
Proof.
  induction fs as [|k tc' r' t IH]; cbn [fset shape_fields flookup]; intros H Hl Hr; [exact I|].
  destruct H as (A & B & C & D). destruct (bytes_eqb n k) eqn:E.
  - specialize (Hl tc' r' eq_refl). subst tc'. cbn [shape_fields]. repeat split; assumption.
  - cbn [shape_fields]. repeat split; try assumption. apply IH; assumption.
Qed.

Lemma nul_index_none w : forall i j, nul_index w i = None -> nul_index w j = None.
Proof.
  induction w as [|b t IH]; intros i j; cbn [nul_index]; [reflexivity|].
  destruct (is_nul b); [discriminate | apply IH].
Qed.

(* the bytes before the first NUL hold none *)
Lemma nul_index_prefix w : forall i k, nul_index w i = Some k -> nul_free (takeN (k - i) w).
Proof.
  unfold nul_free. induction w as [|b t IH]; intros i k; cbn [nul_index]; [discriminate|].
  destruct (is_nul b) eqn:Eb.
  - intro H; injection H as <-. rewrite N.sub_diag. cbn [takeN]. reflexivity.
  - intro H. pose proof (nul_index_bounds _ _ _ H) as [Hb _].
    cbn [takeN]. destruct (N.eqb_spec (k - i) 0) as [Hz|Hz]; [reflexivity|].
    cbn [nul_index]. rewrite Eb.
    specialize (IH (N.succ i) k H). apply (nul_index_none _ 0 (N.succ 0)).
    replace (N.pred (k - i)) with (k - N.succ i) by lia. exact IH.
Qed.

Lemma takeN_takeN {A} (a b : N) (l : list A) : a <= b -> takeN a (takeN b l) = takeN a l.
Proof.
  revert a b; induction l as [|x t IH]; intros a b H; cbn [takeN]; [reflexivity|].
  destruct (N.eqb_spec b 0) as [->|Hb].
  - replace a with 0 by lia. cbn [takeN]. reflexivity.
  - cbn [takeN]. destruct (N.eqb_spec a 0); [reflexivity|]. f_equal. apply IH. lia.
Qed.

Lemma N_of_byte_lt b : N_of_byte b < 256.
Proof. unfold N_of_byte. pose proof (Byte.to_N_bounded b). lia. Qed.

Lemma le_dec_lt bs : le_dec bs < 256 ^ len bs.
Proof.
  induction bs as [|b t IH]; cbn [le_dec len]; [cbn; lia|].
  rewrite N.pow_succ_r'. pose proof (N_of_byte_lt b). nia.
Qed.

Lemma le_dec_u32 bs : len bs <= 4 -> le_dec bs < two32.
Proof.
  intro H. pose proof (le_dec_lt bs) as Hb.
  assert (256 ^ len bs <= 256 ^ 4) by (apply N.pow_le_mono_r; lia).
  unfold two32. change (256 ^ 4) with 4294967296 in *. lia.
Qed.

Lemma bool_items_shape b : shape_items TBool (bool_items b).
Proof.
  induction b as [|x t IH]; cbn [bool_items shape_items]; [exact I|].
  split; [|exact IH]. cbn [shape_item]. split; [reflexivity|]. unfold fix_ok, norm_bool. destruct (is_nul x); tauto.
Qed.

Lemma split_items_shape ft sz : ft_fixed ft = true -> ft <> TBool -> cpp_size ft = sz ->
  forall n w, len w = N.of_nat n * sz -> shape_items ft (split_items n sz w).
Proof.
  intros Hf Hb Hs. induction n as [|n IH]; intros w Hw; cbn [split_items shape_items]; [exact I|].
  split.
  - cbn [shape_item]. split; [exact Hf|]. unfold fix_ok. destruct ft; try congruence; rewrite len_takeN; lia.
  - apply IH. rewrite len_dropN. lia.
Qed.

(* ------------------------------------------------------------------ the invariant *)
Section Safety.
  Variable bs : bytes.
  Let L : N := len bs.
  Hypothesis HL : L < 2147483648.

  Definition rok (r : rdr) : Prop := r_base r + r_max r <= L /\ r_rd r <= r_max r.
  Definition lok (l : log) : Prop := Forall (in_bounds L) (l_tr l).
  Definition frame (r r' : rdr) : Prop := r_base r' = r_base r /\ r_max r' = r_max r /\ r_rd r <= r_rd r'.

  (* the allocation bound: KA model-bytes of requests per byte of input *)
  Definition KA : N := 128.

  (* [F]: when does the fuel suffice;  [B]: 28 * (deepest level this call may record);  [P]: bytes a successful call
     consumes at least;  [E]: allocation the call may make beyond KA bytes per byte it consumes (paid for by bytes the
     caller has consumed already);  [Q]: what holds of the value a successful call returns.  The two allocation clauses: a successful call allocates at most KA per byte it
     consumed (+E); a failing call at most KA per byte that was available to it (+E). *)
  Definition post {A} (F : rdr -> Prop) (B : rdr -> N) (P E : N) (Q : A -> Prop) (r : rdr) (l : log) (y : res A * rdr * log) : Prop :=
    let '(x, r', l') := y in
    rok r' /\ frame r r' /\ lok l' /\ x <> Crash /\ (F r -> x <> Fuel) /\ l_ub l' = l_ub l /\
    (l_dp l' <= l_dp l \/ 28 * l_dp l' <= B r) /\ (forall a, x = Ok a -> r_rd r + P <= r_rd r') /\
    (forall a, x = Ok a -> l_al l' + KA * r_rd r <= l_al l + KA * r_rd r' + E) /\
    (x = Err -> l_al l' <= l_al l + KA * avail r + E) /\
    (forall a, x = Ok a -> Q a).
  Definition safe {A} (F : rdr -> Prop) (B : rdr -> N) (P E : N) (Q : A -> Prop) (m : M A) : Prop :=
    forall r l, rok r -> lok l -> post F B P E Q r l (m r l).

  Lemma NOLIM_val : NOLIM = 4294967295.  Proof. reflexivity. Qed.
  Lemma W_val : W = 4.  Proof. reflexivity. Qed.

  Lemma avail_ok r : rok r -> avail r = r_max r - r_rd r.
  Proof.
    intros [H1 H2]. unfold avail. rewrite NOLIM_val.
    destruct (N.eqb_spec (r_max r) 4294967295); [lia|].
    destruct (N.ltb_spec (r_rd r) (r_max r)); lia.
  Qed.

  Lemma lok_touch o k l : lok l -> o + k <= L -> lok (touch o k l).
  Proof. intros H Hb. unfold lok, touch; cbn [l_tr]. constructor; [exact Hb | exact H]. Qed.

  Lemma len_slice o k : o + k <= L -> len (slice bs o k) = k.
  Proof. intro H. unfold slice. rewrite len_takeN, len_dropN. fold L. lia. Qed.

  Lemma fix_item_shape ft o k : ft_fixed ft = true -> ft <> TBool -> cpp_size ft = k -> o + k <= L ->
    shape_item ft (IFix (slice bs o k)).
  Proof.
    intros Hf Hb Hs Ho. cbn [shape_item]. split; [exact Hf|]. unfold fix_ok.
    destruct ft; try congruence; rewrite len_slice by lia; lia.
  Qed.

  Lemma slice_u32 o : le_dec (slice bs o 4) < two32.
  Proof. apply le_dec_u32. unfold slice. rewrite len_takeN. lia. Qed.

  Lemma frame_refl r : frame r r.
  Proof. unfold frame; repeat split; lia. Qed.

  Lemma frame_trans a b c : frame a b -> frame b c -> frame a c.
  Proof. unfold frame; intros (A1 & A2 & A3) (B1 & B2 & B3); repeat split; lia. Qed.


  Definition fuel_ok (k : nat) (r : rdr) : Prop := avail r < N.of_nat k.

  (* ---------------------------------------------------------------- proof automation *)
  Ltac brk :=
    match goal with
    | |- context [if (N.eqb ?a ?b) || _ then _ else _] => destruct (N.eqb_spec a b); cbn [orb]
    | |- context [if (N.ltb ?a ?b) || _ then _ else _] => destruct (N.ltb_spec a b); cbn [orb]
    | |- context [if (N.leb ?a ?b) && _ then _ else _] => destruct (N.leb_spec a b); cbn [andb]
    | |- context [if N.leb ?a ?b then _ else _] => destruct (N.leb_spec a b)
    | |- context [if N.ltb ?a ?b then _ else _] => destruct (N.ltb_spec a b)
    | |- context [if negb (N.eqb ?a ?b) then _ else _] => destruct (N.eqb_spec a b); cbn [negb]
    | |- context [if N.eqb ?a ?b then _ else _] => destruct (N.eqb_spec a b)
    end.
  Ltac brkh :=
    match goal with
    | H : context [if N.ltb ?a ?b then _ else _] |- _ => destruct (N.ltb_spec a b)
    | H : context [if N.leb ?a ?b then _ else _] |- _ => destruct (N.leb_spec a b)
    | H : context [if N.eqb ?a ?b then _ else _] |- _ => destruct (N.eqb_spec a b)
    end.
  Ltac costs := unfold KA, cost_msg, cost_entry, cost_arr, cost_bb, cost_ref, grow, tbl_default, str_cost, W,
                  c_SIZEOF_Message, c_SIZEOF_uint32, c_SIZEOF_String, c_SIZEOF_MessageField, c_SIZEOF_ByteBuffer,
                  c_SIZEOF_MessageRef, c_MUSCLE_HASHTABLE_DEFAULT_CAPACITY, c_STRING_MAX_SHORT_LENGTH in *.
  Ltac rcbn := unfold pos in *; cbn [r_base r_rd r_max r_bad l_tr l_al l_dp l_ub adv flag set_rd set_max touch charge deepen undef fst snd] in *.
  Ltac rokt := pose proof HL as HLr; unfold rok, frame in *; rcbn; lia.
  Ltac lokt := pose proof HL as HLk; unfold lok, rok in *; rcbn; repeat (apply Forall_cons; [unfold in_bounds; cbn [fst snd]; try lia|]); try assumption.

  (* replace [avail x] for a compound reader x by its value, once the window invariant of x follows from the context *)
  Ltac avs :=
    repeat match goal with
    | H : context [avail ?x] |- _ =>
        lazymatch x with
        | adv _ _ => idtac | set_rd _ _ => idtac | set_max _ _ => idtac | flag _ => idtac | mkR _ _ _ _ => idtac
        end;
        let E := fresh "E" in
        assert (E : avail x = r_max x - r_rd x) by (apply avail_ok; rokt);
        rewrite E in *; clear E; rcbn
    | |- context [avail ?x] =>
        lazymatch x with
        | adv _ _ => idtac | set_rd _ _ => idtac | set_max _ _ => idtac | flag _ => idtac | mkR _ _ _ _ => idtac
        end;
        let E := fresh "E" in
        assert (E : avail x = r_max x - r_rd x) by (apply avail_ok; rokt);
        rewrite E in *; clear E; rcbn
    end.

  (* every quotient a/c by a numeral becomes an opaque N variable q with c*q <= a (lia forgets that N quotients are >= 0) *)
  Ltac divs :=
    repeat match goal with
    | H : context [?a / ?c] |- _ =>
        pose proof (N.mul_div_le a c ltac:(lia)); let q := fresh "q" in set (q := a / c) in *; clearbody q
    | |- context [?a / ?c] =>
        pose proof (N.mul_div_le a c ltac:(lia)); let q := fresh "q" in set (q := a / c) in *; clearbody q
    end.

  (* instantiate what the sub-calls promised for the outcome they actually had *)
  Ltac inst :=
    repeat match goal with
    | H : _ /\ _ |- _ => destruct H
    | H : Err = Err -> _ |- _ => specialize (H eq_refl)
    | H : forall b, Ok ?m = Ok b -> _ |- _ => specialize (H _ eq_refl)
    | H : Ok _ = Err -> _ |- _ => clear H
    | H : Fuel = Err -> _ |- _ => clear H
    | H : forall b, Err = Ok b -> _ |- _ => clear H
    | H : forall b, Fuel = Ok b -> _ |- _ => clear H
    end.

  (* split a goal [post ..] on a concrete final state and close what follows from the context directly *)
  Ltac done_post :=
    try (exfalso; match goal with H : Crash <> Crash |- _ => apply H; reflexivity end);
    pose proof HL as HLd; unfold post, ret, err, crash, nofuel; rcbn;
    repeat match goal with |- _ /\ _ => split end;
    try assumption; try (unfold rok, frame in *; rcbn; lia); try lokt; try discriminate; try (intros; discriminate).
  (* what [done_post] leaves: the fuel implication, the depth alternative, the progress and allocation bounds *)
  Ltac rest :=
    pose proof HL as HLq;
    try (intro HF;
         match goal with H : _ -> ?x <> Fuel |- ?x <> Fuel => apply H end;
         inst; unfold fuel_ok, rok, frame in *; rcbn; avs; lia);
    try (intro HF; exfalso;
         match goal with H : _ -> Fuel <> Fuel |- _ => apply H; [|reflexivity] end;
         inst; unfold fuel_ok in *; avs; unfold rok, frame in *; rcbn; lia);
    try (inst; repeat match goal with H : _ \/ _ |- _ => destruct H end; avs; unfold rok, frame in *; rcbn; first [left; lia | right; lia]);
    try (let a := fresh "a" in let Hx := fresh "Hx" in intros a Hx; try discriminate;
         repeat match goal with H : forall b, ?x = Ok b -> _ |- _ => specialize (H _ Hx) end;
         inst; avs; unfold rok, frame in *; rcbn; costs; divs; repeat brk; repeat brkh; lia);
    try (let Hx := fresh "Hx" in intro Hx; try discriminate;
         repeat match goal with H : ?x = Err -> _ |- _ => specialize (H Hx) end;
         inst; avs; unfold rok, frame in *; rcbn; costs; divs; repeat brk; repeat brkh; lia).
  (* the value clause: the returned value is explicit; its shape follows from the facts collected about its parts *)
  Ltac qfin :=
    try (let a := fresh "a" in let E := fresh "E" in
         intros a E; first [discriminate E | injection E as <-];
         inst; cbn [shape_msg shape_fields shape_repr shape_item shape_items];
         repeat match goal with |- _ /\ _ => split end;
         auto using shape_items_snoc, shape_fields_snoc, bool_items_shape, slice_u32; try reflexivity; try exact I;
         try (unfold fix_ok; cbn [cpp_size] in *; rewrite ?len_slice by (pose proof HL; unfold rok, frame in *; rcbn; lia); reflexivity);
         try (unfold fix_ok; tauto);
         try (apply split_items_shape; [reflexivity | discriminate | reflexivity |
              rewrite len_slice by (pose proof HL; unfold rok, frame in *; rcbn; lia); rewrite N2Nat.id; lia]);
         try (unfold fix_ok; brk; tauto)).
  Ltac fin := done_post; rest; try (intros; exact I); qfin.

  (* use a [safe] fact [S] about the call [fn r' l'] that blocks the goal: proves the invariant of the intermediate
     state, destructs the call's result and leaves the components of its postcondition in the context *)
  Ltac use S fn :=
    lazymatch goal with |- context [fn ?r' ?l'] =>
      let Hr' := fresh "Hr" in let Hl' := fresh "Hl" in let P := fresh "P" in let Ha' := fresh "Ha" in
      assert (Hr' : rok r') by rokt;
      assert (Hl' : lok l') by (lokt; rokt);
      pose proof (S r' l' Hr' Hl') as P; pose proof (avail_ok r' Hr') as Ha';
      let x := fresh "x" in let r2 := fresh "r" in let l2 := fresh "l" in
      destruct (fn r' l') as [[x r2] l2]; unfold post in P;
      let P1 := fresh "Prok" in let P2 := fresh "Pfr" in let P3 := fresh "Plok" in let P4 := fresh "Pcr" in
      let P5 := fresh "Pfu" in let P6 := fresh "Pub" in let P7 := fresh "Pdp" in let P8 := fresh "Ppr" in
      let P9 := fresh "Pao" in let P10 := fresh "Pae" in let P11 := fresh "Pq" in
      destruct P as (P1 & P2 & P3 & P4 & P5 & P6 & P7 & P8 & P9 & P10 & P11);
      let Ha2 := fresh "Ha" in pose proof (avail_ok r2 P1) as Ha2
    end.

  (* the same, with an additional fact [T r' l' Hrok] about the same call *)
  Ltac use_t S T fn :=
    lazymatch goal with |- context [fn ?r' ?l'] =>
      let Hr' := fresh "Hr" in let Ht := fresh "Ht" in
      assert (Hr' : rok r') by rokt;
      let Hl' := fresh "Hl" in assert (Hl' : lok l') by (lokt; rokt);
      pose proof (T r' l' Hr' Hl') as Ht;
      use S fn;
      cbv beta iota zeta in Ht
    end.

  Ltac prims := unfold bnd, rd_u32, rd_val, rd_bytes, status, get_avail, get_pos, get_rd, alloc, enter, note_ub, guard, peek,
                       seek_to_end, seek_rel, seek_to, ret, err, crash, nofuel.
  Ltac brk_bad := match goal with |- context [if r_bad ?r then _ else _] => destruct (r_bad r) eqn:? end.
  Ltac go := repeat (cbv beta iota zeta; rcbn; avs; first [brk | brk_bad]); cbv beta iota zeta; rcbn; avs.

  (* ---------------------------------------------------------------- strings *)
  Lemma avail_child o n : n < 4294967295 -> avail (mkR o 0 n false) = n.
  Proof.
    intro H. unfold avail; cbn [r_max r_rd]. rewrite NOLIM_val.
    destruct (N.eqb_spec n 4294967295); [lia|]. destruct (N.ltb_spec 0 n); lia.
  Qed.

  Lemma rd_lp_string_safe : safe (fun _ => True) (fun _ => 0) 4 0 nul_free (rd_lp_string bs).
  Proof.
    pose proof HL as HL'. intros r l Hr Hl. pose proof (avail_ok r Hr) as Ha. unfold rd_lp_string. rewrite W_val.
    brk; [|fin].
    assert (Hr1 : rok (adv 4 r)) by (unfold rok in *; rcbn; lia).
    pose proof (avail_ok _ Hr1) as Ha1.
    brk; [|fin; unfold rok in *; rcbn; lia].
    match goal with H : ?n <= avail (adv 4 r) |- _ => set (n0 := n) in *; rename H into Hn end.
    rewrite Ha1 in Hn. rcbn.
    unfold read_cstring. rewrite avail_child by (unfold rok in *; lia). rcbn. rewrite NOLIM_val.
    destruct (N.eqb_spec n0 0) as [Hz|Hz]; [fin; unfold rok in *; lia|].
    destruct (N.eqb_spec n0 4294967295) as [Hbig|_]; [unfold rok in Hr; lia|].
    match goal with |- context [nul_index ?w 0] => destruct (nul_index w 0) as [k|] eqn:Ek end.
    - pose proof (nul_index_prefix _ _ _ Ek) as Hnf. rewrite N.sub_0_r in Hnf. unfold slice in Hnf.
      apply nul_index_bounds in Ek. unfold slice in Ek. rewrite len_takeN in Ek.
      rewrite takeN_takeN in Hnf by lia.
      fin; try (unfold rok in *; lia).
    - fin; unfold rok in *; lia.
  Qed.

  (* a string costs at most its own bytes: tight allocation facts, whatever the outcome *)
  Lemma rd_lp_string_tight r l : rok r ->
    let '(x, r', l') := rd_lp_string bs r l in l_al l' + r_rd r <= l_al l + r_rd r'.
  Proof.
    pose proof HL as HL'. intro Hr. pose proof (avail_ok r Hr) as Ha. unfold rd_lp_string. rewrite W_val.
    brk; [|rcbn; lia].
    assert (Hr1 : rok (adv 4 r)) by rokt.
    pose proof (avail_ok _ Hr1) as Ha1.
    brk; [|rcbn; lia].
    match goal with H : ?n <= avail (adv 4 r) |- _ => set (n0 := n) in *; rename H into Hn end.
    rewrite Ha1 in Hn. rcbn.
    unfold read_cstring. rewrite avail_child by (unfold rok in *; lia). rcbn. rewrite NOLIM_val.
    destruct (N.eqb_spec n0 0) as [Hz|Hz]; [rcbn; lia|].
    destruct (N.eqb_spec n0 4294967295) as [Hbig|_]; [unfold rok in Hr; lia|].
    match goal with |- context [nul_index ?w 0] => destruct (nul_index w 0) as [k|] eqn:Ek end.
    - apply nul_index_bounds in Ek. unfold slice in Ek. rewrite len_takeN in Ek. rcbn. costs. brk; lia.
    - rcbn. lia.
  Qed.

  (* a string that was read lies, with its terminator and its length word, inside what was consumed *)
  Lemma rd_lp_string_name r l : rok r -> lok l ->
    let '(x, r', l') := rd_lp_string bs r l in forall s, x = Ok s -> r_rd r + 4 + len s + 1 <= r_rd r'.
  Proof.
    pose proof HL as HL'. intros Hr _. pose proof (avail_ok r Hr) as Ha. unfold rd_lp_string. rewrite W_val.
    brk; [|intros s E; discriminate].
    assert (Hr1 : rok (adv 4 r)) by rokt.
    pose proof (avail_ok _ Hr1) as Ha1.
    brk; [|intros s E; discriminate].
    match goal with H : ?n <= avail (adv 4 r) |- _ => set (n0 := n) in *; rename H into Hn end.
    rewrite Ha1 in Hn. rcbn.
    unfold read_cstring. rewrite avail_child by (unfold rok in *; lia). rcbn. rewrite NOLIM_val.
    destruct (N.eqb_spec n0 0) as [Hz|Hz]; [intros s E; discriminate|].
    destruct (N.eqb_spec n0 4294967295) as [Hbig|_]; [unfold rok in Hr; lia|].
    match goal with |- context [nul_index ?w 0] => destruct (nul_index w 0) as [k|] eqn:Ek end.
    - apply nul_index_bounds in Ek. unfold slice in Ek. rewrite len_takeN in Ek.
      intros s E. injection E as <-. unfold slice. rewrite len_takeN. rcbn. lia.
    - intros s E; discriminate.
  Qed.

  Lemma rd_lp_string_facts r l : rok r -> lok l ->
    let '(x, r', l') := rd_lp_string bs r l in
    l_al l' + r_rd r <= l_al l + r_rd r' /\ (forall s, x = Ok s -> r_rd r + 4 + len s + 1 <= r_rd r').
  Proof.
    intros Hr Hl. pose proof (rd_lp_string_tight r l Hr) as T. pose proof (rd_lp_string_name r l Hr Hl) as N.
    destruct (rd_lp_string bs r l) as [[x r1] l1]. split; assumption.
  Qed.

  Lemma u32_small x : x < 4294967296 -> u32 x = x.
  Proof. intro H. unfold u32, two32. apply N.mod_small; exact H. Qed.

  (* the reader a DataUnflattenerReadLimiter leaves behind while it is in force *)
  Lemma limited_rok r lim : rok r -> rok (set_max (u32 (r_rd r + N.min lim (avail r))) r)
                                    /\ u32 (r_rd r + N.min lim (avail r)) = r_rd r + N.min lim (r_max r - r_rd r).
  Proof.
    intro Hr. rewrite (avail_ok r Hr). unfold rok in *. pose proof HL as HL'. rewrite u32_small by lia. rcbn. split; [lia|reflexivity].
  Qed.


  (* ---------------------------------------------------------------- the item loops *)
  Lemma fix_items_loop_safe k : forall i n u rsz acc ft, 0 < rsz ->
    ft_fixed ft = true -> ft <> TBool -> cpp_size ft = rsz -> shape_items ft acc ->
    safe (fuel_ok k) (fun _ => 0) 0 0 (shape_items ft) (fix_items_loop bs k i n u rsz acc).
  Proof.
    pose proof HL as HL'. induction k as [|k IH]; intros i n u rsz acc ft Hrsz Hff Hfb Hfs Hacc r l Hr Hl; pose proof (avail_ok r Hr) as Ha;
      cbn [fix_items_loop]; brk; try (fin; try (intros a E; injection E as <-; exact Hacc); fail).
    - fin. intro HF; unfold fuel_ok in HF; cbn in HF; lia.
    - unfold bnd at 1. unfold with_limit.
      destruct (limited_rok r u Hr) as [Hr0 Hu]. rewrite Hu in *.
      unfold rd_bytes. go; try (fin; fail).
      match goal with |- context [fix_items_loop _ ?kk ?ii ?nn ?uu ?ss (items_snoc _ (IFix (slice _ ?o ?kx)))] =>
        assert (Hsh : shape_items ft (items_snoc acc (IFix (slice bs o kx))))
          by (apply shape_items_snoc; [exact Hacc | apply fix_item_shape; try assumption; unfold rok in *; lia])
      end.
      match goal with |- context [fix_items_loop _ ?kk ?ii ?nn ?uu ?ss ?aa] =>
        use (IH ii nn uu ss aa ft Hrsz Hff Hfb Hfs Hsh) (fix_items_loop bs kk ii nn uu ss aa) end.
      fin.
  Qed.

  Lemma str_items_loop_safe k : forall i n acc, shape_items TString acc ->
    safe (fuel_ok k) (fun _ => 0) (4 * (n - i)) 0 (shape_items TString) (str_items_loop bs k i n acc).
  Proof.
    pose proof HL as HL'. induction k as [|k IH]; intros i n acc Hacc r l Hr Hl; pose proof (avail_ok r Hr) as Ha;
      cbn [str_items_loop]; brk; try (fin; fail).
    - fin. intro HF; unfold fuel_ok in HF; cbn in HF; lia.
    - unfold bnd at 1.
      use rd_lp_string_safe (rd_lp_string bs).
      match goal with x : res bytes |- _ => destruct x as [s| | |] end; try (fin; fail).
      + assert (Hsh : shape_items TString (items_snoc acc (IStr s)))
          by (apply shape_items_snoc; [exact Hacc | cbn [shape_item]; split; [reflexivity | apply (Pq s eq_refl)]]).
        match goal with |- context [str_items_loop _ ?kk ?ii ?nn ?aa] =>
          use (IH ii nn aa Hsh) (str_items_loop bs kk ii nn aa) end.
        fin.
  Qed.

  Lemma str_items_loop_tight k : forall i n acc r l, rok r -> lok l ->
    let '(x, r', l') := str_items_loop bs k i n acc r l in l_al l' + r_rd r <= l_al l + r_rd r'.
  Proof.
    induction k as [|k IH]; intros i n acc r l Hr Hl; cbn [str_items_loop]; brk; try (unfold ret, nofuel; lia).
    unfold bnd at 1.
    pose proof (rd_lp_string_tight r l Hr) as T.
    pose proof (rd_lp_string_safe r l Hr Hl) as S.
    destruct (rd_lp_string bs r l) as [[x r1] l1]. unfold post in S. destruct S as (Hr1 & _ & Hl1 & _).
    destruct x as [s| | |]; try lia.
    specialize (IH (i + 1) n (items_snoc acc (IStr s)) r1 l1 Hr1 Hl1).
    destruct (str_items_loop bs k (i + 1) n (items_snoc acc (IStr s)) r1 l1) as [[y r2] l2]. lia.
  Qed.

  (* the Point/Rect item loop allocates nothing and, when it succeeds, has consumed exactly its items *)
  Lemma fix_items_loop_tight k : forall i n u rsz acc r l, rok r -> lok l -> 0 < rsz ->
    let '(x, r', l') := fix_items_loop bs k i n u rsz acc r l in
    l_al l' = l_al l /\ (forall a, x = Ok a -> r_rd r' = r_rd r + (n - i) * rsz).
  Proof.
    pose proof HL as HL'. induction k as [|k IH]; intros i n u rsz acc r l Hr Hl Hrsz; cbn [fix_items_loop]; brk;
      try (unfold ret, nofuel; split; [reflexivity | intros a E; try discriminate; replace (n - i) with 0 by lia; lia]).
    unfold bnd at 1. unfold with_limit.
    destruct (limited_rok r u Hr) as [Hr0 Hu]. rewrite Hu in *.
    unfold rd_bytes. go; try (split; [reflexivity | intros a E; discriminate]).
    match goal with |- context [fix_items_loop _ ?kk ?ii ?nn ?uu ?ss ?aa ?r1 ?l1] =>
      assert (Hr1 : rok r1) by rokt; assert (Hl1 : lok l1) by (lokt; rokt);
      specialize (IH ii nn uu ss aa r1 l1 Hr1 Hl1 Hrsz);
      destruct (fix_items_loop bs kk ii nn uu ss aa r1 l1) as [[y r2] l2] end.
    destruct IH as [IH1 IH2]. rcbn. split; [lia|].
    intros a E. specialize (IH2 a E). rcbn.
    replace (n - i) with (n - (i + 1) + 1) by lia. rewrite N.mul_add_distr_r. lia.
  Qed.


  Lemma raw_items_loop_safe k : forall i n acc, shape_items TRaw acc ->
    safe (fuel_ok k) (fun _ => 0) 0 0 (shape_items TRaw) (raw_items_loop bs k i n acc).
  Proof.
    pose proof HL as HL'. induction k as [|k IH]; intros i n acc Hacc r l Hr Hl; pose proof (avail_ok r Hr) as Ha;
      cbn [raw_items_loop]; brk; try (fin; fail).
    - fin. intro HF; unfold fuel_ok in HF; cbn in HF; lia.
    - prims. rewrite W_val, NOLIM_val. unfold two32.
      assert (Hr4 : 4 <= avail r -> rok (adv 4 r)) by (intro; rokt).
      go.
      all: try (fin; fail).
      all: try (exfalso; unfold rok in *; lia).
      all: match goal with |- context [raw_items_loop _ ?kk ?i' ?nn (items_snoc _ (IRaw ?b))] =>
             assert (Hsh : shape_items TRaw (items_snoc acc (IRaw b))) by (apply shape_items_snoc; [exact Hacc | reflexivity]);
             use (IH i' nn (items_snoc acc (IRaw b)) Hsh) (raw_items_loop bs kk i' nn (items_snoc acc (IRaw b))) end.
      all: fin.
  Qed.

  (* ---------------------------------------------------------------- one nesting level, given the next *)
  Section LevelSafe.
    Variable fx : fixes.
    Hypothesis Hfx1 : fx1 fx = true.
    Hypothesis Hfx14 : fx14 fx = true.
    Hypothesis Hfx15 : fx15 fx = true.
    Hypothesis Hfx16 : fx16 fx = true.
    Variable inner : N -> M msg.
    Variable lf : nat.
    Hypothesis Hinner : forall d, safe (fuel_ok lf) (fun r => 28 * d + avail r) 0 0 shape_msg (inner d).

    Lemma msg_items_loop_safe k : (k <= lf)%nat -> forall d acc, shape_items TMessage acc ->
      safe (fuel_ok k) (fun r => 28 * d + avail r + 24) 0 0 (shape_items TMessage) (msg_items_loop bs inner k d acc).
    Proof.
      pose proof HL as HL'. induction k as [|k IH]; intros Hk d acc Hacc r l Hr Hl; pose proof (avail_ok r Hr) as Ha.
      - cbn [msg_items_loop]. prims. go; try (fin; fail).
        fin. intro HF; unfold fuel_ok in HF; cbn in HF; lia.
      - cbn [msg_items_loop]. prims. rewrite W_val.
        assert (Hr4 : 4 <= avail r -> rok (adv 4 r)) by (intro; rokt).
        go.
        all: try (fin; fail).
        all: try (exfalso; unfold rok in *; lia).
        unfold with_limit.
        match goal with |- context [set_max (u32 (r_rd ?r0 + N.min ?lim (avail ?r0))) ?r0] =>
          destruct (limited_rok r0 lim (Hr4 ltac:(assumption))) as [Hrl Hu]; rewrite Hu in * end.
        rcbn.
        use (Hinner (d + 1)) (inner (d + 1)).
        match goal with x : res msg |- _ => destruct x as [m| | |] end; rcbn.
        4:{ exfalso. apply Pcr. reflexivity. }
        1:{ assert (Hsh : shape_items TMessage (items_snoc acc (IMsg m)))
              by (apply shape_items_snoc; [exact Hacc | cbn [shape_item]; split; [reflexivity | apply (Pq m eq_refl)]]).
            match goal with |- context [msg_items_loop _ _ ?kk ?dd ?acc'] =>
              use (IH ltac:(lia) dd acc' Hsh) (msg_items_loop bs inner kk dd acc') end.
            fin. }
        all: fin.
    Qed.

    Lemma cpp_size_pos ft : ft_fixed ft = true -> 0 < cpp_size ft.
    Proof. destruct ft; cbn; intro H; try discriminate; reflexivity. Qed.

    Ltac childs := repeat rewrite avail_child by (rewrite ?NOLIM_val; unfold rok in *; rcbn; lia).

    (* MessageField::Unflatten calls SingleUnflatten only when GetNumItemsInFlattenedBuffer said 1, which for a
       sub-Message needs its 4-byte length word to be there *)
    Lemma unflat_single_safe ft d : forall r l, rok r -> lok l -> (ft = TMessage -> 4 <= avail r) ->
      post (fuel_ok lf) (fun r => 28 * d + avail r + 24) 0 0 (shape_item ft) r l (unflat_single bs inner ft d r l).
    Proof.
      pose proof HL as HL'. intros r l Hr Hl Hpre; pose proof (avail_ok r Hr) as Ha.
      assert (Hr4 : 4 <= avail r -> rok (adv 4 r)) by (intro; rokt).
      unfold unflat_single.
      destruct ft; try specialize (Hpre eq_refl); unfold sub_reader, fresh_reader; prims; rewrite ?W_val, ?NOLIM_val; unfold two32.
      all: try (go; try (fin; fail)).
      all: try (exfalso; lia).
      all: try (use (Hinner (d + 1)) (inner (d + 1)); match goal with x : res msg |- _ => destruct x end; go; try (fin; fail)).
      all: try (use rd_lp_string_safe (rd_lp_string bs); match goal with x : res bytes |- _ => destruct x end; go; try (fin; fail)).
    Qed.

    Ltac sizes := cbn [cpp_size] in *; unfold c_SIZEOF_bool, c_SIZEOF_double, c_SIZEOF_float, c_SIZEOF_int64, c_SIZEOF_int32,
                    c_SIZEOF_int16, c_SIZEOF_int8, c_POINT_FLATTENED_SIZE, c_RECT_FLATTENED_SIZE, c_SIZEOF_Point, c_SIZEOF_Rect in *.

    Lemma unflat_array_safe ft d : ft <> TPointer -> ft <> TTag ->
      safe (fuel_ok lf) (fun r => 28 * d + avail r + 24) 0 0 (shape_items ft) (unflat_array bs fx inner lf ft d).
    Proof.
      pose proof HL as HL'. intros Hp Ht r l Hr Hl; pose proof (avail_ok r Hr) as Ha.
      assert (Hr4 : 4 <= avail r -> rok (adv 4 r)) by (intro; rokt).
      unfold unflat_array. rewrite Hfx15, Hfx1.
      destruct ft; try congruence; sizes; prims; rewrite ?W_val.
      (* the quotient becomes an opaque N variable q with c*q <= avail (lia does not keep N quotients non-negative) *)
      all: try match goal with |- context [avail ?rr / ?c] =>
                 pose proof (N.mul_div_le (avail rr) c ltac:(lia));
                 let q := fresh "q" in set (q := avail rr / c) in *; clearbody q end.
      all: go; try (fin; fail).
      all: try match goal with |- context [fix_items_loop _ ?k ?i ?n ?u ?s ?acc] =>
             first [ use_t (fix_items_loop_safe k i n u s acc TPoint ltac:(lia) eq_refl ltac:(discriminate) eq_refl I)
                           (fun r l Hr Hl => fix_items_loop_tight k i n u s acc r l Hr Hl ltac:(lia)) (fix_items_loop bs k i n u s acc)
                   | use_t (fix_items_loop_safe k i n u s acc TRect ltac:(lia) eq_refl ltac:(discriminate) eq_refl I)
                           (fun r l Hr Hl => fix_items_loop_tight k i n u s acc r l Hr Hl ltac:(lia)) (fix_items_loop bs k i n u s acc) ] end.
      all: try match goal with |- context [msg_items_loop _ _ ?k ?dd ?acc] =>
             use (msg_items_loop_safe k (le_n k) dd acc I) (msg_items_loop bs inner k dd acc) end.
      all: try match goal with |- context [str_items_loop _ ?k ?i ?n ?acc] =>
             use_t (str_items_loop_safe k i n acc I) (str_items_loop_tight k i n acc) (str_items_loop bs k i n acc) end.
      all: try match goal with |- context [raw_items_loop _ ?k ?i ?n ?acc] =>
             use (raw_items_loop_safe k i n acc I) (raw_items_loop bs k i n acc) end.
      all: match goal with x : res items |- _ => destruct x end; go; try (fin; fail).
    Qed.

    Lemma ftype_ptr_tag tc : is_ptr_or_tag tc = false -> ftype_of_tc tc <> TPointer /\ ftype_of_tc tc <> TTag.
    Proof.
      unfold is_ptr_or_tag, ftype_of_tc. intro H.
      repeat match goal with |- context [if ?a =? ?b then _ else _] => destruct (N.eqb_spec a b) end;
        split; try discriminate; cbn in H; try discriminate.
    Qed.

    Lemma wire_size_msg : wire_size TMessage = 0.
    Proof. vm_compute. reflexivity. Qed.

    Lemma num_items_spec ft r l : rok r -> lok l ->
      exists n l', num_items_in_buffer bs ft r l = (Ok n, r, l') /\ lok l' /\ l_al l' = l_al l /\ l_dp l' = l_dp l /\
                   l_ub l' = l_ub l /\ (ft = TMessage -> n = 1 -> 4 <= avail r).
    Proof.
      pose proof HL as HL'. intros Hr Hl; pose proof (avail_ok r Hr) as Ha.
      unfold num_items_in_buffer. prims. rewrite ?W_val.
      destruct (N.ltb_spec 0 (wire_size ft)) as [Hw|Hw]; cbv beta iota zeta.
      - eexists _, l. repeat split; try assumption. intros ->. rewrite wire_size_msg in Hw. lia.
      - brk; cbv beta iota zeta.
        + eexists _, l. repeat split; try assumption. intros _ E. discriminate.
        + destruct ft; eexists _, _; (split; [reflexivity|]); rcbn; repeat split; try lokt; try reflexivity; intros; lia.
    Qed.

    Lemma unflat_field_safe tc d :
      safe (fuel_ok lf) (fun r => 28 * d + avail r + 24) 0 cost_arr (shape_repr (ftype_of_tc tc)) (unflat_field bs fx inner lf tc d).
    Proof.
      pose proof HL as HL'. intros r l Hr Hl; pose proof (avail_ok r Hr) as Ha.
      unfold unflat_field. rewrite Hfx16. cbn [andb].
      destruct (is_ptr_or_tag tc) eqn:Ept; [fin|].
      destruct (ftype_ptr_tag tc Ept) as [Hnp Hnt].
      set (ft := ftype_of_tc tc) in *.
      destruct (num_items_spec ft r l Hr Hl) as (n & l' & En & Hl' & Eal & Edp & Eub & Hn4).
      unfold bnd at 1. rewrite En.
      brk.
      - unfold bnd.
        pose proof (unflat_single_safe ft d r l' Hr Hl' ltac:(intro E; apply Hn4; assumption)) as P.
        destruct (unflat_single bs inner ft d r l') as [[x r2] l2]. unfold post in P.
        destruct P as (P1 & P2 & P3 & P4 & P5 & P6 & P7 & P8 & P9 & P10 & P11).
        destruct x; prims; go; fin.
      - unfold sub_reader. prims. rewrite NOLIM_val. go.
        replace (N.min 4294967295 (avail r)) with (avail r) by (unfold rok in *; lia).
        use (unflat_array_safe ft d Hnp Hnt) (unflat_array bs fx inner lf ft d).
        match goal with x : res items |- _ => destruct x end; go; fin.
    Qed.

    (* DataUnflattenerReadLimiter(unflat, eLength) around unflat.ReadFlat(field) *)
    Lemma field_window_safe tc elen d :
      safe (fuel_ok lf) (fun r => 28 * d + avail r + 24) 0 cost_arr (shape_repr (ftype_of_tc tc))
           (with_limit elen (sub_reader NOLIM (unflat_field bs fx inner lf tc d))).
    Proof.
      pose proof HL as HL'. intros r l Hr Hl; pose proof (avail_ok r Hr) as Ha.
      unfold with_limit. destruct (limited_rok r elen Hr) as [Hrl Hu]. rewrite Hu.
      unfold sub_reader. rewrite NOLIM_val. rcbn. avs.
      match goal with |- context [N.min 4294967295 ?a] => replace (N.min 4294967295 a) with a by (unfold rok in *; lia) end.
      use (unflat_field_safe tc d) (unflat_field bs fx inner lf tc d).
      match goal with x : res repr |- _ => destruct x end; go; fin.
    Qed.

    Lemma entries_loop_safe k : (k <= lf)%nat -> forall i n pend d acc, pend <= tbl_default -> shape_fields acc ->
      safe (fuel_ok k) (fun r => 28 * d + avail r + 12) 0 0 shape_fields (entries_loop bs fx inner lf k i n pend d acc).
    Proof.
      pose proof HL as HL'. induction k as [|k IH]; intros Hk i n pend d acc Hpend Hacc r l Hr Hl; pose proof (avail_ok r Hr) as Ha;
        cbn [entries_loop]; brk; try (fin; fail).
      - fin. intro HF; unfold fuel_ok in HF; cbn in HF; lia.
      - unfold bnd at 1.
        use_t rd_lp_string_safe rd_lp_string_facts (rd_lp_string bs).
        destruct Ht as [Ht Hn].
        match goal with x : res bytes |- _ => destruct x as [name| | |] end; try (fin; fail).
        specialize (Ppr name eq_refl). specialize (Hn name eq_refl). pose proof (Pq name eq_refl) as Hname.
        prims. rewrite ?W_val. go; try (fin; fail).
        all: destruct (flookup name acc) as [[tc' rp']|] eqn:Efl; cbv beta iota zeta; go; try (fin; fail).
        all: match goal with |- context [with_limit ?el (sub_reader NOLIM (unflat_field _ _ _ _ ?tcx ?dd))] =>
               use (field_window_safe tcx el dd) (with_limit el (sub_reader NOLIM (unflat_field bs fx inner lf tcx dd))) end.
        all: match goal with x : res repr |- _ => destruct x as [rp| | |] end; go; try (fin; fail).
        all: try match goal with |- context [entries_loop _ _ _ _ ?kk ?ii ?nn ?pp ?dd (fset ?nm ?tcx ?rpx ?ac)] =>
               assert (Hsh : shape_fields (fset nm tcx rpx ac))
                 by (apply shape_fields_set; [exact Hacc | intros t2 r2 E2; rewrite Efl in E2; injection E2; congruence | apply (Pq0 rpx eq_refl)]);
               use (IH ltac:(lia) ii nn pp dd (fset nm tcx rpx ac) Hpend Hsh) (entries_loop bs fx inner lf kk ii nn pp dd (fset nm tcx rpx ac)) end.
        all: try match goal with |- context [entries_loop _ _ _ _ ?kk ?ii ?nn ?pp ?dd (fsnoc ?ac ?nm ?tcx ?rpx)] =>
               assert (Hsh : shape_fields (fsnoc ac nm tcx rpx))
                 by (apply shape_fields_snoc; [exact Hacc | exact Hname | apply slice_u32 | apply (Pq0 rpx eq_refl)]);
               use (IH ltac:(lia) ii nn pp dd (fsnoc ac nm tcx rpx) Hpend Hsh) (entries_loop bs fx inner lf kk ii nn pp dd (fsnoc ac nm tcx rpx)) end.
        all: try (fin; fail).
    Qed.

    Lemma msg_level_safe d : safe (fuel_ok (S lf)) (fun r => 28 * d + avail r) 0 0 shape_msg (msg_level bs fx inner lf d).
    Proof.
      pose proof HL as HL'. intros r l Hr Hl; pose proof (avail_ok r Hr) as Ha.
      unfold msg_level. prims. rewrite ?W_val. cbv beta iota zeta. rcbn.
      brk; cbv beta iota zeta; rcbn; avs.
      all: match goal with |- context [if negb ?c then _ else _] => destruct c; cbn [negb] end; try (fin; fail).
      all: go; try (fin; fail).
      all: match goal with |- context [entries_loop _ _ _ _ ?kk ?ii ?nn ?pp ?dd ?aa] =>
             use (entries_loop_safe kk (le_n kk) ii nn pp dd aa ltac:(rewrite ?Hfx14; lia) I) (entries_loop bs fx inner lf kk ii nn pp dd aa) end.
      all: match goal with x : res fields |- _ => destruct x end; go; try (fin; fail).
    Qed.
  End LevelSafe.

  (* ---------------------------------------------------------------- Message::Unflatten, every nesting depth *)
  Lemma unflat_msg_safe fx : fx1 fx = true -> fx14 fx = true -> fx15 fx = true -> fx16 fx = true -> forall fuel d,
    safe (fuel_ok fuel) (fun r => 28 * d + avail r) 0 0 shape_msg (unflat_msg bs fx fuel d).
  Proof.
    intros H1 H14 H15 H16. induction fuel as [|f IH]; intro d.
    - intros r l Hr Hl. cbn [unflat_msg]. fin. intro HF; unfold fuel_ok in HF; cbn in HF; lia.
    - cbn [unflat_msg]. apply msg_level_safe; assumption.
  Qed.

  Lemma reader0_ok : rok (reader0 bs) /\ lok log0 /\ fuel_ok (S (length bs)) (reader0 bs) /\ avail (reader0 bs) = L.
  Proof.
    pose proof HL as HL'.
    assert (Hr : rok (reader0 bs)) by (unfold rok, reader0; cbn [r_base r_rd r_max]; fold L; lia).
    repeat split; try apply Hr.
    - constructor.
    - unfold fuel_ok. rewrite (avail_ok _ Hr). unfold reader0; cbn [r_rd r_max]. rewrite len_nat. lia.
    - rewrite (avail_ok _ Hr). unfold reader0; cbn [r_rd r_max]. fold L. lia.
  Qed.

  Lemma unflatten_post fx : fx1 fx = true -> fx14 fx = true -> fx15 fx = true -> fx16 fx = true ->
    post (fuel_ok (S (length bs))) (fun r => 28 * 0 + avail r) 0 0 shape_msg (reader0 bs) log0 (unflatten_i bs fx).
  Proof.
    intros H1 H14 H15 H16. destruct reader0_ok as (Hr & Hl & _).
    unfold unflatten_i. apply (unflat_msg_safe fx H1 H14 H15 H16 (S (length bs)) 0 _ _ Hr Hl).
  Qed.
End Safety.

(* ------------------------------------------------------------------ the theorems about Message::UnflattenFromBytes *)
Definition fits (bs : bytes) : Prop := len bs < 2147483648.

Theorem parse_in_bounds_proof : forall bs, fits bs ->
  Forall (in_bounds (len bs)) (accesses (unflatten_i bs fixed)).
Proof.
  intros bs Hb. pose proof (unflatten_post bs Hb fixed eq_refl eq_refl eq_refl eq_refl) as P.
  unfold accesses, log_of. destruct (unflatten_i bs fixed) as [[x r] l]. cbn [snd].
  unfold post in P. tauto.
Qed.

Theorem parse_fuel_proof : forall bs, fits bs -> result_of (unflatten_i bs fixed) <> Fuel.
Proof.
  intros bs Hb. pose proof (unflatten_post bs Hb fixed eq_refl eq_refl eq_refl eq_refl) as P.
  destruct (reader0_ok bs Hb) as (_ & _ & HF & _).
  unfold result_of. destruct (unflatten_i bs fixed) as [[x r] l]. cbn [fst].
  unfold post in P. destruct P as (_ & _ & _ & _ & P & _). exact (P HF).
Qed.

Theorem parse_no_abort_proof : forall bs, fits bs ->
  result_of (unflatten_i bs fixed) <> Crash /\ ub_events (unflatten_i bs fixed) = 0.
Proof.
  intros bs Hb. pose proof (unflatten_post bs Hb fixed eq_refl eq_refl eq_refl eq_refl) as P.
  unfold result_of, ub_events, log_of. destruct (unflatten_i bs fixed) as [[x r] l]. cbn [fst snd].
  unfold post in P. destruct P as (_ & _ & _ & Pc & _ & Pu & _). split; [exact Pc | exact Pu].
Qed.

Theorem parse_depth_proof : forall bs, fits bs -> 28 * depth_reached (unflatten_i bs fixed) <= len bs.
Proof.
  intros bs Hb. pose proof (unflatten_post bs Hb fixed eq_refl eq_refl eq_refl eq_refl) as P.
  destruct (reader0_ok bs Hb) as (_ & _ & _ & Ha).
  unfold depth_reached, log_of. destruct (unflatten_i bs fixed) as [[x r] l]. cbn [snd].
  unfold post in P. destruct P as (_ & _ & _ & _ & _ & _ & Pd & _).
  rewrite Ha in Pd. cbn [l_dp log0] in Pd. lia.
Qed.

Theorem parse_consumed_proof : forall bs, fits bs -> consumed (unflatten_i bs fixed) <= len bs.
Proof.
  intros bs Hb. pose proof (unflatten_post bs Hb fixed eq_refl eq_refl eq_refl eq_refl) as P.
  unfold consumed, reader_of. destruct (unflatten_i bs fixed) as [[x r] l]. cbn [fst snd].
  unfold post in P. destruct P as (Pr & Pf & _). unfold rok, frame, reader0 in *. cbn [r_base r_rd r_max] in *. lia.
Qed.

(* a successful parse allocates at most KA model-bytes per byte consumed, a failing one at most KA per byte of the buffer *)
Theorem parse_alloc_linear_proof : forall bs, fits bs -> allocated (unflatten_i bs fixed) <= KA * len bs.
Proof.
  intros bs Hb. pose proof (unflatten_post bs Hb fixed eq_refl eq_refl eq_refl eq_refl) as P.
  destruct (reader0_ok bs Hb) as (_ & _ & HF & Ha).
  unfold allocated, log_of. destruct (unflatten_i bs fixed) as [[x r] l]. cbn [snd].
  unfold post in P. destruct P as (Pr & Pf & _ & Pc & Pfu & _ & _ & _ & Pao & Pae & _).
  unfold rok, frame, reader0 in *. cbn [r_base r_rd r_max l_al log0] in *.
  destruct x as [m| | |].
  - specialize (Pao m eq_refl). unfold KA in *. lia.
  - specialize (Pae eq_refl). rewrite Ha in Pae. lia.
  - exfalso. apply (Pfu HF). reflexivity.
  - exfalso; apply Pc; reflexivity.
Qed.

(* totality: the parser ends with a Message of the right shape or with an error status -- nothing else *)
Theorem parse_total_proof : forall bs, fits bs ->
  (exists m, result_of (unflatten_i bs fixed) = Ok m /\ shape_msg m) \/ result_of (unflatten_i bs fixed) = Err.
Proof.
  intros bs Hb. pose proof (unflatten_post bs Hb fixed eq_refl eq_refl eq_refl eq_refl) as P.
  destruct (reader0_ok bs Hb) as (_ & _ & HF & _).
  unfold result_of. destruct (unflatten_i bs fixed) as [[x r] l]. cbn [fst].
  unfold post in P. destruct P as (_ & _ & _ & Pc & Pfu & _ & _ & _ & _ & _ & Pq).
  destruct x as [m| | |].
  - left. exists m. split; [reflexivity | apply Pq; reflexivity].
  - right. reflexivity.
  - exfalso. apply (Pfu HF). reflexivity.
  - exfalso. apply Pc. reflexivity.
Qed.
