(* Msg/MsgInstrProofs.v -- C02: proofs about the instrumented parser model (MsgInstr.v), part 1:
   the safety invariant of Message::Unflatten.

   For a fixed received buffer [bs] (L = its length, L < 2^31) every function of the model is shown to satisfy one
   combined specification [safe F B m]: started on a reader whose window lies inside the buffer ([rok]) and a log whose
   accesses are all in bounds ([lok]), it ends with such a reader and such a log, leaves the window (base, limit) alone,
   never moves the cursor backwards, never reaches an MCRASH, loads no non-boolean byte into a bool, does not run out of
   fuel when the fuel exceeds the bytes available ([F]), and deepens the recorded nesting level by at most what the
   bytes available can pay for at 28 bytes per level ([B]).  The loops go by induction on their fuel, Message::Unflatten
   by induction on the nesting fuel with the next level as hypothesis. *)
From Coq Require Import List NArith Bool Lia ZifyBool Strings.Byte.
From Muscle Require Import Gen.Consts Msg.MsgDefs Msg.MsgInstr.
Import ListNotations.
Local Open Scope N_scope.

(* ------------------------------------------------------------------ lists measured in N *)
Lemma len_nat {A} (l : list A) : len l = N.of_nat (length l).
Proof. induction l as [|x t IH]; cbn [len length]; [reflexivity | rewrite IH; lia]. Qed.

Lemma len_nil_iff {A} (l : list A) : len l = 0 <-> l = [].
Proof. destruct l; cbn [len]; split; intro H; try reflexivity; try discriminate; lia. Qed.

Lemma len_takeN {A} (k : N) (l : list A) : len (takeN k l) = N.min k (len l).
Proof.
  revert k; induction l as [|x t IH]; intro k; cbn [takeN len]; [lia|].
  destruct (N.eqb_spec k 0) as [->|Hk]; cbn [len]; [lia|].
  rewrite IH. lia.
Qed.

Lemma len_dropN {A} (k : N) (l : list A) : len (dropN k l) = len l - k.
Proof.
  revert k; induction l as [|x t IH]; intro k; cbn [dropN len]; [lia|].
  destruct (N.eqb_spec k 0) as [->|Hk]; cbn [len]; [lia|].
  rewrite IH. lia.
Qed.

Lemma len_app {A} (a b : list A) : len (a ++ b) = len a + len b.
Proof. induction a as [|x t IH]; cbn [app len]; [lia | rewrite IH; lia]. Qed.

Lemma nul_index_bounds (w : bytes) (i k : N) : nul_index w i = Some k -> i <= k /\ k < i + len w.
Proof.
  revert i; induction w as [|b t IH]; intro i; cbn [nul_index len]; [discriminate|].
  destruct (is_nul b).
  - intro H; injection H as <-. lia.
  - intro H. apply IH in H. lia.
Qed.

(* ------------------------------------------------------------------ the invariant *)
Section Safety.
  Variable bs : bytes.
  Let L : N := len bs.
  Hypothesis HL : L < 2147483648.

  Definition rok (r : rdr) : Prop := r_base r + r_max r <= L /\ r_rd r <= r_max r.
  Definition lok (l : log) : Prop := Forall (in_bounds L) (l_tr l).
  Definition frame (r r' : rdr) : Prop := r_base r' = r_base r /\ r_max r' = r_max r /\ r_rd r <= r_rd r'.

  (* [F]: when does the fuel suffice;  [B]: 28 * (deepest level this call may record) *)
  Definition safe {A} (F : rdr -> Prop) (B : rdr -> N) (m : M A) : Prop :=
    forall r l, rok r -> lok l ->
      let '(x, r', l') := m r l in
      rok r' /\ frame r r' /\ lok l' /\ x <> Crash /\ (F r -> x <> Fuel) /\ l_ub l' = l_ub l /\
      (l_dp l' <= l_dp l \/ 28 * l_dp l' <= B r).

  Lemma NOLIM_val : NOLIM = 4294967295.  Proof. reflexivity. Qed.
  Lemma W_val : W = 4.  Proof. reflexivity. Qed.

  Lemma avail_ok r : rok r -> avail r = r_max r - r_rd r.
  Proof.
    intros [H1 H2]. unfold avail. rewrite NOLIM_val.
    destruct (N.eqb_spec (r_max r) 4294967295); [lia|].
    destruct (N.ltb_spec (r_rd r) (r_max r)); lia.
  Qed.

  Lemma lok_touch o k l : lok l -> o + k <= L -> lok (touch o k l).
  Proof. intros H Hb. unfold lok, touch; cbn [l_tr]. constructor; [exact Hb | exact H]. Qed.

  Lemma frame_refl r : frame r r.
  Proof. unfold frame; repeat split; lia. Qed.

  Lemma frame_trans a b c : frame a b -> frame b c -> frame a c.
  Proof. unfold frame; intros (A1 & A2 & A3) (B1 & B2 & B3); repeat split; lia. Qed.

  (* ---------------------------------------------------------------- generic rules *)
  Lemma safe_ret {A} F B (a : A) : safe F B (ret a).
  Proof.
    intros r l Hr Hl; cbn. repeat split; try (apply Hr) ; try lia; try assumption; try discriminate.
    left; lia.
  Qed.

  Lemma safe_err {A} F B : safe F B (@err A).
  Proof.
    intros r l Hr Hl; cbn. repeat split; try (apply Hr); try lia; try assumption; try discriminate.
    left; lia.
  Qed.

  (* sequential composition: the second part runs on a reader that has only moved forwards inside the same window *)
  Lemma safe_bnd {A C} (F : rdr -> Prop) (B : rdr -> N) (F1 : rdr -> Prop) (B1 : rdr -> N)
        (F2 : A -> rdr -> Prop) (B2 : A -> rdr -> N) (m : M A) (f : A -> M C) :
    safe F1 B1 m -> (forall a, safe (F2 a) (B2 a) (f a)) ->
    (forall r, rok r -> F r -> F1 r) ->
    (forall r r' a, rok r -> rok r' -> frame r r' -> F r -> F2 a r') ->
    (forall r, rok r -> B1 r <= B r) ->
    (forall r r' a, rok r -> rok r' -> frame r r' -> B2 a r' <= B r) ->
    safe F B (bnd m f).
  Proof.
    intros Hm Hf HF1 HF2 HB1 HB2 r l Hr Hl. unfold bnd.
    specialize (Hm r l Hr Hl). destruct (m r l) as [[x r1] l1].
    destruct Hm as (Hr1 & Hfr1 & Hl1 & Hc1 & Hfu1 & Hub1 & Hd1).
    assert (Hdep : l_dp l1 <= l_dp l \/ 28 * l_dp l1 <= B r).
    { destruct Hd1 as [Hd1|Hd1]; [left; exact Hd1 | right; specialize (HB1 r Hr); lia]. }
    destruct x as [a| | |].
    - specialize (Hf a r1 l1 Hr1 Hl1). destruct (f a r1 l1) as [[y r2] l2].
      destruct Hf as (Hr2 & Hfr2 & Hl2 & Hc2 & Hfu2 & Hub2 & Hd2).
      repeat split; try (apply Hr2); try assumption.
      + destruct Hfr1 as (X1 & X2 & X3), Hfr2 as (Y1 & Y2 & Y3). lia.
      + destruct Hfr1 as (X1 & X2 & X3), Hfr2 as (Y1 & Y2 & Y3). lia.
      + destruct Hfr1 as (X1 & X2 & X3), Hfr2 as (Y1 & Y2 & Y3). lia.
      + intro HFr. apply Hfu2. eapply HF2; eauto.
      + lia.
      + destruct Hd2 as [Hd2|Hd2].
        * destruct Hdep as [Hd|Hd]; [left; lia | right; lia].
        * right. specialize (HB2 r r1 a Hr Hr1 Hfr1). lia.
    - repeat split; try (apply Hr1); try assumption; try (apply Hfr1); try discriminate.
    - repeat split; try (apply Hr1); try assumption; try (apply Hfr1); try discriminate.
      intro HFr. apply Hfu1. apply HF1; assumption.
    - repeat split; try (apply Hr1); try assumption; try (apply Hfr1).
  Qed.

  (* weakening of the fuel condition and the depth bound *)
  Lemma safe_weaken {A} (F F' : rdr -> Prop) (B B' : rdr -> N) (m : M A) :
    safe F' B' m -> (forall r, rok r -> F r -> F' r) -> (forall r, rok r -> B' r <= B r) -> safe F B m.
  Proof.
    intros Hm HF HB r l Hr Hl. specialize (Hm r l Hr Hl). destruct (m r l) as [[x r1] l1].
    destruct Hm as (A1 & A2 & A3 & A4 & A5 & A6 & A7).
    repeat split; try (apply A1); try (apply A2); try assumption.
    - intro H; apply A5, HF; assumption.
    - destruct A7 as [A7|A7]; [left; assumption | right; specialize (HB r Hr); lia].
  Qed.
End Safety.
