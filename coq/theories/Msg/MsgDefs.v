(* Msg/MsgDefs.v -- INTERFACE of the Message codec model (C01, C08; reused by C02, C14, C04).

   What other properties import from here:
     bytes, byte_of_N, N_of_byte, len, takeN, dropN          byte strings and N-indexed slicing
     le_enc, le_dec, le32, u32, two32                         little-endian words, uint32 wrap
     ftype, ftype_of_tc, wire_size / elem_size / cpp_size     the type switch and the three size tables
     item / items / repr / fields / msg                       the Message data type (one mutual inductive,
                                                              own list types, see DESIGN.md section 3)
     msg_mutind (Combined Scheme)                             the induction principle all proofs use
     res (Ok | Err | Fuel | Crash), bind                      result type of the parsers
     items_len, fields_len, flookup, fsnoc, fapp, ...         list helpers on the own list types

   Representation choices (justified here once):
   * a byte is Coq.Init.Byte.byte (256 constructors): "bit-identical" in the property text is literally
     [=] on [list byte]; no range side conditions (b < 256) ever appear in a theorem;  conversions to N go
     through Byte.to_N / Byte.of_N whose round-trip lemmas are in the standard library.
   * a fixed-width item (bool, int8..int64, float, double, Point, Rect) is the list of its bytes in wire
     order; no float semantics enters the codec (NaN payloads, -0, inf are bit patterns).
   * lengths, counts, offsets, type codes are N;  uint32 wrap-around is written [u32].
   * a field's representation state is kept: RInline (one item inside the MessageField object) or RArray
     (an AbstractDataArray object).  FIELD_STATE_EMPTY is not a constructor: no public operation leaves an
     empty field in the table (RemoveData removes the name when the last item goes; SingleFlattenedSize
     MASSERTs _state == INLINE), so a Message value never contains one.
   No proofs in this file. *)
From Coq Require Import List NArith Bool Strings.Byte String.
From Muscle Require Import Gen.Consts.
Import ListNotations.
Local Open Scope N_scope.

(* ------------------------------------------------------------------ bytes *)

Definition bytes := list byte.

Definition byte_of_N (n : N) : byte :=
  match Byte.of_N (n mod 256) with Some b => b | None => x00 end.
Definition N_of_byte (b : byte) : N := Byte.to_N b.

Definition byte_eqb (a b : byte) : bool := N.eqb (N_of_byte a) (N_of_byte b).
Definition is_nul (b : byte) : bool := N.eqb (N_of_byte b) 0.

Fixpoint bytes_eqb (a b : bytes) : bool :=
  match a, b with
  | [], [] => true
  | x :: a', y :: b' => byte_eqb x y && bytes_eqb a' b'
  | _, _ => false
  end.

Fixpoint len {A} (l : list A) : N :=
  match l with [] => 0 | _ :: t => N.succ (len t) end.

Fixpoint takeN {A} (n : N) (l : list A) : list A :=
  match l with
  | [] => []
  | x :: t => if n =? 0 then [] else x :: takeN (N.pred n) t
  end.

Fixpoint dropN {A} (n : N) (l : list A) : list A :=
  match l with
  | [] => []
  | x :: t => if n =? 0 then l else dropN (N.pred n) t
  end.

Definition two32 : N := 4294967296.
Definition u32 (n : N) : N := n mod two32.

(* k-byte little-endian encoding of n mod 256^k;  le_dec is its inverse on any byte list *)
Fixpoint le_enc (k : nat) (n : N) : bytes :=
  match k with O => [] | S k' => byte_of_N n :: le_enc k' (n / 256) end.
Fixpoint le_dec (bs : bytes) : N :=
  match bs with [] => 0 | b :: t => N_of_byte b + 256 * le_dec t end.
Definition le32 (n : N) : bytes := le_enc 4 n.

(* ------------------------------------------------------------------ result type of the parsers *)

Inductive res (A : Type) : Type :=
| Ok (a : A)      (* B_NO_ERROR *)
| Err             (* any error status (B_BAD_DATA, B_TYPE_MISMATCH, ...) *)
| Fuel            (* the model's loop fuel ran out (never happens with adequate fuel; see fuel lemmas) *)
| Crash.          (* the code reaches an MCRASH / failed MASSERT (deliberate abort) *)
Arguments Ok {A} a.
Arguments Err {A}.
Arguments Fuel {A}.
Arguments Crash {A}.

Definition bind {A B} (r : res A) (f : A -> res B) : res B :=
  match r with Ok a => f a | Err => Err | Fuel => Fuel | Crash => Crash end.

(* ------------------------------------------------------------------ the type switch *)

(* the cases of the `switch(_typeCode)` statements in message/Message.cpp; TRaw is `default:` *)
Inductive ftype :=
| TBool | TDouble | TFloat | TInt64 | TInt32 | TInt16 | TInt8
| TPoint | TRect | TPointer | TTag | TMessage | TString | TRaw.

Definition ftype_of_tc (tc : N) : ftype :=
  if tc =? c_B_BOOL_TYPE then TBool
  else if tc =? c_B_DOUBLE_TYPE then TDouble
  else if tc =? c_B_FLOAT_TYPE then TFloat
  else if tc =? c_B_INT64_TYPE then TInt64
  else if tc =? c_B_INT32_TYPE then TInt32
  else if tc =? c_B_INT16_TYPE then TInt16
  else if tc =? c_B_INT8_TYPE then TInt8
  else if tc =? c_B_POINT_TYPE then TPoint
  else if tc =? c_B_RECT_TYPE then TRect
  else if tc =? c_B_POINTER_TYPE then TPointer
  else if tc =? c_B_TAG_TYPE then TTag
  else if tc =? c_B_MESSAGE_TYPE then TMessage
  else if tc =? c_B_STRING_TYPE then TString
  else TRaw.

Definition ftype_eqb (a b : ftype) : bool :=
  match a, b with
  | TBool, TBool | TDouble, TDouble | TFloat, TFloat | TInt64, TInt64 | TInt32, TInt32
  | TInt16, TInt16 | TInt8, TInt8 | TPoint, TPoint | TRect, TRect | TPointer, TPointer
  | TTag, TTag | TMessage, TMessage | TString, TString | TRaw, TRaw => true
  | _, _ => false
  end.

(* SingleIsFlattenable / PointerDataArray::IsFlattenable / TagDataArray::IsFlattenable *)
Definition ft_flattenable (t : ftype) : bool :=
  match t with TPointer | TTag => false | _ => true end.
Definition flattenable (tc : N) : bool := ft_flattenable (ftype_of_tc tc).

(* ---- the size tables.  The C++ writes them as sizeof() expressions inside Message.cpp; the translator
   captures each `return <expr>;` as text (the c_fsz_ and c_esz_ names) and the sizeof values by compiling a probe
   (the c_SIZEOF_ names); [eval_size] evaluates the expression forms that occur.  An expression the evaluator does
   not know evaluates to None and the side-condition lemma [size_tables_ok] (MsgProofs) stops checking. *)
Definition size_exprs : list (string * N) :=
  [ ("0"%string, 0); ("1"%string, 1);
    ("sizeof(bool)"%string, c_SIZEOF_bool); ("sizeof(uint8)"%string, c_SIZEOF_uint8);
    ("sizeof(double)"%string, c_SIZEOF_double); ("sizeof(float)"%string, c_SIZEOF_float);
    ("sizeof(int64)"%string, c_SIZEOF_int64); ("sizeof(int32)"%string, c_SIZEOF_int32);
    ("sizeof(int16)"%string, c_SIZEOF_int16); ("sizeof(int8)"%string, c_SIZEOF_int8);
    ("sizeof(void *)"%string, c_SIZEOF_voidp); ("sizeof(Point)"%string, c_SIZEOF_Point);
    ("sizeof(Rect)"%string, c_SIZEOF_Rect); ("sizeof(MessageRef)"%string, c_SIZEOF_MessageRef);
    ("sizeof(String)"%string, c_SIZEOF_String);
    ("2*sizeof(float)"%string, 2 * c_SIZEOF_float); ("4*sizeof(float)"%string, 4 * c_SIZEOF_float) ].

Fixpoint assoc_str (s : string) (l : list (string * N)) : option N :=
  match l with
  | [] => None
  | (k, v) :: t => if String.eqb s k then Some v else assoc_str s t
  end.
Definition eval_size (s : string) : option N := assoc_str s size_exprs.
Definition eval_size0 (s : string) : N := match eval_size s with Some n => n | None => 0 end.

(* GetFlattenedSizeForFixedSizeType: bytes per item on the wire; 0 = not a fixed-size type *)
Definition wire_size (t : ftype) : N :=
  match t with
  | TBool => eval_size0 c_fsz_BOOL | TDouble => eval_size0 c_fsz_DOUBLE | TPointer => eval_size0 c_fsz_POINTER
  | TPoint => eval_size0 c_fsz_POINT | TRect => eval_size0 c_fsz_RECT | TFloat => eval_size0 c_fsz_FLOAT
  | TInt64 => eval_size0 c_fsz_INT64 | TInt32 => eval_size0 c_fsz_INT32 | TInt16 => eval_size0 c_fsz_INT16
  | TInt8 => eval_size0 c_fsz_INT8
  | TTag | TMessage | TString | TRaw => eval_size0 c_fsz_default
  end.

(* Message::GetElementSize: bytes per item in memory; 0 = variable-size (ByteBuffer) type *)
Definition elem_size (t : ftype) : N :=
  match t with
  | TBool => eval_size0 c_esz_BOOL | TDouble => eval_size0 c_esz_DOUBLE | TPointer => eval_size0 c_esz_POINTER
  | TPoint => eval_size0 c_esz_POINT | TRect => eval_size0 c_esz_RECT | TFloat => eval_size0 c_esz_FLOAT
  | TInt64 => eval_size0 c_esz_INT64 | TInt32 => eval_size0 c_esz_INT32 | TInt16 => eval_size0 c_esz_INT16
  | TInt8 => eval_size0 c_esz_INT8 | TMessage => eval_size0 c_esz_MESSAGE | TString => eval_size0 c_esz_STRING
  | TTag | TRaw => eval_size0 c_esz_default
  end.

(* sizeof(DataType) / FlatItemSize: what the typed readers and writers move per item
   (WriteInt32, ReadDouble, PrimitiveTypeDataArray<T>, FixedSizeFlatObjectArray<T,sizeof(T),..>) *)
Definition cpp_size (t : ftype) : N :=
  match t with
  | TBool => c_SIZEOF_bool | TDouble => c_SIZEOF_double | TFloat => c_SIZEOF_float
  | TInt64 => c_SIZEOF_int64 | TInt32 => c_SIZEOF_int32 | TInt16 => c_SIZEOF_int16 | TInt8 => c_SIZEOF_int8
  | TPoint => c_POINT_FLATTENED_SIZE | TRect => c_RECT_FLATTENED_SIZE
  | TPointer => c_SIZEOF_voidp
  | TTag | TMessage | TString | TRaw => 0
  end.

(* SingleFlattenedSize for the fixed-size types: bool is special-cased, the others use GetElementSize *)
Definition single_fix_size (t : ftype) : N :=
  match t with TBool => eval_size0 c_single_bool_flat_size | _ => elem_size t end.

(* fixed-size *flattenable* types *)
Definition ft_fixed (t : ftype) : bool :=
  match t with
  | TBool | TDouble | TFloat | TInt64 | TInt32 | TInt16 | TInt8 | TPoint | TRect => true
  | _ => false
  end.

(* ------------------------------------------------------------------ the Message data type *)

Inductive item : Type :=
| IFix (bs : bytes)      (* fixed-width item: its bytes in wire (little-endian) order *)
| IStr (bs : bytes)      (* muscle::String: the characters, without the terminating NUL *)
| IRaw (bs : bytes)      (* ByteBuffer held through a FlatCountableRef *)
| IMsg (m : msg)         (* sub-Message held through a MessageRef *)
| IOpaque (id : N)       (* pointer value / tag object identity: never serialised *)
with items : Type :=
| INil
| ICons (i : item) (tl : items)
with repr : Type :=
| RInline (i : item)     (* FIELD_STATE_INLINE *)
| RArray (l : items)     (* FIELD_STATE_ARRAY: owns an AbstractDataArray (Queue of items) *)
with fields : Type :=
| FNil
| FCons (name : bytes) (tc : N) (r : repr) (tl : fields)   (* table order = iteration order *)
with msg : Type :=
| Msg (what : N) (fs : fields).

Scheme item_mi := Induction for item Sort Prop
  with items_mi := Induction for items Sort Prop
  with repr_mi := Induction for repr Sort Prop
  with fields_mi := Induction for fields Sort Prop
  with msg_mi := Induction for msg Sort Prop.
Combined Scheme msg_mutind from item_mi, items_mi, repr_mi, fields_mi, msg_mi.

(* ------------------------------------------------------------------ helpers on the own list types *)

Fixpoint items_len (l : items) : N :=
  match l with INil => 0 | ICons _ t => N.succ (items_len t) end.

Fixpoint items_app (a b : items) : items :=
  match a with INil => b | ICons i t => ICons i (items_app t b) end.

Definition items_snoc (l : items) (i : item) : items := items_app l (ICons i INil).

Fixpoint items_nth (n : N) (l : items) : option item :=
  match l with
  | INil => None
  | ICons i t => if n =? 0 then Some i else items_nth (N.pred n) t
  end.

(* remove / replace the n-th item (identity when n is out of range) *)
Fixpoint items_remove (n : N) (l : items) : items :=
  match l with
  | INil => INil
  | ICons i t => if n =? 0 then t else ICons i (items_remove (N.pred n) t)
  end.
Fixpoint items_replace (n : N) (v : item) (l : items) : items :=
  match l with
  | INil => INil
  | ICons i t => if n =? 0 then ICons v t else ICons i (items_replace (N.pred n) v t)
  end.

Fixpoint items_rev_app (a acc : items) : items :=
  match a with INil => acc | ICons i t => items_rev_app t (ICons i acc) end.
Definition items_rev (a : items) : items := items_rev_app a INil.

Definition repr_count (r : repr) : N :=
  match r with RInline _ => 1 | RArray l => items_len l end.

Fixpoint fields_len (fs : fields) : N :=
  match fs with FNil => 0 | FCons _ _ _ t => N.succ (fields_len t) end.

Fixpoint fapp (a b : fields) : fields :=
  match a with FNil => b | FCons n tc r t => FCons n tc r (fapp t b) end.

Definition fsnoc (fs : fields) (n : bytes) (tc : N) (r : repr) : fields := fapp fs (FCons n tc r FNil).

(* Hashtable::Get on the field table *)
Fixpoint flookup (n : bytes) (fs : fields) : option (N * repr) :=
  match fs with
  | FNil => None
  | FCons k tc r t => if bytes_eqb n k then Some (tc, r) else flookup n t
  end.

(* overwrite the value of an existing key in place (position kept) *)
Fixpoint fset (n : bytes) (tc : N) (r : repr) (fs : fields) : fields :=
  match fs with
  | FNil => FNil
  | FCons k tc' r' t => if bytes_eqb n k then FCons k tc r t else FCons k tc' r' (fset n tc r t)
  end.

(* Hashtable::Remove *)
Fixpoint fremove (n : bytes) (fs : fields) : fields :=
  match fs with
  | FNil => FNil
  | FCons k tc r t => if bytes_eqb n k then t else FCons k tc r (fremove n t)
  end.

(* Hashtable::Put: overwrite in place when the key exists, else append at the end *)
Definition fput (n : bytes) (tc : N) (r : repr) (fs : fields) : fields :=
  match flookup n fs with Some _ => fset n tc r fs | None => fsnoc fs n tc r end.

Fixpoint fnames (fs : fields) : list bytes :=
  match fs with FNil => [] | FCons n _ _ t => n :: fnames t end.

Definition msg_what (m : msg) : N := match m with Msg w _ => w end.
Definition msg_fields (m : msg) : fields := match m with Msg _ fs => fs end.
