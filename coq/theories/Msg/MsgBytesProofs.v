(* Msg/MsgBytesProofs.v -- lemmas about bytes, N-indexed slicing, little-endian words and the primitive
   readers of the Message codec model.  Reusable by every property that imports Msg.MsgDefs. *)
From Coq Require Import List NArith Bool Strings.Byte Lia.
From Muscle Require Import Gen.Consts Msg.MsgDefs Msg.MsgModel.
Import ListNotations.
Local Open Scope N_scope.

(* ------------------------------------------------------------------ len / takeN / dropN *)

Lemma len_length {A} (l : list A) : len l = N.of_nat (length l).
Proof. induction l as [|x l IH]; cbn [len length]; [reflexivity|]. rewrite IH. lia. Qed.

Lemma len_app {A} (a b : list A) : len (a ++ b) = len a + len b.
Proof. induction a as [|x a IH]; cbn [len app]; [reflexivity|]. rewrite IH. lia. Qed.

Lemma len_nil {A} : len (@nil A) = 0.
Proof. reflexivity. Qed.

Lemma len_cons {A} (x : A) l : len (x :: l) = 1 + len l.
Proof. cbn [len]. lia. Qed.

Lemma len_zero_nil {A} (l : list A) : len l = 0 -> l = [].
Proof. destruct l; cbn [len]; [reflexivity|lia]. Qed.

Lemma takeN_0 {A} (l : list A) : takeN 0 l = [].
Proof. destruct l; reflexivity. Qed.

Lemma dropN_0 {A} (l : list A) : dropN 0 l = l.
Proof. destruct l; reflexivity. Qed.

Lemma takeN_app_exact {A} (a b : list A) : takeN (len a) (a ++ b) = a.
Proof.
  induction a as [|x a IH]; cbn [len app].
  - apply takeN_0.
  - cbn [takeN]. destruct (N.succ (len a) =? 0) eqn:E; [apply N.eqb_eq in E; lia|].
    rewrite N.pred_succ, IH. reflexivity.
Qed.

Lemma dropN_app_exact {A} (a b : list A) : dropN (len a) (a ++ b) = b.
Proof.
  induction a as [|x a IH]; cbn [len app].
  - apply dropN_0.
  - cbn [dropN]. destruct (N.succ (len a) =? 0) eqn:E; [apply N.eqb_eq in E; lia|].
    rewrite N.pred_succ, IH. reflexivity.
Qed.

Lemma takeN_all {A} (a : list A) : takeN (len a) a = a.
Proof. rewrite <- (app_nil_r a) at 2. apply takeN_app_exact. Qed.

Lemma dropN_all {A} (a : list A) : dropN (len a) a = [].
Proof. rewrite <- (app_nil_r a) at 2. apply dropN_app_exact. Qed.

Lemma takeN_app_n {A} n (a b : list A) : n = len a -> takeN n (a ++ b) = a.
Proof. intros ->. apply takeN_app_exact. Qed.

Lemma dropN_app_n {A} n (a b : list A) : n = len a -> dropN n (a ++ b) = b.
Proof. intros ->. apply dropN_app_exact. Qed.

Lemma takeN_dropN {A} n (l : list A) : takeN n l ++ dropN n l = l.
Proof.
  revert n; induction l as [|x l IH]; intro n; cbn [takeN dropN]; [reflexivity|].
  destruct (n =? 0); [reflexivity|]. cbn [app]. rewrite IH. reflexivity.
Qed.

Lemma len_takeN {A} n (l : list A) : len (takeN n l) = N.min n (len l).
Proof.
  revert n; induction l as [|x l IH]; intro n; cbn [takeN len]; [lia|].
  destruct (n =? 0) eqn:E.
  - apply N.eqb_eq in E. subst. cbn [len]. lia.
  - apply N.eqb_neq in E. cbn [len]. rewrite IH. lia.
Qed.

Lemma len_dropN {A} n (l : list A) : len (dropN n l) = len l - n.
Proof.
  revert n; induction l as [|x l IH]; intro n; cbn [dropN len]; [lia|].
  destruct (n =? 0) eqn:E.
  - apply N.eqb_eq in E. subst. cbn [len]. lia.
  - apply N.eqb_neq in E. rewrite IH. lia.
Qed.

Lemma length_len_le {A} (l : list A) (k : nat) : len l <= N.of_nat k -> (length l <= k)%nat.
Proof. rewrite len_length. lia. Qed.

(* ------------------------------------------------------------------ bytes *)

Lemma N_of_byte_lt (b : byte) : N_of_byte b < 256.
Proof. unfold N_of_byte. pose proof (Byte.to_N_bounded b). lia. Qed.

Lemma N_of_byte_of_N (n : N) : N_of_byte (byte_of_N n) = n mod 256.
Proof.
  unfold byte_of_N, N_of_byte.
  destruct (Byte.of_N (n mod 256)) as [b|] eqn:E.
  - apply Byte.to_of_N. exact E.
  - apply Byte.of_N_None_iff in E. pose proof (N.mod_upper_bound n 256). lia.
Qed.

Lemma byte_of_N_of_byte (b : byte) : byte_of_N (N_of_byte b) = b.
Proof.
  unfold byte_of_N, N_of_byte.
  rewrite N.mod_small by (pose proof (Byte.to_N_bounded b); lia).
  rewrite Byte.of_to_N. reflexivity.
Qed.

Lemma N_of_byte_inj (a b : byte) : N_of_byte a = N_of_byte b -> a = b.
Proof. intro H. rewrite <- (byte_of_N_of_byte a), <- (byte_of_N_of_byte b), H. reflexivity. Qed.

Lemma byte_eqb_eq (a b : byte) : byte_eqb a b = true <-> a = b.
Proof.
  unfold byte_eqb. rewrite N.eqb_eq. split; [apply N_of_byte_inj|intros ->; reflexivity].
Qed.

Lemma byte_eqb_refl (a : byte) : byte_eqb a a = true.
Proof. apply byte_eqb_eq. reflexivity. Qed.

Lemma bytes_eqb_eq (a b : bytes) : bytes_eqb a b = true <-> a = b.
Proof.
  revert b; induction a as [|x a IH]; intros [|y b]; cbn [bytes_eqb].
  - split; reflexivity.
  - split; discriminate.
  - split; discriminate.
  - rewrite andb_true_iff, byte_eqb_eq, IH. split; [intros [H1 H2]; subst; reflexivity|intro H; inversion H; auto].
Qed.

Lemma bytes_eqb_refl (a : bytes) : bytes_eqb a a = true.
Proof. apply bytes_eqb_eq. reflexivity. Qed.

Lemma bytes_eqb_neq (a b : bytes) : bytes_eqb a b = false <-> a <> b.
Proof.
  split.
  - intros H E. apply bytes_eqb_eq in E. congruence.
  - intro H. destruct (bytes_eqb a b) eqn:E; [|reflexivity]. apply bytes_eqb_eq in E. contradiction.
Qed.

Lemma bytes_eqb_sym (a b : bytes) : bytes_eqb a b = bytes_eqb b a.
Proof.
  destruct (bytes_eqb a b) eqn:E.
  - apply bytes_eqb_eq in E. subst. symmetry. apply bytes_eqb_refl.
  - symmetry. apply bytes_eqb_neq. apply bytes_eqb_neq in E. congruence.
Qed.

(* ------------------------------------------------------------------ little-endian words *)

Lemma le_dec_cons b t : le_dec (b :: t) = N_of_byte b + 256 * le_dec t.
Proof. reflexivity. Qed.
Lemma le_dec_nil : le_dec [] = 0.
Proof. reflexivity. Qed.

Lemma le_dec_le_enc (k : nat) (n : N) : le_dec (le_enc k n) = n mod 256 ^ N.of_nat k.
Proof.
  revert n; induction k as [|k IH]; intro n.
  - cbn [le_enc le_dec]. change (N.of_nat 0) with 0. rewrite N.pow_0_r, N.mod_1_r. reflexivity.
  - cbn [le_enc le_dec]. rewrite IH, N_of_byte_of_N.
    rewrite Nat2N.inj_succ, N.pow_succ_r'.
    rewrite N.mod_mul_r; [reflexivity|lia|].
    apply N.pow_nonzero. lia.
Qed.

Lemma length_le_enc (k : nat) (n : N) : length (le_enc k n) = k.
Proof. revert n; induction k as [|k IH]; intro n; cbn [le_enc length]; [reflexivity|]. rewrite IH. reflexivity. Qed.

Lemma len_le32 (n : N) : len (le32 n) = 4.
Proof. reflexivity. Qed.

Lemma le_dec_le32 (n : N) : n < two32 -> le_dec (le32 n) = n.
Proof.
  intro H. unfold le32. rewrite le_dec_le_enc. change (256 ^ N.of_nat 4) with two32.
  apply N.mod_small. exact H.
Qed.

Lemma le32_cons4 (n : N) : exists a b c d, le32 n = [a; b; c; d].
Proof. unfold le32. cbn [le_enc]. eauto. Qed.

Lemma rd32_le32 (n : N) (w : bytes) : n < two32 -> rd32 (le32 n ++ w) = Ok (n, w).
Proof.
  intro H. destruct (le32_cons4 n) as (a & b & c & d & E).
  rewrite E. cbn [app]. unfold rd32. rewrite <- E, le_dec_le32 by exact H. reflexivity.
Qed.

Lemma rd32_short (w : bytes) : len w < 4 -> rd32 w = Err.
Proof.
  destruct w as [|a [|b [|c [|d w]]]]; unfold rd32; try reflexivity.
  rewrite !len_cons. lia.
Qed.

Lemma rd32_rest_len (w : bytes) n w' : rd32 w = Ok (n, w') -> len w = 4 + len w'.
Proof.
  destruct w as [|a [|b [|c [|d w]]]]; unfold rd32; try discriminate.
  intro H. assert (Hw : w = w') by congruence. subst w'. rewrite !len_cons. lia.
Qed.

Lemma rd32_lt (w : bytes) n w' : rd32 w = Ok (n, w') -> n < two32.
Proof.
  destruct w as [|a [|b [|c [|d w]]]]; unfold rd32; try discriminate.
  intro H. assert (Hn : le_dec [a; b; c; d] = n) by congruence. subst n. rewrite !le_dec_cons, le_dec_nil.
  pose proof (N_of_byte_lt a). pose proof (N_of_byte_lt b). pose proof (N_of_byte_lt c). pose proof (N_of_byte_lt d).
  unfold two32. lia.
Qed.

(* ------------------------------------------------------------------ C strings *)

Lemma is_nul_x00 : is_nul x00 = true.
Proof. reflexivity. Qed.

Lemma upto_nul_app (s w : bytes) : nul_free s -> upto_nul (s ++ x00 :: w) = Some s.
Proof.
  unfold nul_free. induction s as [|b s IH]; cbn [app upto_nul].
  - intros _. rewrite is_nul_x00. reflexivity.
  - destruct (is_nul b); [discriminate|].
    destruct (upto_nul s) eqn:E; [discriminate|]. intros _. rewrite IH by reflexivity. reflexivity.
Qed.

Lemma nul_free_nil : nul_free [].
Proof. reflexivity. Qed.

Lemma nul_free_cons b s : nul_free (b :: s) <-> is_nul b = false /\ nul_free s.
Proof.
  unfold nul_free. cbn [upto_nul]. destruct (is_nul b).
  - split; [discriminate|intros [H _]; discriminate].
  - destruct (upto_nul s); split; try discriminate; try (intros [_ H]; discriminate); auto.
Qed.

Lemma rd_lp_string_app (s w : bytes) :
  nul_free s -> str_flat_size s < two32 ->
  rd_lp_string (le32 (str_flat_size s) ++ s ++ x00 :: w) = Ok (s, w).
Proof.
  intros Hn Hs. unfold rd_lp_string. rewrite rd32_le32 by exact Hs. cbn [bind fst snd].
  assert (E : s ++ x00 :: w = (s ++ [x00]) ++ w) by (rewrite <- app_assoc; reflexivity).
  assert (L : str_flat_size s = len (s ++ [x00])) by (unfold str_flat_size; rewrite len_app; reflexivity).
  rewrite E.
  destruct (str_flat_size s <=? len ((s ++ [x00]) ++ w)) eqn:Le.
  - rewrite takeN_app_n, dropN_app_n by exact L.
    rewrite <- (app_nil_r (s ++ [x00])), <- app_assoc. cbn [app]. rewrite upto_nul_app by exact Hn. reflexivity.
  - apply N.leb_gt in Le. rewrite len_app, <- L in Le. lia.
Qed.
