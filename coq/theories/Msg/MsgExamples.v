(* Msg/MsgExamples.v -- non-vacuity: the premises of the C01 theorems are satisfied by non-trivial Messages,
   and the domain boundary F9 (a String with an embedded NUL) stated as a lemma about the model. *)
From Coq Require Import List NArith Bool Strings.Byte Lia.
From Muscle Require Import Gen.Consts Msg.MsgDefs Msg.MsgModel Msg.MsgApi Msg.MsgBytesProofs Msg.MsgRoundTrip.
Import ListNotations.
Local Open Scope N_scope.

Definition nm_a : bytes := [x61].
Definition nm_b : bytes := [x62].
Definition nm_c : bytes := [x63].
Definition nm_p : bytes := [x70].
Definition nm_kids : bytes := [x6b; x69; x64; x73].

(* a sub-Message with an inline float NaN and a one-item string array *)
Definition ex_sub : msg :=
  Msg 7 (FCons nm_a c_B_FLOAT_TYPE (RInline (IFix [x00; x00; xc0; x7f]))
        (FCons nm_b c_B_STRING_TYPE (RArray (ICons (IStr [x68; x69]) INil)) FNil)).

(* int32 array of three, a bool, a pointer field (not flattenable), two sub-Messages, a raw field of code 0 *)
Definition ex_msg : msg :=
  Msg 4294967295
    (FCons nm_a c_B_INT32_TYPE (RArray (ICons (IFix [x01; x00; x00; x00]) (ICons (IFix [xff; xff; xff; x7f]) (ICons (IFix [x00; x00; x00; x80]) INil))))
    (FCons nm_b c_B_BOOL_TYPE (RInline (IFix [x01]))
    (FCons nm_p c_B_POINTER_TYPE (RInline (IOpaque 1))
    (FCons nm_kids c_B_MESSAGE_TYPE (RArray (ICons (IMsg ex_sub) (ICons (IMsg (Msg 0 FNil)) INil)))
    (FCons nm_c 0 (RInline (IRaw [])) FNil))))).

Example ex_wf : wf ex_msg.
Proof.
  split; [|vm_compute; reflexivity].
  cbn [ex_msg ex_sub wf_msg wf_fields wf_repr wf_items fnames].
  repeat split; try (vm_compute; reflexivity); try exact I;
    try (repeat constructor; cbn [In]; intuition discriminate).
Qed.

(* the theorem's conclusion, computed on the example (the parsed Message has lost the pointer field and
   its one-item string array has become inline; everything else is identical) *)
Example ex_roundtrip : unflatten (flatten ex_msg) = Ok (rt ex_msg).
Proof. vm_compute. reflexivity. Qed.

Example ex_rt_differs : rt ex_msg <> ex_msg.
Proof. vm_compute. discriminate. Qed.

(* item counts 0 -> 1 -> 2 -> 3 -> 2 -> 1 -> 0 through the API, with the code's representation states:
   inline, array of two, array of three (prepend), array of two, array of ONE (never back to inline), gone *)
Definition v1 := IFix [x01; x00; x00; x00].
Definition v2 := IFix [x02; x00; x00; x00].
Definition v3 := IFix [x03; x00; x00; x00].

Example api_states :
  run [OAdd false nm_a c_B_INT32_TYPE v1] empty_msg = Msg 0 (FCons nm_a c_B_INT32_TYPE (RInline v1) FNil) /\
  run [OAdd false nm_a c_B_INT32_TYPE v1; OAdd false nm_a c_B_INT32_TYPE v2] empty_msg
    = Msg 0 (FCons nm_a c_B_INT32_TYPE (RArray (ICons v1 (ICons v2 INil))) FNil) /\
  run [OAdd false nm_a c_B_INT32_TYPE v1; OAdd false nm_a c_B_INT32_TYPE v2; OAdd true nm_a c_B_INT32_TYPE v3] empty_msg
    = Msg 0 (FCons nm_a c_B_INT32_TYPE (RArray (ICons v3 (ICons v1 (ICons v2 INil)))) FNil) /\
  run [OAdd false nm_a c_B_INT32_TYPE v1; OAdd false nm_a c_B_INT32_TYPE v2; ORemoveData nm_a 0] empty_msg
    = Msg 0 (FCons nm_a c_B_INT32_TYPE (RArray (ICons v2 INil)) FNil) /\
  run [OAdd false nm_a c_B_INT32_TYPE v1; OAdd false nm_a c_B_INT32_TYPE v2; ORemoveData nm_a 0; ORemoveData nm_a 0] empty_msg
    = Msg 0 FNil.
Proof. repeat split; vm_compute; reflexivity. Qed.

Definition ex_ops : list mop :=
  [OAdd false nm_a c_B_INT32_TYPE v1; OAdd true nm_a c_B_INT32_TYPE v2; OAdd false nm_b c_B_STRING_TYPE (IStr [x68; x69]);
   OAdd false nm_kids c_B_MESSAGE_TYPE (IMsg ex_sub); OReplace true nm_b c_B_STRING_TYPE 5 (IStr []);
   ORemoveData nm_a 0; ORename nm_b nm_c; OSetWhat 9].

Example ex_ops_ok : Forall op_ok ex_ops.
Proof.
  unfold ex_ops. repeat constructor; cbn [op_ok wf_item]; try exact I; try (vm_compute; reflexivity);
    try (intro HIn; vm_compute in HIn; intuition discriminate).
Qed.

Example ex_ops_result : wf (run ex_ops empty_msg) /\ fields_len (msg_fields (run ex_ops empty_msg)) = 3.
Proof.
  split; [|vm_compute; reflexivity]. split; [|vm_compute; reflexivity].
  vm_compute. repeat split; try reflexivity; try (repeat constructor; cbn [In]; intuition discriminate).
Qed.

(* F9, the domain boundary: a String item holding an embedded NUL (reachable only through
   String::operator+=(char) / operator[]) is written with its full length and parsed back truncated at the
   NUL.  This is why [wf] demands NUL-free strings. *)
Definition nul_msg : msg := Msg 0 (FCons nm_a c_B_STRING_TYPE (RInline (IStr [x61; x00; x62])) FNil).

Lemma nul_string_truncates :
  unflatten (flatten nul_msg) = Ok (Msg 0 (FCons nm_a c_B_STRING_TYPE (RInline (IStr [x61])) FNil))
  /\ ~ wf_msg nul_msg.
Proof.
  split; [vm_compute; reflexivity|].
  intros (_ & _ & (_ & _ & H & _)). vm_compute in H. discriminate H.
Qed.
