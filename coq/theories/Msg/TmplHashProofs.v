(* Msg/TmplHashProofs.v -- TemplateHashCode64 is a function of the shape: two Messages of the same shape (in
   particular a Message and the template CreateMessageTemplate makes for it) have the same template hash.
   (The converse -- equal hash implies equal shape -- is the injectivity premise of the templating gateway, C03.) *)
From Coq Require Import List NArith Bool Strings.Byte Lia Arith.
From Muscle Require Import Gen.Consts Msg.MsgDefs Msg.MsgModel Msg.MsgApi Msg.TmplModel
  Msg.MsgBytesProofs Msg.MsgRoundTrip Msg.TmplProofs.
Import ListNotations.
Local Open Scope N_scope.

Section HashProofs.
  Variable h64 : bytes -> N.

  Lemma u64_lt (n : N) : u64 n < two64.
  Proof. unfold u64. apply N.mod_upper_bound. discriminate. Qed.

  Lemma u64_small (n : N) : n < two64 -> u64 n = n.
  Proof. intro H. unfold u64. apply N.mod_small. exact H. Qed.

  Definition th_sub (tc : N) (r : repr) (c1 : N) : N * N :=
    match ftype_of_tc tc with TMessage => th_repr h64 r c1 | _ => (0, c1) end.

  Lemma th_fields_cons n tc r t cnt :
    th_fields h64 (FCons n tc r t) cnt =
    if flattenable tc then
      (u64 (u32 (cnt + 1) * (u64 (h64 n) + repr_count r * tc) + fst (th_sub tc r (u32 (cnt + 1)))
            + fst (th_fields h64 t (snd (th_sub tc r (u32 (cnt + 1)))))),
       snd (th_fields h64 t (snd (th_sub tc r (u32 (cnt + 1))))))
    else th_fields h64 t cnt.
  Proof. reflexivity. Qed.

  (* every partial sum is a uint64 *)
  Lemma th_bound_all :
    (forall i cnt, fst (th_item h64 i cnt) < two64) /\
    (forall l cnt, fst (th_items h64 l cnt) < two64) /\
    (forall r cnt, fst (th_repr h64 r cnt) < two64) /\
    (forall fs cnt, fst (th_fields h64 fs cnt) < two64) /\
    (forall m cnt, fst (th_msg h64 m cnt) < two64).
  Proof.
    apply msg_mutind.
    - intros; reflexivity.
    - intros; reflexivity.
    - intros; reflexivity.
    - intros m IH cnt. cbn [th_item]. apply IH.
    - intros; reflexivity.
    - intros; reflexivity.
    - intros i IHi t IHt cnt. cbn [th_items fst]. apply u64_lt.
    - intros i IH cnt. cbn [th_repr]. apply IH.
    - intros l IH cnt. cbn [th_repr]. apply IH.
    - intros; reflexivity.
    - intros n tc r IHr t IHt cnt. rewrite th_fields_cons. destruct (flattenable tc); [cbn [fst]; apply u64_lt|apply IHt].
    - intros w fs IH cnt. cbn [th_msg]. apply IH.
  Qed.

  (* an array of one sub-Message and an inline sub-Message count the same *)
  Lemma th_items_cons i t cnt :
    th_items h64 (ICons i t) cnt =
    (u64 (fst (th_item h64 i cnt) + fst (th_items h64 t (snd (th_item h64 i cnt)))),
     snd (th_items h64 t (snd (th_item h64 i cnt)))).
  Proof. reflexivity. Qed.

  Lemma th_items_single (i : item) (cnt : N) : th_items h64 (ICons i INil) cnt = th_item h64 i cnt.
  Proof.
    rewrite th_items_cons. change (th_items h64 INil (snd (th_item h64 i cnt))) with (0, snd (th_item h64 i cnt)).
    cbn [fst snd]. rewrite N.add_0_r, u64_small by apply th_bound_all.
    symmetry. apply surjective_pairing.
  Qed.

  Lemma th_repr_items (r : repr) (cnt : N) : th_repr h64 r cnt = th_items h64 (repr_items r) cnt.
  Proof. destruct r as [i|l]; cbn [th_repr repr_items]; [symmetry; apply th_items_single|reflexivity]. Qed.

  (* the fields that are never written do not count, at any level *)
  Lemma th_strip_all :
    (forall i cnt, th_item h64 (strip_item i) cnt = th_item h64 i cnt) /\
    (forall l cnt, th_items h64 (strip_items l) cnt = th_items h64 l cnt) /\
    (forall r cnt, th_repr h64 (strip_repr r) cnt = th_repr h64 r cnt) /\
    (forall fs cnt, th_fields h64 (strip_fields fs) cnt = th_fields h64 fs cnt) /\
    (forall m cnt, th_msg h64 (strip_msg m) cnt = th_msg h64 m cnt).
  Proof.
    apply msg_mutind.
    - reflexivity.
    - reflexivity.
    - reflexivity.
    - intros m IH cnt. cbn [strip_item th_item]. apply IH.
    - reflexivity.
    - reflexivity.
    - intros i IHi t IHt cnt. cbn [strip_items]. rewrite !th_items_cons, IHi, IHt. reflexivity.
    - intros i IH cnt. cbn [strip_repr th_repr]. apply IH.
    - intros l IH cnt. cbn [strip_repr th_repr]. apply IH.
    - reflexivity.
    - intros n tc r IHr t IHt cnt. cbn [strip_fields].
      destruct (flattenable tc) eqn:Fl; rewrite !th_fields_cons, ?Fl; [|apply IHt].
      assert (E : th_sub tc (strip_repr r) (u32 (cnt + 1)) = th_sub tc r (u32 (cnt + 1))) by (unfold th_sub; destruct (ftype_of_tc tc); try reflexivity; apply IHr).
      rewrite repr_count_strip, E, IHt. reflexivity.
    - intros w fs IH cnt. cbn [strip_msg th_msg]. apply IH.
  Qed.

  (* same shape, same hash *)
  Lemma th_shape_all :
    (forall it lp cnt, shape_item it lp = true ->
       exists j lp', lp = ICons j lp' /\ th_item h64 it cnt = th_item h64 j cnt) /\
    (forall lt lp cnt, shape_items lt lp = true -> items_len lt = items_len lp ->
       th_items h64 lt cnt = th_items h64 lp cnt) /\
    (forall rt lp cnt, shape_repr TMessage rt lp = true -> repr_count rt = items_len lp ->
       th_repr h64 rt cnt = th_items h64 lp cnt) /\
    (forall ft fp cnt, shape_fields ft fp = true -> th_fields h64 ft cnt = th_fields h64 fp cnt) /\
    (forall t p cnt, shape_msg t p = true -> th_msg h64 t cnt = th_msg h64 p cnt).
  Proof.
    apply msg_mutind.
    - intros bs lp cnt H. discriminate H.
    - intros bs lp cnt H. discriminate H.
    - intros bs lp cnt H. discriminate H.
    - intros tm IH lp cnt H. cbn [shape_item] in H.
      destruct lp as [|j lp']; [discriminate|]. destruct j as [| | |pm|]; try discriminate.
      exists (IMsg pm), lp'. split; [reflexivity|]. cbn [th_item]. apply IH. exact H.
    - intros id lp cnt H. discriminate H.
    - intros lp cnt _ Hl. cbn [items_len] in Hl. destruct lp; [reflexivity|cbn [items_len] in Hl; lia].
    - intros it IHi lt IHt lp cnt H Hl. cbn [shape_items] in H. apply andb_true_iff in H. destruct H as [H1 H2].
      destruct (IHi lp cnt H1) as (j & lp' & -> & E).
      cbn [items_tail] in H2. cbn [items_len] in Hl.
      rewrite !th_items_cons, E. rewrite (IHt lp' (snd (th_item h64 j cnt)) H2) by lia. reflexivity.
    - intros it IHi lp cnt H Hc. cbn [shape_repr] in H. cbn [repr_count] in Hc.
      destruct (IHi lp cnt H) as (j & lp' & -> & E).
      cbn [items_len] in Hc. destruct lp'; [|cbn [items_len] in Hc; lia].
      cbn [th_repr]. rewrite th_items_single. exact E.
    - intros lt IHl lp cnt H Hc. cbn [shape_repr] in H. cbn [repr_count] in Hc. cbn [th_repr]. apply IHl; assumption.
    - intros fp cnt H. cbn [shape_fields] in H. destruct fp; [reflexivity|discriminate].
    - intros n tc rt IHr tl IHt fp cnt H. cbn [shape_fields] in H. rewrite th_fields_cons.
      destruct (flattenable tc) eqn:Fl; [|apply IHt; exact H].
      destruct fp as [|n2 tc2 rp tp]; [discriminate|].
      apply andb_true_iff in H. destruct H as [H H5].
      apply andb_true_iff in H. destruct H as [H H4].
      apply andb_true_iff in H. destruct H as [H H3].
      apply andb_true_iff in H. destruct H as [H1 H2].
      apply bytes_eqb_eq in H1. apply N.eqb_eq in H2. apply N.eqb_eq in H3. subst n2 tc2.
      rewrite th_fields_cons, Fl, H3.
      assert (Esub : th_sub tc rt (u32 (cnt + 1)) = th_sub tc rp (u32 (cnt + 1))).
      { unfold th_sub. destruct (ftype_of_tc tc); try reflexivity.
        rewrite (th_repr_items rp). apply IHr; [exact H4|]. rewrite H3. destruct rp; reflexivity. }
      rewrite Esub. rewrite (IHt tp _ H5). reflexivity.
    - intros wt ft IH [wp fp] cnt H. cbn [shape_msg] in H. cbn [th_msg]. apply IH. exact H.
  Qed.

  Theorem same_shape_same_hash (t p : msg) : same_shape t p = true -> tmpl_hash h64 t = tmpl_hash h64 p.
  Proof.
    intro H. unfold tmpl_hash, same_shape in *.
    rewrite (proj2 (proj2 (proj2 (proj2 th_shape_all))) t (strip_msg p) 0 H).
    rewrite (proj2 (proj2 (proj2 (proj2 th_strip_all))) p 0). reflexivity.
  Qed.

  (* the template made for a Message is cached under the Message's own hash *)
  Corollary created_template_hash (p : msg) : wf_msg p -> nz_msg p -> tmpl_hash h64 (tmpl_of_msg p) = tmpl_hash h64 p.
  Proof. intros Hw Hn. apply same_shape_same_hash. apply (created_template_ok p Hw Hn). Qed.

  (* The converse fails, whatever the string hash is: the counter-weighted sum cannot tell the item counts of
     two fields apart.  {a:int32[5], b:int32[6,7]} and {a:int32[1,2,3], b:int32[4]} both hash to
     h(a) + 2 h(b) + 5 * B_INT32_TYPE (finding F54: a templating gateway keyed on the hash alone sent the second
     against the cached template of the first). *)
  Definition i32 (a : byte) : item := IFix [a; x00; x00; x00].
  Definition coll_1 : msg :=
    Msg 0 (FCons [x61] c_B_INT32_TYPE (RInline (i32 x05))
          (FCons [x62] c_B_INT32_TYPE (RArray (ICons (i32 x06) (ICons (i32 x07) INil))) FNil)).
  Definition coll_2 : msg :=
    Msg 0 (FCons [x61] c_B_INT32_TYPE (RArray (ICons (i32 x01) (ICons (i32 x02) (ICons (i32 x03) INil))))
          (FCons [x62] c_B_INT32_TYPE (RInline (i32 x04)) FNil)).

  Lemma coll_sum (a b k1 k2 k3 k4 : N) :
    k1 + 2 * k2 = k3 + 2 * k4 ->
    u64 (1 * (u64 a + k1) + 0 + u64 (2 * (u64 b + k2) + 0 + 0)) = u64 (1 * (u64 a + k3) + 0 + u64 (2 * (u64 b + k4) + 0 + 0)).
  Proof.
    intro E. unfold u64.
    rewrite !N.add_mod_idemp_r by discriminate. f_equal. lia.
  Qed.

  Example hash_collision :
    wf_msg coll_1 /\ wf_msg coll_2 /\ nz_msg coll_1 /\ nz_msg coll_2 /\
    same_shape coll_1 coll_2 = false /\ same_shape coll_2 coll_1 = false /\
    tmpl_hash h64 coll_1 = tmpl_hash h64 coll_2.
  Proof.
    split; [|split; [|split; [|split; [|split; [|split]]]]].
    - vm_compute. repeat split; try reflexivity; try exact I; try (repeat constructor; cbn [In]; intuition discriminate).
    - vm_compute. repeat split; try reflexivity; try exact I; try (repeat constructor; cbn [In]; intuition discriminate).
    - vm_compute. repeat split; try reflexivity; try exact I; discriminate.
    - vm_compute. repeat split; try reflexivity; try exact I; discriminate.
    - vm_compute. reflexivity.
    - vm_compute. reflexivity.
    - unfold tmpl_hash. f_equal.
      assert (E : fst (th_msg h64 coll_1 0) = fst (th_msg h64 coll_2 0)).
      { unfold coll_1, coll_2.
        assert (Em : forall w fs c, th_msg h64 (Msg w fs) c = th_fields h64 fs c) by reflexivity.
        rewrite !Em. rewrite !th_fields_cons.
        change (flattenable c_B_INT32_TYPE) with true. cbv iota.
        change (th_sub c_B_INT32_TYPE) with (fun (_ : repr) (c : N) => (0, c)). cbv beta. cbn [fst snd th_fields].
        change (u32 (0 + 1)) with 1. change (u32 (1 + 1)) with 2.
        apply coll_sum. vm_compute. reflexivity. }
      rewrite E. reflexivity.
  Qed.
End HashProofs.
