(* Msg/MsgSpecProofs.v -- the code-shaped model of Message::Flatten writes exactly the documented layout
   (C08), hence the documented layout determines the content and is accepted by the model of the parser. *)
From Coq Require Import List NArith Bool Strings.Byte Lia Arith.
From Muscle Require Import Gen.Consts Msg.MsgDefs Msg.MsgModel Msg.MsgSpec Msg.MsgBytesProofs Msg.MsgSizeProofs
  Msg.MsgRoundTrip Msg.MsgReprProofs.
Import ListNotations.
Local Open Scope N_scope.

(* ------------------------------------------------------------------ the translated constants are the documented ones *)

Lemma protocol_constants_documented :
  c_CURRENT_PROTOCOL_VERSION = s_PM00 /\ c_OLDEST_SUPPORTED_PROTOCOL_VERSION = s_PM00 /\
  c_MUSCLE_MESSAGE_ENCODING_DEFAULT = s_Enc0.
Proof. repeat split; reflexivity. Qed.

Lemma type_codes_documented :
  c_B_BOOL_TYPE = s_BOOL /\ c_B_DOUBLE_TYPE = s_DBLE /\ c_B_FLOAT_TYPE = s_FLOT /\ c_B_INT64_TYPE = s_LLNG /\
  c_B_INT32_TYPE = s_LONG /\ c_B_INT16_TYPE = s_SHRT /\ c_B_INT8_TYPE = s_BYTE /\ c_B_POINT_TYPE = s_BPNT /\
  c_B_RECT_TYPE = s_RECT /\ c_B_POINTER_TYPE = s_PNTR /\ c_B_TAG_TYPE = s_MTAG /\ c_B_MESSAGE_TYPE = s_MSGG /\
  c_B_STRING_TYPE = s_CSTR.
Proof. repeat split; reflexivity. Qed.

Definition class_of_ft (ft : ftype) : sclass :=
  match ft with
  | TBool => SFixed 1 | TDouble => SFixed 8 | TFloat => SFixed 4 | TInt64 => SFixed 8 | TInt32 => SFixed 4
  | TInt16 => SFixed 2 | TInt8 => SFixed 1 | TPoint => SFixed 8 | TRect => SFixed 16
  | TPointer | TTag => SNone | TMessage => SMessage | TString => SString | TRaw => SOther
  end.

(* the type switch of Message.cpp (over the translated type codes) classifies exactly as documented *)
Lemma spec_class_ft (tc : N) : spec_class tc = class_of_ft (ftype_of_tc tc).
Proof.
  unfold spec_class, ftype_of_tc.
  unfold s_BOOL, s_DBLE, s_FLOT, s_LLNG, s_LONG, s_SHRT, s_BYTE, s_BPNT, s_RECT, s_PNTR, s_MTAG, s_MSGG, s_CSTR.
  unfold c_B_BOOL_TYPE, c_B_DOUBLE_TYPE, c_B_FLOAT_TYPE, c_B_INT64_TYPE, c_B_INT32_TYPE, c_B_INT16_TYPE, c_B_INT8_TYPE,
    c_B_POINT_TYPE, c_B_RECT_TYPE, c_B_POINTER_TYPE, c_B_TAG_TYPE, c_B_MESSAGE_TYPE, c_B_STRING_TYPE.
  repeat match goal with |- context [if ?b then _ else _] => destruct b; [reflexivity|] end.
  reflexivity.
Qed.

(* the documented item widths are the sizes the C++ types have *)
Lemma class_width_ok (ft : ftype) : ft_fixed ft = true -> class_of_ft ft = SFixed (cpp_size ft).
Proof. destruct ft; intro H; try discriminate H; reflexivity. Qed.

Lemma class_none_iff (ft : ftype) : ft_flattenable ft = false <-> class_of_ft ft = SNone.
Proof. destruct ft; cbn; split; intro H; try reflexivity; discriminate H. Qed.

(* ------------------------------------------------------------------ flatten is the documented layout *)

Lemma flatten_is_spec_all :
  (forall i ft, ft_flattenable ft = true -> wf_item ft i ->
     flat_elem ft i = spec_item (class_of_ft ft) i /\
     flat_single ft i = spec_count_word (class_of_ft ft) 1 ++ spec_item (class_of_ft ft) i) /\
  (forall l ft, ft_flattenable ft = true -> wf_items ft l -> flat_items ft l = spec_items (class_of_ft ft) l) /\
  (forall r ft, ft_flattenable ft = true -> wf_repr ft r -> flat_repr ft r = spec_payload (class_of_ft ft) r) /\
  (forall fs, wf_fields fs -> flat_fields fs = spec_fields fs /\ count_flat fs = spec_count fs) /\
  (forall m, wf_msg m -> flat_msg m = spec_msg m).
Proof.
  apply msg_mutind.
  - (* IFix *)
    intros bs ft Hf Hw. destruct ft; try discriminate Hf; cbn [wf_item] in Hw; try contradiction;
      try (split; reflexivity).
    destruct Hw as [-> | ->]; split; reflexivity.
  - (* IStr *)
    intros s ft Hf Hw. destruct ft; try discriminate Hf; cbn [wf_item] in Hw; try contradiction.
    assert (E : str_flat_size s = len (s ++ [x00])) by (unfold str_flat_size; rewrite len_app; reflexivity).
    cbn [flat_elem flat_single class_of_ft spec_item spec_count_word]. unfold with_len. rewrite E. split; reflexivity.
  - (* IRaw *)
    intros b ft Hf Hw. destruct ft; try discriminate Hf; cbn [wf_item] in Hw; try contradiction.
    cbn [flat_elem flat_single class_of_ft spec_item spec_count_word]. unfold with_len. split; reflexivity.
  - (* IMsg *)
    intros m IH ft Hf Hw. destruct ft; try discriminate Hf; cbn [wf_item] in Hw; try contradiction.
    pose proof (proj2 (proj2 (proj2 (proj2 flatten_length_all))) m Hw) as Hl.
    cbn [flat_elem flat_single class_of_ft spec_item spec_count_word]. unfold with_len.
    rewrite <- (IH Hw), Hl. split; reflexivity.
  - (* IOpaque *)
    intros id ft Hf Hw. destruct ft; try discriminate Hf; cbn [wf_item] in Hw; contradiction.
  - reflexivity.
  - intros i IHi t IHt ft Hf [Hi Ht]. cbn [flat_items spec_items].
    rewrite (proj1 (IHi ft Hf Hi)), (IHt ft Hf Ht). reflexivity.
  - intros i IH ft Hf Hw. cbn [flat_repr spec_payload]. apply (IH ft Hf Hw).
  - intros l IH ft Hf Hw. cbn [wf_repr] in Hw. specialize (IH ft Hf Hw).
    destruct ft; try discriminate Hf; cbn [flat_repr spec_payload class_of_ft spec_count_word] in *;
      rewrite IH; reflexivity.
  - split; reflexivity.
  - intros n tc r IHr t IHt (Hn & Htc & Hr & Ht). destruct (IHt Ht) as [E1 E2].
    cbn [flat_fields spec_fields count_flat spec_count]. rewrite E1, E2, spec_class_ft.
    unfold flattenable.
    destruct (ft_flattenable (ftype_of_tc tc)) eqn:Fl.
    + pose proof (proj1 (proj2 (proj2 flatten_length_all)) r _ Fl Hr) as Hl.
      rewrite <- Hl, (IHr _ Fl Hr).
      assert (E : str_flat_size n = len (n ++ [x00])) by (unfold str_flat_size; rewrite len_app; reflexivity).
      unfold with_len. rewrite E.
      destruct (ftype_of_tc tc); try discriminate Fl; cbn [class_of_ft]; rewrite <- !app_assoc; split; reflexivity.
    + apply class_none_iff in Fl. rewrite Fl. split; reflexivity.
  - intros w fs IH (Hw & Hnd & Hfs). destruct (IH Hfs) as [E1 E2].
    cbn [flat_msg spec_msg]. rewrite E1, E2. reflexivity.
Qed.

Theorem flatten_is_spec (m : msg) : wf_msg m -> flatten m = spec_msg m.
Proof. apply flatten_is_spec_all. Qed.

(* ------------------------------------------------------------------ the layout does not depend on the representation *)

Lemma spec_content_all :
  (forall i c, spec_item c (content_item i) = spec_item c i) /\
  (forall l c, spec_items c (content_items l) = spec_items c l /\ items_len (content_items l) = items_len l) /\
  (forall r c, spec_payload c (content_repr r) = spec_payload c r) /\
  (forall fs, spec_fields (content_fields fs) = spec_fields fs /\ spec_count (content_fields fs) = spec_count fs) /\
  (forall m, spec_msg (content_msg m) = spec_msg m).
Proof.
  apply msg_mutind.
  - reflexivity.
  - reflexivity.
  - reflexivity.
  - intros m IH c. cbn [content_item]. destruct c; cbn [spec_item]; rewrite ?IH; reflexivity.
  - reflexivity.
  - intros c. split; reflexivity.
  - intros i IHi t IHt c. cbn [content_items spec_items items_len]. rewrite IHi.
    destruct (IHt c) as [-> ->]. split; reflexivity.
  - intros i IH c. cbn [content_repr spec_payload spec_items items_len]. rewrite IH, app_nil_r. reflexivity.
  - intros l IH c. cbn [content_repr spec_payload]. destruct (IH c) as [-> ->]. reflexivity.
  - split; reflexivity.
  - intros n tc r IHr t [E1 E2]. cbn [content_fields spec_fields spec_count]. rewrite E1, E2.
    destruct (spec_class tc); rewrite ?IHr; split; reflexivity.
  - intros w fs [E1 E2]. cbn [content_msg spec_msg]. rewrite E1, E2. reflexivity.
Qed.

Theorem spec_repr_indep (m : msg) : spec_msg (content_msg m) = spec_msg m.
Proof. apply spec_content_all. Qed.

(* ------------------------------------------------------------------ consequences *)

(* the parser model accepts the documented layout and recovers the Message *)
Theorem spec_roundtrip (m : msg) : wf m -> unflatten (spec_msg m) = Ok (rt m).
Proof. intros [Hw Hs]. rewrite <- flatten_is_spec by exact Hw. apply unflatten_flatten. split; assumption. Qed.

(* two well-formed Messages with the same bytes have the same content (of their flattenable parts) *)
Theorem spec_injective (m n : msg) :
  wf m -> wf n -> spec_msg m = spec_msg n -> content_msg (strip_msg m) = content_msg (strip_msg n).
Proof.
  intros Hm Hn E. pose proof (spec_roundtrip m Hm) as H1. pose proof (spec_roundtrip n Hn) as H2.
  rewrite E, H2 in H1. injection H1 as H1. rewrite <- !rt_content, H1. reflexivity.
Qed.

(* the stream frame: 8-byte header of body length and encoding id, then the body *)
Theorem unframe_frame (enc : N) (body rest : bytes) :
  len body < two32 -> enc < two32 -> unframe (frame enc body ++ rest) = Some (enc, body, rest).
Proof.
  intros Hb He. unfold frame.
  destruct (le32_cons4 (len body)) as (a & b & c & d & E1). destruct (le32_cons4 enc) as (e & f & g & h & E2).
  rewrite E1, E2. cbn [app unframe]. rewrite <- E1, <- E2, !le_dec_le32 by assumption.
  rewrite len_app. destruct (len body <=? len body + len rest) eqn:L; [|apply N.leb_gt in L; lia].
  rewrite takeN_app_exact, dropN_app_exact. reflexivity.
Qed.

(* ------------------------------------------------------------------ the independent copies of the protocol constants agree *)

(* lang/c/minimessage, lang/c/micromessage, their gateways and lang/python3 each carry their own copy of the
   protocol constants; all are translated from the current sources and must equal the C++ library's *)
Lemma protocol_constant_copies_agree :
  c_mini_CURRENT_PROTOCOL_VERSION = c_CURRENT_PROTOCOL_VERSION /\
  c_mini_OLDEST_SUPPORTED_PROTOCOL_VERSION = c_OLDEST_SUPPORTED_PROTOCOL_VERSION /\
  c_micro_CURRENT_PROTOCOL_VERSION = c_CURRENT_PROTOCOL_VERSION /\
  c_micro_OLDEST_SUPPORTED_PROTOCOL_VERSION = c_OLDEST_SUPPORTED_PROTOCOL_VERSION /\
  c_py_CURRENT_PROTOCOL_VERSION = c_CURRENT_PROTOCOL_VERSION /\
  c_minigw_ENCODING_DEFAULT = c_MUSCLE_MESSAGE_ENCODING_DEFAULT /\
  c_microgw_ENCODING_DEFAULT = c_MUSCLE_MESSAGE_ENCODING_DEFAULT /\
  c_py_ENCODING_DEFAULT = c_MUSCLE_MESSAGE_ENCODING_DEFAULT.
Proof. repeat split; reflexivity. Qed.

Lemma python_type_codes_agree :
  c_py_B_BOOL_TYPE = c_B_BOOL_TYPE /\ c_py_B_DOUBLE_TYPE = c_B_DOUBLE_TYPE /\ c_py_B_FLOAT_TYPE = c_B_FLOAT_TYPE /\
  c_py_B_INT64_TYPE = c_B_INT64_TYPE /\ c_py_B_INT32_TYPE = c_B_INT32_TYPE /\ c_py_B_INT16_TYPE = c_B_INT16_TYPE /\
  c_py_B_INT8_TYPE = c_B_INT8_TYPE /\ c_py_B_MESSAGE_TYPE = c_B_MESSAGE_TYPE /\ c_py_B_POINTER_TYPE = c_B_POINTER_TYPE /\
  c_py_B_POINT_TYPE = c_B_POINT_TYPE /\ c_py_B_RECT_TYPE = c_B_RECT_TYPE /\ c_py_B_STRING_TYPE = c_B_STRING_TYPE /\
  c_py_B_RAW_TYPE = c_B_RAW_TYPE /\ c_py_B_ANY_TYPE = c_B_ANY_TYPE.
Proof. repeat split; reflexivity. Qed.
