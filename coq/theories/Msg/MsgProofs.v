(* Msg/MsgProofs.v -- proofs about the Message codec model (C01). *)
From Coq Require Import List NArith Bool Strings.Byte Lia.
From Muscle Require Import Gen.Consts Msg.MsgDefs Msg.MsgModel Msg.MsgApi.
Import ListNotations.
Local Open Scope N_scope.

