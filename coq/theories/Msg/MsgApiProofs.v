(* Msg/MsgApiProofs.v -- every Message built by the modelled public API from the empty Message is
   structurally well-formed: the hypothesis of the codec theorems is satisfied by exactly what the API builds. *)
From Coq Require Import List NArith Bool Strings.Byte Lia.
From Muscle Require Import Gen.Consts Msg.MsgDefs Msg.MsgModel Msg.MsgApi Msg.MsgBytesProofs.
Import ListNotations.
Local Open Scope N_scope.

(* ------------------------------------------------------------------ the field table *)

Lemma flookup_none_notin (n : bytes) (fs : fields) : flookup n fs = None -> ~ In n (fnames fs).
Proof.
  induction fs as [|k tc r t IH]; cbn [flookup fnames In]; [tauto|].
  destruct (bytes_eqb n k) eqn:E; [discriminate|]. intros H [Hk|Hin]; [|exact (IH H Hin)].
  subst k. rewrite bytes_eqb_refl in E. discriminate.
Qed.

Lemma flookup_wf (n : bytes) (fs : fields) tc r :
  flookup n fs = Some (tc, r) -> wf_fields fs -> tc < two32 /\ wf_repr (ftype_of_tc tc) r.
Proof.
  induction fs as [|k tc' r' t IH]; cbn [flookup wf_fields]; [discriminate|].
  intros H (Hn & Htc & Hr & Ht). destruct (bytes_eqb n k); [|exact (IH H Ht)].
  injection H as <- <-. auto.
Qed.

Lemma fnames_fset n tc r fs : fnames (fset n tc r fs) = fnames fs.
Proof.
  induction fs as [|k tc' r' t IH]; cbn [fset fnames]; [reflexivity|].
  destruct (bytes_eqb n k); cbn [fnames]; [reflexivity|]. rewrite IH. reflexivity.
Qed.

Lemma wf_fields_fset n tc r fs :
  wf_fields fs -> tc < two32 -> wf_repr (ftype_of_tc tc) r -> wf_fields (fset n tc r fs).
Proof.
  intros Hw Htc Hr. induction fs as [|k tc' r' t IH]; cbn [fset]; [exact I|].
  destruct Hw as (Hn & Htc' & Hr' & Ht).
  destruct (bytes_eqb n k); cbn [wf_fields]; auto.
Qed.

Lemma fnames_fapp a b : fnames (fapp a b) = fnames a ++ fnames b.
Proof. induction a as [|k tc r t IH]; cbn [fapp fnames app]; [reflexivity|]. rewrite IH. reflexivity. Qed.

Lemma wf_fields_fapp a b : wf_fields a -> wf_fields b -> wf_fields (fapp a b).
Proof.
  intros Ha Hb. induction a as [|k tc r t IH]; cbn [fapp]; [exact Hb|].
  destruct Ha as (Hn & Htc & Hr & Ht). cbn [wf_fields]. auto.
Qed.

Lemma NoDup_snoc {A} (l : list A) (x : A) : NoDup l -> ~ In x l -> NoDup (l ++ [x]).
Proof.
  induction l as [|y l IH]; cbn [app]; intros Hnd Hnin.
  - constructor; [intros []|constructor].
  - inversion Hnd as [|? ? Hy Hl]; subst. constructor.
    + rewrite in_app_iff. cbn [In]. intros [H|[H|[]]]; [exact (Hy H)|]. subst. apply Hnin. left. reflexivity.
    + apply IH; [exact Hl|]. intro H. apply Hnin. right. exact H.
Qed.

Lemma fnames_fremove_sub n fs k : In k (fnames (fremove n fs)) -> In k (fnames fs).
Proof.
  induction fs as [|k' tc r t IH]; cbn [fremove fnames]; [auto|].
  destruct (bytes_eqb n k'); cbn [fnames In]; intuition.
Qed.

Lemma nodup_fremove n fs : NoDup (fnames fs) -> NoDup (fnames (fremove n fs)).
Proof.
  induction fs as [|k tc r t IH]; cbn [fremove fnames]; intro H; [constructor|].
  inversion H as [|? ? Hk Ht]; subst.
  destruct (bytes_eqb n k); cbn [fnames]; [exact Ht|].
  constructor; [|auto]. intro Hin. apply Hk. exact (fnames_fremove_sub n t k Hin).
Qed.

Lemma notin_fremove n fs : NoDup (fnames fs) -> ~ In n (fnames (fremove n fs)).
Proof.
  induction fs as [|k tc r t IH]; cbn [fremove fnames]; intro H; [intros []|].
  inversion H as [|? ? Hk Ht]; subst.
  destruct (bytes_eqb n k) eqn:E.
  - apply bytes_eqb_eq in E. subst k. exact Hk.
  - cbn [fnames In]. intros [Hx|Hx]; [subst; rewrite bytes_eqb_refl in E; discriminate|exact (IH Ht Hx)].
Qed.

Lemma wf_fields_fremove n fs : wf_fields fs -> wf_fields (fremove n fs).
Proof.
  induction fs as [|k tc r t IH]; cbn [fremove]; intro H; [exact I|].
  destruct H as (Hn & Htc & Hr & Ht). destruct (bytes_eqb n k); cbn [wf_fields]; auto.
Qed.

Lemma flookup_in n fs : In n (fnames fs) -> flookup n fs <> None.
Proof.
  induction fs as [|k tc r t IH]; cbn [fnames In flookup]; [tauto|].
  intros [H|H]; [subst; rewrite bytes_eqb_refl; discriminate|].
  destruct (bytes_eqb n k); [discriminate|exact (IH H)].
Qed.

Lemma flookup_nul_free (n : bytes) (fs : fields) tc r : flookup n fs = Some (tc, r) -> wf_fields fs -> nul_free n.
Proof.
  induction fs as [|k tc' r' t IH]; cbn [flookup wf_fields]; [discriminate|].
  intros H (Hn & Htc & Hr & Ht). destruct (bytes_eqb n k) eqn:E; [|exact (IH H Ht)].
  apply bytes_eqb_eq in E. subst k. exact Hn.
Qed.

Lemma notin_flookup (n : bytes) (fs : fields) : ~ In n (fnames fs) -> flookup n fs = None.
Proof.
  intro H. destruct (flookup n fs) as [[tc r]|] eqn:E; [|reflexivity].
  exfalso. apply H. clear H. revert E. induction fs as [|k tc' r' t IH]; cbn [flookup fnames In]; [discriminate|].
  destruct (bytes_eqb n k) eqn:Eb; [apply bytes_eqb_eq in Eb; auto|auto].
Qed.

(* ------------------------------------------------------------------ item lists *)

Lemma wf_items_snoc ft l v : wf_items ft l -> wf_item ft v -> wf_items ft (items_snoc l v).
Proof.
  intros Hl Hv. unfold items_snoc. induction l as [|i t IH]; cbn [items_app wf_items]; [auto|].
  destruct Hl as [Hi Ht]. auto.
Qed.

Lemma wf_items_remove ft k l : wf_items ft l -> wf_items ft (items_remove k l).
Proof.
  revert k; induction l as [|i t IH]; intros k Hl; cbn [items_remove]; [exact I|].
  destruct Hl as [Hi Ht]. destruct (k =? 0); [exact Ht|]. cbn [wf_items]. auto.
Qed.

Lemma wf_items_replace ft k v l : wf_items ft l -> wf_item ft v -> wf_items ft (items_replace k v l).
Proof.
  revert k; induction l as [|i t IH]; intros k Hl Hv; cbn [items_replace]; [exact I|].
  destruct Hl as [Hi Ht]. destruct (k =? 0); cbn [wf_items]; auto.
Qed.

Lemma wf_push ft prepend r v :
  match r with Some r0 => wf_repr ft r0 | None => True end -> wf_item ft v -> wf_repr ft (push prepend r v).
Proof.
  intros Hr Hv. destruct r as [[a|l]|]; cbn [push wf_repr].
  - destruct prepend; cbn [wf_items]; cbn [wf_repr] in Hr; auto.
  - cbn [wf_repr] in Hr. destruct prepend; [cbn [wf_items]; auto|apply wf_items_snoc; assumption].
  - exact Hv.
Qed.

(* ------------------------------------------------------------------ every operation preserves well-formedness *)

Lemma wf_fsnoc_msg w fs n tc r :
  wf_msg (Msg w fs) -> flookup n fs = None -> nul_free n -> tc < two32 -> wf_repr (ftype_of_tc tc) r ->
  wf_msg (Msg w (fsnoc fs n tc r)).
Proof.
  intros (Hw & Hnd & Hfs) Hl Hn Htc Hr. cbn [wf_msg]. split; [exact Hw|]. split.
  - unfold fsnoc. rewrite fnames_fapp. cbn [fnames]. apply NoDup_snoc; [exact Hnd|]. apply flookup_none_notin. exact Hl.
  - unfold fsnoc. apply wf_fields_fapp; [exact Hfs|]. cbn [wf_fields]. auto.
Qed.

Lemma wf_fset_msg w fs n tc r :
  wf_msg (Msg w fs) -> tc < two32 -> wf_repr (ftype_of_tc tc) r -> wf_msg (Msg w (fset n tc r fs)).
Proof.
  intros (Hw & Hnd & Hfs) Htc Hr. cbn [wf_msg]. rewrite fnames_fset. auto using wf_fields_fset.
Qed.

Lemma wf_fremove_msg w fs n : wf_msg (Msg w fs) -> wf_msg (Msg w (fremove n fs)).
Proof. intros (Hw & Hnd & Hfs). cbn [wf_msg]. auto using nodup_fremove, wf_fields_fremove. Qed.

Lemma api_add_wf p n tc v m :
  wf_msg m -> nul_free n -> tc < two32 -> wf_item (ftype_of_tc tc) v -> wf_msg (fst (api_add p n tc v m)).
Proof.
  intros Hm Hn Htc Hv. destruct m as [w fs]. unfold api_add.
  destruct (tc =? c_B_ANY_TYPE); [exact Hm|].
  destruct (flookup n fs) as [[tc' r]|] eqn:El.
  - destruct (tc' =? tc) eqn:Et; [|exact Hm]. apply N.eqb_eq in Et. subst tc'. cbn [fst].
    destruct Hm as (Hw & Hnd & Hfs). destruct (flookup_wf _ _ _ _ El Hfs) as [_ Hr].
    apply wf_fset_msg; [cbn [wf_msg]; auto|exact Htc|]. apply wf_push; assumption.
  - cbn [fst]. apply wf_fsnoc_msg; auto; try (apply (wf_push _ p None); auto).
Qed.

Lemma step_wf (m : msg) (o : mop) : wf_msg m -> op_ok o -> wf_msg (fst (step m o)).
Proof.
  intros Hm Ho. destruct o as [p n tc v|a n tc idx v|n idx|n|old new|w| |n|n|old new]; cbn [step op_ok] in *.
  - destruct Ho as (Hn & Htc & Hv). apply api_add_wf; assumption.
  - (* replace *)
    destruct Ho as (Hn & Htc & Hv). destruct m as [w fs]. unfold api_replace.
    destruct (tc =? c_B_ANY_TYPE) eqn:Ea; [exact Hm|].
    destruct (flookup n fs) as [[tc' r]|] eqn:El.
    + destruct (tc' =? tc) eqn:Et.
      * apply N.eqb_eq in Et. subst tc'.
        destruct (a && (repr_count r <=? idx)); [apply api_add_wf; assumption|].
        pose proof Hm as (Hw & Hnd & Hfs). destruct (flookup_wf _ _ _ _ El Hfs) as [_ Hr].
        destruct r as [i|l].
        -- destruct (idx =? 0); [|exact Hm]. cbn [fst]. apply wf_fset_msg; auto.
        -- destruct (idx <? items_len l); [|exact Hm]. cbn [fst]. apply wf_fset_msg; auto.
           cbn [wf_repr] in *. apply wf_items_replace; assumption.
      * destruct (a && true); [apply api_add_wf; assumption|exact Hm].
    + destruct (a && true); [apply api_add_wf; assumption|exact Hm].
  - (* remove data *)
    destruct m as [w fs]. unfold api_remove_data.
    destruct (flookup n fs) as [[tc r]|] eqn:El; [|exact Hm].
    pose proof Hm as (Hw & Hnd & Hfs). destruct (flookup_wf _ _ _ _ El Hfs) as [Htc Hr].
    destruct r as [i|l].
    + destruct (idx =? 0); [|exact Hm]. cbn [fst]. apply wf_fremove_msg. exact Hm.
    + destruct (idx <? items_len l).
      * destruct (items_len (items_remove idx l) =? 0); cbn [fst]; [apply wf_fremove_msg; exact Hm|].
        apply wf_fset_msg; auto. cbn [wf_repr] in *. apply wf_items_remove. exact Hr.
      * destruct (items_len l =? 0); [|exact Hm]. cbn [fst]. apply wf_fremove_msg. exact Hm.
  - (* remove name *)
    destruct m as [w fs]. unfold api_remove_name.
    destruct (flookup n fs); [|exact Hm]. cbn [fst]. apply wf_fremove_msg. exact Hm.
  - (* rename *)
    destruct m as [w fs]. unfold api_rename.
    destruct (bytes_eqb old new); [exact Hm|].
    destruct (flookup old fs) as [[tc r]|] eqn:El; [|exact Hm]. cbn [fst].
    pose proof Hm as (Hw & Hnd & Hfs). destruct (flookup_wf _ _ _ _ El Hfs) as [Htc Hr].
    pose proof (wf_fremove_msg w fs old Hm) as Hm'.
    unfold fput. destruct (flookup new (fremove old fs)) eqn:El2.
    + apply wf_fset_msg; assumption.
    + apply wf_fsnoc_msg; assumption.
  - (* what *)
    destruct m as [w0 fs]. destruct Hm as (Hw & Hnd & Hfs). cbn [fst msg_fields wf_msg].
    split; [|auto]. unfold u32. apply N.mod_upper_bound. discriminate.
  - (* clear *)
    destruct m as [w0 fs]. destruct Hm as (Hw & Hnd & Hfs). cbn [fst msg_what wf_msg fnames wf_fields].
    split; [exact Hw|]. split; [constructor|exact I].
  - (* move to front *)
    destruct m as [w fs]. unfold api_move.
    destruct (flookup n fs) as [[tc r]|] eqn:El; [|exact Hm]. cbn [fst].
    pose proof Hm as (Hw & Hnd & Hfs). destruct (flookup_wf _ _ _ _ El Hfs) as [Htc Hr].
    pose proof (flookup_nul_free _ _ _ _ El Hfs) as Hn.
    cbn [wf_msg fnames wf_fields]. split; [exact Hw|]. split.
    + constructor; [apply notin_fremove; exact Hnd|apply nodup_fremove; exact Hnd].
    + auto using wf_fields_fremove.
  - (* move to back *)
    destruct m as [w fs]. unfold api_move.
    destruct (flookup n fs) as [[tc r]|] eqn:El; [|exact Hm]. cbn [fst].
    pose proof Hm as (Hw & Hnd & Hfs). destruct (flookup_wf _ _ _ _ El Hfs) as [Htc Hr].
    pose proof (flookup_nul_free _ _ _ _ El Hfs) as Hn.
    apply wf_fsnoc_msg; auto using wf_fremove_msg.
    apply notin_flookup. apply notin_fremove. exact Hnd.
  - (* copy name *)
    destruct m as [w fs]. unfold api_copy_name.
    destruct (bytes_eqb old new); [exact Hm|].
    destruct (flookup old fs) as [[tc r]|] eqn:El; [|exact Hm]. cbn [fst].
    pose proof Hm as (Hw & Hnd & Hfs). destruct (flookup_wf _ _ _ _ El Hfs) as [Htc Hr].
    unfold fput. destruct (flookup new fs) eqn:El2.
    + apply wf_fset_msg; assumption.
    + apply wf_fsnoc_msg; assumption.
Qed.

Theorem api_reachable_wf (ops : list mop) : Forall op_ok ops -> wf_msg (run ops empty_msg).
Proof.
  unfold run. assert (H0 : wf_msg empty_msg) by (unfold empty_msg; cbn [wf_msg fnames wf_fields]; split; [reflexivity|split; [constructor|exact I]]).
  revert H0. generalize empty_msg as m.
  induction ops as [|o ops IH]; intros m Hm Hok; cbn [fold_left]; [exact Hm|].
  inversion Hok as [|? ? Ho Hops]; subst. apply IH; [|exact Hops]. apply step_wf; assumption.
Qed.
