(* Extraction of the Message codec model and of the documented wire-format spec for the correspondence
   runs of C01 and C08 (ExtrOcamlBasic only). *)
From Coq Require Import ExtrOcamlBasic.
From Coq Require Extraction.
From Coq Require Import NArith List Strings.Byte.
From Muscle Require Import Gen.Consts Msg.MsgDefs Msg.MsgModel Msg.MsgApi Msg.MsgSpec Msg.TmplModel.
Definition tc_bool := c_B_BOOL_TYPE.     Definition tc_double := c_B_DOUBLE_TYPE.  Definition tc_float := c_B_FLOAT_TYPE.
Definition tc_int64 := c_B_INT64_TYPE.   Definition tc_int32 := c_B_INT32_TYPE.    Definition tc_int16 := c_B_INT16_TYPE.
Definition tc_int8 := c_B_INT8_TYPE.     Definition tc_message := c_B_MESSAGE_TYPE. Definition tc_pointer := c_B_POINTER_TYPE.
Definition tc_point := c_B_POINT_TYPE.   Definition tc_rect := c_B_RECT_TYPE.      Definition tc_string := c_B_STRING_TYPE.
Definition enc_default := c_MUSCLE_MESSAGE_ENCODING_DEFAULT.
Definition tc_raw := c_B_RAW_TYPE.       Definition tc_tag := c_B_TAG_TYPE.        Definition tc_any := c_B_ANY_TYPE.
Extraction "msg_model.ml"
  byte_of_N N_of_byte len flatten flattened_size unflatten rt strip_msg norm_msg chk_msg msg_eq ieq_cpp
  step run empty_msg spec_msg content_msg frame ftype_of_tc flattenable elem_size wire_size cpp_size depth_msg fields_len repr_count
  tc_bool tc_double tc_float tc_int64 tc_int32 tc_int16 tc_int8 tc_message tc_pointer tc_point tc_rect
  tc_string tc_raw tc_tag tc_any enc_default takeN
  tmpl_flatten tmpl_flattened_size tmpl_unflatten tmpl_of_msg same_shape tmpl_hash tmpl_merge le_enc le_dec.
