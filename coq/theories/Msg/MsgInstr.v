(* Msg/MsgInstr.v -- C02: instrumented, byte-level model of the parsers of received Message data.

   What is mirrored (no proofs in this file; proofs are in MsgInstrProofs.v):
     support/DataUnflattener.h    the reader: _origReadFrom (r_base, an offset into the OUTERMOST buffer),
                                  _readFrom-_origReadFrom (r_rd), _maxBytes (r_max), _status (r_bad);
                                  GetNumBytesAvailable (with its MUSCLE_NO_LIMIT case), SizeCheck, ReadInt32/ReadByte
                                  (value 0 and a flagged status on failure), ReadBytes/ReadPrimitives, ReadCString,
                                  ReadFlat (child reader clamped to what is available), a reader built directly from a
                                  pointer and a size (NOT clamped: fresh_reader), ReadFlatsWithLengthPrefixes,
                                  SeekTo/SeekRelative (with the uint32 -> int32 conversion of its argument), SeekToEnd,
                                  DataUnflattenerReadLimiter (uint32 arithmetic written out)
     message/Message.cpp          Message::Unflatten, MessageField::Unflatten / GetNumItemsInFlattenedBuffer /
                                  SingleUnflatten, PrimitiveTypeDataArray / FixedSizeFlatObjectArray / ByteBufferDataArray /
                                  MessageDataArray / VariableSizeFlatObjectArray<String> ::TemplatedUnflatten,
                                  Message::TemplatedUnflatten, MessageField::TemplatedUnflatten, GetOrCreateMessageField
     util/String.h                String::Unflatten: s = ReadCString(); s ? SetCstr(s) : the reader's error status

   Instrumentation (DESIGN.md section 3, "instrumented models"): every function threads a log holding
     l_tr   every raw access to the received bytes as (offset, length) relative to the outermost buffer, logged where the
            C++ touches memory (memcpy, Import, strlen-style scans, pointer+size handed to a copy constructor), with the
            offset and length computed from the same quantities the code uses -- a read outside the buffer is
            representable (and is what the pinned code does in finding F2);
     l_al   the allocation requests in bytes of the code's own units (EnsureSize(n) of T = n*sizeof T, a pooled ByteBuffer
            of n bytes = sizeof(ByteBuffer)+n, a pooled Message = sizeof(Message), table/queue growth at its amortised
            upper bound); the constants come from the translator (the c_SIZEOF_ names), the structure (what is multiplied by a
            peer-declared count) is the code's;
     l_dp   the deepest Message nesting level entered (the C++ recursion depth is 3 frames per level);
     l_ub   loads of a byte other than 0/1 into a C++ bool (undefined behaviour; finding F43).

   [fixes] selects, per finding, the pinned code or the repaired code (the repair proposed with each finding):
     fx1   VariableSizeFlatObjectArray::TemplatedUnflatten bounds the element count by avail/4 before EnsureSize      (F1)
     fx2   MessageField::TemplatedUnflatten rejects itemSize > what remains before building a child reader on it      (F2)
     fx14  Message::Unflatten does not pre-size the field table from the declared entry count                          (F42)
     fx15  EndianConverter::Import(bool) tests the byte against zero instead of copying it into a bool                 (F43)
     fx16  MessageField::Unflatten refuses B_POINTER_TYPE / B_TAG_TYPE instead of reaching the arrays' MCRASH           (F44)
   The theorems are about [fixed]; the [pinned] behaviour is kept for the ..._refuted lemmas and as documentation. *)
From Coq Require Import List NArith Bool Strings.Byte.
From Muscle Require Import Gen.Consts Msg.MsgDefs.
Import ListNotations.
Local Open Scope N_scope.

Record fixes := mkFx { fx1 : bool; fx2 : bool; fx14 : bool; fx15 : bool; fx16 : bool }.
Definition fixed : fixes := mkFx true true true true true.
Definition pinned : fixes := mkFx false false false false false.

(* ------------------------------------------------------------------ allocation units *)
Definition cost_msg : N := c_SIZEOF_Message.                       (* a Message object from the pool *)
Definition cost_entry : N :=                                       (* one HashtableEntry<String,MessageField>: hash, key, value, six index links *)
  c_SIZEOF_uint32 + c_SIZEOF_String + c_SIZEOF_MessageField + 6 * c_SIZEOF_uint32.
Definition cost_arr : N := 64.                                     (* an AbstractDataArray object (vtable, reference count, Queue header) *)
Definition cost_bb : N := c_SIZEOF_ByteBuffer.                     (* a ByteBuffer object from the pool (its bytes are charged separately) *)
Definition cost_ref : N := c_SIZEOF_MessageRef.                    (* MessageRef / FlatCountableRef held in a Queue *)
Definition str_cost (n : N) : N := if c_STRING_MAX_SHORT_LENGTH <? n then n + 1 else 0.   (* String heap buffer beyond the small-string limit *)
Definition grow : N := 4.                                          (* amortised factor of the doubling policies: the capacities ever allocated sum to < 4*count *)
Definition tbl_default : N := c_MUSCLE_HASHTABLE_DEFAULT_CAPACITY.

Definition NOLIM : N := c_MUSCLE_NO_LIMIT.
Definition W : N := c_SIZEOF_uint32.

(* ------------------------------------------------------------------ reader and log *)
Record rdr := mkR { r_base : N; r_rd : N; r_max : N; r_bad : bool }.
Record log := mkL { l_tr : list (N * N); l_al : N; l_dp : N; l_ub : N }.

Definition log0 : log := mkL [] 0 0 0.
Definition touch (o k : N) (l : log) : log := mkL ((o, k) :: l_tr l) (l_al l) (l_dp l) (l_ub l).
Definition charge (n : N) (l : log) : log := mkL (l_tr l) (l_al l + n) (l_dp l) (l_ub l).
Definition deepen (d : N) (l : log) : log := mkL (l_tr l) (l_al l) (N.max (l_dp l) d) (l_ub l).
Definition undef (n : N) (l : log) : log := mkL (l_tr l) (l_al l) (l_dp l) (l_ub l + n).

Definition pos (r : rdr) : N := r_base r + r_rd r.                 (* offset of _readFrom in the outermost buffer *)
Definition avail (r : rdr) : N :=                                  (* GetNumBytesAvailable *)
  if r_max r =? NOLIM then NOLIM
  else if r_rd r <? r_max r then r_max r - r_rd r else 0.
Definition adv (n : N) (r : rdr) : rdr := mkR (r_base r) (r_rd r + n) (r_max r) (r_bad r).     (* Advance *)
Definition flag (r : rdr) : rdr := mkR (r_base r) (r_rd r) (r_max r) true.                      (* FlagError *)
Definition set_rd (n : N) (r : rdr) : rdr := mkR (r_base r) n (r_max r) (r_bad r).
Definition set_max (n : N) (r : rdr) : rdr := mkR (r_base r) (r_rd r) n (r_bad r).              (* SetMaxNumBytes *)

(* ------------------------------------------------------------------ the monad *)
Definition M (A : Type) : Type := rdr -> log -> res A * rdr * log.

Definition ret {A} (a : A) : M A := fun r l => (Ok a, r, l).
Definition err {A} : M A := fun r l => (Err, r, l).
Definition crash {A} : M A := fun r l => (Crash, r, l).
Definition nofuel {A} : M A := fun r l => (Fuel, r, l).
Definition bnd {A B} (m : M A) (f : A -> M B) : M B :=
  fun r l =>
    let '(x, r1, l1) := m r l in
    match x with
    | Ok a => f a r1 l1
    | Err => (Err, r1, l1)
    | Fuel => (Fuel, r1, l1)
    | Crash => (Crash, r1, l1)
    end.
Notation "x <- m ;; f" := (bnd m (fun x => f)) (at level 61, m at next level, right associativity).
Notation "m ;;; f" := (bnd m (fun _ => f)) (at level 61, right associativity).

Definition get_avail : M N := fun r l => (Ok (avail r), r, l).
Definition get_pos : M N := fun r l => (Ok (pos r), r, l).
Definition get_rd : M N := fun r l => (Ok (r_rd r), r, l).
Definition status : M unit := fun r l => if r_bad r then (Err, r, l) else (Ok tt, r, l).     (* MRETURN_ON_ERROR(unflat.GetStatus()) *)
Definition alloc (n : N) : M unit := fun r l => (Ok tt, r, charge n l).
Definition enter (d : N) : M unit := fun r l => (Ok tt, r, deepen d l).
Definition note_ub (n : N) : M unit := fun r l => (Ok tt, r, undef n l).
Definition guard (b : bool) : M unit := if b then ret tt else err.

Section Buf.
  Variable bs : bytes.          (* the outermost received buffer *)
  Variable fx : fixes.

  Definition slice (o k : N) : bytes := takeN k (dropN o bs).

  (* raw access that bypasses the reader (Import / memcpy on GetCurrentReadPointer()) *)
  Definition peek (o k : N) : M bytes := fun r l => (Ok (slice o k), r, touch o k l).

  (* ReadInt32(), ReadByte(): the value read, or 0 with the status flagged *)
  Definition rd_val (k : N) : M N :=
    fun r l => if k <=? avail r then (Ok (le_dec (slice (pos r) k)), adv k r, touch (pos r) k l)
               else (Ok 0, flag r, l).
  Definition rd_u32 : M N := rd_val W.

  (* ReadBytes / ReadPrimitives(n items of size sz): SizeCheck(n*sz), then one pass over the bytes *)
  Definition rd_bytes (k : N) : M bytes :=
    fun r l => if k <=? avail r then (Ok (slice (pos r) k), adv k r, touch (pos r) k l)
               else (Err, flag r, l).

  (* SeekTo(offset) *)
  Definition seek_to (o : N) : M unit :=
    fun r l => if (o =? NOLIM) || (r_max r <? o) then (Err, flag r, l) else (Ok tt, set_rd o r, l).
  Definition seek_to_end : M unit := fun r l => seek_to (r_max r) r l.
  (* SeekRelative(int32 numBytes) called with a uint32 argument: 2^31 and above arrive as negative numbers *)
  Definition seek_rel (n : N) : M unit :=
    fun r l =>
      if n =? 0 then seek_to (r_rd r) r l            (* numBytes > 0 is false: the else branch, 0 <= nbw, SeekTo(nbw) *)
      else if n <? 2147483648 then
        (if two32 <=? r_rd r + n then (Err, flag r, l) else seek_to (r_rd r + n) r l)
      else
        let back := two32 - n in
        if back <=? r_rd r then seek_to (r_rd r - back) r l else (Err, flag r, l).

  (* DataUnflattenerReadLimiter(unflat, lim) around m *)
  Definition with_limit {A} (lim : N) (m : M A) : M A :=
    fun r l =>
      let old := r_max r in
      let '(x, r1, l1) := m (set_max (u32 (r_rd r + N.min lim (avail r))) r) l in
      (x, set_max old r1, l1).

  (* ReadFlat(obj, lim): a child reader on the current position, clamped to what is available; on success the parent
     advances by what the child read, on error the parent's status is flagged *)
  Definition sub_reader {A} (lim : N) (m : M A) : M A :=
    fun r l =>
      let '(x, c, l1) := m (mkR (pos r) 0 (N.min lim (avail r)) false) l in
      match x with
      | Ok a => (Ok a, adv (r_rd c) r, l1)
      | Err => (Err, flag r, l1)
      | Fuel => (Fuel, r, l1)
      | Crash => (Crash, r, l1)
      end.

  (* DataUnflattener u(ptr, n) built from a raw pointer and a size: nothing relates n to the parent's budget *)
  Definition fresh_reader {A} (o n : N) (m : M A) : M (res A) :=
    fun r l =>
      let '(x, _, l1) := m (mkR o 0 n false) l in
      match x with
      | Fuel => (Fuel, r, l1)
      | Crash => (Crash, r, l1)
      | _ => (Ok x, r, l1)
      end.

  (* ReadCString + String::SetCstr on the current reader: Some chars, or None when ReadCString returns NULL *)
  Fixpoint nul_index (w : bytes) (i : N) : option N :=
    match w with
    | [] => None
    | b :: t => if is_nul b then Some i else nul_index t (N.succ i)
    end.
  Definition read_cstring : M bytes :=
    fun r l =>
      let nba := avail r in
      if nba =? 0 then (Err, flag r, l)                        (* ReadCString() = NULL, status B_DATA_NOT_FOUND *)
      else if r_max r =? NOLIM then
        (* strlen() without a bound: runs to the first NUL wherever it is *)
        match nul_index (dropN (pos r) bs) 0 with
        | Some k => (Ok (slice (pos r) k), adv (k + 1) r, charge (str_cost k) (touch (pos r) (k + 1) l))
        | None => (Ok [], r, touch (pos r) (len bs - pos r + 1) l)
        end
      else
        match nul_index (slice (pos r) nba) 0 with
        | Some k => (Ok (slice (pos r) k), adv (k + 1) r, charge (str_cost k) (touch (pos r) (k + 1) l))
        | None => (Err, flag r, touch (pos r) nba l)            (* unterminated: ReadCString() = NULL, status B_BAD_DATA *)
        end.

  (* one turn of ReadFlatsWithLengthPrefixes<String>: length word, SizeCheck, child reader of exactly that size,
     String::Unflatten (an error when ReadCString() found no terminated string), advance by the stated size either way *)
  Definition rd_lp_string : M bytes :=
    fun r l =>
      if W <=? avail r then
        let n := le_dec (slice (pos r) W) in
        let r1 := adv W r in
        let l1 := touch (pos r) W l in
        if n <=? avail r1 then
          let '(x, _, l2) := read_cstring (mkR (pos r1) 0 n false) l1 in
          match x with
          | Ok s => (Ok s, adv n r1, l2)
          | _ => (Err, flag (adv n r1), l2)
          end
        else (Err, flag r1, l1)
      else (Err, flag r, l).

  (* ---------------------------------------------------------------- item helpers *)
  Fixpoint split_items (k : nat) (sz : N) (w : bytes) : items :=
    match k with
    | O => INil
    | S k' => ICons (IFix (takeN sz w)) (split_items k' sz (dropN sz w))
    end.
  Definition norm_bool (b : byte) : byte := if is_nul b then x00 else x01.
  Fixpoint bool_items (w : bytes) : items :=
    match w with [] => INil | b :: t => ICons (IFix [norm_bool b]) (bool_items t) end.
  Fixpoint count_nonbool (w : bytes) : N :=
    match w with
    | [] => 0
    | b :: t => (if (N_of_byte b =? 0) || (N_of_byte b =? 1) then 0 else 1) + count_nonbool t
    end.
  Definition zeros (k : N) : bytes := repeat x00 (N.to_nat k).

  Definition is_ptr_or_tag (tc : N) : bool := (tc =? c_B_POINTER_TYPE) || (tc =? c_B_TAG_TYPE).

  (* GetNumItemsInFlattenedBuffer(GetCurrentReadPointer(), GetNumBytesAvailable()) *)
  Definition num_items_in_buffer (ft : ftype) : M N :=
    a <- get_avail ;; p <- get_pos ;;
    let fs := wire_size ft in
    if 0 <? fs then ret (a / fs)
    else if a <? W then ret 0
    else
      w <- peek p W ;;
      let first := le_dec w in
      match ft with
      | TMessage => let nb := a - W in
                    ret (if nb <? first then 0 else if first =? nb then 1 else 2)
      | _ => ret first
      end.

  Section Level.
    Variable inner : N -> M msg.     (* Message::Unflatten one nesting level further in *)
    Variable lf : nat.               (* loop fuel of this level *)

    (* FixedSizeFlatObjectArray<Point|Rect>: per item a limiter of FlatItemSize around ReadFloats *)
    Fixpoint fix_items_loop (k : nat) (i n unit_ rsz : N) (acc : items) : M items :=
      if n <=? i then ret acc else
      match k with
      | O => nofuel
      | S k' =>
          b <- with_limit unit_ (rd_bytes rsz) ;;
          fix_items_loop k' (i + 1) n unit_ rsz (items_snoc acc (IFix b))
      end.

    (* ReadFlatsWithLengthPrefixes<String>(HeadPointer(), n) *)
    Fixpoint str_items_loop (k : nat) (i n : N) (acc : items) : M items :=
      if n <=? i then ret acc else
      match k with
      | O => nofuel
      | S k' => s <- rd_lp_string ;; str_items_loop k' (i + 1) n (items_snoc acc (IStr s))
      end.

    (* ByteBufferDataArray::TemplatedUnflatten's loop *)
    Fixpoint raw_items_loop (k : nat) (i n : N) (acc : items) : M items :=
      if n <=? i then ret acc else
      match k with
      | O => nofuel
      | S k' =>
          sz <- rd_u32 ;; status ;;;
          a <- get_avail ;;
          if a <? sz then err else
          p <- get_pos ;;
          alloc (cost_bb + sz) ;;;
          b <- (if sz =? 0 then ret [] else peek p sz) ;;      (* GetByteBufferFromPool(readFs, GetCurrentReadPointer()) *)
          seek_rel sz ;;;
          alloc (grow * cost_ref) ;;;                          (* AddDataItem *)
          raw_items_loop k' (i + 1) n (items_snoc acc (IRaw b))
      end.

    (* MessageDataArray::TemplatedUnflatten's loop *)
    Fixpoint msg_items_loop (k : nat) (d : N) (acc : items) : M items :=
      a <- get_avail ;;
      if a =? 0 then ret acc else
      match k with
      | O => nofuel
      | S k' =>
          sz <- rd_u32 ;; status ;;;
          a1 <- get_avail ;;
          if a1 <? sz then err else
          alloc cost_msg ;;;                                   (* GetMessageFromPool() *)
          m <- with_limit sz (inner (d + 1)) ;;
          alloc (grow * cost_ref) ;;;                          (* AddDataItem *)
          msg_items_loop k' d (items_snoc acc (IMsg m))
      end.

    (* MessageField::SingleUnflatten *)
    Definition unflat_single (ft : ftype) (d : N) : M item :=
      i <- match ft with
           | TBool => v <- rd_val 1 ;; ret (IFix [if v =? 0 then x00 else x01])
           | TDouble | TFloat | TInt64 | TInt32 | TInt16 | TInt8 =>
               b <- rd_bytes (cpp_size ft) ;; ret (IFix b)
           | TPoint | TRect =>
               b <- sub_reader NOLIM (rd_bytes (cpp_size ft)) ;; ret (IFix b)       (* ReadFlat<Point>() *)
           | TTag | TPointer => err                                                  (* B_UNIMPLEMENTED *)
           | TMessage =>
               sz <- rd_u32 ;;
               a <- get_avail ;;
               if negb (sz =? a) then err else
               p <- get_pos ;;
               alloc cost_msg ;;;
               x <- fresh_reader p sz (inner (d + 1)) ;;      (* GetMessageFromPool(GetCurrentReadPointer(), msgSize) *)
               seek_to_end ;;;
               match x with Ok m => ret (IMsg m) | _ => err end   (* a NULL ref is refused by SetInlineItemAsRefCountableRef *)
           | TString =>
               c <- rd_u32 ;;
               if negb (c =? 1) then err else
               s <- rd_lp_string ;; ret (IStr s)
           | TRaw =>
               c <- rd_u32 ;;
               if negb (c =? 1) then err else
               sz <- rd_u32 ;;
               a <- get_avail ;;
               if negb (sz =? a) then err else
               p <- get_pos ;;
               alloc (cost_bb + a) ;;;
               b <- (if a =? 0 then ret [] else peek p a) ;;  (* GetByteBufferFromPool(avail, GetCurrentReadPointer()) *)
               seek_to_end ;;;
               ret (IRaw b)
           end ;;
      status ;;; ret i.

    (* <Type>DataArray::TemplatedUnflatten, run on the child reader ReadFlat built *)
    Definition unflat_array (ft : ftype) (d : N) : M items :=
      match ft with
      | TBool | TDouble | TFloat | TInt64 | TInt32 | TInt16 | TInt8 =>
          let sz := cpp_size ft in
          nb <- get_avail ;;
          if negb (nb mod sz =? 0) then err else
          let n := nb / sz in
          alloc (n * sz) ;;;                                   (* _data.EnsureSize(numItems, true) *)
          b <- rd_bytes (n * sz) ;;                            (* ReadPrimitives(HeadPointer(), numItems) *)
          match ft with
          | TBool => (if fx15 fx then ret tt else note_ub (count_nonbool b)) ;;; ret (bool_items b)
          | _ => ret (split_items (N.to_nat n) sz b)
          end
      | TPoint | TRect =>
          let unit_ := match ft with TPoint => c_SIZEOF_Point | _ => c_SIZEOF_Rect end in
          nb <- get_avail ;;
          if negb (nb mod unit_ =? 0) then err else
          let n := nb / unit_ in
          alloc (n * unit_) ;;;
          its <- fix_items_loop lf 0 n unit_ (cpp_size ft) INil ;;
          status ;;; ret its
      | TPointer | TTag => crash                               (* MCRASH("This method should never be called!") *)
      | TMessage => its <- msg_items_loop lf d INil ;; status ;;; ret its
      | TString =>
          n <- rd_u32 ;; status ;;;
          a <- get_avail ;;
          (if fx1 fx then guard (n <=? a / W) else ret tt) ;;;
          alloc (n * c_SIZEOF_String) ;;;                      (* _data.EnsureSize(numElements, true) *)
          str_items_loop lf 0 n INil
      | TRaw =>
          n <- rd_u32 ;; status ;;;
          its <- raw_items_loop lf 0 n INil ;;
          status ;;; ret its
      end.

    (* MessageField::Unflatten *)
    Definition unflat_field (tc : N) (d : N) : M repr :=
      let ft := ftype_of_tc tc in
      if fx16 fx && is_ptr_or_tag tc then err else
      n <- num_items_in_buffer ft ;;
      if n =? 1 then i <- unflat_single ft d ;; ret (RInline i)
      else
        alloc cost_arr ;;;                                     (* CreateDataArray *)
        its <- sub_reader NOLIM (unflat_array ft d) ;;         (* unflat.ReadFlat( *adaRef()) *)
        ret (RArray its).

    (* the entry loop of Message::Unflatten.  [pend] is the size the field table will be created with. *)
    Fixpoint entries_loop (k : nat) (i n pend : N) (d : N) (acc : fields) : M fields :=
      if n <=? i then ret acc else
      match k with
      | O => nofuel
      | S k' =>
          name <- rd_lp_string ;;                              (* ReadFlatWithLengthPrefix(entryName) *)
          tc <- rd_u32 ;; elen <- rd_u32 ;; status ;;;
          (* GetOrCreateMessageField(entryName, tc, nextEntry) *)
          match flookup name acc with
          | Some (tc', _) =>
              if (tc =? c_B_ANY_TYPE) || (tc =? tc') then
                rp <- with_limit elen (sub_reader NOLIM (unflat_field tc' d)) ;;
                entries_loop k' (i + 1) n pend d (fset name tc' rp acc)
              else err                                          (* B_TYPE_MISMATCH *)
          | None =>
              alloc ((if fields_len acc =? 0 then pend * cost_entry else 0)     (* the table is allocated on the first Put *)
                     + grow * cost_entry + str_cost (len name)) ;;;
              rp <- with_limit elen (sub_reader NOLIM (unflat_field tc d)) ;;
              entries_loop k' (i + 1) n pend d (fsnoc acc name tc rp)
          end
      end.

    (* Message::Unflatten *)
    Definition msg_level (d : N) : M msg :=
      enter d ;;;
      ver <- rd_u32 ;;
      if negb ((c_OLDEST_SUPPORTED_PROTOCOL_VERSION <=? ver) && (ver <=? c_CURRENT_PROTOCOL_VERSION)) then err else
      what <- rd_u32 ;; n <- rd_u32 ;; status ;;;
      a <- get_avail ;;
      if a / (3 * W) <? n then err else
      let pend := if fx14 fx then tbl_default else (if n =? 0 then tbl_default else n) in
      fs <- entries_loop lf 0 n pend d FNil ;;
      status ;;; ret (Msg what fs).

    (* ------------------------------------------------------------ templated parser (Message::TemplatedUnflatten) *)
    Variable tinner : msg -> N -> M msg.     (* Message::TemplatedUnflatten(template, .) one level further in *)

    Definition repr_items (r : repr) : items := match r with RInline i => ICons i INil | RArray l => l end.
    Definition ft_flat_fixed (ft : ftype) : bool :=              (* ElementsAreFixedSize() of the field *)
      match ft with TMessage | TString | TRaw | TTag => false | _ => true end.
    (* MessageField::FlattenedSize() of a fixed-size template field *)
    Definition tfield_fixed_size (ft : ftype) (r : repr) : N :=
      match r with
      | RInline _ => single_fix_size ft
      | RArray l => items_len l * match ft with TPoint => c_SIZEOF_Point | TRect => c_SIZEOF_Rect | _ => cpp_size ft end
      end.

    (* the walk of the (calcSizeUnflat) reader over the items of a variable-size, non-Message field: it only seeks *)
    Fixpoint tcalc_loop (k : nat) (i n : N) : M unit :=
      if n <=? i then ret tt else
      match k with
      | O => nofuel
      | S k' =>
          sz <- rd_u32 ;; status ;;;
          a <- get_avail ;;
          (if fx2 fx then guard (sz <=? a) else ret tt) ;;;
          seek_rel sz ;;;
          tcalc_loop k' (i + 1) n
      end.

    (* the Message-typed case: both readers advance together; here one reader stands for both (they stay equal) and the
       child reader of the DECLARED size is the fresh one the code builds from calcSizeUnflat.GetCurrentReadPointer() *)
    Fixpoint tmsg_loop (k : nat) (d : N) (tl : items) (acc : items) : M items :=
      match tl with
      | INil => ret acc
      | ICons t rest =>
          match k with
          | O => nofuel
          | S k' =>
              sz <- rd_u32 ;; status ;;;
              a <- get_avail ;;
              (if fx2 fx then guard (sz <=? a) else ret tt) ;;;
              alloc cost_msg ;;;
              p <- get_pos ;;
              x <- fresh_reader p sz (tinner (match t with IMsg tm => tm | _ => Msg 0 FNil end) (d + 1)) ;;
              match x with
              | Ok m => seek_rel sz ;;; alloc (grow * cost_ref) ;;; tmsg_loop k' d rest (items_snoc acc (IMsg m))
              | _ => err
              end
          end
      end.

    (* MessageField::TemplatedUnflatten for one template field (name, tc, r); returns the field's parsed representation *)
    Definition tfield (tc : N) (r : repr) (d : N) : M repr :=
      let ft := ftype_of_tc tc in
      if ft_flat_fixed ft then
        let sz := tfield_fixed_size ft r in
        a <- get_avail ;;
        if a <? sz then err else
        sub_reader sz (unflat_field tc d)                      (* unflat.ReadFlat( *mf, mfSize) *)
      else
        a0 <- get_avail ;; p0 <- get_pos ;;
        (* calcSizeUnflat(GetCurrentReadPointer(), GetNumBytesAvailable()): same window, own cursor *)
        match ft with
        | TMessage =>
            n <- rd_u32 ;; status ;;;
            if negb (n =? repr_count r) then err else
            its <- tmsg_loop lf d (repr_items r) INil ;;
            ret (match its with ICons i INil => RInline i | _ => RArray its end)   (* AddDataItem: first item inline, then an array *)
        | _ =>
            x <- fresh_reader p0 a0 (n <- rd_u32 ;; status ;;;
                                      if negb (n =? repr_count r) then err else
                                      tcalc_loop lf 0 n ;;; get_rd) ;;
            match x with
            | Ok used => sub_reader used (unflat_field tc d)   (* unflat.ReadFlat( *mf, calcSizeUnflat.GetNumBytesRead()) *)
            | _ => err
            end
        end.

    Fixpoint tfields_loop (tf : fields) (d : N) (acc : fields) : M fields :=
      match tf with
      | FNil => ret acc
      | FCons name tc r rest =>
          if flattenable tc then
            (* GetOrCreateMessageField on the Message being filled (names of a template are unique, the lookup misses) *)
            match flookup name acc with
            | Some (tc', _) =>
                if tc =? tc' then rp <- tfield tc r d ;; tfields_loop rest d (fset name tc rp acc) else err
            | None =>
                alloc ((if fields_len acc =? 0 then tbl_default * cost_entry else 0) + grow * cost_entry + str_cost (len name)) ;;;
                rp <- tfield tc r d ;; tfields_loop rest d (fsnoc acc name tc rp)
            end
          else tfields_loop rest d acc
      end.

    Definition tmsg_level (tm : msg) (d : N) : M msg :=
      enter d ;;;
      what <- rd_u32 ;; status ;;;
      fs <- tfields_loop (msg_fields tm) d FNil ;;
      ret (Msg what fs).
  End Level.

  Fixpoint unflat_msg (fuel : nat) (d : N) : M msg :=
    match fuel with
    | O => nofuel
    | S f => msg_level (unflat_msg f) f d
    end.

  Fixpoint tunflat_msg (fuel : nat) (tm : msg) (d : N) : M msg :=
    match fuel with
    | O => nofuel
    | S f => tmsg_level (unflat_msg f) f (tunflat_msg f) tm d
    end.

  (* Message::UnflattenFromBytes(bs, |bs|): the reader covers the whole buffer *)
  Definition reader0 : rdr := mkR 0 0 (len bs) false.
  Definition unflatten_i : res msg * rdr * log := unflat_msg (S (length bs)) 0 reader0 log0.
  (* Message::TemplatedUnflatten(template, DataUnflattener(bs, |bs|)) *)
  Definition tunflatten_i (tm : msg) : res msg * rdr * log := tunflat_msg (S (length bs)) tm 0 reader0 log0.
End Buf.

(* observers used by the theorems and the driver *)
Definition result_of {A} (x : res A * rdr * log) : res A := fst (fst x).
Definition reader_of {A} (x : res A * rdr * log) : rdr := snd (fst x).
Definition log_of {A} (x : res A * rdr * log) : log := snd x.
Definition accesses {A} (x : res A * rdr * log) : list (N * N) := l_tr (log_of x).
Definition allocated {A} (x : res A * rdr * log) : N := l_al (log_of x).
Definition depth_reached {A} (x : res A * rdr * log) : N := l_dp (log_of x).
Definition ub_events {A} (x : res A * rdr * log) : N := l_ub (log_of x).
Definition consumed {A} (x : res A * rdr * log) : N := r_rd (reader_of x).

Definition in_bounds (L : N) (a : N * N) : Prop := fst a + snd a <= L.
