(* Msg/MsgFuelProofs.v -- fuel adequacy of the parser model, for EVERY byte string (not only for the
   bytes Flatten produces): with the fuel that [unflatten] supplies, no loop of the model ever runs out of
   fuel, and every parser returns a rest no longer than the window it was given (the read position only
   moves forward).  So [Fuel] is not an outcome of [unflatten], and the model's recursion on sub-Messages,
   item loops and the entry loop all terminate because each step consumes input. *)
From Coq Require Import List NArith Bool Strings.Byte Lia Arith.
From Muscle Require Import Gen.Consts Msg.MsgDefs Msg.MsgModel Msg.MsgBytesProofs.
Import ListNotations.
Local Open Scope N_scope.

Definition ok_shrinks {A} (r : res (A * bytes)) (w : bytes) : Prop :=
  r <> Fuel /\ forall a w', r = Ok (a, w') -> (length w' <= length w)%nat.

Lemma ok_err {A} (w : bytes) : @ok_shrinks A Err w.
Proof. split; [discriminate|intros a w' H; discriminate H]. Qed.

Lemma ok_crash {A} (w : bytes) : @ok_shrinks A Crash w.
Proof. split; [discriminate|intros a w' H; discriminate H]. Qed.

Lemma ok_ret {A} (a : A) (w' w : bytes) : (length w' <= length w)%nat -> ok_shrinks (Ok (a, w')) w.
Proof. intro H. split; [discriminate|]. intros a0 w0 E. injection E as <- <-. exact H. Qed.

Lemma ok_bind {A B} (r : res (A * bytes)) (k : A * bytes -> res (B * bytes)) (w : bytes) :
  ok_shrinks r w ->
  (forall a w', r = Ok (a, w') -> (length w' <= length w)%nat -> ok_shrinks (k (a, w')) w) ->
  ok_shrinks (bind r k) w.
Proof.
  intros [Hnf Hs] Hk. destruct r as [[a w']| | |]; cbn [bind].
  - apply Hk; [reflexivity|]. apply (Hs a w'). reflexivity.
  - apply ok_err.
  - contradiction.
  - apply ok_crash.
Qed.

Lemma ok_weaken {A} (r : res (A * bytes)) (w1 w2 : bytes) :
  ok_shrinks r w1 -> (length w1 <= length w2)%nat -> ok_shrinks r w2.
Proof. intros [H1 H2] L. split; [exact H1|]. intros a w' E. specialize (H2 a w' E). lia. Qed.

Lemma length_takeN {A} n (l : list A) : (length (takeN n l) <= length l)%nat.
Proof.
  revert n; induction l as [|x l IH]; intro n; cbn [takeN length]; [lia|].
  destruct (n =? 0); cbn [length]; [lia|]. specialize (IH (N.pred n)). lia.
Qed.

Lemma length_dropN {A} n (l : list A) : (length (dropN n l) <= length l)%nat.
Proof.
  revert n; induction l as [|x l IH]; intro n; cbn [dropN length]; [lia|].
  destruct (n =? 0); cbn [length]; [lia|]. specialize (IH (N.pred n)). lia.
Qed.

Lemma rd32_length (w : bytes) n w' : rd32 w = Ok (n, w') -> length w = (4 + length w')%nat.
Proof.
  destruct w as [|a [|b [|c [|d w]]]]; unfold rd32; try discriminate.
  intro H. assert (Hw : w = w') by congruence. subst w'. reflexivity.
Qed.

Lemma ok_rd32 (w : bytes) : ok_shrinks (rd32 w) w.
Proof.
  split.
  - destruct w as [|a [|b [|c [|d w]]]]; unfold rd32; discriminate.
  - intros n w' H. apply rd32_length in H. lia.
Qed.

Lemma ok_rd_lp_string (w : bytes) : ok_shrinks (rd_lp_string w) w.
Proof.
  unfold rd_lp_string. apply ok_bind; [apply ok_rd32|].
  intros n w1 E L. cbn [fst snd]. destruct (n <=? len w1); [|apply ok_err].
  destruct (upto_nul (takeN n w1)); [|apply ok_err].
  apply ok_ret. pose proof (length_dropN n w1). lia.
Qed.

Lemma ok_dec_lp_items (mk : bytes -> option item) (fuel : nat) (n : N) (w : bytes) :
  (length w < fuel)%nat -> ok_shrinks (dec_lp_items mk fuel n w) w.
Proof.
  revert n w; induction fuel as [|f IH]; intros n w Hf; [lia|].
  cbn [dec_lp_items]. destruct (n =? 0); [apply ok_ret; lia|].
  apply ok_bind; [apply ok_rd32|].
  intros sz w1 E L. cbn [fst snd]. apply rd32_length in E.
  destruct (sz <=? len w1); [|apply ok_err].
  destruct (mk (takeN sz w1)); [|apply ok_err].
  pose proof (length_dropN sz w1) as Ld.
  apply ok_bind.
  - apply ok_weaken with (dropN sz w1); [apply IH; lia|lia].
  - intros l w2 E2 L2. cbn [fst snd]. apply ok_ret. lia.
Qed.

Section Level.
  Variable inner : bytes -> res (msg * bytes).
  Variable f : nat.
  Hypothesis inner_ok : forall w, (length w < f)%nat -> ok_shrinks (inner w) w.

  Lemma ok_dec_msg_items (fuel : nat) (w : bytes) :
    (length w < f)%nat -> (length w < fuel)%nat -> ok_shrinks (dec_msg_items inner fuel w) w.
  Proof.
    revert w; induction fuel as [|fu IH]; intros w Hf Hfu; [lia|].
    cbn [dec_msg_items]. destruct w as [|b0 w0]; [apply ok_ret; cbn; lia|].
    set (w := b0 :: w0) in *.
    apply ok_bind; [apply ok_rd32|].
    intros sz w1 E L. cbn [fst snd]. apply rd32_length in E.
    destruct (sz <=? len w1); [|apply ok_err].
    pose proof (length_takeN sz w1) as Lt. pose proof (takeN_dropN sz w1) as Ltd.
    assert (Lsum : (length (takeN sz w1) + length (dropN sz w1) = length w1)%nat)
      by (rewrite <- app_length, Ltd; reflexivity).
    apply ok_bind.
    - apply ok_weaken with (takeN sz w1); [apply inner_ok; lia|lia].
    - intros m rs E2 L2. cbn [fst snd].
      destruct (inner_ok (takeN sz w1)) as [_ Hs]; [lia|]. specialize (Hs m rs E2).
      assert (Lr : (length (rs ++ dropN sz w1) <= length w1)%nat) by (rewrite app_length; lia).
      apply ok_bind.
      + apply ok_weaken with (rs ++ dropN sz w1); [apply IH; lia|lia].
      + intros l w2 E3 L3. cbn [fst snd]. apply ok_ret. lia.
  Qed.

  Lemma ok_dec_single (ft : ftype) (w : bytes) : (length w < f)%nat -> ok_shrinks (dec_single inner ft w) w.
  Proof.
    intro Hf. unfold dec_single.
    destruct ft;
      try (destruct (cpp_size _ <=? len w); [apply ok_ret; apply length_dropN|apply ok_err]);
      try apply ok_err.
    - (* bool *) destruct w as [|b t]; [apply ok_err|apply ok_ret; cbn [length]; lia].
    - (* message *)
      apply ok_bind; [apply ok_rd32|]. intros sz w1 E L. cbn [fst snd]. apply rd32_length in E.
      destruct (sz =? len w1); [|apply ok_err].
      apply ok_bind.
      + apply ok_weaken with w1; [apply inner_ok; lia|lia].
      + intros m rs E2 L2. apply ok_ret. cbn [length]. lia.
    - (* string *)
      apply ok_bind; [apply ok_rd32|]. intros n w1 E L. cbn [fst snd].
      destruct (n =? 1); [|apply ok_err].
      apply ok_bind; [apply ok_weaken with w1; [apply ok_rd_lp_string|lia]|].
      intros s w2 E2 L2. cbn [fst snd]. apply ok_ret. lia.
    - (* raw *)
      apply ok_bind; [apply ok_rd32|]. intros n w1 E L. cbn [fst snd].
      destruct (n =? 1); [|apply ok_err].
      apply ok_bind; [apply ok_weaken with w1; [apply ok_rd32|lia]|].
      intros sz w2 E2 L2. cbn [fst snd]. destruct (sz =? len w2); [apply ok_ret; cbn [length]; lia|apply ok_err].
  Qed.

  Lemma ok_dec_array (ft : ftype) (w : bytes) : (length w < f)%nat -> ok_shrinks (dec_array inner ft w) w.
  Proof.
    intro Hf. unfold dec_array.
    destruct ft;
      try (destruct (arr_unit _ =? 0); [apply ok_err|];
           destruct (len w mod arr_unit _ =? 0); [apply ok_ret; cbn [length]; lia|apply ok_err]);
      try apply ok_crash.
    - apply ok_dec_msg_items; lia.
    - apply ok_bind; [apply ok_rd32|]. intros n w1 E L. cbn [fst snd]. apply rd32_length in E.
      destruct (_ <? n); [apply ok_err|].
      apply ok_weaken with w1; [apply ok_dec_lp_items; lia|lia].
    - apply ok_bind; [apply ok_rd32|]. intros n w1 E L. cbn [fst snd]. apply rd32_length in E.
      apply ok_weaken with w1; [apply ok_dec_lp_items; lia|lia].
  Qed.

  Lemma ok_dec_field (ft : ftype) (w : bytes) : (length w < f)%nat -> ok_shrinks (dec_field inner ft w) w.
  Proof.
    intro Hf. unfold dec_field. destruct (negb (ft_flattenable ft)); [apply ok_err|].
    destruct (num_items_in_buffer ft w =? 1).
    - apply ok_bind; [apply ok_dec_single; exact Hf|]. intros i w' E L. cbn [fst snd]. apply ok_ret. exact L.
    - apply ok_bind; [apply ok_dec_array; exact Hf|]. intros l w' E L. cbn [fst snd]. apply ok_ret. exact L.
  Qed.

  Lemma ok_dec_entries (n : nat) (acc : fields) (w : bytes) :
    (length w < f)%nat -> ok_shrinks (dec_entries inner n acc w) w.
  Proof.
    revert acc w; induction n as [|n IH]; intros acc w Hf; cbn [dec_entries]; [apply ok_ret; lia|].
    apply ok_bind; [apply ok_rd_lp_string|]. intros name w1 E1 L1. cbn [fst snd].
    apply ok_bind; [apply ok_weaken with w1; [apply ok_rd32|lia]|]. intros tc w2 E2 L2. cbn [fst snd].
    apply ok_bind; [apply ok_weaken with w2; [apply ok_rd32|lia]|]. intros elen w3 E3 L3. cbn [fst snd].
    match goal with |- ok_shrinks (match ?s with _ => _ end) _ => destruct s as [[ftc existed]|] end; [|apply ok_err].
    pose proof (length_takeN elen w3) as Lt. pose proof (takeN_dropN elen w3) as Ltd.
    assert (Lsum : (length (takeN elen w3) + length (dropN elen w3) = length w3)%nat)
      by (rewrite <- app_length, Ltd; reflexivity).
    apply ok_bind.
    - apply ok_weaken with (takeN elen w3); [apply ok_dec_field; lia|lia].
    - intros r rs E4 L4. cbn [fst snd].
      destruct (ok_dec_field (ftype_of_tc ftc) (takeN elen w3)) as [_ Hs]; [lia|]. specialize (Hs r rs E4).
      assert (Lr : (length (rs ++ dropN elen w3) <= length w3)%nat) by (rewrite app_length; lia).
      apply ok_weaken with (rs ++ dropN elen w3); [apply IH; lia|lia].
  Qed.

  Lemma ok_dec_msg_level (w : bytes) : (length w <= f)%nat -> ok_shrinks (dec_msg_level inner w) w.
  Proof.
    intro Hf. unfold dec_msg_level.
    apply ok_bind; [apply ok_rd32|]. intros ver w1 E1 L1. cbn [fst snd]. apply rd32_length in E1.
    destruct (_ && _); [|apply ok_err].
    apply ok_bind; [apply ok_weaken with w1; [apply ok_rd32|lia]|]. intros wh w2 E2 L2. cbn [fst snd]. apply rd32_length in E2.
    apply ok_bind; [apply ok_weaken with w2; [apply ok_rd32|lia]|]. intros n w3 E3 L3. cbn [fst snd]. apply rd32_length in E3.
    destruct (_ <? n); [apply ok_err|].
    apply ok_bind.
    - apply ok_weaken with w3; [apply ok_dec_entries; lia|lia].
    - intros fs w4 E4 L4. cbn [fst snd]. apply ok_ret. exact L4.
  Qed.
End Level.

Lemma ok_dec_msg (fuel : nat) (w : bytes) : (length w < fuel)%nat -> ok_shrinks (dec_msg fuel w) w.
Proof.
  revert w; induction fuel as [|f IH]; intros w Hf; [lia|].
  cbn [dec_msg]. apply ok_dec_msg_level with (f := f); [exact IH|lia].
Qed.

(* the parser model never runs out of fuel, whatever the input *)
Theorem unflatten_never_fuel (w : bytes) : unflatten w <> Fuel.
Proof.
  unfold unflatten. destruct (ok_dec_msg (S (length w)) w) as [Hnf _]; [lia|].
  destruct (dec_msg (S (length w)) w) as [[m r]| | |]; cbn [bind]; try discriminate. contradiction.
Qed.
