(* Msg/TmplMergeProofs.v -- the templated codec for ANY template/payload pair: the bytes TemplatedFlatten(t) makes
   of p are the bytes it makes of tmpl_merge t p (the payload merged into the template: the template's fields, the
   payload's items where it has them), tmpl_merge t p has the template's shape, hence TemplatedUnflatten(t) gives
   back exactly tmpl_merge t p. *)
From Coq Require Import List NArith Bool Strings.Byte Lia Arith.
From Muscle Require Import Gen.Consts Msg.MsgDefs Msg.MsgModel Msg.MsgApi Msg.TmplModel
  Msg.MsgBytesProofs Msg.MsgSizeProofs Msg.MsgRoundTrip Msg.MsgApiProofs Msg.TmplProofs.
Import ListNotations.
Local Open Scope N_scope.

(* ------------------------------------------------------------------ item lists *)

Lemma items_len_app (a b : items) : items_len (items_app a b) = items_len a + items_len b.
Proof. induction a as [|i t IH]; cbn [items_app items_len]; [reflexivity|rewrite IH; lia]. Qed.

Lemma items_len_take (l : items) : forall n, n <= items_len l -> items_len (items_take n l) = n.
Proof.
  induction l as [|i t IH]; intros n H; cbn [items_len items_take] in *.
  - lia.
  - destruct (n =? 0) eqn:E; [apply N.eqb_eq in E; subst; reflexivity|]. apply N.eqb_neq in E.
    cbn [items_len]. rewrite IH by lia. lia.
Qed.

Lemma items_len_drop (l : items) : forall n, items_len (items_drop n l) = items_len l - n.
Proof.
  induction l as [|i t IH]; intros n; cbn [items_len items_drop].
  - reflexivity.
  - destruct (n =? 0) eqn:E; [apply N.eqb_eq in E; subst; cbn [items_len]; lia|]. apply N.eqb_neq in E.
    rewrite IH. lia.
Qed.

Lemma wf_items_app ft (a b : items) : wf_items ft a -> wf_items ft b -> wf_items ft (items_app a b).
Proof. induction a as [|i t IH]; cbn [items_app wf_items]; [auto|]. intros [Hi Ht] Hb. split; auto. Qed.

Lemma wf_items_take ft (l : items) : forall n, wf_items ft l -> wf_items ft (items_take n l).
Proof.
  induction l as [|i t IH]; intros n H; cbn [items_take]; [exact I|].
  destruct (n =? 0); [exact I|]. destruct H as [Hi Ht]. cbn [wf_items]. split; auto.
Qed.

Lemma wf_items_drop ft (l : items) : forall n, wf_items ft l -> wf_items ft (items_drop n l).
Proof.
  induction l as [|i t IH]; intros n H; cbn [items_drop]; [exact I|].
  destruct (n =? 0); [exact H|]. destruct H as [Hi Ht]. auto.
Qed.

Lemma repr_count_items (r : repr) : repr_count r = items_len (repr_items r).
Proof. destruct r; reflexivity. Qed.

Lemma src_len (rt rp : repr) : items_len (tmpl_src_items rt rp) = repr_count rt.
Proof.
  unfold tmpl_src_items. rewrite !repr_count_items.
  destruct (items_len (repr_items rt) <=? items_len (repr_items rp)) eqn:E.
  - apply N.leb_le in E. apply items_len_take. exact E.
  - apply N.leb_gt in E. rewrite items_len_app, items_len_drop. lia.
Qed.

Lemma src_wf ft (rt rp : repr) : wf_repr ft rt -> wf_repr ft rp -> wf_items ft (tmpl_src_items rt rp).
Proof.
  intros Ht Hp. apply wf_repr_items in Ht. apply wf_repr_items in Hp. unfold tmpl_src_items.
  destruct (_ <=? _); [apply wf_items_take; exact Hp|apply wf_items_app; [exact Hp|apply wf_items_drop; exact Ht]].
Qed.

(* ------------------------------------------------------------------ unfolding equations (leaf types) *)

Lemma mg_field_leaf ft rt pay : ft <> TMessage ->
  mg_field ft rt pay = match pay with None => rt | Some rp => RArray (tmpl_src_items rt rp) end.
Proof. intro H. destruct ft; try congruence; destruct rt; reflexivity. Qed.

Lemma tf_field_leaf ft rt pay : ft <> TMessage ->
  tf_field ft rt pay =
  match pay with
  | None => Some (flat_repr ft rt)
  | Some rp => if repr_count rt <=? repr_count rp then Some (flat_limited ft rp (repr_count rt))
               else Some (flat_repr ft (RArray (tmpl_src_items rt rp)))
  end.
Proof. intro H. destruct ft; try congruence; destruct rt; reflexivity. Qed.

Lemma ts_field_leaf ft rt pay : ft <> TMessage ->
  ts_field ft rt pay =
  match pay with
  | None => size_repr ft rt
  | Some rp => if ft_elems_fixed ft then size_repr ft rt
               else (1 + repr_count rt) * c_SIZEOF_uint32 + var_sum (tmpl_src_items rt rp)
  end.
Proof. intro H. destruct ft; try congruence; destruct rt; reflexivity. Qed.

(* ------------------------------------------------------------------ a leaf field *)

Lemma mg_leaf ft rt pay :
  ft <> TMessage -> ft_flattenable ft = true -> wf_repr ft rt -> 1 <= repr_count rt ->
  (forall rp, pay = Some rp -> wf_repr ft rp) ->
  wf_repr ft (mg_field ft rt pay) /\ repr_count (mg_field ft rt pay) = repr_count rt /\
  strip_repr (mg_field ft rt pay) = mg_field ft rt pay /\
  tf_field ft rt (Some (mg_field ft rt pay)) = tf_field ft rt pay /\
  ts_field ft rt (Some (mg_field ft rt pay)) = ts_field ft rt pay.
Proof.
  intros Hm Hf Hwt Hc Hwp. rewrite mg_field_leaf by exact Hm.
  rewrite !tf_field_leaf, !ts_field_leaf by exact Hm.
  destruct pay as [rp|].
  - specialize (Hwp rp eq_refl).
    pose proof (src_len rt rp) as Hl. pose proof (src_wf ft rt rp Hwt Hwp) as Hw.
    assert (Hcnt : repr_count (RArray (tmpl_src_items rt rp)) = repr_count rt) by exact Hl.
    split; [exact Hw|]. split; [exact Hcnt|].
    split; [apply (strip_repr_leaf ft); assumption|].
    rewrite Hcnt, N.leb_refl. rewrite (tmpl_src_same rt (RArray (tmpl_src_items rt rp))) by (symmetry; exact Hcnt).
    cbn [repr_items]. split; [|reflexivity].
    cbn [flat_limited]. rewrite <- Hl at 1. rewrite items_take_all.
    destruct (repr_count rt <=? repr_count rp) eqn:E; [|reflexivity].
    f_equal. unfold tmpl_src_items. rewrite E.
    destruct rp as [i|l]; cbn [flat_limited repr_items repr_count] in *; [|reflexivity].
    apply N.leb_le in E. assert (E1 : repr_count rt = 1) by lia. rewrite E1.
    change (items_take 1 (ICons i INil)) with (ICons i INil).
    apply flat_repr_singleton; assumption.
  - split; [exact Hwt|]. split; [reflexivity|]. split; [apply (strip_repr_leaf ft); assumption|].
    rewrite N.leb_refl, flat_limited_all. split; [reflexivity|].
    rewrite (tmpl_src_same rt rt eq_refl).
    destruct (ft_elems_fixed ft) eqn:Hx; [reflexivity|].
    assert (Hft : ft = TString \/ ft = TRaw) by (destruct ft; try discriminate Hf; try discriminate Hx; try congruence; auto).
    destruct (flat_repr_var ft rt Hft Hwt) as [_ Esr]. rewrite Esr, sizeof_u32. reflexivity.
Qed.

(* ------------------------------------------------------------------ unfolding equations (structure) *)

Lemma mg_fields_cons n tc rt tl fp :
  mg_fields (FCons n tc rt tl) fp =
  if flattenable tc then FCons n tc (mg_field (ftype_of_tc tc) rt (payload_for n tc fp)) (mg_fields tl fp) else mg_fields tl fp.
Proof. reflexivity. Qed.

Lemma tf_fields_cons n tc rt tl fp :
  tf_fields (FCons n tc rt tl) fp =
  if flattenable tc then
    obind (tf_field (ftype_of_tc tc) rt (payload_for n tc fp)) (fun b => obind (tf_fields tl fp) (fun b2 => Some (b ++ b2)))
  else tf_fields tl fp.
Proof. reflexivity. Qed.

Lemma ts_fields_cons n tc rt tl fp :
  ts_fields (FCons n tc rt tl) fp =
  (if flattenable tc then ts_field (ftype_of_tc tc) rt (payload_for n tc fp) else 0) + ts_fields tl fp.
Proof. reflexivity. Qed.

Lemma shape_fields_cons n tc rt tl fp :
  shape_fields (FCons n tc rt tl) fp =
  if flattenable tc then
    match fp with
    | FCons n2 tc2 rp tp =>
        bytes_eqb n n2 && (tc =? tc2) && (repr_count rt =? repr_count rp) &&
        shape_repr (ftype_of_tc tc) rt (repr_items rp) && shape_fields tl tp
    | FNil => false
    end
  else shape_fields tl fp.
Proof. reflexivity. Qed.

Lemma strip_fields_cons n tc r t :
  strip_fields (FCons n tc r t) = if flattenable tc then FCons n tc (strip_repr r) (strip_fields t) else strip_fields t.
Proof. reflexivity. Qed.

Lemma mg_field_msg rt pay :
  mg_field TMessage rt pay =
  match rt with
  | RInline it => RInline (mg_item it (match pay with Some rp => repr_items rp | None => INil end))
  | RArray lt => RArray (mg_items lt (match pay with Some rp => repr_items rp | None => INil end))
  end.
Proof. destruct rt; reflexivity. Qed.

Lemma tf_field_msg rt pay :
  tf_field TMessage rt pay =
  obind (match rt with
         | RInline it => tf_item it (match pay with Some rp => repr_items rp | None => INil end)
         | RArray lt => tf_items lt (match pay with Some rp => repr_items rp | None => INil end)
         end) (fun b => Some (le32 (repr_count rt) ++ b)).
Proof. destruct rt; reflexivity. Qed.

Lemma ts_field_msg rt pay :
  ts_field TMessage rt pay =
  (1 + repr_count rt) * c_SIZEOF_uint32 +
  match rt with
  | RInline it => ts_item it (match pay with Some rp => repr_items rp | None => INil end)
  | RArray lt => ts_items lt (match pay with Some rp => repr_items rp | None => INil end)
  end.
Proof. destruct rt; reflexivity. Qed.

Lemma mg_items_cons it lt2 lp : mg_items (ICons it lt2) lp = ICons (mg_item it lp) (mg_items lt2 (items_tail lp)).
Proof. reflexivity. Qed.
Lemma tf_items_cons it lt2 lp :
  tf_items (ICons it lt2) lp = obind (tf_item it lp) (fun b => obind (tf_items lt2 (items_tail lp)) (fun b2 => Some (b ++ b2))).
Proof. reflexivity. Qed.
Lemma ts_items_cons it lt2 lp : ts_items (ICons it lt2) lp = ts_item it lp + ts_items lt2 (items_tail lp).
Proof. reflexivity. Qed.
Lemma shape_items_cons it lt2 lp : shape_items (ICons it lt2) lp = shape_item it lp && shape_items lt2 (items_tail lp).
Proof. reflexivity. Qed.

Lemma mg_item_msg tm lp :
  mg_item (IMsg tm) lp = IMsg (mg_msg tm (match items_head_msg lp with Some pm => pm | None => tm end)).
Proof. reflexivity. Qed.
Lemma tf_item_msg tm lp :
  tf_item (IMsg tm) lp =
  obind (tf_msg tm (match items_head_msg lp with Some pm => pm | None => tm end))
        (fun b => Some (le32 (ts_msg tm (match items_head_msg lp with Some pm => pm | None => tm end)) ++ b)).
Proof. reflexivity. Qed.
Lemma ts_item_msg tm lp : ts_item (IMsg tm) lp = ts_msg tm (match items_head_msg lp with Some pm => pm | None => tm end).
Proof. reflexivity. Qed.
Lemma shape_item_msg tm i rest : shape_item (IMsg tm) (ICons i rest) = match i with IMsg pm => shape_msg tm pm | _ => false end.
Proof. destruct i; reflexivity. Qed.

Lemma mg_msg_eq wt ft wp fp : mg_msg (Msg wt ft) (Msg wp fp) = Msg wp (mg_fields ft fp).
Proof. reflexivity. Qed.
Lemma tf_msg_eq wt ft wp fp : tf_msg (Msg wt ft) (Msg wp fp) = obind (tf_fields ft fp) (fun b => Some (le32 wp ++ b)).
Proof. reflexivity. Qed.
Lemma ts_msg_eq wt ft wp fp : ts_msg (Msg wt ft) (Msg wp fp) = c_SIZEOF_uint32 + ts_fields ft fp.
Proof. reflexivity. Qed.

(* ------------------------------------------------------------------ the payload field of a template field *)

Lemma payload_for_wf n tc fp rp : wf_fields fp -> payload_for n tc fp = Some rp -> wf_repr (ftype_of_tc tc) rp.
Proof.
  intros Hw H. unfold payload_for in H. destruct (flookup n fp) as [[tcp r]|] eqn:E; [|discriminate].
  destruct (tcp =? tc) eqn:Et; [|discriminate]. apply N.eqb_eq in Et. subst tcp. injection H as <-.
  exact (proj2 (flookup_wf n fp tc r E Hw)).
Qed.

Lemma mg_fields_names ft fp n : In n (fnames (mg_fields ft fp)) -> In n (fnames ft).
Proof.
  induction ft as [|k tc r t IH]; [cbn; tauto|]. rewrite mg_fields_cons. cbn [fnames In].
  destruct (flattenable tc); cbn [fnames In]; tauto.
Qed.

Lemma mg_fields_nodup ft fp : NoDup (fnames ft) -> NoDup (fnames (mg_fields ft fp)).
Proof.
  induction ft as [|k tc r t IH]; [cbn; auto|]. rewrite mg_fields_cons. cbn [fnames]. intro H.
  inversion H as [|x l Hnot Hnd]; subst.
  destruct (flattenable tc); [|auto]. cbn [fnames]. constructor; [|auto].
  intro Hin. apply Hnot. exact (mg_fields_names t fp k Hin).
Qed.

Lemma payload_for_mg FT fp n tc rt :
  NoDup (fnames FT) -> fin n tc rt FT -> flattenable tc = true ->
  payload_for n tc (mg_fields FT fp) = Some (mg_field (ftype_of_tc tc) rt (payload_for n tc fp)).
Proof.
  induction FT as [|k tc' r' t IH]; intros Hnd Hin Hfl; [destruct Hin|].
  cbn [fnames] in Hnd. inversion Hnd as [|x l Hnot Hnd']; subst.
  rewrite mg_fields_cons. cbn [fin] in Hin.
  destruct Hin as [(-> & -> & ->) | Hin].
  - rewrite Hfl. unfold payload_for at 1. cbn [flookup]. rewrite bytes_eqb_refl, N.eqb_refl. reflexivity.
  - assert (Hne : bytes_eqb n k = false).
    { apply bytes_eqb_neq. intros ->. apply Hnot. exact (fin_name _ _ _ _ Hin). }
    destruct (flattenable tc'); [|exact (IH Hnd' Hin Hfl)].
    unfold payload_for at 1. cbn [flookup]. rewrite Hne. exact (IH Hnd' Hin Hfl).
Qed.

(* every field non-empty implies every Message field non-empty *)
Lemma nz_ne_all :
  (forall i, nz_item i -> ne_item i) /\ (forall l, nz_items l -> ne_items l) /\ (forall r, nz_repr r -> ne_repr r) /\
  (forall fs, nz_fields fs -> ne_fields fs) /\ (forall m, nz_msg m -> ne_msg m).
Proof.
  apply msg_mutind; try (intros; exact I).
  - intros m IH H. exact (IH H).
  - intros i IHi t IHt [Hi Ht]. split; auto.
  - intros i IH H. exact (IH H).
  - intros l IH H. exact (IH H).
  - intros n tc r IHr t IHt (Hc & Hr & Ht). cbn [ne_fields]. split; [destruct (ftype_of_tc tc); auto|]. split; auto.
  - intros w fs IH H. exact (IH H).
Qed.

(* ------------------------------------------------------------------ the merge, by induction on the template *)

Definition MG_item (it : item) : Prop :=
  forall lp rest, wf_item TMessage it -> nz_item it -> wf_items TMessage lp ->
    wf_item TMessage (mg_item it lp) /\ shape_item it (ICons (mg_item it lp) rest) = true /\
    strip_item (mg_item it lp) = mg_item it lp /\
    tf_item it (ICons (mg_item it lp) rest) = tf_item it lp /\ ts_item it (ICons (mg_item it lp) rest) = ts_item it lp.

Definition MG_items (lt : items) : Prop :=
  forall lp, wf_items TMessage lt -> nz_items lt -> wf_items TMessage lp ->
    wf_items TMessage (mg_items lt lp) /\ shape_items lt (mg_items lt lp) = true /\
    strip_items (mg_items lt lp) = mg_items lt lp /\
    tf_items lt (mg_items lt lp) = tf_items lt lp /\ ts_items lt (mg_items lt lp) = ts_items lt lp /\
    items_len (mg_items lt lp) = items_len lt.

Definition MG_repr (rt : repr) : Prop :=
  forall ft pay, ft_flattenable ft = true -> wf_repr ft rt -> nz_repr rt -> 1 <= repr_count rt ->
    (forall rp, pay = Some rp -> wf_repr ft rp) ->
    wf_repr ft (mg_field ft rt pay) /\ repr_count (mg_field ft rt pay) = repr_count rt /\
    shape_repr ft rt (repr_items (mg_field ft rt pay)) = true /\
    strip_repr (mg_field ft rt pay) = mg_field ft rt pay /\
    tf_field ft rt (Some (mg_field ft rt pay)) = tf_field ft rt pay /\
    ts_field ft rt (Some (mg_field ft rt pay)) = ts_field ft rt pay.

Definition MG_fields (ft : fields) : Prop :=
  forall fp fq, wf_fields ft -> nz_fields ft -> NoDup (fnames ft) -> wf_fields fp ->
    (forall n tc rt, fin n tc rt ft -> flattenable tc = true ->
       payload_for n tc fq = Some (mg_field (ftype_of_tc tc) rt (payload_for n tc fp))) ->
    wf_fields (mg_fields ft fp) /\ shape_fields ft (mg_fields ft fp) = true /\
    strip_fields (mg_fields ft fp) = mg_fields ft fp /\
    tf_fields ft fq = tf_fields ft fp /\ ts_fields ft fq = ts_fields ft fp.

Definition MG_msg (t : msg) : Prop :=
  forall p, wf_msg t -> nz_msg t -> wf_msg p ->
    wf_msg (mg_msg t p) /\ shape_msg t (mg_msg t p) = true /\ strip_msg (mg_msg t p) = mg_msg t p /\
    tf_msg t (mg_msg t p) = tf_msg t p /\ ts_msg t (mg_msg t p) = ts_msg t p.

Lemma head_src_wf tm lp : wf_msg tm -> wf_items TMessage lp ->
  wf_msg (match items_head_msg lp with Some pm => pm | None => tm end).
Proof.
  intros Ht Hp. destruct lp as [|i lp']; [exact Ht|]. destruct i; try exact Ht. destruct Hp as [Hi _]. exact Hi.
Qed.

Lemma wf_items_tail ft lp : wf_items ft lp -> wf_items ft (items_tail lp).
Proof. destruct lp; [auto|]. intros [_ H]. exact H. Qed.

Lemma ftype_eq_dec (a b : ftype) : {a = b} + {a <> b}.
Proof. decide equality. Qed.

Lemma merge_all : (forall i, MG_item i) /\ (forall l, MG_items l) /\ (forall r, MG_repr r) /\ (forall fs, MG_fields fs) /\ (forall m, MG_msg m).
Proof.
  apply msg_mutind.
  - intros bs lp rest H. cbn [wf_item] in H. contradiction.
  - intros bs lp rest H. cbn [wf_item] in H. contradiction.
  - intros bs lp rest H. cbn [wf_item] in H. contradiction.
  - (* IMsg *)
    intros tm IH lp rest Hw Hn Hwp. cbn [wf_item] in Hw. cbn [nz_item] in Hn.
    pose proof (head_src_wf tm lp Hw Hwp) as Hsrc.
    destruct (IH _ Hw Hn Hsrc) as (W & S & St & Tf & Ts).
    rewrite mg_item_msg. rewrite !tf_item_msg, !ts_item_msg, shape_item_msg.
    cbn [items_head_msg wf_item strip_item].
    split; [exact W|]. split; [exact S|]. split; [rewrite St; reflexivity|].
    rewrite Tf, Ts. split; reflexivity.
  - intros id lp rest H. cbn [wf_item] in H. contradiction.
  - (* INil *)
    intros lp _ _ _. cbn. repeat split; reflexivity.
  - (* ICons *)
    intros it IHi lt2 IHt lp [Hwi Hwt] [Hni Hnt] Hwp.
    destruct (IHi lp (mg_items lt2 (items_tail lp)) Hwi Hni Hwp) as (W1 & S1 & St1 & Tf1 & Ts1).
    destruct (IHt (items_tail lp) Hwt Hnt (wf_items_tail _ _ Hwp)) as (W2 & S2 & St2 & Tf2 & Ts2 & L2).
    rewrite mg_items_cons. rewrite !tf_items_cons, !ts_items_cons, shape_items_cons.
    cbn [items_tail wf_items strip_items items_len].
    split; [split; assumption|]. split; [rewrite S1, S2; reflexivity|]. split; [rewrite St1, St2; reflexivity|].
    rewrite Tf1, Tf2, Ts1, Ts2, L2. repeat split; reflexivity.
  - (* RInline *)
    intros it IHi ft pay Hf Hw Hn Hc Hwp. cbn [wf_repr] in Hw. cbn [nz_repr] in Hn.
    destruct (ftype_eq_dec ft TMessage) as [->|Hm].
    + set (lp := match pay with Some rp => repr_items rp | None => INil end).
      assert (Hlp : wf_items TMessage lp).
      { subst lp. destruct pay as [rp|]; [apply wf_repr_items; apply Hwp; reflexivity|exact I]. }
      destruct (IHi lp INil Hw Hn Hlp) as (W & S & St & Tf & Ts).
      rewrite mg_field_msg. fold lp. rewrite !tf_field_msg, !ts_field_msg.
      cbn [wf_repr repr_count repr_items shape_repr strip_repr].
      split; [exact W|]. split; [reflexivity|]. split; [exact S|]. split; [rewrite St; reflexivity|].
      rewrite Tf, Ts. split; reflexivity.
    + destruct (mg_leaf ft (RInline it) pay Hm Hf Hw Hc Hwp) as (W & C & St & Tf & Ts).
      split; [exact W|]. split; [exact C|]. split; [apply shape_repr_leaf; exact Hm|]. split; [exact St|]. split; assumption.
  - (* RArray *)
    intros lt IHl ft pay Hf Hw Hn Hc Hwp. cbn [wf_repr] in Hw. cbn [nz_repr] in Hn.
    destruct (ftype_eq_dec ft TMessage) as [->|Hm].
    + set (lp := match pay with Some rp => repr_items rp | None => INil end).
      assert (Hlp : wf_items TMessage lp).
      { subst lp. destruct pay as [rp|]; [apply wf_repr_items; apply Hwp; reflexivity|exact I]. }
      destruct (IHl lp Hw Hn Hlp) as (W & S & St & Tf & Ts & L).
      rewrite mg_field_msg. fold lp. rewrite !tf_field_msg, !ts_field_msg.
      cbn [wf_repr repr_count repr_items shape_repr strip_repr].
      split; [exact W|]. split; [exact L|]. split; [exact S|]. split; [rewrite St; reflexivity|].
      rewrite Tf, Ts. split; reflexivity.
    + destruct (mg_leaf ft (RArray lt) pay Hm Hf Hw Hc Hwp) as (W & C & St & Tf & Ts).
      split; [exact W|]. split; [exact C|]. split; [apply shape_repr_leaf; exact Hm|]. split; [exact St|]. split; assumption.
  - (* FNil *)
    intros fp fq _ _ _ _ _. cbn. repeat split; reflexivity.
  - (* FCons *)
    intros n tc rt IHr tl IHt fp fq (Hn & Htc & Hr & Ht) (Hc & Hnz & Hnt) Hnd Hwp H.
    cbn [fnames] in Hnd. inversion Hnd as [|x l Hnot Hnd']; subst.
    assert (Htl : forall n0 tc0 rt0, fin n0 tc0 rt0 tl -> flattenable tc0 = true ->
              payload_for n0 tc0 fq = Some (mg_field (ftype_of_tc tc0) rt0 (payload_for n0 tc0 fp))).
    { intros n0 tc0 rt0 Hin. apply H. cbn [fin]. right. exact Hin. }
    destruct (IHt fp fq Ht Hnt Hnd' Hwp Htl) as (W2 & S2 & St2 & Tf2 & Ts2).
    rewrite mg_fields_cons, !tf_fields_cons, !ts_fields_cons, shape_fields_cons.
    destruct (flattenable tc) eqn:Fl.
    + assert (Hhead : payload_for n tc fq = Some (mg_field (ftype_of_tc tc) rt (payload_for n tc fp))).
      { apply H; [cbn [fin]; left; auto|exact Fl]. }
      assert (Hpw : forall rp, payload_for n tc fp = Some rp -> wf_repr (ftype_of_tc tc) rp).
      { intros rp E. exact (payload_for_wf n tc fp rp Hwp E). }
      destruct (IHr (ftype_of_tc tc) (payload_for n tc fp) Fl Hr Hnz Hc Hpw) as (W1 & C1 & S1 & St1 & Tf1 & Ts1).
      rewrite strip_fields_cons, Fl. cbn [wf_fields].
      split; [repeat split; assumption|].
      split; [rewrite bytes_eqb_refl, N.eqb_refl, C1, N.eqb_refl, S1, S2; reflexivity|].
      split; [rewrite St1, St2; reflexivity|].
      rewrite Hhead, Tf1, Tf2, Ts1, Ts2. split; reflexivity.
    + split; [exact W2|]. split; [exact S2|]. split; [exact St2|]. rewrite Tf2, Ts2. split; reflexivity.
  - (* Msg *)
    intros wt ft IH [wp fp] (Hw & Hnd & Hwf) Hn (Hwp & Hndp & Hwfp). cbn [nz_msg] in Hn.
    rewrite mg_msg_eq.
    assert (H : forall n tc rt, fin n tc rt ft -> flattenable tc = true ->
              payload_for n tc (mg_fields ft fp) = Some (mg_field (ftype_of_tc tc) rt (payload_for n tc fp))).
    { intros n tc rt Hin Hfl. exact (payload_for_mg ft fp n tc rt Hnd Hin Hfl). }
    destruct (IH fp (mg_fields ft fp) Hwf Hn Hnd Hwfp H) as (W & S & St & Tf & Ts).
    rewrite !tf_msg_eq, !ts_msg_eq. cbn [wf_msg shape_msg strip_msg].
    split; [split; [exact Hwp|split; [apply mg_fields_nodup; exact Hnd|exact W]]|].
    split; [exact S|]. split; [rewrite St; reflexivity|]. rewrite Tf, Ts. split; reflexivity.
Qed.

(* ------------------------------------------------------------------ the theorems *)

Theorem tmpl_merge_ok (t p : msg) :
  wf_msg t -> nz_msg t -> wf_msg p ->
  wf_msg (tmpl_merge t p) /\ same_shape t (tmpl_merge t p) = true /\
  tmpl_flatten t (tmpl_merge t p) = tmpl_flatten t p /\
  tmpl_flattened_size t (tmpl_merge t p) = tmpl_flattened_size t p.
Proof.
  intros Hwt Hn Hwp. unfold tmpl_merge, same_shape, tmpl_flatten, tmpl_flattened_size.
  destruct (proj2 (proj2 (proj2 (proj2 merge_all))) t p Hwt Hn Hwp) as (W & S & St & Tf & Ts).
  rewrite St. auto.
Qed.

(* any template whose fields are non-empty, any payload: the templated bytes parse back to the merge *)
Theorem tmpl_roundtrip_any (t p : msg) :
  wf_msg t -> nz_msg t -> wf_msg p -> tmpl_flattened_size t p < two32 ->
  exists b, tmpl_flatten t p = Some b /\ len b = tmpl_flattened_size t p /\
            tmpl_unflatten t b = Ok (rt (tmpl_merge t p)).
Proof.
  intros Hwt Hn Hwp Hs.
  destruct (tmpl_merge_ok t p Hwt Hn Hwp) as (W & S & Tf & Ts).
  rewrite <- Ts in Hs.
  destruct (tmpl_roundtrip t (tmpl_merge t p) Hwt (proj2 (proj2 (proj2 (proj2 nz_ne_all))) t Hn) W S Hs) as (b & Eb & Lb & Hu).
  exists b. rewrite <- Tf, <- Ts. auto.
Qed.

(* a payload of the template's shape is its own merge, up to the parser's normal form *)
Corollary tmpl_merge_same_shape (t p : msg) :
  wf_msg t -> nz_msg t -> wf_msg p -> same_shape t p = true -> tmpl_flattened_size t p < two32 ->
  rt (tmpl_merge t p) = rt p.
Proof.
  intros Hwt Hn Hwp Hsh Hs.
  destruct (tmpl_roundtrip_any t p Hwt Hn Hwp Hs) as (b & Eb & _ & Hu).
  destruct (tmpl_roundtrip t p Hwt (proj2 (proj2 (proj2 (proj2 nz_ne_all))) t Hn) Hwp Hsh Hs) as (b' & Eb' & _ & Hu').
  rewrite Eb in Eb'. injection Eb' as <-. rewrite Hu in Hu'. injection Hu' as E. exact E.
Qed.

(* non-vacuity, and the case the C++ got wrong: the payload {a: ["hi"]} against the template {a: ["qqqqq", "x"]} *)
Definition fewer_t : msg :=
  Msg 0 (FCons [x61] c_B_STRING_TYPE (RArray (ICons (IStr [x71; x71; x71; x71; x71]) (ICons (IStr [x78]) INil))) FNil).
Definition fewer_p : msg := Msg 0 (FCons [x61] c_B_STRING_TYPE (RInline (IStr [x68; x69])) FNil).

Example ex_fewer :
  wf_msg fewer_t /\ nz_msg fewer_t /\ wf_msg fewer_p /\ same_shape fewer_t fewer_p = false /\
  tmpl_flattened_size fewer_t fewer_p = 21 /\
  tmpl_flatten fewer_t fewer_p =
    Some [x00; x00; x00; x00; x02; x00; x00; x00; x03; x00; x00; x00; x68; x69; x00; x02; x00; x00; x00; x78; x00] /\
  tmpl_merge fewer_t fewer_p = Msg 0 (FCons [x61] c_B_STRING_TYPE (RArray (ICons (IStr [x68; x69]) (ICons (IStr [x78]) INil))) FNil).
Proof.
  split; [vm_compute; repeat split; try reflexivity; try exact I; try (repeat constructor; cbn [In]; intuition discriminate)|].
  split; [vm_compute; repeat split; try reflexivity; try exact I; discriminate|].
  split; [vm_compute; repeat split; try reflexivity; try exact I; try (repeat constructor; cbn [In]; intuition discriminate)|].
  repeat split; vm_compute; reflexivity.
Qed.
