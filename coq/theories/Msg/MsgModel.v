(* Msg/MsgModel.v -- executable model of the Message codec (message/Message.cpp), code-shaped.

   Mirrors, function by function:
     Message::FlattenedSize / Flatten / Unflatten                         size_msg / flat_msg / dec_msg_level
     MessageField::SingleFlattenedSize / SingleFlatten / SingleUnflatten  size_single / flat_single / dec_single
     *DataArray::TemplatedFlattenedSize / TemplatedFlatten / ..Unflatten  size_array / flat_array / dec_array
     MessageField::GetNumItemsInFlattenedBuffer / Unflatten               num_items_in_buffer / dec_field
     DataUnflattener::ReadInt32, ReadFlatWithLengthPrefix, ReadCString,
       DataUnflattenerReadLimiter (clamping), String::Unflatten            rd32 / rd_lp_string / upto_nul / takeN
     Message::CalculateChecksum, MessageField::SingleCalculateChecksum,
       *DataArray::CalculateChecksum, CalculatePODChecksum                chk_msg ...
     Message::operator==, FieldsAreSubsetOf, MessageField::IsEqualTo,
       AbstractDataArray::IsEqualTo / AreContentsEqual                    msg_eqb ...
     Message::Add*/Prepend*/Replace*/RemoveData/RemoveName/Rename/Clear   step
   The decoder runs on fuel = nesting depth (outer) and byte count (inner loops); every parser returns the
   unread rest of the window it was given, exactly as the C++ advances its read pointer.
   No proofs in this file. *)
From Coq Require Import List NArith Bool Strings.Byte.
From Muscle Require Import Gen.Consts Msg.MsgDefs.
Import ListNotations.
Local Open Scope N_scope.

(* ================================================================== sizes *)

Definition str_flat_size (s : bytes) : N := len s + 1.    (* String::FlattenedSize = Length()+1 *)

(* the unit TemplatedFlattenedSize multiplies by: sizeof(DataType) for PrimitiveTypeDataArray,
   the FlatItemSize template argument (= sizeof(Point), sizeof(Rect)) for FixedSizeFlatObjectArray *)
Definition arr_unit (ft : ftype) : N :=
  match ft with TPoint => c_SIZEOF_Point | TRect => c_SIZEOF_Rect | _ => cpp_size ft end.

Fixpoint size_msg (m : msg) : N :=
  match m with Msg _ fs => 3 * c_SIZEOF_uint32 + size_fields fs end
with size_fields (fs : fields) : N :=
  match fs with
  | FNil => 0
  | FCons n tc r t =>
      (if flattenable tc
       then c_SIZEOF_uint32 + str_flat_size n + c_SIZEOF_uint32 + c_SIZEOF_uint32 + size_repr (ftype_of_tc tc) r
       else 0) + size_fields t
  end
with size_repr (ft : ftype) (r : repr) {struct r} : N :=
  match r with
  | RInline i => size_single ft i
  | RArray l =>
      match ft with
      | TBool | TDouble | TFloat | TInt64 | TInt32 | TInt16 | TInt8 | TPoint | TRect => items_len l * arr_unit ft
      | TPointer | TTag => 0
      | TMessage => size_items ft l
      | TString => (items_len l + 1) * c_SIZEOF_uint32 + size_items ft l
      | TRaw => c_SIZEOF_uint32 + size_items ft l
      end
  end
with size_single (ft : ftype) (i : item) {struct i} : N :=   (* SingleFlattenedSize *)
  match ft with
  | TBool => single_fix_size TBool
  | TMessage => c_SIZEOF_uint32 + match i with IMsg m => size_msg m | _ => 0 end
  | TString => c_SIZEOF_uint32 + c_SIZEOF_uint32 + match i with IStr s => str_flat_size s | _ => 0 end
  | _ =>
      if 0 <? elem_size ft then elem_size ft
      else c_SIZEOF_uint32 + c_SIZEOF_uint32 + match i with IRaw b => len b | IMsg m => size_msg m | _ => 0 end
  end
with size_items (ft : ftype) (l : items) {struct l} : N :=   (* the per-item part of the variable-size arrays *)
  match l with
  | INil => 0
  | ICons i t => size_elem ft i + size_items ft t
  end
with size_elem (ft : ftype) (i : item) {struct i} : N :=
  match ft, i with
  | TMessage, IMsg m => c_SIZEOF_uint32 + size_msg m
  | TString, IStr s => str_flat_size s          (* the length words are counted by (n+1)*4 in size_repr *)
  | TRaw, IRaw b => c_SIZEOF_uint32 + len b
  | _, _ => 0
  end.

(* ================================================================== flatten *)

Fixpoint count_flat (fs : fields) : N :=
  match fs with
  | FNil => 0
  | FCons _ tc _ t => (if flattenable tc then 1 else 0) + count_flat t
  end.

Definition bool_byte (bs : bytes) : byte :=       (* GetInlineItemAsBool() ? 1 : 0 *)
  match bs with b :: _ => if is_nul b then x00 else x01 | [] => x00 end.

Fixpoint flat_msg (m : msg) : bytes :=
  match m with
  | Msg w fs => le32 c_CURRENT_PROTOCOL_VERSION ++ le32 w ++ le32 (count_flat fs) ++ flat_fields fs
  end
with flat_fields (fs : fields) : bytes :=
  match fs with
  | FNil => []
  | FCons n tc r t =>
      (if flattenable tc
       then le32 (str_flat_size n) ++ n ++ [x00]                       (* WriteFlatWithLengthPrefix(name) *)
            ++ le32 tc                                                  (* WriteInt32(mf.TypeCode()) *)
            ++ le32 (size_repr (ftype_of_tc tc) r) ++ flat_repr (ftype_of_tc tc) r   (* WriteFlatWithLengthPrefix(mf) *)
       else []) ++ flat_fields t
  end
with flat_repr (ft : ftype) (r : repr) {struct r} : bytes :=
  match r with
  | RInline i => flat_single ft i
  | RArray l =>
      match ft with
      | TString | TRaw => le32 (items_len l) ++ flat_items ft l
      | TPointer | TTag => []                      (* TemplatedFlatten would MCRASH; never called: not flattenable *)
      | _ => flat_items ft l
      end
  end
with flat_single (ft : ftype) (i : item) {struct i} : bytes :=     (* SingleFlatten *)
  match ft with
  | TBool => match i with IFix bs => [bool_byte bs] | _ => [] end
  | TDouble | TFloat | TInt64 | TInt32 | TInt16 | TInt8 | TPoint | TRect =>
      match i with IFix bs => bs | _ => [] end
  | TTag | TPointer => []
  | TMessage => match i with IMsg m => le32 (size_msg m) ++ flat_msg m | _ => [] end
  | TString => match i with IStr s => le32 1 ++ le32 (str_flat_size s) ++ s ++ [x00] | _ => [] end
  | TRaw => match i with
            | IRaw b => le32 1 ++ le32 (len b) ++ b
            | IMsg m => le32 1 ++ le32 (size_msg m) ++ flat_msg m
            | _ => le32 1 ++ le32 0
            end
  end
with flat_items (ft : ftype) (l : items) {struct l} : bytes :=
  match l with
  | INil => []
  | ICons i t => flat_elem ft i ++ flat_items ft t
  end
with flat_elem (ft : ftype) (i : item) {struct i} : bytes :=        (* one item inside TemplatedFlatten *)
  match ft, i with
  | (TBool | TDouble | TFloat | TInt64 | TInt32 | TInt16 | TInt8 | TPoint | TRect), IFix bs => bs
  | TMessage, IMsg m => le32 (size_msg m) ++ flat_msg m
  | TString, IStr s => le32 (str_flat_size s) ++ s ++ [x00]
  | TRaw, IRaw b => le32 (len b) ++ b
  | _, _ => []
  end.

Definition flatten (m : msg) : bytes := flat_msg m.
Definition flattened_size (m : msg) : N := size_msg m.

(* ================================================================== unflatten *)

Definition rd32 (w : bytes) : res (N * bytes) :=       (* ReadInt32 + status check *)
  match w with
  | a :: b :: c :: d :: t => Ok (le_dec [a; b; c; d], t)
  | _ => Err
  end.

(* ReadCString on a window: the bytes before the first NUL; for an empty or unterminated window it returns
   NULL and String::Unflatten reports the reader's error status (since the fix ef9bd5e; before it
   SetCstr(NULL) silently produced the empty String) *)
Fixpoint upto_nul (w : bytes) : option bytes :=
  match w with
  | [] => None
  | b :: t => if is_nul b then Some [] else
                match upto_nul t with Some s => Some (b :: s) | None => None end
  end.

(* ReadFlatsWithLengthPrefixes(&string, 1): always advances by the stated payload size *)
Definition rd_lp_string (w : bytes) : res (bytes * bytes) :=
  bind (rd32 w) (fun p =>
    let n := fst p in let w1 := snd p in
    if n <=? len w1 then
      match upto_nul (takeN n w1) with Some s => Ok (s, dropN n w1) | None => Err end
    else Err).

Definition num_items_in_buffer (ft : ftype) (w : bytes) : N :=
  let fs := wire_size ft in
  if 0 <? fs then len w / fs
  else match ft with
       | TMessage =>
           match rd32 w with
           | Ok (first, w1) => if len w1 <? first then 0 else if first =? len w1 then 1 else 2
           | _ => 0
           end
       | _ => match rd32 w with Ok (n, _) => n | _ => 0 end
       end.

Fixpoint split_fix (n : nat) (sz : N) (w : bytes) : items :=
  match n with
  | O => INil
  | S k => ICons (IFix (takeN sz w)) (split_fix k sz (dropN sz w))
  end.

(* ByteBufferDataArray::TemplatedUnflatten's loop and ReadFlatsWithLengthPrefixes<String> share a shape;
   [mk] builds the item from its payload window and may fail (String::Unflatten on unterminated input) *)
Fixpoint dec_lp_items (mk : bytes -> option item) (fuel : nat) (n : N) (w : bytes) : res (items * bytes) :=
  if n =? 0 then Ok (INil, w) else
  match fuel with
  | O => Fuel
  | S f =>
      bind (rd32 w) (fun p =>
        let sz := fst p in let w1 := snd p in
        if sz <=? len w1 then
          match mk (takeN sz w1) with
          | None => Err
          | Some it =>
              bind (dec_lp_items mk f (N.pred n) (dropN sz w1)) (fun q => Ok (ICons it (fst q), snd q))
          end
        else Err)
  end.

Definition mk_str (b : bytes) : option item := match upto_nul b with Some s => Some (IStr s) | None => None end.
Definition mk_raw (b : bytes) : option item := Some (IRaw b).

(* EndianConverter::Import(bool): any non-zero byte is true (since the fix 58a8a1c) *)
Fixpoint norm_bools (l : items) : items :=
  match l with
  | INil => INil
  | ICons (IFix bs) t => ICons (IFix [bool_byte bs]) (norm_bools t)
  | ICons i t => ICons i (norm_bools t)
  end.

Section Level.
  (* the parser of the next nesting level (a sub-Message), given the window it may read *)
  Variable inner : bytes -> res (msg * bytes).

  (* MessageDataArray::TemplatedUnflatten: while bytes remain, length word, limiter, sub-Message; the read
     position continues where the sub-Message's parser stopped (not at the stated length) *)
  Fixpoint dec_msg_items (fuel : nat) (w : bytes) : res (items * bytes) :=
    match w with
    | [] => Ok (INil, [])
    | _ =>
      match fuel with
      | O => Fuel
      | S f =>
          bind (rd32 w) (fun p =>
            let sz := fst p in let w1 := snd p in
            if sz <=? len w1 then
              bind (inner (takeN sz w1)) (fun q =>
                bind (dec_msg_items f (snd q ++ dropN sz w1)) (fun r =>
                  Ok (ICons (IMsg (fst q)) (fst r), snd r)))
            else Err)
      end
    end.

  Definition dec_single (ft : ftype) (w : bytes) : res (item * bytes) :=      (* SingleUnflatten *)
    match ft with
    | TBool => match w with b :: t => Ok (IFix [if is_nul b then x00 else x01], t) | [] => Err end
    | TDouble | TFloat | TInt64 | TInt32 | TInt16 | TInt8 | TPoint | TRect =>
        let sz := cpp_size ft in
        if sz <=? len w then Ok (IFix (takeN sz w), dropN sz w) else Err
    | TTag | TPointer => Err                                   (* B_UNIMPLEMENTED *)
    | TMessage =>
        bind (rd32 w) (fun p =>
          if fst p =? len (snd p)
          then bind (inner (snd p)) (fun q => Ok (IMsg (fst q), []))   (* GetMessageFromPool(ptr,n); SeekToEnd *)
          else Err)
    | TString =>
        bind (rd32 w) (fun p =>
          if fst p =? 1
          then bind (rd_lp_string (snd p)) (fun q => Ok (IStr (fst q), snd q))
          else Err)
    | TRaw =>
        bind (rd32 w) (fun p =>
          if fst p =? 1
          then bind (rd32 (snd p)) (fun q =>
                 if fst q =? len (snd q) then Ok (IRaw (snd q), []) else Err)
          else Err)
    end.

  Definition dec_array (ft : ftype) (w : bytes) : res (items * bytes) :=       (* <Type>DataArray::TemplatedUnflatten *)
    match ft with
    | TBool | TDouble | TFloat | TInt64 | TInt32 | TInt16 | TInt8 | TPoint | TRect =>
        let sz := arr_unit ft in
        if sz =? 0 then Err
        else if len w mod sz =? 0 then
          let l := split_fix (N.to_nat (len w / sz)) sz w in
          Ok (match ft with TBool => norm_bools l | _ => l end, [])
        else Err
    | TPointer | TTag => Crash                 (* MCRASH("This method should never be called!"): unreachable, see dec_field *)
    | TMessage => dec_msg_items (S (length w)) w
    | TString =>
        bind (rd32 w) (fun p =>
          (* each element needs at least its 4-byte length prefix (fix eadc089) *)
          if len (snd p) / c_SIZEOF_uint32 <? fst p then Err
          else dec_lp_items mk_str (S (length w)) (fst p) (snd p))
    | TRaw =>
        bind (rd32 w) (fun p => dec_lp_items mk_raw (S (length w)) (fst p) (snd p))
    end.

  Definition dec_field (ft : ftype) (w : bytes) : res (repr * bytes) :=        (* MessageField::Unflatten *)
    if negb (ft_flattenable ft) then Err          (* B_POINTER_TYPE / B_TAG_TYPE: B_UNIMPLEMENTED (fix a906343) *)
    else if num_items_in_buffer ft w =? 1
    then bind (dec_single ft w) (fun q => Ok (RInline (fst q), snd q))
    else bind (dec_array ft w) (fun q => Ok (RArray (fst q), snd q)).

  (* the entry loop of Message::Unflatten;  [acc] is the field table built so far *)
  Fixpoint dec_entries (n : nat) (acc : fields) (w : bytes) : res (fields * bytes) :=
    match n with
    | O => Ok (acc, w)
    | S k =>
        bind (rd_lp_string w) (fun pn =>
          let name := fst pn in
          bind (rd32 (snd pn)) (fun pt =>
            let tc := fst pt in
            bind (rd32 (snd pt)) (fun pl =>
              let elen := fst pl in let w3 := snd pl in
              (* GetOrCreateMessageField(entryName, tc, nextEntry) *)
              let slot :=
                match flookup name acc with
                | Some (tc', _) => if (tc =? c_B_ANY_TYPE) || (tc =? tc') then Some (tc', true) else None
                | None => Some (tc, false)
                end in
              match slot with
              | None => Err                                      (* B_TYPE_MISMATCH *)
              | Some (ftc, existed) =>
                  (* DataUnflattenerReadLimiter(unflat, eLength): clamped to what is available *)
                  bind (dec_field (ftype_of_tc ftc) (takeN elen w3)) (fun q =>
                    let acc' := if existed then fset name ftc (fst q) acc else fsnoc acc name ftc (fst q) in
                    dec_entries k acc' (snd q ++ dropN elen w3))
              end)))
    end.

  Definition dec_msg_level (w : bytes) : res (msg * bytes) :=                  (* Message::Unflatten *)
    bind (rd32 w) (fun pv =>
      let ver := fst pv in
      if (c_OLDEST_SUPPORTED_PROTOCOL_VERSION <=? ver) && (ver <=? c_CURRENT_PROTOCOL_VERSION) then
        bind (rd32 (snd pv)) (fun pw =>
          bind (rd32 (snd pw)) (fun pc =>
            let n := fst pc in let w3 := snd pc in
            if len w3 / (3 * c_SIZEOF_uint32) <? n then Err
            else bind (dec_entries (N.to_nat n) FNil w3) (fun q => Ok (Msg (fst pw) (fst q), snd q))))
      else Err).
End Level.

Fixpoint dec_msg (fuel : nat) (w : bytes) : res (msg * bytes) :=
  match fuel with
  | O => Fuel
  | S f => dec_msg_level (dec_msg f) w
  end.

(* Message::UnflattenFromBytes: trailing bytes are not an error *)
Definition unflatten (w : bytes) : res msg :=
  bind (dec_msg (S (length w)) w) (fun q => Ok (fst q)).

(* ================================================================== what a round trip preserves *)

(* strip: the non-flattenable fields (pointers, tags) are not written, at any level *)
Fixpoint strip_msg (m : msg) : msg :=
  match m with Msg w fs => Msg w (strip_fields fs) end
with strip_fields (fs : fields) : fields :=
  match fs with
  | FNil => FNil
  | FCons n tc r t => if flattenable tc then FCons n tc (strip_repr r) (strip_fields t) else strip_fields t
  end
with strip_repr (r : repr) : repr :=
  match r with RInline i => RInline (strip_item i) | RArray l => RArray (strip_items l) end
with strip_item (i : item) : item :=
  match i with IMsg m => IMsg (strip_msg m) | _ => i end
with strip_items (l : items) : items :=
  match l with INil => INil | ICons i t => ICons (strip_item i) (strip_items t) end.

(* norm: a one-item array comes back as an inline item, at any level *)
Fixpoint norm_msg (m : msg) : msg :=
  match m with Msg w fs => Msg w (norm_fields fs) end
with norm_fields (fs : fields) : fields :=
  match fs with
  | FNil => FNil
  | FCons n tc r t => FCons n tc (norm_repr r) (norm_fields t)
  end
with norm_repr (r : repr) : repr :=
  match r with
  | RInline i => RInline (norm_item i)
  | RArray l => match l with
                | ICons i INil => RInline (norm_item i)
                | _ => RArray (norm_items l)
                end
  end
with norm_item (i : item) : item :=
  match i with IMsg m => IMsg (norm_msg m) | _ => i end
with norm_items (l : items) : items :=
  match l with INil => INil | ICons i t => ICons (norm_item i) (norm_items t) end.

Definition rt (m : msg) : msg := norm_msg (strip_msg m).

(* content: the Message with the representation state forgotten (every field an array of its items).
   Two Messages have the same content iff they have the same what-code, the same fields in the same order
   with the same names and type codes, the same item counts and identical items, at every nesting level. *)
Fixpoint content_msg (m : msg) : msg :=
  match m with Msg w fs => Msg w (content_fields fs) end
with content_fields (fs : fields) : fields :=
  match fs with
  | FNil => FNil
  | FCons n tc r t => FCons n tc (content_repr r) (content_fields t)
  end
with content_repr (r : repr) : repr :=
  match r with
  | RInline i => RArray (ICons (content_item i) INil)
  | RArray l => RArray (content_items l)
  end
with content_item (i : item) : item :=
  match i with IMsg m => IMsg (content_msg m) | _ => i end
with content_items (l : items) : items :=
  match l with INil => INil | ICons i t => ICons (content_item i) (content_items t) end.

(* ================================================================== checksum *)

Definition nth_bytes (k n : N) (bs : bytes) : bytes := takeN n (dropN k bs).

Definition pod32_signext (nbytes : N) (bs : bytes) : N :=      (* (uint32)(intK)v *)
  let v := le_dec bs in
  let half := 2 ^ (8 * nbytes - 1) in
  if v <? half then v else v + (two32 - 2 ^ (8 * nbytes)).
Definition pod64 (bs : bytes) : N :=                           (* CalculatePODChecksum(int64) = hi | ~lo *)
  let v := le_dec bs in N.lor (v / two32) (two32 - 1 - v mod two32).
Definition podf (bs : bytes) : N :=                            (* float: (v==0.0f) ? 0 : bits *)
  let v := le_dec bs in if (v =? 0) || (v =? 2147483648) then 0 else v.
Definition podd (bs : bytes) : N :=
  let v := le_dec bs in if (v =? 0) || (v =? 9223372036854775808) then 0 else pod64 bs.

Section Checksum.
  Variable hash : bytes -> N.        (* CalculateHashCode (MurmurHash2): any function *)
  Variable cnf : bool.               (* countNonFlattenableFields *)

  Definition chk_leaf (ft : ftype) (bs : bytes) : N :=
    match ft with
    | TBool => match bs with b :: _ => if is_nul b then 0 else 1 | [] => 0 end
    | TInt8 => pod32_signext 1 bs
    | TInt16 => pod32_signext 2 bs
    | TInt32 => le_dec bs
    | TInt64 => pod64 bs
    | TFloat => podf bs
    | TDouble => podd bs
    | TPoint => podf (nth_bytes 0 4 bs) + 3 * podf (nth_bytes 4 4 bs)
    | TRect => podf (nth_bytes 0 4 bs) + 3 * podf (nth_bytes 4 4 bs) + 5 * podf (nth_bytes 8 4 bs) + 7 * podf (nth_bytes 12 4 bs)
    | _ => 0
    end.

  Fixpoint chk_msg (m : msg) : N :=
    match m with Msg w fs => u32 (w + chk_fields fs) end
  with chk_fields (fs : fields) : N :=
    match fs with
    | FNil => 0
    | FCons n tc r t =>
        (if cnf || flattenable tc then
           let fn := u32 (hash n) in
           fn + (if fn =? 0 then 1 else 0) + fn * chk_repr (ftype_of_tc tc) tc r
         else 0) + chk_fields t
    end
  with chk_repr (ft : ftype) (tc : N) (r : repr) {struct r} : N :=
    match r with
    | RInline i => u32 (tc + 1 + chk_item ft i)                          (* SingleCalculateChecksum *)
    | RArray l => u32 (tc + items_len l + chk_items ft 1 l)               (* <Type>DataArray::CalculateChecksum *)
    end
  with chk_item (ft : ftype) (i : item) {struct i} : N :=
    match i with
    | IFix bs => chk_leaf ft bs
    | IStr s => match ft with TString => u32 (hash s) | _ => 0 end
    | IRaw b => match ft with TRaw => u32 (hash b) | _ => 0 end
    | IMsg m => match ft with TMessage => chk_msg m | _ => 0 end
    | IOpaque _ => 0
    end
  with chk_items (ft : ftype) (k : N) (l : items) {struct l} : N :=       (* sum of (i+1)*checksum(item i) *)
    match l with
    | INil => 0
    | ICons i t => k * chk_item ft i + chk_items ft (k + 1) t
    end.
End Checksum.

(* ================================================================== equality *)

(* Message::operator== recurses into sub-Messages with the operands in either order (the array-vs-inline
   case of MessageField::IsEqualTo calls rhs.IsEqualTo(this)), so it is not structurally recursive on one
   argument: like the parser it is defined level by level on fuel = nesting depth. *)
Section Equality.
  (* equality of two leaf values of a type (operator== of the C++ item type): a parameter, so that the
     theorems hold whatever it is (IEEE float comparison, where NaN <> NaN, included) *)
  Variable ieq : ftype -> bytes -> bytes -> bool.

  Section EqLevel.
    Variable inner : msg -> msg -> bool.      (* operator== on the next nesting level *)

    Definition item_eqb (ft : ftype) (i j : item) : bool :=
      match i, j with
      | IFix a, IFix b => ieq ft a b
      | IStr a, IStr b => bytes_eqb a b
      | IRaw a, IRaw b => bytes_eqb a b
      | IMsg m, IMsg n => inner m n
      | IOpaque a, IOpaque b => a =? b
      | _, _ => false
      end.

    Fixpoint items_eqb (ft : ftype) (l l2 : items) {struct l} : bool :=      (* AreContentsEqual *)
      match l, l2 with
      | INil, INil => true
      | ICons i t, ICons j t2 => item_eqb ft i j && items_eqb ft t t2
      | _, _ => false
      end.

    Definition items_hd (l : items) : option item := match l with ICons i _ => Some i | INil => None end.

    Definition field_eqb (tc : N) (r : repr) (tc2 : N) (r2 : repr) : bool :=   (* MessageField::IsEqualTo *)
      (tc =? tc2) && (repr_count r =? repr_count r2) &&
      ((repr_count r =? 0) ||
       match r, r2 with
       | RInline i, RInline j => item_eqb (ftype_of_tc tc) i j
       | RInline i, RArray l2 =>
           match items_hd l2 with Some j => item_eqb (ftype_of_tc tc) i j | None => false end
       | RArray l, RArray l2 => items_eqb (ftype_of_tc tc) l l2
       | RArray l, RInline j =>     (* rhs.IsEqualTo(this): the inline side's item is the left operand *)
           match items_hd l with Some i => item_eqb (ftype_of_tc tc) j i | None => false end
       end).

    Fixpoint fields_sub (fs rhs : fields) {struct fs} : bool :=                 (* FieldsAreSubsetOf(rhs, true) *)
      match fs with
      | FNil => true
      | FCons n tc r t =>
          match flookup n rhs with
          | None => false
          | Some (tc2, r2) => field_eqb tc r tc2 r2 && fields_sub t rhs
          end
      end.

    Definition msg_eqb_level (m n : msg) : bool :=
      match m, n with
      | Msg w1 f1, Msg w2 f2 => (w1 =? w2) && (fields_len f1 =? fields_len f2) && fields_sub f1 f2
      end.
  End EqLevel.

  Fixpoint msg_eqb (fuel : nat) (m n : msg) : bool :=
    match fuel with
    | O => false
    | S f => msg_eqb_level (msg_eqb f) m n
    end.
End Equality.

(* nesting depth: a Message without sub-Messages has depth 1 *)
Fixpoint depth_msg (m : msg) : nat :=
  match m with Msg _ fs => S (depth_fields fs) end
with depth_fields (fs : fields) : nat :=
  match fs with FNil => O | FCons _ _ r t => Nat.max (depth_repr r) (depth_fields t) end
with depth_repr (r : repr) : nat :=
  match r with RInline i => depth_item i | RArray l => depth_items l end
with depth_item (i : item) : nat :=
  match i with IMsg m => depth_msg m | _ => O end
with depth_items (l : items) : nat :=
  match l with INil => O | ICons i t => Nat.max (depth_item i) (depth_items t) end.

Definition msg_eq (ieq : ftype -> bytes -> bytes -> bool) (m n : msg) : bool :=
  msg_eqb ieq (S (Nat.max (depth_msg m) (depth_msg n))) m n.

(* ================================================================== well-formedness (domain of the theorems) *)

(* what every Message built through the public API satisfies (api_reachable_wf), plus the NUL-free
   requirement on strings (finding F9: a String with an embedded NUL is outside the class's contract) *)
Definition nul_free (s : bytes) : Prop := upto_nul s = None.

Fixpoint wf_msg (m : msg) : Prop :=
  match m with Msg w fs => w < two32 /\ NoDup (fnames fs) /\ wf_fields fs end
with wf_fields (fs : fields) : Prop :=
  match fs with
  | FNil => True
  | FCons n tc r t => nul_free n /\ tc < two32 /\ wf_repr (ftype_of_tc tc) r /\ wf_fields t
  end
with wf_repr (ft : ftype) (r : repr) {struct r} : Prop :=
  match r with
  | RInline i => wf_item ft i
  | RArray l => wf_items ft l
  end
with wf_item (ft : ftype) (i : item) {struct i} : Prop :=
  match ft with
  | TBool => match i with IFix bs => bs = [x00] \/ bs = [x01] | _ => False end
  | TDouble | TFloat | TInt64 | TInt32 | TInt16 | TInt8 | TPoint | TRect =>
      match i with IFix bs => len bs = cpp_size ft | _ => False end
  | TString => match i with IStr s => nul_free s | _ => False end
  | TMessage => match i with IMsg m => wf_msg m | _ => False end
  | TRaw => match i with IRaw _ => True | _ => False end
  | TPointer | TTag => True            (* never serialised *)
  end
with wf_items (ft : ftype) (l : items) {struct l} : Prop :=
  match l with
  | INil => True
  | ICons i t => wf_item ft i /\ wf_items ft t
  end.

(* the full domain: structurally well-formed and representable in uint32 sizes *)
Definition wf (m : msg) : Prop := wf_msg m /\ size_msg m < two32.

(* ================================================================== the C++ leaf equalities (for the correspondence run) *)

Definition f32_is_nan (v : N) : bool := ((v / 8388608) mod 256 =? 255) && negb (v mod 8388608 =? 0).
Definition f32_eqb (a b : bytes) : bool :=
  let x := le_dec a in let y := le_dec b in
  if f32_is_nan x || f32_is_nan y then false
  else if (x mod 2147483648 =? 0) && (y mod 2147483648 =? 0) then true       (* +0 == -0 *)
  else x =? y.
Definition f64_is_nan (v : N) : bool :=
  ((v / 4503599627370496) mod 2048 =? 2047) && negb (v mod 4503599627370496 =? 0).
Definition f64_eqb (a b : bytes) : bool :=
  let x := le_dec a in let y := le_dec b in
  if f64_is_nan x || f64_is_nan y then false
  else if (x mod 9223372036854775808 =? 0) && (y mod 9223372036854775808 =? 0) then true
  else x =? y.

(* operator== of the C++ item types on their wire bytes: integers and bools bitwise, float/double IEEE
   (NaN is unequal to everything including itself, the two zeros are equal), Point/Rect componentwise *)
Definition ieq_cpp (ft : ftype) (a b : bytes) : bool :=
  match ft with
  | TFloat => f32_eqb a b
  | TDouble => f64_eqb a b
  | TPoint => f32_eqb (nth_bytes 0 4 a) (nth_bytes 0 4 b) && f32_eqb (nth_bytes 4 4 a) (nth_bytes 4 4 b)
  | TRect => f32_eqb (nth_bytes 0 4 a) (nth_bytes 0 4 b) && f32_eqb (nth_bytes 4 4 a) (nth_bytes 4 4 b)
             && f32_eqb (nth_bytes 8 4 a) (nth_bytes 8 4 b) && f32_eqb (nth_bytes 12 4 a) (nth_bytes 12 4 b)
  | _ => bytes_eqb a b
  end.
