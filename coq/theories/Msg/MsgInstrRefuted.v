(* Msg/MsgInstrRefuted.v -- C02: the pinned code violates the property; one witness per finding.

   Each lemma runs the instrumented model with exactly one repair switched off (the other repairs on) on a concrete
   byte string and exhibits the violation: these are the inputs the check replayed on the real code before the fixes
   (corpus/C02.txt holds the same bytes as regression cases).  Proved by computation on the witness -- they are
   existence statements, not the general claim. *)
From Coq Require Import List NArith Bool Strings.Byte.
From Muscle Require Import Gen.Consts Msg.MsgDefs Msg.MsgInstr Msg.MsgInstrProofs.
Import ListNotations.
Local Open Scope N_scope.

Definition only_without (f1 f2 f14 f15 f16 : bool) : fixes := mkFx f1 f2 f14 f15 f16.

Fixpoint all_in_bounds (L : N) (tr : list (N * N)) : bool :=
  match tr with
  | [] => true
  | (o, k) :: t => (o + k <=? L) && all_in_bounds L t
  end.

Lemma all_in_bounds_sound L tr : Forall (in_bounds L) tr -> all_in_bounds L tr = true.
Proof.
  induction 1 as [|[o k] t H _ IH]; cbn [all_in_bounds]; [reflexivity|].
  unfold in_bounds in H; cbn [fst snd] in H. rewrite IH, Bool.andb_true_r. now apply N.leb_le.
Qed.

Definition msg_header (what n : N) : bytes := le32 c_CURRENT_PROTOCOL_VERSION ++ le32 what ++ le32 n.
Definition entry (name : bytes) (tc : N) (payload : bytes) : bytes :=
  le32 (len name + 1) ++ name ++ [x00] ++ le32 tc ++ le32 (len payload) ++ payload.

(* F1: a string field declaring 2^26 items in a 35-byte Message: the array is sized from the count (1 GiB) *)
Definition f1_witness : bytes :=
  msg_header 0 1 ++ entry [x73] c_B_STRING_TYPE (le32 67108864 ++ le32 1 ++ [x00]).
Lemma parse_alloc_linear_refuted_F1 :
  fits f1_witness /\ len f1_witness = 35 /\
  KA * len f1_witness < allocated (unflatten_i f1_witness (only_without false true true true true)).
Proof. vm_compute. repeat split; reflexivity. Qed.

(* F42: 100 nested Messages, each declaring (body/12) entries: the field table of every level is sized from its own window *)
Fixpoint nest_bomb (d : nat) : bytes :=
  match d with
  | O => msg_header 0 0
  | S d' =>
      let sub := nest_bomb d' in
      let body := 4 + 2 + 4 + 4 + 4 + len sub in
      msg_header (N.of_nat d') (body / 12) ++ le32 2 ++ [x61; x00] ++ le32 c_B_MESSAGE_TYPE ++ le32 (4 + len sub) ++ le32 (len sub) ++ sub
  end.
Lemma parse_alloc_linear_refuted_F42 :
  fits (nest_bomb 100) /\
  KA * len (nest_bomb 100) < allocated (unflatten_i (nest_bomb 100) (only_without true true false true true)).
Proof. vm_compute. split; reflexivity. Qed.
(* ... while the repaired code stays inside the bound on the same input (an instance of parse_alloc_linear) *)
Lemma nest_bomb_fixed_ok : allocated (unflatten_i (nest_bomb 100) fixed) <= KA * len (nest_bomb 100).
Proof. apply parse_alloc_linear_proof. vm_compute. reflexivity. Qed.

(* F43: a bool array holding the byte 0xff: the pinned code loads it into a C++ bool *)
Definition f43_witness : bytes := msg_header 0 1 ++ entry [x62] c_B_BOOL_TYPE [x01; xff].
Lemma parse_no_ub_refuted_F43 :
  fits f43_witness /\ 0 < ub_events (unflatten_i f43_witness (only_without true true true false true)).
Proof. vm_compute. split; reflexivity. Qed.

(* F44: a field of type B_POINTER_TYPE with no items: the pinned code reaches PointerDataArray's MCRASH *)
Definition f44_witness : bytes := msg_header 0 1 ++ entry [x70] c_B_POINTER_TYPE [].
Lemma parse_no_abort_refuted_F44 :
  fits f44_witness /\ len f44_witness = 26 /\
  result_of (unflatten_i f44_witness (only_without true true true true false)) = Crash.
Proof. vm_compute. repeat split; reflexivity. Qed.

(* F2: templated parser; template { "m" : one sub-Message { "i" : one int32 } }; the payload declares a 4096-byte
   sub-Message in a 16-byte buffer and the pinned code builds a reader of that size: a read at offset 16 *)
Definition f2_template : msg :=
  Msg 1 (FCons [x6d] c_B_MESSAGE_TYPE
           (RInline (IMsg (Msg 2 (FCons [x69] c_B_INT32_TYPE (RInline (IFix [x01; x00; x00; x00])) FNil)))) FNil).
Definition f2_witness : bytes := le32 1 ++ le32 1 ++ le32 4096 ++ le32 5.
Lemma tmpl_parse_in_bounds_refuted_F2 :
  fits f2_witness /\ len f2_witness = 16 /\
  all_in_bounds (len f2_witness) (accesses (tunflatten_i f2_witness (only_without true false true true true) f2_template)) = false /\
  In (16, 4) (accesses (tunflatten_i f2_witness (only_without true false true true true) f2_template)).
Proof. vm_compute. repeat split; try reflexivity. tauto. Qed.
(* the repaired code rejects the same payload without touching anything outside the buffer *)
Lemma f2_fixed_ok :
  result_of (tunflatten_i f2_witness fixed f2_template) = Err /\
  all_in_bounds (len f2_witness) (accesses (tunflatten_i f2_witness fixed f2_template)) = true.
Proof. vm_compute. split; reflexivity. Qed.
