(* Msg/MsgApi.v -- the public mutation API of muscle::Message as state transitions of the model:
     Add<Type>/AddData/AddMessage/AddPointer/AddTag, Prepend..., Replace...(okayToAdd), RemoveData,
     RemoveName, Rename, Clear, the what-code.
   The field-representation transitions are the code's: empty -> inline on the first item
   (SingleAddDataItem), inline -> array of two on the second (the array is created by CreateDataArray),
   an array never falls back to inline, the field disappears with its last item (Message::RemoveData).
   No proofs in this file. *)
From Coq Require Import List NArith Bool Strings.Byte.
From Muscle Require Import Gen.Consts Msg.MsgDefs Msg.MsgModel.
Import ListNotations.
Local Open Scope N_scope.

Inductive mop :=
| OAdd (prepend : bool) (name : bytes) (tc : N) (v : item)
| OReplace (okToAdd : bool) (name : bytes) (tc : N) (idx : N) (v : item)
| ORemoveData (name : bytes) (idx : N)
| ORemoveName (name : bytes)
| ORename (old new : bytes)
| OSetWhat (w : N)
| OClear
| OMoveToFront (name : bytes)          (* Message::MoveNameToFront *)
| OMoveToBack (name : bytes)           (* Message::MoveNameToBack *)
| OCopyName (old new : bytes).         (* Message::CopyName(old, *this, new) *)

(* MessageField::AddDataItem / PrependDataItem on the three states *)
Definition push (prepend : bool) (r : option repr) (v : item) : repr :=
  match r with
  | None => RInline v
  | Some (RInline a) => RArray (if prepend then ICons v (ICons a INil) else ICons a (ICons v INil))
  | Some (RArray l) => RArray (if prepend then ICons v l else items_snoc l v)
  end.

(* GetOrCreateMessageField(name, tc) followed by AddDataItem/PrependDataItem.
   tc = B_ANY_TYPE is not modelled (GetMessageField(name, B_ANY_TYPE) matches a field of any type and the
   typed item would be reinterpreted): reported as an error, never generated. *)
Definition api_add (prepend : bool) (name : bytes) (tc : N) (v : item) (m : msg) : msg * bool :=
  match m with
  | Msg w fs =>
      if tc =? c_B_ANY_TYPE then (m, false)
      else match flookup name fs with
           | Some (tc', r) =>
               if tc' =? tc then (Msg w (fset name tc (push prepend (Some r) v) fs), true)
               else (m, false)                                           (* B_TYPE_MISMATCH *)
           | None => (Msg w (fsnoc fs name tc (push prepend None v)), true)
           end
  end.

Definition api_replace (okToAdd : bool) (name : bytes) (tc : N) (idx : N) (v : item) (m : msg) : msg * bool :=
  match m with
  | Msg w fs =>
      if tc =? c_B_ANY_TYPE then (m, false)
      else
        let field := match flookup name fs with
                     | Some (tc', r) => if tc' =? tc then Some r else None
                     | None => None
                     end in
        let absent_or_beyond := match field with None => true | Some r => repr_count r <=? idx end in
        if okToAdd && absent_or_beyond then api_add false name tc v m
        else match field with
             | None => (m, false)                                        (* B_DATA_NOT_FOUND *)
             | Some (RInline _) =>
                 if idx =? 0 then (Msg w (fset name tc (RInline v) fs), true) else (m, false)
             | Some (RArray l) =>
                 if idx <? items_len l then (Msg w (fset name tc (RArray (items_replace idx v l)) fs), true)
                 else (m, false)
             end
  end.

(* Message::RemoveData: `ret = mf->RemoveDataItem(index); return mf->IsEmpty() ? RemoveName(name) : ret` *)
Definition api_remove_data (name : bytes) (idx : N) (m : msg) : msg * bool :=
  match m with
  | Msg w fs =>
      match flookup name fs with
      | None => (m, false)
      | Some (tc, RInline _) =>
          if idx =? 0 then (Msg w (fremove name fs), true) else (m, false)
      | Some (tc, RArray l) =>
          if idx <? items_len l then
            let l' := items_remove idx l in
            if items_len l' =? 0 then (Msg w (fremove name fs), true)
            else (Msg w (fset name tc (RArray l') fs), true)
          else if items_len l =? 0 then (Msg w (fremove name fs), true)
          else (m, false)
      end
  end.

Definition api_remove_name (name : bytes) (m : msg) : msg * bool :=
  match m with
  | Msg w fs => match flookup name fs with
                | None => (m, false)
                | Some _ => (Msg w (fremove name fs), true)
                end
  end.

(* Message::Rename: Remove(old, temp) then Put(new, temp) (Put overwrites an existing key in place) *)
Definition api_rename (old new : bytes) (m : msg) : msg * bool :=
  match m with
  | Msg w fs =>
      if bytes_eqb old new then (m, true)
      else match flookup old fs with
           | None => (m, false)
           | Some (tc, r) => (Msg w (fput new tc r (fremove old fs)), true)
           end
  end.

(* Hashtable::MoveToFront / MoveToBack: B_DATA_NOT_FOUND when the key is absent *)
Definition api_move (front : bool) (name : bytes) (m : msg) : msg * bool :=
  match m with
  | Msg w fs =>
      match flookup name fs with
      | None => (m, false)
      | Some (tc, r) =>
          (Msg w (if front then FCons name tc r (fremove name fs) else fsnoc (fremove name fs) name tc r), true)
      end
  end.

(* Message::CopyName with this Message as destination: nothing to do when the names are equal (even if
   the field does not exist); otherwise Put(new, copy of the field), which overwrites in place or appends *)
Definition api_copy_name (old new : bytes) (m : msg) : msg * bool :=
  match m with
  | Msg w fs =>
      if bytes_eqb old new then (m, true)
      else match flookup old fs with
           | None => (m, false)
           | Some (tc, r) => (Msg w (fput new tc r fs), true)
           end
  end.

Definition step (m : msg) (o : mop) : msg * bool :=
  match o with
  | OAdd p n tc v => api_add p n tc v m
  | OReplace a n tc i v => api_replace a n tc i v m
  | ORemoveData n i => api_remove_data n i m
  | ORemoveName n => api_remove_name n m
  | ORename a b => api_rename a b m
  | OSetWhat w => (Msg (u32 w) (msg_fields m), true)
  | OClear => (Msg (msg_what m) FNil, true)
  | OMoveToFront n => api_move true n m
  | OMoveToBack n => api_move false n m
  | OCopyName a b => api_copy_name a b m
  end.

Definition run (ops : list mop) (m : msg) : msg := fold_left (fun s o => fst (step s o)) ops m.

Definition empty_msg : msg := Msg 0 FNil.

(* an operation is well-typed when the item it carries fits the field type it names (what the typed C++
   entry points guarantee: AddInt32 passes 4 bytes and B_INT32_TYPE, AddString a String, ...) *)
Definition op_ok (o : mop) : Prop :=
  match o with
  | OAdd _ n tc v => nul_free n /\ tc < two32 /\ wf_item (ftype_of_tc tc) v
  | OReplace _ n tc _ v => nul_free n /\ tc < two32 /\ wf_item (ftype_of_tc tc) v
  | ORename _ new => nul_free new
  | OCopyName _ new => nul_free new
  | _ => True
  end.
