(* Msg/MsgReprProofs.v -- what the round trip preserves: content, bytes (re-serialisation), size, checksum. *)
From Coq Require Import List NArith Bool Strings.Byte Lia Arith.
From Muscle Require Import Gen.Consts Msg.MsgDefs Msg.MsgModel Msg.MsgBytesProofs Msg.MsgSizeProofs Msg.MsgRoundTrip.
Import ListNotations.
Local Open Scope N_scope.

(* ------------------------------------------------------------------ norm keeps the content *)

Lemma norm_content_all :
  (forall i, content_item (norm_item i) = content_item i) /\
  (forall l, content_items (norm_items l) = content_items l) /\
  (forall r, content_repr (norm_repr r) = content_repr r) /\
  (forall fs, content_fields (norm_fields fs) = content_fields fs) /\
  (forall m, content_msg (norm_msg m) = content_msg m).
Proof.
  apply msg_mutind.
  - reflexivity.
  - reflexivity.
  - reflexivity.
  - intros m IH. cbn [norm_item content_item]. rewrite IH. reflexivity.
  - reflexivity.
  - reflexivity.
  - intros i IHi t IHt. cbn [norm_items content_items]. rewrite IHi, IHt. reflexivity.
  - intros i IH. cbn [norm_repr content_repr]. rewrite IH. reflexivity.
  - intros l IH. destruct l as [|i [|j t]]; cbn [norm_repr content_repr].
    + reflexivity.
    + cbn [norm_items content_items] in IH. injection IH as IH. cbn [content_items]. rewrite IH. reflexivity.
    + rewrite IH. reflexivity.
  - reflexivity.
  - intros n tc r IHr t IHt. cbn [norm_fields content_fields]. rewrite IHr, IHt. reflexivity.
  - intros w fs IH. cbn [norm_msg content_msg]. rewrite IH. reflexivity.
Qed.

(* the parsed Message has the content of the original minus its non-flattenable fields *)
Theorem rt_content (m : msg) : content_msg (rt m) = content_msg (strip_msg m).
Proof. unfold rt. apply norm_content_all. Qed.

(* ------------------------------------------------------------------ norm keeps bytes and sizes *)

Lemma norm_flat_all :
  (forall i ft, ft_flattenable ft = true -> wf_item ft i ->
     size_single ft (norm_item i) = size_single ft i /\ size_elem ft (norm_item i) = size_elem ft i /\
     flat_single ft (norm_item i) = flat_single ft i /\ flat_elem ft (norm_item i) = flat_elem ft i) /\
  (forall l ft, ft_flattenable ft = true -> wf_items ft l ->
     size_items ft (norm_items l) = size_items ft l /\ items_len (norm_items l) = items_len l /\
     flat_items ft (norm_items l) = flat_items ft l /\
     all_items (fun i => size_single ft (norm_item i) = size_single ft i /\
                         flat_single ft (norm_item i) = flat_single ft i) l) /\
  (forall r ft, ft_flattenable ft = true -> wf_repr ft r ->
     size_repr ft (norm_repr r) = size_repr ft r /\ flat_repr ft (norm_repr r) = flat_repr ft r) /\
  (forall fs, wf_fields fs ->
     size_fields (norm_fields fs) = size_fields fs /\ count_flat (norm_fields fs) = count_flat fs /\
     flat_fields (norm_fields fs) = flat_fields fs) /\
  (forall m, wf_msg m -> size_msg (norm_msg m) = size_msg m /\ flat_msg (norm_msg m) = flat_msg m).
Proof.
  apply msg_mutind.
  - intros bs ft _ _. repeat split; reflexivity.
  - intros bs ft _ _. repeat split; reflexivity.
  - intros bs ft _ _. repeat split; reflexivity.
  - intros m IH ft Hf Hw. destruct ft; try discriminate Hf; cbn [wf_item] in Hw; try contradiction.
    destruct (IH Hw) as [Es Ef]. cbn [norm_item size_single size_elem flat_single flat_elem].
    rewrite Es, Ef. repeat split; reflexivity.
  - intros id ft _ _. repeat split; reflexivity.
  - intros ft _ _. repeat split; reflexivity.
  - intros i IHi t IHt ft Hf [Hi Ht].
    destruct (IHi ft Hf Hi) as (E0 & E1 & E0' & E2). destruct (IHt ft Hf Ht) as (E3 & E4 & E5 & E6).
    cbn [norm_items size_items items_len flat_items all_items]. rewrite E1, E2, E3, E4, E5. repeat split; assumption.
  - intros i IH ft Hf Hw. cbn [wf_repr] in Hw. destruct (IH ft Hf Hw) as (E1 & _ & E2 & _).
    cbn [norm_repr size_repr flat_repr]. split; assumption.
  - intros l IH ft Hf Hw. cbn [wf_repr] in Hw. destruct (IH ft Hf Hw) as (E1 & E2 & E3 & E4).
    destruct l as [|i [|j t]].
    + split; reflexivity.
    + (* one item: norm turns the array into an inline item; both writers produce the same bytes *)
      destruct Hw as [Hi _]. destruct E4 as [[E5 E6] _].
      cbn [norm_repr].
      change (size_repr ft (RInline (norm_item i))) with (size_single ft (norm_item i)).
      change (flat_repr ft (RInline (norm_item i))) with (flat_single ft (norm_item i)).
      rewrite E5, E6, size_repr_singleton, flat_repr_singleton by assumption. split; reflexivity.
    + cbn [norm_repr]. set (l := ICons i (ICons j t)) in *.
      destruct ft; try discriminate Hf; cbn [size_repr flat_repr]; rewrite ?E1, ?E2, ?E3; split; reflexivity.
  - intros _. repeat split; reflexivity.
  - intros n tc r IHr t IHt (Hn & Htc & Hr & Ht). destruct (IHt Ht) as (E1 & E2 & E3).
    cbn [norm_fields size_fields count_flat flat_fields]. rewrite E1, E2, E3.
    destruct (flattenable tc) eqn:Fl; [|repeat split; reflexivity].
    destruct (IHr _ Fl Hr) as [E4 E5]. rewrite E4, E5. repeat split; reflexivity.
  - intros w fs IH (Hw & Hnd & Hfs). destruct (IH Hfs) as (E1 & E2 & E3).
    cbn [norm_msg size_msg flat_msg]. rewrite E1, E2, E3. split; reflexivity.
Qed.

(* re-serialising the parsed Message reproduces the original bytes, and its advertised size is the same *)
Theorem reflatten (m : msg) : wf_msg m -> flatten (rt m) = flatten m.
Proof.
  intro Hw. unfold flatten, rt.
  destruct (proj2 (proj2 (proj2 (proj2 strip_wf_all))) m Hw) as [Hw' _].
  rewrite (proj2 (proj2 (proj2 (proj2 (proj2 norm_flat_all))) (strip_msg m) Hw')).
  apply strip_flat_all.
Qed.

Theorem resize (m : msg) : wf_msg m -> flattened_size (rt m) = flattened_size m.
Proof.
  intro Hw. unfold flattened_size, rt.
  destruct (proj2 (proj2 (proj2 (proj2 strip_wf_all))) m Hw) as [Hw' _].
  rewrite (proj1 (proj2 (proj2 (proj2 (proj2 norm_flat_all))) (strip_msg m) Hw')).
  apply strip_size_all.
Qed.

(* ------------------------------------------------------------------ checksum *)

Section ChecksumProofs.
  Variable hash : bytes -> N.

  (* unfolding equations of the mutual checksum functions (cbn does not refold them) *)
  Lemma chk_repr_inline cnf ft tc i : chk_repr hash cnf ft tc (RInline i) = u32 (tc + 1 + chk_item hash cnf ft i).
  Proof. reflexivity. Qed.
  Lemma chk_repr_array cnf ft tc l : chk_repr hash cnf ft tc (RArray l) = u32 (tc + items_len l + chk_items hash cnf ft 1 l).
  Proof. reflexivity. Qed.
  Lemma chk_items_cons cnf ft k i t : chk_items hash cnf ft k (ICons i t) = k * chk_item hash cnf ft i + chk_items hash cnf ft (k + 1) t.
  Proof. reflexivity. Qed.
  Lemma chk_items_nil cnf ft k : chk_items hash cnf ft k INil = 0.
  Proof. reflexivity. Qed.
  Lemma chk_fields_cons cnf n tc r t :
    chk_fields hash cnf (FCons n tc r t) =
    (if cnf || flattenable tc then
       u32 (hash n) + (if u32 (hash n) =? 0 then 1 else 0) + u32 (hash n) * chk_repr hash cnf (ftype_of_tc tc) tc r
     else 0) + chk_fields hash cnf t.
  Proof. reflexivity. Qed.
  Lemma chk_msg_eq cnf w fs : chk_msg hash cnf (Msg w fs) = u32 (w + chk_fields hash cnf fs).
  Proof. reflexivity. Qed.

  Lemma chk_norm_all (cnf : bool) :
    (forall i ft, chk_item hash cnf ft (norm_item i) = chk_item hash cnf ft i) /\
    (forall l ft k, chk_items hash cnf ft k (norm_items l) = chk_items hash cnf ft k l /\ items_len (norm_items l) = items_len l) /\
    (forall r ft tc, chk_repr hash cnf ft tc (norm_repr r) = chk_repr hash cnf ft tc r) /\
    (forall fs, chk_fields hash cnf (norm_fields fs) = chk_fields hash cnf fs) /\
    (forall m, chk_msg hash cnf (norm_msg m) = chk_msg hash cnf m).
  Proof.
    apply msg_mutind.
    - reflexivity.
    - reflexivity.
    - reflexivity.
    - intros m IH ft. destruct ft; try reflexivity.
      change (chk_msg hash cnf (norm_msg m) = chk_msg hash cnf m). exact IH.
    - reflexivity.
    - intros ft k. split; reflexivity.
    - intros i IHi t IHt ft k. cbn [norm_items items_len]. rewrite !chk_items_cons, IHi.
      destruct (IHt ft (k + 1)) as [-> ->]. split; reflexivity.
    - intros i IH ft tc. cbn [norm_repr]. rewrite !chk_repr_inline, IH. reflexivity.
    - intros l IH ft tc. destruct l as [|i [|j t]].
      + reflexivity.
      + (* inline form (tc + 1 + c) vs array form (tc + 1 + 1*c) *)
        destruct (IH ft 1) as [E _]. cbn [norm_items] in E. rewrite !chk_items_cons, !chk_items_nil in E.
        cbn [norm_repr]. rewrite chk_repr_inline, chk_repr_array, chk_items_cons, chk_items_nil.
        cbn [items_len]. f_equal. lia.
      + cbn [norm_repr]. rewrite !chk_repr_array. destruct (IH ft 1) as [-> ->]. reflexivity.
    - reflexivity.
    - intros n tc r IHr t IHt. cbn [norm_fields]. rewrite !chk_fields_cons, IHr, IHt. reflexivity.
    - intros w fs IH. cbn [norm_msg]. rewrite !chk_msg_eq, IH. reflexivity.
  Qed.

  (* with countNonFlattenableFields = false (the default) the fields that are not written do not count *)
  Lemma chk_strip_all :
    (forall i ft, chk_item hash false ft (strip_item i) = chk_item hash false ft i) /\
    (forall l ft k, chk_items hash false ft k (strip_items l) = chk_items hash false ft k l /\ items_len (strip_items l) = items_len l) /\
    (forall r ft tc, chk_repr hash false ft tc (strip_repr r) = chk_repr hash false ft tc r) /\
    (forall fs, chk_fields hash false (strip_fields fs) = chk_fields hash false fs) /\
    (forall m, chk_msg hash false (strip_msg m) = chk_msg hash false m).
  Proof.
    apply msg_mutind.
    - reflexivity.
    - reflexivity.
    - reflexivity.
    - intros m IH ft. destruct ft; try reflexivity.
      change (chk_msg hash false (strip_msg m) = chk_msg hash false m). exact IH.
    - reflexivity.
    - intros ft k. split; reflexivity.
    - intros i IHi t IHt ft k. cbn [strip_items items_len]. rewrite !chk_items_cons, IHi.
      destruct (IHt ft (k + 1)) as [-> ->]. split; reflexivity.
    - intros i IH ft tc. cbn [strip_repr]. rewrite !chk_repr_inline, IH. reflexivity.
    - intros l IH ft tc. cbn [strip_repr]. rewrite !chk_repr_array. destruct (IH ft 1) as [-> ->]. reflexivity.
    - reflexivity.
    - intros n tc r IHr t IHt. cbn [strip_fields].
      destruct (flattenable tc) eqn:Fl; rewrite !chk_fields_cons, ?Fl; cbn [orb]; rewrite ?IHr, IHt; reflexivity.
    - intros w fs IH. cbn [strip_msg]. rewrite !chk_msg_eq, IH. reflexivity.
  Qed.

  Theorem checksum_roundtrip (m : msg) : chk_msg hash false (rt m) = chk_msg hash false m.
  Proof. unfold rt. rewrite (proj2 (proj2 (proj2 (proj2 (chk_norm_all false))))). apply chk_strip_all. Qed.

  Theorem checksum_roundtrip_all (m : msg) : chk_msg hash true (rt m) = chk_msg hash true (strip_msg m).
  Proof. unfold rt. apply chk_norm_all. Qed.
End ChecksumProofs.
