(* Msg/MsgEqProofs.v -- Message equality (operator==) is unchanged by the round trip.

   The model of operator== is parameterised by the equality of leaf values [ieq]; the only thing assumed
   about it is symmetry (ieq a b = ieq b a), which every C++ item type's operator== has (IEEE comparison
   included: NaN makes it irreflexive, not asymmetric).  Symmetry is needed because the array-vs-inline case
   of MessageField::IsEqualTo calls rhs.IsEqualTo(this), i.e. compares with the operands swapped. *)
From Coq Require Import List NArith Bool Strings.Byte Lia Arith.
From Muscle Require Import Gen.Consts Msg.MsgDefs Msg.MsgModel Msg.MsgBytesProofs Msg.MsgSizeProofs
  Msg.MsgRoundTrip Msg.MsgApiProofs.
Import ListNotations.
Local Open Scope N_scope.

(* field names unique at every nesting level *)
Fixpoint nd_msg (m : msg) : Prop :=
  match m with Msg _ fs => NoDup (fnames fs) /\ nd_fields fs end
with nd_fields (fs : fields) : Prop :=
  match fs with FNil => True | FCons _ _ r t => nd_repr r /\ nd_fields t end
with nd_repr (r : repr) : Prop :=
  match r with RInline i => nd_item i | RArray l => nd_items l end
with nd_item (i : item) : Prop :=
  match i with IMsg m => nd_msg m | _ => True end
with nd_items (l : items) : Prop :=
  match l with INil => True | ICons i t => nd_item i /\ nd_items t end.

Lemma wf_fo_nd_all :
  (forall i ft, ft_flattenable ft = true -> wf_item ft i -> fo_item i -> nd_item i) /\
  (forall l ft, ft_flattenable ft = true -> wf_items ft l -> fo_items l -> nd_items l) /\
  (forall r ft, ft_flattenable ft = true -> wf_repr ft r -> fo_repr r -> nd_repr r) /\
  (forall fs, wf_fields fs -> fo_fields fs -> nd_fields fs) /\
  (forall m, wf_msg m -> fo_msg m -> nd_msg m).
Proof.
  apply msg_mutind.
  - intros; exact I.
  - intros; exact I.
  - intros; exact I.
  - intros m IH ft Hf Hw Hfo. destruct ft; try discriminate Hf; cbn [wf_item] in Hw; try contradiction.
    cbn [nd_item]. apply IH; assumption.
  - intros; exact I.
  - intros; exact I.
  - intros i IHi t IHt ft Hf [Hi Ht] [Fi Ft]. cbn [nd_items]. split; [apply (IHi ft)|apply (IHt ft)]; assumption.
  - intros i IH ft Hf Hw Hfo. cbn [nd_repr]. apply (IH ft); assumption.
  - intros l IH ft Hf Hw Hfo. cbn [nd_repr]. apply (IH ft); assumption.
  - intros; exact I.
  - intros n tc r IHr t IHt (Hn & Htc & Hr & Ht) (Fl & Fr & Ft). cbn [nd_fields].
    split; [apply (IHr _ Fl Hr Fr)|apply IHt; assumption].
  - intros w fs IH (Hw & Hnd & Hfs) Hfo. cbn [nd_msg]. split; [exact Hnd|apply IH; assumption].
Qed.

Lemma nd_norm_all :
  (forall i, nd_item i -> nd_item (norm_item i)) /\
  (forall l, nd_items l -> nd_items (norm_items l)) /\
  (forall r, nd_repr r -> nd_repr (norm_repr r)) /\
  (forall fs, nd_fields fs -> nd_fields (norm_fields fs) /\ fnames (norm_fields fs) = fnames fs) /\
  (forall m, nd_msg m -> nd_msg (norm_msg m)).
Proof.
  apply msg_mutind.
  - intros; exact I.
  - intros; exact I.
  - intros; exact I.
  - intros m IH H. cbn [norm_item nd_item] in *. apply IH. exact H.
  - intros; exact I.
  - intros; exact I.
  - intros i IHi t IHt [Hi Ht]. cbn [norm_items nd_items]. auto.
  - intros i IH H. cbn [norm_repr nd_repr] in *. auto.
  - intros l IH H. cbn [nd_repr] in H. specialize (IH H).
    destruct l as [|i [|j t]]; cbn [norm_repr nd_repr]; try exact IH.
    cbn [norm_items nd_items] in IH. apply IH.
  - intros _. split; [exact I|reflexivity].
  - intros n tc r IHr t IHt [Hr Ht]. destruct (IHt Ht) as [H1 H2].
    cbn [norm_fields nd_fields fnames]. rewrite H2. auto.
  - intros w fs IH [Hnd Hfs]. destruct (IH Hfs) as [H1 H2]. cbn [norm_msg nd_msg]. rewrite H2. auto.
Qed.

(* ------------------------------------------------------------------ field-table facts used below *)

Lemma flookup_norm (n : bytes) (fs : fields) :
  flookup n (norm_fields fs) = match flookup n fs with Some (tc, r) => Some (tc, norm_repr r) | None => None end.
Proof.
  induction fs as [|k tc r t IH]; cbn [norm_fields flookup]; [reflexivity|].
  destruct (bytes_eqb n k); [reflexivity|exact IH].
Qed.

Lemma fields_len_norm (fs : fields) : fields_len (norm_fields fs) = fields_len fs.
Proof. induction fs as [|k tc r t IH]; cbn [norm_fields fields_len]; [reflexivity|]. rewrite IH. reflexivity. Qed.

Lemma flookup_nd (n : bytes) (fs : fields) tc r : flookup n fs = Some (tc, r) -> nd_fields fs -> nd_repr r.
Proof.
  induction fs as [|k tc' r' t IH]; cbn [flookup nd_fields]; [discriminate|].
  intros H [Hr Ht]. destruct (bytes_eqb n k); [|exact (IH H Ht)]. injection H as <- <-. exact Hr.
Qed.

Lemma flookup_some_in (n : bytes) (fs : fields) tc r : flookup n fs = Some (tc, r) -> In n (fnames fs).
Proof.
  induction fs as [|k tc' r' t IH]; cbn [flookup fnames In]; [discriminate|].
  destruct (bytes_eqb n k) eqn:E; [apply bytes_eqb_eq in E; auto|auto].
Qed.

Lemma fields_len_length (fs : fields) : fields_len fs = N.of_nat (length (fnames fs)).
Proof. induction fs as [|k tc r t IH]; cbn [fields_len fnames length]; [reflexivity|]. rewrite IH. lia. Qed.

Definition repr_items (r : repr) : items := match r with RInline i => ICons i INil | RArray l => l end.

Lemma repr_items_norm (r : repr) : repr_items (norm_repr r) = norm_items (repr_items r).
Proof. destruct r as [i|[|i [|j t]]]; reflexivity. Qed.

Lemma repr_count_items (r : repr) : repr_count r = items_len (repr_items r).
Proof. destruct r; reflexivity. Qed.

Lemma nd_repr_items (r : repr) : nd_repr r -> nd_items (repr_items r).
Proof. destruct r; cbn [nd_repr repr_items nd_items]; auto. Qed.

Section EqProofs.
  Variable ieq : ftype -> bytes -> bytes -> bool.
  Hypothesis ieq_sym : forall ft a b, ieq ft a b = ieq ft b a.

  Section Level.
    Variable inner : msg -> msg -> bool.
    Hypothesis inner_sym : forall a b, nd_msg a -> nd_msg b -> inner a b = inner b a.

    Lemma item_eqb_sym ft i j : nd_item i -> nd_item j -> item_eqb ieq inner ft i j = item_eqb ieq inner ft j i.
    Proof.
      intros Hi Hj. destruct i, j; cbn [item_eqb]; try reflexivity;
        auto using ieq_sym, bytes_eqb_sym, N.eqb_sym.
    Qed.

    Lemma items_eqb_sym ft l l2 : nd_items l -> nd_items l2 -> items_eqb ieq inner ft l l2 = items_eqb ieq inner ft l2 l.
    Proof.
      revert l2; induction l as [|i t IH]; intros [|j t2]; cbn [items_eqb nd_items]; try reflexivity.
      intros [Hi Ht] [Hj Ht2]. rewrite (item_eqb_sym ft i j Hi Hj), (IH t2 Ht Ht2). reflexivity.
    Qed.

    Lemma items_eqb_len ft l l2 : items_eqb ieq inner ft l l2 = true -> items_len l = items_len l2.
    Proof.
      revert l2; induction l as [|i t IH]; intros [|j t2]; cbn [items_eqb items_len]; try discriminate; [reflexivity|].
      intro H. apply andb_true_iff in H. destruct H as [_ H]. rewrite (IH t2 H). reflexivity.
    Qed.

    (* representation independence of field equality: only the type code and the item lists matter *)
    Lemma field_eqb_canon tc r tc2 r2 :
      nd_repr r -> nd_repr r2 ->
      field_eqb ieq inner tc r tc2 r2 =
      (tc =? tc2) && items_eqb ieq inner (ftype_of_tc tc) (repr_items r) (repr_items r2).
    Proof.
      intros Hr Hr2. unfold field_eqb. destruct (tc =? tc2); [|reflexivity]. cbn [andb].
      destruct r as [i|l], r2 as [j|l2]; cbn [repr_count repr_items nd_repr] in *.
      - cbn [items_eqb N.eqb Pos.eqb andb orb]. rewrite andb_true_r. reflexivity.
      - destruct l2 as [|j [|k t]]; cbn [items_len items_hd items_eqb]; try reflexivity.
        + cbn [N.succ N.eqb Pos.eqb Pos.succ andb orb]. rewrite andb_true_r. reflexivity.
        + rewrite andb_false_r.
          destruct (1 =? _) eqn:E; [apply N.eqb_eq in E; lia|reflexivity].
      - destruct l as [|i [|k t]]; cbn [items_len items_hd items_eqb]; try reflexivity.
        + cbn [N.succ N.eqb Pos.eqb Pos.succ andb orb]. rewrite andb_true_r.
          destruct Hr as [Hi _]. apply item_eqb_sym; assumption.
        + rewrite andb_false_r.
          destruct (_ =? 1) eqn:E; [apply N.eqb_eq in E; lia|reflexivity].
      - destruct (items_len l =? items_len l2) eqn:E.
        + cbn [andb]. destruct (items_len l =? 0) eqn:E0; [|reflexivity].
          apply N.eqb_eq in E0. apply N.eqb_eq in E. rewrite E0 in E.
          destruct l; [|cbn [items_len] in E0; lia]. destruct l2; [reflexivity|cbn [items_len] in E; lia].
        + cbn [andb]. destruct (items_eqb ieq inner (ftype_of_tc tc) l l2) eqn:E2; [|reflexivity].
          apply items_eqb_len in E2. apply N.eqb_neq in E. contradiction.
    Qed.

    Lemma field_eqb_sym tc r tc2 r2 :
      nd_repr r -> nd_repr r2 -> field_eqb ieq inner tc r tc2 r2 = field_eqb ieq inner tc2 r2 tc r.
    Proof.
      intros Hr Hr2. rewrite !field_eqb_canon by assumption. rewrite (N.eqb_sym tc tc2).
      destruct (tc2 =? tc) eqn:E; [|reflexivity]. apply N.eqb_eq in E. subst tc2.
      rewrite items_eqb_sym by auto using nd_repr_items. reflexivity.
    Qed.

    (* FieldsAreSubsetOf, as a statement about lookups *)
    Lemma fields_sub_true (f1 f2 : fields) :
      NoDup (fnames f1) ->
      (fields_sub ieq inner f1 f2 = true <->
       forall n tc r, flookup n f1 = Some (tc, r) ->
         exists tc2 r2, flookup n f2 = Some (tc2, r2) /\ field_eqb ieq inner tc r tc2 r2 = true).
    Proof.
      induction f1 as [|k tc r t IH]; intro Hnd.
      - cbn [fields_sub flookup]. split; [discriminate|reflexivity].
      - cbn [fnames] in Hnd. inversion Hnd as [|? ? Hk Ht]; subst. specialize (IH Ht).
        cbn [fields_sub]. split.
        + intros H n tc' r' Hl. cbn [flookup] in Hl.
          destruct (flookup k f2) as [[tc2 r2]|] eqn:E2; [|discriminate].
          apply andb_true_iff in H. destruct H as [H1 H2].
          destruct (bytes_eqb n k) eqn:E.
          * apply bytes_eqb_eq in E. subst n. injection Hl as <- <-. eauto.
          * apply (proj1 IH H2). exact Hl.
        + intro H.
          destruct (H k tc r) as (tc2 & r2 & E2 & E3); [cbn [flookup]; rewrite bytes_eqb_refl; reflexivity|].
          rewrite E2, E3. cbn [andb]. apply (proj2 IH).
          intros n tc' r' Hl. apply H. cbn [flookup].
          destruct (bytes_eqb n k) eqn:E; [|exact Hl].
          apply bytes_eqb_eq in E. subst n. exfalso. apply Hk. exact (flookup_some_in _ _ _ _ Hl).
    Qed.

    Lemma fields_sub_swap (f1 f2 : fields) :
      NoDup (fnames f1) -> NoDup (fnames f2) -> nd_fields f1 -> nd_fields f2 ->
      fields_len f1 = fields_len f2 ->
      fields_sub ieq inner f1 f2 = true -> fields_sub ieq inner f2 f1 = true.
    Proof.
      intros N1 N2 D1 D2 Hlen H.
      apply (fields_sub_true f2 f1 N2). intros k tc2 r2 Hl2.
      pose proof (proj1 (fields_sub_true f1 f2 N1) H) as Hsub.
      (* names of f1 are among the names of f2; equal lengths and no duplicates give the converse *)
      assert (Hincl : incl (fnames f1) (fnames f2)).
      { intros n Hn. destruct (flookup n f1) as [[tc r]|] eqn:E; [|exfalso; exact (flookup_in n f1 Hn E)].
        destruct (Hsub n tc r E) as (tc' & r' & E' & _). exact (flookup_some_in _ _ _ _ E'). }
      assert (Hincl2 : incl (fnames f2) (fnames f1)).
      { apply NoDup_length_incl; [exact N1| |exact Hincl].
        rewrite !fields_len_length in Hlen. lia. }
      assert (Hk : In k (fnames f1)) by (apply Hincl2; exact (flookup_some_in _ _ _ _ Hl2)).
      destruct (flookup k f1) as [[tc r]|] eqn:E1; [|exfalso; exact (flookup_in k f1 Hk E1)].
      destruct (Hsub k tc r E1) as (tc' & r' & E' & Heq).
      rewrite Hl2 in E'. injection E' as <- <-.
      exists tc, r. split; [reflexivity|].
      rewrite field_eqb_sym; [exact Heq| |]; eauto using flookup_nd.
    Qed.

    Lemma msg_eqb_level_sym (m n : msg) :
      nd_msg m -> nd_msg n -> msg_eqb_level ieq inner m n = msg_eqb_level ieq inner n m.
    Proof.
      destruct m as [w1 f1], n as [w2 f2]. intros [N1 D1] [N2 D2]. cbn [msg_eqb_level].
      rewrite (N.eqb_sym w1 w2), (N.eqb_sym (fields_len f1) (fields_len f2)).
      destruct (w2 =? w1); [|reflexivity]. cbn [andb].
      destruct (fields_len f2 =? fields_len f1) eqn:El; [|reflexivity]. cbn [andb].
      apply N.eqb_eq in El.
      destruct (fields_sub ieq inner f1 f2) eqn:E1, (fields_sub ieq inner f2 f1) eqn:E2; try reflexivity.
      - rewrite (fields_sub_swap f1 f2) in E2; auto.
      - rewrite (fields_sub_swap f2 f1) in E1; auto.
    Qed.

    (* ---- invariance under norm, given it for the next level *)
    Hypothesis inner_norm : forall a b, nd_msg a -> nd_msg b -> inner (norm_msg a) (norm_msg b) = inner a b.

    Lemma item_eqb_norm ft i j : nd_item i -> nd_item j ->
      item_eqb ieq inner ft (norm_item i) (norm_item j) = item_eqb ieq inner ft i j.
    Proof. intros Hi Hj. destruct i, j; cbn [norm_item item_eqb]; try reflexivity. apply inner_norm; assumption. Qed.

    Lemma items_eqb_norm ft l l2 : nd_items l -> nd_items l2 ->
      items_eqb ieq inner ft (norm_items l) (norm_items l2) = items_eqb ieq inner ft l l2.
    Proof.
      revert l2; induction l as [|i t IH]; intros [|j t2]; cbn [norm_items items_eqb nd_items]; try reflexivity.
      intros [Hi Ht] [Hj Ht2]. rewrite item_eqb_norm, IH by assumption. reflexivity.
    Qed.

    Lemma field_eqb_norm tc r tc2 r2 : nd_repr r -> nd_repr r2 ->
      field_eqb ieq inner tc (norm_repr r) tc2 (norm_repr r2) = field_eqb ieq inner tc r tc2 r2.
    Proof.
      intros Hr Hr2.
      rewrite !field_eqb_canon by (try assumption; apply nd_norm_all; assumption).
      rewrite !repr_items_norm, items_eqb_norm by auto using nd_repr_items. reflexivity.
    Qed.

    Lemma fields_sub_norm f1 f2 : nd_fields f1 -> nd_fields f2 ->
      fields_sub ieq inner (norm_fields f1) (norm_fields f2) = fields_sub ieq inner f1 f2.
    Proof.
      intros D1 D2. induction f1 as [|k tc r t IH]; cbn [norm_fields fields_sub]; [reflexivity|].
      destruct D1 as [Hr Ht]. rewrite flookup_norm.
      destruct (flookup k f2) as [[tc2 r2]|] eqn:E; [|reflexivity].
      rewrite field_eqb_norm, (IH Ht); [reflexivity|exact Hr|]. exact (flookup_nd _ _ _ _ E D2).
    Qed.

    Lemma msg_eqb_level_norm (m n : msg) : nd_msg m -> nd_msg n ->
      msg_eqb_level ieq inner (norm_msg m) (norm_msg n) = msg_eqb_level ieq inner m n.
    Proof.
      destruct m as [w1 f1], n as [w2 f2]. intros [N1 D1] [N2 D2]. cbn [norm_msg msg_eqb_level].
      rewrite !fields_len_norm, fields_sub_norm by assumption. reflexivity.
    Qed.
  End Level.

  Theorem msg_eqb_sym (fuel : nat) (m n : msg) : nd_msg m -> nd_msg n -> msg_eqb ieq fuel m n = msg_eqb ieq fuel n m.
  Proof.
    revert m n; induction fuel as [|f IH]; intros m n Hm Hn; cbn [msg_eqb]; [reflexivity|].
    apply msg_eqb_level_sym; assumption.
  Qed.

  Theorem msg_eqb_norm (fuel : nat) (m n : msg) : nd_msg m -> nd_msg n ->
    msg_eqb ieq fuel (norm_msg m) (norm_msg n) = msg_eqb ieq fuel m n.
  Proof.
    revert m n; induction fuel as [|f IH]; intros m n Hm Hn; cbn [msg_eqb]; [reflexivity|].
    apply msg_eqb_level_norm; auto using msg_eqb_sym.
  Qed.

  (* equality of two Messages is unchanged by the trip (for every fuel, hence also for the adequate one) *)
  Theorem eq_roundtrip (fuel : nat) (m n : msg) : wf_msg m -> wf_msg n ->
    msg_eqb ieq fuel (rt m) (rt n) = msg_eqb ieq fuel (strip_msg m) (strip_msg n).
  Proof.
    intros Hm Hn. unfold rt.
    destruct (proj2 (proj2 (proj2 (proj2 strip_wf_all))) m Hm) as [Wm Fm].
    destruct (proj2 (proj2 (proj2 (proj2 strip_wf_all))) n Hn) as [Wn Fn].
    apply msg_eqb_norm; apply wf_fo_nd_all; assumption.
  Qed.
End EqProofs.

(* ------------------------------------------------------------------ fuel adequacy of msg_eqb *)

Lemma flookup_depth (n : bytes) (fs : fields) tc r : flookup n fs = Some (tc, r) -> (depth_repr r <= depth_fields fs)%nat.
Proof.
  induction fs as [|k tc' r' t IH]; cbn [flookup depth_fields]; [discriminate|].
  destruct (bytes_eqb n k); intro H; [injection H as <- <-; lia|]. specialize (IH H). lia.
Qed.

Section EqFuel.
  Variable ieq : ftype -> bytes -> bytes -> bool.

  Section Level.
    Variables inner inner' : msg -> msg -> bool.
    Variable d : nat.
    Hypothesis agree : forall a b, (depth_msg a <= d \/ depth_msg b <= d)%nat -> inner a b = inner' a b.

    Lemma item_eqb_agree ft i j : (depth_item i <= d \/ depth_item j <= d)%nat ->
      item_eqb ieq inner ft i j = item_eqb ieq inner' ft i j.
    Proof. intro H. destruct i, j; cbn [item_eqb]; try reflexivity. apply agree. exact H. Qed.

    Lemma items_eqb_agree ft l l2 : (depth_items l <= d \/ depth_items l2 <= d)%nat ->
      items_eqb ieq inner ft l l2 = items_eqb ieq inner' ft l l2.
    Proof.
      revert l2; induction l as [|i t IH]; intros [|j t2] H; cbn [items_eqb]; try reflexivity.
      cbn [depth_items] in H. rewrite item_eqb_agree, IH by lia. reflexivity.
    Qed.

    Lemma field_eqb_agree tc r tc2 r2 : (depth_repr r <= d \/ depth_repr r2 <= d)%nat ->
      field_eqb ieq inner tc r tc2 r2 = field_eqb ieq inner' tc r tc2 r2.
    Proof.
      intro H. unfold field_eqb. f_equal. f_equal.
      destruct r as [i|l], r2 as [j|l2]; cbn [depth_repr] in H.
      - apply item_eqb_agree. exact H.
      - destruct l2 as [|j t]; cbn [items_hd]; [reflexivity|]. cbn [depth_items] in H. apply item_eqb_agree. lia.
      - destruct l as [|i t]; cbn [items_hd]; [reflexivity|]. cbn [depth_items] in H. apply item_eqb_agree. lia.
      - apply items_eqb_agree. exact H.
    Qed.

    Lemma fields_sub_agree f1 f2 : (depth_fields f1 <= d \/ depth_fields f2 <= d)%nat ->
      fields_sub ieq inner f1 f2 = fields_sub ieq inner' f1 f2.
    Proof.
      induction f1 as [|k tc r t IH]; intro H; cbn [fields_sub]; [reflexivity|].
      cbn [depth_fields] in H.
      destruct (flookup k f2) as [[tc2 r2]|] eqn:E; [|reflexivity].
      pose proof (flookup_depth _ _ _ _ E).
      rewrite field_eqb_agree, IH by lia. reflexivity.
    Qed.
  End Level.

  Lemma msg_eqb_fuel_step (fuel : nat) (m n : msg) :
    (depth_msg m <= fuel \/ depth_msg n <= fuel)%nat -> msg_eqb ieq fuel m n = msg_eqb ieq (S fuel) m n.
  Proof.
    revert m n; induction fuel as [|f IH]; intros [w1 f1] [w2 f2] H.
    - cbn [depth_msg] in H. lia.
    - cbn [depth_msg] in H. change (msg_eqb_level ieq (msg_eqb ieq f) (Msg w1 f1) (Msg w2 f2)
                                   = msg_eqb_level ieq (msg_eqb ieq (S f)) (Msg w1 f1) (Msg w2 f2)).
      cbn [msg_eqb_level]. f_equal. apply (fields_sub_agree _ _ f IH). lia.
  Qed.

  (* with fuel above the smaller nesting depth the result no longer depends on the fuel *)
  Theorem msg_eqb_fuel_adequate (fuel k : nat) (m n : msg) :
    (depth_msg m <= fuel \/ depth_msg n <= fuel)%nat -> msg_eqb ieq (fuel + k) m n = msg_eqb ieq fuel m n.
  Proof.
    intro H. induction k as [|k IH]; [rewrite Nat.add_0_r; reflexivity|].
    rewrite Nat.add_succ_r, <- msg_eqb_fuel_step by lia. exact IH.
  Qed.
End EqFuel.

Lemma depth_norm_all :
  (forall i, depth_item (norm_item i) = depth_item i) /\
  (forall l, depth_items (norm_items l) = depth_items l) /\
  (forall r, depth_repr (norm_repr r) = depth_repr r) /\
  (forall fs, depth_fields (norm_fields fs) = depth_fields fs) /\
  (forall m, depth_msg (norm_msg m) = depth_msg m).
Proof.
  apply msg_mutind.
  - reflexivity.
  - reflexivity.
  - reflexivity.
  - intros m IH. cbn [norm_item depth_item]. exact IH.
  - reflexivity.
  - reflexivity.
  - intros i IHi t IHt. cbn [norm_items depth_items]. rewrite IHi, IHt. reflexivity.
  - intros i IH. cbn [norm_repr depth_repr]. exact IH.
  - intros l IH. destruct l as [|i [|j t]]; cbn [norm_repr depth_repr]; try exact IH.
    cbn [norm_items depth_items] in IH. rewrite Nat.max_0_r in IH. rewrite Nat.max_0_r in IH. cbn [depth_items]. rewrite Nat.max_0_r. exact IH.
  - reflexivity.
  - intros n tc r IHr t IHt. cbn [norm_fields depth_fields]. rewrite IHr, IHt. reflexivity.
  - intros w fs IH. cbn [norm_msg depth_msg]. rewrite IH. reflexivity.
Qed.

(* the same statement for operator== run with adequate fuel *)
Theorem eq_roundtrip_adequate (ieq : ftype -> bytes -> bytes -> bool) (m n : msg) :
  (forall ft a b, ieq ft a b = ieq ft b a) -> wf_msg m -> wf_msg n ->
  msg_eq ieq (rt m) (rt n) = msg_eq ieq (strip_msg m) (strip_msg n).
Proof.
  intros Hs Hm Hn. unfold msg_eq, rt.
  rewrite !(proj2 (proj2 (proj2 (proj2 depth_norm_all)))).
  apply eq_roundtrip; assumption.
Qed.
