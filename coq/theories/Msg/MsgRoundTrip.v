(* Msg/MsgRoundTrip.v -- parsing the bytes Flatten produced yields the original Message (modulo the
   non-flattenable fields and the inline/array state of one-item fields), at every nesting level. *)
From Coq Require Import List NArith Bool Strings.Byte Lia Arith.
From Muscle Require Import Gen.Consts Msg.MsgDefs Msg.MsgModel Msg.MsgBytesProofs Msg.MsgSizeProofs.
Import ListNotations.
Local Open Scope N_scope.

(* ------------------------------------------------------------------ field-table lemmas *)

Lemma fapp_nil_r (a : fields) : fapp a FNil = a.
Proof. induction a as [|n tc r a IH]; cbn [fapp]; [reflexivity|]. rewrite IH. reflexivity. Qed.

Lemma fapp_assoc (a b c : fields) : fapp (fapp a b) c = fapp a (fapp b c).
Proof. induction a as [|n tc r a IH]; cbn [fapp]; [reflexivity|]. rewrite IH. reflexivity. Qed.

Lemma fsnoc_fapp (a : fields) n tc r (b : fields) : fapp (fsnoc a n tc r) b = fapp a (FCons n tc r b).
Proof. unfold fsnoc. rewrite fapp_assoc. reflexivity. Qed.

Lemma flookup_fapp (n : bytes) (a b : fields) :
  flookup n (fapp a b) = match flookup n a with Some x => Some x | None => flookup n b end.
Proof.
  induction a as [|k tc r a IH]; cbn [fapp flookup]; [reflexivity|].
  destruct (bytes_eqb n k); [reflexivity|exact IH].
Qed.

Lemma flookup_fsnoc_other (n k : bytes) tc r (a : fields) :
  n <> k -> flookup n a = None -> flookup n (fsnoc a k tc r) = None.
Proof.
  intros Hne Ha. unfold fsnoc. rewrite flookup_fapp, Ha. cbn [flookup].
  apply bytes_eqb_neq in Hne. rewrite Hne. reflexivity.
Qed.

(* ------------------------------------------------------------------ lower bounds on what Flatten writes *)

Lemma flat_fields_lower (fs : fields) : 12 * count_flat fs <= len (flat_fields fs).
Proof.
  induction fs as [|n tc r t IH]; cbn [count_flat flat_fields]; [cbn; lia|].
  rewrite len_app. destruct (flattenable tc); [|cbn [len]; lia].
  rewrite !len_app, !len_le32. lia.
Qed.

Lemma flat_msg_lower (m : msg) : 12 <= len (flat_msg m).
Proof. destruct m as [w fs]. cbn [flat_msg]. rewrite !len_app, !len_le32. lia. Qed.

Lemma flat_msg_nonnil (m : msg) : flat_msg m <> [].
Proof. intro E. pose proof (flat_msg_lower m) as H. rewrite E in H. cbn in H. lia. Qed.

(* ------------------------------------------------------------------ leaf items (no nesting involved) *)

(* what must fit in a uint32 length word for one item *)
Definition item_bound (i : item) : Prop :=
  match i with
  | IMsg m => size_msg m < two32
  | IStr s => str_flat_size s < two32
  | IRaw b => len b < two32
  | _ => True
  end.

Lemma two32_pos : 1 < two32.
Proof. reflexivity. Qed.

Lemma dec_single_leaf (inner : bytes -> res (msg * bytes)) (ft : ftype) (i : item) :
  ft_flattenable ft = true -> ft <> TMessage -> wf_item ft i -> item_bound i ->
  dec_single inner ft (flat_single ft i) = Ok (i, []).
Proof.
  intros Hf Hm Hwf Hb.
  destruct ft; try discriminate Hf; try congruence; destruct i; cbn [wf_item] in Hwf; try contradiction.
  - (* bool *) destruct Hwf as [-> | ->]; reflexivity.
  - (* double *) cbn [flat_single]. unfold dec_single. rewrite Hwf, N.leb_refl. rewrite <- Hwf, takeN_all, dropN_all. reflexivity.
  - cbn [flat_single]. unfold dec_single. rewrite Hwf, N.leb_refl. rewrite <- Hwf, takeN_all, dropN_all. reflexivity.
  - cbn [flat_single]. unfold dec_single. rewrite Hwf, N.leb_refl. rewrite <- Hwf, takeN_all, dropN_all. reflexivity.
  - cbn [flat_single]. unfold dec_single. rewrite Hwf, N.leb_refl. rewrite <- Hwf, takeN_all, dropN_all. reflexivity.
  - cbn [flat_single]. unfold dec_single. rewrite Hwf, N.leb_refl. rewrite <- Hwf, takeN_all, dropN_all. reflexivity.
  - cbn [flat_single]. unfold dec_single. rewrite Hwf, N.leb_refl. rewrite <- Hwf, takeN_all, dropN_all. reflexivity.
  - cbn [flat_single]. unfold dec_single. rewrite Hwf, N.leb_refl. rewrite <- Hwf, takeN_all, dropN_all. reflexivity.
  - cbn [flat_single]. unfold dec_single. rewrite Hwf, N.leb_refl. rewrite <- Hwf, takeN_all, dropN_all. reflexivity.
  - (* string *)
    cbn [flat_single]. unfold dec_single. rewrite rd32_le32 by apply two32_pos. cbn [bind fst snd].
    rewrite N.eqb_refl.
    change (le32 (str_flat_size bs) ++ bs ++ [x00]) with (le32 (str_flat_size bs) ++ bs ++ x00 :: []).
    rewrite rd_lp_string_app by assumption. reflexivity.
  - (* raw *)
    cbn [flat_single]. unfold dec_single. rewrite rd32_le32 by apply two32_pos. cbn [bind fst snd].
    rewrite N.eqb_refl. rewrite rd32_le32 by exact Hb. cbn [bind fst snd]. rewrite N.eqb_refl. reflexivity.
Qed.

(* ------------------------------------------------------------------ arrays of leaf items *)

Fixpoint items_cnt (l : items) : nat := match l with INil => O | ICons _ t => S (items_cnt t) end.

Lemma items_len_cnt (l : items) : items_len l = N.of_nat (items_cnt l).
Proof. induction l as [|i t IH]; cbn [items_len items_cnt]; [reflexivity|]. rewrite IH. lia. Qed.

Lemma split_fix_flat (ft : ftype) (l : items) :
  ft_fixed ft = true -> wf_items ft l ->
  split_fix (items_cnt l) (cpp_size ft) (flat_items ft l) = l.
Proof.
  intros Hx. induction l as [|i t IH]; intro Hw; cbn [items_cnt split_fix flat_items]; [reflexivity|].
  destruct Hw as [Hi Ht].
  assert (E : exists bs, i = IFix bs /\ flat_elem ft i = bs /\ len bs = cpp_size ft).
  { destruct ft; try discriminate Hx; destruct i; cbn [wf_item] in Hi; try contradiction;
      try (exists bs; split; [reflexivity|split; [reflexivity|exact Hi]]).
    exists bs; split; [reflexivity|split; [reflexivity|]]. destruct Hi as [-> | ->]; reflexivity. }
  destruct E as (bs & -> & -> & Hl).
  rewrite <- Hl, takeN_app_exact, dropN_app_exact, Hl, (IH Ht). reflexivity.
Qed.

Lemma norm_bools_wf (l : items) : wf_items TBool l -> norm_bools l = l.
Proof.
  induction l as [|i t IH]; intro Hw; cbn [norm_bools]; [reflexivity|].
  destruct Hw as [Hi Ht]. destruct i; cbn [wf_item] in Hi; try contradiction.
  rewrite (IH Ht). destruct Hi as [-> | ->]; reflexivity.
Qed.

Lemma norm_items_leaf (ft : ftype) (l : items) : ft <> TMessage -> ft_flattenable ft = true -> wf_items ft l -> norm_items l = l.
Proof.
  intros Hm Hf. induction l as [|i t IH]; intro Hw; cbn [norm_items]; [reflexivity|].
  destruct Hw as [Hi Ht]. rewrite (IH Ht).
  destruct i; try reflexivity. destruct ft; cbn in Hi; try contradiction; try discriminate Hf; congruence.
Qed.

Lemma dec_lp_items_str (l : items) (fuel : nat) :
  wf_items TString l -> size_items TString l + 4 * items_len l < two32 -> (items_cnt l <= fuel)%nat ->
  dec_lp_items mk_str fuel (items_len l) (flat_items TString l) = Ok (l, []).
Proof.
  revert fuel; induction l as [|i t IH]; intros fuel Hw Hs Hfu.
  - destruct fuel; reflexivity.
  - destruct Hw as [Hi Ht]. destruct i; cbn in Hi; try contradiction.
    cbn [items_len items_cnt size_items size_elem flat_items flat_elem] in *.
    destruct fuel as [|fuel]; [lia|].
    cbn [dec_lp_items].
    destruct (N.succ (items_len t) =? 0) eqn:Ez; [apply N.eqb_eq in Ez; lia|].
    rewrite <- !app_assoc. rewrite rd32_le32 by lia. cbn [bind fst snd].
    assert (L : str_flat_size bs = len (bs ++ [x00])) by (unfold str_flat_size; rewrite len_app; reflexivity).
    rewrite (app_assoc bs [x00]).
    destruct (str_flat_size bs <=? len ((bs ++ [x00]) ++ flat_items TString t)) eqn:Le.
    2:{ apply N.leb_gt in Le. rewrite len_app, <- L in Le. lia. }
    rewrite dropN_app_n, takeN_app_n by exact L.
    unfold mk_str at 1. rewrite <- (app_nil_r (bs ++ [x00])), <- app_assoc. cbn [app].
    rewrite upto_nul_app by exact Hi.
    rewrite N.pred_succ, IH; [|exact Ht|lia|lia]. reflexivity.
Qed.

Lemma dec_lp_items_raw (l : items) (fuel : nat) :
  wf_items TRaw l -> size_items TRaw l < two32 -> (items_cnt l <= fuel)%nat ->
  dec_lp_items mk_raw fuel (items_len l) (flat_items TRaw l) = Ok (l, []).
Proof.
  revert fuel; induction l as [|i t IH]; intros fuel Hw Hs Hfu.
  - destruct fuel; reflexivity.
  - destruct Hw as [Hi Ht]. destruct i; cbn in Hi; try contradiction.
    cbn [items_len items_cnt size_items size_elem flat_items flat_elem] in *.
    destruct fuel as [|fuel]; [lia|].
    cbn [dec_lp_items].
    destruct (N.succ (items_len t) =? 0) eqn:Ez; [apply N.eqb_eq in Ez; lia|].
    rewrite <- !app_assoc. rewrite rd32_le32 by lia. cbn [bind fst snd].
    destruct (len bs <=? len (bs ++ flat_items TRaw t)) eqn:Le.
    2:{ apply N.leb_gt in Le. rewrite len_app in Le. lia. }
    rewrite dropN_app_exact, takeN_app_exact. unfold mk_raw at 1.
    rewrite N.pred_succ, IH; [|exact Ht|lia|lia]. reflexivity.
Qed.

(* each raw item costs at least its length word *)
Lemma raw_items_lower (l : items) : wf_items TRaw l -> 4 * items_len l <= size_items TRaw l.
Proof.
  induction l as [|i t IH]; intro Hw; cbn [items_len size_items]; [lia|].
  destruct Hw as [Hi Ht]. specialize (IH Ht). destruct i; cbn in Hi; try contradiction.
  cbn [size_elem]. rewrite sizeof_u32. lia.
Qed.


(* ------------------------------------------------------------------ GetNumItemsInFlattenedBuffer *)

Lemma num_items_fixed (ft : ftype) (w : bytes) :
  ft_fixed ft = true -> num_items_in_buffer ft w = len w / cpp_size ft.
Proof.
  intro H. unfold num_items_in_buffer. destruct (size_tables_ok ft H) as (E1 & _ & Hp). rewrite E1.
  destruct (0 <? cpp_size ft) eqn:E; [reflexivity|]. apply N.ltb_ge in E. lia.
Qed.

Lemma num_items_count (ft : ftype) (n : N) (w : bytes) :
  ft = TString \/ ft = TRaw -> n < two32 -> num_items_in_buffer ft (le32 n ++ w) = n.
Proof.
  intros [-> | ->] H; unfold num_items_in_buffer.
  - replace (0 <? wire_size TString) with false by reflexivity. rewrite rd32_le32 by exact H. reflexivity.
  - replace (0 <? wire_size TRaw) with false by reflexivity. rewrite rd32_le32 by exact H. reflexivity.
Qed.

Lemma num_items_msg (sz : N) (body more : bytes) :
  sz = len body -> sz < two32 ->
  num_items_in_buffer TMessage (le32 sz ++ body ++ more) = if len more =? 0 then 1 else 2.
Proof.
  intros E H. unfold num_items_in_buffer. replace (0 <? wire_size TMessage) with false by reflexivity.
  rewrite rd32_le32 by exact H. rewrite len_app, <- E.
  destruct (sz + len more <? sz) eqn:E1; [apply N.ltb_lt in E1; lia|].
  destruct (len more =? 0) eqn:E2.
  - apply N.eqb_eq in E2. rewrite E2, N.add_0_r, N.eqb_refl. reflexivity.
  - apply N.eqb_neq in E2. destruct (sz =? sz + len more) eqn:E3; [apply N.eqb_eq in E3; lia|reflexivity].
Qed.

(* ------------------------------------------------------------------ one item: the inline and the array writer agree *)

Lemma flat_repr_singleton (ft : ftype) (i : item) :
  ft_flattenable ft = true -> wf_item ft i -> flat_repr ft (RArray (ICons i INil)) = flat_single ft i.
Proof.
  intros Hf Hw. destruct ft; try discriminate Hf; destruct i; cbn [wf_item] in Hw; try contradiction;
    cbn [flat_repr flat_items flat_elem flat_single items_len]; rewrite ?app_nil_r; try reflexivity.
  destruct Hw as [-> | ->]; reflexivity.
Qed.

Lemma size_repr_singleton (ft : ftype) (i : item) :
  ft_flattenable ft = true -> wf_item ft i -> size_repr ft (RArray (ICons i INil)) = size_single ft i.
Proof.
  intros Hf Hw.
  pose proof (proj1 (proj2 (proj2 flatten_length_all)) (RArray (ICons i INil)) ft Hf) as H1.
  pose proof (proj1 flatten_length_all i ft Hf Hw) as [H2 _].
  rewrite <- H1, <- H2; [|cbn; auto]. rewrite flat_repr_singleton by assumption. reflexivity.
Qed.

(* ------------------------------------------------------------------ fields of leaf type *)

Lemma size_single_bound (ft : ftype) (i : item) :
  ft_flattenable ft = true -> wf_item ft i -> size_single ft i < two32 -> item_bound i.
Proof.
  intros Hf Hw Hs. destruct ft; try discriminate Hf; destruct i; cbn [wf_item] in Hw; try contradiction;
    cbn [item_bound]; try exact I.
  - cbn [size_single] in Hs. rewrite sizeof_u32 in Hs. lia.
  - cbn [size_single] in Hs. rewrite sizeof_u32 in Hs. lia.
  - change (size_single TRaw (IRaw bs)) with (c_SIZEOF_uint32 + c_SIZEOF_uint32 + len bs) in Hs.
    rewrite sizeof_u32 in Hs. lia.
Qed.

Lemma dec_field_leaf (inner : bytes -> res (msg * bytes)) (ft : ftype) (r : repr) :
  ft_flattenable ft = true -> ft <> TMessage -> wf_repr ft r -> size_repr ft r < two32 ->
  dec_field inner ft (flat_repr ft r) = Ok (norm_repr r, []).
Proof.
  intros Hf Hm Hw Hs.
  assert (Single : forall i, wf_item ft i -> size_single ft i < two32 ->
            dec_field inner ft (flat_single ft i) = Ok (RInline i, [])).
  { intros i Hi Hsi. unfold dec_field. rewrite Hf. cbn [negb].
    assert (En : num_items_in_buffer ft (flat_single ft i) = 1).
    { destruct (ft_fixed ft) eqn:Hx.
      - rewrite num_items_fixed by exact Hx.
        destruct (proj1 flatten_length_all i ft Hf Hi) as [-> _].
        rewrite size_single_fixed by exact Hx. apply N.div_same.
        destruct (size_tables_ok ft Hx) as (_ & _ & Hp). lia.
      - destruct ft; try discriminate Hf; try discriminate Hx; try congruence;
          destruct i; cbn [wf_item] in Hi; try contradiction; cbn [flat_single];
          apply num_items_count; auto using two32_pos. }
    rewrite En, N.eqb_refl.
    rewrite dec_single_leaf; auto. exact (size_single_bound ft i Hf Hi Hsi). }
  destruct r as [i | l].
  - cbn [flat_repr norm_repr]. cbn [wf_repr] in Hw. cbn [size_repr] in Hs.
    rewrite (Single i Hw Hs). destruct i; try reflexivity.
    destruct ft; cbn [wf_item] in Hw; try contradiction; try discriminate Hf; congruence.
  - cbn [wf_repr] in Hw.
    destruct l as [|i [|j t]].
    + (* no items *)
      cbn [norm_repr norm_items]. unfold dec_field. rewrite Hf. cbn [negb].
      destruct (ft_fixed ft) eqn:Hx.
      * assert (E : flat_repr ft (RArray INil) = []) by (destruct ft; try discriminate Hx; reflexivity).
        destruct (size_tables_ok ft Hx) as (_ & Eu & Hp).
        rewrite E, num_items_fixed by exact Hx. cbn [len]. rewrite N.div_0_l by lia.
        cbn [N.eqb]. unfold dec_array.
        destruct ft; try discriminate Hx; rewrite Eu;
          (destruct (cpp_size _ =? 0) eqn:Ez; [apply N.eqb_eq in Ez; lia|]);
          cbn [len]; rewrite N.mod_0_l by lia; cbn [N.eqb]; rewrite N.div_0_l by lia; reflexivity.
      * destruct ft; try discriminate Hf; try discriminate Hx; try congruence.
        -- cbn [flat_repr flat_items items_len]. rewrite num_items_count by (auto using two32_pos; reflexivity).
           cbn [N.eqb]. unfold dec_array. rewrite rd32_le32 by reflexivity. cbn [bind fst snd]. reflexivity.
        -- cbn [flat_repr flat_items items_len]. rewrite num_items_count by (auto using two32_pos; reflexivity).
           cbn [N.eqb]. unfold dec_array. rewrite rd32_le32 by reflexivity. cbn [bind fst snd]. reflexivity.
    + (* one item: parsed back as an inline item *)
      destruct Hw as [Hi _].
      rewrite flat_repr_singleton by assumption. rewrite size_repr_singleton in Hs by assumption.
      rewrite (Single i Hi Hs). cbn [norm_repr].
      destruct i; try reflexivity.
      destruct ft; cbn [wf_item] in Hi; try contradiction; try discriminate Hf; congruence.
    + (* two or more items *)
      set (l := ICons i (ICons j t)) in *.
      assert (Hn : norm_repr (RArray l) = RArray l).
      { unfold l. cbn [norm_repr]. fold l. f_equal. exact (norm_items_leaf ft l Hm Hf Hw). }
      rewrite Hn. unfold dec_field. rewrite Hf. cbn [negb].
      assert (Hc2 : 2 <= items_len l) by (unfold l; cbn [items_len]; lia).
      destruct (ft_fixed ft) eqn:Hx.
      * destruct (size_tables_ok ft Hx) as (_ & Eu & Hp).
        assert (Ef : flat_repr ft (RArray l) = flat_items ft l) by (destruct ft; try discriminate Hx; reflexivity).
        assert (El : len (flat_items ft l) = items_len l * cpp_size ft).
        { rewrite (proj1 (proj2 flatten_length_all) l ft Hf Hw). unfold items_flat_len. rewrite Hx. reflexivity. }
        rewrite Ef, num_items_fixed, El, N.div_mul by (try exact Hx; lia).
        destruct (items_len l =? 1) eqn:E1; [apply N.eqb_eq in E1; lia|].
        assert (Ea : dec_array inner ft (flat_items ft l) = Ok (l, [])).
        { unfold dec_array.
          destruct ft; try discriminate Hx; rewrite Eu;
            (destruct (cpp_size _ =? 0) eqn:Ez; [apply N.eqb_eq in Ez; lia|]);
            rewrite El, N.mod_mul by lia; cbn [N.eqb]; rewrite N.div_mul by lia;
            rewrite items_len_cnt, Nat2N.id, split_fix_flat by (auto; reflexivity);
            rewrite ?norm_bools_wf by exact Hw; reflexivity. }
        rewrite Ea. reflexivity.
      * destruct ft; try discriminate Hf; try discriminate Hx; try congruence.
        -- (* String *)
           cbn [size_repr] in Hs. rewrite sizeof_u32 in Hs.
           cbn [flat_repr]. rewrite num_items_count by (try lia; auto).
           destruct (items_len l =? 1) eqn:E1; [apply N.eqb_eq in E1; lia|].
           unfold dec_array. rewrite rd32_le32 by lia. cbn [bind fst snd].
           pose proof (proj1 (proj2 flatten_length_all) l TString Hf Hw) as HL.
           unfold items_flat_len in HL. cbn [ft_fixed] in HL.
           rewrite sizeof_u32.
           destruct (len (flat_items TString l) / 4 <? items_len l) eqn:Eb.
           { apply N.ltb_lt in Eb.
             assert (items_len l <= len (flat_items TString l) / 4) by (apply N.div_le_lower_bound; lia). lia. }
           rewrite dec_lp_items_str; [reflexivity|exact Hw|lia|].
           rewrite app_length. rewrite len_length, items_len_cnt in HL. lia.
        -- (* raw *)
           cbn [size_repr] in Hs. rewrite sizeof_u32 in Hs.
           pose proof (raw_items_lower l Hw) as Hlow.
           cbn [flat_repr]. rewrite num_items_count by (try lia; auto).
           destruct (items_len l =? 1) eqn:E1; [apply N.eqb_eq in E1; lia|].
           unfold dec_array. rewrite rd32_le32 by lia. cbn [bind fst snd].
           rewrite dec_lp_items_raw; [reflexivity|exact Hw|lia|].
           rewrite app_length.
           pose proof (proj1 (proj2 flatten_length_all) l TRaw Hf Hw) as HL.
           unfold items_flat_len in HL. cbn [ft_fixed] in HL. rewrite len_length in HL. rewrite items_len_cnt in *. lia.
Qed.

(* ------------------------------------------------------------------ Messages all of whose fields are flattenable *)

Fixpoint fo_msg (m : msg) : Prop :=
  match m with Msg _ fs => fo_fields fs end
with fo_fields (fs : fields) : Prop :=
  match fs with FNil => True | FCons _ tc r t => flattenable tc = true /\ fo_repr r /\ fo_fields t end
with fo_repr (r : repr) : Prop :=
  match r with RInline i => fo_item i | RArray l => fo_items l end
with fo_item (i : item) : Prop :=
  match i with IMsg m => fo_msg m | _ => True end
with fo_items (l : items) : Prop :=
  match l with INil => True | ICons i t => fo_item i /\ fo_items t end.

Fixpoint all_items (P : item -> Prop) (l : items) : Prop :=
  match l with INil => True | ICons i t => P i /\ all_items P t end.

Definition RT_msg (m : msg) : Prop :=
  wf_msg m -> fo_msg m -> size_msg m < two32 ->
  forall f, (depth_msg m <= f)%nat -> dec_msg f (flat_msg m) = Ok (norm_msg m, []).

Definition RT_item (i : item) : Prop := match i with IMsg m => RT_msg m | _ => True end.

Definition RT_items (l : items) : Prop :=
  all_items RT_item l /\
  forall f fuel, wf_items TMessage l -> fo_items l -> size_items TMessage l < two32 ->
    (depth_items l <= f)%nat -> (items_cnt l <= fuel)%nat ->
    dec_msg_items (dec_msg f) fuel (flat_items TMessage l) = Ok (norm_items l, []).

Definition RT_repr (r : repr) : Prop :=
  forall ft f, ft_flattenable ft = true -> wf_repr ft r -> fo_repr r -> size_repr ft r < two32 ->
    (depth_repr r <= f)%nat ->
    dec_field (dec_msg f) ft (flat_repr ft r) = Ok (norm_repr r, []).

Definition RT_fields (fs : fields) : Prop :=
  forall f acc rest, wf_fields fs -> fo_fields fs -> NoDup (fnames fs) ->
    (forall n, In n (fnames fs) -> flookup n acc = None) ->
    size_fields fs < two32 -> (depth_fields fs <= f)%nat ->
    dec_entries (dec_msg f) (N.to_nat (count_flat fs)) acc (flat_fields fs ++ rest)
      = Ok (fapp acc (norm_fields fs), rest).

Lemma dec_single_msg (f : nat) (m : msg) :
  size_msg m < two32 -> len (flat_msg m) = size_msg m ->
  dec_msg f (flat_msg m) = Ok (norm_msg m, []) ->
  dec_single (dec_msg f) TMessage (flat_single TMessage (IMsg m)) = Ok (IMsg (norm_msg m), []).
Proof.
  intros Hs Hl Hd. cbn [flat_single]. unfold dec_single. rewrite rd32_le32 by exact Hs. cbn [bind fst snd].
  rewrite Hl, N.eqb_refl, Hd. reflexivity.
Qed.

Lemma roundtrip_all :
  (forall i, RT_item i) /\ (forall l, RT_items l) /\ (forall r, RT_repr r) /\
  (forall fs, RT_fields fs) /\ (forall m, RT_msg m).
Proof.
  apply msg_mutind.
  - intros bs. exact I.
  - intros bs. exact I.
  - intros bs. exact I.
  - intros m IH. exact IH.
  - intros id. exact I.
  - (* INil *)
    split; [exact I|]. intros f fuel _ _ _ _ _. destruct fuel; reflexivity.
  - (* ICons *)
    intros i IHi t [IHt1 IHt2]. split; [split; assumption|].
    intros f fuel [Hwi Hwt] [Hfi Hft] Hs Hd Hfu.
    destruct i as [bs|bs|bs|m|id]; cbn [wf_item] in Hwi; try contradiction.
    cbn [RT_item] in IHi.
    cbn [size_items size_elem] in Hs. rewrite sizeof_u32 in Hs.
    cbn [depth_items depth_item] in Hd. cbn [items_cnt] in Hfu. cbn [fo_item] in Hfi.
    destruct fuel as [|fuel]; [lia|].
    cbn [flat_items flat_elem]. rewrite <- app_assoc.
    pose proof (proj2 (proj2 (proj2 (proj2 flatten_length_all))) m Hwi) as Hl.
    assert (Hne : exists b w', le32 (size_msg m) ++ flat_msg m ++ flat_items TMessage t = b :: w').
    { destruct (le32_cons4 (size_msg m)) as (a & b & c & d & E). rewrite E. cbn [app]. eauto. }
    destruct Hne as (b0 & w0 & Ew). cbn [dec_msg_items]. rewrite Ew. rewrite <- Ew. clear b0 w0 Ew.
    rewrite rd32_le32 by lia. cbn [bind fst snd].
    destruct (size_msg m <=? len (flat_msg m ++ flat_items TMessage t)) eqn:Le.
    2:{ apply N.leb_gt in Le. rewrite len_app, Hl in Le. lia. }
    rewrite takeN_app_n, dropN_app_n by (symmetry; exact Hl).
    rewrite (IHi Hwi Hfi) by lia. cbn [bind fst snd app].
    rewrite (IHt2 f fuel Hwt Hft) by lia. reflexivity.
  - (* RInline *)
    intros i IHi ft f Hf Hw Hfo Hs Hd.
    destruct ft; try (apply dec_field_leaf; [exact Hf|congruence|exact Hw|exact Hs]).
    cbn [wf_repr] in Hw. destruct i as [bs|bs|bs|m|id]; cbn [wf_item] in Hw; try contradiction.
    cbn [RT_item] in IHi. cbn [fo_repr fo_item] in Hfo. cbn [depth_repr depth_item] in Hd.
    cbn [size_repr size_single] in Hs. rewrite sizeof_u32 in Hs.
    pose proof (proj2 (proj2 (proj2 (proj2 flatten_length_all))) m Hw) as Hl.
    unfold dec_field. cbn [flat_repr ft_flattenable negb].
    assert (En : num_items_in_buffer TMessage (flat_single TMessage (IMsg m)) = 1).
    { cbn [flat_single]. rewrite <- (app_nil_r (flat_msg m)). rewrite num_items_msg by (try lia; auto). reflexivity. }
    rewrite En, N.eqb_refl.
    rewrite dec_single_msg; [reflexivity|lia|exact Hl|]. apply IHi; auto; lia.
  - (* RArray *)
    intros l [IHl1 IHl2] ft f Hf Hw Hfo Hs Hd.
    destruct ft; try (apply dec_field_leaf; [exact Hf|congruence|exact Hw|exact Hs]).
    cbn [wf_repr] in Hw. cbn [fo_repr] in Hfo. cbn [depth_repr] in Hd. cbn [size_repr] in Hs.
    destruct l as [|i [|j t]].
    + reflexivity.
    + (* one sub-Message: parsed back inline *)
      destruct Hw as [Hwi _]. destruct Hfo as [Hfi _]. destruct IHl1 as [IHi _].
      destruct i as [bs|bs|bs|m|id]; cbn [wf_item] in Hwi; try contradiction.
      cbn [RT_item] in IHi. cbn [fo_item] in Hfi. cbn [depth_items depth_item] in Hd.
      cbn [size_items size_elem] in Hs. rewrite sizeof_u32 in Hs.
      pose proof (proj2 (proj2 (proj2 (proj2 flatten_length_all))) m Hwi) as Hl.
      rewrite flat_repr_singleton by (auto; exact Hwi).
      unfold dec_field. cbn [ft_flattenable negb].
      assert (En : num_items_in_buffer TMessage (flat_single TMessage (IMsg m)) = 1).
      { cbn [flat_single]. rewrite <- (app_nil_r (flat_msg m)). rewrite num_items_msg by (try lia; auto). reflexivity. }
      rewrite En, N.eqb_refl.
      rewrite dec_single_msg; [reflexivity|lia|exact Hl|]. apply IHi; auto; lia.
    + (* two or more sub-Messages *)
      set (l := ICons i (ICons j t)) in *.
      assert (Hn : norm_repr (RArray l) = RArray (norm_items l)) by reflexivity.
      rewrite Hn. unfold dec_field. cbn [flat_repr ft_flattenable negb].
      assert (En : num_items_in_buffer TMessage (flat_items TMessage l) = 2).
      { unfold l. destruct Hw as (Hwi & Hwj & _).
        destruct i as [bs|bs|bs|m|id]; cbn [wf_item] in Hwi; try contradiction.
        destruct j as [bs|bs|bs|m2|id]; cbn [wf_item] in Hwj; try contradiction.
        pose proof (proj2 (proj2 (proj2 (proj2 flatten_length_all))) m Hwi) as Hl.
        unfold l in Hs. cbn [size_items size_elem] in Hs. rewrite sizeof_u32 in Hs.
        cbn [flat_items flat_elem]. rewrite <- !app_assoc.
        rewrite num_items_msg by (try lia; auto).
        rewrite !len_app, len_le32. destruct (4 + _ =? 0) eqn:E; [apply N.eqb_eq in E; lia|reflexivity]. }
      rewrite En. cbn [N.eqb Pos.eqb]. unfold dec_array.
      rewrite IHl2; [reflexivity|exact Hw|exact Hfo|exact Hs|exact Hd|].
      pose proof (proj1 (proj2 flatten_length_all) l TMessage Hf Hw) as HL.
      unfold items_flat_len in HL. cbn [ft_fixed] in HL. rewrite len_length in HL.
      assert (Hc : N.of_nat (items_cnt l) * 4 <= size_items TMessage l).
      { clear - Hw. induction l as [|x t' IH]; cbn [items_cnt size_items]; [lia|].
        destruct Hw as [Hx Ht]. specialize (IH Ht).
        destruct x; cbn [wf_item] in Hx; try contradiction. cbn [size_elem]. rewrite sizeof_u32. lia. }
      lia.
  - (* FNil *)
    intros f acc rest _ _ _ _ _ _. cbn. rewrite fapp_nil_r. reflexivity.
  - (* FCons *)
    intros n tc r IHr t IHt f acc rest (Hn & Htc & Hr & Ht) (Hfl & Hfr & Hft) Hnd Hacc Hs Hd.
    cbn [count_flat flat_fields size_fields norm_fields depth_fields fnames] in *.
    rewrite Hfl in *. rewrite sizeof_u32 in Hs.
    replace (N.to_nat (1 + count_flat t)) with (S (N.to_nat (count_flat t))) by lia.
    cbn [dec_entries].
    rewrite <- !app_assoc. cbn [app].
    rewrite rd_lp_string_app by (try exact Hn; lia). cbn [bind fst snd].
    rewrite rd32_le32 by exact Htc. cbn [bind fst snd].
    rewrite rd32_le32 by lia. cbn [bind fst snd].
    rewrite (Hacc n (or_introl eq_refl)).
    pose proof (proj1 (proj2 (proj2 flatten_length_all)) r (ftype_of_tc tc) Hfl Hr) as Hl.
    rewrite takeN_app_n, dropN_app_n by (symmetry; exact Hl).
    rewrite (IHr (ftype_of_tc tc) f Hfl Hr Hfr) by lia. cbn [bind fst snd app].
    inversion Hnd as [|? ? Hnin Hnd']; subst.
    rewrite (IHt f (fsnoc acc n tc (norm_repr r)) rest Ht Hft Hnd'); [|  |lia|lia].
    + rewrite fsnoc_fapp. reflexivity.
    + intros k Hk. apply flookup_fsnoc_other; [|apply Hacc; right; exact Hk].
      intro E. subst k. contradiction.
  - (* Msg *)
    intros w fs IH (Hw & Hnd & Hfs) Hfo Hs f Hd.
    cbn [depth_msg] in Hd. destruct f as [|f]; [lia|].
    cbn [fo_msg] in Hfo. cbn [size_msg] in Hs. rewrite sizeof_u32 in Hs.
    cbn [dec_msg flat_msg norm_msg]. unfold dec_msg_level.
    destruct proto_version_ok as [Hv1 Hv2].
    rewrite rd32_le32 by exact Hv2. cbn [bind fst snd].
    rewrite Hv1, N.leb_refl. cbn [andb].
    rewrite rd32_le32 by exact Hw. cbn [bind fst snd].
    pose proof (flat_fields_lower fs) as Hlow.
    pose proof (proj1 (proj2 (proj2 (proj2 flatten_length_all))) fs Hfs) as Hl.
    rewrite rd32_le32 by lia. cbn [bind fst snd].
    rewrite sizeof_u32. change (3 * 4) with 12.
    destruct (len (flat_fields fs) / 12 <? count_flat fs) eqn:E.
    { apply N.ltb_lt in E. assert (count_flat fs <= len (flat_fields fs) / 12) by (apply N.div_le_lower_bound; lia). lia. }
    rewrite <- (app_nil_r (flat_fields fs)).
    rewrite (IH f FNil [] Hfs Hfo Hnd); [reflexivity|reflexivity|lia|lia].
Qed.

(* ------------------------------------------------------------------ fuel adequacy: every nesting level costs bytes *)

Lemma length_le32 (n : N) : length (le32 n) = 4%nat.
Proof. reflexivity. Qed.

Lemma depth_le_length_all :
  (forall i ft, ft_flattenable ft = true -> wf_item ft i -> fo_item i ->
     (depth_item i <= length (flat_elem ft i))%nat /\ (depth_item i <= length (flat_single ft i))%nat) /\
  (forall l ft, ft_flattenable ft = true -> wf_items ft l -> fo_items l ->
     (depth_items l <= length (flat_items ft l))%nat) /\
  (forall r ft, ft_flattenable ft = true -> wf_repr ft r -> fo_repr r ->
     (depth_repr r <= length (flat_repr ft r))%nat) /\
  (forall fs, wf_fields fs -> fo_fields fs -> (depth_fields fs <= length (flat_fields fs))%nat) /\
  (forall m, wf_msg m -> fo_msg m -> (depth_msg m <= length (flat_msg m))%nat).
Proof.
  apply msg_mutind.
  - intros bs ft _ _ _. cbn [depth_item]. lia.
  - intros bs ft _ _ _. cbn [depth_item]. lia.
  - intros bs ft _ _ _. cbn [depth_item]. lia.
  - intros m IH ft Hf Hw Hfo.
    destruct ft; try discriminate Hf; cbn [wf_item] in Hw; try contradiction.
    cbn [fo_item] in Hfo. specialize (IH Hw Hfo).
    cbn [depth_item flat_elem flat_single]. rewrite !app_length. lia.
  - intros id ft _ _ _. cbn [depth_item]. lia.
  - intros ft _ _ _. cbn [depth_items]. lia.
  - intros i IHi t IHt ft Hf [Hwi Hwt] [Hfi Hft].
    cbn [depth_items flat_items]. rewrite app_length.
    destruct (IHi ft Hf Hwi Hfi) as [H1 _]. specialize (IHt ft Hf Hwt Hft). lia.
  - intros i IH ft Hf Hw Hfo. cbn [depth_repr flat_repr]. apply (IH ft Hf Hw Hfo).
  - intros l IH ft Hf Hw Hfo. cbn [wf_repr] in Hw. cbn [fo_repr] in Hfo. specialize (IH ft Hf Hw Hfo).
    cbn [depth_repr]. destruct ft; try discriminate Hf; cbn [flat_repr]; rewrite ?app_length; lia.
  - intros _ _. cbn [depth_fields]. lia.
  - intros n tc r IHr t IHt (Hn & Htc & Hr & Ht) (Hfl & Hfr & Hft).
    cbn [depth_fields flat_fields]. rewrite Hfl. rewrite !app_length.
    specialize (IHr _ Hfl Hr Hfr). specialize (IHt Ht Hft). lia.
  - intros w fs IH (Hw & Hnd & Hfs) Hfo. cbn [fo_msg] in Hfo. specialize (IH Hfs Hfo).
    cbn [depth_msg flat_msg]. rewrite !app_length, !length_le32. lia.
Qed.

Theorem roundtrip_flat_only (m : msg) :
  wf_msg m -> fo_msg m -> size_msg m < two32 -> unflatten (flat_msg m) = Ok (norm_msg m).
Proof.
  intros Hw Hfo Hs. unfold unflatten.
  rewrite (proj2 (proj2 (proj2 (proj2 roundtrip_all))) m Hw Hfo Hs); [reflexivity|].
  pose proof (proj2 (proj2 (proj2 (proj2 depth_le_length_all))) m Hw Hfo). lia.
Qed.

(* ------------------------------------------------------------------ strip: what is not written does not matter *)

Lemma strip_size_all :
  (forall i ft, size_single ft (strip_item i) = size_single ft i /\ size_elem ft (strip_item i) = size_elem ft i) /\
  (forall l ft, size_items ft (strip_items l) = size_items ft l /\ items_len (strip_items l) = items_len l) /\
  (forall r ft, size_repr ft (strip_repr r) = size_repr ft r) /\
  (forall fs, size_fields (strip_fields fs) = size_fields fs /\ count_flat (strip_fields fs) = count_flat fs) /\
  (forall m, size_msg (strip_msg m) = size_msg m).
Proof.
  apply msg_mutind.
  - intros bs ft. split; reflexivity.
  - intros bs ft. split; reflexivity.
  - intros bs ft. split; reflexivity.
  - intros m IH ft. cbn [strip_item]. split; destruct ft; cbn [size_single size_elem]; rewrite ?IH; reflexivity.
  - intros id ft. split; reflexivity.
  - intros ft. split; reflexivity.
  - intros i IHi t IHt ft. cbn [strip_items size_items items_len].
    destruct (IHi ft) as [_ ->]. destruct (IHt ft) as [-> ->]. split; reflexivity.
  - intros i IH ft. cbn [strip_repr size_repr]. apply IH.
  - intros l IH ft. cbn [strip_repr size_repr]. destruct (IH ft) as [E1 E2].
    destruct ft; rewrite ?E1, ?E2; reflexivity.
  - split; reflexivity.
  - intros n tc r IHr t [IHt1 IHt2]. cbn [strip_fields].
    destruct (flattenable tc) eqn:Fl; cbn [size_fields count_flat]; rewrite Fl, ?IHr, IHt1, IHt2; split; reflexivity.
  - intros w fs [IH _]. cbn [strip_msg size_msg]. rewrite IH. reflexivity.
Qed.

Lemma strip_flat_all :
  (forall i ft, flat_single ft (strip_item i) = flat_single ft i /\ flat_elem ft (strip_item i) = flat_elem ft i) /\
  (forall l ft, flat_items ft (strip_items l) = flat_items ft l) /\
  (forall r ft, flat_repr ft (strip_repr r) = flat_repr ft r) /\
  (forall fs, flat_fields (strip_fields fs) = flat_fields fs) /\
  (forall m, flat_msg (strip_msg m) = flat_msg m).
Proof.
  apply msg_mutind.
  - intros bs ft. split; reflexivity.
  - intros bs ft. split; reflexivity.
  - intros bs ft. split; reflexivity.
  - intros m IH ft. cbn [strip_item].
    pose proof (proj2 (proj2 (proj2 (proj2 strip_size_all))) m) as Es.
    split; destruct ft; cbn [flat_single flat_elem]; rewrite ?IH, ?Es; reflexivity.
  - intros id ft. split; reflexivity.
  - intros ft. reflexivity.
  - intros i IHi t IHt ft. cbn [strip_items flat_items]. destruct (IHi ft) as [_ ->]. rewrite IHt. reflexivity.
  - intros i IH ft. cbn [strip_repr flat_repr]. apply IH.
  - intros l IH ft. cbn [strip_repr flat_repr].
    destruct (proj1 (proj2 strip_size_all) l ft) as [_ E2].
    destruct ft; rewrite ?IH, ?E2; reflexivity.
  - reflexivity.
  - intros n tc r IHr t IHt. cbn [strip_fields].
    destruct (flattenable tc) eqn:Fl; cbn [flat_fields]; rewrite Fl, ?IHr, ?IHt; [|reflexivity].
    rewrite (proj1 (proj2 (proj2 strip_size_all)) r). reflexivity.
  - intros w fs IH. cbn [strip_msg flat_msg]. rewrite IH.
    rewrite (proj2 (proj1 (proj2 (proj2 (proj2 strip_size_all))) fs)). reflexivity.
Qed.

Lemma strip_names_sub (fs : fields) (n : bytes) : In n (fnames (strip_fields fs)) -> In n (fnames fs).
Proof.
  induction fs as [|k tc r t IH]; cbn [strip_fields fnames]; [auto|].
  destruct (flattenable tc); cbn [fnames In]; intuition.
Qed.

Lemma strip_names_nodup (fs : fields) : NoDup (fnames fs) -> NoDup (fnames (strip_fields fs)).
Proof.
  induction fs as [|k tc r t IH]; cbn [strip_fields fnames]; intro H; [constructor|].
  inversion H as [|? ? Hnin Hnd]; subst.
  destruct (flattenable tc); cbn [fnames]; [|auto].
  constructor; [|auto]. intro Hin. apply Hnin. apply strip_names_sub. exact Hin.
Qed.

Lemma strip_wf_all :
  (forall i ft, ft_flattenable ft = true -> wf_item ft i -> wf_item ft (strip_item i) /\ fo_item (strip_item i)) /\
  (forall l ft, ft_flattenable ft = true -> wf_items ft l -> wf_items ft (strip_items l) /\ fo_items (strip_items l)) /\
  (forall r ft, ft_flattenable ft = true -> wf_repr ft r -> wf_repr ft (strip_repr r) /\ fo_repr (strip_repr r)) /\
  (forall fs, wf_fields fs -> wf_fields (strip_fields fs) /\ fo_fields (strip_fields fs)) /\
  (forall m, wf_msg m -> wf_msg (strip_msg m) /\ fo_msg (strip_msg m)).
Proof.
  apply msg_mutind.
  - intros bs ft _ H. split; [exact H|exact I].
  - intros bs ft _ H. split; [exact H|exact I].
  - intros bs ft _ H. split; [exact H|exact I].
  - intros m IH ft Hf H. cbn [strip_item fo_item].
    destruct ft; try discriminate Hf; cbn [wf_item] in *; try contradiction.
    apply IH. exact H.
  - intros id ft _ H. split; [exact H|exact I].
  - intros ft _ _. split; exact I.
  - intros i IHi t IHt ft Hf [Hi Ht]. cbn [strip_items wf_items fo_items].
    destruct (IHi ft Hf Hi). destruct (IHt ft Hf Ht). auto.
  - intros i IH ft Hf H. cbn [strip_repr wf_repr fo_repr]. apply IH; assumption.
  - intros l IH ft Hf H. cbn [strip_repr wf_repr fo_repr]. apply IH; assumption.
  - intros _. split; exact I.
  - intros n tc r IHr t IHt (Hn & Htc & Hr & Ht). cbn [strip_fields].
    destruct (IHt Ht) as [W F].
    destruct (flattenable tc) eqn:Fl; [|auto].
    destruct (IHr _ Fl Hr) as [Wr Fr]. cbn [wf_fields fo_fields]. auto 10.
  - intros w fs IH (Hw & Hnd & Hfs). cbn [strip_msg wf_msg fo_msg].
    destruct (IH Hfs) as [W F]. auto using strip_names_nodup.
Qed.

(* ------------------------------------------------------------------ the round-trip theorem *)

Theorem unflatten_flatten (m : msg) : wf m -> unflatten (flatten m) = Ok (rt m).
Proof.
  intros [Hw Hs]. unfold flatten, rt.
  rewrite <- (proj2 (proj2 (proj2 (proj2 strip_flat_all))) m).
  destruct (proj2 (proj2 (proj2 (proj2 strip_wf_all))) m Hw) as [Hw' Hfo].
  apply roundtrip_flat_only; [exact Hw'|exact Hfo|].
  rewrite (proj2 (proj2 (proj2 (proj2 strip_size_all))) m). exact Hs.
Qed.
