(* Msg/TmplModel.v -- executable model of the TEMPLATED Message codec of message/Message.cpp
   (used by the templating mode of MessageIOGateway, C03):

     Message::CreateMessageTemplate                                            tmpl_of_msg
     Message::TemplatedFlattenedSize / MessageField::TemplatedFlattenedSize    ts_msg ...
     Message::TemplatedFlatten / MessageField::TemplatedFlatten                tf_msg ...
     Message::TemplatedUnflatten / MessageField::TemplatedUnflatten            tu_msg ...

   A template is itself a Message: it carries the field names, type codes and item counts; the templated
   bytes carry only the what-code and the values, field by field in the TEMPLATE's order:
     fixed-size field     the items back to back (exactly as the field's ordinary payload)
     String / raw field   count word, then length-prefixed items (exactly as the ordinary payload)
     Message field        count word (the ordinary format has none!), then per sub-Message a length word
                          and the sub-Message templated against the template's sub-Message
   What is NOT modelled (the functions return None = outside the modelled domain): a payload field with
   FEWER items than the template's (the C++ builds a synthetic field by ReplaceDataItem, which only works
   for fixed-size items), and a payload field whose type differs from the template's.  The gateway never
   gets there: it picks the template by TemplateHashCode64, which covers names, types and counts.
   The decoder is modelled completely; it recurses on the template, so it needs no fuel.
   No proofs in this file. *)
From Coq Require Import List NArith Bool Strings.Byte.
From Muscle Require Import Gen.Consts Msg.MsgDefs Msg.MsgModel Msg.MsgApi.
Import ListNotations.
Local Open Scope N_scope.

Definition obind {A B} (o : option A) (f : A -> option B) : option B :=
  match o with Some a => f a | None => None end.

(* MessageField::SingleElementsAreFixedSize / the arrays' ElementsAreFixedSize *)
Definition ft_elems_fixed (ft : ftype) : bool :=
  match ft with
  | TBool | TDouble | TPointer | TPoint | TRect | TFloat | TInt64 | TInt32 | TInt16 | TInt8 => true
  | _ => false
  end.

Fixpoint items_take (n : N) (l : items) : items :=
  match l with
  | INil => INil
  | ICons i t => if n =? 0 then INil else ICons i (items_take (N.pred n) t)
  end.

Fixpoint items_drop (n : N) (l : items) : items :=
  match l with
  | INil => INil
  | ICons i t => if n =? 0 then l else items_drop (N.pred n) t
  end.

(* GetItemSize(i) of a String / raw item *)
Definition var_item_size (i : item) : N :=
  match i with IStr s => str_flat_size s | IRaw b => len b | IMsg m => size_msg m | _ => 0 end.

Definition repr_items (r : repr) : items := match r with RInline i => ICons i INil | RArray l => l end.

(* the items a leaf template field [rt] is written from when the payload has the field [rp]: the payload's first
   items, and -- when the payload has fewer items than the template -- the template's own items from there on
   ("the payload-field-values when possible, with template-field's values used to pad out", MessageField::TemplatedFlatten) *)
Definition tmpl_src_items (rt rp : repr) : items :=
  if repr_count rt <=? repr_count rp then items_take (repr_count rt) (repr_items rp)
  else items_app (repr_items rp) (items_drop (repr_count rp) (repr_items rt)).

Definition items_head_msg (l : items) : option msg :=
  match l with ICons (IMsg m) _ => Some m | _ => None end.
Definition items_tail (l : items) : items := match l with ICons _ t => t | INil => INil end.

(* the payload field a template field is matched with: Message::TemplatedFlatten checks the type code *)
Definition payload_for (n : bytes) (tc : N) (fp : fields) : option repr :=
  match flookup n fp with
  | Some (tcp, rp) => if tcp =? tc then Some rp else None
  | None => None
  end.

(* ================================================================== TemplatedFlattenedSize *)

Fixpoint ts_msg (t p : msg) {struct t} : N :=
  match t, p with
  | Msg _ ft, Msg _ fp => c_SIZEOF_uint32 + ts_fields ft fp
  end
with ts_fields (ft fp : fields) {struct ft} : N :=
  match ft with
  | FNil => 0
  | FCons n tc rt tl =>
      (if flattenable tc then ts_field (ftype_of_tc tc) rt (payload_for n tc fp) else 0) + ts_fields tl fp
  end
with ts_field (ft : ftype) (rt : repr) (pay : option repr) {struct rt} : N :=
  match ft with
  | TMessage =>
      let lp := match pay with Some rp => repr_items rp | None => INil end in
      (1 + repr_count rt) * c_SIZEOF_uint32 +
      match rt with
      | RInline it => ts_item it lp
      | RArray lt => ts_items lt lp
      end
  | _ =>
      match pay with
      | None => size_repr ft rt
      | Some rp =>
          if ft_elems_fixed ft then size_repr ft rt
          else (1 + repr_count rt) * c_SIZEOF_uint32 +
               (fix sum (l : items) : N := match l with INil => 0 | ICons i t => var_item_size i + sum t end)
                 (tmpl_src_items rt rp)
      end
  end
with ts_item (it : item) (lp : items) {struct it} : N :=       (* one template sub-Message against the payload's *)
  match it with
  | IMsg tm => ts_msg tm (match items_head_msg lp with Some pm => pm | None => tm end)
  | _ => 0
  end
with ts_items (lt : items) (lp : items) {struct lt} : N :=
  match lt with
  | INil => 0
  | ICons it lt2 => ts_item it lp + ts_items lt2 (items_tail lp)
  end.

(* ================================================================== TemplatedFlatten *)

(* the payload field written through its own writer, limited to the first n items *)
Definition flat_limited (ft : ftype) (rp : repr) (n : N) : bytes :=
  match rp with
  | RInline i => flat_single ft i
  | RArray l => flat_repr ft (RArray (items_take n l))
  end.

Fixpoint tf_msg (t p : msg) {struct t} : option bytes :=
  match t, p with
  | Msg _ ft, Msg wp fp => obind (tf_fields ft fp) (fun b => Some (le32 wp ++ b))
  end
with tf_fields (ft fp : fields) {struct ft} : option bytes :=
  match ft with
  | FNil => Some []
  | FCons n tc rt tl =>
      if flattenable tc then
        obind (tf_field (ftype_of_tc tc) rt (payload_for n tc fp)) (fun b =>
          obind (tf_fields tl fp) (fun b2 => Some (b ++ b2)))
      else tf_fields tl fp
  end
with tf_field (ft : ftype) (rt : repr) (pay : option repr) {struct rt} : option bytes :=
  match ft with
  | TMessage =>
      let lp := match pay with Some rp => repr_items rp | None => INil end in
      obind (match rt with
             | RInline it => tf_item it lp
             | RArray lt => tf_items lt lp
             end) (fun b => Some (le32 (repr_count rt) ++ b))
  | _ =>
      match pay with
      | None => Some (flat_repr ft rt)
      | Some rp =>
          if repr_count rt <=? repr_count rp then Some (flat_limited ft rp (repr_count rt))
          else Some (flat_repr ft (RArray (tmpl_src_items rt rp)))   (* the template field with its first items replaced *)
      end
  end
with tf_item (it : item) (lp : items) {struct it} : option bytes :=
  match it with
  | IMsg tm =>
      let src := match items_head_msg lp with Some pm => pm | None => tm end in
      obind (tf_msg tm src) (fun b => Some (le32 (ts_msg tm src) ++ b))
  | _ => None
  end
with tf_items (lt : items) (lp : items) {struct lt} : option bytes :=
  match lt with
  | INil => Some []
  | ICons it lt2 => obind (tf_item it lp) (fun b => obind (tf_items lt2 (items_tail lp)) (fun b2 => Some (b ++ b2)))
  end.

(* ================================================================== what the templated bytes stand for *)

(* The Message TemplatedFlatten(t) of p describes ("this Message, or at least the part of it that matched the
   template"): the template's flattenable fields in the template's order; a field the payload has with the same
   type code takes the payload's items (cut or padded to the template's item count, tmpl_src_items), any other
   field keeps the template's items; sub-Messages are merged one by one, a missing one is the template's. *)
Fixpoint mg_msg (t p : msg) {struct t} : msg :=
  match t, p with Msg _ ft, Msg wp fp => Msg wp (mg_fields ft fp) end
with mg_fields (ft fp : fields) {struct ft} : fields :=
  match ft with
  | FNil => FNil
  | FCons n tc rt tl =>
      if flattenable tc then FCons n tc (mg_field (ftype_of_tc tc) rt (payload_for n tc fp)) (mg_fields tl fp)
      else mg_fields tl fp
  end
with mg_field (ft : ftype) (rt : repr) (pay : option repr) {struct rt} : repr :=
  match ft with
  | TMessage =>
      let lp := match pay with Some rp => repr_items rp | None => INil end in
      match rt with
      | RInline it => RInline (mg_item it lp)
      | RArray lt => RArray (mg_items lt lp)
      end
  | _ => match pay with None => rt | Some rp => RArray (tmpl_src_items rt rp) end
  end
with mg_item (it : item) (lp : items) {struct it} : item :=
  match it with
  | IMsg tm => IMsg (mg_msg tm (match items_head_msg lp with Some pm => pm | None => tm end))
  | _ => it
  end
with mg_items (lt : items) (lp : items) {struct lt} : items :=
  match lt with
  | INil => INil
  | ICons it lt2 => ICons (mg_item it lp) (mg_items lt2 (items_tail lp))
  end.

Definition tmpl_merge (t p : msg) : msg := mg_msg t p.

(* ================================================================== TemplatedUnflatten *)

Definition no_inner (w : bytes) : res (msg * bytes) := Err.    (* never consulted: not used for Message fields *)

(* the size walk of a String / raw field: count word, then n length-prefixed items; the number of bytes spanned *)
Fixpoint walk_items (n : nat) (w : bytes) (acc : N) : res N :=
  match n with
  | O => Ok acc
  | S k =>
      bind (rd32 w) (fun p =>
        if len (snd p) <? fst p then Err        (* declared item-size larger than what remains (fix 685aa1e) *)
        else walk_items k (dropN (fst p) (snd p)) (acc + c_SIZEOF_uint32 + fst p))
  end.

Fixpoint tu_msg (t : msg) (w : bytes) {struct t} : res (msg * bytes) :=
  match t with
  | Msg _ ft =>
      bind (rd32 w) (fun pw =>
        bind (tu_fields ft FNil (snd pw)) (fun q => Ok (Msg (fst pw) (fst q), snd q)))
  end
with tu_fields (ft : fields) (acc : fields) (w : bytes) {struct ft} : res (fields * bytes) :=
  match ft with
  | FNil => Ok (acc, w)
  | FCons n tc rt tl =>
      if flattenable tc then
        match flookup n acc with
        | Some _ => Err            (* a template is a Message: its names are unique, this cannot happen *)
        | None =>
            bind (tu_field (ftype_of_tc tc) rt w) (fun q =>
              tu_fields tl (fsnoc acc n tc (fst q)) (snd q))
        end
      else tu_fields tl acc w
  end
with tu_field (ft : ftype) (rt : repr) (w : bytes) {struct rt} : res (repr * bytes) :=
  if ft_elems_fixed ft then
    let sz := size_repr ft rt in                          (* the TEMPLATE field's FlattenedSize() *)
    if len w <? sz then Err
    else bind (dec_field no_inner ft (takeN sz w)) (fun q => Ok (fst q, snd q ++ dropN sz w))
  else
    bind (rd32 w) (fun pc =>
      if negb (fst pc =? repr_count rt) then Err
      else
        match ft with
        | TMessage =>
            (* custom loop: per sub-Message a length word, then the templated sub-Message; AddDataItem *)
            bind (match rt with
                  | RInline it => tu_sub it None (snd pc)
                  | RArray lt => tu_subs lt None (snd pc)
                  end) (fun q =>
              match fst q with
              | Some r => Ok (r, snd q)
              | None => Err          (* zero sub-Messages: GetOrCreateMessageField leaves an empty field; not produced *)
              end)
        | _ =>
            bind (walk_items (N.to_nat (repr_count rt)) (snd pc) c_SIZEOF_uint32) (fun total =>
              bind (dec_field no_inner ft (takeN total w)) (fun q => Ok (fst q, snd q ++ dropN total w)))
        end)
with tu_sub (it : item) (cur : option repr) (w : bytes) {struct it} : res (option repr * bytes) :=
  match it with
  | IMsg tm =>
      bind (rd32 w) (fun p =>
        if len (snd p) <? fst p then Err
        else bind (tu_msg tm (takeN (fst p) (snd p))) (fun q =>
               Ok (Some (push false cur (IMsg (fst q))), dropN (fst p) (snd p))))
  | _ => Err
  end
with tu_subs (lt : items) (cur : option repr) (w : bytes) {struct lt} : res (option repr * bytes) :=
  match lt with
  | INil => Ok (cur, w)
  | ICons it lt2 => bind (tu_sub it cur w) (fun q => tu_subs lt2 (fst q) (snd q))
  end.

Definition tmpl_flatten (t p : msg) : option bytes := tf_msg t p.
Definition tmpl_flattened_size (t p : msg) : N := ts_msg t p.
Definition tmpl_unflatten (t : msg) (w : bytes) : res msg := bind (tu_msg t w) (fun q => Ok (fst q)).

(* ================================================================== CreateMessageTemplate *)

Fixpoint zeros (n : nat) : bytes := match n with O => [] | S k => x00 :: zeros k end.

(* Rect's default constructor is (left, top, right, bottom) = (0, 0, -1, -1) *)
Definition default_rect : bytes := zeros 8 ++ [x00; x00; x80; xbf; x00; x00; x80; xbf].

(* n default items added one by one (inline, then an array): AddData(name, type, NULL, n*size), AddString x n *)
Fixpoint push_n (n : nat) (cur : option repr) (v : item) : option repr :=
  match n with
  | O => cur
  | S k => push_n k (Some (push false cur v)) v
  end.

Fixpoint items_map_raw_empty (l : items) : items :=
  match l with INil => INil | ICons _ t => ICons (IRaw []) (items_map_raw_empty t) end.

Fixpoint tmpl_of_msg (m : msg) : msg :=
  match m with Msg w fs => Msg w (tmpl_of_fields fs) end
with tmpl_of_fields (fs : fields) : fields :=
  match fs with
  | FNil => FNil
  | FCons n tc r t =>
      if flattenable tc then
        match tmpl_of_repr (ftype_of_tc tc) r with
        | Some r' => FCons n tc r' (tmpl_of_fields t)
        | None => tmpl_of_fields t
        end
      else tmpl_of_fields t
  end
with tmpl_of_repr (ft : ftype) (r : repr) {struct r} : option repr :=
  match ft with
  | TMessage => match r with RInline i => tmpl_of_item i None | RArray l => tmpl_of_items l None end
  | TString => push_n (N.to_nat (repr_count r)) None (IStr [])
  | TRaw => Some (match r with RInline _ => RInline (IRaw []) | RArray l => RArray (items_map_raw_empty l) end)
  | TPointer | TTag => None
  | TRect => push_n (N.to_nat (repr_count r)) None (IFix default_rect)
  | _ => push_n (N.to_nat (repr_count r)) None (IFix (zeros (N.to_nat (cpp_size ft))))
  end
with tmpl_of_item (i : item) (cur : option repr) {struct i} : option repr :=
  match i with
  | IMsg m => Some (push false cur (IMsg (tmpl_of_msg m)))
  | _ => cur
  end
with tmpl_of_items (l : items) (cur : option repr) {struct l} : option repr :=
  match l with
  | INil => cur
  | ICons i t => tmpl_of_items t (tmpl_of_item i cur)
  end.

(* ================================================================== same shape *)

(* p has the shape of the template t: the same flattenable fields in the same order, with the same names,
   type codes and item counts, recursively for sub-Messages (what TemplateHashCode64 equality stands for).
   The second argument is expected stripped (strip_msg): see [same_shape]. *)
Fixpoint shape_msg (t p : msg) {struct t} : bool :=
  match t, p with Msg _ ft, Msg _ fp => shape_fields ft fp end
with shape_fields (ft fp : fields) {struct ft} : bool :=
  match ft with
  | FNil => match fp with FNil => true | _ => false end
  | FCons n tc rt tl =>
      if flattenable tc then
        match fp with
        | FCons n2 tc2 rp tp =>
            bytes_eqb n n2 && (tc =? tc2) && (repr_count rt =? repr_count rp) &&
            shape_repr (ftype_of_tc tc) rt (repr_items rp) && shape_fields tl tp
        | FNil => false
        end
      else shape_fields tl fp
  end
with shape_repr (ft : ftype) (rt : repr) (lp : items) {struct rt} : bool :=
  match ft with
  | TMessage => match rt with RInline it => shape_item it lp | RArray lt => shape_items lt lp end
  | _ => true
  end
with shape_item (it : item) (lp : items) {struct it} : bool :=
  match it, lp with
  | IMsg tm, ICons (IMsg pm) _ => shape_msg tm pm
  | _, _ => false
  end
with shape_items (lt : items) (lp : items) {struct lt} : bool :=
  match lt with
  | INil => true
  | ICons it lt2 => shape_item it lp && shape_items lt2 (items_tail lp)
  end.

Definition same_shape (t p : msg) : bool := shape_msg t (strip_msg p).

(* ================================================================== TemplateHashCode64 *)

(* Message::TemplateHashCode64 / TemplateHashCode64Aux: the key under which MessageIOGateway caches templates.
   A running uint32 counter numbers the flattenable fields in traversal order (depth first through the
   sub-Messages); each contributes count * (HashCode64(name) + numItems * typeCode) in uint64 arithmetic.
   [h64] is String::HashCode64 (MurmurHash64A): a parameter. *)
Definition two64 : N := 18446744073709551616.
Definition u64 (n : N) : N := n mod two64.

Section TemplateHash.
  Variable h64 : bytes -> N.

  Fixpoint th_msg (m : msg) (cnt : N) {struct m} : N * N :=         (* (sum, counter afterwards) *)
    match m with Msg _ fs => th_fields fs cnt end
  with th_fields (fs : fields) (cnt : N) {struct fs} : N * N :=
    match fs with
    | FNil => (0, cnt)
    | FCons n tc r t =>
        if flattenable tc then
          let c1 := u32 (cnt + 1) in
          let s1 := c1 * (u64 (h64 n) + repr_count r * tc) in
          let sub := match ftype_of_tc tc with TMessage => th_repr r c1 | _ => (0, c1) end in
          let rest := th_fields t (snd sub) in
          (u64 (s1 + fst sub + fst rest), snd rest)
        else th_fields t cnt
    end
  with th_repr (r : repr) (cnt : N) {struct r} : N * N :=
    match r with RInline i => th_item i cnt | RArray l => th_items l cnt end
  with th_item (i : item) (cnt : N) {struct i} : N * N :=
    match i with IMsg m => th_msg m cnt | _ => (0, cnt) end
  with th_items (l : items) (cnt : N) {struct l} : N * N :=
    match l with
    | INil => (0, cnt)
    | ICons i t => let a := th_item i cnt in let b := th_items t (snd a) in (u64 (fst a + fst b), snd b)
    end.

  Definition tmpl_hash (m : msg) : N :=
    let s := fst (th_msg m 0) in if s =? 0 then 1 else s.      (* zero is reserved as a guard value *)
End TemplateHash.
