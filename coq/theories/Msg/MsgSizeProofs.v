(* Msg/MsgSizeProofs.v -- the translated size tables agree; the advertised flattened size is the number of
   bytes written (the size-then-write contract of DataFlattener), at every nesting level. *)
From Coq Require Import List NArith Bool Strings.Byte Lia.
From Muscle Require Import Gen.Consts Msg.MsgDefs Msg.MsgModel Msg.MsgBytesProofs.
Import ListNotations.
Local Open Scope N_scope.

(* ------------------------------------------------------------------ side conditions on translated constants *)

Lemma sizeof_u32 : c_SIZEOF_uint32 = 4.
Proof. reflexivity. Qed.

(* the three size tables of Message.cpp (GetFlattenedSizeForFixedSizeType, GetElementSize via
   SingleFlattenedSize, sizeof(DataType)/FlatItemSize of the array classes) agree on every fixed-size
   flattenable type and are positive; re-checked by computation whenever a table entry changes *)
Lemma size_tables_ok (ft : ftype) :
  ft_fixed ft = true ->
  wire_size ft = cpp_size ft /\ arr_unit ft = cpp_size ft /\ 0 < cpp_size ft.
Proof. destruct ft; intro H; try discriminate H; vm_compute; repeat split; reflexivity. Qed.

Lemma wire_size_var (ft : ftype) : ft_fixed ft = false -> ft_flattenable ft = true -> wire_size ft = 0.
Proof. destruct ft; intros H1 H2; try discriminate; reflexivity. Qed.

Lemma cpp_size_bool : cpp_size TBool = 1.
Proof. reflexivity. Qed.

Lemma proto_version_ok :
  (c_OLDEST_SUPPORTED_PROTOCOL_VERSION <=? c_CURRENT_PROTOCOL_VERSION) = true /\ c_CURRENT_PROTOCOL_VERSION < two32.
Proof. split; reflexivity. Qed.

Lemma size_single_fixed (ft : ftype) (i : item) : ft_fixed ft = true -> size_single ft i = cpp_size ft.
Proof. destruct ft; intro H; try discriminate H; destruct i; reflexivity. Qed.

(* ------------------------------------------------------------------ flatten_length *)

Definition elem_len (ft : ftype) (i : item) : N :=
  if ft_fixed ft then cpp_size ft
  else match ft with TString => 4 + size_elem ft i | _ => size_elem ft i end.

Definition items_flat_len (ft : ftype) (l : items) : N :=
  if ft_fixed ft then items_len l * cpp_size ft
  else match ft with TString => 4 * items_len l + size_items ft l | _ => size_items ft l end.

Ltac szsimp := rewrite ?len_app, ?len_le32, ?len_cons, ?len_nil, ?sizeof_u32 in *.

Lemma flatten_length_all :
  (forall i ft, ft_flattenable ft = true -> wf_item ft i ->
       len (flat_single ft i) = size_single ft i /\ len (flat_elem ft i) = elem_len ft i) /\
  (forall l ft, ft_flattenable ft = true -> wf_items ft l -> len (flat_items ft l) = items_flat_len ft l) /\
  (forall r ft, ft_flattenable ft = true -> wf_repr ft r -> len (flat_repr ft r) = size_repr ft r) /\
  (forall fs, wf_fields fs -> len (flat_fields fs) = size_fields fs) /\
  (forall m, wf_msg m -> len (flat_msg m) = size_msg m).
Proof.
  apply msg_mutind.
  - (* IFix *)
    intros bs ft Hf Hwf. destruct ft; cbn in Hwf; try contradiction; try discriminate Hf.
    + (* bool *) destruct Hwf as [-> | ->]; split; reflexivity.
    + split; [cbn [flat_single]; rewrite Hwf; reflexivity | cbn [flat_elem]; rewrite Hwf; reflexivity].
    + split; [cbn [flat_single]; rewrite Hwf; reflexivity | cbn [flat_elem]; rewrite Hwf; reflexivity].
    + split; [cbn [flat_single]; rewrite Hwf; reflexivity | cbn [flat_elem]; rewrite Hwf; reflexivity].
    + split; [cbn [flat_single]; rewrite Hwf; reflexivity | cbn [flat_elem]; rewrite Hwf; reflexivity].
    + split; [cbn [flat_single]; rewrite Hwf; reflexivity | cbn [flat_elem]; rewrite Hwf; reflexivity].
    + split; [cbn [flat_single]; rewrite Hwf; reflexivity | cbn [flat_elem]; rewrite Hwf; reflexivity].
    + split; [cbn [flat_single]; rewrite Hwf; reflexivity | cbn [flat_elem]; rewrite Hwf; reflexivity].
    + split; [cbn [flat_single]; rewrite Hwf; reflexivity | cbn [flat_elem]; rewrite Hwf; reflexivity].
  - (* IStr *)
    intros s ft Hf Hwf. destruct ft; cbn in Hwf; try contradiction; try discriminate Hf.
    split.
    + cbn [flat_single size_single]. szsimp. unfold str_flat_size. lia.
    + cbn [flat_elem]. unfold elem_len. cbn [ft_fixed size_elem]. szsimp. unfold str_flat_size. lia.
  - (* IRaw *)
    intros b ft Hf Hwf. destruct ft; cbn in Hwf; try contradiction; try discriminate Hf.
    split.
    + cbn [flat_single]. change (size_single TRaw (IRaw b)) with (c_SIZEOF_uint32 + c_SIZEOF_uint32 + len b). szsimp. lia.
    + cbn [flat_elem]. unfold elem_len. cbn [ft_fixed size_elem]. szsimp. lia.
  - (* IMsg *)
    intros m IH ft Hf Hwf. destruct ft; cbn in Hwf; try contradiction; try discriminate Hf.
    split.
    + cbn [flat_single size_single]. szsimp. rewrite (IH Hwf). lia.
    + cbn [flat_elem]. unfold elem_len. cbn [ft_fixed size_elem]. szsimp. rewrite (IH Hwf). lia.
  - (* IOpaque *)
    intros id ft Hf Hwf. destruct ft; cbn in Hwf; try contradiction; try discriminate Hf.
  - (* INil *)
    intros ft Hf _. unfold items_flat_len. cbn [flat_items len items_len size_items]. destruct ft; cbn; reflexivity.
  - (* ICons *)
    intros i IHi t IHt ft Hf [Hwi Hwt].
    cbn [flat_items]. rewrite len_app. destruct (IHi ft Hf Hwi) as [_ ->]. rewrite (IHt ft Hf Hwt).
    unfold items_flat_len, elem_len. cbn [items_len size_items].
    destruct (ft_fixed ft); [lia|]. destruct ft; lia.
  - (* RInline *)
    intros i IH ft Hf Hw. cbn [flat_repr size_repr]. apply (IH ft Hf Hw).
  - (* RArray *)
    intros l IH ft Hf Hw. cbn in Hw. specialize (IH ft Hf Hw). unfold items_flat_len in IH.
    destruct ft; try discriminate Hf; cbn [flat_repr size_repr ft_fixed] in *; szsimp;
      rewrite ?IH; try reflexivity; try (vm_compute (cpp_size _); vm_compute (arr_unit _); lia); lia.
  - (* FNil *) intros _. reflexivity.
  - (* FCons *)
    intros n tc r IHr t IHt (Hn & Htc & Hr & Ht).
    cbn [flat_fields size_fields]. rewrite len_app, (IHt Ht).
    destruct (flattenable tc) eqn:Fl; [|reflexivity].
    szsimp. rewrite (IHr _ Fl Hr). unfold str_flat_size. lia.
  - (* Msg *)
    intros w fs IH (Hw & Hnd & Hfs). cbn [flat_msg size_msg]. szsimp. rewrite (IH Hfs). lia.
Qed.

Theorem flatten_length (m : msg) : wf_msg m -> len (flatten m) = flattened_size m.
Proof. apply flatten_length_all. Qed.

Corollary flatten_length_nat (m : msg) : wf_msg m -> N.of_nat (length (flatten m)) = flattened_size m.
Proof. intro H. rewrite <- len_length. apply flatten_length. exact H. Qed.
