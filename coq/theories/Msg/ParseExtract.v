(* C02: extraction of the instrumented parser models for the correspondence run (ExtrOcamlBasic only). *)
From Coq Require Import ExtrOcamlBasic.
From Coq Require Extraction.
From Coq Require Import List NArith Bool Strings.Byte.
From Muscle Require Import Gen.Consts Msg.MsgDefs Msg.MsgInstr Gw.RecvInstr.
Import ListNotations.
Local Open Scope N_scope.

(* MessageIOGateway::UnflattenHeaderAndMessage on a complete receive buffer, default encoding only (the zlib
   encodings are outside the correspondence: they are treated as failing, and the generator never sends valid ones
   to the modelled target): size word consistent with the buffer, encoding word, then Message::Unflatten through
   DataUnflattener(buffer, MUSCLE_NO_LIMIT, headerSize). *)
Definition gw_parse (fx : fixes) (buf : bytes) : res msg :=
  if len buf <? g_hs then Err
  else if negb (u32 (g_hs + body_size buf) =? len buf) then Err
  else if negb (enc_word buf =? c_MUSCLE_MESSAGE_ENCODING_DEFAULT) then Err
  else result_of (unflat_msg buf fx (S (length buf)) 0 (mkR g_hs 0 (len buf - g_hs) false) log0).
Definition gw_unflat (fx : fixes) (buf : bytes) : bool :=
  match gw_parse fx buf with Ok _ => true | _ => false end.

Definition nolim : N := c_MUSCLE_NO_LIMIT.
Definition proto_version : N := c_CURRENT_PROTOCOL_VERSION.
Definition msg_type_code : N := c_B_MESSAGE_TYPE.

Extraction "parse_model.ml" unflatten_i tunflatten_i fixed pinned result_of consumed accesses allocated depth_reached ub_events
  feed_segment g_init glog0 gw_unflat gw_parse nolim proto_version msg_type_code byte_of_N N_of_byte len.
