(* Msg/MsgSpec.v -- the MUSCLE Message wire format AS DOCUMENTED (C08), written from the layout comment of
   Message::Flatten / MMFlattenMessage and the per-type notes, without reference to how the C++ represents
   a field (inline item or array object) and without the translated constants:

     0. protocol revision number 'PM00'                      4 bytes little-endian
     1. 'what' code                                           4 bytes
     2. number of entries                                     4 bytes
     per entry:
     3. entry name length (including the NUL)                 4 bytes
     4. entry name, NUL-terminated
     5. entry type code                                       4 bytes
     6. entry data length                                     4 bytes
     7. entry data:
          fixed-size types (BOOL 1, BYTE 1, SHRT 2, LONG 4, LLNG 8, FLOT 4, DBLE 8, BPNT 2x4, RECT 4x4):
              the items back to back, little-endian, NO item count
          MSGG: per sub-Message a 4-byte length followed by the flattened sub-Message, NO item count
          CSTR: 4-byte item count, then per string a 4-byte length (including the NUL) and the
              NUL-terminated characters
          any other type code: 4-byte item count, then per item a 4-byte length and the raw bytes
     PNTR and MTAG fields are never written.
   The stream frame (MessageIOGateway): 4-byte body length, 4-byte encoding id ('Enc0' = uncompressed), body.
   No proofs in this file. *)
From Coq Require Import List NArith Bool Strings.Byte Ascii String.
From Muscle Require Import Msg.MsgDefs.
Import ListNotations.
Local Open Scope N_scope.

(* a four-character constant 'ABCD' (A is the most significant byte) *)
Definition fourcc (s : string) : N :=
  match s with
  | String a (String b (String c (String d EmptyString))) =>
      ((N_of_ascii a * 256 + N_of_ascii b) * 256 + N_of_ascii c) * 256 + N_of_ascii d
  | _ => 0
  end.

Definition s_PM00 : N := Eval vm_compute in fourcc "PM00".
Definition s_Enc0 : N := Eval vm_compute in fourcc "Enc0".
Definition s_BOOL : N := Eval vm_compute in fourcc "BOOL".
Definition s_BYTE : N := Eval vm_compute in fourcc "BYTE".
Definition s_SHRT : N := Eval vm_compute in fourcc "SHRT".
Definition s_LONG : N := Eval vm_compute in fourcc "LONG".
Definition s_LLNG : N := Eval vm_compute in fourcc "LLNG".
Definition s_FLOT : N := Eval vm_compute in fourcc "FLOT".
Definition s_DBLE : N := Eval vm_compute in fourcc "DBLE".
Definition s_BPNT : N := Eval vm_compute in fourcc "BPNT".
Definition s_RECT : N := Eval vm_compute in fourcc "RECT".
Definition s_MSGG : N := Eval vm_compute in fourcc "MSGG".
Definition s_CSTR : N := Eval vm_compute in fourcc "CSTR".
Definition s_PNTR : N := Eval vm_compute in fourcc "PNTR".
Definition s_MTAG : N := Eval vm_compute in fourcc "MTAG".

Inductive sclass :=
| SFixed (width : N)      (* items of a fixed width, back to back *)
| SMessage                (* length-prefixed sub-Messages, no count *)
| SString                 (* count, then length-prefixed NUL-terminated strings *)
| SOther                  (* count, then length-prefixed raw items *)
| SNone.                  (* never written *)

Definition spec_class (tc : N) : sclass :=
  if tc =? s_BOOL then SFixed 1
  else if tc =? s_DBLE then SFixed 8
  else if tc =? s_FLOT then SFixed 4
  else if tc =? s_LLNG then SFixed 8
  else if tc =? s_LONG then SFixed 4
  else if tc =? s_SHRT then SFixed 2
  else if tc =? s_BYTE then SFixed 1
  else if tc =? s_BPNT then SFixed 8
  else if tc =? s_RECT then SFixed 16
  else if tc =? s_PNTR then SNone
  else if tc =? s_MTAG then SNone
  else if tc =? s_MSGG then SMessage
  else if tc =? s_CSTR then SString
  else SOther.

Definition with_len (b : bytes) : bytes := le32 (len b) ++ b.

Definition spec_count_word (c : sclass) (n : N) : bytes :=
  match c with SString | SOther => le32 n | _ => [] end.

Fixpoint spec_count (fs : fields) : N :=
  match fs with
  | FNil => 0
  | FCons _ tc _ t => (match spec_class tc with SNone => 0 | _ => 1 end) + spec_count t
  end.

Fixpoint spec_msg (m : msg) : bytes :=
  match m with
  | Msg w fs => le32 s_PM00 ++ le32 w ++ le32 (spec_count fs) ++ spec_fields fs
  end
with spec_fields (fs : fields) : bytes :=
  match fs with
  | FNil => []
  | FCons n tc r t =>
      (match spec_class tc with
       | SNone => []
       | c => with_len (n ++ [x00]) ++ le32 tc ++ with_len (spec_payload c r)
       end) ++ spec_fields t
  end
with spec_payload (c : sclass) (r : repr) {struct r} : bytes :=
  match r with
  | RInline i => spec_count_word c 1 ++ spec_item c i            (* a field is just the list of its items *)
  | RArray l => spec_count_word c (items_len l) ++ spec_items c l
  end
with spec_item (c : sclass) (i : item) {struct i} : bytes :=
  match c, i with
  | SFixed _, IFix bs => bs
  | SMessage, IMsg m => with_len (spec_msg m)
  | SString, IStr s => with_len (s ++ [x00])
  | SOther, IRaw b => with_len b
  | _, _ => []
  end
with spec_items (c : sclass) (l : items) {struct l} : bytes :=
  match l with
  | INil => []
  | ICons i t => spec_item c i ++ spec_items c t
  end.

(* the stream frame of MessageIOGateway (and of the C and Python gateways) *)
Definition frame (encoding : N) (body : bytes) : bytes := le32 (len body) ++ le32 encoding ++ body.

Definition unframe (w : bytes) : option (N * bytes * bytes) :=     (* (encoding, body, rest) *)
  match w with
  | a :: b :: c :: d :: e :: f :: g :: h :: t =>
      let n := le_dec [a; b; c; d] in
      if n <=? len t then Some (le_dec [e; f; g; h], takeN n t, dropN n t) else None
  | _ => None
  end.
