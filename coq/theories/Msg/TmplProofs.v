(* Msg/TmplProofs.v -- the templated Message codec round-trips: for a payload that has the shape of the
   template (same flattenable fields, order, names, types, counts, recursively -- what TemplateHashCode64
   equality stands for in MessageIOGateway), TemplatedUnflatten (TemplatedFlatten payload) is the payload
   (modulo strip and norm, as for the ordinary codec), and TemplatedFlattenedSize is the byte count. *)
From Coq Require Import List NArith Bool Strings.Byte Lia Arith.
From Muscle Require Import Gen.Consts Msg.MsgDefs Msg.MsgModel Msg.MsgApi Msg.TmplModel
  Msg.MsgBytesProofs Msg.MsgSizeProofs Msg.MsgRoundTrip Msg.MsgApiProofs Msg.MsgExamples.
Import ListNotations.
Local Open Scope N_scope.

(* ------------------------------------------------------------------ small facts *)

Lemma items_take_all (l : items) : items_take (items_len l) l = l.
Proof.
  induction l as [|i t IH]; cbn [items_len items_take]; [reflexivity|].
  destruct (N.succ (items_len t) =? 0) eqn:E; [apply N.eqb_eq in E; lia|].
  rewrite N.pred_succ, IH. reflexivity.
Qed.

Lemma ft_fixed_elems (ft : ftype) : ft_flattenable ft = true -> ft_elems_fixed ft = ft_fixed ft.
Proof. destruct ft; intro H; try discriminate H; reflexivity. Qed.

(* the flattened size of a fixed-size field depends on its item count only *)
Lemma size_repr_fixed (ft : ftype) (r : repr) : ft_fixed ft = true -> size_repr ft r = repr_count r * cpp_size ft.
Proof.
  intro Hx. destruct (size_tables_ok ft Hx) as (_ & Eu & _).
  destruct r as [i|l]; cbn [repr_count].
  - cbn [size_repr]. rewrite size_single_fixed by exact Hx. lia.
  - destruct ft; try discriminate Hx; cbn [size_repr]; rewrite Eu; reflexivity.
Qed.

Lemma repr_items_strip (r : repr) : repr_items (strip_repr r) = strip_items (repr_items r).
Proof. destruct r; reflexivity. Qed.

Lemma repr_count_strip (r : repr) : repr_count (strip_repr r) = repr_count r.
Proof. destruct r as [i|l]; cbn [strip_repr repr_count]; [reflexivity|]. exact (proj2 (proj1 (proj2 strip_size_all) l TRaw)). Qed.

(* when the counts agree the limited writer is the ordinary writer *)
Lemma flat_limited_all (ft : ftype) (r : repr) : flat_limited ft r (repr_count r) = flat_repr ft r.
Proof. destruct r as [i|l]; cbn [flat_limited repr_count]; [reflexivity|]. rewrite items_take_all. reflexivity. Qed.

(* ------------------------------------------------------------------ the size walk over String / raw items *)

Lemma walk_items_flat (ft : ftype) (l : items) (rest : bytes) (acc : N) :
  ft = TString \/ ft = TRaw -> wf_items ft l -> len (flat_items ft l) < two32 ->
  walk_items (items_cnt l) (flat_items ft l ++ rest) acc = Ok (acc + len (flat_items ft l)).
Proof.
  intros Hft. revert acc; induction l as [|i t IH]; intros acc Hw Hs.
  - cbn [items_cnt walk_items flat_items len]. rewrite N.add_0_r. reflexivity.
  - destruct Hw as [Hi Ht]. cbn [items_cnt walk_items flat_items].
    cbn [flat_items] in Hs. rewrite len_app in Hs.
    destruct Hft as [-> | ->]; destruct i; cbn [wf_item] in Hi; try contradiction; cbn [flat_elem] in *.
    + assert (L : str_flat_size bs = len (bs ++ [x00])) by (unfold str_flat_size; rewrite len_app; reflexivity).
      rewrite (len_app (le32 _)), len_le32, <- L in Hs.
      rewrite <- !app_assoc. rewrite rd32_le32 by lia. cbn [bind fst snd].
      rewrite (app_assoc bs [x00]).
      destruct (len ((bs ++ [x00]) ++ flat_items TString t ++ rest) <? str_flat_size bs) eqn:E.
      { apply N.ltb_lt in E. rewrite (len_app (bs ++ [x00])), <- L in E. lia. }
      rewrite dropN_app_n by exact L. rewrite IH by (auto; lia).
      rewrite sizeof_u32, (len_app (le32 _)), len_le32, (app_assoc bs [x00]), (len_app (bs ++ [x00])), <- L. f_equal. lia.
    + rewrite (len_app (le32 _)), len_le32 in Hs.
      rewrite <- !app_assoc. rewrite rd32_le32 by lia. cbn [bind fst snd].
      destruct (len (bs ++ flat_items TRaw t ++ rest) <? len bs) eqn:E.
      { apply N.ltb_lt in E. rewrite len_app in E. lia. }
      rewrite dropN_app_exact. rewrite IH by (auto; lia).
      rewrite sizeof_u32, !len_app, len_le32. f_equal. lia.
Qed.

(* ------------------------------------------------------------------ finding the payload field of a template field *)

Fixpoint fin (n : bytes) (tc : N) (r : repr) (fs : fields) : Prop :=
  match fs with
  | FNil => False
  | FCons n' tc' r' t => (n = n' /\ tc = tc' /\ r = r') \/ fin n tc r t
  end.

Lemma fin_name n tc r fs : fin n tc r fs -> In n (fnames fs).
Proof.
  induction fs as [|n' tc' r' t IH]; cbn [fin fnames In]; [tauto|].
  intros [(-> & _ & _)|H]; [left; reflexivity|right; exact (IH H)].
Qed.

Lemma fin_flookup n tc r fs : NoDup (fnames fs) -> fin n tc r fs -> flookup n fs = Some (tc, r).
Proof.
  induction fs as [|n' tc' r' t IH]; cbn [fin fnames flookup]; [tauto|].
  intros Hnd H. inversion Hnd as [|? ? Hnin Hnd']; subst.
  destruct H as [(-> & -> & ->)|H].
  - rewrite bytes_eqb_refl. reflexivity.
  - destruct (bytes_eqb n n') eqn:E; [|exact (IH Hnd' H)].
    apply bytes_eqb_eq in E. subst n'. exfalso. apply Hnin. exact (fin_name _ _ _ _ H).
Qed.

Lemma fin_wf n tc r fs : fin n tc r fs -> wf_fields fs -> nul_free n /\ tc < two32 /\ wf_repr (ftype_of_tc tc) r.
Proof.
  induction fs as [|n' tc' r' t IH]; cbn [fin wf_fields]; [tauto|].
  intros [(-> & -> & ->)|H] (Hn & Htc & Hr & Ht); [auto|exact (IH H Ht)].
Qed.

(* the first flattenable field of a field list, and what follows it *)
Lemma strip_fields_cons_inv (fs : fields) n tc r t :
  strip_fields fs = FCons n tc r t ->
  exists rp fs', flattenable tc = true /\ r = strip_repr rp /\ t = strip_fields fs' /\
                 fin n tc rp fs /\ (forall n0 tc0 r0, fin n0 tc0 r0 fs' -> fin n0 tc0 r0 fs).
Proof.
  induction fs as [|n' tc' r' t' IH]; cbn [strip_fields]; [discriminate|].
  destruct (flattenable tc') eqn:Fl.
  - intro E. injection E as <- <- <- <-. exists r', t'. cbn [fin]. repeat split; auto.
  - intro E. destruct (IH E) as (rp & fs' & H1 & H2 & H3 & H4 & H5).
    exists rp, fs'. cbn [fin]. repeat split; auto.
Qed.

(* ------------------------------------------------------------------ what AddDataItem builds from a list of items *)

Definition repr_of (l : items) : repr := match l with ICons x INil => RInline x | _ => RArray l end.

Fixpoint push_all (cur : option repr) (l : items) : option repr :=
  match l with INil => cur | ICons i t => push_all (Some (push false cur i)) t end.

Lemma norm_repr_of (r : repr) : norm_repr r = repr_of (norm_items (repr_items r)).
Proof. destruct r as [i|[|i [|j t]]]; reflexivity. Qed.

Lemma push_all_app (l1 l2 : items) :
  l1 <> INil -> push_all (Some (repr_of l1)) l2 = Some (repr_of (items_app l1 l2)).
Proof.
  revert l1; induction l2 as [|v t IH]; intros l1 Hne; cbn [push_all].
  - assert (E : items_app l1 INil = l1) by (clear; induction l1 as [|x l IH']; cbn [items_app]; [reflexivity|rewrite IH'; reflexivity]).
    rewrite E. reflexivity.
  - assert (E : push false (Some (repr_of l1)) v = repr_of (items_snoc l1 v)).
    { destruct l1 as [|a [|b l]]; [contradiction| |]; reflexivity. }
    rewrite E, IH.
    + f_equal. f_equal. unfold items_snoc. clear. induction l1 as [|x l IH']; cbn [items_app]; [reflexivity|rewrite IH'; reflexivity].
    + unfold items_snoc. destruct l1; cbn [items_app]; discriminate.
Qed.

Lemma push_all_none (l : items) : l <> INil -> push_all None l = Some (repr_of l).
Proof.
  destruct l as [|v t]; [contradiction|]. intros _. cbn [push_all].
  change (push false None v) with (repr_of (ICons v INil)).
  rewrite push_all_app by discriminate. reflexivity.
Qed.

(* Message-typed fields hold at least one sub-Message, at every level (true of every Message the API builds;
   a template field with zero sub-Messages would leave an empty field behind in TemplatedUnflatten) *)
Fixpoint ne_msg (m : msg) : Prop :=
  match m with Msg _ fs => ne_fields fs end
with ne_fields (fs : fields) : Prop :=
  match fs with
  | FNil => True
  | FCons _ tc r t => (match ftype_of_tc tc with TMessage => 1 <= repr_count r | _ => True end) /\ ne_repr r /\ ne_fields t
  end
with ne_repr (r : repr) : Prop :=
  match r with RInline i => ne_item i | RArray l => ne_items l end
with ne_item (i : item) : Prop :=
  match i with IMsg m => ne_msg m | _ => True end
with ne_items (l : items) : Prop :=
  match l with INil => True | ICons i t => ne_item i /\ ne_items t end.

(* ------------------------------------------------------------------ the templated round trip *)

Definition TR_msg (t : msg) : Prop :=
  forall p, wf_msg t -> ne_msg t -> wf_msg p -> shape_msg t (strip_msg p) = true -> ts_msg t p < two32 ->
  exists b, tf_msg t p = Some b /\ len b = ts_msg t p /\
            forall rest, tu_msg t (b ++ rest) = Ok (norm_msg (strip_msg p), rest).

Definition TR_item (it : item) : Prop :=
  forall lp, wf_item TMessage it -> ne_item it -> wf_items TMessage lp ->
    shape_item it (strip_items lp) = true -> ts_item it lp < two32 ->
  exists b pm lp', lp = ICons (IMsg pm) lp' /\ tf_item it lp = Some b /\ len b = 4 + ts_item it lp /\
            forall cur rest, tu_sub it cur (b ++ rest) = Ok (Some (push false cur (IMsg (norm_msg (strip_msg pm)))), rest).

Definition TR_items (lt : items) : Prop :=
  forall lp, wf_items TMessage lt -> ne_items lt -> wf_items TMessage lp -> items_len lt = items_len lp ->
    shape_items lt (strip_items lp) = true -> ts_items lt lp + 4 * items_len lt < two32 ->
  exists b, tf_items lt lp = Some b /\ len b = 4 * items_len lt + ts_items lt lp /\
            forall cur rest, tu_subs lt cur (b ++ rest) = Ok (push_all cur (norm_items (strip_items lp)), rest).

Definition TR_repr (rt : repr) : Prop :=
  forall ft rp, ft_flattenable ft = true -> wf_repr ft rt -> ne_repr rt ->
    (match ft with TMessage => 1 <= repr_count rt | _ => True end) ->
    wf_repr ft rp -> repr_count rt = repr_count rp ->
    shape_repr ft rt (strip_items (repr_items rp)) = true -> ts_field ft rt (Some rp) < two32 ->
  exists b, tf_field ft rt (Some rp) = Some b /\ len b = ts_field ft rt (Some rp) /\
            forall rest, tu_field ft rt (b ++ rest) = Ok (norm_repr (strip_repr rp), rest).

Definition TR_fields (ft : fields) : Prop :=
  forall all fps acc rest, wf_fields ft -> ne_fields ft -> NoDup (fnames ft) ->
    NoDup (fnames all) -> wf_fields all -> (forall n tc r, fin n tc r fps -> fin n tc r all) ->
    (forall n, In n (fnames ft) -> flookup n acc = None) ->
    shape_fields ft (strip_fields fps) = true -> ts_fields ft all < two32 ->
  exists b, tf_fields ft all = Some b /\ len b = ts_fields ft all /\
            tu_fields ft acc (b ++ rest) = Ok (fapp acc (norm_fields (strip_fields fps)), rest).

Lemma strip_items_cons_inv (lp : items) i t : strip_items lp = ICons i t -> exists j lp', lp = ICons j lp' /\ i = strip_item j /\ t = strip_items lp'.
Proof. destruct lp as [|j lp']; cbn [strip_items]; [discriminate|]. intro E. injection E as <- <-. eauto. Qed.

Lemma items_tail_strip (lp : items) : items_tail (strip_items lp) = strip_items (items_tail lp).
Proof. destruct lp; reflexivity. Qed.

(* ------------------------------------------------------------------ template fields of leaf type *)

Lemma strip_repr_leaf (ft : ftype) (r : repr) : ft <> TMessage -> ft_flattenable ft = true -> wf_repr ft r -> strip_repr r = r.
Proof.
  intros Hm Hf Hw. destruct r as [i|l]; cbn [strip_repr].
  - cbn [wf_repr] in Hw. destruct i; try reflexivity.
    destruct ft; cbn [wf_item] in Hw; try contradiction; try discriminate Hf; congruence.
  - f_equal. cbn [wf_repr] in Hw. induction l as [|i t IH]; cbn [strip_items]; [reflexivity|].
    destruct Hw as [Hi Ht]. rewrite (IH Ht). destruct i; try reflexivity.
    destruct ft; cbn [wf_item] in Hi; try contradiction; try discriminate Hf; congruence.
Qed.

Fixpoint var_sum (l : items) : N := match l with INil => 0 | ICons i t => var_item_size i + var_sum t end.

Lemma var_sum_items (ft : ftype) (l : items) :
  ft = TString \/ ft = TRaw -> wf_items ft l ->
  var_sum l + (match ft with TRaw => 4 * items_len l | _ => 0 end) = size_items ft l.
Proof.
  intros Hft. induction l as [|i t IH]; intro Hw; cbn [var_sum size_items items_len]; [destruct ft; reflexivity|].
  destruct Hw as [Hi Ht]. specialize (IH Ht).
  destruct Hft as [-> | ->]; destruct i; cbn [wf_item] in Hi; try contradiction; cbn [var_item_size size_elem] in *;
    rewrite ?sizeof_u32; lia.
Qed.

(* a String / raw field is written as its count word followed by its items, whatever its state *)
Lemma flat_repr_var (ft : ftype) (r : repr) :
  ft = TString \/ ft = TRaw -> wf_repr ft r ->
  flat_repr ft r = le32 (repr_count r) ++ flat_items ft (repr_items r) /\
  size_repr ft r = (1 + repr_count r) * 4 + var_sum (repr_items r).
Proof.
  intros Hft Hw. destruct r as [i|l]; cbn [repr_count repr_items wf_repr] in *.
  - destruct Hft as [-> | ->]; destruct i; cbn [wf_item] in Hw; try contradiction.
    + cbn [flat_repr flat_single flat_items flat_elem size_repr size_single var_sum var_item_size].
      rewrite app_nil_r, sizeof_u32. split; [reflexivity|lia].
    + cbn [flat_repr flat_single flat_items flat_elem var_sum var_item_size].
      change (size_repr TRaw (RInline (IRaw bs))) with (c_SIZEOF_uint32 + c_SIZEOF_uint32 + len bs).
      rewrite app_nil_r, sizeof_u32. split; [reflexivity|lia].
  - pose proof (var_sum_items ft l Hft Hw) as Hv.
    destruct Hft as [-> | ->]; cbn [flat_repr size_repr]; rewrite sizeof_u32; split; try reflexivity; lia.
Qed.

Lemma take_var_sum (r : repr) : items_take (repr_count r) (repr_items r) = repr_items r.
Proof. destruct r as [i|l]; cbn [repr_count repr_items]; [reflexivity|apply items_take_all]. Qed.

Lemma items_cnt_repr (r : repr) : N.to_nat (repr_count r) = items_cnt (repr_items r).
Proof.
  destruct r as [i|l]; cbn [repr_count repr_items items_cnt]; [reflexivity|].
  rewrite items_len_cnt, Nat2N.id. reflexivity.
Qed.

Lemma wf_repr_items (ft : ftype) (r : repr) : wf_repr ft r -> wf_items ft (repr_items r).
Proof. destruct r; cbn [wf_repr repr_items wf_items]; auto. Qed.

Lemma tr_field_leaf (ft : ftype) (rt rp : repr) :
  ft_flattenable ft = true -> ft <> TMessage -> wf_repr ft rp -> repr_count rt = repr_count rp ->
  ts_field ft rt (Some rp) < two32 ->
  exists b, tf_field ft rt (Some rp) = Some b /\ len b = ts_field ft rt (Some rp) /\
            forall rest, tu_field ft rt (b ++ rest) = Ok (norm_repr (strip_repr rp), rest).
Proof.
  intros Hf Hm Hwp Hc Hs.
  assert (Etf : tf_field ft rt (Some rp) = Some (flat_repr ft rp)).
  { destruct ft; try discriminate Hf; try congruence;
      destruct rt; cbn [tf_field]; rewrite Hc, N.leb_refl, flat_limited_all; reflexivity. }
  pose proof (proj1 (proj2 (proj2 flatten_length_all)) rp ft Hf Hwp) as Hl.
  rewrite (strip_repr_leaf ft rp Hm Hf Hwp).
  exists (flat_repr ft rp). split; [exact Etf|].
  destruct (ft_fixed ft) eqn:Hx.
  - (* fixed-size items: the template's FlattenedSize is the payload's *)
    assert (Ets : ts_field ft rt (Some rp) = size_repr ft rt).
    { destruct ft; try discriminate Hx; destruct rt; reflexivity. }
    assert (Esz : size_repr ft rt = size_repr ft rp) by (rewrite !size_repr_fixed by exact Hx; rewrite Hc; reflexivity).
    rewrite Ets in *. split; [rewrite Hl, Esz; reflexivity|].
    intro rest.
    assert (Etu : tu_field ft rt (flat_repr ft rp ++ rest) =
                  (if len (flat_repr ft rp ++ rest) <? size_repr ft rt then Err
                   else bind (dec_field no_inner ft (takeN (size_repr ft rt) (flat_repr ft rp ++ rest)))
                          (fun q => Ok (fst q, snd q ++ dropN (size_repr ft rt) (flat_repr ft rp ++ rest))))).
    { destruct ft; try discriminate Hx; destruct rt; reflexivity. }
    rewrite Etu, len_app, Hl, Esz.
    destruct (size_repr ft rp + len rest <? size_repr ft rp) eqn:E; [apply N.ltb_lt in E; lia|].
    rewrite takeN_app_n, dropN_app_n by (symmetry; exact Hl).
    rewrite dec_field_leaf by (auto; rewrite <- Esz; exact Hs). reflexivity.
  - (* String / raw: count word, size walk, then the ordinary field parser on exactly those bytes *)
    assert (Hft : ft = TString \/ ft = TRaw) by (destruct ft; try discriminate Hf; try discriminate Hx; try congruence; auto).
    destruct (flat_repr_var ft rp Hft Hwp) as [Efl Esr].
    assert (Ets : ts_field ft rt (Some rp) = size_repr ft rp).
    { rewrite Esr. destruct Hft as [-> | ->]; destruct rt; cbn [ts_field ft_elems_fixed];
        rewrite sizeof_u32, Hc, take_var_sum;
        (match goal with |- _ + ?f _ = _ => change f with var_sum end); lia. }
    rewrite Ets in *. split; [exact Hl|].
    intro rest.
    assert (Etu : tu_field ft rt (flat_repr ft rp ++ rest) =
                  bind (rd32 (flat_repr ft rp ++ rest)) (fun pc =>
                    if negb (fst pc =? repr_count rt) then Err
                    else bind (walk_items (N.to_nat (repr_count rt)) (snd pc) c_SIZEOF_uint32) (fun total =>
                           bind (dec_field no_inner ft (takeN total (flat_repr ft rp ++ rest)))
                             (fun q => Ok (fst q, snd q ++ dropN total (flat_repr ft rp ++ rest)))))).
    { destruct Hft as [-> | ->]; destruct rt; reflexivity. }
    rewrite Etu. rewrite Efl at 1. rewrite <- app_assoc.
    assert (Hcnt : repr_count rp < two32) by (rewrite Esr in Hs; lia).
    rewrite rd32_le32 by exact Hcnt. cbn [bind fst snd]. rewrite Hc, N.eqb_refl. cbn [negb].
    rewrite items_cnt_repr.
    pose proof (var_sum_items ft (repr_items rp) Hft (wf_repr_items ft rp Hwp)) as Hv.
    rewrite walk_items_flat; [|exact Hft|exact (wf_repr_items ft rp Hwp)|].
    2:{ rewrite <- Hl, Efl, len_app, len_le32 in Hs. lia. }
    cbn [bind]. rewrite sizeof_u32.
    assert (Etot : 4 + len (flat_items ft (repr_items rp)) = len (flat_repr ft rp)) by (rewrite Efl, len_app, len_le32; reflexivity).
    rewrite Etot.
    rewrite takeN_app_exact, dropN_app_exact.
    rewrite dec_field_leaf by auto. reflexivity.
Qed.

Lemma tmpl_roundtrip_all :
  (forall i, TR_item i) /\ (forall l, TR_items l) /\ (forall r, TR_repr r) /\ (forall fs, TR_fields fs) /\ (forall m, TR_msg m).
Proof.
  apply msg_mutind.
  - (* IFix *) intros bs lp Hw. cbn [wf_item] in Hw. contradiction.
  - intros bs lp Hw. cbn [wf_item] in Hw. contradiction.
  - intros bs lp Hw. cbn [wf_item] in Hw. contradiction.
  - (* IMsg tm *)
    intros tm IH lp Hwt Hne Hwp Hsh Hs. cbn [wf_item] in Hwt. cbn [ne_item] in Hne.
    cbn [shape_item] in Hsh.
    destruct (strip_items lp) as [|si sl] eqn:Es; [discriminate|].
    destruct si as [| | |spm|]; try discriminate.
    destruct (strip_items_cons_inv lp _ _ Es) as (j & lp' & -> & Ej & _).
    destruct j as [| | |pm|]; cbn [strip_item] in Ej; try discriminate. injection Ej as ->.
    destruct Hwp as [Hwpm _]. cbn [wf_item] in Hwpm.
    cbn [ts_item items_head_msg] in Hs.
    destruct (IH pm Hwt Hne Hwpm Hsh Hs) as (b & Eb & Lb & Hu).
    exists (le32 (ts_msg tm pm) ++ b), pm, lp'. split; [reflexivity|].
    cbn [tf_item items_head_msg ts_item]. rewrite Eb. cbn [obind].
    split; [reflexivity|]. split; [rewrite len_app, len_le32, Lb; reflexivity|].
    intros cur rest. cbn [tu_sub]. rewrite <- app_assoc. rewrite rd32_le32 by exact Hs. cbn [bind fst snd].
    destruct (len (b ++ rest) <? ts_msg tm pm) eqn:E; [apply N.ltb_lt in E; rewrite len_app in E; lia|].
    rewrite takeN_app_n, dropN_app_n by (symmetry; exact Lb).
    rewrite <- (app_nil_r b), (Hu []). reflexivity.
  - (* IOpaque *) intros id lp Hw. cbn [wf_item] in Hw. cbn [shape_item]. intros _ _ Hsh. discriminate Hsh.
  - (* INil *)
    intros lp _ _ Hwp Hl _ _. cbn [items_len] in Hl. destruct lp; [|cbn [items_len] in Hl; lia].
    exists []. split; [reflexivity|]. split; [reflexivity|]. intros cur rest. reflexivity.
  - (* ICons *)
    intros it IHi lt IHt lp [Hwi Hwt] [Hni Hnt] Hwp Hl Hsh Hs.
    cbn [shape_items] in Hsh. apply andb_true_iff in Hsh. destruct Hsh as [Hsh1 Hsh2].
    change (items_len (ICons it lt)) with (N.succ (items_len lt)) in Hl, Hs.
    change (ts_items (ICons it lt) lp) with (ts_item it lp + ts_items lt (items_tail lp)) in Hs.
    destruct (IHi lp Hwi Hni Hwp Hsh1) as (b1 & pm & lp' & -> & Eb1 & Lb1 & Hu1); [lia|].
    change (items_tail (ICons (IMsg pm) lp')) with lp' in Hs.
    change (items_len (ICons (IMsg pm) lp')) with (N.succ (items_len lp')) in Hl.
    destruct Hwp as [Hwpm Hwp'].
    rewrite items_tail_strip in Hsh2. change (items_tail (ICons (IMsg pm) lp')) with lp' in Hsh2.
    destruct (IHt lp' Hwt Hnt Hwp') as (b2 & Eb2 & Lb2 & Hu2); [apply N.succ_inj; exact Hl|exact Hsh2| |].
    { pose proof (N.le_0_l (ts_item it (ICons (IMsg pm) lp'))). lia. }
    exists (b1 ++ b2). cbn [tf_items items_tail]. rewrite Eb1, Eb2. cbn [obind].
    split; [reflexivity|]. split.
    { rewrite len_app, Lb1, Lb2.
      change (items_len (ICons it lt)) with (N.succ (items_len lt)).
      change (ts_items (ICons it lt) (ICons (IMsg pm) lp')) with (ts_item it (ICons (IMsg pm) lp') + ts_items lt lp'). lia. }
    intros cur rest. cbn [tu_subs]. rewrite <- app_assoc, Hu1. cbn [bind fst snd]. rewrite Hu2.
    reflexivity.
  - (* RInline it: a template field of one item *)
    intros it IHi ft rp Hf Hwt Hnt Hc1 Hwp Hc Hsh Hs.
    destruct ft; try (apply tr_field_leaf; [exact Hf|congruence|exact Hwp|exact Hc|exact Hs]).
    cbn [wf_repr] in Hwt. cbn [ne_repr] in Hnt. cbn [shape_repr] in Hsh.
    pose proof (wf_repr_items TMessage rp Hwp) as Hwl.
    change (ts_field TMessage (RInline it) (Some rp))
      with ((1 + repr_count (RInline it)) * c_SIZEOF_uint32 + ts_item it (repr_items rp)) in *.
    rewrite sizeof_u32 in *. cbn [repr_count] in *.
    destruct (IHi (repr_items rp) Hwt Hnt Hwl Hsh) as (b & pm & lp' & Elp & Eb & Lb & Hu); [lia|].
    exists (le32 1 ++ b).
    split. { cbn [tf_field repr_count]. rewrite Eb. reflexivity. }
    split. { rewrite len_app, len_le32, Lb. lia. }
    intro rest.
    assert (Etu : tu_field TMessage (RInline it) ((le32 1 ++ b) ++ rest) =
                  bind (rd32 ((le32 1 ++ b) ++ rest)) (fun pc =>
                    if negb (fst pc =? 1) then Err
                    else bind (tu_sub it None (snd pc)) (fun q =>
                           match fst q with Some r => Ok (r, snd q) | None => Err end))) by reflexivity.
    rewrite Etu, <- app_assoc, rd32_le32 by reflexivity. cbn [bind fst snd N.eqb Pos.eqb negb].
    rewrite Hu. cbn [bind fst snd push].
    (* the payload has one item: inline, or an array of one *)
    rewrite norm_repr_of, repr_items_strip, Elp.
    assert (lp' = INil).
    { destruct rp as [j|l]; cbn [repr_items repr_count] in *; [injection Elp as _ <-; reflexivity|].
      subst l. cbn [items_len] in Hc. destruct lp'; [reflexivity|cbn [items_len] in Hc; lia]. }
    subst lp'. reflexivity.
  - (* RArray lt *)
    intros lt IHl ft rp Hf Hwt Hnt Hc1 Hwp Hc Hsh Hs.
    destruct ft; try (apply tr_field_leaf; [exact Hf|congruence|exact Hwp|exact Hc|exact Hs]).
    cbn [wf_repr] in Hwt. cbn [ne_repr] in Hnt. cbn [shape_repr] in Hsh.
    pose proof (wf_repr_items TMessage rp Hwp) as Hwl.
    change (ts_field TMessage (RArray lt) (Some rp))
      with ((1 + repr_count (RArray lt)) * c_SIZEOF_uint32 + ts_items lt (repr_items rp)) in *.
    rewrite sizeof_u32 in *. cbn [repr_count] in *.
    assert (Hlen : items_len lt = items_len (repr_items rp)) by (rewrite Hc; destruct rp; reflexivity).
    destruct (IHl (repr_items rp) Hwt Hnt Hwl Hlen Hsh) as (b & Eb & Lb & Hu); [lia|].
    exists (le32 (items_len lt) ++ b).
    split. { cbn [tf_field repr_count]. rewrite Eb. reflexivity. }
    split. { rewrite len_app, len_le32, Lb. lia. }
    intro rest.
    assert (Etu : tu_field TMessage (RArray lt) ((le32 (items_len lt) ++ b) ++ rest) =
                  bind (rd32 ((le32 (items_len lt) ++ b) ++ rest)) (fun pc =>
                    if negb (fst pc =? items_len lt) then Err
                    else bind (tu_subs lt None (snd pc)) (fun q =>
                           match fst q with Some r => Ok (r, snd q) | None => Err end))) by reflexivity.
    rewrite Etu, <- app_assoc, rd32_le32 by lia. cbn [bind fst snd]. rewrite N.eqb_refl. cbn [negb].
    rewrite Hu. cbn [bind fst snd].
    assert (Hne : norm_items (strip_items (repr_items rp)) <> INil).
    { destruct (repr_items rp) as [|x l] eqn:E; [|cbn [strip_items norm_items]; discriminate].
      cbn [items_len] in Hlen. lia. }
    rewrite push_all_none by exact Hne.
    rewrite norm_repr_of, repr_items_strip. reflexivity.
  - (* FNil *)
    intros all fps acc rest _ _ _ _ _ _ _ Hsh _. cbn [shape_fields] in Hsh.
    destruct (strip_fields fps) eqn:E; [|discriminate].
    exists []. cbn [tf_fields ts_fields tu_fields len app norm_fields]. rewrite fapp_nil_r. auto.
  - (* FCons *)
    intros n tc rt IHr tl IHt all fps acc rest (Hn & Htc & Hrt & Htl) (Hc1 & Hnr & Hntl) Hnd Hnda Hwa Hsub Hacc Hsh Hs.
    cbn [fnames] in Hnd. inversion Hnd as [|? ? Hnin Hnd']; subst.
    cbn [shape_fields] in Hsh. cbn [ts_fields] in Hs.
    destruct (flattenable tc) eqn:Fl.
    2:{ (* a non-flattenable template field is skipped by all three functions *)
        destruct (IHt all fps acc rest Htl Hntl Hnd' Hnda Hwa Hsub) as (b & Eb & Lb & Hu);
          [intros k Hk; apply Hacc; right; exact Hk|exact Hsh|lia|].
        exists b. cbn [tf_fields ts_fields tu_fields]. rewrite Fl. auto. }
    destruct (strip_fields fps) as [|n2 tc2 sr st] eqn:Es; [discriminate|].
    apply andb_true_iff in Hsh. destruct Hsh as [Hsh Hsh5].
    apply andb_true_iff in Hsh. destruct Hsh as [Hsh Hsh4].
    apply andb_true_iff in Hsh. destruct Hsh as [Hsh Hsh3].
    apply andb_true_iff in Hsh. destruct Hsh as [Hsh1 Hsh2].
    apply bytes_eqb_eq in Hsh1. apply N.eqb_eq in Hsh2. apply N.eqb_eq in Hsh3. subst n2 tc2.
    destruct (strip_fields_cons_inv fps _ _ _ _ Es) as (rp & fps' & _ & -> & -> & Hfin & Hsub').
    pose proof (Hsub _ _ _ Hfin) as Hfa.
    destruct (fin_wf _ _ _ _ Hfa Hwa) as (_ & _ & Hwrp).
    assert (Epay : payload_for n tc all = Some rp).
    { unfold payload_for. rewrite (fin_flookup _ _ _ _ Hnda Hfa), N.eqb_refl. reflexivity. }
    rewrite Epay in Hs. rewrite repr_count_strip in Hsh3. rewrite repr_items_strip in Hsh4.
    unfold flattenable in Fl.
    destruct (IHr (ftype_of_tc tc) rp Fl Hrt Hnr Hc1 Hwrp Hsh3 Hsh4) as (b1 & Eb1 & Lb1 & Hu1); [lia|].
    destruct (IHt all fps' (fsnoc acc n tc (norm_repr (strip_repr rp))) rest Htl Hntl Hnd' Hnda Hwa) as (b2 & Eb2 & Lb2 & Hu2).
    + intros n0 tc0 r0 H0. apply Hsub. apply Hsub'. exact H0.
    + intros k Hk. apply flookup_fsnoc_other; [|apply Hacc; right; exact Hk]. intro E. subst k. contradiction.
    + exact Hsh5.
    + lia.
    + exists (b1 ++ b2). cbn [tf_fields ts_fields tu_fields]. unfold flattenable. rewrite Fl, Epay, Eb1, Eb2. cbn [obind].
      split; [reflexivity|]. split; [rewrite len_app, Lb1, Lb2; reflexivity|].
      rewrite (Hacc n (or_introl eq_refl)). rewrite <- app_assoc, Hu1. cbn [bind fst snd].
      rewrite Hu2. cbn [norm_fields]. rewrite fsnoc_fapp. reflexivity.
  - (* Msg *)
    intros wt ft IH [wp fp] (Hwt & Hndt & Hft) Hne (Hwp & Hndp & Hfp) Hsh Hs.
    cbn [shape_msg strip_msg] in Hsh. cbn [ts_msg] in Hs. rewrite sizeof_u32 in Hs. cbn [ne_msg] in Hne.
    destruct (IH fp fp FNil [] Hft Hne Hndt Hndp Hfp) as (b & Eb & Lb & Hu); [auto|reflexivity|exact Hsh|lia|].
    exists (le32 wp ++ b). cbn [tf_msg ts_msg]. rewrite Eb. cbn [obind].
    split; [reflexivity|]. split; [rewrite len_app, len_le32, Lb, sizeof_u32; reflexivity|].
    intro rest. cbn [tu_msg]. rewrite <- app_assoc, rd32_le32 by exact Hwp. cbn [bind fst snd].
    specialize (IH fp fp FNil rest Hft Hne Hndt Hndp Hfp).
    destruct IH as (b' & Eb' & _ & Hu'); [auto|reflexivity|exact Hsh|lia|].
    rewrite Eb in Eb'. injection Eb' as <-. rewrite Hu'. reflexivity.
Qed.

(* ------------------------------------------------------------------ the theorems *)

Theorem tmpl_roundtrip (t p : msg) :
  wf_msg t -> ne_msg t -> wf_msg p -> same_shape t p = true -> tmpl_flattened_size t p < two32 ->
  exists b, tmpl_flatten t p = Some b /\ len b = tmpl_flattened_size t p /\ tmpl_unflatten t b = Ok (rt p).
Proof.
  intros Hwt Hne Hwp Hsh Hs.
  destruct (proj2 (proj2 (proj2 (proj2 tmpl_roundtrip_all))) t p Hwt Hne Hwp Hsh Hs) as (b & Eb & Lb & Hu).
  exists b. split; [exact Eb|]. split; [exact Lb|].
  unfold tmpl_unflatten. rewrite <- (app_nil_r b), Hu. reflexivity.
Qed.

(* non-vacuity: the template CreateMessageTemplate makes for the example Message satisfies the premises *)
Example ex_tmpl :
  wf_msg (tmpl_of_msg ex_msg) /\ ne_msg (tmpl_of_msg ex_msg) /\ same_shape (tmpl_of_msg ex_msg) ex_msg = true /\
  tmpl_flattened_size (tmpl_of_msg ex_msg) ex_msg < two32 /\
  (exists b, tmpl_flatten (tmpl_of_msg ex_msg) ex_msg = Some b /\ tmpl_unflatten (tmpl_of_msg ex_msg) b = Ok (rt ex_msg)).
Proof.
  assert (Hw : wf_msg (tmpl_of_msg ex_msg)).
  { vm_compute. repeat split; try reflexivity; try exact I; try (repeat constructor; cbn [In]; intuition discriminate). }
  assert (Hn : ne_msg (tmpl_of_msg ex_msg)) by (vm_compute; repeat split; discriminate).
  assert (Hs : same_shape (tmpl_of_msg ex_msg) ex_msg = true) by (vm_compute; reflexivity).
  assert (Hb : tmpl_flattened_size (tmpl_of_msg ex_msg) ex_msg < two32) by (vm_compute; reflexivity).
  split; [exact Hw|]. split; [exact Hn|]. split; [exact Hs|]. split; [exact Hb|].
  destruct (tmpl_roundtrip _ _ Hw Hn (proj1 ex_wf) Hs Hb) as (b & E1 & _ & E2). eauto.
Qed.
