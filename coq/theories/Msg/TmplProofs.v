(* Msg/TmplProofs.v -- the templated Message codec round-trips: for a payload that has the shape of the
   template (same flattenable fields, order, names, types, counts, recursively -- what TemplateHashCode64
   equality stands for in MessageIOGateway), TemplatedUnflatten (TemplatedFlatten payload) is the payload
   (modulo strip and norm, as for the ordinary codec), and TemplatedFlattenedSize is the byte count. *)
From Coq Require Import List NArith Bool Strings.Byte Lia Arith.
From Muscle Require Import Gen.Consts Msg.MsgDefs Msg.MsgModel Msg.MsgApi Msg.TmplModel
  Msg.MsgBytesProofs Msg.MsgSizeProofs Msg.MsgRoundTrip Msg.MsgApiProofs Msg.MsgExamples.
Import ListNotations.
Local Open Scope N_scope.

(* ------------------------------------------------------------------ small facts *)

Lemma items_take_all (l : items) : items_take (items_len l) l = l.
Proof.
  induction l as [|i t IH]; cbn [items_len items_take]; [reflexivity|].
  destruct (N.succ (items_len t) =? 0) eqn:E; [apply N.eqb_eq in E; lia|].
  rewrite N.pred_succ, IH. reflexivity.
Qed.

Lemma ft_fixed_elems (ft : ftype) : ft_flattenable ft = true -> ft_elems_fixed ft = ft_fixed ft.
Proof. destruct ft; intro H; try discriminate H; reflexivity. Qed.

(* the flattened size of a fixed-size field depends on its item count only *)
Lemma size_repr_fixed (ft : ftype) (r : repr) : ft_fixed ft = true -> size_repr ft r = repr_count r * cpp_size ft.
Proof.
  intro Hx. destruct (size_tables_ok ft Hx) as (_ & Eu & _).
  destruct r as [i|l]; cbn [repr_count].
  - cbn [size_repr]. rewrite size_single_fixed by exact Hx. lia.
  - destruct ft; try discriminate Hx; cbn [size_repr]; rewrite Eu; reflexivity.
Qed.

Lemma repr_items_strip (r : repr) : repr_items (strip_repr r) = strip_items (repr_items r).
Proof. destruct r; reflexivity. Qed.

Lemma repr_count_strip (r : repr) : repr_count (strip_repr r) = repr_count r.
Proof. destruct r as [i|l]; cbn [strip_repr repr_count]; [reflexivity|]. exact (proj2 (proj1 (proj2 strip_size_all) l TRaw)). Qed.

(* when the counts agree the limited writer is the ordinary writer *)
Lemma flat_limited_all (ft : ftype) (r : repr) : flat_limited ft r (repr_count r) = flat_repr ft r.
Proof. destruct r as [i|l]; cbn [flat_limited repr_count]; [reflexivity|]. rewrite items_take_all. reflexivity. Qed.

(* ------------------------------------------------------------------ the size walk over String / raw items *)

Lemma walk_items_flat (ft : ftype) (l : items) (rest : bytes) (acc : N) :
  ft = TString \/ ft = TRaw -> wf_items ft l -> len (flat_items ft l) < two32 ->
  walk_items (items_cnt l) (flat_items ft l ++ rest) acc = Ok (acc + len (flat_items ft l)).
Proof.
  intros Hft. revert acc; induction l as [|i t IH]; intros acc Hw Hs.
  - cbn [items_cnt walk_items flat_items len]. rewrite N.add_0_r. reflexivity.
  - destruct Hw as [Hi Ht]. cbn [items_cnt walk_items flat_items].
    cbn [flat_items] in Hs. rewrite len_app in Hs.
    destruct Hft as [-> | ->]; destruct i; cbn [wf_item] in Hi; try contradiction; cbn [flat_elem] in *.
    + assert (L : str_flat_size bs = len (bs ++ [x00])) by (unfold str_flat_size; rewrite len_app; reflexivity).
      rewrite (len_app (le32 _)), len_le32, <- L in Hs.
      rewrite <- !app_assoc. rewrite rd32_le32 by lia. cbn [bind fst snd].
      rewrite (app_assoc bs [x00]).
      destruct (len ((bs ++ [x00]) ++ flat_items TString t ++ rest) <? str_flat_size bs) eqn:E.
      { apply N.ltb_lt in E. rewrite (len_app (bs ++ [x00])), <- L in E. lia. }
      rewrite dropN_app_n by exact L. rewrite IH by (auto; lia).
      rewrite sizeof_u32, (len_app (le32 _)), len_le32, (app_assoc bs [x00]), (len_app (bs ++ [x00])), <- L. f_equal. lia.
    + rewrite (len_app (le32 _)), len_le32 in Hs.
      rewrite <- !app_assoc. rewrite rd32_le32 by lia. cbn [bind fst snd].
      destruct (len (bs ++ flat_items TRaw t ++ rest) <? len bs) eqn:E.
      { apply N.ltb_lt in E. rewrite len_app in E. lia. }
      rewrite dropN_app_exact. rewrite IH by (auto; lia).
      rewrite sizeof_u32, !len_app, len_le32. f_equal. lia.
Qed.

(* ------------------------------------------------------------------ finding the payload field of a template field *)

Fixpoint fin (n : bytes) (tc : N) (r : repr) (fs : fields) : Prop :=
  match fs with
  | FNil => False
  | FCons n' tc' r' t => (n = n' /\ tc = tc' /\ r = r') \/ fin n tc r t
  end.

Lemma fin_name n tc r fs : fin n tc r fs -> In n (fnames fs).
Proof.
  induction fs as [|n' tc' r' t IH]; cbn [fin fnames In]; [tauto|].
  intros [(-> & _ & _)|H]; [left; reflexivity|right; exact (IH H)].
Qed.

Lemma fin_flookup n tc r fs : NoDup (fnames fs) -> fin n tc r fs -> flookup n fs = Some (tc, r).
Proof.
  induction fs as [|n' tc' r' t IH]; cbn [fin fnames flookup]; [tauto|].
  intros Hnd H. inversion Hnd as [|? ? Hnin Hnd']; subst.
  destruct H as [(-> & -> & ->)|H].
  - rewrite bytes_eqb_refl. reflexivity.
  - destruct (bytes_eqb n n') eqn:E; [|exact (IH Hnd' H)].
    apply bytes_eqb_eq in E. subst n'. exfalso. apply Hnin. exact (fin_name _ _ _ _ H).
Qed.

Lemma fin_wf n tc r fs : fin n tc r fs -> wf_fields fs -> nul_free n /\ tc < two32 /\ wf_repr (ftype_of_tc tc) r.
Proof.
  induction fs as [|n' tc' r' t IH]; cbn [fin wf_fields]; [tauto|].
  intros [(-> & -> & ->)|H] (Hn & Htc & Hr & Ht); [auto|exact (IH H Ht)].
Qed.

(* the first flattenable field of a field list, and what follows it *)
Lemma strip_fields_cons_inv (fs : fields) n tc r t :
  strip_fields fs = FCons n tc r t ->
  exists rp fs', flattenable tc = true /\ r = strip_repr rp /\ t = strip_fields fs' /\
                 fin n tc rp fs /\ (forall n0 tc0 r0, fin n0 tc0 r0 fs' -> fin n0 tc0 r0 fs).
Proof.
  induction fs as [|n' tc' r' t' IH]; cbn [strip_fields]; [discriminate|].
  destruct (flattenable tc') eqn:Fl.
  - intro E. injection E as <- <- <- <-. exists r', t'. cbn [fin]. repeat split; auto.
  - intro E. destruct (IH E) as (rp & fs' & H1 & H2 & H3 & H4 & H5).
    exists rp, fs'. cbn [fin]. repeat split; auto.
Qed.

(* ------------------------------------------------------------------ what AddDataItem builds from a list of items *)

Definition repr_of (l : items) : repr := match l with ICons x INil => RInline x | _ => RArray l end.

Fixpoint push_all (cur : option repr) (l : items) : option repr :=
  match l with INil => cur | ICons i t => push_all (Some (push false cur i)) t end.

Lemma norm_repr_of (r : repr) : norm_repr r = repr_of (norm_items (repr_items r)).
Proof. destruct r as [i|[|i [|j t]]]; reflexivity. Qed.

Lemma push_all_app (l1 l2 : items) :
  l1 <> INil -> push_all (Some (repr_of l1)) l2 = Some (repr_of (items_app l1 l2)).
Proof.
  revert l1; induction l2 as [|v t IH]; intros l1 Hne; cbn [push_all].
  - assert (E : items_app l1 INil = l1) by (clear; induction l1 as [|x l IH']; cbn [items_app]; [reflexivity|rewrite IH'; reflexivity]).
    rewrite E. reflexivity.
  - assert (E : push false (Some (repr_of l1)) v = repr_of (items_snoc l1 v)).
    { destruct l1 as [|a [|b l]]; [contradiction| |]; reflexivity. }
    rewrite E, IH.
    + f_equal. f_equal. unfold items_snoc. clear. induction l1 as [|x l IH']; cbn [items_app]; [reflexivity|rewrite IH'; reflexivity].
    + unfold items_snoc. destruct l1; cbn [items_app]; discriminate.
Qed.

Lemma push_all_none (l : items) : l <> INil -> push_all None l = Some (repr_of l).
Proof.
  destruct l as [|v t]; [contradiction|]. intros _. cbn [push_all].
  change (push false None v) with (repr_of (ICons v INil)).
  rewrite push_all_app by discriminate. reflexivity.
Qed.

(* Message-typed fields hold at least one sub-Message, at every level (true of every Message the API builds;
   a template field with zero sub-Messages would leave an empty field behind in TemplatedUnflatten) *)
Fixpoint ne_msg (m : msg) : Prop :=
  match m with Msg _ fs => ne_fields fs end
with ne_fields (fs : fields) : Prop :=
  match fs with
  | FNil => True
  | FCons _ tc r t => (match ftype_of_tc tc with TMessage => 1 <= repr_count r | _ => True end) /\ ne_repr r /\ ne_fields t
  end
with ne_repr (r : repr) : Prop :=
  match r with RInline i => ne_item i | RArray l => ne_items l end
with ne_item (i : item) : Prop :=
  match i with IMsg m => ne_msg m | _ => True end
with ne_items (l : items) : Prop :=
  match l with INil => True | ICons i t => ne_item i /\ ne_items t end.

(* ------------------------------------------------------------------ the templated round trip *)

Definition TR_msg (t : msg) : Prop :=
  forall p, wf_msg t -> ne_msg t -> wf_msg p -> shape_msg t (strip_msg p) = true -> ts_msg t p < two32 ->
  exists b, tf_msg t p = Some b /\ len b = ts_msg t p /\
            forall rest, tu_msg t (b ++ rest) = Ok (norm_msg (strip_msg p), rest).

Definition TR_item (it : item) : Prop :=
  forall lp, wf_item TMessage it -> ne_item it -> wf_items TMessage lp ->
    shape_item it (strip_items lp) = true -> ts_item it lp < two32 ->
  exists b pm lp', lp = ICons (IMsg pm) lp' /\ tf_item it lp = Some b /\ len b = 4 + ts_item it lp /\
            forall cur rest, tu_sub it cur (b ++ rest) = Ok (Some (push false cur (IMsg (norm_msg (strip_msg pm)))), rest).

Definition TR_items (lt : items) : Prop :=
  forall lp, wf_items TMessage lt -> ne_items lt -> wf_items TMessage lp -> items_len lt = items_len lp ->
    shape_items lt (strip_items lp) = true -> ts_items lt lp + 4 * items_len lt < two32 ->
  exists b, tf_items lt lp = Some b /\ len b = 4 * items_len lt + ts_items lt lp /\
            forall cur rest, tu_subs lt cur (b ++ rest) = Ok (push_all cur (norm_items (strip_items lp)), rest).

Definition TR_repr (rt : repr) : Prop :=
  forall ft rp, ft_flattenable ft = true -> wf_repr ft rt -> ne_repr rt ->
    (match ft with TMessage => 1 <= repr_count rt | _ => True end) ->
    wf_repr ft rp -> repr_count rt = repr_count rp ->
    shape_repr ft rt (strip_items (repr_items rp)) = true -> ts_field ft rt (Some rp) < two32 ->
  exists b, tf_field ft rt (Some rp) = Some b /\ len b = ts_field ft rt (Some rp) /\
            forall rest, tu_field ft rt (b ++ rest) = Ok (norm_repr (strip_repr rp), rest).

Definition TR_fields (ft : fields) : Prop :=
  forall all fps acc rest, wf_fields ft -> ne_fields ft -> NoDup (fnames ft) ->
    NoDup (fnames all) -> wf_fields all -> (forall n tc r, fin n tc r fps -> fin n tc r all) ->
    (forall n, In n (fnames ft) -> flookup n acc = None) ->
    shape_fields ft (strip_fields fps) = true -> ts_fields ft all < two32 ->
  exists b, tf_fields ft all = Some b /\ len b = ts_fields ft all /\
            tu_fields ft acc (b ++ rest) = Ok (fapp acc (norm_fields (strip_fields fps)), rest).

Lemma strip_items_cons_inv (lp : items) i t : strip_items lp = ICons i t -> exists j lp', lp = ICons j lp' /\ i = strip_item j /\ t = strip_items lp'.
Proof. destruct lp as [|j lp']; cbn [strip_items]; [discriminate|]. intro E. injection E as <- <-. eauto. Qed.

Lemma items_tail_strip (lp : items) : items_tail (strip_items lp) = strip_items (items_tail lp).
Proof. destruct lp; reflexivity. Qed.

(* ------------------------------------------------------------------ template fields of leaf type *)

Lemma strip_repr_leaf (ft : ftype) (r : repr) : ft <> TMessage -> ft_flattenable ft = true -> wf_repr ft r -> strip_repr r = r.
Proof.
  intros Hm Hf Hw. destruct r as [i|l]; cbn [strip_repr].
  - cbn [wf_repr] in Hw. destruct i; try reflexivity.
    destruct ft; cbn [wf_item] in Hw; try contradiction; try discriminate Hf; congruence.
  - f_equal. cbn [wf_repr] in Hw. induction l as [|i t IH]; cbn [strip_items]; [reflexivity|].
    destruct Hw as [Hi Ht]. rewrite (IH Ht). destruct i; try reflexivity.
    destruct ft; cbn [wf_item] in Hi; try contradiction; try discriminate Hf; congruence.
Qed.

Fixpoint var_sum (l : items) : N := match l with INil => 0 | ICons i t => var_item_size i + var_sum t end.

Lemma var_sum_items (ft : ftype) (l : items) :
  ft = TString \/ ft = TRaw -> wf_items ft l ->
  var_sum l + (match ft with TRaw => 4 * items_len l | _ => 0 end) = size_items ft l.
Proof.
  intros Hft. induction l as [|i t IH]; intro Hw; cbn [var_sum size_items items_len]; [destruct ft; reflexivity|].
  destruct Hw as [Hi Ht]. specialize (IH Ht).
  destruct Hft as [-> | ->]; destruct i; cbn [wf_item] in Hi; try contradiction; cbn [var_item_size size_elem] in *;
    rewrite ?sizeof_u32; lia.
Qed.

(* a String / raw field is written as its count word followed by its items, whatever its state *)
Lemma flat_repr_var (ft : ftype) (r : repr) :
  ft = TString \/ ft = TRaw -> wf_repr ft r ->
  flat_repr ft r = le32 (repr_count r) ++ flat_items ft (repr_items r) /\
  size_repr ft r = (1 + repr_count r) * 4 + var_sum (repr_items r).
Proof.
  intros Hft Hw. destruct r as [i|l]; cbn [repr_count repr_items wf_repr] in *.
  - destruct Hft as [-> | ->]; destruct i; cbn [wf_item] in Hw; try contradiction.
    + cbn [flat_repr flat_single flat_items flat_elem size_repr size_single var_sum var_item_size].
      rewrite app_nil_r, sizeof_u32. split; [reflexivity|lia].
    + cbn [flat_repr flat_single flat_items flat_elem var_sum var_item_size].
      change (size_repr TRaw (RInline (IRaw bs))) with (c_SIZEOF_uint32 + c_SIZEOF_uint32 + len bs).
      rewrite app_nil_r, sizeof_u32. split; [reflexivity|lia].
  - pose proof (var_sum_items ft l Hft Hw) as Hv.
    destruct Hft as [-> | ->]; cbn [flat_repr size_repr]; rewrite sizeof_u32; split; try reflexivity; lia.
Qed.

Lemma take_var_sum (r : repr) : items_take (repr_count r) (repr_items r) = repr_items r.
Proof. destruct r as [i|l]; cbn [repr_count repr_items]; [reflexivity|apply items_take_all]. Qed.

Lemma items_cnt_repr (r : repr) : N.to_nat (repr_count r) = items_cnt (repr_items r).
Proof.
  destruct r as [i|l]; cbn [repr_count repr_items items_cnt]; [reflexivity|].
  rewrite items_len_cnt, Nat2N.id. reflexivity.
Qed.

Lemma wf_repr_items (ft : ftype) (r : repr) : wf_repr ft r -> wf_items ft (repr_items r).
Proof. destruct r; cbn [wf_repr repr_items wf_items]; auto. Qed.

Lemma tmpl_src_same (rt rp : repr) : repr_count rt = repr_count rp -> tmpl_src_items rt rp = repr_items rp.
Proof. intro Hc. unfold tmpl_src_items. rewrite Hc, N.leb_refl. apply take_var_sum. Qed.

Lemma tr_field_leaf (ft : ftype) (rt rp : repr) :
  ft_flattenable ft = true -> ft <> TMessage -> wf_repr ft rp -> repr_count rt = repr_count rp ->
  ts_field ft rt (Some rp) < two32 ->
  exists b, tf_field ft rt (Some rp) = Some b /\ len b = ts_field ft rt (Some rp) /\
            forall rest, tu_field ft rt (b ++ rest) = Ok (norm_repr (strip_repr rp), rest).
Proof.
  intros Hf Hm Hwp Hc Hs.
  assert (Etf : tf_field ft rt (Some rp) = Some (flat_repr ft rp)).
  { destruct ft; try discriminate Hf; try congruence;
      destruct rt; cbn [tf_field]; rewrite Hc, N.leb_refl, flat_limited_all; reflexivity. }
  pose proof (proj1 (proj2 (proj2 flatten_length_all)) rp ft Hf Hwp) as Hl.
  rewrite (strip_repr_leaf ft rp Hm Hf Hwp).
  exists (flat_repr ft rp). split; [exact Etf|].
  destruct (ft_fixed ft) eqn:Hx.
  - (* fixed-size items: the template's FlattenedSize is the payload's *)
    assert (Ets : ts_field ft rt (Some rp) = size_repr ft rt).
    { destruct ft; try discriminate Hx; destruct rt; reflexivity. }
    assert (Esz : size_repr ft rt = size_repr ft rp) by (rewrite !size_repr_fixed by exact Hx; rewrite Hc; reflexivity).
    rewrite Ets in *. split; [rewrite Hl, Esz; reflexivity|].
    intro rest.
    assert (Etu : tu_field ft rt (flat_repr ft rp ++ rest) =
                  (if len (flat_repr ft rp ++ rest) <? size_repr ft rt then Err
                   else bind (dec_field no_inner ft (takeN (size_repr ft rt) (flat_repr ft rp ++ rest)))
                          (fun q => Ok (fst q, snd q ++ dropN (size_repr ft rt) (flat_repr ft rp ++ rest))))).
    { destruct ft; try discriminate Hx; destruct rt; reflexivity. }
    rewrite Etu, len_app, Hl, Esz.
    destruct (size_repr ft rp + len rest <? size_repr ft rp) eqn:E; [apply N.ltb_lt in E; lia|].
    rewrite takeN_app_n, dropN_app_n by (symmetry; exact Hl).
    rewrite dec_field_leaf by (auto; rewrite <- Esz; exact Hs). reflexivity.
  - (* String / raw: count word, size walk, then the ordinary field parser on exactly those bytes *)
    assert (Hft : ft = TString \/ ft = TRaw) by (destruct ft; try discriminate Hf; try discriminate Hx; try congruence; auto).
    destruct (flat_repr_var ft rp Hft Hwp) as [Efl Esr].
    assert (Ets : ts_field ft rt (Some rp) = size_repr ft rp).
    { rewrite Esr. destruct Hft as [-> | ->]; destruct rt; cbn [ts_field ft_elems_fixed];
        rewrite sizeof_u32, (tmpl_src_same _ _ Hc), Hc;
        (match goal with |- _ + ?f _ = _ => change f with var_sum end); lia. }
    rewrite Ets in *. split; [exact Hl|].
    intro rest.
    assert (Etu : tu_field ft rt (flat_repr ft rp ++ rest) =
                  bind (rd32 (flat_repr ft rp ++ rest)) (fun pc =>
                    if negb (fst pc =? repr_count rt) then Err
                    else bind (walk_items (N.to_nat (repr_count rt)) (snd pc) c_SIZEOF_uint32) (fun total =>
                           bind (dec_field no_inner ft (takeN total (flat_repr ft rp ++ rest)))
                             (fun q => Ok (fst q, snd q ++ dropN total (flat_repr ft rp ++ rest)))))).
    { destruct Hft as [-> | ->]; destruct rt; reflexivity. }
    rewrite Etu. rewrite Efl at 1. rewrite <- app_assoc.
    assert (Hcnt : repr_count rp < two32) by (rewrite Esr in Hs; lia).
    rewrite rd32_le32 by exact Hcnt. cbn [bind fst snd]. rewrite Hc, N.eqb_refl. cbn [negb].
    rewrite items_cnt_repr.
    pose proof (var_sum_items ft (repr_items rp) Hft (wf_repr_items ft rp Hwp)) as Hv.
    rewrite walk_items_flat; [|exact Hft|exact (wf_repr_items ft rp Hwp)|].
    2:{ rewrite <- Hl, Efl, len_app, len_le32 in Hs. lia. }
    cbn [bind]. rewrite sizeof_u32.
    assert (Etot : 4 + len (flat_items ft (repr_items rp)) = len (flat_repr ft rp)) by (rewrite Efl, len_app, len_le32; reflexivity).
    rewrite Etot.
    rewrite takeN_app_exact, dropN_app_exact.
    rewrite dec_field_leaf by auto. reflexivity.
Qed.

Lemma tmpl_roundtrip_all :
  (forall i, TR_item i) /\ (forall l, TR_items l) /\ (forall r, TR_repr r) /\ (forall fs, TR_fields fs) /\ (forall m, TR_msg m).
Proof.
  apply msg_mutind.
  - (* IFix *) intros bs lp Hw. cbn [wf_item] in Hw. contradiction.
  - intros bs lp Hw. cbn [wf_item] in Hw. contradiction.
  - intros bs lp Hw. cbn [wf_item] in Hw. contradiction.
  - (* IMsg tm *)
    intros tm IH lp Hwt Hne Hwp Hsh Hs. cbn [wf_item] in Hwt. cbn [ne_item] in Hne.
    cbn [shape_item] in Hsh.
    destruct (strip_items lp) as [|si sl] eqn:Es; [discriminate|].
    destruct si as [| | |spm|]; try discriminate.
    destruct (strip_items_cons_inv lp _ _ Es) as (j & lp' & -> & Ej & _).
    destruct j as [| | |pm|]; cbn [strip_item] in Ej; try discriminate. injection Ej as ->.
    destruct Hwp as [Hwpm _]. cbn [wf_item] in Hwpm.
    cbn [ts_item items_head_msg] in Hs.
    destruct (IH pm Hwt Hne Hwpm Hsh Hs) as (b & Eb & Lb & Hu).
    exists (le32 (ts_msg tm pm) ++ b), pm, lp'. split; [reflexivity|].
    cbn [tf_item items_head_msg ts_item]. rewrite Eb. cbn [obind].
    split; [reflexivity|]. split; [rewrite len_app, len_le32, Lb; reflexivity|].
    intros cur rest. cbn [tu_sub]. rewrite <- app_assoc. rewrite rd32_le32 by exact Hs. cbn [bind fst snd].
    destruct (len (b ++ rest) <? ts_msg tm pm) eqn:E; [apply N.ltb_lt in E; rewrite len_app in E; lia|].
    rewrite takeN_app_n, dropN_app_n by (symmetry; exact Lb).
    rewrite <- (app_nil_r b), (Hu []). reflexivity.
  - (* IOpaque *) intros id lp Hw. cbn [wf_item] in Hw. cbn [shape_item]. intros _ _ Hsh. discriminate Hsh.
  - (* INil *)
    intros lp _ _ Hwp Hl _ _. cbn [items_len] in Hl. destruct lp; [|cbn [items_len] in Hl; lia].
    exists []. split; [reflexivity|]. split; [reflexivity|]. intros cur rest. reflexivity.
  - (* ICons *)
    intros it IHi lt IHt lp [Hwi Hwt] [Hni Hnt] Hwp Hl Hsh Hs.
    cbn [shape_items] in Hsh. apply andb_true_iff in Hsh. destruct Hsh as [Hsh1 Hsh2].
    change (items_len (ICons it lt)) with (N.succ (items_len lt)) in Hl, Hs.
    change (ts_items (ICons it lt) lp) with (ts_item it lp + ts_items lt (items_tail lp)) in Hs.
    destruct (IHi lp Hwi Hni Hwp Hsh1) as (b1 & pm & lp' & -> & Eb1 & Lb1 & Hu1); [lia|].
    change (items_tail (ICons (IMsg pm) lp')) with lp' in Hs.
    change (items_len (ICons (IMsg pm) lp')) with (N.succ (items_len lp')) in Hl.
    destruct Hwp as [Hwpm Hwp'].
    rewrite items_tail_strip in Hsh2. change (items_tail (ICons (IMsg pm) lp')) with lp' in Hsh2.
    destruct (IHt lp' Hwt Hnt Hwp') as (b2 & Eb2 & Lb2 & Hu2); [apply N.succ_inj; exact Hl|exact Hsh2| |].
    { pose proof (N.le_0_l (ts_item it (ICons (IMsg pm) lp'))). lia. }
    exists (b1 ++ b2). cbn [tf_items items_tail]. rewrite Eb1, Eb2. cbn [obind].
    split; [reflexivity|]. split.
    { rewrite len_app, Lb1, Lb2.
      change (items_len (ICons it lt)) with (N.succ (items_len lt)).
      change (ts_items (ICons it lt) (ICons (IMsg pm) lp')) with (ts_item it (ICons (IMsg pm) lp') + ts_items lt lp'). lia. }
    intros cur rest. cbn [tu_subs]. rewrite <- app_assoc, Hu1. cbn [bind fst snd]. rewrite Hu2.
    reflexivity.
  - (* RInline it: a template field of one item *)
    intros it IHi ft rp Hf Hwt Hnt Hc1 Hwp Hc Hsh Hs.
    destruct ft; try (apply tr_field_leaf; [exact Hf|congruence|exact Hwp|exact Hc|exact Hs]).
    cbn [wf_repr] in Hwt. cbn [ne_repr] in Hnt. cbn [shape_repr] in Hsh.
    pose proof (wf_repr_items TMessage rp Hwp) as Hwl.
    change (ts_field TMessage (RInline it) (Some rp))
      with ((1 + repr_count (RInline it)) * c_SIZEOF_uint32 + ts_item it (repr_items rp)) in *.
    rewrite sizeof_u32 in *. cbn [repr_count] in *.
    destruct (IHi (repr_items rp) Hwt Hnt Hwl Hsh) as (b & pm & lp' & Elp & Eb & Lb & Hu); [lia|].
    exists (le32 1 ++ b).
    split. { cbn [tf_field repr_count]. rewrite Eb. reflexivity. }
    split. { rewrite len_app, len_le32, Lb. lia. }
    intro rest.
    assert (Etu : tu_field TMessage (RInline it) ((le32 1 ++ b) ++ rest) =
                  bind (rd32 ((le32 1 ++ b) ++ rest)) (fun pc =>
                    if negb (fst pc =? 1) then Err
                    else bind (tu_sub it None (snd pc)) (fun q =>
                           match fst q with Some r => Ok (r, snd q) | None => Err end))) by reflexivity.
    rewrite Etu, <- app_assoc, rd32_le32 by reflexivity. cbn [bind fst snd N.eqb Pos.eqb negb].
    rewrite Hu. cbn [bind fst snd push].
    (* the payload has one item: inline, or an array of one *)
    rewrite norm_repr_of, repr_items_strip, Elp.
    assert (lp' = INil).
    { destruct rp as [j|l]; cbn [repr_items repr_count] in *; [injection Elp as _ <-; reflexivity|].
      subst l. cbn [items_len] in Hc. destruct lp'; [reflexivity|cbn [items_len] in Hc; lia]. }
    subst lp'. reflexivity.
  - (* RArray lt *)
    intros lt IHl ft rp Hf Hwt Hnt Hc1 Hwp Hc Hsh Hs.
    destruct ft; try (apply tr_field_leaf; [exact Hf|congruence|exact Hwp|exact Hc|exact Hs]).
    cbn [wf_repr] in Hwt. cbn [ne_repr] in Hnt. cbn [shape_repr] in Hsh.
    pose proof (wf_repr_items TMessage rp Hwp) as Hwl.
    change (ts_field TMessage (RArray lt) (Some rp))
      with ((1 + repr_count (RArray lt)) * c_SIZEOF_uint32 + ts_items lt (repr_items rp)) in *.
    rewrite sizeof_u32 in *. cbn [repr_count] in *.
    assert (Hlen : items_len lt = items_len (repr_items rp)) by (rewrite Hc; destruct rp; reflexivity).
    destruct (IHl (repr_items rp) Hwt Hnt Hwl Hlen Hsh) as (b & Eb & Lb & Hu); [lia|].
    exists (le32 (items_len lt) ++ b).
    split. { cbn [tf_field repr_count]. rewrite Eb. reflexivity. }
    split. { rewrite len_app, len_le32, Lb. lia. }
    intro rest.
    assert (Etu : tu_field TMessage (RArray lt) ((le32 (items_len lt) ++ b) ++ rest) =
                  bind (rd32 ((le32 (items_len lt) ++ b) ++ rest)) (fun pc =>
                    if negb (fst pc =? items_len lt) then Err
                    else bind (tu_subs lt None (snd pc)) (fun q =>
                           match fst q with Some r => Ok (r, snd q) | None => Err end))) by reflexivity.
    rewrite Etu, <- app_assoc, rd32_le32 by lia. cbn [bind fst snd]. rewrite N.eqb_refl. cbn [negb].
    rewrite Hu. cbn [bind fst snd].
    assert (Hne : norm_items (strip_items (repr_items rp)) <> INil).
    { destruct (repr_items rp) as [|x l] eqn:E; [|cbn [strip_items norm_items]; discriminate].
      cbn [items_len] in Hlen. lia. }
    rewrite push_all_none by exact Hne.
    rewrite norm_repr_of, repr_items_strip. reflexivity.
  - (* FNil *)
    intros all fps acc rest _ _ _ _ _ _ _ Hsh _. cbn [shape_fields] in Hsh.
    destruct (strip_fields fps) eqn:E; [|discriminate].
    exists []. cbn [tf_fields ts_fields tu_fields len app norm_fields]. rewrite fapp_nil_r. auto.
  - (* FCons *)
    intros n tc rt IHr tl IHt all fps acc rest (Hn & Htc & Hrt & Htl) (Hc1 & Hnr & Hntl) Hnd Hnda Hwa Hsub Hacc Hsh Hs.
    cbn [fnames] in Hnd. inversion Hnd as [|? ? Hnin Hnd']; subst.
    cbn [shape_fields] in Hsh. cbn [ts_fields] in Hs.
    destruct (flattenable tc) eqn:Fl.
    2:{ (* a non-flattenable template field is skipped by all three functions *)
        destruct (IHt all fps acc rest Htl Hntl Hnd' Hnda Hwa Hsub) as (b & Eb & Lb & Hu);
          [intros k Hk; apply Hacc; right; exact Hk|exact Hsh|lia|].
        exists b. cbn [tf_fields ts_fields tu_fields]. rewrite Fl. auto. }
    destruct (strip_fields fps) as [|n2 tc2 sr st] eqn:Es; [discriminate|].
    apply andb_true_iff in Hsh. destruct Hsh as [Hsh Hsh5].
    apply andb_true_iff in Hsh. destruct Hsh as [Hsh Hsh4].
    apply andb_true_iff in Hsh. destruct Hsh as [Hsh Hsh3].
    apply andb_true_iff in Hsh. destruct Hsh as [Hsh1 Hsh2].
    apply bytes_eqb_eq in Hsh1. apply N.eqb_eq in Hsh2. apply N.eqb_eq in Hsh3. subst n2 tc2.
    destruct (strip_fields_cons_inv fps _ _ _ _ Es) as (rp & fps' & _ & -> & -> & Hfin & Hsub').
    pose proof (Hsub _ _ _ Hfin) as Hfa.
    destruct (fin_wf _ _ _ _ Hfa Hwa) as (_ & _ & Hwrp).
    assert (Epay : payload_for n tc all = Some rp).
    { unfold payload_for. rewrite (fin_flookup _ _ _ _ Hnda Hfa), N.eqb_refl. reflexivity. }
    rewrite Epay in Hs. rewrite repr_count_strip in Hsh3. rewrite repr_items_strip in Hsh4.
    unfold flattenable in Fl.
    destruct (IHr (ftype_of_tc tc) rp Fl Hrt Hnr Hc1 Hwrp Hsh3 Hsh4) as (b1 & Eb1 & Lb1 & Hu1); [lia|].
    destruct (IHt all fps' (fsnoc acc n tc (norm_repr (strip_repr rp))) rest Htl Hntl Hnd' Hnda Hwa) as (b2 & Eb2 & Lb2 & Hu2).
    + intros n0 tc0 r0 H0. apply Hsub. apply Hsub'. exact H0.
    + intros k Hk. apply flookup_fsnoc_other; [|apply Hacc; right; exact Hk]. intro E. subst k. contradiction.
    + exact Hsh5.
    + lia.
    + exists (b1 ++ b2). cbn [tf_fields ts_fields tu_fields]. unfold flattenable. rewrite Fl, Epay, Eb1, Eb2. cbn [obind].
      split; [reflexivity|]. split; [rewrite len_app, Lb1, Lb2; reflexivity|].
      rewrite (Hacc n (or_introl eq_refl)). rewrite <- app_assoc, Hu1. cbn [bind fst snd].
      rewrite Hu2. cbn [norm_fields]. rewrite fsnoc_fapp. reflexivity.
  - (* Msg *)
    intros wt ft IH [wp fp] (Hwt & Hndt & Hft) Hne (Hwp & Hndp & Hfp) Hsh Hs.
    cbn [shape_msg strip_msg] in Hsh. cbn [ts_msg] in Hs. rewrite sizeof_u32 in Hs. cbn [ne_msg] in Hne.
    destruct (IH fp fp FNil [] Hft Hne Hndt Hndp Hfp) as (b & Eb & Lb & Hu); [auto|reflexivity|exact Hsh|lia|].
    exists (le32 wp ++ b). cbn [tf_msg ts_msg]. rewrite Eb. cbn [obind].
    split; [reflexivity|]. split; [rewrite len_app, len_le32, Lb, sizeof_u32; reflexivity|].
    intro rest. cbn [tu_msg]. rewrite <- app_assoc, rd32_le32 by exact Hwp. cbn [bind fst snd].
    specialize (IH fp fp FNil rest Hft Hne Hndt Hndp Hfp).
    destruct IH as (b' & Eb' & _ & Hu'); [auto|reflexivity|exact Hsh|lia|].
    rewrite Eb in Eb'. injection Eb' as <-. rewrite Hu'. reflexivity.
Qed.

(* ------------------------------------------------------------------ the theorems *)

Theorem tmpl_roundtrip (t p : msg) :
  wf_msg t -> ne_msg t -> wf_msg p -> same_shape t p = true -> tmpl_flattened_size t p < two32 ->
  exists b, tmpl_flatten t p = Some b /\ len b = tmpl_flattened_size t p /\ tmpl_unflatten t b = Ok (rt p).
Proof.
  intros Hwt Hne Hwp Hsh Hs.
  destruct (proj2 (proj2 (proj2 (proj2 tmpl_roundtrip_all))) t p Hwt Hne Hwp Hsh Hs) as (b & Eb & Lb & Hu).
  exists b. split; [exact Eb|]. split; [exact Lb|].
  unfold tmpl_unflatten. rewrite <- (app_nil_r b), Hu. reflexivity.
Qed.

(* non-vacuity: the template CreateMessageTemplate makes for the example Message satisfies the premises *)
Example ex_tmpl :
  wf_msg (tmpl_of_msg ex_msg) /\ ne_msg (tmpl_of_msg ex_msg) /\ same_shape (tmpl_of_msg ex_msg) ex_msg = true /\
  tmpl_flattened_size (tmpl_of_msg ex_msg) ex_msg < two32 /\
  (exists b, tmpl_flatten (tmpl_of_msg ex_msg) ex_msg = Some b /\ tmpl_unflatten (tmpl_of_msg ex_msg) b = Ok (rt ex_msg)).
Proof.
  assert (Hw : wf_msg (tmpl_of_msg ex_msg)).
  { vm_compute. repeat split; try reflexivity; try exact I; try (repeat constructor; cbn [In]; intuition discriminate). }
  assert (Hn : ne_msg (tmpl_of_msg ex_msg)) by (vm_compute; repeat split; discriminate).
  assert (Hs : same_shape (tmpl_of_msg ex_msg) ex_msg = true) by (vm_compute; reflexivity).
  assert (Hb : tmpl_flattened_size (tmpl_of_msg ex_msg) ex_msg < two32) by (vm_compute; reflexivity).
  split; [exact Hw|]. split; [exact Hn|]. split; [exact Hs|]. split; [exact Hb|].
  destruct (tmpl_roundtrip _ _ Hw Hn (proj1 ex_wf) Hs Hb) as (b & E1 & _ & E2). eauto.
Qed.

(* ------------------------------------------------------------------ the template the library creates *)

(* every field holds at least one item, at every level: true of every Message the API builds (a field
   disappears with its last item); only Messages parsed from contrived bytes can have empty fields *)
Fixpoint nz_msg (m : msg) : Prop :=
  match m with Msg _ fs => nz_fields fs end
with nz_fields (fs : fields) : Prop :=
  match fs with FNil => True | FCons _ _ r t => 1 <= repr_count r /\ nz_repr r /\ nz_fields t end
with nz_repr (r : repr) : Prop :=
  match r with RInline i => nz_item i | RArray l => nz_items l end
with nz_item (i : item) : Prop :=
  match i with IMsg m => nz_msg m | _ => True end
with nz_items (l : items) : Prop :=
  match l with INil => True | ICons i t => nz_item i /\ nz_items t end.

Fixpoint rep_items (n : nat) (v : item) : items := match n with O => INil | S k => ICons v (rep_items k v) end.

Lemma push_n_all (n : nat) (cur : option repr) (v : item) : push_n n cur v = push_all cur (rep_items n v).
Proof. revert cur; induction n as [|k IH]; intro cur; cbn [push_n rep_items push_all]; [reflexivity|apply IH]. Qed.

Lemma rep_items_len (n : nat) (v : item) : items_len (rep_items n v) = N.of_nat n.
Proof. induction n as [|k IH]; cbn [rep_items items_len]; [reflexivity|]. rewrite IH. lia. Qed.

Lemma repr_of_count (l : items) : repr_count (repr_of l) = items_len l.
Proof. destruct l as [|a [|b t]]; reflexivity. Qed.

Lemma wf_repr_of (ft : ftype) (l : items) : wf_items ft l -> wf_repr ft (repr_of l).
Proof. destruct l as [|a [|b t]]; cbn [repr_of wf_repr wf_items]; tauto. Qed.

Lemma ne_repr_of (l : items) : ne_items l -> ne_repr (repr_of l).
Proof. destruct l as [|a [|b t]]; cbn [repr_of ne_repr ne_items]; tauto. Qed.

Lemma wf_rep_items (ft : ftype) (n : nat) (v : item) : wf_item ft v -> wf_items ft (rep_items n v).
Proof. intro H. induction n as [|k IH]; cbn [rep_items wf_items]; auto. Qed.

Lemma ne_rep_items (n : nat) (v : item) : ne_item v -> ne_items (rep_items n v).
Proof. intro H. induction n as [|k IH]; cbn [rep_items ne_items]; auto. Qed.

Lemma push_n_repr (n : N) (v : item) : 1 <= n -> push_n (N.to_nat n) None v = Some (repr_of (rep_items (N.to_nat n) v)).
Proof.
  intro H. rewrite push_n_all, push_all_none; [reflexivity|].
  destruct (N.to_nat n) eqn:E; [lia|cbn [rep_items]; discriminate].
Qed.

(* the default items CreateMessageTemplate stores are well-formed items of their types *)
Lemma default_item_wf (ft : ftype) : ft_fixed ft = true -> ft <> TRect -> wf_item ft (IFix (zeros (N.to_nat (cpp_size ft)))).
Proof. destruct ft; intros H1 H2; try discriminate H1; try congruence; vm_compute; auto. Qed.

Lemma default_rect_wf : wf_item TRect (IFix default_rect).
Proof. vm_compute. reflexivity. Qed.

(* the per-item templates of a list of sub-Messages *)
Fixpoint tmpl_items (l : items) : items :=
  match l with
  | INil => INil
  | ICons (IMsg m) t => ICons (IMsg (tmpl_of_msg m)) (tmpl_items t)
  | ICons _ t => tmpl_items t
  end.

Lemma shape_repr_of (lt lp : items) :
  lt <> INil -> shape_items lt lp = true -> shape_repr TMessage (repr_of lt) lp = true.
Proof.
  destruct lt as [|a [|b t]]; intros Hne H; [contradiction| |exact H].
  cbn [repr_of shape_repr]. cbn [shape_items] in H. apply andb_true_iff in H. tauto.
Qed.

Lemma shape_repr_leaf (ft : ftype) (r : repr) (lp : items) : ft <> TMessage -> shape_repr ft r lp = true.
Proof. intro H. destruct r; destruct ft; try reflexivity; congruence. Qed.

Lemma created_template_all :
  (forall i cur, wf_item TMessage i -> nz_item i ->
     exists m, i = IMsg m /\ tmpl_of_item i cur = Some (push false cur (IMsg (tmpl_of_msg m))) /\
               shape_msg (tmpl_of_msg m) (strip_msg m) = true /\ wf_msg (tmpl_of_msg m) /\ ne_msg (tmpl_of_msg m)) /\
  (forall l cur, wf_items TMessage l -> nz_items l ->
     tmpl_of_items l cur = push_all cur (tmpl_items l) /\ items_len (tmpl_items l) = items_len l /\
     shape_items (tmpl_items l) (strip_items l) = true /\ wf_items TMessage (tmpl_items l) /\ ne_items (tmpl_items l)) /\
  (forall r ft, ft_flattenable ft = true -> wf_repr ft r -> nz_repr r -> 1 <= repr_count r ->
     exists r', tmpl_of_repr ft r = Some r' /\ repr_count r' = repr_count r /\
                shape_repr ft r' (strip_items (repr_items r)) = true /\ wf_repr ft r' /\ ne_repr r') /\
  (forall fs, wf_fields fs -> nz_fields fs ->
     shape_fields (tmpl_of_fields fs) (strip_fields fs) = true /\ wf_fields (tmpl_of_fields fs) /\
     ne_fields (tmpl_of_fields fs) /\ (forall n, In n (fnames (tmpl_of_fields fs)) -> In n (fnames fs))) /\
  (forall m, wf_msg m -> nz_msg m ->
     shape_msg (tmpl_of_msg m) (strip_msg m) = true /\ wf_msg (tmpl_of_msg m) /\ ne_msg (tmpl_of_msg m)).
Proof.
  apply msg_mutind.
  - intros bs cur H. cbn [wf_item] in H. contradiction.
  - intros bs cur H. cbn [wf_item] in H. contradiction.
  - intros bs cur H. cbn [wf_item] in H. contradiction.
  - intros m IH cur Hw Hn. cbn [wf_item] in Hw. cbn [nz_item] in Hn.
    destruct (IH Hw Hn) as (H1 & H2 & H3). exists m. cbn [tmpl_of_item]. auto.
  - intros id cur H. cbn [wf_item] in H. contradiction.
  - intros cur _ _. cbn [tmpl_of_items tmpl_items push_all items_len strip_items shape_items wf_items ne_items]. auto.
  - intros i IHi t IHt cur [Hwi Hwt] [Hni Hnt].
    destruct (IHi cur Hwi Hni) as (m & -> & E & S1 & W1 & N1).
    destruct (IHt (Some (push false cur (IMsg (tmpl_of_msg m)))) Hwt Hnt) as (E2 & L2 & S2 & W2 & N2).
    cbn [tmpl_of_items tmpl_of_item tmpl_items push_all items_len strip_items strip_item shape_items shape_item items_tail wf_items wf_item ne_items ne_item].
    rewrite E2, L2, S1, S2. repeat split; try reflexivity; assumption.
  - (* RInline *)
    intros i IHi ft Hf Hw Hn Hc. cbn [wf_repr] in Hw. cbn [nz_repr] in Hn.
    destruct ft; try discriminate Hf.
    all: try (
      (* fixed-size types *)
      eexists; cbn [tmpl_of_repr repr_count]; change (N.to_nat 1) with 1%nat; cbn [push_n push];
      split; [reflexivity|]; split; [reflexivity|]; split; [reflexivity|]; cbn [wf_repr ne_repr ne_item]; split;
      [first [exact default_rect_wf | apply default_item_wf; [reflexivity|discriminate]] | exact I]).
    + (* Message *)
      destruct (IHi None Hw Hn) as (m & -> & E & S1 & W1 & N1).
      exists (RInline (IMsg (tmpl_of_msg m))). cbn [tmpl_of_repr repr_count repr_items strip_items strip_item shape_repr shape_item wf_repr wf_item ne_repr ne_item].
      cbn [tmpl_of_item push] in E. auto.
    + (* String *)
      exists (RInline (IStr [])). cbn [tmpl_of_repr repr_count]. repeat split; try reflexivity; try exact I.
    + (* raw *)
      exists (RInline (IRaw [])). cbn [tmpl_of_repr repr_count]. repeat split; try reflexivity; try exact I.
  - (* RArray *)
    intros l IHl ft Hf Hw Hn Hc. cbn [wf_repr] in Hw. cbn [nz_repr] in Hn. cbn [repr_count] in Hc.
    destruct ft; try discriminate Hf.
    all: try (
      eexists; cbn [tmpl_of_repr repr_count]; rewrite push_n_repr by exact Hc;
      split; [reflexivity|]; rewrite repr_of_count, rep_items_len, N2Nat.id;
      split; [reflexivity|]; split; [apply shape_repr_leaf; discriminate|];
      split; [apply wf_repr_of, wf_rep_items, default_item_wf; [reflexivity|discriminate] | apply ne_repr_of, ne_rep_items; exact I]).
    + (* Rect *)
      exists (repr_of (rep_items (N.to_nat (items_len l)) (IFix default_rect))).
      cbn [tmpl_of_repr repr_count]. rewrite push_n_repr by exact Hc.
      split; [reflexivity|]. rewrite repr_of_count, rep_items_len, N2Nat.id.
      split; [reflexivity|]. split; [apply shape_repr_leaf; discriminate|].
      split; [apply wf_repr_of, wf_rep_items, default_rect_wf | apply ne_repr_of, ne_rep_items; exact I].
    + (* Message *)
      destruct (IHl None Hw Hn) as (E & L & S & W & N0).
      assert (Hne : tmpl_items l <> INil).
      { intro E0. rewrite E0 in L. cbn [items_len] in L. lia. }
      exists (repr_of (tmpl_items l)). cbn [tmpl_of_repr repr_items]. rewrite E, push_all_none by exact Hne.
      split; [reflexivity|]. rewrite repr_of_count, L. split; [reflexivity|].
      split; [apply shape_repr_of; assumption|]. split; [apply wf_repr_of; exact W|apply ne_repr_of; exact N0].
    + (* String *)
      exists (repr_of (rep_items (N.to_nat (items_len l)) (IStr []))).
      cbn [tmpl_of_repr repr_count]. rewrite push_n_repr by exact Hc.
      split; [reflexivity|]. rewrite repr_of_count, rep_items_len, N2Nat.id.
      split; [reflexivity|]. split; [apply shape_repr_leaf; discriminate|].
      split; [apply wf_repr_of, wf_rep_items; reflexivity | apply ne_repr_of, ne_rep_items; exact I].
    + (* raw *)
      exists (RArray (items_map_raw_empty l)). cbn [tmpl_of_repr repr_count].
      assert (Hm : items_len (items_map_raw_empty l) = items_len l /\ wf_items TRaw (items_map_raw_empty l) /\ ne_items (items_map_raw_empty l)).
      { clear. induction l as [|x t IH]; cbn [items_map_raw_empty items_len wf_items ne_items wf_item ne_item]; [auto|].
        destruct IH as (-> & W & N0). auto. }
      destruct Hm as (L & W & N0). rewrite L. repeat split; try reflexivity; assumption.
  - (* FNil *) intros _ _. cbn. auto.
  - (* FCons *)
    intros n tc r IHr t IHt (Hn & Htc & Hr & Ht) (Hc & Hnr & Hnt).
    destruct (IHt Ht Hnt) as (S2 & W2 & N2 & I2).
    cbn [tmpl_of_fields strip_fields]. unfold flattenable.
    destruct (ft_flattenable (ftype_of_tc tc)) eqn:Fl.
    + destruct (IHr (ftype_of_tc tc) Fl Hr Hnr Hc) as (r' & E & C & S1 & W1 & N1).
      rewrite E. cbn [shape_fields wf_fields ne_fields fnames]. unfold flattenable. rewrite Fl.
      rewrite bytes_eqb_refl, (N.eqb_refl tc), repr_count_strip, repr_items_strip, S1, S2.
      replace (repr_count r' =? repr_count r) with true by (symmetry; apply N.eqb_eq; exact C). cbn [andb].
      split; [reflexivity|]. split; [auto|]. split.
      * split; [|auto]. destruct (ftype_of_tc tc); try exact I. rewrite C. exact Hc.
      * intros k [Hk|Hk]; [left; exact Hk|right; exact (I2 k Hk)].
    + split; [exact S2|]. split; [exact W2|]. split; [exact N2|].
      intros k Hk. right. exact (I2 k Hk).
  - (* Msg *)
    intros w fs IH (Hw & Hnd & Hfs) Hn. cbn [nz_msg] in Hn.
    destruct (IH Hfs Hn) as (S1 & W1 & N1 & I1).
    cbn [tmpl_of_msg strip_msg shape_msg wf_msg ne_msg]. split; [exact S1|]. split; [|exact N1].
    split; [exact Hw|]. split; [|exact W1].
    (* the template's names are a sub-list of the Message's, in the same order *)
    clear - Hnd. induction fs as [|n tc r t IHf]; cbn [tmpl_of_fields fnames]; [constructor|].
    cbn [fnames] in Hnd. inversion Hnd as [|? ? Hnin Hnd']; subst.
    assert (Hsub : forall k, In k (fnames (tmpl_of_fields t)) -> In k (fnames t)).
    { clear. induction t as [|n tc r t IHt]; cbn [tmpl_of_fields fnames]; [auto|].
      destruct (flattenable tc); [|intros k Hk; right; exact (IHt k Hk)].
      destruct (tmpl_of_repr (ftype_of_tc tc) r); cbn [fnames In]; intros k Hk; [destruct Hk; [left; assumption|right; exact (IHt k H)]|right; exact (IHt k Hk)]. }
    destruct (flattenable tc); [|exact (IHf Hnd')].
    destruct (tmpl_of_repr (ftype_of_tc tc) r); cbn [fnames]; [|exact (IHf Hnd')].
    constructor; [intro Hin; apply Hnin; exact (Hsub n Hin)|exact (IHf Hnd')].
Qed.

(* the template CreateMessageTemplate makes for a Message satisfies the premises of the round trip *)
Theorem created_template_ok (p : msg) :
  wf_msg p -> nz_msg p ->
  same_shape (tmpl_of_msg p) p = true /\ wf_msg (tmpl_of_msg p) /\ ne_msg (tmpl_of_msg p).
Proof. intros Hw Hn. exact (proj2 (proj2 (proj2 (proj2 created_template_all))) p Hw Hn). Qed.

Corollary tmpl_roundtrip_created (p : msg) :
  wf_msg p -> nz_msg p -> tmpl_flattened_size (tmpl_of_msg p) p < two32 ->
  exists b, tmpl_flatten (tmpl_of_msg p) p = Some b /\ len b = tmpl_flattened_size (tmpl_of_msg p) p /\
            tmpl_unflatten (tmpl_of_msg p) b = Ok (rt p).
Proof.
  intros Hw Hn Hs. destruct (created_template_ok p Hw Hn) as (S1 & W1 & N1).
  apply tmpl_roundtrip; assumption.
Qed.

(* ------------------------------------------------------------------ the API never leaves an empty field behind *)

Definition op_nz (o : mop) : Prop :=
  match o with
  | OAdd _ _ _ v => nz_item v
  | OReplace _ _ _ _ v => nz_item v
  | _ => True
  end.

Lemma nz_flookup n fs tc r : flookup n fs = Some (tc, r) -> nz_fields fs -> 1 <= repr_count r /\ nz_repr r.
Proof.
  induction fs as [|k tc' r' t IH]; cbn [flookup nz_fields]; [discriminate|].
  intros H (Hc & Hr & Ht). destruct (bytes_eqb n k); [injection H as <- <-; auto|exact (IH H Ht)].
Qed.

Lemma nz_fset n tc r fs : nz_fields fs -> 1 <= repr_count r -> nz_repr r -> nz_fields (fset n tc r fs).
Proof.
  intros H Hc Hr. induction fs as [|k tc' r' t IH]; cbn [fset]; [exact I|].
  destruct H as (Hc' & Hr' & Ht). destruct (bytes_eqb n k); cbn [nz_fields]; auto.
Qed.

Lemma nz_fapp a b : nz_fields a -> nz_fields b -> nz_fields (fapp a b).
Proof. intros Ha Hb. induction a as [|k tc r t IH]; cbn [fapp]; [exact Hb|]. destruct Ha as (H1 & H2 & H3). cbn [nz_fields]. auto. Qed.

Lemma nz_fsnoc fs n tc r : nz_fields fs -> 1 <= repr_count r -> nz_repr r -> nz_fields (fsnoc fs n tc r).
Proof. intros H Hc Hr. unfold fsnoc. apply nz_fapp; [exact H|]. cbn [nz_fields]. auto. Qed.

Lemma nz_fremove n fs : nz_fields fs -> nz_fields (fremove n fs).
Proof.
  induction fs as [|k tc r t IH]; cbn [fremove]; intro H; [exact I|].
  destruct H as (H1 & H2 & H3). destruct (bytes_eqb n k); cbn [nz_fields]; auto.
Qed.

Lemma nz_fput n tc r fs : nz_fields fs -> 1 <= repr_count r -> nz_repr r -> nz_fields (fput n tc r fs).
Proof. intros. unfold fput. destruct (flookup n fs); [apply nz_fset|apply nz_fsnoc]; assumption. Qed.

Lemma nz_items_snoc l v : nz_items l -> nz_item v -> nz_items (items_snoc l v).
Proof. intros Hl Hv. unfold items_snoc. induction l as [|i t IH]; cbn [items_app nz_items]; [auto|]. destruct Hl. auto. Qed.

Lemma nz_items_remove k l : nz_items l -> nz_items (items_remove k l).
Proof.
  revert k; induction l as [|i t IH]; intros k Hl; cbn [items_remove]; [exact I|].
  destruct Hl as [Hi Ht]. destruct (k =? 0); [exact Ht|]. cbn [nz_items]. auto.
Qed.

Lemma nz_items_replace k v l : nz_items l -> nz_item v -> nz_items (items_replace k v l) /\ items_len (items_replace k v l) = items_len l.
Proof.
  revert k; induction l as [|i t IH]; intros k Hl Hv; cbn [items_replace]; [split; [exact I|reflexivity]|].
  destruct Hl as [Hi Ht]. destruct (k =? 0); cbn [nz_items items_len]; [auto|].
  destruct (IH (N.pred k) Ht Hv) as [H1 H2]. rewrite H2. auto.
Qed.

Lemma nz_push p r v :
  match r with Some r0 => nz_repr r0 | None => True end -> nz_item v ->
  nz_repr (push p r v) /\ 1 <= repr_count (push p r v).
Proof.
  intros Hr Hv. destruct r as [[a|l]|]; cbn [push nz_repr repr_count] in *.
  - destruct p; cbn [nz_items items_len]; split; auto; lia.
  - destruct p.
    + cbn [nz_items items_len]. split; [auto|lia].
    + split; [apply nz_items_snoc; assumption|].
      unfold items_snoc. clear. induction l as [|i t IH]; cbn [items_app items_len]; lia.
  - split; [exact Hv|lia].
Qed.

Lemma api_add_nz p n tc v m : nz_msg m -> nz_item v -> nz_msg (fst (api_add p n tc v m)).
Proof.
  intros Hm Hv. destruct m as [w fs]. unfold api_add. cbn [nz_msg] in Hm.
  destruct (tc =? c_B_ANY_TYPE); [exact Hm|].
  destruct (flookup n fs) as [[tc' r]|] eqn:El.
  - destruct (tc' =? tc); [|exact Hm]. cbn [fst nz_msg].
    destruct (nz_flookup _ _ _ _ El Hm) as [_ Hr].
    destruct (nz_push p (Some r) v Hr Hv). apply nz_fset; assumption.
  - cbn [fst nz_msg]. destruct (nz_push p None v I Hv). apply nz_fsnoc; assumption.
Qed.

Lemma step_nz (m : msg) (o : mop) : nz_msg m -> op_nz o -> nz_msg (fst (step m o)).
Proof.
  intros Hm Ho. destruct o as [p n tc v|a n tc idx v|n idx|n|old new|w| |n|n|old new]; cbn [step op_nz] in *.
  - apply api_add_nz; assumption.
  - destruct m as [w fs]. unfold api_replace. pose proof Hm as Hfs. cbn [nz_msg] in Hfs.
    destruct (tc =? c_B_ANY_TYPE); [exact Hm|].
    destruct (flookup n fs) as [[tc' r]|] eqn:El.
    + destruct (tc' =? tc).
      * destruct (a && (repr_count r <=? idx)); [apply api_add_nz; assumption|].
        destruct (nz_flookup _ _ _ _ El Hfs) as [Hc Hr].
        destruct r as [i|l].
        -- destruct (idx =? 0); [|exact Hm]. cbn [fst nz_msg]. apply nz_fset; [exact Hfs|cbn; lia|exact Ho].
        -- destruct (idx <? items_len l); [|exact Hm]. cbn [fst nz_msg].
           cbn [nz_repr repr_count] in *. destruct (nz_items_replace idx v l Hr Ho) as [H1 H2].
           apply nz_fset; [exact Hfs|cbn [repr_count]; rewrite H2; exact Hc|exact H1].
      * destruct (a && true); [apply api_add_nz; assumption|exact Hm].
    + destruct (a && true); [apply api_add_nz; assumption|exact Hm].
  - destruct m as [w fs]. unfold api_remove_data. pose proof Hm as Hfs. cbn [nz_msg] in Hfs.
    destruct (flookup n fs) as [[tc r]|] eqn:El; [|exact Hm].
    destruct (nz_flookup _ _ _ _ El Hfs) as [Hc Hr].
    destruct r as [i|l].
    + destruct (idx =? 0); [|exact Hm]. cbn [fst nz_msg]. apply nz_fremove. exact Hfs.
    + destruct (idx <? items_len l).
      * destruct (items_len (items_remove idx l) =? 0) eqn:E0; cbn [fst nz_msg]; [apply nz_fremove; exact Hfs|].
        apply N.eqb_neq in E0. apply nz_fset; [exact Hfs|cbn [repr_count]; lia|apply nz_items_remove; exact Hr].
      * destruct (items_len l =? 0); [|exact Hm]. cbn [fst nz_msg]. apply nz_fremove. exact Hfs.
  - destruct m as [w fs]. unfold api_remove_name. destruct (flookup n fs); [|exact Hm].
    cbn [fst nz_msg]. apply nz_fremove. exact Hm.
  - destruct m as [w fs]. unfold api_rename. pose proof Hm as Hfs. cbn [nz_msg] in Hfs.
    destruct (bytes_eqb old new); [exact Hm|].
    destruct (flookup old fs) as [[tc r]|] eqn:El; [|exact Hm]. cbn [fst nz_msg].
    destruct (nz_flookup _ _ _ _ El Hfs) as [Hc Hr]. apply nz_fput; auto using nz_fremove.
  - destruct m as [w0 fs]. exact Hm.
  - destruct m as [w0 fs]. exact I.
  - destruct m as [w fs]. unfold api_move. pose proof Hm as Hfs. cbn [nz_msg] in Hfs.
    destruct (flookup n fs) as [[tc r]|] eqn:El; [|exact Hm]. cbn [fst nz_msg].
    destruct (nz_flookup _ _ _ _ El Hfs) as [Hc Hr]. cbn [nz_fields]. auto using nz_fremove.
  - destruct m as [w fs]. unfold api_move. pose proof Hm as Hfs. cbn [nz_msg] in Hfs.
    destruct (flookup n fs) as [[tc r]|] eqn:El; [|exact Hm]. cbn [fst nz_msg].
    destruct (nz_flookup _ _ _ _ El Hfs) as [Hc Hr]. apply nz_fsnoc; auto using nz_fremove.
  - destruct m as [w fs]. unfold api_copy_name. pose proof Hm as Hfs. cbn [nz_msg] in Hfs.
    destruct (bytes_eqb old new); [exact Hm|].
    destruct (flookup old fs) as [[tc r]|] eqn:El; [|exact Hm]. cbn [fst nz_msg].
    destruct (nz_flookup _ _ _ _ El Hfs) as [Hc Hr]. apply nz_fput; assumption.
Qed.

Theorem api_reachable_nz (ops : list mop) : Forall op_nz ops -> nz_msg (run ops empty_msg).
Proof.
  unfold run. assert (H0 : nz_msg empty_msg) by exact I.
  revert H0. generalize empty_msg as m.
  induction ops as [|o ops IH]; intros m Hm Hok; cbn [fold_left]; [exact Hm|].
  inversion Hok as [|? ? Ho Hops]; subst. apply IH; [|exact Hops]. apply step_nz; assumption.
Qed.
