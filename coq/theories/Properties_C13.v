(* C13 -- property theorems only: each is closed by [exact] of a lemma proved elsewhere. *)
From Coq Require Import List Arith.
From Muscle Require Import Refl.Index Refl.IndexProofs.

Theorem C13_replay_app : forall a b l, replay (a ++ b) l = replay b (replay a l).
Proof. exact replay_app. Qed.
Print Assumptions C13_replay_app.
