(* C13 -- an ordered child index replayed from its update log equals the server's index.
   Property theorems only: each is closed by [exact] of a lemma proved in Refl/. *)
From Coq Require Import List Arith NArith.
Import ListNotations.
From Muscle Require Import Gen.Consts Refl.Index Refl.IndexProofs Refl.IndexModel Refl.IndexModelProofs Refl.IndexRunProofs Refl.IndexLogProofs Refl.IndexWitness.

(* For every history (any number of sessions, any list of steps, each step one command or a batch of commands of
   one session: ordered inserts, reorders, plain sets, removals, subtree clones, subscriptions/unsubscriptions/
   GETDATA at any point): every index lists only existing children of its node, each at most once. *)
Theorem C13_index_inv : forall n steps p,
  let t := st_tree (run cfg_fixed n steps) in
  NoDup (index_at t p) /\ forall k, In k (index_at t p) -> has_node t (p ++ [k]) = true.
Proof. exact index_inv. Qed.
Print Assumptions C13_index_inv.

(* the same while a command is being handled (before the push that follows it) *)
Theorem C13_index_inv_mid : forall n steps s c p, s < st_n (run cfg_fixed n steps) ->
  let t := st_tree (handle cfg_fixed (run cfg_fixed n steps) s c) in
  NoDup (index_at t p) /\ forall k, In k (index_at t p) -> has_node t (p ++ [k]) = true.
Proof. exact index_inv_mid. Qed.
Print Assumptions C13_index_inv_mid.

(* ... and at every quiescent point every subscriber's replica -- obtained by replaying, from nothing, everything
   that was delivered to it for that node since it subscribed: the snapshot, then the updates -- is exactly the
   server's current index. *)
Theorem C13_replay_eq : forall n steps s p,
  let st := run cfg_fixed n steps in
  subscribed st s p = true ->
  replay (st_hist st s p) [] = index_at (st_tree st) p /\ st_mirror st s p = index_at (st_tree st) p.
Proof. exact replay_eq. Qed.
Print Assumptions C13_replay_eq.

(* ... and the stream is exact, not merely replay-equal under a forgiving client: replayed from nothing, every
   insert position lies within the replica and every remove position holds the key the op names. *)
Theorem C13_log_fits : forall n steps s p, ops_fit (st_hist (run cfg_fixed n steps) s p) [] = true.
Proof. exact log_fits. Qed.
Print Assumptions C13_log_fits.

(* what the check actually observes: the stream a step logs for a (client, node) pair -- compared, step by step, with
   the PR_RESULT_INDEXUPDATED Messages the real client receives -- fits the replica the client held before the step and
   replays it into the server's index after the step (steps without unsubscription or departure of that client) *)
Theorem C13_step_replays : forall n steps sc s p,
  let st := run cfg_fixed n steps in
  let st' := step cfg_fixed st sc in
  forallb log_cmd (snd sc) = true -> subscribed st s p = true ->
  ops_fit (pend_for (st_out st') s p) (st_mirror st s p) = true /\
  replay (pend_for (st_out st') s p) (st_mirror st s p) = index_at (st_tree st') p.
Proof. exact step_replays. Qed.
Print Assumptions C13_step_replays.

(* per command, for pairs that are subscribed afterwards (so also for a client that has just subscribed: its history
   starts with the snapshot): exactly the part of the logged output addressed to the pair entered its history *)
Theorem C13_exec_log : forall cfg s st c, Inv st -> log_cmd c = true -> log_spec st (exec cfg s st c).
Proof. exact exec_log. Qed.
Print Assumptions C13_exec_log.

Theorem C13_quiescent_clean : forall n steps,
  let st := run cfg_fixed n steps in
  st_pend st = [] /\ forall s p, subscribed st s p = false -> st_mirror st s p = [].
Proof. exact quiescent_clean. Qed.
Print Assumptions C13_quiescent_clean.

(* removing a child removes its entry: in every reachable state a name without a node is in no index, and the
   removal primitive (DataNode::RemoveChild, recursive) deletes the node and its parent's entry *)
Theorem C13_absent_child_not_indexed : forall n steps p k,
  let t := st_tree (run cfg_fixed n steps) in has_node t (p ++ [k]) = false -> ~ In k (index_at t p).
Proof. exact absent_child_not_indexed. Qed.
Print Assumptions C13_absent_child_not_indexed.

Theorem C13_remove_drops_entry : forall st v, Mid st -> has_node (st_tree st) v = true -> 2 <= length v ->
  let st' := prim_remove_node st v in
  has_node (st_tree st') v = false /\ ~ In (last_name v) (index_at (st_tree st') (parent_of v)) /\ Mid st'.
Proof. exact remove_drops_entry. Qed.
Print Assumptions C13_remove_drops_entry.

(* a session that leaves (at any point) takes its nodes, their indices and its subscriptions with it *)
Theorem C13_detach_clean : forall cfg st s, cfg_ok cfg -> Inv st -> s < st_n st -> has_node (st_tree st) [NS s] = true ->
  let st' := exec cfg s st CDetach in
  Inv st' /\ st_subs st' s = [] /\ forall p, own s p = true -> has_node (st_tree st') p = false /\ index_at (st_tree st') p = [].
Proof. exact detach_clean. Qed.
Print Assumptions C13_detach_clean.

(* quiet removal (PR_NAME_REMOVE_QUIETLY; not one of the commands of [run]): the index invariant and the flag invariant
   survive, no index changes except the parent's and those of the removed nodes, so every replica except those of the
   parent and of the removed subtree stays exact; the parent's watchers are stale until they take a snapshot (witness
   below) -- which is what the flag asks for *)
Theorem C13_quiet_frame : forall st v, Mid st ->
  let st' := remove_child_quiet st v in
  twf (st_tree st') /\ I6 st' /\
  (forall p, p <> parent_of v -> is_prefix v p = false -> index_at (st_tree st') p = index_at (st_tree st) p) /\
  (forall s p, subscribed st' s p = true -> p <> parent_of v -> is_prefix v p = false ->
     replay (pend_for (st_pend st') s p) (st_mirror st' s p) = index_at (st_tree st') p) /\
  (has_node (st_tree st) v = true ->
     ~ In (last_name v) (index_at (st_tree st') (parent_of v)) /\
     forall p, is_prefix v p = true -> has_node (st_tree st') p = false).
Proof. exact quiet_frame. Qed.
Print Assumptions C13_quiet_frame.

Theorem C13_quiet_removal_refuted :
  let st := remove_child_quiet (run cfg_fixed 2 (firstn 3 nv_steps_)) [NS 0; a_; NI 1] in
  subscribed st 1 [NS 0; a_] = true /\ st_pend st = [] /\
  index_at (st_tree st) [NS 0; a_] = [NI 2; NI 0] /\ st_mirror st 1 [NS 0; a_] = [NI 2; NI 0; NI 1].
Proof. exact quiet_removal_refuted. Qed.
Print Assumptions C13_quiet_removal_refuted.

(* the full invariant, for every configuration that has both repairs *)
Theorem C13_run_Inv : forall cfg n steps, cfg_ok cfg -> Inv (run cfg n steps).
Proof. exact run_Inv. Qed.
Print Assumptions C13_run_Inv.

(* the client-side replay of a snapshot yields the index (from nothing always; from anything when non-empty) *)
Theorem C13_snapshot_replay : forall n, replay (snapshot n) [] = index_of n.
Proof. exact replay_snapshot_empty. Qed.
Print Assumptions C13_snapshot_replay.

Theorem C13_snapshot_replay_nonempty : forall n l, index_of n <> [] -> replay (snapshot n) l = index_of n.
Proof. exact replay_snapshot_nonempty. Qed.
Print Assumptions C13_snapshot_replay_nonempty.

(* the behaviour found in the pinned tree refutes the property (both witnesses replayed on the real server) *)
Theorem C13_reorder_ipres_refuted :
  exists steps s p, let st := run cfg_pinned 1 steps in
    subscribed st s p = true /\ st_mirror st s p <> index_at (st_tree st) p.
Proof. exact reorder_ipres_refuted. Qed.
Print Assumptions C13_reorder_ipres_refuted.

Theorem C13_clone_refuted :
  exists steps p, ~ NoDup (index_at (st_tree (run cfg_pinned 1 steps)) p).
Proof. exact clone_refuted. Qed.
Print Assumptions C13_clone_refuted.

(* delaying the push to the end of a batch lets a GETDATA snapshot overtake a pending update *)
Theorem C13_late_push_refuted :
  let st := step_late_push cfg_fixed (run cfg_fixed 1 batch_witness_prefix) batch_witness_last in
  subscribed st 0 [NS 0; a_] = true /\
  index_at (st_tree st) [NS 0; a_] = [NI 0; NI 2; NI 1] /\
  st_mirror st 0 [NS 0; a_] = [NI 0; NI 2; NI 2; NI 1].
Proof. exact late_push_refuted. Qed.
Print Assumptions C13_late_push_refuted.

(* the op codes the harness and the driver print are the translated INDEX_OP_* constants; they are pairwise distinct *)
Theorem C13_opcodes_distinct :
  c_INDEX_OP_ENTRYINSERTED <> c_INDEX_OP_ENTRYREMOVED /\ c_INDEX_OP_ENTRYINSERTED <> c_INDEX_OP_CLEARED /\
  c_INDEX_OP_ENTRYREMOVED <> c_INDEX_OP_CLEARED.
Proof. exact opcodes_distinct. Qed.
Print Assumptions C13_opcodes_distinct.

(* non-vacuity of the premises *)
Example C13_nv_replay_eq :
  let st := run cfg_fixed 2 nv_steps in
  subscribed st 1 [NS 0; a_] = true /\ index_at (st_tree st) [NS 0; a_] = [NI 2; NI 0] /\
  st_mirror st 1 [NS 0; a_] = [NI 2; NI 0] /\
  st_hist st 1 [NS 0; a_] = [OpIns 0 (NI 0); OpIns 1 (NI 1); OpIns 0 (NI 2); OpRem 1 (NI 0); OpIns 2 (NI 0); OpRem 1 (NI 1)].
Proof. exact nv_replay_eq. Qed.

Example C13_nv_remove_premises :
  let st := run cfg_fixed 2 (firstn 4 nv_steps) in
  has_node (st_tree st) [NS 0; a_; NI 1] = true /\ 2 <= length [NS 0; a_; NI 1] /\
  In (NI 1) (index_at (st_tree st) [NS 0; a_]).
Proof. exact nv_remove_premises. Qed.
