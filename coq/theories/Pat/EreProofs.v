(* C15 -- EreProofs.v : what the derivative matcher of Pat/Ere.v computes.

   [cden r b s e] : the regular expression [r] matches exactly the string [s] when that
   occurrence starts at the beginning of the subject iff [b] and ends at its end iff [e]
   (the two bits are all the context the anchors ^ and $ can see).
   Main results:
     mfull_spec     mfull b r s = true <-> cden r b s true
     ere_exec_spec  ere_exec r s = true <-> some infix of s is matched by r in its context *)
From Coq Require Import List NArith Bool Lia.
From Muscle Require Import Pat.Ere.
Import ListNotations.
Local Open Scope N_scope.

Definition isnil (s : list N) : bool := match s with [] => true | _ => false end.

Inductive cden : ere -> bool -> list N -> bool -> Prop :=
| CEps : forall b e, cden EEps b [] e
| CChar : forall c b e, cden (EChar c) b [c] e
| CAny : forall c b e, cden EAny b [c] e
| CSet : forall neg items c b e, xorb neg (in_items c items) = true -> cden (ESet neg items) b [c] e
| CBol : forall e, cden EBol true [] e
| CEol : forall b, cden EEol b [] true
| CCat : forall r1 r2 b e s1 s2,
    cden r1 b s1 (e && isnil s2) -> cden r2 (b && isnil s1) s2 e -> cden (ECat r1 r2) b (s1 ++ s2) e
| CAltL : forall r1 r2 b e s, cden r1 b s e -> cden (EAlt r1 r2) b s e
| CAltR : forall r1 r2 b e s, cden r2 b s e -> cden (EAlt r1 r2) b s e
| CStar0 : forall r b e, cden (EStar r) b [] e
| CStarS : forall r b e s1 s2,
    cden r b s1 (e && isnil s2) -> cden (EStar r) (b && isnil s1) s2 e -> cden (EStar r) b (s1 ++ s2) e
| CGroup : forall r b e s, cden r b s e -> cden (EGroup r) b s e.

#[export] Hint Constructors cden : core.

(* ------------------------------------------------------------------ inversion helpers *)

Lemma cden_empty_inv : forall b s e, cden EEmpty b s e -> False.
Proof. intros b s e H; inversion H. Qed.

Lemma cden_eps_inv : forall b s e, cden EEps b s e -> s = [].
Proof. intros b s e H; inversion H; reflexivity. Qed.

Lemma cden_cat_inv : forall r1 r2 b s e, cden (ECat r1 r2) b s e ->
  exists s1 s2, s = s1 ++ s2 /\ cden r1 b s1 (e && isnil s2) /\ cden r2 (b && isnil s1) s2 e.
Proof. intros r1 r2 b s e H; inversion H; subst; eauto. Qed.

Lemma cden_alt_inv : forall r1 r2 b s e, cden (EAlt r1 r2) b s e -> cden r1 b s e \/ cden r2 b s e.
Proof. intros r1 r2 b s e H; inversion H; subst; auto. Qed.

Lemma cden_group_inv : forall r b s e, cden (EGroup r) b s e -> cden r b s e.
Proof. intros r b s e H; inversion H; subst; auto. Qed.

(* a star can always be unrolled with a non-empty first iteration *)
Lemma cden_star_inv : forall r b s e, cden (EStar r) b s e ->
  s = [] \/ exists c s1 s2, s = (c :: s1) ++ s2 /\ cden r b (c :: s1) (e && isnil s2) /\ cden (EStar r) false s2 e.
Proof.
  intros r b s e H.
  remember (EStar r) as r' eqn:Er.
  induction H; try discriminate.
  - left; reflexivity.
  - inversion Er; subst r0; clear Er.
    destruct s1 as [|c s1].
    + cbn [isnil andb app] in *. rewrite andb_true_r in *.
      apply IHcden2; reflexivity.
    + right. exists c, s1, s2. cbn [isnil] in H0. rewrite andb_false_r in H0. auto.
Qed.

(* ------------------------------------------------------------------ nullable *)

Lemma nullable_sound : forall r b e, nullable b e r = true -> cden r b [] e.
Proof.
  induction r; intros b e H; cbn [nullable] in H; try discriminate; auto.
  - subst b; auto.
  - subst e; auto.
  - apply andb_true_iff in H as [H1 H2].
    change (@nil N) with (@nil N ++ []).
    constructor; cbn [isnil]; rewrite andb_true_r; auto.
  - apply orb_true_iff in H as [H|H]; auto.
Qed.

Lemma nullable_complete : forall r b s e, cden r b s e -> s = [] -> nullable b e r = true.
Proof.
  induction 1; intros Es; cbn [nullable]; try discriminate; auto.
  - apply app_eq_nil in Es as [E1 E2]; subst.
    cbn [isnil] in *. rewrite andb_true_r in *.
    rewrite IHcden1, IHcden2; auto.
  - rewrite IHcden; auto.
  - rewrite IHcden; auto using orb_true_r.
Qed.

Lemma nullable_spec : forall r b e, nullable b e r = true <-> cden r b [] e.
Proof. split; [apply nullable_sound | intros H; eapply nullable_complete; eauto]. Qed.

(* ------------------------------------------------------------------ smart constructors *)

Lemma cat_empty_l : forall r b s e, cden (ECat EEmpty r) b s e <-> cden EEmpty b s e.
Proof.
  intros; split; intros H.
  - apply cden_cat_inv in H as (s1 & s2 & _ & H1 & _). exfalso; eapply cden_empty_inv; eauto.
  - exfalso; eapply cden_empty_inv; eauto.
Qed.

Lemma cat_empty_r : forall a b s e, cden (ECat a EEmpty) b s e <-> cden EEmpty b s e.
Proof.
  intros; split; intros H.
  - apply cden_cat_inv in H as (s1 & s2 & _ & _ & H2). exfalso; eapply cden_empty_inv; eauto.
  - exfalso; eapply cden_empty_inv; eauto.
Qed.

Lemma cat_eps_l : forall r b s e, cden (ECat EEps r) b s e <-> cden r b s e.
Proof.
  intros; split; intros H.
  - apply cden_cat_inv in H as (s1 & s2 & Es & H1 & H2).
    apply cden_eps_inv in H1; subst. cbn [isnil app] in *. rewrite andb_true_r in H2. exact H2.
  - change s with ([] ++ s). constructor; [constructor|]. cbn [isnil]. rewrite andb_true_r. exact H.
Qed.

Lemma mk_cat_spec : forall a r b s e, cden (mk_cat a r) b s e <-> cden (ECat a r) b s e.
Proof.
  intros a r b s e.
  destruct a; cbn [mk_cat];
    try (symmetry; apply cat_empty_l);
    destruct r; cbn [mk_cat];
    try (symmetry; apply cat_empty_r);
    try (symmetry; apply cat_eps_l);
    try reflexivity.
Qed.

Lemma mk_alt_spec : forall a r b s e, cden (mk_alt a r) b s e <-> cden (EAlt a r) b s e.
Proof.
  intros a r b s e.
  destruct a; destruct r; cbn [mk_alt]; try tauto;
    split; intros H; auto;
    apply cden_alt_inv in H as [H|H]; auto; exfalso; eauto using cden_empty_inv.
Qed.

(* ------------------------------------------------------------------ derivatives *)

Lemma deriv_sound : forall r b c s e, cden (deriv b c r) false s e -> cden r b (c :: s) e.
Proof.
  induction r; intros b c0 s e H; cbn [deriv] in H;
    try (exfalso; eapply cden_empty_inv; eauto; fail).
  - (* EChar *)
    destruct (c0 =? c) eqn:E.
    + apply N.eqb_eq in E; subst. apply cden_eps_inv in H; subst; auto.
    + exfalso; eapply cden_empty_inv; eauto.
  - (* EAny *)
    apply cden_eps_inv in H; subst; auto.
  - (* ESet *)
    destruct (xorb neg (in_items c0 items)) eqn:E.
    + apply cden_eps_inv in H; subst; auto.
    + exfalso; eapply cden_empty_inv; eauto.
  - (* ECat *)
    assert (Hleft : forall s, cden (mk_cat (deriv b c0 r1) r2) false s e -> cden (ECat r1 r2) b (c0 :: s) e).
    { intros s' H'. apply mk_cat_spec in H'.
      apply cden_cat_inv in H' as (s1 & s2 & Es & H1 & H2); subst.
      apply IHr1 in H1.
      change (c0 :: s1 ++ s2) with ((c0 :: s1) ++ s2).
      constructor; auto. cbn [isnil]. rewrite andb_false_r. cbn [andb] in H2. exact H2. }
    destruct (nullable b false r1) eqn:En.
    + apply mk_alt_spec in H. apply cden_alt_inv in H as [H|H]; auto.
      apply IHr2 in H.
      change (c0 :: s) with ([] ++ c0 :: s).
      constructor.
      * cbn [isnil]. rewrite andb_false_r. apply nullable_sound; exact En.
      * cbn [isnil]. rewrite andb_true_r. exact H.
    + auto.
  - (* EAlt *)
    apply mk_alt_spec in H. apply cden_alt_inv in H as [H|H]; auto.
  - (* EStar *)
    apply mk_cat_spec in H.
    apply cden_cat_inv in H as (s1 & s2 & Es & H1 & H2); subst.
    apply IHr in H1.
    change (c0 :: s1 ++ s2) with ((c0 :: s1) ++ s2).
    eapply CStarS; eauto. cbn [isnil]. rewrite andb_false_r. cbn [andb] in H2. exact H2.
  - (* EGroup *)
    auto.
Qed.

Lemma deriv_complete : forall r b s e, cden r b s e ->
  forall c t, s = c :: t -> cden (deriv b c r) false t e.
Proof.
  induction 1; intros c0 t Es; cbn [deriv]; try discriminate.
  - inversion Es; subst. rewrite N.eqb_refl. auto.
  - inversion Es; subst. auto.
  - inversion Es; subst. rewrite H. auto.
  - (* ECat *)
    destruct s1 as [|c1 s1].
    + cbn [app isnil] in *. rewrite andb_true_r in *.
      subst s2. rewrite andb_false_r in H.
      assert (En : nullable b false r1 = true) by (eapply nullable_complete; eauto).
      rewrite En. apply mk_alt_spec. apply CAltR. eapply IHcden2; reflexivity.
    + cbn [app] in Es. inversion Es; subst c1 t.
      cbn [isnil] in H0. rewrite andb_false_r in H0.
      assert (Hl : cden (mk_cat (deriv b c0 r1) r2) false (s1 ++ s2) e).
      { apply mk_cat_spec. constructor; [eapply IHcden1; reflexivity|]. cbn [andb]. exact H0. }
      destruct (nullable b false r1); [apply mk_alt_spec; apply CAltL|]; exact Hl.
  - apply mk_alt_spec. apply CAltL. eauto.
  - apply mk_alt_spec. apply CAltR. eauto.
  - (* EStar, unrolled *)
    destruct s1 as [|c1 s1].
    + cbn [app isnil] in *. rewrite andb_true_r in *. eapply IHcden2; eauto.
    + cbn [app] in Es. inversion Es; subst c1 t.
      cbn [isnil] in H0. rewrite andb_false_r in H0.
      apply mk_cat_spec. constructor; [eapply IHcden1; reflexivity|]. cbn [andb]. exact H0.
  - eauto.
Qed.

Lemma deriv_spec : forall r b c s e, cden (deriv b c r) false s e <-> cden r b (c :: s) e.
Proof. split; [apply deriv_sound | intros H; eapply deriv_complete; eauto]. Qed.

(* ------------------------------------------------------------------ the matcher *)

Lemma mfull_spec : forall s r b, mfull b r s = true <-> cden r b s true.
Proof.
  induction s as [|c s IH]; intros r b; cbn [mfull].
  - apply nullable_spec.
  - rewrite IH. apply deriv_spec.
Qed.

(* .* matches everything, in every context *)
Lemma any_star_all : forall s b e, cden any_star b s e.
Proof.
  induction s as [|c s IH]; intros b e; unfold any_star in *.
  - auto.
  - change (c :: s) with ([c] ++ s). eapply CStarS; auto.
Qed.

(* regexec: some occurrence inside the subject *)
Theorem ere_exec_spec : forall r s,
  ere_exec r s = true <->
  exists pre mid post, s = pre ++ mid ++ post /\ cden r (isnil pre) mid (isnil post).
Proof.
  intros r s. unfold ere_exec. rewrite mfull_spec. split.
  - intros H.
    apply cden_cat_inv in H as (pre & rest & Es & _ & H).
    apply cden_cat_inv in H as (mid & post & Er & H & _).
    subst. exists pre, mid, post. split; [reflexivity | exact H].
  - intros (pre & mid & post & Es & H). subst.
    constructor; [apply any_star_all|].
    constructor; [|apply any_star_all].
    cbn [andb]. exact H.
Qed.

(* the shape SetPattern produces: ^( r )$ finds an occurrence iff r matches the whole subject *)
Theorem ere_exec_anchored : forall r s,
  ere_exec (ECat (ECat EBol (EGroup r)) EEol) s = true <-> cden r true s true.
Proof.
  intros r s. rewrite ere_exec_spec. split.
  - intros (pre & mid & post & Es & H).
    apply cden_cat_inv in H as (m1 & m2 & Em & H1 & H2).
    apply cden_cat_inv in H1 as (m0 & m1' & Em1 & H0 & H1).
    inversion H0; subst. inversion H2; subst.
    apply cden_group_inv in H1.
    destruct pre; [|discriminate]. destruct post; [|cbn in *; discriminate].
    cbn [app isnil andb] in *. rewrite !app_nil_r. exact H1.
  - intros H. exists [], s, []. rewrite app_nil_r. split; [reflexivity|].
    cbn [isnil].
    replace s with (([] ++ s) ++ []) by (rewrite app_nil_r; reflexivity).
    constructor; [|cbn [isnil andb]; rewrite ?app_nil_r; constructor].
    constructor; [constructor|]. cbn [isnil andb]. constructor. exact H.
Qed.
