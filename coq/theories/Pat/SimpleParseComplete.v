(* C15 -- SimpleParseComplete.v : the reader of Pat/SimpleParse.v accepts the concrete syntax of EVERY
   well-formed tree and returns that tree:  wf_pattern al = true -> sparse (print_alt al) = Some al.
   With sparse_sound this makes the string-level theorems exactly as general as the tree-level ones,
   and shows the concrete syntax is unambiguous. *)
From Coq Require Import List Arith NArith Bool Lia.
From Muscle Require Import Pat.Ere Pat.Simple Pat.SimpleParse Pat.SimpleParseProofs.
Import ListNotations.
Local Open Scope N_scope.

Ltac split_ex H :=
  cbn [existsb] in H;
  repeat (let H1 := fresh "Hne" in apply orb_false_iff in H; destruct H as [H1 H]);
  clear H.

Lemma class_ok_facts : forall c, class_ok c = true ->
  (c =? ch_rbr) = false /\ (c =? ch_minus) = false.
Proof.
  intros c H. unfold class_ok in H. apply negb_true_iff in H. unfold class_excluded in H. split_ex H.
  unfold ch_rbr, ch_minus. auto.
Qed.

Lemma lit_ok_facts : forall c, lit_ok c = true ->
  (c =? ch_star) = false /\ (c =? ch_qm) = false /\ (c =? ch_bsl) = false /\ (c =? ch_lbr) = false /\
  (c =? ch_lpar) = false /\ (c =? ch_rpar) = false /\ (c =? ch_bar) = false /\ (c =? ch_comma) = false.
Proof.
  intros c H. unfold lit_ok in H. apply negb_true_iff in H. unfold lit_excluded in H. split_ex H.
  unfold ch_star, ch_qm, ch_bsl, ch_lbr, ch_lpar, ch_rpar, ch_bar, ch_comma. repeat split; assumption.
Qed.

(* ------------------------------------------------------------------ class members *)

Lemma parse_items_complete : forall items rest f,
  forallb item_ok items = true -> (length items < f)%nat ->
  parse_items f (print_items items ++ ch_rbr :: rest) = Some (items, rest).
Proof.
  induction items as [|[lo hi] t IH]; intros rest f Hok Hf.
  - destruct f as [|f]; [inversion Hf|]. reflexivity.
  - destruct f as [|f]; [inversion Hf|]. cbn [length] in Hf. apply Nat.succ_lt_mono in Hf.
    cbn [forallb] in Hok. apply andb_true_iff in Hok as [Hi Ht].
    unfold item_ok in Hi. cbn [fst snd] in Hi. apply andb_true_iff in Hi as [Hi Hle].
    apply andb_true_iff in Hi as [Hlo Hhi]. apply N.leb_le in Hle.
    destruct (class_ok_facts lo Hlo) as [L1 L2].
    cbn [print_items]. unfold print_item. cbn [fst snd].
    destruct (lo =? hi) eqn:E.
    + (* a single character *)
      apply N.eqb_eq in E. subst hi. cbn [app parse_items]. rewrite L1, Hlo.
      specialize (IH rest f Ht Hf).
      (* the character after it is the start of the next item or the closing bracket: never a '-' *)
      assert (Hnext : forall m d r2, print_items t ++ ch_rbr :: rest = m :: d :: r2 -> (m =? ch_minus) = false).
      { intros m d r2 Em. destruct t as [|[lo2 hi2] t2].
        - cbn [print_items app] in Em. inversion Em; subst. reflexivity.
        - cbn [forallb] in Ht. apply andb_true_iff in Ht as [Hi2 _]. unfold item_ok in Hi2. cbn [fst snd] in Hi2.
          apply andb_true_iff in Hi2 as [Hi2 _]. apply andb_true_iff in Hi2 as [Hlo2 _].
          cbn [print_items] in Em. unfold print_item in Em. cbn [fst snd] in Em.
          destruct (lo2 =? hi2); cbn [app] in Em; inversion Em; subst; apply (class_ok_facts _ Hlo2). }
      destruct (print_items t ++ ch_rbr :: rest) as [|m [|d r2]] eqn:Er.
      * rewrite IH. reflexivity.
      * rewrite IH. reflexivity.
      * rewrite (Hnext m d r2 eq_refl). cbn [andb]. rewrite IH. reflexivity.
    + (* a range *)
      apply N.eqb_neq in E. cbn [app parse_items]. rewrite L1, Hlo.
      change (ch_minus =? ch_minus) with true. rewrite Hhi.
      replace (lo <? hi) with true by (symmetry; apply N.ltb_lt; lia). cbn [andb].
      rewrite (IH rest f Ht Hf). reflexivity.
Qed.

(* ------------------------------------------------------------------ atoms, branches, alternations *)

Definition stop_char (c : N) : bool := is_sep c || (c =? ch_rpar).
Definition stops (rest : list N) : Prop := match rest with [] => True | c :: _ => stop_char c = true end.
Definition closes (rest : list N) : Prop := match rest with [] => True | c :: _ => c = ch_rpar end.

Lemma items_len : forall items, (length items <= length (print_items items))%nat.
Proof.
  induction items as [|[lo hi] t IH]; [apply Nat.le_refl|].
  cbn [print_items length]. rewrite app_length. unfold print_item. cbn [fst snd].
  destruct (lo =? hi); cbn [length]; lia.
Qed.

Lemma atom_head : forall a, wf_atom a = true ->
  exists c t, print_atom a = c :: t /\ stop_char c = false.
Proof.
  intros a H. destruct a as [c|c| | |neg items|al]; cbn [print_atom]; eexists; eexists; (split; [reflexivity|]);
    try reflexivity.
  cbn [wf_atom] in H. destruct (lit_ok_facts c H) as (_ & _ & _ & _ & _ & R & B & C).
  unfold stop_char, is_sep. rewrite R, B, C. reflexivity.
Qed.

Lemma parse_complete :
  (forall a, wf_atom a = true -> forall f rest,
     (length (print_atom a) <= f)%nat ->
     parse_atom (parse_alt f) f (print_atom a ++ rest) = Some (a, rest)) /\
  (forall b, wf_branch b = true -> forall f g rest,
     stops rest -> (length (print_branch b) <= f)%nat -> (length (print_branch b) < g)%nat ->
     parse_branch (parse_alt f) f g (print_branch b ++ rest) = Some (b, rest)) /\
  (forall al, wf_alt al = true -> forall f rest,
     closes rest -> (length (print_alt al) < f)%nat ->
     parse_alt f (print_alt al ++ rest) = Some (al, rest)).
Proof.
  apply spat_mutind.
  - (* SLit *)
    intros c H f rest _. cbn [wf_atom] in H. cbn [print_atom app]. unfold parse_atom.
    destruct (lit_ok_facts c H) as (A1 & A2 & A3 & A4 & A5 & _). rewrite A1, A2, A3, A4, A5, H. reflexivity.
  - (* SEsc *)
    intros c _ f rest _. reflexivity.
  - intros _ f rest _. reflexivity.
  - intros _ f rest _. reflexivity.
  - (* SClass *)
    intros neg items H f rest Hf. cbn [wf_atom] in H. apply andb_true_iff in H as [Hne Hok].
    cbn [print_atom length] in Hf. rewrite !app_length in Hf. cbn [length] in Hf.
    pose proof (items_len items) as Hl.
    assert (Hfi : (length items < f)%nat) by lia.
    destruct items as [|it its]; [discriminate Hne|].
    cbn [print_atom]. unfold parse_atom.
    change (ch_lbr =? ch_star) with false. change (ch_lbr =? ch_qm) with false.
    change (ch_lbr =? ch_bsl) with false. change (ch_lbr =? ch_lbr) with true. cbv iota.
    destruct neg.
    + cbn [app]. change (ch_hat =? ch_hat) with true. cbv iota.
      rewrite <- app_assoc. cbn [app]. rewrite (parse_items_complete (it :: its) rest f Hok Hfi). reflexivity.
    + cbn [app].
      (* the first member is not '^' *)
      assert (Hh : exists h r, print_items (it :: its) ++ [ch_rbr] = h :: r /\ (h =? ch_hat) = false).
      { destruct it as [lo hi]. cbn [forallb] in Hok. apply andb_true_iff in Hok as [Hi _].
        unfold item_ok in Hi. cbn [fst snd] in Hi. apply andb_true_iff in Hi as [Hi _]. apply andb_true_iff in Hi as [Hlo _].
        unfold class_ok in Hlo. apply negb_true_iff in Hlo. unfold class_excluded in Hlo. split_ex Hlo.
        cbn [print_items]. unfold print_item. cbn [fst snd]. destruct (lo =? hi); cbn [app]; eexists; eexists; (split; [reflexivity|]); assumption. }
      destruct Hh as (h & r & Eh & Hh).
      rewrite <- app_assoc. cbn [app].
      assert (Eh' : print_items (it :: its) ++ ch_rbr :: rest = h :: r ++ rest).
      { change (ch_rbr :: rest) with ([ch_rbr] ++ rest). rewrite app_assoc, Eh. reflexivity. }
      rewrite Eh'. rewrite Hh. rewrite <- Eh'.
      rewrite (parse_items_complete (it :: its) rest f Hok Hfi). reflexivity.
  - (* SGroup *)
    intros al IH H f rest Hf. cbn [wf_atom] in H. cbn [print_atom length] in Hf. rewrite app_length in Hf. cbn [length] in Hf.
    cbn [print_atom]. unfold parse_atom.
    change (ch_lpar =? ch_star) with false. change (ch_lpar =? ch_qm) with false.
    change (ch_lpar =? ch_bsl) with false. change (ch_lpar =? ch_lbr) with false. change (ch_lpar =? ch_lpar) with true. cbv iota.
    cbn [app]. rewrite <- app_assoc. cbn [app].
    rewrite (IH H f (ch_rpar :: rest)) by (try reflexivity; lia).
    change (ch_rpar =? ch_rpar) with true. reflexivity.
  - (* SNil *)
    intros _ f g rest Hs _ Hg. destruct g as [|g]; [inversion Hg|]. cbn [print_branch app parse_branch].
    destruct rest as [|c r]; [reflexivity|]. cbn [stops] in Hs. unfold stop_char in Hs. rewrite Hs. reflexivity.
  - (* SCons *)
    intros a IHa b IHb H f g rest Hs Hf Hg. cbn [wf_branch] in H. apply andb_true_iff in H as [Ha Hb].
    cbn [print_branch] in *. rewrite app_length in Hf, Hg.
    destruct (atom_head a Ha) as (c & t & Ea & Hc).
    destruct g as [|g]; [inversion Hg|]. cbn [parse_branch].
    rewrite <- app_assoc.
    remember (print_atom a ++ print_branch b ++ rest) as s eqn:Es.
    assert (Hhead : exists r0, s = c :: r0) by (rewrite Es, Ea; eexists; reflexivity).
    destruct Hhead as [r0 Er0]. rewrite Er0. unfold stop_char in Hc. rewrite Hc. rewrite <- Er0, Es.
    rewrite (IHa Ha f (print_branch b ++ rest)) by lia.
    rewrite Ea in Hg. cbn [length] in Hg.
    rewrite (IHb Hb f g rest Hs) by lia. reflexivity.
  - (* SLast *)
    intros b IHb H f rest Hc Hf. cbn [wf_alt] in H. cbn [print_alt] in *.
    destruct f as [|f]; [inversion Hf|]. cbn [parse_alt].
    assert (Hs : stops rest).
    { destruct rest as [|c r]; [exact I|]. cbn [closes] in Hc. subst c. reflexivity. }
    rewrite (IHb H f (S (length (print_branch b ++ rest))) rest Hs) by (rewrite ?app_length; lia).
    destruct rest as [|c r]; [reflexivity|]. cbn [closes] in Hc. subst c. reflexivity.
  - (* SMore *)
    intros b IHb comma r IHr H f rest Hc Hf. cbn [wf_alt] in H. apply andb_true_iff in H as [Hb Hr].
    cbn [print_alt] in *. rewrite app_length in Hf. cbn [length] in Hf.
    destruct f as [|f]; [inversion Hf|]. cbn [parse_alt].
    rewrite <- app_assoc. cbn [app].
    set (sepc := if comma then ch_comma else ch_bar) in *.
    assert (Hs : stops (sepc :: print_alt r ++ rest)) by (subst sepc; destruct comma; reflexivity).
    rewrite (IHb Hb f (S (length (print_branch b ++ sepc :: print_alt r ++ rest))) _ Hs)
      by (rewrite ?app_length; cbn [length]; lia).
    assert (Hsep : is_sep sepc = true) by (subst sepc; destruct comma; reflexivity).
    rewrite Hsep. rewrite (IHr Hr f rest Hc) by lia.
    subst sepc. destruct comma; reflexivity.
Qed.

Theorem sparse_complete : forall al, wf_pattern al = true -> sparse (print_alt al) = Some al.
Proof.
  intros al H. unfold wf_pattern in H. apply andb_true_iff in H as [Hwf Hh].
  unfold sparse. destruct parse_complete as (_ & _ & P).
  pose proof (P al Hwf (S (length (print_alt al))) [] I (Nat.lt_succ_diag_r _)) as E.
  rewrite app_nil_r in E. rewrite E, Hh. reflexivity.
Qed.

Theorem sparse_exact : forall p al, sparse p = Some al <-> (p = print_alt al /\ wf_pattern al = true).
Proof.
  intros p al. split; [apply sparse_sound|]. intros [Hp Hw]. subst p. apply sparse_complete; exact Hw.
Qed.
