(* C15 -- UniqueProofs.v : patterns without wildcard characters.

   If CanWildcardStringMatchMultipleValues(p) answers "no", the regex compiled for p is a chain of
   literal characters spelling RemoveEscapeChars(p); hence such a pattern matches that one string and
   no other (the law the hash-lookup fast path of the tree traversal relies on), and
   EscapeRegexTokens(s) is such a pattern for s. *)
From Coq Require Import List Arith NArith Bool Lia.
From Muscle Require Import Gen.Consts Pat.Ere Pat.EreProofs Pat.Translate Pat.Simple Pat.TranslateProofs Pat.DenoteProofs.
Import ListNotations.
Local Open Scope N_scope.

(* ------------------------------------------------------------------ table facts *)

Lemma tbl_cw_chars : c_cw_ignored_char = 45 /\ c_cw_comma_char = 44 /\ c_cw_rawregex_char = 96.
Proof. vm_compute. repeat split; reflexivity. Qed.
Lemma tbl_une_keeps : c_une_keeps_trailing = 1.
Proof. vm_compute. reflexivity. Qed.
(* every character that cannot be written bare is a token for IsRegexToken *)
Lemma tbl_lit_excluded_tokens : forallb (fun k => mem k c_regex_tokens_always) lit_excluded = true.
Proof. vm_compute. reflexivity. Qed.
(* the three characters that select another pattern form are first-position tokens *)
Lemma tbl_heads_first : forallb (fun k => mem k c_regex_tokens_first) [ch_tilde; ch_backtick; ch_lt] = true.
Proof. vm_compute. reflexivity. Qed.

Lemma nontoken_lit_ok : forall c first, is_regex_token c first = false -> lit_ok c = true.
Proof.
  intros c first H. unfold is_regex_token in H. apply orb_false_iff in H as [H _].
  unfold lit_ok. change (existsb (N.eqb c) lit_excluded) with (mem c lit_excluded).
  rewrite (mem_subset_false lit_excluded c_regex_tokens_always c tbl_lit_excluded_tokens H).
  reflexivity.
Qed.

Lemma nontoken_first_head : forall c, is_regex_token c true = false ->
  (c =? ch_tilde) = false /\ (c =? ch_backtick) = false /\ (c =? ch_lt) = false.
Proof.
  intros c H. unfold is_regex_token in H. apply orb_false_iff in H as [_ H]. cbn [andb] in H.
  pose proof (mem_subset_false [ch_tilde; ch_backtick; ch_lt] c_regex_tokens_first c tbl_heads_first H) as M.
  split_mem M. auto.
Qed.

(* ------------------------------------------------------------------ the literal chain *)

Definition push_lits (f : frame) (l : list N) : frame := fold_left (fun f c => push_atom f (EChar c)) l f.

Lemma push_lits_app : forall l1 l2 f, push_lits f (l1 ++ l2) = push_lits (push_lits f l1) l2.
Proof. intros. unfold push_lits. apply fold_left_app. Qed.

Lemma cw_saw_true : forall p first esc, fst (cw_loop p first esc true) = true.
Proof.
  induction p as [|c t IH]; intros first esc; cbn [cw_loop]; [reflexivity|].
  destruct (negb ((c =? ch_bsl) && negb esc) && negb (c =? c_cw_ignored_char) && negb esc && is_regex_token c first).
  - destruct (c =? c_cw_comma_char); [apply IH | reflexivity].
  - apply IH.
Qed.

Lemma lit_not_escape : forall c, lit_ok c = true -> action_of c <> AEscape.
Proof. intros c H. destruct (lit_ok_action c H) as [E|E]; rewrite E; discriminate. Qed.

(* one-step unfoldings of the three loops that walk a pattern with an escape flag *)
Lemma tr_cons_esc : forall c t, tr_loop (c :: t) true = tr_esc c ++ tr_loop t false.
Proof. reflexivity. Qed.
Lemma une_cons_esc : forall c t, unescape_aux (c :: t) true = c :: unescape_aux t false.
Proof. intros. cbn [unescape_aux]. destruct (c =? ch_bsl); reflexivity. Qed.
Lemma cw_cons_esc : forall c t first saw, cw_loop (c :: t) first true saw = cw_loop t false false saw.
Proof. intros. cbn [cw_loop]. destruct (c =? ch_bsl), (c =? c_cw_ignored_char); reflexivity. Qed.

Lemma tr_cons_bsl : forall t, tr_loop (ch_bsl :: t) false = tr_loop t true.
Proof. intros. cbn [tr_loop]. unfold ch_bsl at 1. rewrite action_bsl, tbl_emit. reflexivity. Qed.
Lemma une_cons_bsl : forall t, unescape_aux (ch_bsl :: t) false = unescape_aux t true.
Proof. intros. reflexivity. Qed.
Lemma cw_cons_bsl : forall t first saw, cw_loop (ch_bsl :: t) first false saw = cw_loop t false true saw.
Proof. intros. reflexivity. Qed.

Lemma une_cons_other : forall c t, (c =? ch_bsl) = false -> unescape_aux (c :: t) false = c :: unescape_aux t false.
Proof. intros c t H. cbn [unescape_aux]. rewrite H. reflexivity. Qed.
Lemma cw_cons_other : forall c t first saw, (c =? ch_bsl) = false ->
  cw_loop (c :: t) first false saw =
  if negb (c =? 45) && is_regex_token c first
  then (if c =? 44 then cw_loop t false false true else (true, false))
  else cw_loop t false false saw.
Proof.
  intros c t first saw H. destruct tbl_cw_chars as (Ti & Tc & _).
  cbn [cw_loop]. rewrite H, Ti, Tc. cbn [andb negb]. rewrite andb_true_r. reflexivity.
Qed.

(* the regex text of a pattern without unescaped wildcard characters compiles to the chain of
   literals spelling RemoveEscapeChars(pattern) *)
Lemma parse_unique : forall p first esc,
  fst (cw_loop p first esc false) = false ->
  forall rest stk f,
    psteps (tr_loop p esc ++ rest) (pnorm stk f) =
    psteps rest (pnorm stk (push_lits f (unescape_aux p esc))).
Proof.
  induction p as [|c t IH]; intros first esc H rest stk f.
  - cbn [tr_loop unescape_aux]. rewrite tbl_trailing, tbl_une_keeps. destruct esc; [|reflexivity].
    cbn [andb N.eqb Pos.eqb app]. apply (parse_esc 92). vm_compute. reflexivity.
  - destruct esc.
    + (* the character after a backslash *)
      rewrite cw_cons_esc in H. rewrite tr_cons_esc, une_cons_esc.
      rewrite <- app_assoc. rewrite parse_tr_esc.
      rewrite (IH false false H). reflexivity.
    + destruct (c =? ch_bsl) eqn:Eb.
      * (* a backslash *)
        apply N.eqb_eq in Eb. subst c.
        rewrite cw_cons_bsl in H. rewrite tr_cons_bsl, une_cons_bsl.
        apply (IH false true H).
      * (* any other character: it is not a wildcard character *)
        rewrite (cw_cons_other c t first false Eb) in H. rewrite (une_cons_other c t Eb).
        assert (Hl : lit_ok c = true /\ fst (cw_loop t false false false) = false).
        { destruct (c =? 45) eqn:E45.
          - cbn [negb andb] in H. split; [|exact H]. apply N.eqb_eq in E45. subst c. vm_compute. reflexivity.
          - cbn [negb andb] in H. destruct (is_regex_token c first) eqn:Et.
            + destruct (c =? 44); [rewrite cw_saw_true in H; discriminate | discriminate].
            + split; [eapply nontoken_lit_ok; exact Et | exact H]. }
        destruct Hl as [Hl Hrest].
        rewrite (tr_loop_lit c _ (lit_not_escape c Hl)).
        rewrite <- app_assoc. rewrite parse_rx_lit by exact Hl.
        rewrite (IH false false Hrest). reflexivity.
Qed.

(* ------------------------------------------------------------------ what the chain matches *)

Lemma push_lits_spec : forall l f b s e,
  (cden (branch_of (push_lits f l)) b s e <->
   exists s1, s = s1 ++ l /\ cden (branch_of f) b s1 (e && isnil l)) /\
  f_alts (push_lits f l) = f_alts f.
Proof.
  induction l as [|c l IH]; intros f b s e.
  - cbn [push_lits fold_left isnil]. rewrite andb_true_r. split; [|reflexivity]. split.
    + intros H. exists s. rewrite app_nil_r. auto.
    + intros (s1 & Es & H). rewrite app_nil_r in Es. subst. exact H.
  - change (push_lits f (c :: l)) with (push_lits (push_atom f (EChar c)) l).
    destruct (IH (push_atom f (EChar c)) b s e) as [I1 I2]. split; [|rewrite I2; reflexivity].
    rewrite I1. split.
    + intros (s1 & Es & H). apply branch_push in H as (t1 & t2 & Et & H1 & H2).
      apply cden_char in H2. subst. exists t1. rewrite <- app_assoc. split; [reflexivity|].
      cbn [isnil] in *. rewrite andb_false_r in *. exact H1.
    + intros (s1 & Es & H). exists (s1 ++ [c]). subst. rewrite <- app_assoc. split; [reflexivity|].
      apply branch_push. exists s1, [c]. split; [reflexivity|]. split; [|apply cden_char; reflexivity].
      cbn [isnil] in *. rewrite andb_false_r in *. exact H.
Qed.

Lemma chain_exact : forall l s, cden (close_frame (push_lits f0 l)) true s true <-> s = l.
Proof.
  intros l s. rewrite close_frame_spec. destruct (push_lits_spec l f0 true s true) as [P1 P2].
  unfold aden. rewrite P2. cbn [f_alts f0]. rewrite P1. split.
  - intros [[]|(s1 & Es & H)]. cbn in H. apply cden_eps_inv in H. subst. reflexivity.
  - intros ->. right. exists []. split; [reflexivity|]. cbn. constructor.
Qed.

Lemma compile_unique : forall p,
  fst (cw_loop p true false false) = false ->
  ere_compile (c_sp_regex_prefix ++ tr_loop p false ++ c_sp_regex_suffix) =
  COk (ECat (ECat EBol (EGroup (close_frame (push_lits f0 (unescape p))))) EEol).
Proof.
  intros p H. destruct tbl_wrap as [Tp Ts]. rewrite Tp, Ts. unfold ere_compile.
  transitivity (match psteps (tr_loop p false ++ [41; 36]) (pnorm [push_anchor f0 EBol] f0) with
                | SOk st => pfinish st | SErr => CErr | SUnsup => CUnsupported end); [reflexivity|].
  rewrite (parse_unique p true false H). reflexivity.
Qed.

(* ------------------------------------------------------------------ escaping *)

Lemma unescape_escape_aux : forall s first, unescape_aux (escape_aux s first) false = s.
Proof.
  induction s as [|c t IH]; intros first; cbn [escape_aux]; [reflexivity|].
  destruct (is_regex_token c first) eqn:Et.
  - cbn [app]. rewrite une_cons_bsl, une_cons_esc. rewrite IH. reflexivity.
  - cbn [app]. destruct (c =? ch_bsl) eqn:E.
    + (* a backslash is always a token *)
      apply N.eqb_eq in E. subst c. exfalso.
      assert (T : is_regex_token ch_bsl first = true) by (destruct first; vm_compute; reflexivity).
      congruence.
    + rewrite (une_cons_other c _ E). rewrite IH. reflexivity.
Qed.

Lemma unescape_escape : forall s, unescape (escape s) = s.
Proof. intros s. apply unescape_escape_aux. Qed.

(* an escaped string holds no unescaped wildcard character *)
Lemma cw_escape_aux : forall s first, cw_loop (escape_aux s first) first false false = (false, false).
Proof.
  induction s as [|c t IH]; intros first; cbn [escape_aux]; [reflexivity|].
  destruct (is_regex_token c first) eqn:Et.
  - cbn [app]. rewrite cw_cons_bsl, cw_cons_esc. apply IH.
  - cbn [app]. destruct (c =? ch_bsl) eqn:E.
    + apply N.eqb_eq in E. subst c. exfalso.
      assert (T : is_regex_token ch_bsl first = true) by (destruct first; vm_compute; reflexivity).
      congruence.
    + rewrite (cw_cons_other c _ first false E). rewrite Et. rewrite andb_false_r. apply IH.
Qed.

Lemma escape_head : forall s, match escape s with c :: _ => (c =? c_cw_rawregex_char) = false | [] => True end.
Proof.
  intros [|c t]; [exact I|]. unfold escape. cbn [escape_aux].
  destruct tbl_cw_chars as (_ & _ & Tr). rewrite Tr.
  destruct (is_regex_token c true) eqn:Et; cbn [app].
  - reflexivity.
  - destruct (nontoken_first_head c Et) as (_ & H & _). exact H.
Qed.

Lemma cw_escape : forall s, can_match_multiple (escape s) = (false, false).
Proof.
  intros s. unfold can_match_multiple. pose proof (escape_head s) as H.
  unfold escape in *. destruct (escape_aux s true) as [|c t] eqn:E.
  - reflexivity.
  - rewrite H. rewrite <- E. apply cw_escape_aux.
Qed.
