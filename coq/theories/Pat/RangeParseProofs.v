(* C15 -- RangeParseProofs.v : the reader of Pat/RangeParse.v only accepts the concrete syntax of a
   documented range list:  read_ranges p = Some (neg, cs) -> p = print_range_pattern neg cs /\ cs <> [] /\ all clauses ok. *)
From Coq Require Import List Arith NArith Bool Lia.
From Muscle Require Import Pat.Ere Pat.Translate Pat.Simple Pat.RangeParse.
Import ListNotations.
Local Open Scope N_scope.

Lemma list_eqb_eq : forall a b, list_eqb a b = true -> a = b.
Proof.
  induction a as [|x a IH]; intros [|y b] H; try discriminate; [reflexivity|].
  cbn [list_eqb] in H. apply andb_true_iff in H as [H1 H2]. apply N.eqb_eq in H1. subst. f_equal. apply IH; exact H2.
Qed.

Lemma read_num_sound : forall ds n, read_num ds = Some n -> ds = print_num n.
Proof.
  intros ds n H. unfold read_num in H.
  destruct (forallb is_digit ds && list_eqb (print_num (fold_left dstep ds 0)) ds) eqn:E; [|discriminate H].
  inversion H; subst. apply andb_true_iff in E as [_ E]. symmetry. apply list_eqb_eq; exact E.
Qed.

Lemma split_first_sound : forall sep s acc a b,
  split_first sep s acc = Some (a, b) -> rev acc ++ s = a ++ sep :: b.
Proof.
  induction s as [|c s IH]; intros acc a b H; [discriminate H|].
  cbn [split_first] in H. destruct (c =? sep) eqn:E.
  - apply N.eqb_eq in E. subst c. inversion H; subst. reflexivity.
  - apply IH in H. cbn [rev] in H. rewrite <- app_assoc in H. exact H.
Qed.

Lemma read_clause_sound : forall s c, read_clause s = Some c -> s = print_clause c.
Proof.
  intros s c H. unfold read_clause in H.
  destruct (split_first ch_minus s []) as [[a b]|] eqn:E.
  - apply split_first_sound in E. cbn [rev app] in E. subst s.
    destruct a as [|a0 a'], b as [|b0 b'].
    + inversion H; subst. reflexivity.
    + destruct (read_num (b0 :: b')) eqn:Eb; [|discriminate H]. inversion H; subst.
      apply read_num_sound in Eb. rewrite Eb. reflexivity.
    + destruct (read_num (a0 :: a')) eqn:Ea; [|discriminate H]. inversion H; subst.
      apply read_num_sound in Ea. rewrite Ea. reflexivity.
    + destruct (read_num (a0 :: a')) eqn:Ea; [|discriminate H].
      destruct (read_num (b0 :: b')) eqn:Eb; [|discriminate H]. inversion H; subst.
      apply read_num_sound in Ea. apply read_num_sound in Eb. rewrite Ea, Eb. reflexivity.
  - destruct (read_num s) eqn:En; [|discriminate H]. inversion H; subst. apply read_num_sound in En. exact En.
Qed.

Fixpoint intercalate (sep : N) (toks : list (list N)) : list N :=
  match toks with
  | [] => []
  | [t] => t
  | t :: r => t ++ sep :: intercalate sep r
  end.

Lemma split_on_nonnil : forall sep s cur, split_on sep s cur <> [].
Proof.
  induction s as [|c s IH]; intros cur; cbn [split_on]; [discriminate|].
  destruct (c =? sep); [discriminate | apply IH].
Qed.

Lemma split_on_join : forall sep s cur, intercalate sep (split_on sep s cur) = rev cur ++ s.
Proof.
  induction s as [|c s IH]; intros cur; cbn [split_on].
  - cbn [intercalate]. rewrite app_nil_r. reflexivity.
  - destruct (c =? sep) eqn:E.
    + apply N.eqb_eq in E. subst c.
      pose proof (split_on_nonnil sep s []) as Hn.
      destruct (split_on sep s []) as [|t r] eqn:Es; [congruence|].
      change (intercalate sep (rev cur :: t :: r)) with (rev cur ++ sep :: intercalate sep (t :: r)).
      rewrite <- Es, IH. reflexivity.
    + rewrite IH. cbn [rev]. rewrite <- app_assoc. reflexivity.
Qed.

Lemma read_clauses_sound : forall toks cs,
  read_clauses toks = Some cs -> intercalate ch_comma toks = print_clauses cs /\ length cs = length toks.
Proof.
  induction toks as [|t r IH]; intros cs H; cbn [read_clauses] in H.
  - inversion H; subst. split; reflexivity.
  - destruct (read_clause t) as [c|] eqn:Ec; [|discriminate H].
    destruct (read_clauses r) as [cs'|] eqn:Er; [|discriminate H]. inversion H; subst.
    apply read_clause_sound in Ec. destruct (IH cs' eq_refl) as [I1 I2]. split; [|cbn [length]; rewrite I2; reflexivity].
    destruct r as [|t2 r2].
    + destruct cs'; [|discriminate I2]. cbn [intercalate print_clauses]. exact Ec.
    + destruct cs' as [|c2 cs2]; [discriminate I2|].
      change (intercalate ch_comma (t :: t2 :: r2)) with (t ++ ch_comma :: intercalate ch_comma (t2 :: r2)).
      change (print_clauses (c :: c2 :: cs2)) with (print_clause c ++ ch_comma :: print_clauses (c2 :: cs2)).
      rewrite I1, Ec. reflexivity.
Qed.

Lemma read_unsigned_sound : forall q cs,
  read_unsigned q = Some cs ->
  q = ch_lt :: print_clauses cs ++ [ch_gt] /\ cs <> [] /\ forallb clause_ok cs = true.
Proof.
  intros q cs Hq. unfold read_unsigned in Hq. destruct q as [|c t]; [discriminate Hq|].
  destruct (c =? ch_lt) eqn:E1; [|discriminate Hq]. apply N.eqb_eq in E1. subst c.
  destruct (rev t) as [|g rbody] eqn:Er; [discriminate Hq|].
  destruct (g =? ch_gt) eqn:E2; [|discriminate Hq]. apply N.eqb_eq in E2. subst g.
  unfold read_body in Hq.
  destruct (read_clauses (split_on ch_comma (rev rbody) [])) as [cs1|] eqn:Ec; [|discriminate Hq].
  destruct (forallb clause_ok cs1) eqn:Eo; [|discriminate Hq]. inversion Hq; subst cs1.
  apply read_clauses_sound in Ec as [C1 C2]. rewrite split_on_join in C1. cbn [rev app] in C1.
  assert (Et : t = rev rbody ++ [ch_gt]).
  { rewrite <- (rev_involutive t), Er. reflexivity. }
  split; [rewrite Et, C1; reflexivity|]. split; [|exact Eo].
  intros ->. cbn [length] in C2. pose proof (split_on_nonnil ch_comma (rev rbody) []) as Hn.
  destruct (split_on ch_comma (rev rbody) []); [congruence | discriminate C2].
Qed.

Theorem read_ranges_sound : forall p neg cs,
  read_ranges p = Some (neg, cs) ->
  p = print_range_pattern neg cs /\ cs <> [] /\ forallb clause_ok cs = true.
Proof.
  intros p neg cs H. unfold read_ranges in H. destruct p as [|c t]; [discriminate H|].
  destruct (c =? ch_tilde) eqn:Et.
  - apply N.eqb_eq in Et. subst c.
    destruct (read_unsigned t) as [cs0|] eqn:E; [|discriminate H]. inversion H; subst.
    apply read_unsigned_sound in E as (H1 & H2 & H3). split; [|split; assumption].
    unfold print_range_pattern. cbn [app]. rewrite H1. reflexivity.
  - destruct (read_unsigned (c :: t)) as [cs0|] eqn:E; [|discriminate H]. inversion H; subst.
    apply read_unsigned_sound in E as (H1 & H2 & H3). split; [|split; assumption].
    unfold print_range_pattern. cbn [app]. exact H1.
Qed.
