(* C15 -- DenoteProofs.v : the regular expression the compiler builds for a documented pattern
   matches exactly what Pat/Simple.v says the pattern denotes (in every context: the documented
   constructs contain no anchors). *)
From Coq Require Import List Arith NArith Bool Lia.
From Muscle Require Import Gen.Consts Pat.Ere Pat.EreProofs Pat.Translate Pat.Simple Pat.TranslateProofs.
Import ListNotations.
Local Open Scope N_scope.

Definition aden (f : frame) (b : bool) (s : list N) (e : bool) : Prop :=
  match f_alts f with Some a => cden a b s e | None => False end.

Lemma close_frame_spec : forall f b s e,
  cden (close_frame f) b s e <-> aden f b s e \/ cden (branch_of f) b s e.
Proof.
  intros f b s e. unfold close_frame, aden. destruct (f_alts f) as [a|].
  - split; [apply cden_alt_inv | intros [H|H]; auto].
  - tauto.
Qed.

Lemma isnil_app : forall s1 s2, isnil (s1 ++ s2) = isnil s1 && isnil s2.
Proof. intros [|c s1] s2; reflexivity. Qed.

Lemma branch_push : forall f r b s e,
  cden (branch_of (push_atom f r)) b s e <->
  exists s1 s2, s = s1 ++ s2 /\ cden (branch_of f) b s1 (e && isnil s2) /\ cden r (b && isnil s1) s2 e.
Proof.
  intros f r b s e. unfold branch_of, push_atom. cbn [f_cat f_last].
  destruct (cat_opt (f_cat f) (f_last f)) as [y|]; cbn [cat_opt].
  - split; [apply cden_cat_inv | intros (s1 & s2 & Es & H1 & H2); subst; auto].
  - split.
    + intros H. exists [], s. cbn [app isnil]. rewrite andb_true_r. auto.
    + intros (s1 & s2 & Es & H1 & H2). apply cden_eps_inv in H1. subst.
      cbn [app isnil] in *. rewrite andb_true_r in H2. exact H2.
Qed.

Lemma cden_char : forall c b s e, cden (EChar c) b s e <-> s = [c].
Proof. intros; split; intros H; [inversion H; reflexivity | subst; auto]. Qed.

Lemma cden_any : forall b s e, cden EAny b s e <-> exists c, s = [c].
Proof. intros; split; intros H; [inversion H; eauto | destruct H as [c ->]; auto]. Qed.

Lemma cden_set : forall neg items b s e,
  cden (ESet neg items) b s e <-> exists c, s = [c] /\ class_has neg items c = true.
Proof.
  intros; split; intros H.
  - inversion H; subst. eauto.
  - destruct H as (c & -> & H). constructor. exact H.
Qed.

Lemma denote_syntax :
  (forall a b s e, cden (fr_atom a) b s e <-> den_atom a s) /\
  (forall br f b s e,
     (cden (branch_of (fr_branch br f)) b s e <->
      exists s1 s2, s = s1 ++ s2 /\ cden (branch_of f) b s1 (e && isnil s2) /\ den_branch br s2) /\
     f_alts (fr_branch br f) = f_alts f) /\
  (forall al f b s e, f_cat f = None -> f_last f = None ->
     (cden (close_frame (fr_alt al f)) b s e <-> aden f b s e \/ den_alt al s)).
Proof.
  apply spat_mutind.
  - intros c b s e. apply cden_char.
  - intros c b s e. apply cden_char.
  - intros b s e. apply cden_any.
  - intros b s e. cbn [fr_atom den_atom]. split; [tauto | intros _; apply any_star_all].
  - intros neg items b s e. apply cden_set.
  - intros al IH b s e. cbn [fr_atom den_atom]. split.
    + intros H. apply cden_group_inv in H. apply IH in H; [|reflexivity|reflexivity].
      destruct H as [H|H]; [contradiction H | exact H].
    + intros H. constructor. apply IH; [reflexivity|reflexivity|]. right; exact H.
  - (* SNil *)
    intros f b s e. cbn [fr_branch den_branch]. split; [|reflexivity]. split.
    + intros H. exists s, []. rewrite app_nil_r. cbn [isnil]. rewrite andb_true_r. auto.
    + intros (s1 & s2 & Es & H & E2). subst. rewrite app_nil_r. cbn [isnil] in H. rewrite andb_true_r in H. exact H.
  - (* SCons *)
    intros a IHa br IHb f b s e. cbn [fr_branch den_branch].
    destruct (IHb (push_atom f (fr_atom a)) b s e) as [IH1 IH2].
    split; [|rewrite IH2; reflexivity].
    rewrite IH1. split.
    + intros (s1 & s2 & Es & H1 & H2).
      apply branch_push in H1 as (s11 & s12 & Es1 & H11 & H12).
      exists s11, (s12 ++ s2). subst. rewrite <- app_assoc. split; [reflexivity|]. split.
      * rewrite isnil_app.
        replace (e && (isnil s12 && isnil s2)) with (e && isnil s2 && isnil s12)
          by (destruct e, (isnil s12), (isnil s2); reflexivity).
        exact H11.
      * exists s12, s2. split; [reflexivity|]. split; [|exact H2]. apply IHa in H12. exact H12.
    + intros (t1 & t2 & Es & H1 & (u1 & u2 & Et & Ha & Hb)).
      exists (t1 ++ u1), u2. subst. rewrite <- app_assoc. split; [reflexivity|]. split; [|exact Hb].
      apply branch_push. exists t1, u1. split; [reflexivity|]. split.
      * rewrite isnil_app in H1.
        replace (e && isnil u2 && isnil u1) with (e && (isnil u1 && isnil u2))
          by (destruct e, (isnil u1), (isnil u2); reflexivity).
        exact H1.
      * apply IHa. exact Ha.
  - (* SLast *)
    intros br IHb f b s e Hc Hl. cbn [fr_alt den_alt].
    destruct (IHb f b s e) as [IH1 IH2].
    rewrite close_frame_spec. unfold aden at 1. rewrite IH2. fold (aden f b s e).
    rewrite IH1. unfold branch_of. rewrite Hc, Hl. cbn [cat_opt].
    split.
    + intros [H|(s1 & s2 & Es & H1 & H2)]; [left; exact H|].
      apply cden_eps_inv in H1. subst. right. exact H2.
    + intros [H|H]; [left; exact H|]. right. exists [], s. cbn [app]. auto.
  - (* SMore *)
    intros br IHb comma rest IHr f b s e Hc Hl. cbn [fr_alt den_alt].
    rewrite IHr by reflexivity.
    unfold aden at 1. unfold bar_frame at 1. cbn [f_alts].
    destruct (IHb f b s e) as [IH1 IH2].
    rewrite close_frame_spec. unfold aden at 1. rewrite IH2. fold (aden f b s e).
    rewrite IH1. unfold branch_of. rewrite Hc, Hl. cbn [cat_opt].
    split.
    + intros [[H|(s1 & s2 & Es & H1 & H2)]|H]; [left; exact H| |right; right; exact H].
      apply cden_eps_inv in H1. subst. right. left. exact H2.
    + intros [H|[H|H]]; [left; left; exact H | | right; exact H].
      left. right. exists [], s. cbn [app]. auto.
Qed.
