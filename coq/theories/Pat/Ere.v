(* C15 -- Ere.v : executable model of POSIX extended regular expressions as compiled by
   regcomp(.., REG_EXTENDED) and run by regexec(.., 0, NULL, 0) (glibc, C locale), for the
   subset of regex strings that StringMatcher::SetPattern can produce from a simple pattern
   (plus the postfix operators + and ?, which only raw-regex patterns can contain).

   This file stands for the external functions regcomp/regexec.  The theorems about the
   StringMatcher model are stated against it (premise [engine_is_ere] in PatProofs.v); the
   correspondence run of `bin/check C15` compares it with the real libc on every translated
   pattern it generates, which is the check of that premise.

     ere          abstract syntax (with the two line anchors)
     ere_compile  string -> COk ere | CErr (regcomp fails) | CUnsupported (outside this model)
                  a one-pass character automaton with an explicit stack of open groups, which
                  follows glibc's parse_reg_exp / parse_branch / parse_expression /
                  parse_bracket_exp for syntax RE_SYNTAX_POSIX_EXTENDED
     ere_exec     "is there a match anywhere in the subject": Brzozowski derivatives carrying
                  the two context bits the anchors need (at start / at end of the subject)

   Characters are numbers (N); real strings are lists of byte values 1..255.
   No proofs in this file. *)
From Coq Require Import List NArith Bool.
Import ListNotations.
Local Open Scope N_scope.

(* ------------------------------------------------------------------ syntax *)

Inductive ere :=
| EEmpty                                   (* matches nothing *)
| EEps                                     (* matches the empty string *)
| EChar (c : N)
| EAny                                     (* . *)
| ESet (neg : bool) (items : list (N * N)) (* bracket expression: inclusive ranges; [^..] when neg *)
| EBol                                     (* ^ *)
| EEol                                     (* $ *)
| ECat (a b : ere)
| EAlt (a b : ere)
| EStar (a : ere)
| EGroup (a : ere).                        (* ( a ) *)

(* character codes used by the syntax *)
Definition ch_bsl := 92.   (* \ *)
Definition ch_lpar := 40.  Definition ch_rpar := 41.
Definition ch_bar := 124.  Definition ch_star := 42.  Definition ch_plus := 43.  Definition ch_qm := 63.
Definition ch_lbr := 91.   Definition ch_rbr := 93.   Definition ch_lbrace := 123.
Definition ch_dot := 46.   Definition ch_hat := 94.   Definition ch_dollar := 36.
Definition ch_minus := 45. Definition ch_colon := 58. Definition ch_equal := 61.

(* ------------------------------------------------------------------ matching *)

Fixpoint in_items (c : N) (items : list (N * N)) : bool :=
  match items with
  | [] => false
  | (lo, hi) :: t => ((lo <=? c) && (c <=? hi)) || in_items c t
  end.

(* [b]: the position is the start of the subject; [e]: it is the end of the subject *)
Fixpoint nullable (b e : bool) (r : ere) : bool :=
  match r with
  | EEmpty => false
  | EEps => true
  | EChar _ => false
  | EAny => false
  | ESet _ _ => false
  | EBol => b
  | EEol => e
  | ECat r1 r2 => nullable b e r1 && nullable b e r2
  | EAlt r1 r2 => nullable b e r1 || nullable b e r2
  | EStar _ => true
  | EGroup r1 => nullable b e r1
  end.

Definition mk_cat (a b : ere) : ere :=
  match a, b with
  | EEmpty, _ => EEmpty
  | _, EEmpty => EEmpty
  | EEps, _ => b
  | _, _ => ECat a b
  end.

Definition mk_alt (a b : ere) : ere :=
  match a, b with
  | EEmpty, _ => b
  | _, EEmpty => a
  | _, _ => EAlt a b
  end.

(* derivative by the character [c] read at a position that is (b = true) or is not the
   start of the subject; a position with a character to read is never the end *)
Fixpoint deriv (b : bool) (c : N) (r : ere) : ere :=
  match r with
  | EEmpty => EEmpty
  | EEps => EEmpty
  | EChar d => if c =? d then EEps else EEmpty
  | EAny => EEps
  | ESet neg items => if xorb neg (in_items c items) then EEps else EEmpty
  | EBol => EEmpty
  | EEol => EEmpty
  | ECat r1 r2 =>
      let d1 := mk_cat (deriv b c r1) r2 in
      if nullable b false r1 then mk_alt d1 (deriv b c r2) else d1
  | EAlt r1 r2 => mk_alt (deriv b c r1) (deriv b c r2)
  | EStar r1 => mk_cat (deriv b c r1) (EStar r1)
  | EGroup r1 => deriv b c r1
  end.

(* does [r] match exactly the rest [s] of the subject, the current position being the
   start of the subject iff [b] *)
Fixpoint mfull (b : bool) (r : ere) (s : list N) : bool :=
  match s with
  | [] => nullable b true r
  | c :: t => mfull false (deriv b c r) t
  end.

Definition any_star : ere := EStar EAny.

(* regexec without REG_NOTBOL/REG_NOTEOL: a match of [r] somewhere inside [s] *)
Definition ere_exec (r : ere) (s : list N) : bool :=
  mfull true (ECat any_star (ECat r any_star)) s.

(* ------------------------------------------------------------------ compiling: the stack of open groups *)

Record frame := mkF {
  f_alts : option ere;   (* the alternatives completed so far in this group *)
  f_cat  : option ere;   (* the concatenation completed so far in the current alternative *)
  f_last : option ere    (* the last atom of it, which may still receive a '*' *)
}.

Definition f0 : frame := mkF None None None.

Definition cat_opt (a b : option ere) : option ere :=
  match a, b with
  | None, x => x
  | x, None => x
  | Some x, Some y => Some (ECat x y)
  end.

Definition branch_of (f : frame) : ere :=
  match cat_opt (f_cat f) (f_last f) with Some r => r | None => EEps end.

Definition close_frame (f : frame) : ere :=
  match f_alts f with None => branch_of f | Some a => EAlt a (branch_of f) end.

Definition push_atom (f : frame) (r : ere) : frame :=
  mkF (f_alts f) (cat_opt (f_cat f) (f_last f)) (Some r).

(* an anchor cannot be followed by a repetition operator (glibc returns from parse_expression
   before its repetition loop) *)
Definition push_anchor (f : frame) (r : ere) : frame :=
  mkF (f_alts f) (cat_opt (cat_opt (f_cat f) (f_last f)) (Some r)) None.

Definition star_last (f : frame) : option frame :=
  match f_last f with
  | Some r => Some (mkF (f_alts f) (f_cat f) (Some (EStar r)))
  | None => None
  end.

(* r+ is r r*, r? is (r|) *)
Definition plus_last (f : frame) : option frame :=
  match f_last f with
  | Some r => Some (mkF (f_alts f) (f_cat f) (Some (ECat r (EStar r))))
  | None => None
  end.

Definition opt_last (f : frame) : option frame :=
  match f_last f with
  | Some r => Some (mkF (f_alts f) (f_cat f) (Some (EAlt r EEps)))
  | None => None
  end.

Definition bar_frame (f : frame) : frame := mkF (Some (close_frame f)) None None.

(* ------------------------------------------------------------------ compiling: bracket expressions *)

Inductive bphase :=
| BP0                      (* just after '[' : '^' or the first start element *)
| BPStart (first : bool)   (* expecting a start element; [first]: a '-' is acceptable here *)
| BPLbrS                   (* start element '[' read; one character of lookahead needed *)
| BPHyph                   (* a later '-' read as start element: only ']' may follow *)
| BPAfter (c : N)          (* start element [c] complete *)
| BPDash (c : N)           (* [c] '-' read *)
| BPLbrE (c : N)           (* [c] '-' '[' read; lookahead needed *)
| BPNext.                  (* after a range: ']' or another start element *)

Record bstate := mkB { b_neg : bool; b_items : list (N * N); b_ph : bphase }.

Inductive bres := BCont (b : bstate) | BDone (r : ere) | BErr | BUnsup.

Definition b_add (b : bstate) (lo hi : N) (ph : bphase) : bstate :=
  mkB (b_neg b) (b_items b ++ [(lo, hi)]) ph.

Definition b_done (b : bstate) : bres := BDone (ESet (b_neg b) (b_items b)).

Definition is_class_intro (d : N) : bool := (d =? ch_dot) || (d =? ch_equal) || (d =? ch_colon).

(* a character arriving where a start element is expected *)
Definition b_start (b : bstate) (first : bool) (c : N) : bres :=
  if c =? ch_lbr then BCont (mkB (b_neg b) (b_items b) BPLbrS)
  else if (c =? ch_minus) && negb first then BCont (mkB (b_neg b) (b_items b) BPHyph)
  else BCont (mkB (b_neg b) (b_items b) (BPAfter c)).

(* a character arriving after the complete start element [c] *)
Definition b_after (b : bstate) (c d : N) : bres :=
  if d =? ch_minus then BCont (mkB (b_neg b) (b_items b) (BPDash c))
  else if d =? ch_rbr then b_done (b_add b c c BPNext)
  else b_start (b_add b c c BPNext) false d.

(* a character arriving after a complete range *)
Definition b_next (b : bstate) (d : N) : bres :=
  if d =? ch_rbr then b_done b else b_start b false d.

(* the range [c]-[e] is complete (REG_ERANGE when it is empty) *)
Definition b_range (b : bstate) (c e : N) : option bstate :=
  if c <=? e then Some (b_add b c e BPNext) else None.

Definition bstep (b : bstate) (d : N) : bres :=
  match b_ph b with
  | BP0 => if d =? ch_hat then BCont (mkB true (b_items b) (BPStart true)) else b_start b true d
  | BPStart first => b_start b first d
  | BPLbrS => if is_class_intro d then BUnsup else b_after b ch_lbr d
  | BPHyph => if d =? ch_rbr then b_done (b_add b ch_minus ch_minus BPNext) else BErr
  | BPAfter c => b_after b c d
  | BPDash c =>
      if d =? ch_rbr then b_done (b_add (b_add b c c BPNext) ch_minus ch_minus BPNext)
      else if d =? ch_lbr then BCont (mkB (b_neg b) (b_items b) (BPLbrE c))
      else match b_range b c d with Some b' => BCont b' | None => BErr end
  | BPLbrE c =>
      if is_class_intro d then BUnsup
      else match b_range b c ch_lbr with Some b' => b_next b' d | None => BErr end
  | BPNext => b_next b d
  end.

(* ------------------------------------------------------------------ compiling: the automaton *)

Inductive pmode := MNorm | MEsc | MBr (b : bstate).

Record pstate := mkP { p_stack : list frame; p_cur : frame; p_mode : pmode }.

Inductive sres := SOk (st : pstate) | SErr | SUnsup.

Definition p0 : pstate := mkP [] f0 MNorm.

Definition with_cur (st : pstate) (f : frame) : pstate := mkP (p_stack st) f MNorm.

Definition set_word : ere := ESet false [(48, 57); (65, 90); (95, 95); (97, 122)].
Definition set_notword : ere := ESet true [(48, 57); (65, 90); (95, 95); (97, 122)].
Definition set_space : ere := ESet false [(9, 13); (32, 32)].
Definition set_notspace : ere := ESet true [(9, 13); (32, 32)].

(* GNU operators written backslash-letter that this model does not cover:
   \b \B \< \> \` \' and the back-references \1 .. \9 *)
Definition is_gnu_unmodelled (c : N) : bool :=
  (c =? 98) || (c =? 66) || (c =? 60) || (c =? 62) || (c =? 96) || (c =? 39) || ((49 <=? c) && (c <=? 57)).

Definition step_norm (st : pstate) (c : N) : sres :=
  let f := p_cur st in
  if c =? ch_bsl then SOk (mkP (p_stack st) f MEsc)
  else if c =? ch_lpar then SOk (mkP (f :: p_stack st) f0 MNorm)
  else if c =? ch_rpar then
    match p_stack st with
    | [] => SOk (with_cur st (push_atom f (EChar c)))           (* RE_UNMATCHED_RIGHT_PAREN_ORD *)
    | g :: rest => SOk (mkP rest (push_atom g (EGroup (close_frame f))) MNorm)
    end
  else if c =? ch_bar then SOk (with_cur st (bar_frame f))
  else if c =? ch_star then
    match star_last f with Some f' => SOk (with_cur st f') | None => SErr end   (* REG_BADRPT *)
  else if c =? ch_plus then
    match plus_last f with Some f' => SOk (with_cur st f') | None => SErr end
  else if c =? ch_qm then
    match opt_last f with Some f' => SOk (with_cur st f') | None => SErr end
  else if c =? ch_lbrace then SUnsup
  else if c =? ch_lbr then SOk (mkP (p_stack st) f (MBr (mkB false [] BP0)))
  else if c =? ch_dot then SOk (with_cur st (push_atom f EAny))
  else if c =? ch_hat then SOk (with_cur st (push_anchor f EBol))
  else if c =? ch_dollar then SOk (with_cur st (push_anchor f EEol))
  else SOk (with_cur st (push_atom f (EChar c))).

Definition step_esc (st : pstate) (c : N) : sres :=
  let f := p_cur st in
  if c =? 119 then SOk (with_cur st (push_atom f set_word))
  else if c =? 87 then SOk (with_cur st (push_atom f set_notword))
  else if c =? 115 then SOk (with_cur st (push_atom f set_space))
  else if c =? 83 then SOk (with_cur st (push_atom f set_notspace))
  else if is_gnu_unmodelled c then SUnsup
  else SOk (with_cur st (push_atom f (EChar c))).

Definition pstep (st : pstate) (c : N) : sres :=
  match p_mode st with
  | MNorm => step_norm st c
  | MEsc => step_esc st c
  | MBr b =>
      match bstep b c with
      | BCont b' => SOk (mkP (p_stack st) (p_cur st) (MBr b'))
      | BDone r => SOk (with_cur st (push_atom (p_cur st) r))
      | BErr => SErr
      | BUnsup => SUnsup
      end
  end.

Fixpoint psteps (s : list N) (st : pstate) : sres :=
  match s with
  | [] => SOk st
  | c :: t => match pstep st c with SOk st' => psteps t st' | e => e end
  end.

Inductive cres := COk (r : ere) | CErr | CUnsupported.

Definition pfinish (st : pstate) : cres :=
  match p_mode st, p_stack st with
  | MNorm, [] => COk (close_frame (p_cur st))
  | _, _ => CErr          (* trailing backslash, unterminated bracket, unclosed group *)
  end.

Definition ere_compile (s : list N) : cres :=
  match psteps s p0 with
  | SOk st => pfinish st
  | SErr => CErr
  | SUnsup => CUnsupported
  end.
