(* C15 -- TranslateProofs.v : SetPattern's character translation of a documented pattern, read by
   the regex compiler of Pat/Ere.v, yields the regular expression the documentation describes.

   Part A  facts about the translated tables (checked by computation on the regenerated c_* values)
   Part B  tr_loop on the concrete syntax of each construct
   Part C  the regex compiler on that text
   Part D  what the resulting expression matches *)
From Coq Require Import List Arith NArith Bool Lia.
From Muscle Require Import Gen.Consts Pat.Ere Pat.EreProofs Pat.Translate Pat.Simple.
Import ListNotations.
Local Open Scope N_scope.

(* ------------------------------------------------------------------ tactics *)

(* from  mem c [k1; ..; kn] = false  (or existsb) derive every  c =? ki = false *)
Ltac split_mem H :=
  unfold mem in H; cbn [existsb] in H;
  repeat (let H1 := fresh "Hne" in apply orb_false_iff in H; destruct H as [H1 H]);
  clear H.

Ltac kill_eqb :=
  repeat match goal with
         | Hne : (?c =? ?k) = false |- context [?c =? ?k] => rewrite Hne
         end.

(* ------------------------------------------------------------------ Part A: the tables *)

Definition tr_specials : list N := [44; 63; 46; 43; 42; 92].   (* , ? . + * \ *)

Lemma tbl_keys_replace : c_sp_replace = [44; 124; 63; 46].
Proof. vm_compute. reflexivity. Qed.
Lemma tbl_keys_prefix : c_sp_prefix = [46; 92; 43; 92; 42; 46].
Proof. vm_compute. reflexivity. Qed.
Lemma tbl_escape : c_sp_escape = [92].
Proof. vm_compute. reflexivity. Qed.
(* every case label of the translation switch is accounted for by the three tables *)
Lemma tbl_switch_complete :
  N.of_nat (length c_sp_replace / 2 + length c_sp_prefix / 2 + length c_sp_escape)%nat = c_sp_ncases.
Proof. vm_compute. reflexivity. Qed.
Lemma tbl_tokens_complete :
  N.of_nat (length c_regex_tokens_always + length c_regex_tokens_first)%nat = c_regex_tokens_ncases.
Proof. vm_compute. reflexivity. Qed.
Lemma tbl_emit : c_sp_escape_emits_itself = 0.
Proof. vm_compute. reflexivity. Qed.
Lemma tbl_trailing : c_sp_trailing = [92; 92].
Proof. vm_compute. reflexivity. Qed.
Lemma tbl_prefix_for : c_sp_escaped_prefix_for = [46; 91; 93; 40; 41; 42; 43; 63; 123; 125; 124; 94; 36; 92].
Proof. vm_compute. reflexivity. Qed.
Lemma tbl_wrap : c_sp_regex_prefix = [94; 40] /\ c_sp_regex_suffix = [41; 36].
Proof. vm_compute. split; reflexivity. Qed.

Lemma action_none : forall c, mem c tr_specials = false -> action_of c = ANone.
Proof.
  intros c H. unfold tr_specials in H. split_mem H.
  unfold action_of. rewrite tbl_keys_replace, tbl_keys_prefix, tbl_escape.
  cbn [assoc mem existsb]. kill_eqb. reflexivity.
Qed.

Lemma action_star : action_of 42 = APrefix 46.  Proof. vm_compute. reflexivity. Qed.
Lemma action_qm : action_of 63 = ARepl 46.      Proof. vm_compute. reflexivity. Qed.
Lemma action_comma : action_of 44 = ARepl 124.  Proof. vm_compute. reflexivity. Qed.
Lemma action_dot : action_of 46 = APrefix 92.   Proof. vm_compute. reflexivity. Qed.
Lemma action_plus : action_of 43 = APrefix 92.  Proof. vm_compute. reflexivity. Qed.
Lemma action_bsl : action_of 92 = AEscape.      Proof. vm_compute. reflexivity. Qed.

(* ------------------------------------------------------------------ Part B: the translation loop *)

Lemma mem_cases6 : forall c a1 a2 a3 a4 a5 a6,
  mem c [a1; a2; a3; a4; a5; a6] = true -> c = a1 \/ c = a2 \/ c = a3 \/ c = a4 \/ c = a5 \/ c = a6.
Proof.
  intros c a1 a2 a3 a4 a5 a6 H. unfold mem in H. cbn [existsb] in H.
  repeat (apply orb_true_iff in H; destruct H as [H|H]; [apply N.eqb_eq in H; tauto|]).
  discriminate.
Qed.

Definition tr_plain (c : N) : bool := match action_of c with ANone => true | _ => false end.

Lemma tr_loop_plain : forall s rest,
  forallb tr_plain s = true -> tr_loop (s ++ rest) false = s ++ tr_loop rest false.
Proof.
  induction s as [|a s IH]; intros rest H; cbn [app]; [reflexivity|].
  cbn [forallb] in H. apply andb_true_iff in H as [Ha Hs].
  cbn [tr_loop]. unfold tr_plain in Ha. destruct (action_of a); try discriminate.
  rewrite IH; auto.
Qed.

Definition tr_esc (c : N) : list N := if mem c c_sp_escaped_prefix_for then [ch_bsl; c] else [c].

Lemma tr_loop_esc : forall c rest, tr_loop (ch_bsl :: c :: rest) false = tr_esc c ++ tr_loop rest false.
Proof.
  intros c rest. cbn [tr_loop]. unfold ch_bsl at 1. rewrite action_bsl, tbl_emit.
  cbn [N.eqb Pos.eqb app]. unfold tr_esc. reflexivity.
Qed.

Definition rx_lit (c : N) : list N :=
  match action_of c with APrefix p => [p; c] | ARepl d => [d] | _ => [c] end.

Lemma tr_loop_lit : forall c rest,
  action_of c <> AEscape -> tr_loop (c :: rest) false = rx_lit c ++ tr_loop rest false.
Proof.
  intros c rest H. cbn [tr_loop]. unfold rx_lit. destruct (action_of c); try reflexivity. congruence.
Qed.

Lemma lit_ok_action : forall c, lit_ok c = true -> action_of c = ANone \/ action_of c = APrefix 92.
Proof.
  intros c H. destruct (mem c tr_specials) eqn:E.
  - right. apply mem_cases6 in E.
    destruct E as [E|[E|[E|[E|[E|E]]]]]; subst c; try (vm_compute in H; discriminate);
      vm_compute; reflexivity.
  - left. apply action_none; exact E.
Qed.

Definition class_text (neg : bool) (items : list (N * N)) : list N :=
  ch_lbr :: (if neg then [ch_hat] else []) ++ print_items items ++ [ch_rbr].

Fixpoint rx_atom (a : satom) : list N :=
  match a with
  | SLit c => rx_lit c
  | SEsc c => tr_esc c
  | SOne => [ch_dot]
  | SRun => [ch_dot; ch_star]
  | SClass neg items => class_text neg items
  | SGroup al => ch_lpar :: rx_alt al ++ [ch_rpar]
  end
with rx_branch (b : sbranch) : list N :=
  match b with
  | SNil => []
  | SCons a b' => rx_atom a ++ rx_branch b'
  end
with rx_alt (al : salt) : list N :=
  match al with
  | SLast b => rx_branch b
  | SMore b _ rest => rx_branch b ++ ch_bar :: rx_alt rest
  end.

Lemma class_ok_plain : forall c, class_ok c = true -> tr_plain c = true.
Proof.
  intros c H. unfold tr_plain. rewrite action_none; [reflexivity|].
  unfold class_ok in H. apply negb_true_iff in H. unfold class_excluded in H. split_mem H.
  unfold mem, tr_specials. cbn [existsb]. kill_eqb. reflexivity.
Qed.

Lemma items_plain : forall items, forallb item_ok items = true -> forallb tr_plain (print_items items) = true.
Proof.
  induction items as [|[lo hi] t IH]; intros H; cbn [print_items]; [reflexivity|].
  cbn [forallb] in H. apply andb_true_iff in H as [Hi Ht].
  unfold item_ok in Hi. cbn [fst snd] in Hi.
  apply andb_true_iff in Hi as [Hi _]. apply andb_true_iff in Hi as [Hlo Hhi].
  rewrite forallb_app. rewrite IH by exact Ht. rewrite andb_true_r.
  unfold print_item. cbn [fst snd].
  assert (Hm : tr_plain ch_minus = true) by (vm_compute; reflexivity).
  destruct (lo =? hi); cbn [forallb];
    rewrite ?Hm, ?(class_ok_plain lo Hlo), ?(class_ok_plain hi Hhi); reflexivity.
Qed.

Lemma class_text_plain : forall neg items,
  forallb item_ok items = true -> forallb tr_plain (class_text neg items) = true.
Proof.
  intros neg items H. unfold class_text. cbn [forallb].
  rewrite !forallb_app. rewrite items_plain by exact H.
  destruct neg; vm_compute; reflexivity.
Qed.

Lemma tr_loop_syntax :
  (forall a, wf_atom a = true -> forall rest, tr_loop (print_atom a ++ rest) false = rx_atom a ++ tr_loop rest false) /\
  (forall b, wf_branch b = true -> forall rest, tr_loop (print_branch b ++ rest) false = rx_branch b ++ tr_loop rest false) /\
  (forall al, wf_alt al = true -> forall rest, tr_loop (print_alt al ++ rest) false = rx_alt al ++ tr_loop rest false).
Proof.
  apply spat_mutind.
  - (* SLit *)
    intros c H rest. cbn [wf_atom] in H. cbn [print_atom rx_atom app].
    apply tr_loop_lit. destruct (lit_ok_action c H) as [E|E]; rewrite E; discriminate.
  - (* SEsc *)
    intros c _ rest. cbn [print_atom rx_atom app]. apply tr_loop_esc.
  - (* SOne *)
    intros _ rest. cbn [print_atom rx_atom app tr_loop]. unfold ch_qm. rewrite action_qm. reflexivity.
  - (* SRun *)
    intros _ rest. cbn [print_atom rx_atom app tr_loop]. unfold ch_star. rewrite action_star. reflexivity.
  - (* SClass *)
    intros neg items H rest. cbn [wf_atom] in H. apply andb_true_iff in H as [_ H].
    change (print_atom (SClass neg items)) with (class_text neg items). cbn [rx_atom].
    apply tr_loop_plain. apply class_text_plain; exact H.
  - (* SGroup *)
    intros al IH H rest. cbn [wf_atom] in H. cbn [print_atom rx_atom].
    cbn [app]. rewrite <- !app_assoc. cbn [app].
    cbn [tr_loop]. replace (action_of ch_lpar) with ANone by (vm_compute; reflexivity).
    rewrite IH by exact H. cbn [tr_loop].
    replace (action_of ch_rpar) with ANone by (vm_compute; reflexivity). reflexivity.
  - (* SNil *)
    intros _ rest. reflexivity.
  - (* SCons *)
    intros a IHa b IHb H rest. cbn [wf_branch] in H. apply andb_true_iff in H as [Ha Hb].
    cbn [print_branch rx_branch]. rewrite <- !app_assoc. rewrite IHa by exact Ha. rewrite IHb by exact Hb.
    reflexivity.
  - (* SLast *)
    intros b IHb H rest. cbn [wf_alt] in H. cbn [print_alt rx_alt]. apply IHb; exact H.
  - (* SMore *)
    intros b IHb comma rest0 IHr H rest. cbn [wf_alt] in H. apply andb_true_iff in H as [Hb Hr].
    cbn [print_alt rx_alt]. rewrite <- !app_assoc. cbn [app]. rewrite IHb by exact Hb.
    f_equal. cbn [tr_loop].
    destruct comma.
    + unfold ch_comma. rewrite action_comma. rewrite IHr by exact Hr. reflexivity.
    + replace (action_of ch_bar) with ANone by (vm_compute; reflexivity). rewrite IHr by exact Hr. reflexivity.
Qed.

(* ------------------------------------------------------------------ Part C: the regex compiler on that text *)

Definition pnorm (stk : list frame) (f : frame) : pstate := mkP stk f MNorm.

Definition ere_specials : list N := [92; 40; 41; 124; 42; 43; 63; 123; 91; 46; 94; 36].  (* \ ( ) | * + ? { [ . ^ $ *)
Definition ere_lit (c : N) : bool := negb (mem c ere_specials).
Definition esc_lit (c : N) : bool := negb (mem c [119; 87; 115; 83]) && negb (is_gnu_unmodelled c).

Lemma mem_In : forall c l, mem c l = true <-> In c l.
Proof.
  intros c l. unfold mem. rewrite existsb_exists. split.
  - intros (x & Hx & E). apply N.eqb_eq in E. subst; exact Hx.
  - intros H. exists c. split; [exact H | apply N.eqb_refl].
Qed.

Lemma mem_subset_false : forall small big c,
  forallb (fun k => mem k big) small = true -> mem c big = false -> mem c small = false.
Proof.
  intros small big c Hs Hb. destruct (mem c small) eqn:E; [|reflexivity].
  apply mem_In in E. rewrite forallb_forall in Hs. apply Hs in E. congruence.
Qed.

Lemma step_lit : forall c stk f,
  ere_lit c = true -> pstep (pnorm stk f) c = SOk (pnorm stk (push_atom f (EChar c))).
Proof.
  intros c stk f H. unfold ere_lit in H. apply negb_true_iff in H. unfold ere_specials in H. split_mem H.
  unfold pstep, pnorm. cbn [p_mode]. unfold step_norm. cbn [p_cur p_stack].
  unfold ch_bsl, ch_lpar, ch_rpar, ch_bar, ch_star, ch_plus, ch_qm, ch_lbrace, ch_lbr, ch_dot, ch_hat, ch_dollar.
  kill_eqb. cbn [orb]. reflexivity.
Qed.

Lemma parse_lit : forall c rest stk f,
  ere_lit c = true -> psteps (c :: rest) (pnorm stk f) = psteps rest (pnorm stk (push_atom f (EChar c))).
Proof. intros c rest stk f H. cbn [psteps]. rewrite step_lit by exact H. reflexivity. Qed.

Lemma parse_esc : forall c rest stk f,
  esc_lit c = true ->
  psteps (ch_bsl :: c :: rest) (pnorm stk f) = psteps rest (pnorm stk (push_atom f (EChar c))).
Proof.
  intros c rest stk f H. unfold esc_lit in H. apply andb_true_iff in H as [H1 H2].
  apply negb_true_iff in H1. apply negb_true_iff in H2. split_mem H1.
  cbn [psteps]. unfold pstep at 1. cbn [p_mode pnorm]. unfold step_norm. cbn [p_cur p_stack].
  cbn [N.eqb Pos.eqb ch_bsl].
  unfold pstep. cbn [p_mode]. unfold step_esc. cbn [p_cur p_stack]. kill_eqb. rewrite H2.
  reflexivity.
Qed.

(* an escaped character reaches the regex as a literal, whatever it is *)
Lemma tbl_prefix_for_esc_lit : forallb esc_lit c_sp_escaped_prefix_for = true.
Proof. vm_compute. reflexivity. Qed.
Lemma tbl_specials_in_prefix_for : forallb (fun k => mem k c_sp_escaped_prefix_for) ere_specials = true.
Proof. vm_compute. reflexivity. Qed.

Lemma parse_tr_esc : forall c rest stk f,
  psteps (tr_esc c ++ rest) (pnorm stk f) = psteps rest (pnorm stk (push_atom f (EChar c))).
Proof.
  intros c rest stk f. unfold tr_esc. destruct (mem c c_sp_escaped_prefix_for) eqn:E.
  - cbn [app]. apply parse_esc.
    apply mem_In in E. pose proof tbl_prefix_for_esc_lit as T. rewrite forallb_forall in T. apply T; exact E.
  - cbn [app]. apply parse_lit. unfold ere_lit.
    rewrite (mem_subset_false _ _ c tbl_specials_in_prefix_for E). reflexivity.
Qed.

Lemma lit_ok_cases : forall c, lit_ok c = true -> mem c tr_specials = false \/ c = 46 \/ c = 43.
Proof.
  intros c H. destruct (mem c tr_specials) eqn:E; [|left; reflexivity].
  right. apply mem_cases6 in E.
  destruct E as [E|[E|[E|[E|[E|E]]]]]; subst c; try (vm_compute in H; discriminate); tauto.
Qed.

Lemma parse_rx_lit : forall c rest stk f,
  lit_ok c = true ->
  psteps (rx_lit c ++ rest) (pnorm stk f) = psteps rest (pnorm stk (push_atom f (EChar c))).
Proof.
  intros c rest stk f H. destruct (lit_ok_cases c H) as [E|[E|E]].
  - unfold rx_lit. rewrite (action_none c E). cbn [app]. apply parse_lit.
    unfold lit_ok in H. apply negb_true_iff in H. unfold lit_excluded in H. split_mem H.
    unfold tr_specials in E. split_mem E.
    unfold ere_lit, mem, ere_specials. cbn [existsb]. kill_eqb. reflexivity.
  - subst c. reflexivity.
  - subst c. reflexivity.
Qed.

(* ---- bracket expressions *)

Definition ready (ph : bphase) : bool :=
  match ph with BP0 | BPStart true | BPNext | BPAfter _ => true | _ => false end.

Definition flush (ph : bphase) (acc : list (N * N)) : list (N * N) :=
  match ph with BPAfter c => acc ++ [(c, c)] | _ => acc end.

Definition bst_after (st : list (N * N) * bphase) (it : N * N) : list (N * N) * bphase :=
  let acc' := flush (snd st) (fst st) in
  if fst it =? snd it then (acc', BPAfter (fst it)) else (acc' ++ [it], BPNext).

Definition pbr (stk : list frame) (f : frame) (neg : bool) (acc : list (N * N)) (ph : bphase) : pstate :=
  mkP stk f (MBr (mkB neg acc ph)).

Lemma class_ok_ne : forall c, class_ok c = true ->
  (c =? ch_rbr) = false /\ (c =? ch_lbr) = false /\ (c =? ch_minus) = false /\ (c =? ch_hat) = false.
Proof.
  intros c H. unfold class_ok in H. apply negb_true_iff in H. unfold class_excluded in H. split_mem H.
  unfold ch_rbr, ch_lbr, ch_minus, ch_hat. auto.
Qed.

(* a single class character arriving in a ready state *)
Lemma bstep_single : forall c stk f neg acc ph rest,
  class_ok c = true -> ready ph = true -> (ph = BP0 -> neg = false) ->
  psteps (c :: rest) (pbr stk f neg acc ph) = psteps rest (pbr stk f neg (flush ph acc) (BPAfter c)).
Proof.
  intros c stk f neg acc ph rest Hc Hr Hn.
  destruct (class_ok_ne c Hc) as (N1 & N2 & N3 & N4).
  cbn [psteps]. unfold pstep, pbr. cbn [p_mode].
  destruct ph as [|first| | |c0|c0|c0|]; try discriminate Hr.
  - rewrite (Hn eq_refl). unfold bstep. cbn [b_ph]. rewrite N4. unfold b_start. rewrite N2, N3. cbn [andb b_neg b_items flush p_stack p_cur]. reflexivity.
  - destruct first; [|discriminate Hr].
    unfold bstep. cbn [b_ph]. unfold b_start. rewrite N2, N3. cbn [andb b_neg b_items flush p_stack p_cur]. reflexivity.
  - unfold bstep. cbn [b_ph]. unfold b_after. rewrite N3, N1. unfold b_start. rewrite N2, N3.
    cbn [andb negb b_add b_neg b_items flush p_stack p_cur]. reflexivity.
  - unfold bstep. cbn [b_ph]. unfold b_next. rewrite N1. unfold b_start. rewrite N2, N3.
    cbn [andb negb b_neg b_items flush p_stack p_cur]. reflexivity.
Qed.

Lemma bstep_item : forall it stk f neg acc ph rest,
  item_ok it = true -> ready ph = true -> (ph = BP0 -> neg = false) ->
  psteps (print_item it ++ rest) (pbr stk f neg acc ph) =
  psteps rest (pbr stk f neg (fst (bst_after (acc, ph) it)) (snd (bst_after (acc, ph) it))).
Proof.
  intros [lo hi] stk f neg acc ph rest Hi Hr Hn.
  unfold item_ok in Hi. cbn [fst snd] in Hi.
  apply andb_true_iff in Hi as [Hi Hle]. apply andb_true_iff in Hi as [Hlo Hhi].
  unfold print_item, bst_after. cbn [fst snd].
  destruct (lo =? hi) eqn:E.
  - cbn [app fst snd]. apply bstep_single; assumption.
  - cbn [app fst snd]. rewrite (bstep_single lo) by assumption.
    destruct (class_ok_ne hi Hhi) as (N1 & N2 & N3 & N4).
    cbn [psteps]. unfold pstep at 1, pbr. cbn [p_mode]. unfold bstep at 1. cbn [b_ph].
    unfold b_after. cbn [N.eqb Pos.eqb ch_minus]. cbn [b_neg b_items].
    unfold pstep, bstep. cbn [p_mode b_ph]. rewrite N1, N2. unfold b_range. rewrite Hle.
    cbn [b_add b_neg b_items p_stack p_cur]. reflexivity.
Qed.

Lemma ready_after : forall st it, ready (snd (bst_after st it)) = true /\ snd (bst_after st it) <> BP0.
Proof. intros st it. unfold bst_after. destruct (fst it =? snd it); cbn [snd ready]; split; congruence. Qed.

Lemma bstep_items : forall items stk f neg acc ph rest,
  forallb item_ok items = true -> ready ph = true -> (ph = BP0 -> neg = false) ->
  psteps (print_items items ++ rest) (pbr stk f neg acc ph) =
  psteps rest (pbr stk f neg (fst (fold_left bst_after items (acc, ph))) (snd (fold_left bst_after items (acc, ph)))).
Proof.
  induction items as [|it t IH]; intros stk f neg acc ph rest Hi Hr Hn.
  - reflexivity.
  - cbn [forallb] in Hi. apply andb_true_iff in Hi as [Hit Ht].
    cbn [print_items fold_left]. rewrite <- app_assoc. rewrite bstep_item by assumption.
    destruct (ready_after (acc, ph) it) as [R1 R2].
    destruct (bst_after (acc, ph) it) as [acc1 ph1] eqn:E1. cbn [fst snd] in *.
    apply IH; [exact Ht | exact R1 | intros E; congruence].
Qed.

Lemma flush_fold : forall items acc ph,
  forallb item_ok items = true ->
  flush (snd (fold_left bst_after items (acc, ph))) (fst (fold_left bst_after items (acc, ph))) =
  flush ph acc ++ items.
Proof.
  induction items as [|[lo hi] t IH]; intros acc ph H.
  - cbn [fold_left fst snd]. rewrite app_nil_r. reflexivity.
  - cbn [forallb] in H. apply andb_true_iff in H as [_ Ht].
    cbn [fold_left].
    replace (bst_after (acc, ph) (lo, hi))
      with (if lo =? hi then (flush ph acc, BPAfter lo) else (flush ph acc ++ [(lo, hi)], BPNext)) by reflexivity.
    destruct (lo =? hi) eqn:E.
    + apply N.eqb_eq in E. subst hi. rewrite IH by exact Ht. cbn [flush]. rewrite <- app_assoc. reflexivity.
    + rewrite IH by exact Ht. cbn [flush]. rewrite <- app_assoc. reflexivity.
Qed.

Definition settled (ph : bphase) : bool := match ph with BPAfter _ | BPNext => true | _ => false end.

Lemma settled_after : forall st it, settled (snd (bst_after st it)) = true.
Proof. intros st it. unfold bst_after. destruct (fst it =? snd it); reflexivity. Qed.

Lemma settled_fold : forall t st, settled (snd st) = true -> settled (snd (fold_left bst_after t st)) = true.
Proof.
  induction t as [|it t IH]; intros st H; cbn [fold_left]; [exact H|].
  apply IH. apply settled_after.
Qed.

Lemma close_bracket : forall stk f neg acc ph rest,
  settled ph = true ->
  psteps (ch_rbr :: rest) (pbr stk f neg acc ph) = psteps rest (pnorm stk (push_atom f (ESet neg (flush ph acc)))).
Proof.
  intros stk f neg acc ph rest Hs.
  destruct ph as [|first| | |c0|c0|c0|]; try discriminate Hs; reflexivity.
Qed.

Lemma parse_class : forall neg items rest stk f,
  items <> [] -> forallb item_ok items = true ->
  psteps (class_text neg items ++ rest) (pnorm stk f) = psteps rest (pnorm stk (push_atom f (ESet neg items))).
Proof.
  intros neg items rest stk f Hne Hi. unfold class_text.
  replace ((ch_lbr :: (if neg then [ch_hat] else []) ++ print_items items ++ [ch_rbr]) ++ rest)
    with (ch_lbr :: (if neg then [ch_hat] else []) ++ print_items items ++ ch_rbr :: rest)
    by (cbn [app]; rewrite <- !app_assoc; reflexivity).
  transitivity (psteps (print_items items ++ ch_rbr :: rest) (pbr stk f neg [] (if neg then BPStart true else BP0))).
  { destruct neg; reflexivity. }
  rewrite bstep_items; [| exact Hi | destruct neg; reflexivity | destruct neg; [discriminate | reflexivity]].
  destruct items as [|it t]; [congruence|].
  set (st0 := (@nil (N * N), if neg then BPStart true else BP0)).
  assert (Hs : settled (snd (fold_left bst_after (it :: t) st0)) = true).
  { cbn [fold_left]. apply settled_fold. apply settled_after. }
  rewrite close_bracket by exact Hs.
  subst st0. rewrite (flush_fold (it :: t) [] (if neg then BPStart true else BP0) Hi).
  destruct neg; reflexivity.
Qed.

(* ---- the expression built for each construct, in the compiler's own frame operations *)

Fixpoint fr_atom (a : satom) : ere :=
  match a with
  | SLit c => EChar c
  | SEsc c => EChar c
  | SOne => EAny
  | SRun => EStar EAny
  | SClass neg items => ESet neg items
  | SGroup al => EGroup (close_frame (fr_alt al f0))
  end
with fr_branch (b : sbranch) (f : frame) : frame :=
  match b with
  | SNil => f
  | SCons a b' => fr_branch b' (push_atom f (fr_atom a))
  end
with fr_alt (al : salt) (f : frame) : frame :=
  match al with
  | SLast b => fr_branch b f
  | SMore b _ rest => fr_alt rest (bar_frame (fr_branch b f))
  end.

Lemma parse_syntax :
  (forall a, wf_atom a = true -> forall rest stk f,
     psteps (rx_atom a ++ rest) (pnorm stk f) = psteps rest (pnorm stk (push_atom f (fr_atom a)))) /\
  (forall b, wf_branch b = true -> forall rest stk f,
     psteps (rx_branch b ++ rest) (pnorm stk f) = psteps rest (pnorm stk (fr_branch b f))) /\
  (forall al, wf_alt al = true -> forall rest stk f,
     psteps (rx_alt al ++ rest) (pnorm stk f) = psteps rest (pnorm stk (fr_alt al f))).
Proof.
  apply spat_mutind.
  - intros c H rest stk f. cbn [wf_atom] in H. cbn [rx_atom fr_atom]. apply parse_rx_lit; exact H.
  - intros c _ rest stk f. cbn [rx_atom fr_atom]. apply parse_tr_esc.
  - intros _ rest stk f. reflexivity.
  - intros _ rest stk f. reflexivity.
  - intros neg items H rest stk f. cbn [wf_atom] in H. apply andb_true_iff in H as [Hne Hi].
    cbn [rx_atom fr_atom]. apply parse_class; [|exact Hi].
    destruct items; [discriminate Hne | discriminate].
  - intros al IH H rest stk f. cbn [wf_atom] in H. cbn [rx_atom fr_atom].
    replace ((ch_lpar :: rx_alt al ++ [ch_rpar]) ++ rest) with (ch_lpar :: rx_alt al ++ ch_rpar :: rest)
      by (cbn [app]; rewrite <- app_assoc; reflexivity).
    transitivity (psteps (rx_alt al ++ ch_rpar :: rest) (pnorm (f :: stk) f0)); [reflexivity|].
    rewrite IH by exact H. reflexivity.
  - intros _ rest stk f. reflexivity.
  - intros a IHa b IHb H rest stk f. cbn [wf_branch] in H. apply andb_true_iff in H as [Ha Hb].
    cbn [rx_branch fr_branch]. rewrite <- app_assoc. rewrite IHa by exact Ha. apply IHb; exact Hb.
  - intros b IHb H rest stk f. cbn [wf_alt] in H. cbn [rx_alt fr_alt]. apply IHb; exact H.
  - intros b IHb comma r IHr H rest stk f. cbn [wf_alt] in H. apply andb_true_iff in H as [Hb Hr].
    cbn [rx_alt fr_alt]. rewrite <- app_assoc. rewrite IHb by exact Hb. cbn [app].
    transitivity (psteps (rx_alt r ++ rest) (pnorm stk (bar_frame (fr_branch b f)))); [reflexivity|].
    apply IHr; exact Hr.
Qed.
