(* C15 -- RangeParse.v : a reader for the documented range-list form "<clause,clause,..>" (optionally
   preceded by ~) of Pat/Simple.v, so that range_doc can be read as a statement about pattern strings.
   A numeral is accepted only in its canonical form (it must re-print to itself).  No proofs here. *)
From Coq Require Import List NArith Bool.
From Muscle Require Import Pat.Ere Pat.Translate Pat.Simple.
Import ListNotations.
Local Open Scope N_scope.

Definition dstep (a d : N) : N := a * 10 + (d - 48).

Definition read_num (ds : list N) : option N :=
  let n := fold_left dstep ds 0 in
  if forallb is_digit ds && list_eqb (print_num n) ds then Some n else None.

Definition read_clause (s : list N) : option sclause :=
  match split_first ch_minus s [] with
  | None => match read_num s with Some n => Some (RSingle n) | None => None end
  | Some (a, b) =>
      match a, b with
      | [], [] => Some RAll
      | [], _ => match read_num b with Some hi => Some (RUpTo hi) | None => None end
      | _, [] => match read_num a with Some lo => Some (RFrom lo) | None => None end
      | _, _ => match read_num a, read_num b with Some lo, Some hi => Some (RBetween lo hi) | _, _ => None end
      end
  end.

Fixpoint read_clauses (toks : list (list N)) : option (list sclause) :=
  match toks with
  | [] => Some []
  | t :: r => match read_clause t, read_clauses r with Some c, Some cs => Some (c :: cs) | _, _ => None end
  end.

(* the text between '<' and the final '>' *)
Definition read_body (body : list N) : option (list sclause) :=
  match read_clauses (split_on ch_comma body []) with
  | Some cs => if forallb clause_ok cs then Some cs else None
  | None => None
  end.

(* "<" body ">" *)
Definition read_unsigned (q : list N) : option (list sclause) :=
  match q with
  | c :: t =>
      if c =? ch_lt then
        match rev t with
        | g :: rbody => if g =? ch_gt then read_body (rev rbody) else None
        | [] => None
        end
      else None
  | [] => None
  end.

Definition read_ranges (p : list N) : option (bool * list sclause) :=
  match p with
  | c :: t =>
      if c =? ch_tilde then (match read_unsigned t with Some cs => Some (true, cs) | None => None end)
      else (match read_unsigned p with Some cs => Some (false, cs) | None => None end)
  | [] => None
  end.
