(* C15 -- UvProofs.v : patterns that are comma-separated lists of literal values
   (IsPatternListOfUniqueValues).  Such a pattern matches exactly its values. *)
From Coq Require Import List Arith NArith Bool Lia.
From Muscle Require Import Gen.Consts Pat.Ere Pat.EreProofs Pat.Translate Pat.Simple Pat.TranslateProofs Pat.DenoteProofs Pat.UniqueProofs.
Import ListNotations.
Local Open Scope N_scope.

(* the values of a list pattern: split at unescaped commas, escapes removed (a trailing lone
   backslash stands for itself, as in the compiled regex) *)
Fixpoint uv_segs (p : list N) (esc : bool) (cur : list N) : list (list N) :=
  match p with
  | [] => [if esc then cur ++ [ch_bsl] else cur]
  | c :: t =>
      if esc then uv_segs t false (cur ++ [c])
      else if c =? ch_bsl then uv_segs t true cur
      else if c =? ch_comma then cur :: uv_segs t false []
      else uv_segs t false (cur ++ [c])
  end.

(* the non-empty ones: what a client looks up (StorageReflectSession's traversal skips empty values) *)
Definition uv_values (p : list N) : list (list N) := filter (fun v => negb (is_nil v)) (uv_segs p false []).

(* the frame the compiler reaches *)
Fixpoint uv_frame (p : list N) (esc : bool) (f : frame) : frame :=
  match p with
  | [] => if esc then push_atom f (EChar ch_bsl) else f
  | c :: t =>
      if esc then uv_frame t false (push_atom f (EChar c))
      else if c =? ch_bsl then uv_frame t true f
      else if c =? ch_comma then uv_frame t false (bar_frame f)
      else uv_frame t false (push_atom f (EChar c))
  end.

(* "no wildcard character other than commas": the loop never takes its early return *)
Definition only_commas (p : list N) (first esc : bool) : Prop := snd (cw_loop p first esc true) = true.

Lemma cw_snd_mono : forall p first esc, snd (cw_loop p first esc false) = true -> snd (cw_loop p first esc true) = true.
Proof.
  induction p as [|c t IH]; intros first esc H; [reflexivity|].
  cbn [cw_loop] in *.
  destruct (negb ((c =? ch_bsl) && negb esc) && negb (c =? c_cw_ignored_char) && negb esc && is_regex_token c first).
  - destruct (c =? c_cw_comma_char); [exact H | discriminate H].
  - apply IH. exact H.
Qed.

Lemma parse_uv : forall p first esc,
  only_commas p first esc ->
  forall rest stk f,
    psteps (tr_loop p esc ++ rest) (pnorm stk f) = psteps rest (pnorm stk (uv_frame p esc f)).
Proof.
  unfold only_commas.
  induction p as [|c t IH]; intros first esc H rest stk f.
  - cbn [tr_loop uv_frame]. rewrite tbl_trailing. destruct esc; [|reflexivity].
    cbn [app]. apply (parse_esc 92). vm_compute. reflexivity.
  - destruct esc.
    + rewrite cw_cons_esc in H. rewrite tr_cons_esc. cbn [uv_frame].
      rewrite <- app_assoc. rewrite parse_tr_esc. apply (IH false false H).
    + destruct (c =? ch_bsl) eqn:Eb.
      * apply N.eqb_eq in Eb. subst c. rewrite cw_cons_bsl in H. rewrite tr_cons_bsl.
        cbn [uv_frame]. change (ch_bsl =? ch_bsl) with true. cbv iota. apply (IH false true H).
      * rewrite (cw_cons_other c t first true Eb) in H. cbn [uv_frame]. rewrite Eb.
        destruct (c =? ch_comma) eqn:Ec.
        -- (* a comma becomes a bar *)
           apply N.eqb_eq in Ec. subst c. cbn [tr_loop]. unfold ch_comma at 1. rewrite action_comma.
           assert (Hrest : snd (cw_loop t false false true) = true).
           { destruct (negb (ch_comma =? 45) && is_regex_token ch_comma first) eqn:E; [|exact H].
             change (ch_comma =? 44) with true in H. exact H. }
           cbn [app].
           transitivity (psteps (tr_loop t false ++ rest) (pnorm stk (bar_frame f))); [reflexivity|].
           apply (IH false false Hrest).
        -- (* an ordinary character *)
           change (c =? ch_comma) with (c =? 44) in Ec.
           assert (Hl : lit_ok c = true /\ snd (cw_loop t false false true) = true).
           { destruct (c =? 45) eqn:E45.
             - cbn [negb andb] in H. split; [|exact H]. apply N.eqb_eq in E45. subst c. vm_compute. reflexivity.
             - cbn [negb andb] in H. destruct (is_regex_token c first) eqn:Et.
               + rewrite Ec in H. discriminate H.
               + split; [eapply nontoken_lit_ok; exact Et | exact H]. }
           destruct Hl as [Hl Hrest].
           rewrite (tr_loop_lit c _ (lit_not_escape c Hl)).
           rewrite <- app_assoc. rewrite parse_rx_lit by exact Hl.
           apply (IH false false Hrest).
Qed.

(* ------------------------------------------------------------------ what it matches *)

Definition fresh (g : frame) : Prop := f_cat g = None /\ f_last g = None.

Lemma close_lits : forall g l b s e,
  fresh g -> (cden (close_frame (push_lits g l)) b s e <-> aden g b s e \/ s = l).
Proof.
  intros g l b s e [Hc Hl]. rewrite close_frame_spec.
  destruct (push_lits_spec l g b s e) as [P1 P2].
  unfold aden at 1. rewrite P2. fold (aden g b s e). rewrite P1.
  unfold branch_of. rewrite Hc, Hl. cbn [cat_opt]. split.
  - intros [H|(s1 & Es & H)]; [left; exact H|]. apply cden_eps_inv in H. subst. right. reflexivity.
  - intros [H|H]; [left; exact H|]. right. exists []. subst. split; [reflexivity | constructor].
Qed.

Lemma push_lits_snoc : forall g l c, push_atom (push_lits g l) (EChar c) = push_lits g (l ++ [c]).
Proof. intros. rewrite push_lits_app. reflexivity. Qed.

Lemma uv_frame_spec : forall p esc g cur b s e,
  fresh g ->
  (cden (close_frame (uv_frame p esc (push_lits g cur))) b s e <-> aden g b s e \/ In s (uv_segs p esc cur)).
Proof.
  induction p as [|c t IH]; intros esc g cur b s e Hg.
  - cbn [uv_frame uv_segs]. destruct esc.
    + rewrite push_lits_snoc. rewrite close_lits by exact Hg. cbn [In]. intuition congruence.
    + rewrite close_lits by exact Hg. cbn [In]. intuition congruence.
  - cbn [uv_frame uv_segs]. destruct esc.
    + rewrite push_lits_snoc. apply IH; exact Hg.
    + destruct (c =? ch_bsl); [apply IH; exact Hg|].
      destruct (c =? ch_comma).
      * change (bar_frame (push_lits g cur)) with (push_lits (bar_frame (push_lits g cur)) []).
        rewrite IH by (split; reflexivity).
        unfold aden at 1. cbn [bar_frame f_alts]. rewrite close_lits by exact Hg.
        cbn [In]. intuition congruence.
      * rewrite push_lits_snoc. apply IH; exact Hg.
Qed.

Lemma compile_uv : forall p,
  only_commas p true false ->
  ere_compile (c_sp_regex_prefix ++ tr_loop p false ++ c_sp_regex_suffix) =
  COk (ECat (ECat EBol (EGroup (close_frame (uv_frame p false f0)))) EEol).
Proof.
  intros p H. destruct tbl_wrap as [Tp Ts]. rewrite Tp, Ts. unfold ere_compile.
  transitivity (match psteps (tr_loop p false ++ [41; 36]) (pnorm [push_anchor f0 EBol] f0) with
                | SOk st => pfinish st | SErr => CErr | SUnsup => CUnsupported end); [reflexivity|].
  rewrite (parse_uv p true false H). reflexivity.
Qed.

Lemma uv_exact : forall p s,
  cden (close_frame (uv_frame p false f0)) true s true <-> In s (uv_segs p false []).
Proof.
  intros p s. change f0 with (push_lits f0 []). rewrite uv_frame_spec by (split; reflexivity).
  unfold aden. cbn [f_alts f0]. tauto.
Qed.
