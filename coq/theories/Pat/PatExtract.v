(* Extraction of the StringMatcher model for the correspondence run (ExtrOcamlBasic only). *)
From Coq Require Import ExtrOcamlBasic.
From Coq Require Extraction.
From Coq Require Import NArith List.
From Muscle Require Import Gen.Consts Pat.Ere Pat.Translate Pat.Simple Pat.SimpleParse Pat.RangeParse.
Extraction "pat_model.ml" sm_init set_pattern sm_reset sm_assign sm_recycle set_negate matches
  is_unique is_uvlist escape unescape has_regex_tokens can_match_multiple regex_string
  regex_supported ere_engine ere_compile ere_exec sparse read_ranges
  seg_set_pattern seg_match seg_unique seg_supported path_put path_matches path_supported path_depth.
