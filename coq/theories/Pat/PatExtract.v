(* Extraction of the StringMatcher model for the correspondence run (ExtrOcamlBasic only). *)
From Coq Require Import ExtrOcamlBasic.
From Coq Require Extraction.
From Coq Require Import NArith List.
From Muscle Require Import Gen.Consts Pat.Ere Pat.Translate.
Extraction "pat_model.ml" set_pattern ere_engine matches is_unique is_uvlist
  escape unescape has_regex_tokens can_match_multiple regex_string regex_supported
  ere_compile ere_exec pattern_ranges.
