(* C15 -- Simple.v : the DOCUMENTED simple ("wildcard") pattern syntax and its meaning.

   This file is the specification side: abstract syntax of the documented grammar, its
   concrete syntax (the printer), and what each construct denotes, written without any
   reference to regular-expression machinery or to the code.

     pattern := ['~'] ( '<' clause (',' clause)* '>'  |  alt )
     alt     := branch ( ('|' | ',') branch )*
     branch  := atom*
     atom    := '*' | '?' | '[' ['^'] item+ ']' | '(' alt ')' | '\' c | ordinary c
     item    := c | c '-' c
     clause  := N | N '-' M | '-' M | N '-' | '-'

   Sources: regex/StringMatcher.h (SetPattern's comment: ~ negation, <a-b,c-> ranges, comma
   lists), html/muscle-by-example/docs/stringmatcher.md ("bash-shell-style" globbing,
   wildcard characters * ? [ ] \ , ( ) ), the comments inside SetPattern ("dots/pluses are
   considered literals", "commas are treated as union-bars").
   No proofs in this file. *)
From Coq Require Import List NArith Bool.
From Muscle Require Import Pat.Ere.
Import ListNotations.
Local Open Scope N_scope.

(* ------------------------------------------------------------------ syntax *)

Inductive satom :=
| SLit (c : N)                                 (* an ordinary character stands for itself *)
| SEsc (c : N)                                 (* backslash: the next character is literal *)
| SOne                                         (* ?  any one character *)
| SRun                                         (* *  any run of characters *)
| SClass (neg : bool) (items : list (N * N))   (* [..] / [^..]: single characters (c,c) and ranges (lo,hi) *)
| SGroup (a : salt)                            (* ( alt ) *)
with sbranch :=
| SNil
| SCons (a : satom) (b : sbranch)
with salt :=
| SLast (b : sbranch)
| SMore (b : sbranch) (comma : bool) (rest : salt).   (* b , rest   or   b | rest *)

Scheme satom_mind := Induction for satom Sort Prop
with sbranch_mind := Induction for sbranch Sort Prop
with salt_mind := Induction for salt Sort Prop.
Combined Scheme spat_mutind from satom_mind, sbranch_mind, salt_mind.

(* ------------------------------------------------------------------ concrete syntax *)

Definition print_item (it : N * N) : list N :=
  if fst it =? snd it then [fst it] else [fst it; ch_minus; snd it].

Fixpoint print_items (items : list (N * N)) : list N :=
  match items with
  | [] => []
  | it :: t => print_item it ++ print_items t
  end.

Definition ch_comma := 44.
Definition ch_tilde := 126.
Definition ch_lt := 60.
Definition ch_gt := 62.
Definition ch_backtick := 96.

Fixpoint print_atom (a : satom) : list N :=
  match a with
  | SLit c => [c]
  | SEsc c => [ch_bsl; c]
  | SOne => [ch_qm]
  | SRun => [ch_star]
  | SClass neg items => ch_lbr :: (if neg then [ch_hat] else []) ++ print_items items ++ [ch_rbr]
  | SGroup a => ch_lpar :: print_alt a ++ [ch_rpar]
  end
with print_branch (b : sbranch) : list N :=
  match b with
  | SNil => []
  | SCons a b' => print_atom a ++ print_branch b'
  end
with print_alt (al : salt) : list N :=
  match al with
  | SLast b => print_branch b
  | SMore b comma rest => print_branch b ++ (if comma then ch_comma else ch_bar) :: print_alt rest
  end.

(* ------------------------------------------------------------------ meaning *)

(* membership in a character class (the same arithmetic reading of "lo-hi" everywhere) *)
Definition class_has (neg : bool) (items : list (N * N)) (c : N) : bool := xorb neg (in_items c items).

Fixpoint den_atom (a : satom) (s : list N) : Prop :=
  match a with
  | SLit c => s = [c]
  | SEsc c => s = [c]
  | SOne => exists c, s = [c]
  | SRun => True
  | SClass neg items => exists c, s = [c] /\ class_has neg items c = true
  | SGroup al => den_alt al s
  end
with den_branch (b : sbranch) (s : list N) : Prop :=
  match b with
  | SNil => s = []
  | SCons a b' => exists s1 s2, s = s1 ++ s2 /\ den_atom a s1 /\ den_branch b' s2
  end
with den_alt (al : salt) (s : list N) : Prop :=
  match al with
  | SLast b => den_branch b s
  | SMore b _ rest => den_branch b s \/ den_alt rest s
  end.

(* a whole pattern of the wildcard form: optional leading '~' *)
Definition print_pattern (neg : bool) (al : salt) : list N :=
  (if neg then [ch_tilde] else []) ++ print_alt al.

Definition den_pattern (neg : bool) (al : salt) (s : list N) : Prop :=
  if neg then ~ den_alt al s else den_alt al s.

(* ------------------------------------------------------------------ which characters may stand where *)

(* characters that cannot be written as an ordinary character: the wildcard characters
   themselves, and  { } ^ $  which the documentation does not mention at all *)
Definition lit_excluded : list N := [42; 63; 91; 93; 40; 41; 124; 44; 92; 123; 125; 94; 36].
Definition lit_ok (c : N) : bool := negb (existsb (N.eqb c) lit_excluded).

(* characters that may be written inside [...] with their documented meaning: everything
   except the bracket syntax itself ( ] [ - ^ ) and the characters that SetPattern rewrites
   without looking whether it is inside brackets ( , . + * ? \ : finding F24) *)
Definition class_excluded : list N := [93; 91; 45; 94; 44; 46; 43; 42; 63; 92].
Definition class_ok (c : N) : bool := negb (existsb (N.eqb c) class_excluded).

Definition item_ok (it : N * N) : bool := class_ok (fst it) && class_ok (snd it) && (fst it <=? snd it).

Fixpoint wf_atom (a : satom) : bool :=
  match a with
  | SLit c => lit_ok c
  | SEsc _ => true
  | SOne => true
  | SRun => true
  | SClass _ items => negb (match items with [] => true | _ => false end) && forallb item_ok items
  | SGroup al => wf_alt al
  end
with wf_branch (b : sbranch) : bool :=
  match b with
  | SNil => true
  | SCons a b' => wf_atom a && wf_branch b'
  end
with wf_alt (al : salt) : bool :=
  match al with
  | SLast b => wf_branch b
  | SMore b _ rest => wf_branch b && wf_alt rest
  end.

(* the first character of a wildcard pattern must not be one of the three that select another
   form (a second '~' after the negation, a raw regex, a range list) *)
Definition head_ok (s : list N) : bool :=
  match s with
  | c :: _ => negb ((c =? ch_tilde) || (c =? ch_backtick) || (c =? ch_lt))
  | [] => true
  end.

Definition wf_pattern (al : salt) : bool := wf_alt al && head_ok (print_alt al).

(* ------------------------------------------------------------------ the "<a-b,c->" form *)

Inductive sclause :=
| RSingle (n : N)            (* N *)
| RBetween (lo hi : N)       (* N-M *)
| RUpTo (hi : N)             (* -M *)
| RFrom (lo : N)             (* N- *)
| RAll.                      (* - *)

(* decimal numerals *)
Fixpoint digits_fuel (fuel : nat) (n : N) (acc : list N) : list N :=
  match fuel with
  | O => acc
  | S f => let acc' := (48 + n mod 10) :: acc in
           if n / 10 =? 0 then acc' else digits_fuel f (n / 10) acc'
  end.
Definition print_num (n : N) : list N := digits_fuel (S (N.to_nat (N.log2 n))) n [].

Definition print_clause (c : sclause) : list N :=
  match c with
  | RSingle n => print_num n
  | RBetween lo hi => print_num lo ++ ch_minus :: print_num hi
  | RUpTo hi => ch_minus :: print_num hi
  | RFrom lo => print_num lo ++ [ch_minus]
  | RAll => [ch_minus]
  end.

Fixpoint print_clauses (cs : list sclause) : list N :=
  match cs with
  | [] => []
  | [c] => print_clause c
  | c :: t => print_clause c ++ ch_comma :: print_clauses t
  end.

Definition print_range_pattern (neg : bool) (cs : list sclause) : list N :=
  (if neg then [ch_tilde] else []) ++ ch_lt :: print_clauses cs ++ [ch_gt].

Definition u32_max : N := 4294967295.

Definition clause_has (c : sclause) (v : N) : bool :=
  match c with
  | RSingle n => v =? n
  | RBetween lo hi => (N.min lo hi <=? v) && (v <=? N.max lo hi)
  | RUpTo hi => v <=? hi
  | RFrom lo => lo <=? v
  | RAll => true
  end.

Definition clause_ok (c : sclause) : bool :=
  match c with
  | RSingle n => n <=? u32_max
  | RBetween lo hi => (lo <=? u32_max) && (hi <=? u32_max)
  | RUpTo hi => hi <=? u32_max
  | RFrom lo => lo <=? u32_max
  | RAll => true
  end.

(* the documented meaning: the subject is the decimal representation of an integer in one of
   the ranges *)
Definition den_ranges (cs : list sclause) (s : list N) : Prop :=
  exists v, s = print_num v /\ existsb (fun c => clause_has c v) cs = true.
