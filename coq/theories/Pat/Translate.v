(* C15 -- Translate.v : executable model of regex/StringMatcher.cpp (simple-pattern mode).

   Mirrors, function by function:
     IsRegexToken, HasRegexTokens, EscapeRegexTokens, RemoveEscapeChars,
     CanWildcardStringMatchMultipleValues, DigitsOnly, Atoull (system/SetupSystem.cpp),
     StringMatcher::SetPattern(s, isSimple = true), ::Match, ::IsPatternUnique,
     ::IsPatternListOfUniqueValues.
   The character tables (IsRegexToken's two case groups, SetPattern's translation switch, the
   marker characters) are not written here: they are the c_* lists that gen/gen_consts.py
   regenerates from regex/StringMatcher.cpp on every run.

   libc's regcomp/regexec is a Section variable [engine]; Pat/Ere.v is the stand-in used for
   extraction and in the premise of the theorems.

   Characters are numbers; a C string is a list of them (the theorems do not need them to be
   bytes).  uint32/uint64 wrap-around of the range numbers is written out.
   No proofs in this file. *)
From Coq Require Import List NArith Bool.
From Muscle Require Import Gen.Consts Pat.Ere.
Import ListNotations.
Local Open Scope N_scope.

(* ------------------------------------------------------------------ table lookups *)

Definition mem (c : N) (l : list N) : bool := existsb (N.eqb c) l.

(* flat list of pairs [k1; v1; k2; v2; ..] *)
Fixpoint assoc (c : N) (l : list N) : option N :=
  match l with
  | k :: v :: t => if c =? k then Some v else assoc c t
  | _ => None
  end.

(* bool IsRegexToken(char c, bool isFirstCharInString) *)
Definition is_regex_token (c : N) (first : bool) : bool :=
  mem c c_regex_tokens_always || (first && mem c c_regex_tokens_first).

(* bool HasRegexTokens(const char *) *)
Fixpoint has_regex_tokens_aux (s : list N) (first : bool) : bool :=
  match s with
  | [] => false
  | c :: t => is_regex_token c first || has_regex_tokens_aux t false
  end.
Definition has_regex_tokens (s : list N) : bool := has_regex_tokens_aux s true.

(* String EscapeRegexTokens(const String &, NULL) *)
Fixpoint escape_aux (s : list N) (first : bool) : list N :=
  match s with
  | [] => []
  | c :: t => (if is_regex_token c first then [ch_bsl; c] else [c]) ++ escape_aux t false
  end.
Definition escape (s : list N) : list N := escape_aux s true.

(* String RemoveEscapeChars(const String &) *)
Fixpoint unescape_aux (s : list N) (lastWasEscape : bool) : list N :=
  match s with
  | [] => []
  | c :: t =>
      let isEscape := c =? ch_bsl in
      (if lastWasEscape || negb isEscape then [c] else []) ++ unescape_aux t (isEscape && negb lastWasEscape)
  end.
Definition unescape (s : list N) : list N := unescape_aux s false.

(* bool CanWildcardStringMatchMultipleValues(const char *, bool * optRetOnlySpecialCharIsCommas):
   (result, *optRetOnlySpecialCharIsCommas) *)
Fixpoint cw_loop (s : list N) (first prevEsc sawComma : bool) : bool * bool :=
  match s with
  | [] => (sawComma, sawComma)
  | c :: t =>
      let isEscape := (c =? ch_bsl) && negb prevEsc in
      if negb isEscape && negb (c =? c_cw_ignored_char) && negb prevEsc && is_regex_token c first
      then (if c =? c_cw_comma_char then cw_loop t false isEscape true else (true, false))
      else cw_loop t false isEscape sawComma
  end.
Definition can_match_multiple (s : list N) : bool * bool :=
  match s with
  | c :: _ => if c =? c_cw_rawregex_char then (true, false) else cw_loop s true false false
  | [] => cw_loop s true false false
  end.

(* ------------------------------------------------------------------ numbers *)

Definition is_digit (c : N) : bool := (48 <=? c) && (c <=? 57).
Definition two32 : N := 4294967296.
Definition two64 : N := 18446744073709551616.

Definition digits_only (s : list N) : list N := filter is_digit s.

(* value of the leading run of digits, accumulated left to right *)
Fixpoint atoull_aux (s : list N) (acc : N) : N :=
  match s with
  | c :: t => if is_digit c then atoull_aux t (acc * 10 + (c - 48)) else acc
  | [] => acc
  end.
(* uint64 Atoull(const char *): the sum is formed in uint64 arithmetic, i.e. modulo 2^64 *)
Definition atoull (s : list N) : N := (atoull_aux s 0) mod two64.
Definition u32 (n : N) : N := n mod two32.

(* String::IsSpaceChar *)
Definition is_space (c : N) : bool := (c =? 32) || (c =? 9) || (c =? 13) || (c =? 10).
Fixpoint drop_spaces (s : list N) : list N :=
  match s with
  | c :: t => if is_space c then drop_spaces t else s
  | [] => []
  end.

(* ------------------------------------------------------------------ the "<a-b,c->" form *)

(* StringTokenizer(text, ",,"): hard separators; an empty text yields no token *)
Fixpoint split_on (sep : N) (s : list N) (cur : list N) : list (list N) :=
  match s with
  | [] => [rev cur]
  | c :: t => if c =? sep then rev cur :: split_on sep t [] else split_on sep t (c :: cur)
  end.
Definition tokenize (s : list N) : list (list N) :=
  match s with [] => [] | _ => split_on (hd 0 c_sp_range_seps) s [] end.

Fixpoint split_first (sep : N) (s : list N) (acc : list N) : option (list N * list N) :=
  match s with
  | [] => None
  | c :: t => if c =? sep then Some (rev acc, t) else split_first sep t (c :: acc)
  end.

Definition no_limit : N := c_MUSCLE_NO_LIMIT.

(* one clause -> IDRange(min, max) (the constructor orders the pair) *)
Definition parse_clause (cl : list N) : N * N :=
  let (mn, mx) :=
    match split_first c_sp_range_dash cl [] with
    | Some (before, after) =>
        let b := digits_only before in
        let a := digits_only after in
        ((match b with [] => 0 | _ => u32 (atoull b) end),
         (match a with [] => no_limit | _ => u32 (atoull a) end))
    | None =>
        match cl with
        | c :: _ => if c =? c_sp_range_all_char then (0, no_limit)
                    else let v := u32 (atoull (drop_spaces cl)) in (v, v)
        | [] => (0, 0)      (* Atoull("") = 0 *)
        end
    end in
  (N.min mn mx, N.max mn mx).

(* [t]: the characters after the leading '<'.  The first '>' must be the last character. *)
Definition parse_ranges (t : list N) : list (N * N) :=
  match split_first c_sp_range_close t [] with
  | Some (_, []) => map parse_clause (tokenize t)
  | _ => []
  end.

(* ------------------------------------------------------------------ the translation loop of SetPattern *)

Inductive action := ARepl (d : N) | APrefix (p : N) | AEscape | ANone.

Definition action_of (c : N) : action :=
  match assoc c c_sp_replace with
  | Some d => ARepl d
  | None => match assoc c c_sp_prefix with
            | Some p => APrefix p
            | None => if mem c c_sp_escape then AEscape else ANone
            end
  end.

Fixpoint tr_loop (s : list N) (escapeMode : bool) : list N :=
  match s with
  | [] => if escapeMode then [ch_bsl] else []
  | c :: t =>
      if escapeMode then c :: tr_loop t false
      else match action_of c with
           | ARepl d => d :: tr_loop t false
           | APrefix p => p :: c :: tr_loop t false
           | AEscape => c :: tr_loop t true
           | ANone => c :: tr_loop t false
           end
  end.

(* the regex string handed to regcomp for a simple pattern that is neither a range list nor a
   raw regex; [str] is the pattern after the optional '~' *)
Definition skip_escaped_first (str : list N) : list N :=
  match str, c_sp_skip_escape_pair with
  | a :: b :: t, [x; y] => if (a =? x) && (b =? y) then b :: t else str
  | _, _ => str
  end.

Definition regex_of_simple (str : list N) : list N :=
  c_sp_regex_prefix ++ tr_loop (skip_escaped_first str) false ++ c_sp_regex_suffix.

(* ------------------------------------------------------------------ SetPattern / Match *)

Inductive rx := RxOk (m : list N -> bool) | RxErr.

Section WithEngine.
  (* regcomp(&r, re, REG_EXTENDED) followed by regexec(&r, s, 0, NULL, 0) != REG_NOMATCH *)
  Variable engine : list N -> rx.

  Record matcher := mkM {
    m_status : bool;                     (* SetPattern returned B_NO_ERROR *)
    m_negate : bool;                     (* STRINGMATCHER_FLAG_NEGATE *)
    m_multi : bool;                      (* STRINGMATCHER_FLAG_CANMATCHMULTIPLEVALUES *)
    m_uvlist : bool;                     (* STRINGMATCHER_FLAG_UVLIST *)
    m_ranges : list (N * N);             (* _ranges *)
    m_regex : option (list N -> bool)    (* Some = STRINGMATCHER_FLAG_REGEXVALID, with the compiled _regExp *)
  }.

  Definition strip_negate (p : list N) : bool * list N :=
    match p with
    | c :: t => if c =? c_sp_negate_char then (true, t) else (false, p)
    | [] => (false, p)
    end.

  (* the string given to regcomp, if any ([None]: ranges, or nothing to compile) *)
  Definition regex_string (p : list N) : option (list N) :=
    let (_, str) := strip_negate p in
    match str with
    | c :: raw =>
        if c =? c_sp_rawregex_char then (match raw with [] => None | _ => Some raw end)
        else
          let ranges := if c =? c_sp_range_open then parse_ranges raw else [] in
          match ranges with [] => Some (regex_of_simple str) | _ => None end
    | [] => Some (regex_of_simple [])
    end.

  Definition pattern_ranges (p : list N) : list (N * N) :=
    let (_, str) := strip_negate p in
    match str with
    | c :: raw =>
        if c =? c_sp_rawregex_char then []
        else if c =? c_sp_range_open then parse_ranges raw else []
    | [] => []
    end.

  (* status_t StringMatcher::SetPattern(const String & s, bool isSimple = true) on a fresh object *)
  Definition set_pattern (p : list N) : matcher :=
    let (multi, onlyCommas) := can_match_multiple p in
    let (neg, _) := strip_negate p in
    let ranges := pattern_ranges p in
    let uv := onlyCommas && (match ranges with [] => true | _ => false end) && negb neg in
    match ranges with
    | _ :: _ => mkM true neg multi uv ranges None
    | [] =>
        match regex_string p with
        | None => mkM true neg multi uv [] None
        | Some re =>
            match engine re with
            | RxOk m => mkM true neg multi uv [] (Some m)
            | RxErr => mkM false neg multi uv [] None
            end
        end
    end.

  (* bool StringMatcher::Match(const char *) const *)
  Definition in_range (id : N) (r : N * N) : bool := (fst r <=? id) && (id <=? snd r).

  Definition match_raw (m : matcher) (s : list N) : bool :=
    match m_ranges m with
    | [] => match m_regex m with Some f => f s | None => false end
    | rs => match s with
            | c :: _ => if is_digit c then existsb (in_range (u32 (atoull s))) rs else false
            | [] => false
            end
    end.

  Definition matches (m : matcher) (s : list N) : bool :=
    if m_negate m then negb (match_raw m s) else match_raw m s.

  (* bool IsPatternUnique() const *)
  Definition is_unique (m : matcher) : bool :=
    (match m_ranges m with [] => true | _ => false end) && negb (m_multi m || m_negate m).

  Definition is_uvlist (m : matcher) : bool := m_uvlist m.

  (* the whole public path: construct from a pattern, match a subject *)
  Definition sm_match (p s : list N) : bool := matches (set_pattern p) s.
  Definition sm_unique (p : list N) : bool := is_unique (set_pattern p).
End WithEngine.

(* the engine obtained from the Ere.v model ([CUnsupported] is outside every claim; it is
   mapped to a compile failure here and reported separately by the driver) *)
Definition ere_engine (re : list N) : rx :=
  match ere_compile re with
  | COk r => RxOk (ere_exec r)
  | CErr => RxErr
  | CUnsupported => RxErr
  end.

Definition regex_supported (p : list N) : bool :=
  match regex_string p with
  | None => true
  | Some re => match ere_compile re with CUnsupported => false | _ => true end
  end.
