(* C15 -- Translate.v : executable model of regex/StringMatcher.cpp (simple-pattern mode).

   Mirrors, function by function:
     IsRegexToken, HasRegexTokens, EscapeRegexTokens, RemoveEscapeChars,
     CanWildcardStringMatchMultipleValues, DigitsOnly, Atoull (system/SetupSystem.cpp),
     StringMatcher::SetPattern(s, isSimple = true), ::Match, ::IsPatternUnique,
     ::IsPatternListOfUniqueValues.
   The character tables (IsRegexToken's two case groups, SetPattern's translation switch, the
   marker characters) are not written here: they are the c_* lists that gen/gen_consts.py
   regenerates from regex/StringMatcher.cpp on every run.

   libc's regcomp/regexec is a Section variable [engine]; Pat/Ere.v is the stand-in used for
   extraction and in the premise of the theorems.

   Characters are numbers; a C string is a list of them (the theorems do not need them to be
   bytes).  uint32/uint64 wrap-around of the range numbers is written out.
   No proofs in this file. *)
From Coq Require Import List NArith Bool.
From Muscle Require Import Gen.Consts Pat.Ere.
Import ListNotations.
Local Open Scope N_scope.

(* ------------------------------------------------------------------ table lookups *)

Definition mem (c : N) (l : list N) : bool := existsb (N.eqb c) l.

(* flat list of pairs [k1; v1; k2; v2; ..] *)
Fixpoint assoc (c : N) (l : list N) : option N :=
  match l with
  | k :: v :: t => if c =? k then Some v else assoc c t
  | _ => None
  end.

(* bool IsRegexToken(char c, bool isFirstCharInString) *)
Definition is_regex_token (c : N) (first : bool) : bool :=
  mem c c_regex_tokens_always || (first && mem c c_regex_tokens_first).

(* bool HasRegexTokens(str) *)
Fixpoint has_regex_tokens_aux (s : list N) (first : bool) : bool :=
  match s with
  | [] => false
  | c :: t => is_regex_token c first || has_regex_tokens_aux t false
  end.
Definition has_regex_tokens (s : list N) : bool := has_regex_tokens_aux s true.

(* String EscapeRegexTokens(const String &, NULL) *)
Fixpoint escape_aux (s : list N) (first : bool) : list N :=
  match s with
  | [] => []
  | c :: t => (if is_regex_token c first then [ch_bsl; c] else [c]) ++ escape_aux t false
  end.
Definition escape (s : list N) : list N := escape_aux s true.

(* String RemoveEscapeChars(const String &) *)
Fixpoint unescape_aux (s : list N) (lastWasEscape : bool) : list N :=
  match s with
  | [] => if lastWasEscape && (c_une_keeps_trailing =? 1) then [ch_bsl] else []
  | c :: t =>
      let isEscape := c =? ch_bsl in
      (if lastWasEscape || negb isEscape then [c] else []) ++ unescape_aux t (isEscape && negb lastWasEscape)
  end.
Definition unescape (s : list N) : list N := unescape_aux s false.

(* bool CanWildcardStringMatchMultipleValues(str, optRetOnlySpecialCharIsCommas):
   (result, *optRetOnlySpecialCharIsCommas) *)
Fixpoint cw_loop (s : list N) (first prevEsc sawComma : bool) : bool * bool :=
  match s with
  | [] => (sawComma, sawComma)
  | c :: t =>
      let isEscape := (c =? ch_bsl) && negb prevEsc in
      if negb isEscape && negb (c =? c_cw_ignored_char) && negb prevEsc && is_regex_token c first
      then (if c =? c_cw_comma_char then cw_loop t false isEscape true else (true, false))
      else cw_loop t false isEscape sawComma
  end.
Definition can_match_multiple (s : list N) : bool * bool :=
  match s with
  | c :: _ => if c =? c_cw_rawregex_char then (true, false) else cw_loop s true false false
  | [] => cw_loop s true false false
  end.

(* ------------------------------------------------------------------ numbers *)

Definition is_digit (c : N) : bool := (48 <=? c) && (c <=? 57).
Definition two32 : N := 4294967296.
Definition two64 : N := 18446744073709551616.

Definition digits_only (s : list N) : list N := filter is_digit s.

(* value of the leading run of digits, accumulated left to right *)
Fixpoint atoull_aux (s : list N) (acc : N) : N :=
  match s with
  | c :: t => if is_digit c then atoull_aux t (acc * 10 + (c - 48)) else acc
  | [] => acc
  end.
(* uint64 Atoull(str): the sum is formed in uint64 arithmetic, i.e. modulo 2^64 *)
Definition atoull (s : list N) : N := (atoull_aux s 0) mod two64.
Definition u32 (n : N) : N := n mod two32.

(* String::IsSpaceChar *)
Definition is_space (c : N) : bool := (c =? 32) || (c =? 9) || (c =? 13) || (c =? 10).
Fixpoint drop_spaces (s : list N) : list N :=
  match s with
  | c :: t => if is_space c then drop_spaces t else s
  | [] => []
  end.

(* ------------------------------------------------------------------ the "<a-b,c->" form *)

(* StringTokenizer(text, ",,"): hard separators; an empty text yields no token *)
Fixpoint split_on (sep : N) (s : list N) (cur : list N) : list (list N) :=
  match s with
  | [] => [rev cur]
  | c :: t => if c =? sep then rev cur :: split_on sep t [] else split_on sep t (c :: cur)
  end.
Definition tokenize (s : list N) : list (list N) :=
  match s with [] => [] | _ => split_on (hd 0 c_sp_range_seps) s [] end.

Fixpoint split_first (sep : N) (s : list N) (acc : list N) : option (list N * list N) :=
  match s with
  | [] => None
  | c :: t => if c =? sep then Some (rev acc, t) else split_first sep t (c :: acc)
  end.

Definition no_limit : N := c_MUSCLE_NO_LIMIT.

(* one clause -> IDRange(min, max) (the constructor orders the pair) *)
Definition parse_clause (cl : list N) : N * N :=
  let (mn, mx) :=
    match split_first c_sp_range_dash cl [] with
    | Some (before, after) =>
        let b := digits_only before in
        let a := digits_only after in
        ((match b with [] => 0 | _ => u32 (atoull b) end),
         (match a with [] => no_limit | _ => u32 (atoull a) end))
    | None =>
        match cl with
        | c :: _ => if c =? c_sp_range_all_char then (0, no_limit)
                    else let v := u32 (atoull (drop_spaces cl)) in (v, v)
        | [] => (0, 0)      (* Atoull("") = 0 *)
        end
    end in
  (N.min mn mx, N.max mn mx).

(* [t]: the characters after the leading '<'.  The first '>' must be the last character. *)
Definition parse_ranges (t : list N) : list (N * N) :=
  match split_first c_sp_range_close t [] with
  | Some (_, []) => map parse_clause (tokenize t)
  | _ => []
  end.

(* ------------------------------------------------------------------ the translation loop of SetPattern *)

Inductive action := ARepl (d : N) | APrefix (p : N) | AEscape | ANone.

Definition action_of (c : N) : action :=
  match assoc c c_sp_replace with
  | Some d => ARepl d
  | None => match assoc c c_sp_prefix with
            | Some p => APrefix p
            | None => if mem c c_sp_escape then AEscape else ANone
            end
  end.

(* The code exists in two forms, told apart by the translated tables:
     - `case '\\': escapeMode = true; break;`  : the backslash itself is appended when it is read
       (c_sp_escape_emits_itself = 1) and the escaped character follows bare (c_sp_escaped_prefix_for = []);
     - `case '\\': escapeMode = true; continue;` : nothing is appended when the backslash is read, and the
       escaped character gets a backslash of its own iff it is in c_sp_escaped_prefix_for.
   A pattern that ends in escapeMode appends c_sp_trailing. *)
Fixpoint tr_loop (s : list N) (escapeMode : bool) : list N :=
  match s with
  | [] => if escapeMode then c_sp_trailing else []
  | c :: t =>
      if escapeMode then (if mem c c_sp_escaped_prefix_for then [ch_bsl; c] else [c]) ++ tr_loop t false
      else match action_of c with
           | ARepl d => d :: tr_loop t false
           | APrefix p => p :: c :: tr_loop t false
           | AEscape => (if c_sp_escape_emits_itself =? 1 then [c] else []) ++ tr_loop t true
           | ANone => c :: tr_loop t false
           end
  end.

(* the regex string handed to regcomp for a simple pattern that is neither a range list nor a
   raw regex; [str] is the pattern after the optional '~'.
   if ((str[0] == '\\')&&(str[1] == '<' ...)) str++; *)
Definition skip_escaped_first (str : list N) : list N :=
  match str with
  | a :: b :: t => if (a =? c_sp_skip_escape_first) && mem b c_sp_skip_escape_seconds then b :: t else str
  | _ => str
  end.

Definition regex_of_simple (str : list N) : list N :=
  c_sp_regex_prefix ++ tr_loop (skip_escaped_first str) false ++ c_sp_regex_suffix.

(* ------------------------------------------------------------------ SetPattern / Match *)

Inductive rx := RxOk (m : list N -> bool) | RxErr.

(* the StringMatcher object: every data member *)
Record sm := mkS {
  s_pattern : list N;                   (* _pattern *)
  s_valid : bool;                       (* STRINGMATCHER_FLAG_REGEXVALID *)
  s_negate : bool;                      (* STRINGMATCHER_FLAG_NEGATE *)
  s_multi : bool;                       (* STRINGMATCHER_FLAG_CANMATCHMULTIPLEVALUES *)
  s_simple : bool;                      (* STRINGMATCHER_FLAG_SIMPLE *)
  s_uvlist : bool;                      (* STRINGMATCHER_FLAG_UVLIST *)
  s_ranges : list (N * N);              (* _ranges *)
  s_regexp : option (list N -> bool)    (* _regExp: the compiled regex (None: never compiled or regfree'd) *)
}.

(* a default-constructed StringMatcher *)
Definition sm_init : sm := mkS [] false false false false false [] None.

Definition set_pat (st : sm) (p : list N) (simple : bool) : sm :=
  mkS p (s_valid st) (s_negate st) (s_multi st) simple (s_uvlist st) (s_ranges st) (s_regexp st).
Definition set_multi (st : sm) (b : bool) : sm :=
  mkS (s_pattern st) (s_valid st) (s_negate st) b (s_simple st) (s_uvlist st) (s_ranges st) (s_regexp st).
Definition set_negate (st : sm) (b : bool) : sm :=      (* also the public SetNegate() *)
  mkS (s_pattern st) (s_valid st) b (s_multi st) (s_simple st) (s_uvlist st) (s_ranges st) (s_regexp st).
Definition set_uvlist (st : sm) (b : bool) : sm :=
  mkS (s_pattern st) (s_valid st) (s_negate st) (s_multi st) (s_simple st) b (s_ranges st) (s_regexp st).
Definition set_ranges (st : sm) (r : list (N * N)) : sm :=
  mkS (s_pattern st) (s_valid st) (s_negate st) (s_multi st) (s_simple st) (s_uvlist st) r (s_regexp st).
Definition set_regex (st : sm) (valid : bool) (f : option (list N -> bool)) : sm :=
  mkS (s_pattern st) valid (s_negate st) (s_multi st) (s_simple st) (s_uvlist st) (s_ranges st) f.

(* if (REGEXVALID) {regfree(&_regExp); clear REGEXVALID} *)
Definition free_regex (st : sm) : sm := if s_valid st then set_regex st false None else st.

Definition is_nil {A} (l : list A) : bool := match l with [] => true | _ => false end.

Definition strip_negate (p : list N) : bool * list N :=
  match p with
  | c :: t => if c =? c_sp_negate_char then (true, t) else (false, p)
  | [] => (false, p)
  end.

(* simple mode, after the optional '~': (the clauses appended to _ranges, regexPattern, the
   remaining str); regexPattern = [] stands for the empty String *)
Definition simple_body (str : list N) : list (N * N) * list N * list N :=
  match str with
  | c :: raw =>
      if c =? c_sp_rawregex_char then ([], [], raw)
      else
        let ranges := if c =? c_sp_range_open then parse_ranges raw else [] in
        if is_nil ranges then ([], regex_of_simple str, str) else (ranges, [], str)
  | [] => ([], regex_of_simple [], [])
  end.

(* the string given to regcomp by SetPattern(p, simple), if any *)
Definition regex_string (p : list N) (simple : bool) : option (list N) :=
  if simple then
    let '(ranges, regexPattern, str) := simple_body (snd (strip_negate p)) in
    if is_nil ranges then
      let regstr := if is_nil regexPattern then str else regexPattern in
      if is_nil regstr then None else Some regstr
    else None
  else if is_nil p then None else Some p.

Section WithEngine.
  (* regcomp(&r, re, REG_EXTENDED) followed by regexec(&r, s, 0, NULL, 0) != REG_NOMATCH *)
  Variable engine : list N -> rx.

  (* status_t StringMatcher::SetPattern(const String & s, bool isSimple), statement by statement,
     on an object in ANY prior state [st0]; returns the new state and "status is B_NO_ERROR" *)
  Definition set_pattern (st0 : sm) (p : list N) (simple : bool) : sm * bool :=
    let st := set_pat st0 p simple in                                   (* _pattern = s; SIMPLE bit *)
    let (multi, onlyCommas) :=
      if simple then can_match_multiple p else (has_regex_tokens p, false) in
    let st := set_multi st multi in
    let st := set_ranges st [] in                                       (* _ranges.Clear() *)
    let '(st, regexPattern, str) :=
      if simple then
        let (neg, str) := strip_negate p in
        let st := set_negate st neg in
        let '(ranges, regexPattern, str) := simple_body str in
        (set_ranges st (s_ranges st ++ ranges), regexPattern, str)      (* _ranges.AddTail(..) per clause *)
      else (set_negate st false, [], p) in
    let st := free_regex st in
    let st := set_uvlist st (onlyCommas && is_nil (s_ranges st) && negb (s_negate st)) in
    if is_nil (s_ranges st) then
      let regstr := if is_nil regexPattern then str else regexPattern in
      if is_nil regstr then (st, true)
      else match engine regstr with
           | RxOk m => (set_regex st true (Some m), true)
           | RxErr => (set_regex st false (s_regexp st), false)
           end
    else (st, true).

  (* void Reset() *)
  Definition sm_reset (st : sm) : sm :=
    let st := free_regex st in
    mkS [] false false false false false [] (s_regexp st).

  (* operator=(rhs): SetPattern(rhs._pattern, rhs SIMPLE bit); SetNegate(rhs.IsNegate()) *)
  Definition sm_assign (st rhs : sm) : sm :=
    set_negate (fst (set_pattern st (s_pattern rhs) (s_simple rhs))) (s_negate rhs).

  (* ObjectPool::ReleaseObject followed by ObtainObject of the same node: *obj = default object *)
  Definition sm_recycle (st : sm) : sm := sm_assign st sm_init.

  (* bool StringMatcher::Match(str) const *)
  Definition in_range (id : N) (r : N * N) : bool := (fst r <=? id) && (id <=? snd r).

  Definition match_raw (st : sm) (s : list N) : bool :=
    if is_nil (s_ranges st) then
      (if s_valid st then match s_regexp st with Some f => f s | None => false end else false)
    else match s with
         | c :: _ => if is_digit c then existsb (in_range (u32 (atoull s))) (s_ranges st) else false
         | [] => false
         end.

  Definition matches (st : sm) (s : list N) : bool :=
    if s_negate st then negb (match_raw st s) else match_raw st s.

  (* bool IsPatternUnique() const *)
  Definition is_unique (st : sm) : bool := is_nil (s_ranges st) && negb (s_multi st || s_negate st).

  (* bool IsPatternListOfUniqueValues() const *)
  Definition is_uvlist (st : sm) : bool := s_uvlist st.

  (* the whole public path on a fresh object (simple syntax) *)
  Definition sm_of (p : list N) : sm := fst (set_pattern sm_init p true).
  Definition sm_match (p s : list N) : bool := matches (sm_of p) s.
  Definition sm_unique (p : list N) : bool := is_unique (sm_of p).
End WithEngine.

(* ------------------------------------------------------------------ glue: SegmentedStringMatcher, PathMatcher *)

Fixpoint list_eqb (a b : list N) : bool :=
  match a, b with
  | [], [] => true
  | x :: a', y :: b' => (x =? y) && list_eqb a' b'
  | _, _ => false
  end.

(* StringTokenizer(str, "/"): a SOFT separator; runs collapse and none is produced at the ends *)
Fixpoint soft_split (sep : N) (s cur : list N) : list (list N) :=
  match s with
  | [] => match cur with [] => [] | _ => [rev cur] end
  | c :: t =>
      if c =? sep then (match cur with [] => soft_split sep t [] | _ => rev cur :: soft_split sep t [] end)
      else soft_split sep t (c :: cur)
  end.

(* StringTokenizer(str, "//"): a HARD separator (empty tokens are kept; an empty text has no token) *)
Definition hard_split (sep : N) (s : list N) : list (list N) :=
  match s with [] => [] | _ => split_on sep s [] end.

Definition ch_slash : N := 47.
Definition star_only : list N := [42].

(* int GetPathDepth(path) (regex/PathMatcher.cpp), the loop on fuel.  [first] = isFirstClause: an empty
   clause counts unless it is the first one (an empty path has no clauses; "x/" has two, like PutPathString files it) *)
Fixpoint after_sep (sep : N) (p : list N) : option (list N) :=
  match p with
  | [] => None
  | c :: t => if c =? sep then Some t else after_sep sep t
  end.
Fixpoint depth_loop (fuel : nat) (p : list N) (first : bool) : nat :=
  match fuel with
  | O => O
  | S f => ((if negb (is_nil p) || negb first then 1 else 0) +
            match after_sep ch_slash p with Some t => depth_loop f t false | None => 0 end)%nat
  end.
Definition skip_slash (p : list N) : list N :=
  match p with c :: t => if c =? ch_slash then t else p | [] => p end.
Definition path_depth (p : list N) : nat := let q := skip_slash p in depth_loop (S (length q)) q true.

Section Glue.
  Variable engine : list N -> rx.

  (* one matcher per clause; a clause that is exactly "*" gets no matcher (NULL ref).  None: a clause failed to compile *)
  Fixpoint build_clauses (toks : list (list N)) (simple : bool) : option (list (option sm)) :=
    match toks with
    | [] => Some []
    | t :: r =>
        if simple && list_eqb t star_only then
          match build_clauses r simple with Some l => Some (None :: l) | None => None end
        else
          let (st, ok) := set_pattern engine sm_init t simple in
          if ok then match build_clauses r simple with Some l => Some (Some st :: l) | None => None end
          else None
    end.

  Definition clause_ok1 (m : option sm) (t : list N) : bool :=
    match m with None => true | Some st => matches st t end.

  (* ---- regex/SegmentedStringMatcher.cpp *)
  (* g_seps: _sepChars is "/" (true) or the empty String left by Clear() (false) *)
  Record segm := mkG { g_negate : bool; g_segs : list (option sm); g_seps : bool }.
  Definition seg_init : segm := mkG false [] false.

  (* SetPattern(s, isSimple, "/", MUSCLE_NO_LIMIT) -> (object, status ok) *)
  Definition seg_set_pattern (p : list N) (simple : bool) : segm * bool :=
    let (neg, body) :=
      if simple then (match p with c :: t => if c =? c_sp_negate_char then (true, t) else (false, p) | [] => (false, p) end)
      else (false, p) in
    match build_clauses (soft_split ch_slash body []) simple with
    | Some segs => (mkG neg segs true, true)
    | None => (seg_init, false)              (* Clear(): no segments, no separator characters *)
    end.

  Fixpoint seg_match_aux (segs : list (option sm)) (toks : list (list N)) (prefixOk : bool) : bool :=
    match segs with
    | [] => match toks with [] => true | _ => prefixOk end
    | m :: segs' =>
        match toks with
        | [] => false
        | t :: toks' => clause_ok1 m t && seg_match_aux segs' toks' prefixOk
        end
    end.

  Definition seg_match (g : segm) (s : list N) (prefixOk : bool) : bool :=
    let toks := if g_seps g then soft_split ch_slash s [] else (match s with [] => [] | _ => [s] end) in
    let r := seg_match_aux (g_segs g) toks prefixOk in
    if g_negate g then negb r else r.

  Definition seg_unique (g : segm) : bool :=
    negb (g_negate g) && negb (is_nil (g_segs g)) &&
    forallb (fun m => match m with Some st => is_unique st | None => false end) (g_segs g).

  (* ---- regex/PathMatcher.cpp: one PutPathString(path, no filter), then MatchesPath(subject, NULL, NULL) *)
  Definition path_put (path : list N) : option (list (option sm)) :=
    match path with
    | [] => None
    | _ => build_clauses (split_on ch_slash path []) true
    end.

  Fixpoint clauses_match (ms : list (option sm)) (toks : list (list N)) : bool :=
    match ms with
    | [] => true
    | m :: ms' => match toks with [] => false | t :: toks' => clause_ok1 m t && clauses_match ms' toks' end
    end.

  Definition path_matches (ms : list (option sm)) (subject : list N) : bool :=
    Nat.eqb (path_depth subject) (length ms) && clauses_match ms (hard_split ch_slash (skip_slash subject)).
End Glue.

(* the engine obtained from the Ere.v model ([CUnsupported] is outside every claim; it is
   mapped to a compile failure here and reported separately by the driver) *)
Definition ere_engine (re : list N) : rx :=
  match ere_compile re with
  | COk r => RxOk (ere_exec r)
  | CErr => RxErr
  | CUnsupported => RxErr
  end.

Definition regex_supported (p : list N) (simple : bool) : bool :=
  match regex_string p simple with
  | None => true
  | Some re => match ere_compile re with CUnsupported => false | _ => true end
  end.

Definition clauses_supported (toks : list (list N)) (simple : bool) : bool :=
  forallb (fun t => (simple && list_eqb t star_only) || regex_supported t simple) toks.

Definition seg_supported (p : list N) (simple : bool) : bool :=
  let body := if simple then (match p with c :: t => if c =? c_sp_negate_char then t else p | [] => p end) else p in
  clauses_supported (soft_split ch_slash body []) simple.

Definition path_supported (path : list N) : bool := clauses_supported (split_on ch_slash path []) true.
