(* C15 -- RangeProofs.v : the "<a-b,c,d->" form.  For every documented range list and every subject
   that is a decimal numeral (leading zeros allowed) of a value below 2^32, Match answers what the
   documentation says.  Outside that (trailing junk, values >= 2^32) the code deviates: findings
   F25, F26, stated as ..._refuted in PatProofs.v. *)
From Coq Require Import List Arith NArith Bool Lia.
From Muscle Require Import Gen.Consts Pat.Ere Pat.Translate Pat.Simple.
Import ListNotations.
Local Open Scope N_scope.

(* ------------------------------------------------------------------ decimal numerals *)

Definition dstep (a d : N) : N := a * 10 + (d - 48).
Definition dval (ds : list N) (a : N) : N := fold_left dstep ds a.

Lemma digits_fuel_val : forall f n acc,
  n < 10 ^ N.of_nat f -> dval (digits_fuel f n acc) 0 = dval acc n.
Proof.
  induction f as [|f IH]; intros n acc H.
  - cbn in H. assert (n = 0) by lia. subst. reflexivity.
  - cbn [digits_fuel]. destruct (n / 10 =? 0) eqn:E.
    + apply N.eqb_eq in E. assert (n < 10) by (apply N.div_small_iff in E; [exact E | lia]).
      unfold dval. cbn [fold_left]. f_equal. unfold dstep.
      rewrite N.mod_small by lia. rewrite (N.add_comm 48 n), N.add_sub. lia.
    + rewrite IH.
      * unfold dval. cbn [fold_left]. f_equal. unfold dstep.
        rewrite (N.add_comm 48 (n mod 10)), N.add_sub.
        pose proof (N.div_mod n 10 ltac:(lia)) as D. rewrite (N.mul_comm (n / 10) 10). symmetry. exact D.
      * rewrite Nat2N.inj_succ, N.pow_succ_r' in H.
        apply N.div_lt_upper_bound; lia.
Qed.

Lemma fuel_adequate : forall n, n < 10 ^ N.of_nat (S (N.to_nat (N.log2 n))).
Proof.
  intros n. rewrite Nat2N.inj_succ, N2Nat.id.
  destruct (N.eq_dec n 0) as [->|Hn]; [cbn; lia|].
  pose proof (N.log2_spec n ltac:(lia)) as [_ H].
  eapply N.lt_le_trans; [exact H|].
  apply N.pow_le_mono_l. lia.
Qed.

Lemma print_num_val : forall n, dval (print_num n) 0 = n.
Proof. intros n. unfold print_num. rewrite digits_fuel_val by apply fuel_adequate. reflexivity. Qed.

Lemma digits_fuel_digits : forall f n acc,
  forallb is_digit acc = true -> forallb is_digit (digits_fuel f n acc) = true.
Proof.
  induction f as [|f IH]; intros n acc H; cbn [digits_fuel]; [exact H|].
  assert (Hd : is_digit (48 + n mod 10) = true).
  { unfold is_digit. pose proof (N.mod_upper_bound n 10 ltac:(lia)) as Hm.
    revert Hm. generalize (n mod 10). intros m Hm.
    apply andb_true_iff. split; apply N.leb_le; lia. }
  destruct (n / 10 =? 0).
  - cbn [forallb]. rewrite Hd, H. reflexivity.
  - apply IH. cbn [forallb]. rewrite Hd, H. reflexivity.
Qed.

Lemma print_num_digits : forall n, forallb is_digit (print_num n) = true.
Proof. intros n. unfold print_num. apply digits_fuel_digits. reflexivity. Qed.

Lemma digits_fuel_app : forall f n acc, digits_fuel f n acc = digits_fuel f n [] ++ acc.
Proof.
  induction f as [|f IH]; intros n acc; cbn [digits_fuel]; [reflexivity|].
  destruct (n / 10 =? 0); [reflexivity|].
  rewrite IH. rewrite (IH (n / 10) [48 + n mod 10]). rewrite <- app_assoc. reflexivity.
Qed.

Lemma print_num_nonnil : forall n, print_num n <> [].
Proof.
  intros n. unfold print_num. cbn [digits_fuel]. destruct (n / 10 =? 0); [discriminate|].
  rewrite digits_fuel_app. intros E. apply app_eq_nil in E as [_ E]. discriminate.
Qed.

Lemma print_num_head : forall n, exists d t, print_num n = d :: t /\ is_digit d = true.
Proof.
  intros n. pose proof (print_num_nonnil n) as Hn. pose proof (print_num_digits n) as Hd.
  destruct (print_num n) as [|d t]; [congruence|].
  cbn [forallb] in Hd. apply andb_true_iff in Hd as [Hd _]. eauto.
Qed.

(* Atoull on digits followed by a non-digit (or nothing) *)
Definition stops (rest : list N) : bool := match rest with [] => true | c :: _ => negb (is_digit c) end.

Lemma atoull_aux_digits : forall ds rest acc,
  forallb is_digit ds = true -> stops rest = true ->
  atoull_aux (ds ++ rest) acc = dval ds acc.
Proof.
  induction ds as [|d ds IH]; intros rest acc Hd Hs.
  - cbn [app dval fold_left]. destruct rest as [|c r]; [reflexivity|].
    cbn [stops] in Hs. apply negb_true_iff in Hs. cbn [atoull_aux]. rewrite Hs. reflexivity.
  - cbn [forallb] in Hd. apply andb_true_iff in Hd as [H1 H2].
    cbn [app atoull_aux]. rewrite H1. rewrite IH by assumption. reflexivity.
Qed.

Lemma dval_zeros : forall k ds, dval (repeat 48 k ++ ds) 0 = dval ds 0.
Proof.
  induction k as [|k IH]; intros ds; [reflexivity|].
  cbn [repeat app]. unfold dval. cbn [fold_left]. apply (IH ds).
Qed.

Lemma zeros_digits : forall k, forallb is_digit (repeat 48 k) = true.
Proof. induction k; cbn [repeat forallb]; [reflexivity|]. rewrite IHk. reflexivity. Qed.

(* a numeral of v, possibly with leading zeros, followed by something that is not a digit *)
Lemma atoull_numeral : forall k v rest,
  stops rest = true -> v < two64 -> atoull (repeat 48 k ++ print_num v ++ rest) = v.
Proof.
  intros k v rest Hs Hv. unfold atoull. rewrite app_assoc.
  rewrite atoull_aux_digits; [| rewrite forallb_app, zeros_digits, print_num_digits; reflexivity | exact Hs].
  rewrite (dval_zeros k (print_num v)). rewrite print_num_val. apply N.mod_small. exact Hv.
Qed.

Lemma digits_only_numeral : forall ds rest,
  forallb is_digit ds = true -> forallb (fun c => negb (is_digit c)) rest = true ->
  digits_only (ds ++ rest) = ds.
Proof.
  intros ds rest Hd Hr. unfold digits_only. rewrite filter_app.
  assert (E1 : filter is_digit ds = ds).
  { clear Hr. induction ds as [|d ds IH]; [reflexivity|]. cbn [forallb] in Hd. apply andb_true_iff in Hd as [H1 H2].
    cbn [filter]. rewrite H1. rewrite IH by exact H2. reflexivity. }
  assert (E2 : filter is_digit rest = []).
  { clear Hd E1. induction rest as [|c r IH]; [reflexivity|]. cbn [forallb] in Hr. apply andb_true_iff in Hr as [H1 H2].
    apply negb_true_iff in H1. cbn [filter]. rewrite H1. apply IH; exact H2. }
  rewrite E1, E2. apply app_nil_r.
Qed.

(* ------------------------------------------------------------------ splitting *)

Definition nosep (sep : N) (a : list N) : bool := forallb (fun x => negb (x =? sep)) a.

Lemma split_first_none : forall sep a acc, nosep sep a = true -> split_first sep a acc = None.
Proof.
  induction a as [|x a IH]; intros acc H; [reflexivity|].
  cbn [nosep forallb] in H. apply andb_true_iff in H as [H1 H2]. apply negb_true_iff in H1.
  cbn [split_first]. rewrite H1. apply IH. exact H2.
Qed.

Lemma split_first_some : forall sep a b acc,
  nosep sep a = true -> split_first sep (a ++ sep :: b) acc = Some (rev acc ++ a, b).
Proof.
  induction a as [|x a IH]; intros b acc H.
  - cbn [app split_first]. rewrite N.eqb_refl. rewrite app_nil_r. reflexivity.
  - cbn [nosep forallb] in H. apply andb_true_iff in H as [H1 H2]. apply negb_true_iff in H1.
    cbn [app split_first]. rewrite H1. rewrite IH by exact H2. cbn [rev]. rewrite <- app_assoc. reflexivity.
Qed.

Lemma split_on_nosep : forall sep a rest cur,
  nosep sep a = true -> split_on sep (a ++ rest) cur = split_on sep rest (rev a ++ cur).
Proof.
  induction a as [|x a IH]; intros rest cur H; [reflexivity|].
  cbn [nosep forallb] in H. apply andb_true_iff in H as [H1 H2]. apply negb_true_iff in H1.
  cbn [app split_on]. rewrite H1. rewrite IH by exact H2. cbn [rev]. rewrite <- app_assoc. reflexivity.
Qed.

Lemma nosep_app : forall sep a b, nosep sep (a ++ b) = nosep sep a && nosep sep b.
Proof. intros. unfold nosep. apply forallb_app. Qed.

Lemma digit_facts : forall d, is_digit d = true ->
  (d =? 45) = false /\ (d =? 44) = false /\ (d =? 62) = false /\ is_space d = false.
Proof.
  intros d H. unfold is_digit in H. apply andb_true_iff in H as [H1 H2].
  apply N.leb_le in H1. apply N.leb_le in H2. unfold is_space.
  repeat split; repeat (apply orb_false_iff; split); apply N.eqb_neq; lia.
Qed.

Lemma digits_nosep : forall sep ds,
  (sep = 45 \/ sep = 44 \/ sep = 62) -> forallb is_digit ds = true -> nosep sep ds = true.
Proof.
  intros sep ds Hs. induction ds as [|d ds IH]; intros H; [reflexivity|].
  cbn [forallb] in H. apply andb_true_iff in H as [H1 H2].
  cbn [nosep forallb]. fold (nosep sep ds). rewrite IH by exact H2. rewrite andb_true_r.
  destruct (digit_facts d H1) as (A & B & C & _).
  destruct Hs as [Hs | [Hs | Hs]]; subst sep; [rewrite A | rewrite B | rewrite C]; reflexivity.
Qed.

(* ------------------------------------------------------------------ one clause *)

Definition clause_range (c : sclause) : N * N :=
  match c with
  | RSingle n => (n, n)
  | RBetween lo hi => (N.min lo hi, N.max lo hi)
  | RUpTo hi => (0, hi)
  | RFrom lo => (lo, u32_max)
  | RAll => (0, u32_max)
  end.

Definition sfx (last : bool) : list N := if last then [ch_gt] else [].

Lemma tbl_range_chars :
  c_sp_range_dash = 45 /\ c_sp_range_all_char = 62 /\ c_sp_range_close = 62 /\ hd 0 c_sp_range_seps = 44 /\
  c_sp_range_open = 60 /\ c_sp_rawregex_char = 96 /\ c_sp_negate_char = 126 /\ no_limit = u32_max.
Proof. vm_compute. repeat split; reflexivity. Qed.

Lemma u32_small : forall n, n <= u32_max -> u32 n = n.
Proof. intros n H. unfold u32. apply N.mod_small. unfold u32_max, two32 in *. lia. Qed.

Lemma atoull_num : forall n last, n <= u32_max -> u32 (atoull (print_num n ++ sfx last)) = n.
Proof.
  intros n last H.
  pose proof (atoull_numeral 0 n (sfx last)) as A. cbn [repeat app] in A.
  rewrite A; [apply u32_small; exact H | destruct last; reflexivity | unfold u32_max, two64 in *; lia].
Qed.

Lemma digits_only_num : forall n last, digits_only (print_num n ++ sfx last) = print_num n.
Proof.
  intros n last. apply digits_only_numeral; [apply print_num_digits | destruct last; reflexivity].
Qed.

Lemma num_field : forall n dflt, n <= u32_max ->
  match print_num n with [] => dflt | _ :: _ => u32 (atoull (print_num n)) end = n.
Proof.
  intros n dflt H. destruct (print_num_head n) as (d & t & E & _).
  pose proof (atoull_num n false H) as A. cbn [sfx] in A. rewrite app_nil_r in A.
  rewrite E in *. exact A.
Qed.

Lemma parse_clause_doc : forall c last,
  clause_ok c = true -> parse_clause (print_clause c ++ sfx last) = clause_range c.
Proof.
  intros c last Hok. destruct tbl_range_chars as (Td & Ta & _ & _ & _ & _ & _ & Tn).
  unfold parse_clause. rewrite Td, Ta, Tn.
  assert (Hsfx45 : nosep 45 (sfx last) = true) by (destruct last; reflexivity).
  destruct c as [n|lo hi|hi|lo|]; cbn [print_clause clause_ok clause_range] in *.
  - (* N *)
    apply N.leb_le in Hok.
    rewrite split_first_none
      by (rewrite nosep_app, Hsfx45, (digits_nosep 45 _ (or_introl eq_refl) (print_num_digits n)); reflexivity).
    destruct (print_num_head n) as (d & t & E & Hd).
    destruct (digit_facts d Hd) as (_ & _ & D62 & Dsp).
    pose proof (atoull_num n last Hok) as A. rewrite E in *. cbn [app] in *. rewrite D62.
    cbn [drop_spaces]. rewrite Dsp. rewrite A. rewrite N.min_id, N.max_id. reflexivity.
  - (* N-M *)
    apply andb_true_iff in Hok as [H1 H2]. apply N.leb_le in H1. apply N.leb_le in H2.
    rewrite <- app_assoc. cbn [app].
    rewrite split_first_some by (apply (digits_nosep 45 _ (or_introl eq_refl) (print_num_digits lo))).
    cbn [rev app]. rewrite digits_only_num.
    replace (digits_only (print_num lo)) with (print_num lo)
      by (symmetry; pose proof (digits_only_numeral (print_num lo) [] (print_num_digits lo) eq_refl) as X;
          rewrite app_nil_r in X; exact X).
    rewrite (num_field lo 0 H1), (num_field hi u32_max H2). reflexivity.
  - (* -M *)
    apply N.leb_le in Hok. cbn [app].
    change (ch_minus :: print_num hi ++ sfx last) with ([] ++ 45 :: print_num hi ++ sfx last).
    rewrite split_first_some by reflexivity. cbn [rev app].
    rewrite digits_only_num. change (digits_only []) with (@nil N). cbv iota.
    rewrite (num_field hi u32_max Hok).
    rewrite N.min_l, N.max_r by lia. reflexivity.
  - (* N- *)
    apply N.leb_le in Hok. rewrite <- app_assoc. cbn [app].
    rewrite split_first_some by (apply (digits_nosep 45 _ (or_introl eq_refl) (print_num_digits lo))).
    cbn [rev app].
    replace (digits_only (print_num lo)) with (print_num lo)
      by (symmetry; pose proof (digits_only_numeral (print_num lo) [] (print_num_digits lo) eq_refl) as X;
          rewrite app_nil_r in X; exact X).
    replace (digits_only (sfx last)) with (@nil N) by (destruct last; reflexivity).
    rewrite (num_field lo 0 Hok). rewrite N.min_l, N.max_r by exact Hok. reflexivity.
  - (* - *)
    change ([ch_minus] ++ sfx last) with ([] ++ 45 :: sfx last).
    rewrite split_first_some by reflexivity. cbn [rev app].
    change (digits_only []) with (@nil N).
    replace (digits_only (sfx last)) with (@nil N) by (destruct last; reflexivity). reflexivity.
Qed.

(* ------------------------------------------------------------------ the clause list *)

Lemma clause_nosep : forall sep c, (sep = 44 \/ sep = 62) -> nosep sep (print_clause c) = true.
Proof.
  intros sep c Hs.
  assert (Hd : forall n, nosep sep (print_num n) = true).
  { intros n. apply digits_nosep; [tauto | apply print_num_digits]. }
  assert (Hm : (ch_minus =? sep) = false) by (destruct Hs; subst; reflexivity).
  destruct c; cbn [print_clause]; rewrite ?nosep_app; cbn [nosep forallb]; fold (nosep sep);
    rewrite ?Hd, ?Hm; try reflexivity.
  - fold (nosep sep (print_num hi)). rewrite Hd. reflexivity.
  - fold (nosep sep (print_num hi)). rewrite Hd. reflexivity.
Qed.

Fixpoint toks (cs : list sclause) : list (list N) :=
  match cs with
  | [] => []
  | [c] => [print_clause c ++ sfx true]
  | c :: t => print_clause c :: toks t
  end.

Lemma clauses_nosep62 : forall cs, nosep 62 (print_clauses cs) = true.
Proof.
  induction cs as [|c t IH]; [reflexivity|].
  destruct t as [|c2 t2]; cbn [print_clauses].
  - apply clause_nosep; tauto.
  - rewrite nosep_app. rewrite clause_nosep by tauto. cbn [nosep forallb andb negb].
    change (ch_comma =? 62) with false. cbn [negb andb]. exact IH.
Qed.

Lemma split_clauses : forall cs cur0,
  cs <> [] ->
  split_on 44 (print_clauses cs ++ [ch_gt]) cur0 =
  match toks cs with t1 :: ts => (rev cur0 ++ t1) :: ts | [] => [] end.
Proof.
  induction cs as [|c t IH]; intros cur0 Hne; [congruence|].
  destruct t as [|c2 t2].
  - cbn [print_clauses toks sfx].
    rewrite split_on_nosep by (apply clause_nosep; tauto).
    cbn [split_on]. change (ch_gt =? 44) with false. cbv iota. cbn [rev].
    rewrite rev_app_distr, rev_involutive, <- app_assoc. reflexivity.
  - change (print_clauses (c :: c2 :: t2)) with (print_clause c ++ ch_comma :: print_clauses (c2 :: t2)).
    change (toks (c :: c2 :: t2)) with (print_clause c :: toks (c2 :: t2)).
    rewrite <- app_assoc. cbn [app].
    rewrite split_on_nosep by (apply clause_nosep; tauto).
    cbn [split_on]. change (ch_comma =? 44) with true. cbv iota.
    rewrite rev_app_distr, rev_involutive.
    rewrite (IH [] ltac:(discriminate)). cbn [rev app].
    destruct (toks (c2 :: t2)) eqn:E; [|reflexivity].
    destruct t2; discriminate.
Qed.

Lemma map_toks : forall cs, forallb clause_ok cs = true -> map parse_clause (toks cs) = map clause_range cs.
Proof.
  induction cs as [|c t IH]; intros H; [reflexivity|].
  cbn [forallb] in H. apply andb_true_iff in H as [Hc Ht].
  destruct t as [|c2 t2].
  - cbn [toks map]. rewrite parse_clause_doc by exact Hc. reflexivity.
  - change (toks (c :: c2 :: t2)) with (print_clause c :: toks (c2 :: t2)). cbn [map].
    rewrite (IH Ht).
    pose proof (parse_clause_doc c false Hc) as P. cbn [sfx] in P. rewrite app_nil_r in P. rewrite P. reflexivity.
Qed.

Lemma parse_ranges_doc : forall cs,
  cs <> [] -> forallb clause_ok cs = true ->
  parse_ranges (print_clauses cs ++ [ch_gt]) = map clause_range cs.
Proof.
  intros cs Hne Hok. destruct tbl_range_chars as (_ & _ & Tc & Ts & _).
  unfold parse_ranges. rewrite Tc.
  change [ch_gt] with (62 :: @nil N).
  rewrite split_first_some by apply clauses_nosep62. cbn [rev app].
  unfold tokenize. rewrite Ts.
  destruct (print_clauses cs ++ [62]) eqn:E; [apply app_eq_nil in E as [_ E]; discriminate|].
  rewrite <- E. change [62] with [ch_gt]. rewrite split_clauses by exact Hne. cbn [rev app].
  destruct (toks cs) eqn:Et.
  - destruct cs as [|c [|c2 t2]]; try congruence; discriminate.
  - rewrite <- Et. apply map_toks; exact Hok.
Qed.

(* ------------------------------------------------------------------ matching *)

Lemma in_range_clause : forall c v,
  clause_ok c = true -> v <= u32_max -> in_range v (clause_range c) = clause_has c v.
Proof.
  intros c v Hok Hv. unfold in_range.
  destruct c as [n|lo hi|hi|lo|]; cbn [clause_range clause_has clause_ok fst snd] in *.
  - destruct (v =? n) eqn:E.
    + apply N.eqb_eq in E. subst. rewrite N.leb_refl. reflexivity.
    + apply N.eqb_neq in E. destruct (n <=? v) eqn:E1; [|reflexivity].
      apply N.leb_le in E1. cbn [andb]. apply N.leb_gt. lia.
  - reflexivity.
  - replace (0 <=? v) with true by (symmetry; apply N.leb_le; lia). reflexivity.
  - replace (v <=? u32_max) with true by (symmetry; apply N.leb_le; exact Hv). apply andb_true_r.
  - replace (v <=? u32_max) with true by (symmetry; apply N.leb_le; exact Hv).
    replace (0 <=? v) with true by (symmetry; apply N.leb_le; lia). reflexivity.
Qed.

Lemma existsb_ranges : forall cs v,
  forallb clause_ok cs = true -> v <= u32_max ->
  existsb (in_range v) (map clause_range cs) = existsb (fun c => clause_has c v) cs.
Proof.
  induction cs as [|c t IH]; intros v H Hv; [reflexivity|].
  cbn [forallb] in H. apply andb_true_iff in H as [Hc Ht].
  cbn [map existsb]. rewrite in_range_clause by assumption. rewrite IH by assumption. reflexivity.
Qed.

Lemma matches_simple_ranges : forall engine st0 p r1 rs rp str' s,
  simple_body (snd (strip_negate p)) = (r1 :: rs, rp, str') ->
  matches (fst (set_pattern engine st0 p true)) s =
  xorb (fst (strip_negate p))
       (match s with
        | c :: _ => if is_digit c then existsb (in_range (u32 (atoull s))) (r1 :: rs) else false
        | [] => false
        end).
Proof.
  intros engine [p0 v0 n0 m0 s0 u0 r0 x0] p r1 rs rp str' s H. unfold set_pattern.
  destruct (can_match_multiple p) as [multi only].
  destruct (strip_negate p) as [neg str]. cbn [fst snd] in *. rewrite H.
  destruct v0;
    cbv [free_regex set_uvlist set_regex set_ranges set_negate set_multi set_pat fst snd is_nil
         s_pattern s_valid s_negate s_multi s_simple s_uvlist s_ranges s_regexp app
         matches match_raw];
    destruct neg; rewrite ?xorb_false_l, ?xorb_true_l; reflexivity.
Qed.

Theorem range_doc : forall engine neg cs st0 k v,
  cs <> [] -> forallb clause_ok cs = true -> v <= u32_max ->
  matches (fst (set_pattern engine st0 (print_range_pattern neg cs) true)) (repeat 48 k ++ print_num v) =
  xorb neg (existsb (fun c => clause_has c v) cs).
Proof.
  intros engine neg cs st0 k v Hne Hok Hv.
  destruct tbl_range_chars as (_ & _ & _ & _ & To & Tr & Tn & _).
  assert (Es : strip_negate (print_range_pattern neg cs) = (neg, ch_lt :: print_clauses cs ++ [ch_gt])).
  { unfold print_range_pattern, strip_negate. rewrite Tn. destruct neg; reflexivity. }
  assert (Eb : simple_body (ch_lt :: print_clauses cs ++ [ch_gt]) =
               (map clause_range cs, [], ch_lt :: print_clauses cs ++ [ch_gt])).
  { unfold simple_body. rewrite Tr, To. change (ch_lt =? 96) with false. change (ch_lt =? 60) with true. cbv iota.
    rewrite parse_ranges_doc by assumption.
    destruct cs as [|c t]; [congruence|]. reflexivity. }
  destruct (map clause_range cs) as [|r1 rs] eqn:Em; [destruct cs; [congruence | discriminate]|].
  rewrite (matches_simple_ranges engine st0 _ r1 rs [] (ch_lt :: print_clauses cs ++ [ch_gt]))
    by (rewrite Es; exact Eb).
  rewrite Es. cbn [fst]. f_equal.
  assert (Ea : u32 (atoull (repeat 48 k ++ print_num v)) = v).
  { pose proof (atoull_numeral k v [] eq_refl) as A. rewrite app_nil_r in A.
    rewrite A by (unfold u32_max, two64 in *; lia). apply u32_small; exact Hv. }
  rewrite Ea. rewrite <- Em. rewrite existsb_ranges by assumption.
  destruct k as [|k].
  - cbn [repeat app]. destruct (print_num_head v) as (d & t & E & Hd). rewrite E, Hd. reflexivity.
  - cbn [repeat app]. reflexivity.
Qed.
