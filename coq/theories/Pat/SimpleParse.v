(* C15 -- SimpleParse.v : a reader for the documented wildcard grammar of Pat/Simple.v.

   [sparse p] returns the syntax tree of the pattern string p when p is written in the documented
   grammar (with the restrictions of [wf_pattern]), and None otherwise.  It lets the theorems, which
   quantify over syntax trees, be read as statements about pattern STRINGS (sparse_sound in
   SimpleParseProofs.v), and lets the model driver report which generated patterns lie inside the
   theorem's domain.  Recursive descent on explicit fuel (the string length suffices).
   No proofs in this file. *)
From Coq Require Import List NArith Bool.
From Muscle Require Import Pat.Ere Pat.Simple.
Import ListNotations.
Local Open Scope N_scope.

(* the members of a class, up to the closing bracket *)
Fixpoint parse_items (fuel : nat) (s : list N) : option (list (N * N) * list N) :=
  match fuel with
  | O => None
  | S f =>
      match s with
      | c :: r =>
          if c =? ch_rbr then Some ([], r)
          else if class_ok c then
            match r with
            | m :: d :: r2 =>
                if (m =? ch_minus) && class_ok d && (c <? d) then
                  match parse_items f r2 with Some (its, r3) => Some ((c, d) :: its, r3) | None => None end
                else
                  match parse_items f r with Some (its, r3) => Some ((c, c) :: its, r3) | None => None end
            | _ => match parse_items f r with Some (its, r3) => Some ((c, c) :: its, r3) | None => None end
            end
          else None
      | [] => None
      end
  end.

Definition is_sep (c : N) : bool := (c =? ch_bar) || (c =? ch_comma).

Section WithAlt.
  (* the reader for a parenthesised alternation (one level less fuel) *)
  Variable palt : list N -> option (salt * list N).
  Variable f : nat.

  Definition parse_atom (s : list N) : option (satom * list N) :=
    match s with
    | c :: r =>
        if c =? ch_star then Some (SRun, r)
        else if c =? ch_qm then Some (SOne, r)
        else if c =? ch_bsl then (match r with d :: r2 => Some (SEsc d, r2) | [] => None end)
        else if c =? ch_lbr then
          (match r with
           | h :: r2 =>
               if h =? ch_hat then
                 match parse_items f r2 with
                 | Some (it :: its, r3) => Some (SClass true (it :: its), r3)
                 | _ => None
                 end
               else
                 match parse_items f r with
                 | Some (it :: its, r3) => Some (SClass false (it :: its), r3)
                 | _ => None
                 end
           | [] => None
           end)
        else if c =? ch_lpar then
          (match palt r with
           | Some (al, c2 :: r2) => if c2 =? ch_rpar then Some (SGroup al, r2) else None
           | _ => None
           end)
        else if lit_ok c then Some (SLit c, r)
        else None
    | [] => None
    end.

  Fixpoint parse_branch (g : nat) (s : list N) : option (sbranch * list N) :=
    match g with
    | O => None
    | S g' =>
        match s with
        | [] => Some (SNil, [])
        | c :: _ =>
            if is_sep c || (c =? ch_rpar) then Some (SNil, s)
            else match parse_atom s with
                 | Some (a, r) => match parse_branch g' r with Some (b, r2) => Some (SCons a b, r2) | None => None end
                 | None => None
                 end
        end
    end.
End WithAlt.

Fixpoint parse_alt (fuel : nat) (s : list N) : option (salt * list N) :=
  match fuel with
  | O => None
  | S f =>
      match parse_branch (parse_alt f) f (S (length s)) s with
      | Some (b, c :: r) =>
          if is_sep c then
            match parse_alt f r with Some (al, r2) => Some (SMore b (c =? ch_comma) al, r2) | None => None end
          else Some (SLast b, c :: r)
      | Some (b, []) => Some (SLast b, [])
      | None => None
      end
  end.

Definition sparse (p : list N) : option salt :=
  match parse_alt (S (length p)) p with
  | Some (al, []) => if head_ok p then Some al else None
  | _ => None
  end.
