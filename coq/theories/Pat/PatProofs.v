(* C15 -- PatProofs.v : lemmas about the StringMatcher model (Pat/Translate.v, Pat/Ere.v). *)
From Coq Require Import List NArith Bool Lia.
From Muscle Require Import Gen.Consts Pat.Ere Pat.Translate.
Import ListNotations.
Local Open Scope N_scope.

(* ------------------------------------------------------------------ SetPattern overwrites the whole object *)

(* what can be observed of a StringMatcher: every member, the compiled regex only while REGEXVALID *)
Definition obs (st : sm) :=
  (s_pattern st, s_valid st, s_negate st, s_multi st, s_simple st, s_uvlist st, s_ranges st,
   if s_valid st then s_regexp st else None).

Lemma set_pattern_overwrites :
  forall engine st1 st2 p simple,
    obs (fst (set_pattern engine st1 p simple)) = obs (fst (set_pattern engine st2 p simple)) /\
    snd (set_pattern engine st1 p simple) = snd (set_pattern engine st2 p simple).
Proof.
  intros engine [p1 v1 n1 m1 s1 u1 r1 x1] [p2 v2 n2 m2 s2 u2 r2 x2] p simple.
  unfold set_pattern.
  destruct (if simple then can_match_multiple p else (has_regex_tokens p, false)) as [multi only].
  destruct simple.
  - destruct (strip_negate p) as [neg str].
    destruct (simple_body str) as [[ranges rp] str'].
    destruct v1, v2, ranges as [|r0 rs], rp as [|c0 cs], str' as [|d0 ds];
      cbv [free_regex set_uvlist set_regex set_ranges set_negate set_multi set_pat obs fst snd is_nil
           s_pattern s_valid s_negate s_multi s_simple s_uvlist s_ranges s_regexp app];
      try (split; reflexivity);
      match goal with |- context [engine ?x] => destruct (engine x) end; split; reflexivity.
  - destruct v1, v2, p as [|c0 cs];
      cbv [free_regex set_uvlist set_regex set_ranges set_negate set_multi set_pat obs fst snd is_nil
           s_pattern s_valid s_negate s_multi s_simple s_uvlist s_ranges s_regexp app];
      try (split; reflexivity);
      destruct (engine (c0 :: cs)); split; reflexivity.
Qed.
