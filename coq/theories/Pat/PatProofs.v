(* C15 -- PatProofs.v : lemmas about the StringMatcher model (Pat/Translate.v, Pat/Ere.v). *)
From Coq Require Import List Arith NArith Bool Lia.
From Muscle Require Import Gen.Consts Pat.Ere Pat.EreProofs Pat.Translate Pat.Simple Pat.TranslateProofs Pat.DenoteProofs Pat.UniqueProofs Pat.UvProofs Pat.RangeProofs Pat.SimpleParse Pat.SimpleParseProofs Pat.RangeParse Pat.RangeParseProofs Pat.PatSpec.
Import ListNotations.
Local Open Scope N_scope.

(* ------------------------------------------------------------------ SetPattern overwrites the whole object *)

(* what can be observed of a StringMatcher: every member, the compiled regex only while REGEXVALID *)
Definition obs (st : sm) :=
  (s_pattern st, s_valid st, s_negate st, s_multi st, s_simple st, s_uvlist st, s_ranges st,
   if s_valid st then s_regexp st else None).

Lemma set_pattern_overwrites :
  forall engine st1 st2 p simple,
    obs (fst (set_pattern engine st1 p simple)) = obs (fst (set_pattern engine st2 p simple)) /\
    snd (set_pattern engine st1 p simple) = snd (set_pattern engine st2 p simple).
Proof.
  intros engine [p1 v1 n1 m1 s1 u1 r1 x1] [p2 v2 n2 m2 s2 u2 r2 x2] p simple.
  unfold set_pattern.
  destruct (if simple then can_match_multiple p else (has_regex_tokens p, false)) as [multi only].
  destruct simple.
  - destruct (strip_negate p) as [neg str].
    destruct (simple_body str) as [[ranges rp] str'].
    destruct v1, v2, ranges as [|r0 rs], rp as [|c0 cs], str' as [|d0 ds];
      cbv [free_regex set_uvlist set_regex set_ranges set_negate set_multi set_pat obs fst snd is_nil
           s_pattern s_valid s_negate s_multi s_simple s_uvlist s_ranges s_regexp app];
      try (split; reflexivity);
      match goal with |- context [engine ?x] => destruct (engine x) end; split; reflexivity.
  - destruct v1, v2, p as [|c0 cs];
      cbv [free_regex set_uvlist set_regex set_ranges set_negate set_multi set_pat obs fst snd is_nil
           s_pattern s_valid s_negate s_multi s_simple s_uvlist s_ranges s_regexp app];
      try (split; reflexivity);
      destruct (engine (c0 :: cs)); split; reflexivity.
Qed.

(* ------------------------------------------------------------------ REGEXVALID is set iff a regex was compiled for THIS pattern *)

Lemma valid_iff_compiled : forall engine st0 p simple,
  let st := fst (set_pattern engine st0 p simple) in
  (s_valid st, if s_valid st then s_regexp st else None) =
  match regex_string p simple with
  | Some re => match engine re with RxOk m => (true, Some m) | RxErr => (false, None) end
  | None => (false, None)
  end.
Proof.
  intros engine [p0 v0 n0 m0 s0 u0 r0 x0] p simple. unfold regex_string, set_pattern.
  destruct (if simple then can_match_multiple p else (has_regex_tokens p, false)) as [multi only].
  destruct simple.
  - destruct (strip_negate p) as [neg str]. cbn [snd].
    destruct (simple_body str) as [[ranges rp] str'].
    destruct v0, ranges as [|r1 rs], rp as [|c0 cs], str' as [|d0 ds];
      cbv [free_regex set_uvlist set_regex set_ranges set_negate set_multi set_pat fst snd is_nil
           s_pattern s_valid s_negate s_multi s_simple s_uvlist s_ranges s_regexp app];
      try reflexivity;
      match goal with |- context [engine ?x] => destruct (engine x) end; reflexivity.
  - destruct v0, p as [|c0 cs];
      cbv [free_regex set_uvlist set_regex set_ranges set_negate set_multi set_pat fst snd is_nil
           s_pattern s_valid s_negate s_multi s_simple s_uvlist s_ranges s_regexp app];
      try reflexivity;
      destruct (engine (c0 :: cs)); reflexivity.
Qed.

(* ------------------------------------------------------------------ what Match answers, in terms of the regex string *)

Lemma matches_simple_regex : forall engine st0 p re s,
  regex_string p true = Some re ->
  matches (fst (set_pattern engine st0 p true)) s =
  xorb (fst (strip_negate p)) (match engine re with RxOk m => m s | RxErr => false end).
Proof.
  intros engine [p0 v0 n0 m0 s0 u0 r0 x0] p re s H.
  unfold regex_string in H. unfold set_pattern.
  destruct (can_match_multiple p) as [multi only].
  destruct (strip_negate p) as [neg str]. cbn [fst snd] in *.
  destruct (simple_body str) as [[ranges rp] str'].
  destruct ranges as [|r1 rs]; cbn [is_nil] in H; [|discriminate].
  destruct rp as [|c0 cs]; cbn [is_nil] in H.
  - destruct str' as [|d0 ds]; cbn [is_nil] in H; [discriminate|]. inversion H; subst re; clear H.
    destruct v0;
      cbv [free_regex set_uvlist set_regex set_ranges set_negate set_multi set_pat fst snd is_nil
           s_pattern s_valid s_negate s_multi s_simple s_uvlist s_ranges s_regexp app];
      destruct (engine (d0 :: ds)); cbv [matches match_raw is_nil s_negate s_ranges s_valid s_regexp fst];
      destruct neg; rewrite ?xorb_false_l, ?xorb_true_l; reflexivity.
  - inversion H; subst re; clear H.
    destruct v0;
      cbv [free_regex set_uvlist set_regex set_ranges set_negate set_multi set_pat fst snd is_nil
           s_pattern s_valid s_negate s_multi s_simple s_uvlist s_ranges s_regexp app];
      destruct (engine (c0 :: cs)); cbv [matches match_raw is_nil s_negate s_ranges s_valid s_regexp fst];
      destruct neg; rewrite ?xorb_false_l, ?xorb_true_l; reflexivity.
Qed.

(* ------------------------------------------------------------------ the wildcard form: translate_correct *)

Lemma tbl_skip_seconds :
  c_sp_skip_escape_first = 92 /\
  forallb (fun b => tr_plain b && negb (mem b c_sp_escaped_prefix_for)) c_sp_skip_escape_seconds = true.
Proof. vm_compute. split; reflexivity. Qed.

(* on the repaired translation the special case for a leading "\<" changes nothing: the
   backslash would not have reached the regex anyway *)
Lemma skip_noop : forall str, tr_loop (skip_escaped_first str) false = tr_loop str false.
Proof.
  intros str. unfold skip_escaped_first.
  destruct str as [|a [|b t]]; try reflexivity.
  destruct ((a =? c_sp_skip_escape_first) && mem b c_sp_skip_escape_seconds) eqn:E; [|reflexivity].
  apply andb_true_iff in E as [Ea Eb]. destruct tbl_skip_seconds as [T1 T2].
  rewrite T1 in Ea. apply N.eqb_eq in Ea. subst a.
  apply mem_In in Eb. rewrite forallb_forall in T2. apply T2 in Eb.
  apply andb_true_iff in Eb as [Hp Hn]. apply negb_true_iff in Hn.
  change (92 :: b :: t) with (ch_bsl :: b :: t). rewrite tr_loop_esc. unfold tr_esc. rewrite Hn.
  cbn [tr_loop app]. unfold tr_plain in Hp. destruct (action_of b); try discriminate. reflexivity.
Qed.

Definition wrap (r : ere) : ere := ECat (ECat EBol (EGroup r)) EEol.

Lemma compile_wrapped : forall al,
  wf_alt al = true ->
  ere_compile (c_sp_regex_prefix ++ rx_alt al ++ c_sp_regex_suffix) = COk (wrap (close_frame (fr_alt al f0))).
Proof.
  intros al H. destruct tbl_wrap as [Tp Ts]. rewrite Tp, Ts. unfold ere_compile.
  transitivity (match psteps (rx_alt al ++ [41; 36]) (pnorm [push_anchor f0 EBol] f0) with
                | SOk st => pfinish st | SErr => CErr | SUnsup => CUnsupported end); [reflexivity|].
  destruct parse_syntax as (_ & _ & P). rewrite P by exact H. reflexivity.
Qed.

Lemma head_ok_strip : forall p, head_ok p = true -> strip_negate p = (false, p).
Proof.
  intros [|c t] H; [reflexivity|]. unfold strip_negate.
  replace c_sp_negate_char with ch_tilde by (vm_compute; reflexivity).
  cbn [head_ok] in H. apply negb_true_iff in H. apply orb_false_iff in H as [H _].
  apply orb_false_iff in H as [H _]. rewrite H. reflexivity.
Qed.

Lemma head_ok_body : forall p, head_ok p = true -> simple_body p = ([], regex_of_simple p, p).
Proof.
  intros [|c t] H; [reflexivity|]. unfold simple_body.
  replace c_sp_rawregex_char with ch_backtick by (vm_compute; reflexivity).
  replace c_sp_range_open with ch_lt by (vm_compute; reflexivity).
  cbn [head_ok] in H. apply negb_true_iff in H. apply orb_false_iff in H as [H H3].
  apply orb_false_iff in H as [_ H2]. rewrite H2, H3. reflexivity.
Qed.

Lemma regex_of_simple_nonnil : forall p, is_nil (regex_of_simple p) = false.
Proof. intros p. unfold regex_of_simple. destruct tbl_wrap as [Tp _]. rewrite Tp. reflexivity. Qed.

Lemma regex_string_pattern : forall neg al,
  wf_pattern al = true ->
  regex_string (print_pattern neg al) true =
    Some (c_sp_regex_prefix ++ rx_alt al ++ c_sp_regex_suffix) /\
  fst (strip_negate (print_pattern neg al)) = neg.
Proof.
  intros neg al H. unfold wf_pattern in H. apply andb_true_iff in H as [Hwf Hh].
  assert (Es : strip_negate (print_pattern neg al) = (neg, print_alt al)).
  { unfold print_pattern. destruct neg; cbn [app].
    - unfold strip_negate. replace c_sp_negate_char with ch_tilde by (vm_compute; reflexivity).
      rewrite N.eqb_refl. reflexivity.
    - apply head_ok_strip; exact Hh. }
  split; [|rewrite Es; reflexivity].
  unfold regex_string. rewrite Es. cbn [snd]. rewrite head_ok_body by exact Hh.
  cbn [is_nil]. rewrite regex_of_simple_nonnil.
  unfold regex_of_simple. rewrite skip_noop.
  destruct tr_loop_syntax as (_ & _ & T).
  pose proof (T al Hwf []) as E. rewrite app_nil_r in E. cbn [tr_loop] in E. rewrite app_nil_r in E.
  rewrite E. reflexivity.
Qed.

(* ------------------------------------------------------------------ the flags SetPattern computes *)

Lemma set_pattern_fields : forall engine st0 p,
  s_multi (fst (set_pattern engine st0 p true)) = fst (can_match_multiple p) /\
  s_negate (fst (set_pattern engine st0 p true)) = fst (strip_negate p) /\
  s_ranges (fst (set_pattern engine st0 p true)) = fst (fst (simple_body (snd (strip_negate p)))).
Proof.
  intros engine [p0 v0 n0 m0 s0 u0 r0 x0] p. unfold set_pattern.
  destruct (can_match_multiple p) as [multi only].
  destruct (strip_negate p) as [neg str]. cbn [fst snd].
  destruct (simple_body str) as [[ranges rp] str']. cbn [fst snd].
  destruct v0, ranges as [|r1 rs], rp as [|c0 cs], str' as [|d0 ds];
    cbv [free_regex set_uvlist set_regex set_ranges set_negate set_multi set_pat fst snd is_nil
         s_pattern s_valid s_negate s_multi s_simple s_uvlist s_ranges s_regexp app];
    try (repeat split; reflexivity);
    match goal with |- context [engine ?x] => destruct (engine x) end; repeat split; reflexivity.
Qed.

Lemma set_pattern_uvlist : forall engine st0 p,
  s_uvlist (fst (set_pattern engine st0 p true)) =
  snd (can_match_multiple p) && is_nil (fst (fst (simple_body (snd (strip_negate p))))) && negb (fst (strip_negate p)).
Proof.
  intros engine [p0 v0 n0 m0 s0 u0 r0 x0] p. unfold set_pattern.
  destruct (can_match_multiple p) as [multi only].
  destruct (strip_negate p) as [neg str]. cbn [fst snd].
  destruct (simple_body str) as [[ranges rp] str']. cbn [fst snd].
  destruct v0, ranges as [|r1 rs], rp as [|c0 cs], str' as [|d0 ds];
    cbv [free_regex set_uvlist set_regex set_ranges set_negate set_multi set_pat fst snd is_nil
         s_pattern s_valid s_negate s_multi s_simple s_uvlist s_ranges s_regexp app];
    try reflexivity;
    match goal with |- context [engine ?x] => destruct (engine x) end; reflexivity.
Qed.

Lemma cw_snd_fst : forall p first esc saw, snd (cw_loop p first esc saw) = true -> fst (cw_loop p first esc saw) = true.
Proof.
  induction p as [|c t IH]; intros first esc saw H; [exact H|].
  cbn [cw_loop] in *.
  destruct (negb ((c =? ch_bsl) && negb esc) && negb (c =? c_cw_ignored_char) && negb esc && is_regex_token c first).
  - destruct (c =? c_cw_comma_char); [apply IH; exact H | reflexivity].
  - apply IH; exact H.
Qed.

Lemma uv_head_ok : forall p, snd (can_match_multiple p) = true -> head_ok p = true /\ only_commas p true false.
Proof.
  intros [|c t] H; [discriminate H|]. unfold can_match_multiple in H.
  destruct tbl_cw_chars as (_ & _ & Tr). rewrite Tr in H.
  destruct (c =? 96) eqn:E96; [discriminate H|].
  split; [|apply cw_snd_mono; exact H].
  cbn [head_ok]. change ch_backtick with 96. rewrite E96.
  destruct (c =? ch_bsl) eqn:Eb.
  - apply N.eqb_eq in Eb. subst c. reflexivity.
  - rewrite (cw_cons_other c t true false Eb) in H.
    destruct (c =? 45) eqn:E45.
    + apply N.eqb_eq in E45. subst c. reflexivity.
    + cbn [negb andb] in H. destruct (is_regex_token c true) eqn:Et.
      * destruct (c =? 44) eqn:E44; [|discriminate H]. apply N.eqb_eq in E44. subst c. reflexivity.
      * destruct (nontoken_first_head c Et) as (H1 & _ & H3). rewrite H1, H3. reflexivity.
Qed.

Lemma cw_head_ok : forall p, fst (can_match_multiple p) = false -> head_ok p = true.
Proof.
  intros [|c t] H; [reflexivity|]. unfold can_match_multiple in H.
  destruct tbl_cw_chars as (_ & _ & Tr). rewrite Tr in H.
  destruct (c =? 96) eqn:E96; [discriminate H|].
  cbn [head_ok]. change ch_backtick with 96. rewrite E96.
  destruct (c =? ch_bsl) eqn:Eb.
  - apply N.eqb_eq in Eb. subst c. reflexivity.
  - rewrite (cw_cons_other c t true false Eb) in H.
    destruct (c =? 45) eqn:E45.
    + apply N.eqb_eq in E45. subst c. reflexivity.
    + cbn [negb andb] in H. destruct (is_regex_token c true) eqn:Et.
      * destruct (c =? 44); [rewrite cw_saw_true in H; discriminate | discriminate].
      * destruct (nontoken_first_head c Et) as (H1 & _ & H3). rewrite H1, H3. reflexivity.
Qed.

Lemma cw_loop_of_multi : forall p, fst (can_match_multiple p) = false -> fst (cw_loop p true false false) = false.
Proof.
  intros [|c t] H; [reflexivity|]. unfold can_match_multiple in H.
  destruct (c =? c_cw_rawregex_char); [discriminate H | exact H].
Qed.

Lemma regex_string_head_ok : forall p,
  head_ok p = true ->
  regex_string p true = Some (c_sp_regex_prefix ++ tr_loop p false ++ c_sp_regex_suffix).
Proof.
  intros p H. unfold regex_string. rewrite head_ok_strip by exact H. cbn [snd].
  rewrite head_ok_body by exact H. cbn [is_nil]. rewrite regex_of_simple_nonnil.
  unfold regex_of_simple. rewrite skip_noop. reflexivity.
Qed.

Lemma unique_iff : forall engine st0 p,
  is_unique (fst (set_pattern engine st0 p true)) = true <-> fst (can_match_multiple p) = false.
Proof.
  intros engine st0 p. unfold is_unique.
  destruct (set_pattern_fields engine st0 p) as (Em & En & Er). rewrite Em, En, Er. split.
  - intros H. apply andb_true_iff in H as [_ H]. apply negb_true_iff in H. apply orb_false_iff in H as [H _]. exact H.
  - intros H. pose proof (cw_head_ok p H) as Hh.
    rewrite head_ok_strip by exact Hh. cbn [fst snd]. rewrite head_ok_body by exact Hh. cbn [fst is_nil].
    rewrite H. reflexivity.
Qed.

Section Engine.
  Variable engine : list N -> rx.
  (* libc regcomp/regexec behave as Pat/Ere.v on every regex string inside that model *)
  Hypothesis engine_is_ere : forall re, ere_compile re <> CUnsupported -> engine re = ere_engine re.

  Theorem translate_correct : forall neg al st0 s,
    wf_pattern al = true ->
    (matches (fst (set_pattern engine st0 (print_pattern neg al) true)) s = true <-> den_pattern neg al s).
  Proof.
    intros neg al st0 s H.
    destruct (regex_string_pattern neg al H) as [Er En].
    rewrite (matches_simple_regex engine st0 _ _ s Er). rewrite En.
    pose proof H as H'. unfold wf_pattern in H'. apply andb_true_iff in H' as [Hwf _].
    pose proof (compile_wrapped al Hwf) as Ec.
    rewrite engine_is_ere by (rewrite Ec; discriminate).
    unfold ere_engine. rewrite Ec.
    assert (Em : ere_exec (wrap (close_frame (fr_alt al f0))) s = true <-> den_alt al s).
    { unfold wrap. rewrite ere_exec_anchored.
      destruct denote_syntax as (_ & _ & D). rewrite D by reflexivity.
      unfold aden. cbn [f_alts f0]. tauto. }
    unfold den_pattern. destruct neg.
    - rewrite xorb_true_l. rewrite negb_true_iff. rewrite <- Em.
      destruct (ere_exec (wrap (close_frame (fr_alt al f0))) s); split; congruence.
    - rewrite xorb_false_l. exact Em.
  Qed.

  (* a pattern reported unique matches RemoveEscapeChars(pattern) and nothing else *)
  Theorem unique_exact : forall p st0 t,
    is_unique (fst (set_pattern engine st0 p true)) = true ->
    (matches (fst (set_pattern engine st0 p true)) t = true <-> t = unescape p).
  Proof.
    intros p st0 t Hu. apply unique_iff in Hu.
    pose proof (cw_head_ok p Hu) as Hh.
    rewrite (matches_simple_regex engine st0 p _ t (regex_string_head_ok p Hh)).
    rewrite head_ok_strip by exact Hh. cbn [fst]. rewrite xorb_false_l.
    pose proof (compile_unique p (cw_loop_of_multi p Hu)) as Ec.
    rewrite engine_is_ere by (rewrite Ec; discriminate).
    unfold ere_engine. rewrite Ec. rewrite ere_exec_anchored. apply chain_exact.
  Qed.

  Theorem unique_sound : forall p st0 t,
    is_unique (fst (set_pattern engine st0 p true)) = true ->
    matches (fst (set_pattern engine st0 p true)) t = true -> t = unescape p.
  Proof. intros p st0 t Hu Hm. apply (unique_exact p st0 t Hu). exact Hm. Qed.

  (* "can this pattern match more than one string" answers yes whenever two different strings match *)
  Theorem multi_complete : forall p st0 t1 t2,
    matches (fst (set_pattern engine st0 p true)) t1 = true ->
    matches (fst (set_pattern engine st0 p true)) t2 = true ->
    t1 <> t2 ->
    is_unique (fst (set_pattern engine st0 p true)) = false.
  Proof.
    intros p st0 t1 t2 H1 H2 Hne.
    destruct (is_unique (fst (set_pattern engine st0 p true))) eqn:Hu; [|reflexivity].
    exfalso. apply Hne. rewrite (unique_sound p st0 t1 Hu H1), (unique_sound p st0 t2 Hu H2). reflexivity.
  Qed.

  Theorem escape_unique : forall s st0, is_unique (fst (set_pattern engine st0 (escape s) true)) = true.
  Proof. intros s st0. apply unique_iff. rewrite cw_escape. reflexivity. Qed.

  (* escaping a string yields a pattern that matches that string and no other *)
  Theorem escape_exact : forall s st0 t,
    matches (fst (set_pattern engine st0 (escape s) true)) t = true <-> t = s.
  Proof.
    intros s st0 t. rewrite (unique_exact (escape s) st0 t (escape_unique s st0)).
    rewrite unescape_escape. tauto.
  Qed.

  (* a pattern reported "list of unique values" matches exactly its comma-separated values *)
  Theorem uvlist_exact : forall p st0 t,
    is_uvlist (fst (set_pattern engine st0 p true)) = true ->
    (matches (fst (set_pattern engine st0 p true)) t = true <-> In t (uv_segs p false [])).
  Proof.
    intros p st0 t Hu. unfold is_uvlist in Hu. rewrite set_pattern_uvlist in Hu.
    apply andb_true_iff in Hu as [Hu _]. apply andb_true_iff in Hu as [Hu _].
    destruct (uv_head_ok p Hu) as [Hh Hc].
    rewrite (matches_simple_regex engine st0 p _ t (regex_string_head_ok p Hh)).
    rewrite head_ok_strip by exact Hh. cbn [fst]. rewrite xorb_false_l.
    pose proof (compile_uv p Hc) as Ec.
    rewrite engine_is_ere by (rewrite Ec; discriminate).
    unfold ere_engine. rewrite Ec. rewrite ere_exec_anchored. apply uv_exact.
  Qed.

  (* translate_correct read as a statement about pattern STRINGS: whenever the reader of the documented
     grammar accepts the string p (as the tree al), p and ~p match exactly what al denotes *)
  Theorem translate_correct_str : forall p al st0 s,
    sparse p = Some al ->
    (matches (fst (set_pattern engine st0 p true)) s = true <-> den_alt al s) /\
    (matches (fst (set_pattern engine st0 (ch_tilde :: p) true)) s = true <-> ~ den_alt al s).
  Proof.
    intros p al st0 s H. apply sparse_sound in H as [Ep Hwf]. subst p. split.
    - exact (translate_correct false al st0 s Hwf).
    - exact (translate_correct true al st0 s Hwf).
  Qed.
End Engine.

(* ------------------------------------------------------------------ the glue: piecewise matching *)

(* SegmentedStringMatcher::MatchAux without prefix matching, and PathMatcher's clause loop, are exactly
   "as many pieces as matchers, each piece matched by its matcher (no matcher = "*" = anything)" *)
Lemma seg_match_aux_exact : forall segs toks,
  seg_match_aux segs toks false = true <-> Forall2 (fun m t => clause_ok1 m t = true) segs toks.
Proof.
  induction segs as [|m segs IH]; intros toks; cbn [seg_match_aux].
  - destruct toks; split; intros H; try constructor; try discriminate; inversion H.
  - destruct toks as [|t toks]; [split; intros H; [discriminate | inversion H]|].
    rewrite andb_true_iff, IH. split.
    + intros [H1 H2]. constructor; assumption.
    + intros H. inversion H; subst. split; assumption.
Qed.

Lemma seg_match_aux_prefix : forall segs toks,
  seg_match_aux segs toks true = true <->
  (length segs <= length toks)%nat /\ Forall2 (fun m t => clause_ok1 m t = true) segs (firstn (length segs) toks).
Proof.
  induction segs as [|m segs IH]; intros toks; cbn [seg_match_aux length firstn].
  - destruct toks; split; intros; try reflexivity; split; try constructor; apply Nat.le_0_l.
  - destruct toks as [|t toks]; cbn [length firstn].
    + split; [discriminate | intros [H _]; inversion H].
    + rewrite andb_true_iff, IH. split.
      * intros [H1 [H2 H3]]. split; [apply le_n_S; exact H2 | constructor; assumption].
      * intros [H1 H2]. inversion H2; subst. split; [assumption|]. split; [apply le_S_n; exact H1 | assumption].
Qed.

Lemma clauses_match_spec : forall ms toks,
  clauses_match ms toks = true <->
  (length ms <= length toks)%nat /\ Forall2 (fun m t => clause_ok1 m t = true) ms (firstn (length ms) toks).
Proof.
  induction ms as [|m ms IH]; intros toks; cbn [clauses_match length firstn].
  - split; intros; try reflexivity. split; [apply Nat.le_0_l | constructor].
  - destruct toks as [|t toks]; cbn [length firstn].
    + split; [discriminate | intros [H _]; inversion H].
    + rewrite andb_true_iff, IH. split.
      * intros [H1 [H2 H3]]. split; [apply le_n_S; exact H2 | constructor; assumption].
      * intros [H1 H2]. inversion H2; subst. split; [assumption|]. split; [apply le_S_n; exact H1 | assumption].
Qed.

(* GetPathDepth counts exactly the clauses that MatchesPath tokenises (and PutPathString files): the path,
   less one leading '/', cut at every '/' *)
Lemma split_on_after : forall sep p cur,
  length (split_on sep p cur) = match after_sep sep p with Some t => S (length (split_on sep t [])) | None => 1%nat end.
Proof.
  induction p as [|c p IH]; intros cur; cbn [split_on after_sep]; [reflexivity|].
  destruct (c =? sep); [reflexivity | apply IH].
Qed.

Lemma after_sep_shorter : forall sep p t, after_sep sep p = Some t -> (length t < length p)%nat.
Proof.
  induction p as [|c p IH]; intros t H; cbn [after_sep] in H; [discriminate H|].
  destruct (c =? sep).
  - inversion H; subst. cbn [length]. apply Nat.lt_succ_diag_r.
  - apply IH in H. cbn [length]. apply Nat.lt_lt_succ_r. exact H.
Qed.

Lemma depth_loop_split : forall f p,
  (length p < f)%nat -> depth_loop f p false = length (split_on ch_slash p []).
Proof.
  induction f as [|f IH]; intros p H; [inversion H|].
  cbn [depth_loop]. rewrite orb_true_r. rewrite split_on_after.
  destruct (after_sep ch_slash p) as [t|] eqn:E; [|reflexivity].
  rewrite IH; [reflexivity|]. apply after_sep_shorter in E. lia.
Qed.

Lemma path_depth_clauses : forall p, path_depth p = length (hard_split ch_slash (skip_slash p)).
Proof.
  intros p. unfold path_depth. generalize (skip_slash p). intros q.
  destruct q as [|c q]; [reflexivity|].
  unfold hard_split. rewrite <- (depth_loop_split (S (length (c :: q))) (c :: q)) by apply Nat.lt_succ_diag_r.
  reflexivity.
Qed.

Lemma forall2_len : forall (A B : Type) (R : A -> B -> Prop) l1 l2, Forall2 R l1 l2 -> length l1 = length l2.
Proof. induction 1; cbn [length]; congruence. Qed.

(* hence MatchesPath (one stored path, no filter) is exactly: as many clauses as matchers, each clause matched *)
Lemma path_matches_exact : forall ms subject,
  path_matches ms subject = true <->
  Forall2 (fun m t => clause_ok1 m t = true) ms (hard_split ch_slash (skip_slash subject)).
Proof.
  intros ms subject. unfold path_matches. rewrite path_depth_clauses.
  set (toks := hard_split ch_slash (skip_slash subject)).
  rewrite andb_true_iff, Nat.eqb_eq, clauses_match_spec. split.
  - intros (Hl & _ & H). rewrite <- Hl, firstn_all in H. exact H.
  - intros H. pose proof (forall2_len _ _ _ _ _ H) as Hl. rewrite Hl. split; [reflexivity|].
    split; [apply Nat.le_refl|]. rewrite <- Hl, firstn_all2 by (rewrite Hl; apply Nat.le_refl). exact H.
Qed.

(* ------------------------------------------------------------------ an example pattern for the non-vacuity checks *)

(* a well-formed pattern using every construct:  a?*[^b-dx](\*|e,f.)  *)
Definition ex_alt : salt :=
  SLast (SCons (SLit 97) (SCons SOne (SCons SRun (SCons (SClass true [(98, 100); (120, 120)])
        (SCons (SGroup (SMore (SCons (SEsc 42) SNil) false (SMore (SCons (SLit 101) SNil) true (SLast (SCons (SLit 102) (SCons (SLit 46) SNil))))))
         SNil))))).

(* ------------------------------------------------------------------ range lists, read over pattern strings *)

Theorem range_doc_str : forall engine p neg cs st0 k v,
  read_ranges p = Some (neg, cs) -> v <= u32_max ->
  matches (fst (set_pattern engine st0 p true)) (repeat 48 k ++ print_num v) =
  xorb neg (existsb (fun c => clause_has c v) cs).
Proof.
  intros engine p neg cs st0 k v H Hv. apply read_ranges_sound in H as (Hp & Hne & Hok). subst p.
  apply range_doc; assumption.
Qed.

(* ------------------------------------------------------------------ where the code departs from the documentation *)

(* FULL statement of translate_correct: as proved above but with [wf_pattern] allowing any character
   except ] [ - ^ as a class member.  It is FALSE for the code (finding F24): SetPattern rewrites
   , . + * ? and backslash inside brackets too. *)
Lemma class_meta_refuted :
  exists neg items c,
    class_has neg items c = true /\
    matches (fst (set_pattern ere_engine sm_init (print_pattern false (SLast (SCons (SClass neg items) SNil))) true)) [c] = false.
Proof. exists false, [(44, 44)], 44. vm_compute. split; reflexivity. Qed.

(* the same class matches the bar instead *)
Lemma class_meta_refuted_bar :
  class_has false [(44, 44)] 124 = false /\
  matches (fst (set_pattern ere_engine sm_init (print_pattern false (SLast (SCons (SClass false [(44, 44)]) SNil))) true)) [124] = true.
Proof. vm_compute. split; reflexivity. Qed.

Lemma print_num_inj : forall a b, print_num a = print_num b -> a = b.
Proof. intros a b H. rewrite <- (print_num_val a), <- (print_num_val b), H. reflexivity. Qed.

(* FULL statement for range lists: Match p s = true <-> den_ranges cs s, for every subject s.
   FALSE for the code in two ways. *)
(* F25: only the leading digits of the subject are read *)
Lemma range_junk_refuted :
  exists cs s,
    ~ den_ranges cs s /\
    matches (fst (set_pattern ere_engine sm_init (print_range_pattern false cs) true)) s = true.
Proof.
  exists [RBetween 10 20], [49; 50; 97; 98; 99]. split; [|vm_compute; reflexivity].
  intros (v & E & _).
  pose proof (print_num_digits v) as D. rewrite <- E in D. vm_compute in D. discriminate.
Qed.

(* F26: the subject's value is reduced modulo 2^32 *)
Lemma range_wrap_refuted :
  exists cs s,
    ~ den_ranges cs s /\
    matches (fst (set_pattern ere_engine sm_init (print_range_pattern false cs) true)) s = true.
Proof.
  exists [RSingle 1], (print_num 4294967297). split; [|vm_compute; reflexivity].
  intros (v & E & H). apply print_num_inj in E. subst v. vm_compute in H. discriminate.
Qed.

(* ------------------------------------------------------------------ the model as an instance of the client interface *)

Definition model_ops (engine : list N -> rx) : pat_ops :=
  mkOps (sm_match engine) (sm_unique engine) (fun p => is_uvlist (sm_of engine p)) unescape escape.

Section EngineLaws.
  Variable engine : list N -> rx.
  Hypothesis engine_is_ere : forall re, ere_compile re <> CUnsupported -> engine re = ere_engine re.

  Lemma model_unique_sound : unique_sound_law (model_ops engine).
  Proof. intros p t H. exact (unique_exact engine engine_is_ere p sm_init t H). Qed.

  Lemma model_multi_complete : multi_complete_law (model_ops engine).
  Proof. intros p t1 t2. exact (multi_complete engine engine_is_ere p sm_init t1 t2). Qed.

  Lemma model_escape_exact : escape_exact_law (model_ops engine).
  Proof. intros s t. exact (escape_exact engine engine_is_ere s sm_init t). Qed.

  Lemma model_uvlist_sound : uvlist_sound_law (model_ops engine) uv_values.
  Proof.
    intros p t Hu Hne. cbn [model_ops po_match po_uvlist] in *. unfold sm_match, sm_of in *.
    rewrite (uvlist_exact engine engine_is_ere p sm_init t Hu).
    unfold uv_values. rewrite filter_In. split; [|tauto].
    intros H. split; [exact H|]. destruct t; [congruence | reflexivity].
  Qed.

  Lemma model_escape_unique : escape_unique_law (model_ops engine).
  Proof.
    intros s. split; [exact (escape_unique engine s sm_init) | apply unescape_escape].
  Qed.

  Lemma model_uvlist_not_unique : uvlist_not_unique_law (model_ops engine).
  Proof.
    intros p Hu. cbn [model_ops po_unique po_uvlist] in *. unfold sm_unique, sm_of in *.
    unfold is_uvlist in Hu. rewrite set_pattern_uvlist in Hu.
    apply andb_true_iff in Hu as [Hu _]. apply andb_true_iff in Hu as [Hu _].
    destruct (is_unique (fst (set_pattern engine sm_init p true))) eqn:E; [|reflexivity].
    apply unique_iff in E. exfalso.
    unfold can_match_multiple in *. destruct p as [|c t]; [discriminate Hu|].
    destruct (c =? c_cw_rawregex_char); [discriminate Hu|].
    rewrite (cw_snd_fst _ _ _ _ Hu) in E. discriminate E.
  Qed.

  Lemma model_laws :
    unique_sound_law (model_ops engine) /\ multi_complete_law (model_ops engine) /\
    escape_exact_law (model_ops engine) /\ escape_unique_law (model_ops engine) /\
    uvlist_sound_law (model_ops engine) uv_values /\ uvlist_not_unique_law (model_ops engine).
  Proof.
    exact (conj model_unique_sound (conj model_multi_complete (conj model_escape_exact
          (conj model_escape_unique (conj model_uvlist_sound model_uvlist_not_unique))))).
  Qed.
End EngineLaws.
