(* C15 -- PatProofs.v : lemmas about the StringMatcher model (Pat/Translate.v, Pat/Ere.v). *)
From Coq Require Import List Arith NArith Bool Lia.
From Muscle Require Import Gen.Consts Pat.Ere Pat.EreProofs Pat.Translate Pat.Simple Pat.TranslateProofs Pat.DenoteProofs.
Import ListNotations.
Local Open Scope N_scope.

(* ------------------------------------------------------------------ SetPattern overwrites the whole object *)

(* what can be observed of a StringMatcher: every member, the compiled regex only while REGEXVALID *)
Definition obs (st : sm) :=
  (s_pattern st, s_valid st, s_negate st, s_multi st, s_simple st, s_uvlist st, s_ranges st,
   if s_valid st then s_regexp st else None).

Lemma set_pattern_overwrites :
  forall engine st1 st2 p simple,
    obs (fst (set_pattern engine st1 p simple)) = obs (fst (set_pattern engine st2 p simple)) /\
    snd (set_pattern engine st1 p simple) = snd (set_pattern engine st2 p simple).
Proof.
  intros engine [p1 v1 n1 m1 s1 u1 r1 x1] [p2 v2 n2 m2 s2 u2 r2 x2] p simple.
  unfold set_pattern.
  destruct (if simple then can_match_multiple p else (has_regex_tokens p, false)) as [multi only].
  destruct simple.
  - destruct (strip_negate p) as [neg str].
    destruct (simple_body str) as [[ranges rp] str'].
    destruct v1, v2, ranges as [|r0 rs], rp as [|c0 cs], str' as [|d0 ds];
      cbv [free_regex set_uvlist set_regex set_ranges set_negate set_multi set_pat obs fst snd is_nil
           s_pattern s_valid s_negate s_multi s_simple s_uvlist s_ranges s_regexp app];
      try (split; reflexivity);
      match goal with |- context [engine ?x] => destruct (engine x) end; split; reflexivity.
  - destruct v1, v2, p as [|c0 cs];
      cbv [free_regex set_uvlist set_regex set_ranges set_negate set_multi set_pat obs fst snd is_nil
           s_pattern s_valid s_negate s_multi s_simple s_uvlist s_ranges s_regexp app];
      try (split; reflexivity);
      destruct (engine (c0 :: cs)); split; reflexivity.
Qed.

(* ------------------------------------------------------------------ what Match answers, in terms of the regex string *)

Lemma matches_simple_regex : forall engine st0 p re s,
  regex_string p true = Some re ->
  matches (fst (set_pattern engine st0 p true)) s =
  xorb (fst (strip_negate p)) (match engine re with RxOk m => m s | RxErr => false end).
Proof.
  intros engine [p0 v0 n0 m0 s0 u0 r0 x0] p re s H.
  unfold regex_string in H. unfold set_pattern.
  destruct (can_match_multiple p) as [multi only].
  destruct (strip_negate p) as [neg str]. cbn [fst snd] in *.
  destruct (simple_body str) as [[ranges rp] str'].
  destruct ranges as [|r1 rs]; cbn [is_nil] in H; [|discriminate].
  destruct rp as [|c0 cs]; cbn [is_nil] in H.
  - destruct str' as [|d0 ds]; cbn [is_nil] in H; [discriminate|]. inversion H; subst re; clear H.
    destruct v0;
      cbv [free_regex set_uvlist set_regex set_ranges set_negate set_multi set_pat fst snd is_nil
           s_pattern s_valid s_negate s_multi s_simple s_uvlist s_ranges s_regexp app];
      destruct (engine (d0 :: ds)); cbv [matches match_raw is_nil s_negate s_ranges s_valid s_regexp fst];
      destruct neg; rewrite ?xorb_false_l, ?xorb_true_l; reflexivity.
  - inversion H; subst re; clear H.
    destruct v0;
      cbv [free_regex set_uvlist set_regex set_ranges set_negate set_multi set_pat fst snd is_nil
           s_pattern s_valid s_negate s_multi s_simple s_uvlist s_ranges s_regexp app];
      destruct (engine (c0 :: cs)); cbv [matches match_raw is_nil s_negate s_ranges s_valid s_regexp fst];
      destruct neg; rewrite ?xorb_false_l, ?xorb_true_l; reflexivity.
Qed.

(* ------------------------------------------------------------------ the wildcard form: translate_correct *)

Lemma tbl_skip_seconds :
  c_sp_skip_escape_first = 92 /\
  forallb (fun b => tr_plain b && negb (mem b c_sp_escaped_prefix_for)) c_sp_skip_escape_seconds = true.
Proof. vm_compute. split; reflexivity. Qed.

(* on the repaired translation the special case for a leading "\<" changes nothing: the
   backslash would not have reached the regex anyway *)
Lemma skip_noop : forall str, tr_loop (skip_escaped_first str) false = tr_loop str false.
Proof.
  intros str. unfold skip_escaped_first.
  destruct str as [|a [|b t]]; try reflexivity.
  destruct ((a =? c_sp_skip_escape_first) && mem b c_sp_skip_escape_seconds) eqn:E; [|reflexivity].
  apply andb_true_iff in E as [Ea Eb]. destruct tbl_skip_seconds as [T1 T2].
  rewrite T1 in Ea. apply N.eqb_eq in Ea. subst a.
  apply mem_In in Eb. rewrite forallb_forall in T2. apply T2 in Eb.
  apply andb_true_iff in Eb as [Hp Hn]. apply negb_true_iff in Hn.
  change (92 :: b :: t) with (ch_bsl :: b :: t). rewrite tr_loop_esc. unfold tr_esc. rewrite Hn.
  cbn [tr_loop app]. unfold tr_plain in Hp. destruct (action_of b); try discriminate. reflexivity.
Qed.

Definition wrap (r : ere) : ere := ECat (ECat EBol (EGroup r)) EEol.

Lemma compile_wrapped : forall al,
  wf_alt al = true ->
  ere_compile (c_sp_regex_prefix ++ rx_alt al ++ c_sp_regex_suffix) = COk (wrap (close_frame (fr_alt al f0))).
Proof.
  intros al H. destruct tbl_wrap as [Tp Ts]. rewrite Tp, Ts. unfold ere_compile.
  transitivity (match psteps (rx_alt al ++ [41; 36]) (pnorm [push_anchor f0 EBol] f0) with
                | SOk st => pfinish st | SErr => CErr | SUnsup => CUnsupported end); [reflexivity|].
  destruct parse_syntax as (_ & _ & P). rewrite P by exact H. reflexivity.
Qed.

Lemma head_ok_strip : forall p, head_ok p = true -> strip_negate p = (false, p).
Proof.
  intros [|c t] H; [reflexivity|]. unfold strip_negate.
  replace c_sp_negate_char with ch_tilde by (vm_compute; reflexivity).
  cbn [head_ok] in H. apply negb_true_iff in H. apply orb_false_iff in H as [H _].
  apply orb_false_iff in H as [H _]. rewrite H. reflexivity.
Qed.

Lemma head_ok_body : forall p, head_ok p = true -> simple_body p = ([], regex_of_simple p, p).
Proof.
  intros [|c t] H; [reflexivity|]. unfold simple_body.
  replace c_sp_rawregex_char with ch_backtick by (vm_compute; reflexivity).
  replace c_sp_range_open with ch_lt by (vm_compute; reflexivity).
  cbn [head_ok] in H. apply negb_true_iff in H. apply orb_false_iff in H as [H H3].
  apply orb_false_iff in H as [_ H2]. rewrite H2, H3. reflexivity.
Qed.

Lemma regex_of_simple_nonnil : forall p, is_nil (regex_of_simple p) = false.
Proof. intros p. unfold regex_of_simple. destruct tbl_wrap as [Tp _]. rewrite Tp. reflexivity. Qed.

Lemma regex_string_pattern : forall neg al,
  wf_pattern al = true ->
  regex_string (print_pattern neg al) true =
    Some (c_sp_regex_prefix ++ rx_alt al ++ c_sp_regex_suffix) /\
  fst (strip_negate (print_pattern neg al)) = neg.
Proof.
  intros neg al H. unfold wf_pattern in H. apply andb_true_iff in H as [Hwf Hh].
  assert (Es : strip_negate (print_pattern neg al) = (neg, print_alt al)).
  { unfold print_pattern. destruct neg; cbn [app].
    - unfold strip_negate. replace c_sp_negate_char with ch_tilde by (vm_compute; reflexivity).
      rewrite N.eqb_refl. reflexivity.
    - apply head_ok_strip; exact Hh. }
  split; [|rewrite Es; reflexivity].
  unfold regex_string. rewrite Es. cbn [snd]. rewrite head_ok_body by exact Hh.
  cbn [is_nil]. rewrite regex_of_simple_nonnil.
  unfold regex_of_simple. rewrite skip_noop.
  destruct tr_loop_syntax as (_ & _ & T).
  pose proof (T al Hwf []) as E. rewrite app_nil_r in E. cbn [tr_loop] in E. rewrite app_nil_r in E.
  rewrite E. reflexivity.
Qed.

Section Engine.
  Variable engine : list N -> rx.
  (* libc regcomp/regexec behave as Pat/Ere.v on every regex string inside that model *)
  Hypothesis engine_is_ere : forall re, ere_compile re <> CUnsupported -> engine re = ere_engine re.

  Theorem translate_correct : forall neg al st0 s,
    wf_pattern al = true ->
    (matches (fst (set_pattern engine st0 (print_pattern neg al) true)) s = true <-> den_pattern neg al s).
  Proof.
    intros neg al st0 s H.
    destruct (regex_string_pattern neg al H) as [Er En].
    rewrite (matches_simple_regex engine st0 _ _ s Er). rewrite En.
    pose proof H as H'. unfold wf_pattern in H'. apply andb_true_iff in H' as [Hwf _].
    pose proof (compile_wrapped al Hwf) as Ec.
    rewrite engine_is_ere by (rewrite Ec; discriminate).
    unfold ere_engine. rewrite Ec.
    assert (Em : ere_exec (wrap (close_frame (fr_alt al f0))) s = true <-> den_alt al s).
    { unfold wrap. rewrite ere_exec_anchored.
      destruct denote_syntax as (_ & _ & D). rewrite D by reflexivity.
      unfold aden. cbn [f_alts f0]. tauto. }
    unfold den_pattern. destruct neg.
    - rewrite xorb_true_l. rewrite negb_true_iff. rewrite <- Em.
      destruct (ere_exec (wrap (close_frame (fr_alt al f0))) s); split; congruence.
    - rewrite xorb_false_l. exact Em.
  Qed.
End Engine.
