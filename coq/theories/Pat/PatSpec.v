(* C15 -- PatSpec.v : INTERFACE for users of the pattern matcher (the tree traversal of C05).

   A client states its theorems over an abstract [pat_ops] and takes the laws below as Section
   hypotheses; Pat/PatProofs.v proves that the StringMatcher model ([model_ops]) satisfies each of
   them (given the regex-engine premise), so the hypotheses can be discharged.
   Strings are lists of character codes.  Nothing here depends on the model. *)
From Coq Require Import List NArith Bool.
Import ListNotations.

Record pat_ops := mkOps {
  po_match : list N -> list N -> bool;    (* StringMatcher(pattern).Match(subject) *)
  po_unique : list N -> bool;             (* StringMatcher(pattern).IsPatternUnique() *)
  po_uvlist : list N -> bool;             (* StringMatcher(pattern).IsPatternListOfUniqueValues() *)
  po_unescape : list N -> list N;         (* RemoveEscapeChars(pattern) *)
  po_escape : list N -> list N            (* EscapeRegexTokens(string) *)
}.

(* a pattern reported unique matches RemoveEscapeChars(pattern) and nothing else: a hash lookup of
   that one name reaches exactly the children the pattern matches *)
Definition unique_sound_law (o : pat_ops) : Prop :=
  forall p t, po_unique o p = true -> (po_match o p t = true <-> t = po_unescape o p).

(* whenever two different strings match, the pattern is not reported unique *)
Definition multi_complete_law (o : pat_ops) : Prop :=
  forall p t1 t2, po_match o p t1 = true -> po_match o p t2 = true -> t1 <> t2 -> po_unique o p = false.

(* escaping yields a unique pattern for exactly the escaped string *)
Definition escape_exact_law (o : pat_ops) : Prop :=
  forall s t, po_match o (po_escape o s) t = true <-> t = s.
Definition escape_unique_law (o : pat_ops) : Prop :=
  forall s, po_unique o (po_escape o s) = true /\ po_unescape o (po_escape o s) = s.

(* a pattern reported "list of unique values" matches a non-empty string iff it is one of the
   values [vals p]; [vals] is the client's own way of splitting the pattern (the traversal splits
   at unescaped commas and drops the escape characters) *)
Definition uvlist_sound_law (o : pat_ops) (vals : list N -> list (list N)) : Prop :=
  forall p t, po_uvlist o p = true -> t <> [] -> (po_match o p t = true <-> In t (vals p)).

(* unique and list-of-unique-values exclude each other *)
Definition uvlist_not_unique_law (o : pat_ops) : Prop :=
  forall p, po_uvlist o p = true -> po_unique o p = false.
