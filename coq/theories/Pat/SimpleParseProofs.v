(* C15 -- SimpleParseProofs.v : the reader of Pat/SimpleParse.v only accepts strings that are the concrete
   syntax of a well-formed tree:  sparse p = Some al -> p = print_alt al /\ wf_pattern al = true. *)
From Coq Require Import List Arith NArith Bool Lia.
From Muscle Require Import Pat.Ere Pat.Simple Pat.SimpleParse.
Import ListNotations.
Local Open Scope N_scope.

Lemma parse_items_sound : forall f s its r,
  parse_items f s = Some (its, r) ->
  s = print_items its ++ ch_rbr :: r /\ forallb item_ok its = true.
Proof.
  induction f as [|f IH]; intros s its r H; [discriminate H|].
  cbn [parse_items] in H. destruct s as [|c s']; [discriminate H|].
  destruct (c =? ch_rbr) eqn:Er.
  - inversion H; subst. apply N.eqb_eq in Er. subst c. split; reflexivity.
  - destruct (class_ok c) eqn:Ec; [|discriminate H].
    assert (Hsingle : forall t its' r3, parse_items f t = Some (its', r3) ->
                      c :: t = print_items ((c, c) :: its') ++ ch_rbr :: r3 /\ forallb item_ok ((c, c) :: its') = true).
    { intros t its' r3 E. apply IH in E as [E1 E2]. subst t. split.
      - cbn [print_items]. unfold print_item. cbn [fst snd]. rewrite N.eqb_refl. reflexivity.
      - cbn [forallb]. rewrite E2. unfold item_ok. cbn [fst snd]. rewrite Ec, N.leb_refl. reflexivity. }
    destruct s' as [|m [|d r2]].
    + destruct (parse_items f []) as [[its' r3]|] eqn:E; [|discriminate H]. inversion H; subst. apply (Hsingle [] its' r); exact E.
    + destruct (parse_items f [m]) as [[its' r3]|] eqn:E; [|discriminate H]. inversion H; subst. apply (Hsingle [m] its' r); exact E.
    + destruct ((m =? ch_minus) && class_ok d && (c <? d)) eqn:Em.
      * apply andb_true_iff in Em as [Em Hlt]. apply andb_true_iff in Em as [Em Hd].
        apply N.eqb_eq in Em. subst m. apply N.ltb_lt in Hlt.
        destruct (parse_items f r2) as [[its' r3]|] eqn:E; [|discriminate H]. inversion H; subst.
        apply IH in E as [E1 E2]. subst r2. split.
        -- cbn [print_items]. unfold print_item. cbn [fst snd].
           replace (c =? d) with false by (symmetry; apply N.eqb_neq; lia). reflexivity.
        -- cbn [forallb]. rewrite E2. unfold item_ok. cbn [fst snd]. rewrite Ec, Hd.
           replace (c <=? d) with true by (symmetry; apply N.leb_le; lia). reflexivity.
      * destruct (parse_items f (m :: d :: r2)) as [[its' r3]|] eqn:E; [|discriminate H]. inversion H; subst.
        apply (Hsingle (m :: d :: r2) its' r); exact E.
Qed.

Section WithAlt.
  Variable palt : list N -> option (salt * list N).
  Variable f : nat.
  Hypothesis palt_sound : forall s al r, palt s = Some (al, r) -> s = print_alt al ++ r /\ wf_alt al = true.

  Lemma parse_atom_sound : forall s a r,
    parse_atom palt f s = Some (a, r) -> s = print_atom a ++ r /\ wf_atom a = true.
  Proof.
    intros s a r H. unfold parse_atom in H. destruct s as [|c s']; [discriminate H|].
    destruct (c =? ch_star) eqn:E1; [apply N.eqb_eq in E1; inversion H; subst; split; reflexivity|].
    destruct (c =? ch_qm) eqn:E2; [apply N.eqb_eq in E2; inversion H; subst; split; reflexivity|].
    destruct (c =? ch_bsl) eqn:E3.
    { apply N.eqb_eq in E3. destruct s' as [|d r2]; [discriminate H|]. inversion H; subst. split; reflexivity. }
    destruct (c =? ch_lbr) eqn:E4.
    { apply N.eqb_eq in E4. subst c. destruct s' as [|h r2]; [discriminate H|].
      destruct (h =? ch_hat) eqn:Eh.
      - apply N.eqb_eq in Eh. subst h.
        destruct (parse_items f r2) as [[[|it its] r3]|] eqn:E; try discriminate H. inversion H; subst.
        apply parse_items_sound in E as [Ea Eb]. subst r2. split.
        + cbn [print_atom app]. rewrite <- app_assoc. reflexivity.
        + cbn [wf_atom]. rewrite Eb. reflexivity.
      - destruct (parse_items f (h :: r2)) as [[[|it its] r3]|] eqn:E; try discriminate H. inversion H; subst.
        apply parse_items_sound in E as [Ea Eb]. split.
        + cbn [print_atom app]. rewrite <- app_assoc. cbn [app]. rewrite Ea. reflexivity.
        + cbn [wf_atom]. rewrite Eb. reflexivity. }
    destruct (c =? ch_lpar) eqn:E5.
    { apply N.eqb_eq in E5. subst c.
      destruct (palt s') as [[al [|c2 r2]]|] eqn:E; try discriminate H.
      destruct (c2 =? ch_rpar) eqn:E6; [|discriminate H]. apply N.eqb_eq in E6. subst c2. inversion H; subst.
      apply palt_sound in E as [Ea Eb]. subst s'. split.
      - cbn [print_atom app]. rewrite <- app_assoc. reflexivity.
      - exact Eb. }
    destruct (lit_ok c) eqn:E6; [|discriminate H]. inversion H; subst. split; [reflexivity | exact E6].
  Qed.

  Lemma parse_branch_sound : forall g s b r,
    parse_branch palt f g s = Some (b, r) -> s = print_branch b ++ r /\ wf_branch b = true.
  Proof.
    induction g as [|g IH]; intros s b r H; [discriminate H|].
    cbn [parse_branch] in H. destruct s as [|c s']; [inversion H; subst; split; reflexivity|].
    destruct (is_sep c || (c =? ch_rpar)); [inversion H; subst; split; reflexivity|].
    destruct (parse_atom palt f (c :: s')) as [[a r1]|] eqn:Ea; [|discriminate H].
    destruct (parse_branch palt f g r1) as [[b' r2]|] eqn:Eb; [|discriminate H]. inversion H; subst.
    apply parse_atom_sound in Ea as [A1 A2]. apply IH in Eb as [B1 B2]. subst r1. split.
    - rewrite A1. cbn [print_branch]. rewrite <- app_assoc. reflexivity.
    - cbn [wf_branch]. rewrite A2, B2. reflexivity.
  Qed.
End WithAlt.

Lemma parse_alt_sound : forall fuel s al r,
  parse_alt fuel s = Some (al, r) -> s = print_alt al ++ r /\ wf_alt al = true.
Proof.
  induction fuel as [|f IH]; intros s al r H; [discriminate H|].
  cbn [parse_alt] in H.
  destruct (parse_branch (parse_alt f) f (S (length s)) s) as [[b [|c r1]]|] eqn:Eb; try discriminate H.
  - inversion H; subst. apply (parse_branch_sound _ _ IH) in Eb. exact Eb.
  - apply (parse_branch_sound _ _ IH) in Eb as [B1 B2].
    destruct (is_sep c) eqn:Es.
    + destruct (parse_alt f r1) as [[al' r2]|] eqn:Ea; [|discriminate H]. inversion H; subst.
      apply IH in Ea as [A1 A2]. subst r1. split.
      * cbn [print_alt]. rewrite <- app_assoc. cbn [app].
        unfold is_sep in Es. destruct (c =? ch_comma) eqn:Ec.
        -- apply N.eqb_eq in Ec. subst c. reflexivity.
        -- rewrite orb_false_r in Es. apply N.eqb_eq in Es. subst c. reflexivity.
      * cbn [wf_alt]. rewrite B2, A2. reflexivity.
    + inversion H; subst. split; [reflexivity | exact B2].
Qed.

Theorem sparse_sound : forall p al, sparse p = Some al -> p = print_alt al /\ wf_pattern al = true.
Proof.
  intros p al H. unfold sparse in H.
  destruct (parse_alt (S (length p)) p) as [[al' [|c r]]|] eqn:E; try discriminate H.
  destruct (head_ok p) eqn:Eh; [|discriminate H]. inversion H; subst al'.
  apply parse_alt_sound in E as [E1 E2]. rewrite app_nil_r in E1. split; [exact E1|].
  unfold wf_pattern. rewrite E2. rewrite <- E1. exact Eh.
Qed.
