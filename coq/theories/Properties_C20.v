(* C20 -- property theorems only: each is closed by [exact] of a lemma proved elsewhere. *)
From Coq Require Import List Arith NArith.
From Muscle Require Import Pulse.PulseModel Pulse.PulseProofs.

Theorem C20_upd_same : forall m x n, upd m x n x = n.
Proof. exact upd_same. Qed.
Print Assumptions C20_upd_same.
